import QuiverModel.Lemmas.Num.Kernel
/-
Lemmas about the surd kernel of M-Num: the `sqfree` loop invariant, `lower`, `build`, `explode`,
`radical`, the four surd operations, `ssign`, `surdCompare`. Owned by C20.
-/
open QM QM.Num QM.Builtins
namespace C20

theorem sq_ge_four {d : Int} (hd : 2 ≤ d) : 4 ≤ d * d := by nlinarith
theorem sq_ge_two_mul {d : Int} (hd : 2 ≤ d) : 2 * d ≤ d * d := by nlinarith

/-- Loop invariant of `sqfree`: with `2 ≤ d`, `0 < m`, no square of `2 ≤ e < d` dividing `m`, and
fuel at least `(m - d).toNat + 1`, the loop ends with `(k', m')`, `k'²·m' = k²·m`, `m'` square-free. -/
theorem sqfreeF_spec : ∀ (fuel : Nat) (k m d : Int), 2 ≤ d → 0 < m →
    (∀ e : Int, 2 ≤ e → e < d → ¬ (e * e ∣ m)) → (m - d).toNat + 1 ≤ fuel →
    ∃ k' m', sqfreeF fuel k m d = .ok (k', m') ∧ k' * k' * m' = k * k * m ∧ 0 < m' ∧ SqFree m' ∧
      (0 < k → 0 < k') := by
  intro fuel
  induction fuel with
  | zero => intro k m d _ _ _ hf; omega
  | succ fuel ih =>
    intro k m d hd hm hinv hf
    have h4 := sq_ge_four hd
    have h2d := sq_ge_two_mul hd
    have hdd0 : d * d ≠ 0 := by omega
    by_cases hlt : m < d * d
    · -- first branch: d² > m
      refine ⟨k, m, ?_, rfl, hm, ?_, fun h => h⟩
      · simp [sqfreeF, cmp_eq_one, hlt]
      · intro e he hdiv
        by_cases hed : e < d
        · exact hinv e he hed hdiv
        · have : d * d ≤ e * e := by nlinarith
          have := Int.le_of_dvd hm hdiv
          omega
    · have hge : d * d ≤ m := by omega
      by_cases hdiv : d * d ∣ m
      · -- second branch: d² divides m
        obtain ⟨m', hm'⟩ := hdiv
        have hm'pos : 0 < m' := by
          by_contra hc
          have : d * d * m' ≤ 0 := Int.mul_nonpos_of_nonneg_of_nonpos (by omega) (by omega)
          omega
        have hm'4 : 4 * m' ≤ m := by rw [hm']; nlinarith
        have hq : m.tdiv (d * d) = m' := by
          rw [Int.tdiv_eq_ediv_of_dvd ⟨m', hm'⟩]
          exact Int.ediv_eq_of_eq_mul_right hdd0 hm'
        have hmod : m.tmod (d * d) = 0 := Int.tmod_eq_zero_of_dvd ⟨m', hm'⟩
        obtain ⟨k', m'', h1, h2, h3, h4', h5⟩ := ih (k * d) m' d hd hm'pos
          (fun e he hed hdv => hinv e he hed (by rw [hm']; exact Dvd.dvd.mul_left hdv _))
          (by omega)
        refine ⟨k', m'', ?_, ?_, h3, h4', fun hk => h5 (Int.mul_pos hk (by omega))⟩
        · simp [sqfreeF, cmp_eq_one, hlt, iMod_eq hdd0, iDiv_eq hdd0, hmod, hq, h1]
        · rw [h2, hm']; ring
      · -- third branch: try d + 1
        have hmod : m.tmod (d * d) ≠ 0 := fun h => hdiv (Int.dvd_of_tmod_eq_zero h)
        obtain ⟨k', m'', h1, h2, h3, h4', h5⟩ := ih k m (d + 1) (by omega) hm
          (fun e he hed hdv => by
            by_cases hed' : e < d
            · exact hinv e he hed' hdv
            · have : e = d := by omega
              subst this; exact hdiv hdv)
          (by omega)
        refine ⟨k', m'', ?_, h2, h3, h4', h5⟩
        simp [sqfreeF, cmp_eq_one, hlt, iMod_eq hdd0, hmod, h1]

theorem lower_rat (n d : Int) : lower (.rat n d) = if d = 1 then .int n else .rat n d := by
  unfold lower
  split
  · rename_i h; simp at h; simp [h]
  · rename_i h
    split
    · rename_i h1; subst h1; exact absurd rfl (h n)
    · rfl

theorem lower_canon {r : Rt} (h : r.Canon) : CanonCoeff (lower r.toCoeff) := by
  unfold Rt.toCoeff; rw [lower_rat]
  split
  · trivial
  · rename_i h1; exact ⟨by have := h.1; omega, h.2⟩

theorem lower_coeffQ (r : Rt) : coeffQ (lower r.toCoeff) = r.toQ := by
  unfold Rt.toCoeff; rw [lower_rat]
  split
  · rename_i h1; simp [coeffQ, toRational, QM.Num.Rt.toQ, h1]
  · simp [coeffQ, toRational, QM.Num.Rt.toQ]

theorem coeff_toNum_canon {c : Coeff} (h : CanonCoeff c) : Canon c.toNum := by
  cases c with
  | int z => trivial
  | rat n d => exact ⟨by have := h.1; omega, h.2⟩

theorem coeff_toNum_toQsqrt (c : Coeff) : toQsqrt c.toNum = (coeffQ c, 0, 1) := by
  cases c <;> simp [Coeff.toNum, toQsqrt, coeffQ, toRational, QM.Num.Rt.toQ]

theorem coeff_toNum_not_surd (c : Coeff) : ¬ isSurd c.toNum := by
  cases c <;> simp [Coeff.toNum, isSurd]

theorem sgnQ_eq_zero {q : ℚ} : sgnQ q = 0 ↔ q = 0 := (sgnQ_cases q).2.1

/-- `z` denotes `A + B·√n` in simplest form -/
def Denotes (z : Num) (A B : ℚ) (n : Int) : Prop :=
  (toQsqrt z).1 = A ∧ (toQsqrt z).2.1 = B ∧ (B ≠ 0 → (toQsqrt z).2.2 = n.toNat ∧ isSurd z) ∧
    (B = 0 → ¬ isSurd z)

theorem build_spec {a b : Rt} {n : Int} (ha : a.Canon) (hb : b.Canon) (hn : 1 < n) (hsq : SqFree n) :
    ∃ z, build a b n = .ok z ∧ Canon z ∧ Denotes z a.toQ b.toQ n := by
  have hn1 : ¬ (n = 1) := by omega
  by_cases hb0 : b.toQ = 0
  · refine ⟨(lower a.toCoeff).toNum, ?_, coeff_toNum_canon (lower_canon ha), ?_⟩
    · simp [build, cmp_eq_zero, hn1, rsign_spec b hb.1, sgnQ_eq_zero, hb0]
    · rw [Denotes, coeff_toNum_toQsqrt, lower_coeffQ]
      exact ⟨rfl, hb0.symm, fun h => absurd hb0 h, fun _ => coeff_toNum_not_surd _⟩
  · refine ⟨.surd (lower a.toCoeff) (lower b.toCoeff) n, ?_, ?_, ?_⟩
    · simp [build, cmp_eq_zero, hn1, rsign_spec b hb.1, sgnQ_eq_zero, hb0]
    · exact ⟨lower_canon ha, lower_canon hb, by rw [lower_coeffQ]; exact hb0, hn, hsq⟩
    · refine ⟨?_, ?_, fun _ => ⟨rfl, trivial⟩, fun h => absurd h hb0⟩
      · simp only [toQsqrt, lower_coeffQ]
      · simp only [toQsqrt, lower_coeffQ]


/-! ### surd operations -/

/-- rational part / surd coefficient of a number -/
def qa (x : Num) : ℚ := (toQsqrt x).1
def qb (x : Num) : ℚ := (toQsqrt x).2.1
/-- the radical a number carries (1 for integers and rationals) -/
def rad (x : Num) : Int := (explode x).2.2

theorem canonCoeff_d_pos {c : Coeff} (h : CanonCoeff c) : 0 < (toRational c).d := by
  cases c with
  | int z => simp [toRational]
  | rat n d => have := h.1; simp [toRational]; omega

theorem explode_spec (x : Num) (hx : Canon x) :
    0 < (explode x).1.d ∧ 0 < (explode x).2.1.d ∧ (explode x).1.toQ = qa x ∧
    (explode x).2.1.toQ = qb x ∧
    (isSurd x → 1 < rad x ∧ SqFree (rad x) ∧ qb x ≠ 0 ∧ (rad x).toNat = (toQsqrt x).2.2) ∧
    (¬ isSurd x → qb x = 0) := by
  cases x with
  | int z => simp [explode, toRational, qa, qb, toQsqrt, QM.Num.Rt.toQ, isSurd]
  | rat n d =>
    have := hx.1
    simp [explode, toRational, qa, qb, toQsqrt, QM.Num.Rt.toQ, isSurd, this]
  | surd a b n =>
    obtain ⟨ha, hb, hb0, hn, hsq⟩ := hx
    refine ⟨canonCoeff_d_pos ha, canonCoeff_d_pos hb, rfl, rfl, fun _ => ⟨hn, hsq, hb0, rfl⟩, fun h => absurd trivial h⟩

theorem radical_spec (b1 : Rt) (n1 : Int) (b2 : Rt) (n2 : Int) (h1 : 0 < b1.d) (h2 : 0 < b2.d) :
    radical b1 n1 b2 n2 = .ok (if b1.toQ = 0 then some n2 else if b2.toQ = 0 then some n1
      else if n1 = n2 then some n1 else none) := by
  unfold radical
  simp only [rsign_spec b1 h1, rsign_spec b2 h2, ok_bind, sgnQ_eq_zero, iCompare_eq, cmp_eq_zero]
  split
  · rfl
  · split
    · rfl
    · split <;> rfl

/-- operands whose radicals can be combined -/
def Compatible (x y : Num) : Prop := qb x = 0 ∨ qb y = 0 ∨ rad x = rad y

instance (x y : Num) : Decidable (Compatible x y) := by unfold Compatible; exact inferInstance

/-- the radical of the result field -/
def sharedRadical (x y : Num) : Int := if qb x = 0 then rad y else rad x

theorem radical_of_operands (x y : Num) (hx : Canon x) (hy : Canon y) :
    radical (explode x).2.1 (rad x) (explode y).2.1 (rad y) =
      .ok (if Compatible x y then some (sharedRadical x y) else none) := by
  obtain ⟨_, hbx, _, hqx, _, _⟩ := explode_spec x hx
  obtain ⟨_, hby, _, hqy, _, _⟩ := explode_spec y hy
  rw [radical_spec _ _ _ _ hbx hby, hqx, hqy]
  unfold Compatible sharedRadical
  by_cases h1 : qb x = 0
  · simp [h1]
  · by_cases h2 : qb y = 0
    · simp [h1, h2]
    · by_cases h3 : rad x = rad y <;> simp [h1, h2, h3]

theorem sharedRadical_good (x y : Num) (hx : Canon x) (hy : Canon y) (hs : isSurd x ∨ isSurd y) :
    1 < sharedRadical x y ∧ SqFree (sharedRadical x y) := by
  obtain ⟨_, _, _, _, hsx, hnx⟩ := explode_spec x hx
  obtain ⟨_, _, _, _, hsy, hny⟩ := explode_spec y hy
  unfold sharedRadical
  by_cases h1 : qb x = 0
  · have nsx : ¬ isSurd x := fun h => (hsx h).2.2.1 h1
    have sy : isSurd y := hs.resolve_left nsx
    simp only [h1, if_true]; exact ⟨(hsy sy).1, (hsy sy).2.1⟩
  · have sx : isSurd x := by by_contra h; exact h1 (hnx h)
    simp only [h1, if_false]; exact ⟨(hsx sx).1, (hsx sx).2.1⟩

/-- common shape of the statements about the four surd operations -/
def SurdOpSpec (op : Num → Num → Res (Option Num)) (fa fb : Num → Num → ℚ) : Prop :=
  ∀ x y : Num, Canon x → Canon y → (isSurd x ∨ isSurd y) →
    (¬ Compatible x y → op x y = .ok none) ∧
    (Compatible x y → ∃ z, op x y = .ok (some z) ∧ Canon z ∧
        Denotes z (fa x y) (fb x y) (sharedRadical x y))

theorem surdAdd_spec : SurdOpSpec surdAdd (fun x y => qa x + qa y) (fun x y => qb x + qb y) := by
  intro x y hx hy hs
  have hrad := radical_of_operands x y hx hy
  obtain ⟨hax, hbx, hqax, hqbx, _, _⟩ := explode_spec x hx
  obtain ⟨hay, hby, hqay, hqby, _, _⟩ := explode_spec y hy
  obtain ⟨hn, hsq⟩ := sharedRadical_good x y hx hy hs
  unfold rad at hrad
  rcases hex : explode x with ⟨a1, b1, n1⟩
  rcases hey : explode y with ⟨a2, b2, n2⟩
  rw [hex] at hax hbx hqax hqbx hrad
  rw [hey] at hay hby hqay hqby hrad
  simp only at hax hbx hqax hqbx hay hby hqay hqby hrad
  constructor
  · intro hc
    simp [surdAdd, hex, hey, hrad, hc]
  · intro hc
    obtain ⟨a, ha1, ha2, ha3⟩ := radd_spec (x := a1) (y := a2) (ne_of_gt hax) (ne_of_gt hay)
    obtain ⟨b, hb1, hb2, hb3⟩ := radd_spec (x := b1) (y := b2) (ne_of_gt hbx) (ne_of_gt hby)
    obtain ⟨z, hz1, hz2, hz3⟩ := build_spec ha2 hb2 hn hsq
    refine ⟨z, by simp [surdAdd, hex, hey, hrad, hc, ha1, hb1, hz1], hz2, ?_⟩
    rw [ha3, hb3, hqax, hqay, hqbx, hqby] at hz3; exact hz3

theorem surdSub_spec : SurdOpSpec surdSub (fun x y => qa x - qa y) (fun x y => qb x - qb y) := by
  intro x y hx hy hs
  have hrad := radical_of_operands x y hx hy
  obtain ⟨hax, hbx, hqax, hqbx, _, _⟩ := explode_spec x hx
  obtain ⟨hay, hby, hqay, hqby, _, _⟩ := explode_spec y hy
  obtain ⟨hn, hsq⟩ := sharedRadical_good x y hx hy hs
  unfold rad at hrad
  rcases hex : explode x with ⟨a1, b1, n1⟩
  rcases hey : explode y with ⟨a2, b2, n2⟩
  rw [hex] at hax hbx hqax hqbx hrad
  rw [hey] at hay hby hqay hqby hrad
  simp only at hax hbx hqax hqbx hay hby hqay hqby hrad
  constructor
  · intro hc
    simp [surdSub, hex, hey, hrad, hc]
  · intro hc
    obtain ⟨a, ha1, ha2, ha3⟩ := rsub_spec (x := a1) (y := a2) (ne_of_gt hax) (ne_of_gt hay)
    obtain ⟨b, hb1, hb2, hb3⟩ := rsub_spec (x := b1) (y := b2) (ne_of_gt hbx) (ne_of_gt hby)
    obtain ⟨z, hz1, hz2, hz3⟩ := build_spec ha2 hb2 hn hsq
    refine ⟨z, by simp [surdSub, hex, hey, hrad, hc, ha1, hb1, hz1], hz2, ?_⟩
    rw [ha3, hb3, hqax, hqay, hqbx, hqby] at hz3; exact hz3


theorem radN_toQ (n : Int) : (Rt.mk n 1).toQ = (n : ℚ) := by simp [QM.Num.Rt.toQ]

theorem surdMul_spec : SurdOpSpec surdMul
    (fun x y => qa x * qa y + qb x * qb y * (sharedRadical x y : ℚ))
    (fun x y => qa x * qb y + qa y * qb x) := by
  intro x y hx hy hs
  have hrad := radical_of_operands x y hx hy
  obtain ⟨hax, hbx, hqax, hqbx, _, _⟩ := explode_spec x hx
  obtain ⟨hay, hby, hqay, hqby, _, _⟩ := explode_spec y hy
  obtain ⟨hn, hsq⟩ := sharedRadical_good x y hx hy hs
  unfold rad at hrad
  rcases hex : explode x with ⟨a1, b1, n1⟩
  rcases hey : explode y with ⟨a2, b2, n2⟩
  rw [hex] at hax hbx hqax hqbx hrad
  rw [hey] at hay hby hqay hqby hrad
  simp only at hax hbx hqax hqbx hay hby hqay hqby hrad
  constructor
  · intro hc
    simp [surdMul, hex, hey, hrad, hc]
  · intro hc
    obtain ⟨p1, hp1, cp1, vp1⟩ := rmul_spec (x := a1) (y := a2) (ne_of_gt hax) (ne_of_gt hay)
    obtain ⟨p2, hp2, cp2, vp2⟩ := rmul_spec (x := b1) (y := b2) (ne_of_gt hbx) (ne_of_gt hby)
    obtain ⟨p3, hp3, cp3, vp3⟩ := rmul_spec (x := p2) (y := ⟨sharedRadical x y, 1⟩) (ne_of_gt cp2.1) (by simp)
    obtain ⟨a, ha1, ha2, ha3⟩ := radd_spec (x := p1) (y := p3) (ne_of_gt cp1.1) (ne_of_gt cp3.1)
    obtain ⟨p4, hp4, cp4, vp4⟩ := rmul_spec (x := a1) (y := b2) (ne_of_gt hax) (ne_of_gt hby)
    obtain ⟨p5, hp5, cp5, vp5⟩ := rmul_spec (x := a2) (y := b1) (ne_of_gt hay) (ne_of_gt hbx)
    obtain ⟨b, hb1, hb2, hb3⟩ := radd_spec (x := p4) (y := p5) (ne_of_gt cp4.1) (ne_of_gt cp5.1)
    obtain ⟨z, hz1, hz2, hz3⟩ := build_spec ha2 hb2 hn hsq
    refine ⟨z, by simp [surdMul, hex, hey, hrad, hc, hp1, hp2, hp3, ha1, hp4, hp5, hb1, hz1], hz2, ?_⟩
    rw [ha3, hb3, vp1, vp3, vp2, vp4, vp5, radN_toQ, hqax, hqay, hqbx, hqby] at hz3; exact hz3

/-- Division by `y = a₂ + b₂√n`: nil when the norm `a₂² − b₂²·n` is zero, otherwise the exact
quotient (multiply by the conjugate). -/
theorem surdDiv_spec (x y : Num) (hx : Canon x) (hy : Canon y) (hs : isSurd x ∨ isSurd y) :
    (¬ Compatible x y → surdDiv x y = .ok none) ∧
    (Compatible x y →
      (qa y * qa y - qb y * qb y * (sharedRadical x y : ℚ) = 0 → surdDiv x y = .ok none) ∧
      (qa y * qa y - qb y * qb y * (sharedRadical x y : ℚ) ≠ 0 →
        ∃ z, surdDiv x y = .ok (some z) ∧ Canon z ∧
          Denotes z
            ((qa x * qa y - qb x * qb y * (sharedRadical x y : ℚ)) /
              (qa y * qa y - qb y * qb y * (sharedRadical x y : ℚ)))
            ((qb x * qa y - qa x * qb y) /
              (qa y * qa y - qb y * qb y * (sharedRadical x y : ℚ)))
            (sharedRadical x y))) := by
  have hrad := radical_of_operands x y hx hy
  obtain ⟨hax, hbx, hqax, hqbx, _, _⟩ := explode_spec x hx
  obtain ⟨hay, hby, hqay, hqby, _, _⟩ := explode_spec y hy
  obtain ⟨hn, hsq⟩ := sharedRadical_good x y hx hy hs
  unfold rad at hrad
  rcases hex : explode x with ⟨a1, b1, n1⟩
  rcases hey : explode y with ⟨a2, b2, n2⟩
  rw [hex] at hax hbx hqax hqbx hrad
  rw [hey] at hay hby hqay hqby hrad
  simp only at hax hbx hqax hqbx hay hby hqay hqby hrad
  constructor
  · intro hc
    simp [surdDiv, hex, hey, hrad, hc]
  · intro hc
    obtain ⟨q1, hq1, cq1, vq1⟩ := rmul_spec (x := a2) (y := a2) (ne_of_gt hay) (ne_of_gt hay)
    obtain ⟨q2, hq2, cq2, vq2⟩ := rmul_spec (x := b2) (y := b2) (ne_of_gt hby) (ne_of_gt hby)
    obtain ⟨q3, hq3, cq3, vq3⟩ := rmul_spec (x := q2) (y := ⟨sharedRadical x y, 1⟩) (ne_of_gt cq2.1) (by simp)
    obtain ⟨dd, hdd, cdd, vdd⟩ := rsub_spec (x := q1) (y := q3) (ne_of_gt cq1.1) (ne_of_gt cq3.1)
    have vdd' : dd.toQ = qa y * qa y - qb y * qb y * (sharedRadical x y : ℚ) := by
      rw [vdd, vq1, vq3, vq2, radN_toQ, hqay, hqby]
    constructor
    · intro h0
      have : dd.toQ = 0 := by rw [vdd']; exact h0
      simp [surdDiv, hex, hey, hrad, hc, hq1, hq2, hq3, hdd, rsign_spec dd cdd.1, sgnQ_eq_zero, this]
    · intro h0
      have hne : dd.toQ ≠ 0 := by rw [vdd']; exact h0
      have hddn : dd.n ≠ 0 := by
        intro h; apply hne; simp [QM.Num.Rt.toQ, h]
      obtain ⟨p1, hp1, cp1, vp1⟩ := rmul_spec (x := a1) (y := a2) (ne_of_gt hax) (ne_of_gt hay)
      obtain ⟨p2, hp2, cp2, vp2⟩ := rmul_spec (x := b1) (y := b2) (ne_of_gt hbx) (ne_of_gt hby)
      obtain ⟨p3, hp3, cp3, vp3⟩ := rmul_spec (x := p2) (y := ⟨sharedRadical x y, 1⟩) (ne_of_gt cp2.1) (by simp)
      obtain ⟨na, hna, cna, vna⟩ := rsub_spec (x := p1) (y := p3) (ne_of_gt cp1.1) (ne_of_gt cp3.1)
      obtain ⟨a, ha1, ha2, ha3⟩ := rquot_spec (x := na) (y := dd) (ne_of_gt cna.1) (ne_of_gt cdd.1) hddn
      obtain ⟨p4, hp4, cp4, vp4⟩ := rmul_spec (x := b1) (y := a2) (ne_of_gt hbx) (ne_of_gt hay)
      obtain ⟨p5, hp5, cp5, vp5⟩ := rmul_spec (x := a1) (y := b2) (ne_of_gt hax) (ne_of_gt hby)
      obtain ⟨nb, hnb, cnb, vnb⟩ := rsub_spec (x := p4) (y := p5) (ne_of_gt cp4.1) (ne_of_gt cp5.1)
      obtain ⟨b, hb1, hb2, hb3⟩ := rquot_spec (x := nb) (y := dd) (ne_of_gt cnb.1) (ne_of_gt cdd.1) hddn
      obtain ⟨z, hz1, hz2, hz3⟩ := build_spec ha2 hb2 hn hsq
      refine ⟨z, ?_, hz2, ?_⟩
      · simp [surdDiv, hex, hey, hrad, hc, hq1, hq2, hq3, hdd, rsign_spec dd cdd.1, sgnQ_eq_zero, hne,
          hp1, hp2, hp3, hna, ha1, hp4, hp5, hnb, hb1, hz1]
      · rw [ha3, hb3, vna, vnb, vp1, vp3, vp2, vp4, vp5, radN_toQ, vdd', hqax, hqay, hqbx, hqby] at hz3
        exact hz3

/-! ### sign of `a + b·√n` -/

/-- the decision procedure of `ssign`, on values -/
def surdSign (A B : ℚ) (n : Int) : Int :=
  if B = 0 then sgnQ A
  else if 0 < B then (if A < 0 then sgnQ (A * A - B * B * n) * -1 else 1)
  else (if 0 < A then sgnQ (A * A - B * B * n) else -1)

theorem sgnQ_lt_zero {q : ℚ} : sgnQ q = -1 ↔ q < 0 := (sgnQ_cases q).1
theorem sgnQ_pos {q : ℚ} : sgnQ q = 1 ↔ 0 < q := (sgnQ_cases q).2.2

theorem cmp_sgnQ_zero (q : ℚ) : cmp (sgnQ q) 0 = sgnQ q := by
  unfold sgnQ cmp
  split
  · simp
  · split <;> simp

theorem ssign_eq (a b : Rt) (n : Int) (ha : 0 < a.d) (hb : 0 < b.d) :
    ssign a b n = .ok (surdSign a.toQ b.toQ n) := by
  obtain ⟨a2, ha2, ca2, va2⟩ := rmul_spec (x := a) (y := a) (ne_of_gt ha) (ne_of_gt ha)
  obtain ⟨bb, hbb, cbb, vbb⟩ := rmul_spec (x := b) (y := b) (ne_of_gt hb) (ne_of_gt hb)
  obtain ⟨b2n, hb2n, cb2n, vb2n⟩ := rmul_spec (x := bb) (y := ⟨n, 1⟩) (ne_of_gt cbb.1) (by simp)
  have hcmp := rcompare_spec a2 b2n ca2.1 cb2n.1
  rw [va2, vb2n, vbb, radN_toQ] at hcmp
  unfold ssign surdSign
  simp only [rsign_spec a ha, rsign_spec b hb, ok_bind, iCompare_eq, cmp_sgnQ_zero, sgnQ_eq_zero,
    ha2, hbb, hb2n, hcmp, sgnQ_pos, sgnQ_lt_zero, iMul_eq, pure_eq]
  by_cases h0 : b.toQ = 0
  · simp [h0]
  · simp only [h0, if_false]
    by_cases h1 : 0 < b.toQ
    · simp only [h1, if_true]
      by_cases h2 : a.toQ < 0 <;> simp [h2]
    · simp only [h1, if_false]
      by_cases h2 : 0 < a.toQ <;> simp [h2]

theorem surdCompare_spec (x y : Num) (hx : Canon x) (hy : Canon y) :
    surdCompare x y = .ok (if Compatible x y then
      some (surdSign (qa x - qa y) (qb x - qb y) (sharedRadical x y)) else none) := by
  have hrad := radical_of_operands x y hx hy
  obtain ⟨hax, hbx, hqax, hqbx, _, _⟩ := explode_spec x hx
  obtain ⟨hay, hby, hqay, hqby, _, _⟩ := explode_spec y hy
  unfold rad at hrad
  rcases hex : explode x with ⟨a1, b1, n1⟩
  rcases hey : explode y with ⟨a2, b2, n2⟩
  rw [hex] at hax hbx hqax hqbx hrad
  rw [hey] at hay hby hqay hqby hrad
  simp only at hax hbx hqax hqbx hay hby hqay hqby hrad
  by_cases hc : Compatible x y
  · obtain ⟨a, ha1, ha2, ha3⟩ := rsub_spec (x := a1) (y := a2) (ne_of_gt hax) (ne_of_gt hay)
    obtain ⟨b, hb1, hb2, hb3⟩ := rsub_spec (x := b1) (y := b2) (ne_of_gt hbx) (ne_of_gt hby)
    have := ssign_eq a b (sharedRadical x y) ha2.1 hb2.1
    rw [ha3, hb3, hqax, hqay, hqbx, hqby] at this
    simp [surdCompare, hex, hey, hrad, hc, ha1, hb1, this]
  · simp [surdCompare, hex, hey, hrad, hc]

theorem add_surd_eq (x y : Num) (hs : isSurd x ∨ isSurd y) : Num.add (some x) (some y) = surdAdd x y := by
  cases x <;> cases y <;> simp [isSurd] at hs <;> rfl
theorem sub_surd_eq (x y : Num) (hs : isSurd x ∨ isSurd y) : Num.sub (some x) (some y) = surdSub x y := by
  cases x <;> cases y <;> simp [isSurd] at hs <;> rfl
theorem mul_surd_eq (x y : Num) (hs : isSurd x ∨ isSurd y) : Num.mul (some x) (some y) = surdMul x y := by
  cases x <;> cases y <;> simp [isSurd] at hs <;> rfl
theorem div_surd_eq (x y : Num) (hs : isSurd x ∨ isSurd y) : Num.div (some x) (some y) = surdDiv x y := by
  cases x <;> cases y <;> simp [isSurd] at hs <;> rfl
theorem compare_surd_eq (x y : Num) (hs : isSurd x ∨ isSurd y) :
    Num.compare (some x) (some y) = surdCompare x y := by
  cases x <;> cases y <;> simp [isSurd] at hs <;> rfl

end C20
