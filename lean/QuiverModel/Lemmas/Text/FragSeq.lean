import QuiverModel.Lemmas.Text.Fragment
/-
Fragment port, step 2: SEQUENCES of several one-term chains (`a, B[x], c` — or one per line).

  * `RestP` / `SeqP` — the layouts of a sequence: every step a layout of its term; between the steps
    `, ` (sequence group flat) or a line break (broken), the same choice for the whole sequence;
  * `printsAs_sequence` — the engine prints `sequenceDoc ts` as a layout of `ts`;
  * `sequenceP_lay` — `sequence` (on `seq_sep` of the type-grammar port) reads every layout back.
-/
namespace QM.Frag
open QM.Text QM.Parse

/-! ### Layouts of a sequence -/

/-- the steps after the first, each behind its separator: `, `, a line break, or — around a "tall"
    step — a blank line (two line breaks at the sequence's indentation `z`) -/
inductive RestP (z : Nat) : Bool → List T → List Piece → Prop
  | nil {b : Bool} : RestP z b [] []
  | consFlat {t : T} {ts : List T} {ps rest : List Piece} :
      LayP t ps → RestP z false ts rest → RestP z false (t :: ts) (.atom [','] :: .sp :: (ps ++ rest))
  | consBrk {t : T} {ts : List T} {ps rest : List Piece} (k : Nat) :
      LayP t ps → RestP z true ts rest → RestP z true (t :: ts) (.nl k :: (ps ++ rest))
  | consTall {b : Bool} {t : T} {ts : List T} {ps rest : List Piece} :
      LayP t ps → RestP z b ts rest → RestP z b (t :: ts) (.nl z :: .nl z :: (ps ++ rest))

/-- a layout of the sequence `ts` at indentation `z` -/
def SeqP (z : Nat) (ts : List T) (all : List Piece) : Prop :=
  ∃ b t ts' ps rest, ts = t :: ts' ∧ all = ps ++ rest ∧ LayP t ps ∧ RestP z b ts' rest

/-! ### The engine prints a layout -/

theorem pl_seqSep_flat (w col i : Nat) (st : List Frame) :
    printLoop w col (⟨i, .flat, seqSepDoc⟩ :: st) [] = .atom [','] :: .sp :: printLoop w (col + 1 + 1) st [] := by
  simp only [seqSepDoc, pl_concat, mkFrames, List.cons_append, List.nil_append, pl_ifBreak_flat, pl_text,
    pl_line_flat, List.length_cons, List.length_nil]
theorem pl_seqSep_brk (w col i : Nat) (st : List Frame) :
    printLoop w col (⟨i, .brk, seqSepDoc⟩ :: st) [] = .nl i :: printLoop w i st [] := by
  simp only [seqSepDoc, pl_concat, mkFrames, List.cons_append, List.nil_append, pl_ifBreak_brk, pl_nil,
    pl_line_brk]

theorem pl_hardline (w col i : Nat) (m : Mode) (st : List Frame) :
    printLoop w col (⟨i, m, .hardline⟩ :: st) [] = .nl i :: printLoop w i st [] :=
  printLoop_break_nil w col _ st (.inr (.inr rfl))

theorem restPrintAs (ts : List T) (hwf : ∀ t ∈ ts, T.WF t) :
    ∀ (pt : Bool) (w col i : Nat) (m : Mode) (st : List Frame),
      ∃ ps' ps col', printLoop w col (mkFrames i m (restDocs pt ts) ++ st) [] = ps' ++ printLoop w col' st [] ∧
        renderPieces ps' = renderPieces ps ∧ RestP i (isBrk m) ts ps := by
  induction ts with
  | nil =>
    intro pt w col i m st
    exact ⟨[], [], col, by simp [restDocs, mkFrames], rfl, .nil⟩
  | cons t ts ih =>
    intro pt w col i m st
    have ht : PrintsAs (fieldDoc (chainDocOf t)) (LayP t) :=
      printsAs_fieldDoc (printsAs_chainDocOf (printLoop_term t (hwf t (by simp))))
    have ih' := ih (fun x hx => hwf x (by simp [hx])) (isTall t (chainDocOf t))
    simp only [restDocs]
    cases hsep : (pt || isTall t (chainDocOf t)) with
    | true =>
      simp only [if_true, mkFrames, List.cons_append, List.nil_append, pl_hardline]
      obtain ⟨ps', ps, col1, hp, hr, hl⟩ := ht w i i m
        (mkFrames i m (restDocs (isTall t (chainDocOf t)) ts) ++ st)
      obtain ⟨rs', rs, col2, hq, hr2, hrest⟩ := ih' w col1 i m st
      rw [hp, hq]
      exact ⟨.nl i :: .nl i :: (ps' ++ rs'), .nl i :: .nl i :: (ps ++ rs), col2, by simp,
        by simp [renderPieces_append, renderPieces, hr, hr2], .consTall hl hrest⟩
    | false =>
      simp only [Bool.false_eq_true, if_false, mkFrames, List.cons_append, List.nil_append]
      cases m with
      | flat =>
        rw [pl_seqSep_flat]
        obtain ⟨ps', ps, col1, hp, hr, hl⟩ := ht w (col + 1 + 1) i .flat
          (mkFrames i .flat (restDocs (isTall t (chainDocOf t)) ts) ++ st)
        obtain ⟨rs', rs, col2, hq, hr2, hrest⟩ := ih' w col1 i .flat st
        rw [hp, hq]
        exact ⟨.atom [','] :: .sp :: (ps' ++ rs'), .atom [','] :: .sp :: (ps ++ rs), col2, by simp,
          by simp [renderPieces_append, renderPieces, hr, hr2], .consFlat hl hrest⟩
      | brk =>
        rw [pl_seqSep_brk]
        obtain ⟨ps', ps, col1, hp, hr, hl⟩ := ht w i i .brk
          (mkFrames i .brk (restDocs (isTall t (chainDocOf t)) ts) ++ st)
        obtain ⟨rs', rs, col2, hq, hr2, hrest⟩ := ih' w col1 i .brk st
        rw [hp, hq]
        exact ⟨.nl i :: (ps' ++ rs'), .nl i :: (ps ++ rs), col2, by simp,
          by simp [renderPieces_append, renderPieces, hr, hr2], .consBrk i hl hrest⟩

/-- `sequence_doc_with` at indentation `i` prints a layout of the sequence -/
theorem printsAs_sequence {ts : List T} (hwf : WFProg ts) :
    ∀ (w col i : Nat) (m : Mode) (st : List Frame),
      ∃ ps' ps col', printLoop w col (⟨i, m, sequenceDoc ts⟩ :: st) [] = ps' ++ printLoop w col' st [] ∧
        renderPieces ps' = renderPieces ps ∧ SeqP i ts ps := by
  obtain ⟨hne, hall⟩ := hwf
  cases ts with
  | nil => exact absurd rfl hne
  | cons t ts =>
    intro w col i m st
    have hfd : PrintsAs (fieldDoc (chainDocOf t)) (LayP t) :=
      printsAs_fieldDoc (printsAs_chainDocOf (printLoop_term t (hall t (by simp))))
    simp only [sequenceDoc, Doc.mkGroup]
    obtain ⟨m', hg⟩ := pl_group w col i m st
      (.concat [fieldDoc (chainDocOf t), .nest 0 (.concat (restDocs (isTall t (chainDocOf t)) ts))])
      (forcesBreak (.concat [fieldDoc (chainDocOf t),
        .nest 0 (.concat (restDocs (isTall t (chainDocOf t)) ts))]))
    rw [hg, pl_concat]
    simp only [mkFrames, List.cons_append, List.nil_append]
    obtain ⟨ps', ps, col1, hp, hr, hl⟩ := hfd w col i m'
      (⟨i, m', .nest 0 (.concat (restDocs (isTall t (chainDocOf t)) ts))⟩ :: st)
    rw [hp, pl_nest, pl_concat, Nat.add_zero]
    obtain ⟨rs', rs, col2, hq, hr2, hrest⟩ :=
      restPrintAs ts (fun x hx => hall x (by simp [hx])) (isTall t (chainDocOf t)) w col1 i m' st
    rw [hq]
    exact ⟨ps' ++ rs', ps ++ rs, col2, by simp, by simp [renderPieces_append, hr, hr2],
      _, t, ts, ps, rs, rfl, rfl, hl, hrest⟩

/-! ### A layout of a sequence (at indentation 0) is blocks around single blank lines -/

/-- a piece list that is tidy behind whatever ends in an atom or a gap, and before anything tidy -/
def TidyBlockStart (p : List Piece) : Prop :=
  ∀ (b : Bool) (r : List Piece), tidyPs true r = true → tidyPs b (p ++ r) = true

theorem restP_blocks {b : Bool} {ts : List T} {ps : List Piece} (h : RestP 0 b ts ps) :
    ∀ (p0 : List Piece), TidyBlockStart p0 → nulFree p0 = true →
      ∃ bs, bs ≠ [] ∧ p0 ++ ps = joinBlocks bs ∧ ∀ x ∈ bs, tidyPs false x = true ∧ nulFree x = true := by
  induction h with
  | nil =>
    intro p0 h0 hn
    refine ⟨[p0], by simp, by simp [joinBlocks], ?_⟩
    intro x hx
    simp only [List.mem_singleton] at hx
    subst hx
    have := h0 false [] rfl
    rw [List.append_nil] at this
    exact ⟨this, hn⟩
  | @consFlat t ts q rest hl _ ih =>
    intro p0 h0 hn
    have h3 : goodAtom [','] = true := by decide
    obtain ⟨bs, hne, heq, hall⟩ := ih (p0 ++ .atom [','] :: .sp :: q)
      (by
        intro b r hr
        have := h0 b (.atom [','] :: .sp :: (q ++ r)) (by simpa [tidyPs, okAtom, h3] using layP_tidy hl false r hr)
        simpa using this)
      (by simp only [nulFree_append, nulFree, hn, nulAtom_comma, layP_nulFree hl, Bool.and_self])
    exact ⟨bs, hne, by rw [← heq]; simp, hall⟩
  | @consBrk t ts q rest k hl _ ih =>
    intro p0 h0 hn
    obtain ⟨bs, hne, heq, hall⟩ := ih (p0 ++ .nl k :: q)
      (by
        intro b r hr
        have := h0 b (.nl k :: (q ++ r)) (by simpa [tidyPs] using layP_tidy hl false r hr)
        simpa using this)
      (by simp only [nulFree_append, nulFree, hn, layP_nulFree hl, Bool.and_self])
    exact ⟨bs, hne, by rw [← heq]; simp, hall⟩
  | @consTall b' t ts q rest hl _ ih =>
    intro p0 h0 hn
    obtain ⟨bs, hne, heq, hall⟩ := ih q (fun b r hr => layP_tidy hl b r hr) (layP_nulFree hl)
    refine ⟨p0 :: bs, by simp, ?_, ?_⟩
    · cases bs with
      | nil => exact absurd rfl hne
      | cons b1 bs => simp [joinBlocks, heq]
    · intro x hx
      simp only [List.mem_cons] at hx
      rcases hx with rfl | hx
      · have := h0 false [] rfl
        rw [List.append_nil] at this
        exact ⟨this, hn⟩
      · exact hall x hx

/-- a layout of a sequence at the top level -/
theorem seqP_blocks {ts : List T} {ps : List Piece} (h : SeqP 0 ts ps) :
    ∃ bs, bs ≠ [] ∧ ps = joinBlocks bs ∧ ∀ x ∈ bs, tidyPs false x = true ∧ nulFree x = true := by
  obtain ⟨_, t, ts', p1, rest, _, rfl, hl, hrest⟩ := h
  exact restP_blocks hrest p1 (fun b r hr => layP_tidy hl b r hr) (layP_nulFree hl)

theorem seqP_head {z : Nat} {ts : List T} {ps : List Piece} (h : SeqP z ts ps) : HeadOk (renderPieces ps) := by
  obtain ⟨_, t, ts', p1, rest, _, rfl, hl, _⟩ := h
  rw [renderPieces_append]
  exact (layP_head hl).append _

/-! ### `seq_sep` -/

theorem skipHspaceComments_suffix_aux (n : Nat) :
    ∀ (b : Bool) (i : Str), i.length ≤ n → skipHspaceComments b i <:+ i := by
  induction n with
  | zero =>
    intro b i h
    have : i = [] := List.eq_nil_of_length_eq_zero (by omega)
    subst this; simp [skipHspaceComments]
  | succ n ih =>
    intro b i h
    cases i with
    | nil => simp [skipHspaceComments]
    | cons c r =>
      have hr : r.length ≤ n := by simp at h; omega
      unfold skipHspaceComments
      split
      · split
        · exact List.suffix_refl _
        · exact List.IsSuffix.trans (ih _ r hr) (List.suffix_cons c r)
      · split
        · exact List.IsSuffix.trans (ih _ r hr) (List.suffix_cons c r)
        · split
          · rename_i r' _
            have hr' : r'.length ≤ n := by simp at hr; omega
            exact List.IsSuffix.trans (ih _ r' hr')
              (List.IsSuffix.trans (List.suffix_cons _ r') (List.suffix_cons _ _))
          · exact List.suffix_refl _

theorem skipSepTail_suffix_aux (n : Nat) :
    ∀ (b : Bool) (i : Str), i.length ≤ n → skipSepTail b i <:+ i := by
  induction n with
  | zero =>
    intro b i h
    have : i = [] := List.eq_nil_of_length_eq_zero (by omega)
    subst this; simp [skipSepTail]
  | succ n ih =>
    intro b i h
    cases i with
    | nil => simp [skipSepTail]
    | cons c r =>
      have hr : r.length ≤ n := by simp at h; omega
      unfold skipSepTail
      split
      · split
        · exact List.IsSuffix.trans (ih _ r hr) (List.suffix_cons c r)
        · exact List.IsSuffix.trans (ih _ r hr) (List.suffix_cons c r)
      · split
        · exact List.IsSuffix.trans (ih _ r hr) (List.suffix_cons c r)
        · split
          · rename_i r' _
            have hr' : r'.length ≤ n := by simp at hr; omega
            exact List.IsSuffix.trans (ih _ r' hr')
              (List.IsSuffix.trans (List.suffix_cons _ r') (List.suffix_cons _ _))
          · exact List.suffix_refl _

theorem sound_lineEnding : Sound lineEnding := by
  intro i
  unfold lineEnding
  split
  · exact List.suffix_cons _ _
  · exact List.IsSuffix.trans (List.suffix_cons _ _) (List.suffix_cons _ _)
  · exact List.suffix_refl _

theorem sound_seqSep : Sound seqSep := by
  intro i
  have key : ∀ i1 : Str, i1 <:+ i → Res.Within i
      (match alt (pchar ',') lineEnding i1 with
       | .ok _ i2 => (Res.ok () (skipSepTail false i2) : Res Unit)
       | .err e c => .err e c
       | .out => .out) := by
    intro i1 h1
    have h2 := (Sound.alt (Sound.pchar ',') sound_lineEnding) i1
    cases e : alt (pchar ',') lineEnding i1 with
    | ok a i2 =>
      rw [e] at h2
      exact List.IsSuffix.trans (skipSepTail_suffix_aux i2.length false i2 (Nat.le_refl _))
        (List.IsSuffix.trans h2 h1)
    | err x c =>
      rw [e] at h2
      exact List.IsSuffix.trans h2 h1
    | out => trivial
  exact key _ (skipHspaceComments_suffix_aux i.length false i (Nat.le_refl _))

/-- no leading horizontal white space or comment to skip -/
theorem skipHspaceComments_stop {c : Char} {r : Str} (h1 : Parse.isHspace c = false) (h2 : c ≠ '/') :
    skipHspaceComments false (c :: r) = c :: r := by
  unfold skipHspaceComments
  simp only [Bool.false_eq_true, if_false, h1]
  split
  · exact absurd rfl h2
  · rfl

theorem skipSepTail_skip {c : Char} (h : (isMultispace c || c = ',') = true) (R : Str) :
    skipSepTail false (c :: R) = skipSepTail false R := by
  conv => lhs; unfold skipSepTail
  simp only [Bool.false_eq_true, if_false]
  rw [if_pos (by simpa using h)]

theorem skipSepTail_headOk {s : Str} (h : HeadOk s) : skipSepTail false s = s := by
  have hs := headOk_stop h
  obtain ⟨c, r, rfl, hc⟩ := h
  simp only [headAll_cons, Bool.and_eq_true, Bool.not_eq_true', bne_iff_ne, ne_eq] at hs
  have hcomma : c ≠ ',' := headCls_ne hc ',' (by decide)
  unfold skipSepTail
  simp only [Bool.false_eq_true, if_false, hs.1, hcomma, decide_false, Bool.or_self]
  split
  · exact absurd rfl hs.2
  · rfl

theorem skipSepTail_spaces (k : Nat) (R : Str) :
    skipSepTail false (List.replicate k ' ' ++ R) = skipSepTail false R := by
  induction k with
  | zero => simp
  | succ k ih => rw [List.replicate_succ, List.cons_append, skipSepTail_skip (by decide), ih]

/-- `, ` between two steps -/
theorem seqSep_comma {s : Str} (h : HeadOk s) : seqSep (',' :: ' ' :: s) = .ok () s := by
  unfold seqSep
  rw [skipHspaceComments_stop (by decide) (by decide)]
  simp only [alt, pchar, if_true]
  rw [skipSepTail_skip (by decide), skipSepTail_headOk h]

/-- a line break (and the next step's indentation) between two steps -/
theorem seqSep_nl (k : Nat) {s : Str} (h : HeadOk s) :
    seqSep ('\n' :: (List.replicate k ' ' ++ s)) = .ok () s := by
  unfold seqSep
  rw [skipHspaceComments_stop (by decide) (by decide)]
  simp only [alt, pchar, lineEnding, show ¬ ('\n' = ',') by decide, if_false]
  rw [skipSepTail_spaces, skipSepTail_headOk h]

/-- the final newline of the formatted program -/
theorem seqSep_final : seqSep ['\n'] = .ok () [] := by
  unfold seqSep
  rw [skipHspaceComments_stop (by decide) (by decide)]
  simp [alt, pchar, lineEnding, skipSepTail]

theorem seqSep_fails_nil : Fails seqSep [] :=
  ⟨[], .crlf, by simp [seqSep, skipHspaceComments, alt, pchar, lineEnding]⟩

/-! ### `sequence` reads a layout back -/

theorem dropWhile_nl_spaces (k : Nat) {s : Str} (h : HeadOk s) :
    ('\n' :: (List.replicate k ' ' ++ s)).dropWhile isMultispace = s := by
  rw [List.dropWhile_cons, show isMultispace '\n' = true by decide]
  simp only [if_true]
  induction k with
  | zero => simpa using headOk_not_ms h
  | succ k ih =>
    rw [List.replicate_succ, List.cons_append, List.dropWhile_cons, show isMultispace ' ' = true by decide]
    simpa using ih

theorem headOk_not_paren {s : Str} (h : HeadOk s) : headAll (fun c => c != '(') s = true := by
  obtain ⟨c, r, rfl, hc⟩ := h
  rw [headAll_cons]
  simpa using headCls_ne hc '(' (by decide)

/-- a step may be followed by a line break and another step -/
theorem stop_nl_headOk (k : Nat) {s : Str} (h : HeadOk s) : Stop ('\n' :: (List.replicate k ' ' ++ s)) := by
  refine ⟨by simp [IdStop]; decide, by rw [headAll_cons]; decide, ?_⟩
  rw [dropWhile_nl_spaces k h]
  exact headOk_not_paren h

/-! white space between a line break and the next step: the indentation, or a blank line -/

theorem dropWhile_ws {w s : Str} (hw : w.all isMultispace = true) (h : HeadOk s) :
    (w ++ s).dropWhile isMultispace = s := by
  induction w with
  | nil => simpa using headOk_not_ms h
  | cons c w ih =>
    simp only [List.all_cons, Bool.and_eq_true] at hw
    rw [List.cons_append, List.dropWhile_cons, hw.1]
    simpa using ih hw.2

theorem skipSepTail_ws {w : Str} (hw : w.all isMultispace = true) (R : Str) :
    skipSepTail false (w ++ R) = skipSepTail false R := by
  induction w with
  | nil => rfl
  | cons c w ih =>
    simp only [List.all_cons, Bool.and_eq_true] at hw
    rw [List.cons_append, skipSepTail_skip (by simp [hw.1]), ih hw.2]

/-- a line break, any white space, the next step -/
theorem seqSep_nlw {w s : Str} (hw : w.all isMultispace = true) (h : HeadOk s) :
    seqSep ('\n' :: (w ++ s)) = .ok () s := by
  unfold seqSep
  rw [skipHspaceComments_stop (by decide) (by decide)]
  simp only [alt, pchar, lineEnding, show ¬ ('\n' = ',') by decide, if_false]
  rw [skipSepTail_ws hw, skipSepTail_headOk h]

theorem stopC_nlw {w s : Str} (hw : w.all isMultispace = true) (h : HeadOk s) : StopC ('\n' :: (w ++ s)) := by
  have hdrop : ('\n' :: (w ++ s)).dropWhile isMultispace = s := by
    rw [List.dropWhile_cons, show isMultispace '\n' = true by decide]
    simpa using dropWhile_ws hw h
  refine ⟨⟨by simp [IdStop]; decide, by rw [headAll_cons]; decide, ?_⟩, ?_⟩
  · rw [hdrop]; exact headOk_not_paren h
  · have hws : ws1 ('\n' :: (w ++ s)) = .ok () s := by
      simp [ws1, show isMultispace '\n' = true by decide, dropWhile_ws hw h]
    refine Fails.alt (Fails.seq_ok hws (Fails.seq (ptag_pipe_fails (.inl h)))) ?_
    exact ⟨'\n' :: (w ++ s), .space, by simp [hspace1, Parse.isHspace]⟩

theorem all_ms_replicate (k : Nat) : (List.replicate k ' ').all isMultispace = true := by
  simp only [List.all_eq_true]
  intro c hc; rw [List.eq_of_mem_replicate hc]; decide

theorem all_ms_blank (z : Nat) :
    (List.replicate z ' ' ++ '\n' :: List.replicate z ' ').all isMultispace = true := by
  rw [List.all_append, all_ms_replicate, List.all_cons, all_ms_replicate]
  decide

theorem restP_stop {z : Nat} {b : Bool} {ts : List T} {ps : List Piece} (h : RestP z b ts ps) {rest : Str}
    (hs : StopC rest) : StopC (renderPieces ps ++ rest) := by
  cases h with
  | nil => simpa [renderPieces] using hs
  | consFlat hl _ => simpa [renderPieces, Piece.render] using stopC_comma _
  | @consBrk t ts ps0 rest0 k hl _ =>
    have hh := ((layP_head hl).append (renderPieces rest0)).append rest
    have := stopC_nlw (all_ms_replicate k) hh
    simpa [renderPieces, Piece.render, renderPieces_append] using this
  | @consTall b' t ts ps0 rest0 hl _ =>
    have hh := ((layP_head hl).append (renderPieces rest0)).append rest
    have := stopC_nlw (all_ms_blank z) hh
    simpa [renderPieces, Piece.render, renderPieces_append] using this

theorem rest_lay {z : Nat} {b : Bool} {ts : List T} {ps : List Piece} (h : RestP z b ts ps) :
    ∀ (n : Nat) (rest : Str), (renderPieces ps).length < n → StopC rest →
      sepTail seqSep (chainP (termP n)) rest = .ok [] rest →
      sepTail seqSep (chainP (termP n)) (renderPieces ps ++ rest) = .ok ts rest := by
  induction h with
  | nil => intro n rest _ _ hend; simpa [renderPieces] using hend
  | consFlat hl hrest ih =>
    rename_i t ts ps0 rest0
    intro n rest hlen hs hend
    have hsplit : renderPieces (.atom [','] :: .sp :: (ps0 ++ rest0)) ++ rest =
        ',' :: ' ' :: (renderPieces ps0 ++ (renderPieces rest0 ++ rest)) := by
      simp [renderPieces, Piece.render, renderPieces_append]
    have hl1 : (renderPieces ps0).length < n ∧ (renderPieces rest0).length < n := by
      simp [renderPieces, Piece.render, renderPieces_append] at hlen; omega
    rw [hsplit]
    exact sepTail_cons sound_seqSep (chainP_sound (termP_sound n))
      (seqSep_comma ((layP_head hl).append _)) (by simp; omega)
      (chainP_lay hl n _ hl1.1 (restP_stop hrest hs)) (ih n rest hl1.2 hs hend)
  | consBrk k hl hrest ih =>
    rename_i t ts ps0 rest0
    intro n rest hlen hs hend
    have hsplit : renderPieces (.nl k :: (ps0 ++ rest0)) ++ rest =
        '\n' :: (List.replicate k ' ' ++ (renderPieces ps0 ++ (renderPieces rest0 ++ rest))) := by
      simp [renderPieces, Piece.render, renderPieces_append]
    have hl1 : (renderPieces ps0).length < n ∧ (renderPieces rest0).length < n := by
      simp [renderPieces, Piece.render, renderPieces_append] at hlen; omega
    rw [hsplit]
    exact sepTail_cons sound_seqSep (chainP_sound (termP_sound n))
      (seqSep_nl k ((layP_head hl).append _)) (by simp; omega)
      (chainP_lay hl n _ hl1.1 (restP_stop hrest hs)) (ih n rest hl1.2 hs hend)
  | @consTall b' t ts ps0 rest0 hl hrest ih =>
    intro n rest hlen hs hend
    have hsplit : renderPieces (.nl z :: .nl z :: (ps0 ++ rest0)) ++ rest =
        '\n' :: ((List.replicate z ' ' ++ '\n' :: List.replicate z ' ') ++
          (renderPieces ps0 ++ (renderPieces rest0 ++ rest))) := by
      simp [renderPieces, Piece.render, renderPieces_append]
    have hl1 : (renderPieces ps0).length < n ∧ (renderPieces rest0).length < n := by
      simp [renderPieces, Piece.render, renderPieces_append] at hlen; omega
    rw [hsplit]
    exact sepTail_cons sound_seqSep (chainP_sound (termP_sound n))
      (seqSep_nlw (all_ms_blank z) ((layP_head hl).append _)) (by simp; omega)
      (chainP_lay hl n _ hl1.1 (restP_stop hrest hs)) (ih n rest hl1.2 hs hend)

/-- `separated_list1(seq_sep, chain)` reads a layout of the sequence, up to a `rest` at which the
    list ends (`hend`) -/
theorem seqP_lay {z : Nat} {ts : List T} {ps : List Piece} (h : SeqP z ts ps) (n : Nat) (rest : Str)
    (hlen : (renderPieces ps).length < n) (hs : StopC rest)
    (hend : sepTail seqSep (chainP (termP n)) rest = .ok [] rest) :
    sepList1 seqSep (chainP (termP n)) (renderPieces ps ++ rest) = .ok ts rest := by
  obtain ⟨b, t, ts', p1, rs, rfl, rfl, hl, hrest⟩ := h
  have hl1 : (renderPieces p1).length < n ∧ (renderPieces rs).length < n := by
    simp [renderPieces_append] at hlen; omega
  rw [renderPieces_append, List.append_assoc]
  exact sepList1_cons (chainP_lay hl n _ hl1.1 (restP_stop hrest hs)) (rest_lay hrest n rest hl1.2 hs hend)

end QM.Frag
