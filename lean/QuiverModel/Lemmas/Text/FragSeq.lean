import QuiverModel.Lemmas.Text.Fragment
/-
Fragment port, step 2: SEQUENCES of several one-term chains (`a, B[x], c` — or one per line).

  * `RestP` / `SeqP` — the layouts of a sequence: every step a layout of its term; between the steps
    `, ` (sequence group flat) or a line break (broken), the same choice for the whole sequence;
  * `printsAs_sequence` — the engine prints `sequenceDoc ts` as a layout of `ts`;
  * `sequenceP_lay` — `sequence` (on `seq_sep` of the type-grammar port) reads every layout back.
-/
namespace QM.Frag
open QM.Text QM.Parse

/-! ### Layouts of a sequence -/

/-- the steps after the first, each behind its separator -/
inductive RestP : Bool → List T → List Piece → Prop
  | nil {b : Bool} : RestP b [] []
  | consFlat {t : T} {ts : List T} {ps rest : List Piece} :
      LayP t ps → RestP false ts rest → RestP false (t :: ts) (.atom [','] :: .sp :: (ps ++ rest))
  | consBrk {t : T} {ts : List T} {ps rest : List Piece} (k : Nat) :
      LayP t ps → RestP true ts rest → RestP true (t :: ts) (.nl k :: (ps ++ rest))

/-- a layout of the sequence `ts` -/
def SeqP (ts : List T) (all : List Piece) : Prop :=
  ∃ b t ts' ps rest, ts = t :: ts' ∧ all = ps ++ rest ∧ LayP t ps ∧ RestP b ts' rest

/-! ### The engine prints a layout -/

theorem pl_seqSep_flat (w col i : Nat) (st : List Frame) :
    printLoop w col (⟨i, .flat, seqSepDoc⟩ :: st) [] = .atom [','] :: .sp :: printLoop w (col + 1 + 1) st [] := by
  simp only [seqSepDoc, pl_concat, mkFrames, List.cons_append, List.nil_append, pl_ifBreak_flat, pl_text,
    pl_line_flat, List.length_cons, List.length_nil]
theorem pl_seqSep_brk (w col i : Nat) (st : List Frame) :
    printLoop w col (⟨i, .brk, seqSepDoc⟩ :: st) [] = .nl i :: printLoop w i st [] := by
  simp only [seqSepDoc, pl_concat, mkFrames, List.cons_append, List.nil_append, pl_ifBreak_brk, pl_nil,
    pl_line_brk]

/-- a step that is not a pipeline is not "tall" -/
theorem isTall_false {t : T} (hnp : noPipe t = true) (body : Doc) : isTall t body = false := by
  cases t with
  | chain f more =>
    have : ((f :: more).dropLast.any isIdent) = false := by
      simp only [noPipe, List.all_eq_true, Bool.not_eq_true'] at hnp
      simp only [List.any_eq_false]
      intro x hx; simp [hnp x hx]
    simp [isTall, this]
  | leaf _ => rfl
  | int _ => rfl
  | bin _ => rfl
  | str _ => rfl
  | tup _ _ => rfl

theorem restPrintAs (ts : List T) (hwf : ∀ t ∈ ts, T.WF t) (hnp : ∀ t ∈ ts, noPipe t = true) :
    ∀ (w col i : Nat) (m : Mode) (st : List Frame),
      ∃ ps' ps col', printLoop w col (mkFrames i m (restDocs false ts) ++ st) [] = ps' ++ printLoop w col' st [] ∧
        renderPieces ps' = renderPieces ps ∧ RestP (isBrk m) ts ps := by
  induction ts with
  | nil =>
    intro w col i m st
    exact ⟨[], [], col, by simp [restDocs, mkFrames], rfl, .nil⟩
  | cons t ts ih =>
    intro w col i m st
    have ht : PrintsAs (fieldDoc (chainDocOf t)) (LayP t) :=
      printsAs_fieldDoc (printsAs_chainDocOf (printLoop_term t (hwf t (by simp))))
    have ih' := ih (fun x hx => hwf x (by simp [hx])) (fun x hx => hnp x (by simp [hx]))
    simp only [restDocs, isTall_false (hnp t (by simp)), Bool.or_self, Bool.false_eq_true, if_false,
      mkFrames, List.cons_append, List.nil_append]
    cases m with
    | flat =>
      rw [pl_seqSep_flat]
      obtain ⟨ps', ps, col1, hp, hr, hl⟩ := ht w (col + 1 + 1) i .flat (mkFrames i .flat (restDocs false ts) ++ st)
      obtain ⟨rs', rs, col2, hq, hr2, hrest⟩ := ih' w col1 i .flat st
      rw [hp, hq]
      exact ⟨.atom [','] :: .sp :: (ps' ++ rs'), .atom [','] :: .sp :: (ps ++ rs), col2, by simp,
        by simp [renderPieces_append, renderPieces, hr, hr2], .consFlat hl hrest⟩
    | brk =>
      rw [pl_seqSep_brk]
      obtain ⟨ps', ps, col1, hp, hr, hl⟩ := ht w i i .brk (mkFrames i .brk (restDocs false ts) ++ st)
      obtain ⟨rs', rs, col2, hq, hr2, hrest⟩ := ih' w col1 i .brk st
      rw [hp, hq]
      exact ⟨.nl i :: (ps' ++ rs'), .nl i :: (ps ++ rs), col2, by simp,
        by simp [renderPieces_append, renderPieces, hr, hr2], .consBrk i hl hrest⟩

/-- `sequence_doc_with` prints a layout of the sequence -/
theorem printsAs_sequence {ts : List T} (hwf : WFProg ts) : PrintsAs (sequenceDoc ts) (SeqP ts) := by
  obtain ⟨hne, hall, hpipe⟩ := hwf
  cases ts with
  | nil => exact absurd rfl hne
  | cons t ts =>
    intro w col i m st
    have hfd : PrintsAs (fieldDoc (chainDocOf t)) (LayP t) :=
      printsAs_fieldDoc (printsAs_chainDocOf (printLoop_term t (hall t (by simp))))
    -- the `rest` of the sequence: empty (one step), or steps that are not pipelines
    have hrest : ∃ b, restDocs (isTall t (chainDocOf t)) ts = restDocs b ts ∧
        (ts = [] ∨ (b = false ∧ ∀ x ∈ ts, noPipe x = true)) := by
      rcases hpipe with h1 | hnp
      · have : ts = [] := by simpa using h1
        exact ⟨_, rfl, .inl this⟩
      · exact ⟨false, by rw [isTall_false (hnp t (by simp))], .inr ⟨rfl, fun x hx => hnp x (by simp [hx])⟩⟩
    obtain ⟨b, hb, hcase⟩ := hrest
    simp only [sequenceDoc, Doc.mkGroup, hb]
    obtain ⟨m', hg⟩ := pl_group w col i m st
      (.concat [fieldDoc (chainDocOf t), .nest 0 (.concat (restDocs b ts))])
      (forcesBreak (.concat [fieldDoc (chainDocOf t), .nest 0 (.concat (restDocs b ts))]))
    rw [hg, pl_concat]
    simp only [mkFrames, List.cons_append, List.nil_append]
    obtain ⟨ps', ps, col1, hp, hr, hl⟩ := hfd w col i m' (⟨i, m', .nest 0 (.concat (restDocs b ts))⟩ :: st)
    rw [hp, pl_nest, pl_concat, Nat.add_zero]
    have hrs : ∃ rs' rs col2, printLoop w col1 (mkFrames i m' (restDocs b ts) ++ st) [] =
        rs' ++ printLoop w col2 st [] ∧ renderPieces rs' = renderPieces rs ∧ RestP (isBrk m') ts rs := by
      rcases hcase with rfl | ⟨rfl, hnp⟩
      · exact ⟨[], [], col1, by simp [restDocs, mkFrames], rfl, .nil⟩
      · exact restPrintAs ts (fun x hx => hall x (by simp [hx])) hnp w col1 i m' st
    obtain ⟨rs', rs, col2, hq, hr2, hrest⟩ := hrs
    rw [hq]
    exact ⟨ps' ++ rs', ps ++ rs, col2, by simp, by simp [renderPieces_append, hr, hr2],
      _, t, ts, ps, rs, rfl, rfl, hl, hrest⟩

/-! ### Layouts of a sequence are tidy and NUL-free -/

theorem restP_tidy {b : Bool} {ts : List T} {ps : List Piece} (h : RestP b ts ps) :
    ∀ (r : List Piece), tidyPs true r = true → tidyPs true (ps ++ r) = true := by
  induction h with
  | nil => intro r hr; simpa using hr
  | consFlat hl _ ih =>
    intro r hr
    have h3 : goodAtom [','] = true := by decide
    have := layP_tidy hl false (_ ++ r) (ih r hr)
    simpa [tidyPs, okAtom, h3] using this
  | consBrk k hl _ ih =>
    intro r hr
    have := layP_tidy hl false (_ ++ r) (ih r hr)
    simpa [tidyPs, okAtom] using this

theorem seqP_tidy {ts : List T} {ps : List Piece} (h : SeqP ts ps) (b : Bool) : tidyPs b ps = true := by
  obtain ⟨_, t, ts', p1, rest, _, rfl, hl, hrest⟩ := h
  have := restP_tidy hrest [] rfl
  rw [List.append_nil] at this
  exact layP_tidy hl b rest this

theorem restP_nulFree {b : Bool} {ts : List T} {ps : List Piece} (h : RestP b ts ps) : nulFree ps = true := by
  induction h with
  | nil => rfl
  | consFlat hl _ ih => simp only [nulFree, nulFree_append, layP_nulFree hl, ih, nulAtom_comma, Bool.and_self]
  | consBrk k hl _ ih => simp only [nulFree, nulFree_append, layP_nulFree hl, ih, Bool.and_self]

theorem seqP_nulFree {ts : List T} {ps : List Piece} (h : SeqP ts ps) : nulFree ps = true := by
  obtain ⟨_, t, ts', p1, rest, _, rfl, hl, hrest⟩ := h
  simp [nulFree_append, layP_nulFree hl, restP_nulFree hrest]

theorem seqP_head {ts : List T} {ps : List Piece} (h : SeqP ts ps) : HeadOk (renderPieces ps) := by
  obtain ⟨_, t, ts', p1, rest, _, rfl, hl, _⟩ := h
  rw [renderPieces_append]
  exact (layP_head hl).append _

/-! ### `seq_sep` -/

theorem skipHspaceComments_suffix_aux (n : Nat) :
    ∀ (b : Bool) (i : Str), i.length ≤ n → skipHspaceComments b i <:+ i := by
  induction n with
  | zero =>
    intro b i h
    have : i = [] := List.eq_nil_of_length_eq_zero (by omega)
    subst this; simp [skipHspaceComments]
  | succ n ih =>
    intro b i h
    cases i with
    | nil => simp [skipHspaceComments]
    | cons c r =>
      have hr : r.length ≤ n := by simp at h; omega
      unfold skipHspaceComments
      split
      · split
        · exact List.suffix_refl _
        · exact List.IsSuffix.trans (ih _ r hr) (List.suffix_cons c r)
      · split
        · exact List.IsSuffix.trans (ih _ r hr) (List.suffix_cons c r)
        · split
          · rename_i r' _
            have hr' : r'.length ≤ n := by simp at hr; omega
            exact List.IsSuffix.trans (ih _ r' hr')
              (List.IsSuffix.trans (List.suffix_cons _ r') (List.suffix_cons _ _))
          · exact List.suffix_refl _

theorem skipSepTail_suffix_aux (n : Nat) :
    ∀ (b : Bool) (i : Str), i.length ≤ n → skipSepTail b i <:+ i := by
  induction n with
  | zero =>
    intro b i h
    have : i = [] := List.eq_nil_of_length_eq_zero (by omega)
    subst this; simp [skipSepTail]
  | succ n ih =>
    intro b i h
    cases i with
    | nil => simp [skipSepTail]
    | cons c r =>
      have hr : r.length ≤ n := by simp at h; omega
      unfold skipSepTail
      split
      · split
        · exact List.IsSuffix.trans (ih _ r hr) (List.suffix_cons c r)
        · exact List.IsSuffix.trans (ih _ r hr) (List.suffix_cons c r)
      · split
        · exact List.IsSuffix.trans (ih _ r hr) (List.suffix_cons c r)
        · split
          · rename_i r' _
            have hr' : r'.length ≤ n := by simp at hr; omega
            exact List.IsSuffix.trans (ih _ r' hr')
              (List.IsSuffix.trans (List.suffix_cons _ r') (List.suffix_cons _ _))
          · exact List.suffix_refl _

theorem sound_lineEnding : Sound lineEnding := by
  intro i
  unfold lineEnding
  split
  · exact List.suffix_cons _ _
  · exact List.IsSuffix.trans (List.suffix_cons _ _) (List.suffix_cons _ _)
  · exact List.suffix_refl _

theorem sound_seqSep : Sound seqSep := by
  intro i
  have key : ∀ i1 : Str, i1 <:+ i → Res.Within i
      (match alt (pchar ',') lineEnding i1 with
       | .ok _ i2 => (Res.ok () (skipSepTail false i2) : Res Unit)
       | .err e c => .err e c
       | .out => .out) := by
    intro i1 h1
    have h2 := (Sound.alt (Sound.pchar ',') sound_lineEnding) i1
    cases e : alt (pchar ',') lineEnding i1 with
    | ok a i2 =>
      rw [e] at h2
      exact List.IsSuffix.trans (skipSepTail_suffix_aux i2.length false i2 (Nat.le_refl _))
        (List.IsSuffix.trans h2 h1)
    | err x c =>
      rw [e] at h2
      exact List.IsSuffix.trans h2 h1
    | out => trivial
  exact key _ (skipHspaceComments_suffix_aux i.length false i (Nat.le_refl _))

/-- no leading horizontal white space or comment to skip -/
theorem skipHspaceComments_stop {c : Char} {r : Str} (h1 : Parse.isHspace c = false) (h2 : c ≠ '/') :
    skipHspaceComments false (c :: r) = c :: r := by
  unfold skipHspaceComments
  simp only [Bool.false_eq_true, if_false, h1]
  split
  · exact absurd rfl h2
  · rfl

theorem skipSepTail_skip {c : Char} (h : (isMultispace c || c = ',') = true) (R : Str) :
    skipSepTail false (c :: R) = skipSepTail false R := by
  conv => lhs; unfold skipSepTail
  simp only [Bool.false_eq_true, if_false]
  rw [if_pos (by simpa using h)]

theorem skipSepTail_headOk {s : Str} (h : HeadOk s) : skipSepTail false s = s := by
  have hs := headOk_stop h
  obtain ⟨c, r, rfl, hc⟩ := h
  simp only [headAll_cons, Bool.and_eq_true, Bool.not_eq_true', bne_iff_ne, ne_eq] at hs
  have hcomma : c ≠ ',' := headCls_ne hc ',' (by decide)
  unfold skipSepTail
  simp only [Bool.false_eq_true, if_false, hs.1, hcomma, decide_false, Bool.or_self]
  split
  · exact absurd rfl hs.2
  · rfl

theorem skipSepTail_spaces (k : Nat) (R : Str) :
    skipSepTail false (List.replicate k ' ' ++ R) = skipSepTail false R := by
  induction k with
  | zero => simp
  | succ k ih => rw [List.replicate_succ, List.cons_append, skipSepTail_skip (by decide), ih]

/-- `, ` between two steps -/
theorem seqSep_comma {s : Str} (h : HeadOk s) : seqSep (',' :: ' ' :: s) = .ok () s := by
  unfold seqSep
  rw [skipHspaceComments_stop (by decide) (by decide)]
  simp only [alt, pchar, if_true]
  rw [skipSepTail_skip (by decide), skipSepTail_headOk h]

/-- a line break (and the next step's indentation) between two steps -/
theorem seqSep_nl (k : Nat) {s : Str} (h : HeadOk s) :
    seqSep ('\n' :: (List.replicate k ' ' ++ s)) = .ok () s := by
  unfold seqSep
  rw [skipHspaceComments_stop (by decide) (by decide)]
  simp only [alt, pchar, lineEnding, show ¬ ('\n' = ',') by decide, if_false]
  rw [skipSepTail_spaces, skipSepTail_headOk h]

/-- the final newline of the formatted program -/
theorem seqSep_final : seqSep ['\n'] = .ok () [] := by
  unfold seqSep
  rw [skipHspaceComments_stop (by decide) (by decide)]
  simp [alt, pchar, lineEnding, skipSepTail]

theorem seqSep_fails_nil : Fails seqSep [] :=
  ⟨[], .crlf, by simp [seqSep, skipHspaceComments, alt, pchar, lineEnding]⟩

/-! ### `sequence` reads a layout back -/

theorem dropWhile_nl_spaces (k : Nat) {s : Str} (h : HeadOk s) :
    ('\n' :: (List.replicate k ' ' ++ s)).dropWhile isMultispace = s := by
  rw [List.dropWhile_cons, show isMultispace '\n' = true by decide]
  simp only [if_true]
  induction k with
  | zero => simpa using headOk_not_ms h
  | succ k ih =>
    rw [List.replicate_succ, List.cons_append, List.dropWhile_cons, show isMultispace ' ' = true by decide]
    simpa using ih

theorem headOk_not_paren {s : Str} (h : HeadOk s) : headAll (fun c => c != '(') s = true := by
  obtain ⟨c, r, rfl, hc⟩ := h
  rw [headAll_cons]
  simpa using headCls_ne hc '(' (by decide)

/-- a step may be followed by a line break and another step -/
theorem stop_nl_headOk (k : Nat) {s : Str} (h : HeadOk s) : Stop ('\n' :: (List.replicate k ' ' ++ s)) := by
  refine ⟨by simp [IdStop]; decide, by rw [headAll_cons]; decide, ?_⟩
  rw [dropWhile_nl_spaces k h]
  exact headOk_not_paren h

theorem restP_stop {b : Bool} {ts : List T} {ps : List Piece} (h : RestP b ts ps) {rest : Str}
    (hs : StopC rest) : StopC (renderPieces ps ++ rest) := by
  cases h with
  | nil => simpa [renderPieces] using hs
  | consFlat hl _ => simpa [renderPieces, Piece.render] using stopC_comma _
  | consBrk k hl hrest0 =>
    rename_i t ts ps0 rest0
    have hh := ((layP_head hl).append (renderPieces rest0)).append rest
    have := And.intro (stop_nl_headOk k hh) (chainSep_fails_nl k (.inl hh))
    simpa [StopC, renderPieces, Piece.render, renderPieces_append] using this

theorem rest_lay {b : Bool} {ts : List T} {ps : List Piece} (h : RestP b ts ps) :
    ∀ (n : Nat) (rest : Str), (renderPieces ps).length < n → StopC rest →
      sepTail seqSep (chainP (termP n)) rest = .ok [] rest →
      sepTail seqSep (chainP (termP n)) (renderPieces ps ++ rest) = .ok ts rest := by
  induction h with
  | nil => intro n rest _ _ hend; simpa [renderPieces] using hend
  | consFlat hl hrest ih =>
    rename_i t ts ps0 rest0
    intro n rest hlen hs hend
    have hsplit : renderPieces (.atom [','] :: .sp :: (ps0 ++ rest0)) ++ rest =
        ',' :: ' ' :: (renderPieces ps0 ++ (renderPieces rest0 ++ rest)) := by
      simp [renderPieces, Piece.render, renderPieces_append]
    have hl1 : (renderPieces ps0).length < n ∧ (renderPieces rest0).length < n := by
      simp [renderPieces, Piece.render, renderPieces_append] at hlen; omega
    rw [hsplit]
    exact sepTail_cons sound_seqSep (chainP_sound (termP_sound n))
      (seqSep_comma ((layP_head hl).append _)) (by simp; omega)
      (chainP_lay hl n _ hl1.1 (restP_stop hrest hs)) (ih n rest hl1.2 hs hend)
  | consBrk k hl hrest ih =>
    rename_i t ts ps0 rest0
    intro n rest hlen hs hend
    have hsplit : renderPieces (.nl k :: (ps0 ++ rest0)) ++ rest =
        '\n' :: (List.replicate k ' ' ++ (renderPieces ps0 ++ (renderPieces rest0 ++ rest))) := by
      simp [renderPieces, Piece.render, renderPieces_append]
    have hl1 : (renderPieces ps0).length < n ∧ (renderPieces rest0).length < n := by
      simp [renderPieces, Piece.render, renderPieces_append] at hlen; omega
    rw [hsplit]
    exact sepTail_cons sound_seqSep (chainP_sound (termP_sound n))
      (seqSep_nl k ((layP_head hl).append _)) (by simp; omega)
      (chainP_lay hl n _ hl1.1 (restP_stop hrest hs)) (ih n rest hl1.2 hs hend)

/-- `separated_list1(seq_sep, chain)` reads a layout of the sequence, up to a `rest` at which the
    list ends (`hend`) -/
theorem seqP_lay {ts : List T} {ps : List Piece} (h : SeqP ts ps) (n : Nat) (rest : Str)
    (hlen : (renderPieces ps).length < n) (hs : StopC rest)
    (hend : sepTail seqSep (chainP (termP n)) rest = .ok [] rest) :
    sepList1 seqSep (chainP (termP n)) (renderPieces ps ++ rest) = .ok ts rest := by
  obtain ⟨b, t, ts', p1, rs, rfl, rfl, hl, hrest⟩ := h
  have hl1 : (renderPieces p1).length < n ∧ (renderPieces rs).length < n := by
    simp [renderPieces_append] at hlen; omega
  rw [renderPieces_append, List.append_assoc]
  exact sepList1_cons (chainP_lay hl n _ hl1.1 (restP_stop hrest hs)) (rest_lay hrest n rest hl1.2 hs hend)

end QM.Frag
