import QuiverModel.Core.Text.Fragment
import QuiverModel.Lemmas.Text.Layout
import QuiverModel.Lemmas.Text.Basic
import QuiverModel.Lemmas.Parse.Eval
/-
Fragment-independent lemmas for the fragment port (used by Lemmas/Text/Fragment.lean):

  * `pl_*` — the equations of `printLoop` on concrete frames (no pending line suffixes);
  * `tidyPs`, `strip_aux`, `strip_renderPieces` — a piece list in which every `sp`/`nl` is followed by
    an atom and every `nl` preceded by one is a fixed point of `strip_trailing_whitespace`;
  * `linesFwd`, `linesFwd_good`, `post_passes` — `str::lines` of a piece list; on a tidy, NUL-free
    piece list `collapse_blanks` only adds the final newline and `expand_literals` changes nothing;
  * character-class facts (`lower_ne`, `not_ws_of_identBody`, `goodAtom_ident`, `ident_nulFree`, …).
-/
namespace QM.Frag
open QM.Text QM.Parse

/-! ### 2. The engine prints a layout -/

section
variable (w col i : Nat) (m : Mode) (st : List Frame)

theorem pl_nil : printLoop w col (⟨i, m, .nil⟩ :: st) [] = printLoop w col st [] :=
  printLoop_docNil w col _ st [] rfl
theorem pl_bp : printLoop w col (⟨i, m, .breakParent⟩ :: st) [] = printLoop w col st [] :=
  printLoop_breakParent w col _ st [] rfl
theorem pl_text (s : List Char) :
    printLoop w col (⟨i, m, .text s⟩ :: st) [] = .atom s :: printLoop w (col + s.length) st [] :=
  printLoop_text w col _ st [] s rfl
theorem pl_concat (ds : List Doc) :
    printLoop w col (⟨i, m, .concat ds⟩ :: st) [] = printLoop w col (mkFrames i m ds ++ st) [] :=
  printLoop_concat w col _ st [] ds rfl
theorem pl_nest (n : Nat) (d : Doc) :
    printLoop w col (⟨i, m, .nest n d⟩ :: st) [] = printLoop w col (⟨i + n, m, d⟩ :: st) [] :=
  printLoop_nest w col _ st [] n d rfl
theorem pl_line_flat :
    printLoop w col (⟨i, .flat, .line⟩ :: st) [] = .sp :: printLoop w (col + 1) st [] :=
  printLoop_line_flat w col _ st [] rfl rfl
theorem pl_line_brk :
    printLoop w col (⟨i, .brk, .line⟩ :: st) [] = .nl i :: printLoop w i st [] :=
  printLoop_break_nil w col _ st (.inl ⟨rfl, rfl⟩)
theorem pl_softline_flat :
    printLoop w col (⟨i, .flat, .softline⟩ :: st) [] = printLoop w col st [] :=
  printLoop_softline_flat w col _ st [] rfl rfl
theorem pl_softline_brk :
    printLoop w col (⟨i, .brk, .softline⟩ :: st) [] = .nl i :: printLoop w i st [] :=
  printLoop_break_nil w col _ st (.inr (.inl ⟨rfl, rfl⟩))
theorem pl_ifBreak_brk (b fl : Doc) :
    printLoop w col (⟨i, .brk, .ifBreak b fl⟩ :: st) [] = printLoop w col (⟨i, .brk, b⟩ :: st) [] :=
  printLoop_ifBreak_brk w col _ st [] b fl rfl rfl
theorem pl_ifBreak_flat (b fl : Doc) :
    printLoop w col (⟨i, .flat, .ifBreak b fl⟩ :: st) [] = printLoop w col (⟨i, .flat, fl⟩ :: st) [] :=
  printLoop_ifBreak_flat w col _ st [] b fl rfl rfl
theorem pl_group (d : Doc) (sb : Bool) :
    ∃ m', printLoop w col (⟨i, m, .group d sb⟩ :: st) [] = printLoop w col (⟨i, m', d⟩ :: st) [] :=
  ⟨_, printLoop_group w col _ st [] d sb rfl⟩
end

/-- the separator of `bracketed` -/
def sepDoc : Doc := .concat [.text [','], .line]

theorem pl_sep_flat (w col i : Nat) (st : List Frame) :
    printLoop w col (⟨i, .flat, sepDoc⟩ :: st) [] = .atom [','] :: .sp :: printLoop w (col + 1 + 1) st [] := by
  simp only [sepDoc, pl_concat, mkFrames, List.cons_append, List.nil_append, pl_text, pl_line_flat,
    List.length_cons, List.length_nil]
theorem pl_sep_brk (w col i : Nat) (st : List Frame) :
    printLoop w col (⟨i, .brk, sepDoc⟩ :: st) [] = .atom [','] :: .nl i :: printLoop w i st [] := by
  simp only [sepDoc, pl_concat, mkFrames, List.cons_append, List.nil_append, pl_text, pl_line_brk]

def isBrk : Mode → Bool
  | .brk => true
  | .flat => false

/-! ### 3. A layout has no white space before a line break or at its end -/

/-- a printed atom: not empty, no white space in it -/
def goodAtom (s : List Char) : Bool := !s.isEmpty && s.all (fun c => !isWhitespace c)

/-- a quoted atom (a string literal): between two `"`, anything but a raw line break -/
def quotedAtom (s : List Char) : Bool :=
  s.head? == some '"' && s.getLast? == some '"' && s.all (fun c => c != '\n' && c != '\r')

/-- an atom the line passes cope with -/
def okAtom (s : List Char) : Bool := goodAtom s || quotedAtom s

/-- The pieces leave no white space before a line break or at the end; the flag says whether the
    text so far ends in an atom (or is empty). -/
def tidyPs : Bool → List Piece → Bool
  | b, [] => b
  | _, .atom s :: r => okAtom s && tidyPs true r
  | _, .sp :: r => tidyPs false r
  | b, .nl _ :: r => b && tidyPs false r

theorem rustLinesAux_append (s : List Char) (hs : s.all (· ≠ '\n') = true) (cur rest : List Char) :
    rustLinesAux cur (s ++ rest) = rustLinesAux (s.reverse ++ cur) rest := by
  induction s generalizing cur with
  | nil => simp
  | cons c s ih =>
    simp only [List.all_cons, Bool.and_eq_true, decide_eq_true_eq] at hs
    simp only [List.cons_append, rustLinesAux, hs.1, if_false]
    rw [ih hs.2]; simp

theorem rustLinesAux_ne_nil (s cur : List Char) (h : cur ≠ [] ∨ s ≠ []) : rustLinesAux cur s ≠ [] := by
  induction s generalizing cur with
  | nil =>
    rcases h with h | h
    · cases cur with
      | nil => exact absurd rfl h
      | cons c t => simp [rustLinesAux]
    · exact absurd rfl h
  | cons c s ih =>
    simp only [rustLinesAux]
    split
    · simp
    · exact ih _ (.inl (by simp))

theorem joinNl_cons_ne (a : List Char) {L : List (List Char)} (h : L ≠ []) :
    joinNl (a :: L) = a ++ '\n' :: joinNl L := by
  cases L with
  | nil => exact absurd rfl h
  | cons b L => rfl

theorem trimEnd_reverse_cons (c : Char) (t : List Char) (h : isWhitespace c = false) :
    trimEnd ((c :: t).reverse) = (c :: t).reverse := by
  simp [trimEnd, h]

theorem isWhitespace_nl : isWhitespace '\n' = true := by decide
theorem isWhitespace_cr : isWhitespace '\r' = true := by decide
theorem isWhitespace_space : isWhitespace ' ' = true := by decide

theorem all_ne_nl_of_not_ws {s : List Char} (h : s.all (fun c => !isWhitespace c) = true) :
    s.all (· ≠ '\n') = true := by
  simp only [List.all_eq_true, Bool.not_eq_true', decide_eq_true_eq] at h ⊢
  intro c hc e
  have := h c hc
  rw [e, isWhitespace_nl] at this
  exact Bool.noConfusion this

theorem okAtom_ne {s : List Char} (h : okAtom s = true) : s ≠ [] := by
  intro e; subst e
  simp [okAtom, goodAtom, quotedAtom] at h

/-- no raw line break inside an atom -/
theorem okAtom_clean {s : List Char} (h : okAtom s = true) :
    s.all (fun c => c != '\n' && c != '\r') = true := by
  simp only [okAtom, Bool.or_eq_true] at h
  rcases h with h | h
  · simp only [goodAtom, Bool.and_eq_true] at h
    simp only [List.all_eq_true, Bool.not_eq_true', Bool.and_eq_true, bne_iff_ne, ne_eq] at h ⊢
    intro c hc
    have := h.2 c hc
    refine ⟨?_, ?_⟩ <;> (intro e; rw [e] at this; revert this; decide)
  · simp only [quotedAtom, Bool.and_eq_true] at h
    exact h.2

theorem okAtom_nonl {s : List Char} (h : okAtom s = true) : s.all (· ≠ '\n') = true := by
  have := okAtom_clean h
  simp only [List.all_eq_true, Bool.and_eq_true, bne_iff_ne, ne_eq, decide_eq_true_eq] at this ⊢
  exact fun c hc => (this c hc).1

theorem okAtom_nocr {s : List Char} (h : okAtom s = true) : '\r' ∉ s := by
  have := okAtom_clean h
  simp only [List.all_eq_true, Bool.and_eq_true, bne_iff_ne, ne_eq] at this
  exact fun hm => (this _ hm).2 rfl

/-- an atom ends in a non-blank character -/
theorem okAtom_last {s : List Char} (h : okAtom s = true) :
    ∃ init c, s = init ++ [c] ∧ isWhitespace c = false := by
  have hne := okAtom_ne h
  refine ⟨s.dropLast, s.getLast hne, (List.dropLast_concat_getLast hne).symm, ?_⟩
  simp only [okAtom, Bool.or_eq_true] at h
  rcases h with h | h
  · simp only [goodAtom, Bool.and_eq_true] at h
    simpa using (List.all_eq_true.mp h.2) _ (List.getLast_mem hne)
  · simp only [quotedAtom, Bool.and_eq_true, beq_iff_eq] at h
    rw [List.getLast?_eq_some_getLast hne] at h
    have : s.getLast hne = '"' := Option.some.inj h.1.2
    rw [this]; decide

theorem renderPieces_ne_nil_of_tidy {r : List Piece} (h : tidyPs false r = true) : renderPieces r ≠ [] := by
  cases r with
  | nil => simp [tidyPs] at h
  | cons p r =>
    cases p with
    | atom s =>
      simp only [tidyPs, Bool.and_eq_true] at h
      simp [renderPieces, Piece.render, okAtom_ne h.1]
    | sp => simp [renderPieces, Piece.render]
    | nl k => simp [tidyPs] at h

/-- the last character so far is not white space (if the flag claims an atom) -/
def CurOk (b : Bool) (cur : List Char) : Prop :=
  b = true → cur = [] ∨ ∃ c t, cur = c :: t ∧ isWhitespace c = false

theorem strip_aux (ps : List Piece) : ∀ (b : Bool) (cur : List Char), tidyPs b ps = true → CurOk b cur →
    joinNl ((rustLinesAux cur (renderPieces ps)).map trimEnd) = cur.reverse ++ renderPieces ps := by
  induction ps with
  | nil =>
    intro b cur hb hc
    simp only [tidyPs] at hb
    rcases hc hb with rfl | ⟨c, t, rfl, hw⟩
    · simp [renderPieces, rustLinesAux, joinNl]
    · simp only [renderPieces, rustLinesAux, List.isEmpty_cons, Bool.false_eq_true, if_false, List.map_cons,
        List.map_nil, joinNl, List.append_nil]
      exact trimEnd_reverse_cons c t hw
  | cons p r ih =>
    intro b cur hb hc
    cases p with
    | atom s =>
      simp only [tidyPs, Bool.and_eq_true] at hb
      obtain ⟨hok, hr⟩ := hb
      simp only [renderPieces, Piece.render]
      rw [rustLinesAux_append s (okAtom_nonl hok), ih true (s.reverse ++ cur) hr]
      · simp
      · intro _
        right
        obtain ⟨init, c, rfl, hc⟩ := okAtom_last hok
        exact ⟨c, init.reverse ++ cur, by simp, hc⟩
    | sp =>
      simp only [tidyPs] at hb
      simp only [renderPieces, Piece.render, List.cons_append, List.nil_append, rustLinesAux,
        show ¬ (' ' = '\n') by decide, if_false]
      rw [ih false (' ' :: cur) hb (by intro h; exact Bool.noConfusion h)]
      simp
    | nl k =>
      simp only [tidyPs, Bool.and_eq_true] at hb
      obtain ⟨hbt, hr⟩ := hb
      simp only [renderPieces, Piece.render, List.cons_append, rustLinesAux, if_true]
      have hrep : (List.replicate k ' ').all (· ≠ '\n') = true := by
        simp only [List.all_eq_true, decide_eq_true_eq]
        intro c hc; rw [List.eq_of_mem_replicate hc]; decide
      rw [rustLinesAux_append _ hrep]
      have hne : rustLinesAux ((List.replicate k ' ').reverse ++ []) (renderPieces r) ≠ [] :=
        rustLinesAux_ne_nil _ _ (.inr (renderPieces_ne_nil_of_tidy hr))
      have hih := ih false ((List.replicate k ' ').reverse ++ []) hr (by intro h; exact Bool.noConfusion h)
      simp only [List.map_cons]
      rw [joinNl_cons_ne _ (by simpa using hne), hih]
      rcases hc hbt with rfl | ⟨c, t, rfl, hw⟩
      · simp [trimEnd]
      · have hcr : c ≠ '\r' := by
          intro e; rw [e, isWhitespace_cr] at hw; exact Bool.noConfusion hw
        split
        · rename_i cur' heq
          exact absurd (List.cons.inj heq).1 hcr
        · rw [trimEnd_reverse_cons c t hw]
          simp

/-- `strip_trailing_whitespace` leaves a tidy text alone -/
theorem strip_renderPieces {ps : List Piece} (h : tidyPs true ps = true) :
    stripTrailingWhitespace (renderPieces ps) = renderPieces ps := by
  have := strip_aux ps true [] h (fun _ => .inl rfl)
  simpa [stripTrailingWhitespace, rustLines] using this

/-! Layouts are tidy. -/

theorem lower_ne {c : Char} (h : isLower c = true) (d : Char) (hd : d.toNat < 97) : c ≠ d := by
  intro e; subst e
  simp only [isLower, Bool.and_eq_true, decide_eq_true_eq] at h
  omega

theorem not_ws_of_lower {c : Char} (h : isLower c = true) : isWhitespace c = false := by
  simp only [isLower, Bool.and_eq_true, decide_eq_true_eq] at h
  simp only [isWhitespace]
  generalize c.toNat = n at h
  simp only [Bool.or_eq_false_iff, Bool.and_eq_false_iff, decide_eq_false_iff_not, beq_eq_false_iff_ne]
  omega

theorem not_ws_of_identBody {c : Char} (h : isIdentBody c = true) : isWhitespace c = false := by
  simp only [isIdentBody, isLower, isUpper, isDigit, Bool.or_eq_true, Bool.and_eq_true, decide_eq_true_eq] at h
  simp only [isWhitespace]
  have h95 : c = '_' → c.toNat = 95 := by intro e; subst e; rfl
  generalize c.toNat = n at h h95
  simp only [Bool.or_eq_false_iff, Bool.and_eq_false_iff, decide_eq_false_iff_not, beq_eq_false_iff_ne]
  rcases h with ((h | h) | h) | h
  · omega
  · omega
  · omega
  · have := h95 h; omega

theorem goodAtom_ident {n : Str} (h : isIdentStr n = true) : goodAtom n = true := by
  cases n with
  | nil => simp [isIdentStr] at h
  | cons c r =>
    simp only [isIdentStr, Bool.and_eq_true, Bool.or_eq_true, decide_eq_true_eq] at h
    obtain ⟨hc, hsuf⟩ := h
    have hsplit : r = r.takeWhile isIdentBody ++ r.dropWhile isIdentBody :=
      List.takeWhile_append_dropWhile.symm
    have h1 : (r.takeWhile isIdentBody).all (fun c => !isWhitespace c) = true := by
      have := all_takeWhile isIdentBody r
      simp only [List.all_eq_true, Bool.not_eq_true'] at this ⊢
      intro x hx; exact not_ws_of_identBody (this x hx)
    have h2 : (r.dropWhile isIdentBody).all (fun c => !isWhitespace c) = true := by
      rcases hsuf with ((e | e) | e) | e <;> rw [e] <;> decide
    have hr : r.all (fun c => !isWhitespace c) = true := by
      rw [hsplit, List.all_append, h1, h2]; rfl
    simp [goodAtom, not_ws_of_lower hc, hr]

/-! ### 5. The post-passes of `format_program` on a layout

`collapse_blanks` and `expand_literals` work line by line (`str::lines`). The lines of a piece list are
computed directly (`linesFwd`); for a tidy, NUL-free piece list every line ends in a non-blank
character and does not start (after its indentation) with the NUL of a literal placeholder, so both
passes leave the text alone — up to the final newline that `collapse_blanks` adds. -/

/-- the lines of the rendered pieces; `p` is the current line so far -/
def linesFwd (p : List Char) : List Piece → List (List Char)
  | [] => if p.isEmpty then [] else [p]
  | .atom s :: r => linesFwd (p ++ s) r
  | .sp :: r => linesFwd (p ++ [' ']) r
  | .nl k :: r => p :: linesFwd (List.replicate k ' ') r

/-- every atom is free of white space -/
def atomsOk : List Piece → Bool
  | [] => true
  | .atom s :: r => s.all (fun c => c != '\n' && c != '\r') && atomsOk r
  | _ :: r => atomsOk r

/-- the NUL of a literal placeholder cannot be the first character of this atom: there is none in it,
    or it starts with a quote -/
def nulAtom (s : List Char) : Bool := s.all (· ≠ '\x00') || s.head? == some '"'

/-- no line can start with the NUL that marks a literal placeholder -/
def nulFree : List Piece → Bool
  | [] => true
  | .atom s :: r => nulAtom s && nulFree r
  | _ :: r => nulFree r

theorem atomsOk_of_tidy : ∀ (ps : List Piece) (b : Bool), tidyPs b ps = true → atomsOk ps = true
  | [], _, _ => rfl
  | .atom s :: r, b, h => by
    simp only [tidyPs, Bool.and_eq_true] at h
    simp only [atomsOk, okAtom_clean h.1, atomsOk_of_tidy r true h.2, Bool.and_self]
  | .sp :: r, b, h => by
    simp only [tidyPs] at h
    simpa [atomsOk] using atomsOk_of_tidy r false h
  | .nl k :: r, b, h => by
    simp only [tidyPs, Bool.and_eq_true] at h
    simpa [atomsOk] using atomsOk_of_tidy r false h.2

theorem rustLinesAux_linesFwd (ps : List Piece) : ∀ (p : List Char), atomsOk ps = true → '\r' ∉ p →
    rustLinesAux p.reverse (renderPieces ps) = linesFwd p ps := by
  induction ps with
  | nil =>
    intro p _ _
    simp [renderPieces, rustLinesAux, linesFwd]
  | cons x r ih =>
    intro p ha hp
    cases x with
    | atom s =>
      simp only [atomsOk, Bool.and_eq_true] at ha
      simp only [renderPieces, Piece.render, linesFwd]
      have hcl := ha.1
      simp only [List.all_eq_true, Bool.and_eq_true, bne_iff_ne, ne_eq] at hcl
      have hnl : s.all (· ≠ '\n') = true := by
        simp only [List.all_eq_true, decide_eq_true_eq]
        exact fun c hc => (hcl c hc).1
      rw [rustLinesAux_append s hnl, ← List.reverse_append]
      refine ih (p ++ s) ha.2 ?_
      intro hm
      rcases List.mem_append.mp hm with hm | hm
      · exact hp hm
      · exact (hcl _ hm).2 rfl
    | sp =>
      simp only [atomsOk] at ha
      simp only [renderPieces, Piece.render, List.cons_append, List.nil_append, rustLinesAux,
        show ¬ (' ' = '\n') by decide, if_false, linesFwd]
      have := ih (p ++ [' ']) ha (by
        intro hm
        rcases List.mem_append.mp hm with hm | hm
        · exact hp hm
        · simp at hm)
      simpa using this
    | nl k =>
      simp only [atomsOk] at ha
      simp only [renderPieces, Piece.render, List.cons_append, rustLinesAux, if_true, linesFwd]
      have hrep : (List.replicate k ' ').all (· ≠ '\n') = true := by
        simp only [List.all_eq_true, decide_eq_true_eq]
        intro c hc; rw [List.eq_of_mem_replicate hc]; decide
      rw [rustLinesAux_append _ hrep]
      have ih' := ih (List.replicate k ' ') ha (by
        intro hm; have := List.eq_of_mem_replicate hm; exact absurd this (by decide))
      have htail : rustLinesAux ((List.replicate k ' ').reverse ++ []) (renderPieces r) =
          linesFwd (List.replicate k ' ') r := by simpa using ih'
      rw [htail]
      congr 1
      split
      · rename_i cur' heq
        exfalso; apply hp
        have : '\r' ∈ p.reverse := by rw [heq]; simp
        simpa using this
      · simp

/-- the current line ends in a non-blank character (if the flag claims an atom) -/
def EndsOk (b : Bool) (p : List Char) : Prop :=
  b = true → ∃ init c, p = init ++ [c] ∧ isWhitespace c = false

/-- the first character after the indentation -/
def headNS (p : List Char) : Option Char := (p.dropWhile (· = ' ')).head?

theorem headNS_append (p s : List Char) :
    headNS (p ++ s) = if p.all (· = ' ') then headNS s else headNS p := by
  induction p with
  | nil => simp [headNS]
  | cons c p ih =>
    by_cases hc : c = ' '
    · subst hc
      simpa [headNS, List.dropWhile_cons] using ih
    · simp [headNS, hc]

/-- a line that the post-passes leave alone -/
def GoodLine (l : List Char) : Prop :=
  (∃ init c, l = init ++ [c] ∧ isWhitespace c = false) ∧ headNS l ≠ some '\x00'

theorem headNS_ne_nul_of_all {s : List Char} (h : s.all (· ≠ '\x00') = true) : headNS s ≠ some '\x00' := by
  intro e
  have hm : '\x00' ∈ s.dropWhile (· = ' ') := by
    unfold headNS at e
    exact List.mem_of_mem_head? (by rw [e]; rfl)
  have hs : '\x00' ∈ s := (List.dropWhile_sublist _).subset hm
  have := (List.all_eq_true.mp h) _ hs
  simp at this

theorem nulAtom_of_all {s : List Char} (h : s.all (· ≠ '\x00') = true) : nulAtom s = true := by
  unfold nulAtom; rw [h]; rfl

theorem headNS_ne_nul_of_nulAtom {s : List Char} (h : nulAtom s = true) : headNS s ≠ some '\x00' := by
  simp only [nulAtom, Bool.or_eq_true, beq_iff_eq] at h
  rcases h with h | h
  · exact headNS_ne_nul_of_all h
  · cases s with
    | nil => simp at h
    | cons c r =>
      simp only [List.head?_cons, Option.some.injEq] at h
      subst h
      simp [headNS]

theorem linesFwd_good (ps : List Piece) : ∀ (b : Bool) (p : List Char), tidyPs b ps = true →
    nulFree ps = true → EndsOk b p → headNS p ≠ some '\x00' → ∀ l ∈ linesFwd p ps, GoodLine l := by
  induction ps with
  | nil =>
    intro b p hb _ hp hn l hl
    simp only [tidyPs] at hb
    simp only [linesFwd] at hl
    split at hl
    · simp at hl
    · simp only [List.mem_singleton] at hl
      subst hl
      exact ⟨hp hb, hn⟩
  | cons x r ih =>
    intro b p hb hnf hp hn l hl
    cases x with
    | atom s =>
      simp only [tidyPs, Bool.and_eq_true] at hb
      simp only [nulFree, Bool.and_eq_true] at hnf
      simp only [linesFwd] at hl
      refine ih true (p ++ s) hb.2 hnf.2 ?_ ?_ l hl
      · intro _
        obtain ⟨init, c, rfl, hc⟩ := okAtom_last hb.1
        exact ⟨p ++ init, c, by rw [List.append_assoc], hc⟩
      · rw [headNS_append]
        split
        · exact headNS_ne_nul_of_nulAtom hnf.1
        · exact hn
    | sp =>
      simp only [tidyPs] at hb
      simp only [nulFree] at hnf
      simp only [linesFwd] at hl
      refine ih false (p ++ [' ']) hb hnf (by intro h; exact Bool.noConfusion h) ?_ l hl
      rw [headNS_append]
      split
      · simp [headNS]
      · exact hn
    | nl k =>
      simp only [tidyPs, Bool.and_eq_true] at hb
      simp only [nulFree] at hnf
      simp only [linesFwd, List.mem_cons] at hl
      rcases hl with rfl | hl
      · exact ⟨hp hb.1, hn⟩
      · refine ih false (List.replicate k ' ') hb.2 hnf (by intro h; exact Bool.noConfusion h) ?_ l hl
        have : (List.replicate k ' ').dropWhile (· = ' ') = [] := by
          rw [List.dropWhile_replicate]; simp
        simp [headNS, this]

theorem linesFwd_snoc_nl (ps : List Piece) : ∀ (b : Bool) (p : List Char), tidyPs b ps = true →
    EndsOk b p → linesFwd p (ps ++ [.nl 0]) = linesFwd p ps := by
  induction ps with
  | nil =>
    intro b p hb hp
    simp only [tidyPs] at hb
    obtain ⟨init, c, rfl, _⟩ := hp hb
    simp [linesFwd]
  | cons x r ih =>
    intro b p hb hp
    cases x with
    | atom s =>
      simp only [tidyPs, Bool.and_eq_true] at hb
      simp only [List.cons_append, linesFwd]
      refine ih true (p ++ s) hb.2 ?_
      intro _
      obtain ⟨init, c, rfl, hc⟩ := okAtom_last hb.1
      exact ⟨p ++ init, c, by rw [List.append_assoc], hc⟩
    | sp =>
      simp only [tidyPs] at hb
      simp only [List.cons_append, linesFwd]
      exact ih false _ hb (by intro h; exact Bool.noConfusion h)
    | nl k =>
      simp only [tidyPs, Bool.and_eq_true] at hb
      simp only [List.cons_append, linesFwd]
      rw [ih false _ hb.2 (by intro h; exact Bool.noConfusion h)]

theorem collapseLoop_id (L : List (List Char)) (h : ∀ l ∈ L, isBlankLine l = false) :
    ∀ b : Bool, collapseLoop b L = L := by
  induction L with
  | nil => intro b; rfl
  | cons l ls ih =>
    intro b
    have hl := h l (by simp)
    simp only [collapseLoop, hl, Bool.false_and, Bool.false_eq_true, if_false]
    rw [ih (fun x hx => h x (by simp [hx]))]

theorem dropTrailingEmpty_id (L : List (List Char)) (h : ∀ l ∈ L, l ≠ []) : dropTrailingEmpty L = L := by
  unfold dropTrailingEmpty
  cases hr : L.reverse with
  | nil => simp [List.reverse_eq_nil_iff.mp hr]
  | cons a t =>
    have ha : a ∈ L := by
      have : a ∈ L.reverse := by rw [hr]; simp
      simpa using this
    have hne : a.isEmpty = false := by
      cases a with
      | nil => exact absurd rfl (h [] ha)
      | cons c r => rfl
    rw [List.dropWhile_cons, hne]
    simp only [Bool.false_eq_true, if_false]
    rw [← hr, List.reverse_reverse]

theorem trimEnd_snoc (init : List Char) (c : Char) (h : isWhitespace c = false) :
    trimEnd (init ++ [c]) = init ++ [c] := by
  simp [trimEnd, h]

theorem map_trimEnd_id (L : List (List Char))
    (h : ∀ l ∈ L, ∃ init c, l = init ++ [c] ∧ isWhitespace c = false) : L.map trimEnd = L := by
  induction L with
  | nil => rfl
  | cons l ls ih =>
    obtain ⟨init, c, rfl, hc⟩ := h l (by simp)
    rw [List.map_cons, trimEnd_snoc init c hc, ih (fun x hx => h x (by simp [hx]))]

theorem flatten_map_nl (L : List (List Char)) (h : L ≠ []) :
    (L.map (· ++ ['\n'])).flatten = joinNl L ++ ['\n'] := by
  induction L with
  | nil => exact absurd rfl h
  | cons l ls ih =>
    cases ls with
    | nil => simp [joinNl]
    | cons l' ls =>
      have := ih (by simp)
      simp only [List.map_cons, List.flatten_cons] at this ⊢
      rw [this]
      simp [joinNl]

theorem expandLine_plain {l : List Char} (h : headNS l ≠ some '\x00') : expandLine [] l = some [l] := by
  unfold expandLine
  simp only []
  unfold headNS at h
  split
  · rename_i digits heq
    rw [heq] at h
    exact absurd rfl h
  · rfl

theorem mapM_expand (L : List (List Char)) (h : ∀ l ∈ L, expandLine [] l = some [l]) :
    L.mapM (expandLine []) = some (L.map fun l => [l]) := by
  induction L with
  | nil => rfl
  | cons l ls ih =>
    rw [List.mapM_cons, h l (by simp), ih (fun x hx => h x (by simp [hx]))]
    rfl

theorem atomsOk_snoc_nl (ps : List Piece) (k : Nat) : atomsOk (ps ++ [.nl k]) = atomsOk ps := by
  induction ps with
  | nil => rfl
  | cons x r ih => cases x <;> simp [atomsOk, ih]

theorem nulFree_append (a b : List Piece) : nulFree (a ++ b) = (nulFree a && nulFree b) := by
  induction a with
  | nil => simp [nulFree]
  | cons x r ih => cases x <;> simp [nulFree, ih, Bool.and_assoc]

/-- `collapse_blanks` adds the final newline to a tidy, NUL-free text and changes nothing else;
    `expand_literals` then finds no placeholder line. -/
theorem post_passes {ps : List Piece} (h1 : tidyPs false ps = true) (h2 : nulFree ps = true) :
    collapseBlanks (renderPieces ps) = renderPieces ps ++ ['\n'] ∧
    expandLiterals (renderPieces ps ++ ['\n']) [] = some (renderPieces ps ++ ['\n']) := by
  have hok := atomsOk_of_tidy ps false h1
  have hL : rustLines (renderPieces ps) = linesFwd [] ps := by
    have := rustLinesAux_linesFwd ps [] hok (by simp)
    simpa [rustLines] using this
  have hgood : ∀ l ∈ linesFwd [] ps, GoodLine l :=
    linesFwd_good ps false [] h1 h2 (by intro h; exact Bool.noConfusion h) (by simp [headNS])
  have htrim : (linesFwd [] ps).map trimEnd = linesFwd [] ps :=
    map_trimEnd_id _ (fun l hl => (hgood l hl).1)
  have hjoin : joinNl (linesFwd [] ps) = renderPieces ps := by
    have := strip_aux ps false [] h1 (by intro h; exact Bool.noConfusion h)
    rw [show rustLinesAux [] (renderPieces ps) = rustLines (renderPieces ps) from rfl, hL, htrim] at this
    simpa using this
  have hnb : ∀ l ∈ linesFwd [] ps, isBlankLine l = false := by
    intro l hl
    obtain ⟨init, c, rfl, hc⟩ := (hgood l hl).1
    simp [isBlankLine, hc]
  have hne : ∀ l ∈ linesFwd [] ps, l ≠ [] := by
    intro l hl
    obtain ⟨init, c, rfl, _⟩ := (hgood l hl).1
    simp
  have hLne : linesFwd [] ps ≠ [] := by
    intro e
    rw [e] at hjoin
    exact renderPieces_ne_nil_of_tidy h1 hjoin.symm
  refine ⟨?_, ?_⟩
  · unfold collapseBlanks
    rw [hL, collapseLoop_id _ hnb, dropTrailingEmpty_id _ hne, hjoin]
  · have hr : renderPieces ps ++ ['\n'] = renderPieces (ps ++ [.nl 0]) := by
      simp [renderPieces_append, renderPieces, Piece.render]
    have hL' : rustLines (renderPieces ps ++ ['\n']) = linesFwd [] ps := by
      rw [hr]
      have := rustLinesAux_linesFwd (ps ++ [.nl 0]) [] (by rw [atomsOk_snoc_nl]; exact hok) (by simp)
      rw [linesFwd_snoc_nl ps false [] h1 (by intro h; exact Bool.noConfusion h)] at this
      simpa [rustLines] using this
    unfold expandLiterals
    rw [hL', mapM_expand _ (fun l hl => expandLine_plain (hgood l hl).2)]
    simp only [Option.map_some]
    have : ((linesFwd [] ps).map fun l => [l]).flatten = linesFwd [] ps := by
      induction linesFwd [] ps with
      | nil => rfl
      | cons a t ih => simp [ih]
    rw [this, flatten_map_nl _ hLne, hjoin]

/-! Layouts are NUL-free. -/

theorem ident_nulFree {n : Str} (h : isIdentStr n = true) : n.all (· ≠ '\x00') = true := by
  cases n with
  | nil => simp [isIdentStr] at h
  | cons c r =>
    simp only [isIdentStr, Bool.and_eq_true, Bool.or_eq_true, decide_eq_true_eq] at h
    obtain ⟨hc, hsuf⟩ := h
    have hsplit : r = r.takeWhile isIdentBody ++ r.dropWhile isIdentBody :=
      List.takeWhile_append_dropWhile.symm
    have h1 : (r.takeWhile isIdentBody).all (· ≠ '\x00') = true := by
      have := all_takeWhile isIdentBody r
      simp only [List.all_eq_true, decide_eq_true_eq] at this ⊢
      intro x hx e
      have hb := this x hx
      rw [e] at hb
      exact absurd hb (by decide)
    have h2 : (r.dropWhile isIdentBody).all (· ≠ '\x00') = true := by
      rcases hsuf with ((e | e) | e) | e <;> rw [e] <;> decide
    have hr : r.all (· ≠ '\x00') = true := by
      rw [hsplit, List.all_append, h1, h2]; rfl
    have hc0 := lower_ne hc '\x00' (by decide)
    simp only [List.all_cons, Bool.and_eq_true, decide_eq_true_eq]
    exact ⟨hc0, hr⟩

/-! ### Blocks around single blank lines

A program with "tall" steps is a sequence of BLOCKS — tidy, NUL-free piece lists — separated by one
blank line each (`nl 0, nl 0`). Its lines are the lines of the blocks with one empty line in between,
so the line passes still leave it alone. -/

/-- the blocks with a blank line between each two -/
def joinBlocks : List (List Piece) → List Piece
  | [] => []
  | [b] => b
  | b :: bs => b ++ .nl 0 :: .nl 0 :: joinBlocks bs

/-- the lines of the blocks with an empty line between each two -/
def blockLines : List (List Piece) → List (List Char)
  | [] => []
  | [b] => linesFwd [] b
  | b :: bs => linesFwd [] b ++ [] :: blockLines bs

theorem linesFwd_append_nl (A R : List Piece) (k : Nat) : ∀ (p : List Char),
    linesFwd p (A ++ .nl k :: R) = linesFwd p (A ++ [.nl 0]) ++ linesFwd (List.replicate k ' ') R := by
  induction A with
  | nil => intro p; simp [linesFwd]
  | cons x A ih =>
    intro p
    cases x with
    | atom s => simpa [linesFwd] using ih (p ++ s)
    | sp => simpa [linesFwd] using ih (p ++ [' '])
    | nl j => simpa [linesFwd] using ih (List.replicate j ' ')

theorem linesFwd_joinBlocks : ∀ (bs : List (List Piece)), bs ≠ [] → (∀ b ∈ bs, tidyPs false b = true) →
    linesFwd [] (joinBlocks bs) = blockLines bs ∧ linesFwd [] (joinBlocks bs ++ [.nl 0]) = blockLines bs
  | [], hne, _ => absurd rfl hne
  | [b], _, h => by
    have hb := h b (by simp)
    exact ⟨rfl, by simpa [joinBlocks, blockLines] using
      linesFwd_snoc_nl b false [] hb (by intro e; exact Bool.noConfusion e)⟩
  | b :: b' :: bs, _, h => by
    have hb := h b (by simp)
    have ih := linesFwd_joinBlocks (b' :: bs) (by simp) (fun x hx => h x (by simp [hx]))
    have hsn := linesFwd_snoc_nl b false [] hb (by intro e; exact Bool.noConfusion e)
    constructor
    · show linesFwd [] (b ++ .nl 0 :: (.nl 0 :: joinBlocks (b' :: bs))) = _
      rw [linesFwd_append_nl, hsn]
      simp [linesFwd, blockLines, ih.1]
    · show linesFwd [] ((b ++ .nl 0 :: (.nl 0 :: joinBlocks (b' :: bs))) ++ [.nl 0]) = _
      rw [List.append_assoc, List.cons_append, List.cons_append, linesFwd_append_nl, hsn]
      simp [linesFwd, blockLines, ih.2]

theorem joinNl_append {A B : List (List Char)} (ha : A ≠ []) (hb : B ≠ []) :
    joinNl (A ++ B) = joinNl A ++ '\n' :: joinNl B := by
  induction A with
  | nil => exact absurd rfl ha
  | cons a A ih =>
    cases A with
    | nil =>
      cases B with
      | nil => exact absurd rfl hb
      | cons b B => rfl
    | cons a' A =>
      have := ih (by simp)
      simp only [List.cons_append] at this ⊢
      simp only [joinNl, this, List.append_assoc, List.cons_append]

theorem collapseLoop_cons_nonblank (a : List Char) (h : isBlankLine a = false) (b : Bool)
    (r : List (List Char)) : collapseLoop b (a :: r) = a :: collapseLoop false r := by
  simp [collapseLoop, h]

theorem collapseLoop_append_nonblank (A X : List (List Char)) (ha : A ≠ [])
    (h : ∀ l ∈ A, isBlankLine l = false) : ∀ b, collapseLoop b (A ++ X) = A ++ collapseLoop false X := by
  induction A with
  | nil => exact absurd rfl ha
  | cons a A ih =>
    intro b
    have hl := h a (by simp)
    cases A with
    | nil => simp [collapseLoop_cons_nonblank a hl]
    | cons a' A =>
      have := ih (by simp) (fun x hx => h x (by simp [hx])) false
      rw [List.cons_append, collapseLoop_cons_nonblank a hl, this]
      rfl

theorem dropTrailingEmpty_last (L : List (List Char)) (l : List Char) (h : l ≠ []) :
    dropTrailingEmpty (L ++ [l]) = L ++ [l] := by
  have hne : l.isEmpty = false := by cases l with | nil => exact absurd rfl h | cons c r => rfl
  simp [dropTrailingEmpty, hne]

/-- what the line passes need to know about the lines of a tidy, NUL-free block -/
theorem block_lines {b : List Piece} (h1 : tidyPs false b = true) (h2 : nulFree b = true) :
    linesFwd [] b ≠ [] ∧ (∀ l ∈ linesFwd [] b, GoodLine l) ∧ joinNl (linesFwd [] b) = renderPieces b := by
  have hgood : ∀ l ∈ linesFwd [] b, GoodLine l :=
    linesFwd_good b false [] h1 h2 (by intro h; exact Bool.noConfusion h) (by simp [headNS])
  have hL : rustLinesAux [] (renderPieces b) = linesFwd [] b := by
    simpa using rustLinesAux_linesFwd b [] (atomsOk_of_tidy b false h1) (by simp)
  have hjoin : joinNl (linesFwd [] b) = renderPieces b := by
    have := strip_aux b false [] h1 (by intro h; exact Bool.noConfusion h)
    rw [hL, map_trimEnd_id _ (fun l hl => (hgood l hl).1)] at this
    simpa using this
  refine ⟨?_, hgood, hjoin⟩
  intro e
  rw [e] at hjoin
  exact renderPieces_ne_nil_of_tidy h1 hjoin.symm

/-- a line of the blocks: a good line, or the empty line between two blocks -/
theorem blockLines_facts : ∀ (bs : List (List Piece)), bs ≠ [] →
    (∀ b ∈ bs, tidyPs false b = true ∧ nulFree b = true) →
    (∀ l ∈ blockLines bs, GoodLine l ∨ l = []) ∧ joinNl (blockLines bs) = renderPieces (joinBlocks bs) ∧
    (∀ pb, collapseLoop pb (blockLines bs) = blockLines bs) ∧
    (∃ L l, blockLines bs = L ++ [l] ∧ l ≠ [])
  | [], hne, _ => absurd rfl hne
  | [b], _, h => by
    obtain ⟨h1, h2⟩ := h b (by simp)
    obtain ⟨hne, hgood, hjoin⟩ := block_lines h1 h2
    refine ⟨fun l hl => .inl (hgood l hl), hjoin, fun pb => ?_, ?_⟩
    · refine collapseLoop_id _ (fun l hl => ?_) pb
      obtain ⟨init, c, rfl, hc⟩ := (hgood l hl).1
      simp [isBlankLine, hc]
    · have hlast := List.dropLast_concat_getLast hne
      refine ⟨_, _, hlast.symm, ?_⟩
      obtain ⟨init, c, he, _⟩ := (hgood _ (List.getLast_mem hne)).1
      rw [he]; simp
  | b :: b' :: bs, _, h => by
    obtain ⟨h1, h2⟩ := h b (by simp)
    obtain ⟨hne, hgood, hjoin⟩ := block_lines h1 h2
    obtain ⟨ihg, ihj, ihc, L, l, ihl, hl⟩ := blockLines_facts (b' :: bs) (by simp) (fun x hx => h x (by simp [hx]))
    have hnb : ∀ l ∈ linesFwd [] b, isBlankLine l = false := by
      intro l hl
      obtain ⟨init, c, rfl, hc⟩ := (hgood l hl).1
      simp [isBlankLine, hc]
    have hrest_ne : blockLines (b' :: bs) ≠ [] := by rw [ihl]; simp
    refine ⟨?_, ?_, ?_, ?_⟩
    · intro l hl
      simp only [blockLines, List.mem_append, List.mem_cons] at hl
      rcases hl with hl | rfl | hl
      · exact .inl (hgood l hl)
      · exact .inr rfl
      · exact ihg l hl
    · show joinNl (linesFwd [] b ++ [] :: blockLines (b' :: bs)) = renderPieces (b ++ .nl 0 :: .nl 0 :: joinBlocks (b' :: bs))
      rw [joinNl_append hne (by simp), hjoin, joinNl_cons_ne [] hrest_ne, ihj]
      simp [renderPieces_append, renderPieces, Piece.render]
    · intro pb
      show collapseLoop pb (linesFwd [] b ++ [] :: blockLines (b' :: bs)) = _
      rw [collapseLoop_append_nonblank _ _ hne hnb]
      simp [collapseLoop, isBlankLine, ihc true, blockLines]
    · exact ⟨linesFwd [] b ++ [] :: L, l, by simp [blockLines, ihl], hl⟩

/-- the three line passes on blocks around single blank lines -/
theorem post_passes_blocks {bs : List (List Piece)} (hne : bs ≠ [])
    (h : ∀ b ∈ bs, tidyPs false b = true ∧ nulFree b = true) :
    stripTrailingWhitespace (renderPieces (joinBlocks bs)) = renderPieces (joinBlocks bs) ∧
    collapseBlanks (renderPieces (joinBlocks bs)) = renderPieces (joinBlocks bs) ++ ['\n'] ∧
    expandLiterals (renderPieces (joinBlocks bs) ++ ['\n']) [] = some (renderPieces (joinBlocks bs) ++ ['\n']) := by
  obtain ⟨hlines, hjoin, hcol, L, l, hlast, hl⟩ := blockLines_facts bs hne h
  have hok : atomsOk (joinBlocks bs) = true := by
    have : ∀ (bs : List (List Piece)), (∀ b ∈ bs, atomsOk b = true) → atomsOk (joinBlocks bs) = true := by
      intro bs
      induction bs with
      | nil => intro _; rfl
      | cons b bs ih =>
        intro hb
        cases bs with
        | nil => exact hb b (by simp)
        | cons b' bs =>
          have h1 := hb b (by simp)
          have h2 := ih (fun x hx => hb x (by simp [hx]))
          have happ : ∀ (a c : List Piece), atomsOk a = true → atomsOk c = true → atomsOk (a ++ c) = true := by
            intro a c ha hc
            induction a with
            | nil => exact hc
            | cons x a iha =>
              cases x <;> simp_all [atomsOk]
          exact happ b _ h1 (by simpa [atomsOk] using h2)
    exact this bs (fun b hb => atomsOk_of_tidy b false (h b hb).1)
  have htidy : ∀ b ∈ bs, tidyPs false b = true := fun b hb => (h b hb).1
  have hL : rustLines (renderPieces (joinBlocks bs)) = blockLines bs := by
    have := rustLinesAux_linesFwd (joinBlocks bs) [] hok (by simp)
    rw [(linesFwd_joinBlocks bs hne htidy).1] at this
    simpa [rustLines] using this
  have hL' : rustLines (renderPieces (joinBlocks bs) ++ ['\n']) = blockLines bs := by
    have hr : renderPieces (joinBlocks bs) ++ ['\n'] = renderPieces (joinBlocks bs ++ [.nl 0]) := by
      simp [renderPieces_append, renderPieces, Piece.render]
    rw [hr]
    have := rustLinesAux_linesFwd (joinBlocks bs ++ [.nl 0]) [] (by rw [atomsOk_snoc_nl]; exact hok) (by simp)
    rw [(linesFwd_joinBlocks bs hne htidy).2] at this
    simpa [rustLines] using this
  have htrim : (blockLines bs).map trimEnd = blockLines bs := by
    have : ∀ (Ls : List (List Char)), (∀ l ∈ Ls, GoodLine l ∨ l = []) → Ls.map trimEnd = Ls := by
      intro Ls
      induction Ls with
      | nil => intro _; rfl
      | cons a Ls ih =>
        intro hh
        rw [List.map_cons, ih (fun x hx => hh x (by simp [hx]))]
        rcases hh a (by simp) with hg | rfl
        · obtain ⟨init, c, rfl, hc⟩ := hg.1
          rw [trimEnd_snoc init c hc]
        · simp [trimEnd]
    exact this _ hlines
  have hLne : blockLines bs ≠ [] := by rw [hlast]; simp
  refine ⟨?_, ?_, ?_⟩
  · unfold stripTrailingWhitespace
    rw [hL, htrim, hjoin]
  · unfold collapseBlanks
    rw [hL, hcol true, hlast, dropTrailingEmpty_last L l hl, ← hlast, hjoin]
  · unfold expandLiterals
    have hexp : ∀ l ∈ blockLines bs, expandLine [] l = some [l] := by
      intro l hl'
      rcases hlines l hl' with hg | rfl
      · exact expandLine_plain hg.2
      · exact expandLine_plain (by simp [headNS])
    rw [hL', mapM_expand _ hexp]
    simp only [Option.map_some]
    have : ((blockLines bs).map fun l => [l]).flatten = blockLines bs := by
      induction blockLines bs with
      | nil => rfl
      | cons a t ih => simp [ih]
    rw [this, flatten_map_nl _ hLne, hjoin]

end QM.Frag
