import QuiverModel.Core.Text.Scan
/-
Helper lemmas about M-Text (unfolding equations in `cons` form, UTF-8 lengths). Used by
Theorems/C17.lean and Theorems/C18.lean. Core Lean only.
-/
namespace QM.Text

theorem utf8Len_append (a b : List Char) : utf8Len (a ++ b) = utf8Len a + utf8Len b := by
  induction a with
  | nil => simp [utf8Len]
  | cons c cs ih => simp [utf8Len, ih]; omega

theorem stringSegments_cons (c : Char) (rest : List Char) :
    stringSegments (c :: rest) =
      if c = '"' then .closed [] rest
      else if c = '{' then .hole [] (c :: rest)
      else if c = '\\' then
        match rest with
        | [] => .unterminated
        | e :: rest' =>
          match singleEscape e with
          | some d => (stringSegments rest').push d
          | none => .badEscape
      else (stringSegments rest).push c := by
  rw [stringSegments.eq_def]; rfl

theorem decodeSingleAux_cons (o : Nat) (c : Char) (rest : List Char) :
    decodeSingleAux o (c :: rest) =
      if c = '\\' then
        match rest with
        | [] => .error ⟨o, 1, ['\\']⟩
        | e :: rest' =>
          match singleEscape e with
          | some d => (decodeSingleAux (o + 2) rest').map (d :: ·)
          | none => .error ⟨o, 2, ['\\', e]⟩
      else (decodeSingleAux (o + c.utf8Size) rest).map (c :: ·) := by
  rw [decodeSingleAux.eq_def]; rfl

theorem scanCloseSingleAux_cons (idx : Nat) (c : Char) (rest : List Char) :
    scanCloseSingleAux idx (c :: rest) =
      if c = '\\' then
        match rest with
        | [] => none
        | e :: rest' => scanCloseSingleAux (idx + c.utf8Size + e.utf8Size) rest'
      else if c = '"' then some idx
      else scanCloseSingleAux (idx + c.utf8Size) rest := by
  rw [scanCloseSingleAux.eq_def]; rfl

theorem scanCloseMultiAux_cons (idx : Nat) (c : Char) (rest : List Char) :
    scanCloseMultiAux idx (c :: rest) =
      if c = '\\' then
        match rest with
        | [] => none
        | e :: rest' => scanCloseMultiAux (idx + c.utf8Size + e.utf8Size) rest'
      else if c = '"' && startsTripleQuote (c :: rest) then some idx
      else scanCloseMultiAux (idx + c.utf8Size) rest := by
  rw [scanCloseMultiAux.eq_def]; rfl

theorem processSegments_cons (pending : List Char) (c : Char) (rest : List Char) :
    processSegments pending (c :: rest) =
      if c = ' ' || c = '\t' then processSegments (pending ++ [c]) rest
      else if c = '\n' then (processSegments [] rest).prepend ['\n']
      else if c = '{' then .hole pending (c :: rest)
      else if c = '\\' then
        match rest with
        | [] => .malformed
        | e :: rest' =>
          if e = '\n' then (processSegments [] (dropHspace rest')).prepend pending
          else
            match multiEscape e with
            | some d => (processSegments [] rest').prepend (pending ++ [d])
            | none => .malformed
      else (processSegments [] rest).prepend (pending ++ [c]) := by
  rw [processSegments.eq_def]; rfl

theorem processSegments_nil (pending : List Char) : processSegments pending [] = .text [] := by
  rw [processSegments.eq_def]

end QM.Text
