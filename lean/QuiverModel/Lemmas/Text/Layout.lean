import QuiverModel.Core.Text.DocSpec
/-
Lemmas about the layout engine model (`printLoop`, `fitsLoop`, `flattenLoop`): equations per match
arm, the atom invariants (permutation with line suffixes, document order without), the shape of a
line-suffix flush, completeness of `fits` on flat stacks, printing in flat mode. Core Lean only.
-/
namespace QM.Text

/-! Equations of `printLoop`, one per arm of the Rust `match`. -/
section
variable (w col : Nat) (f : Frame) (st suf : List Frame)

theorem printLoop_nil_nil : printLoop w col [] [] = [] := by rw [printLoop]
theorem printLoop_nil_cons (s : Frame) (ss : List Frame) :
    printLoop w col [] (s :: ss) = printLoop w col (s :: ss) [] := by rw [printLoop]
theorem printLoop_docNil (hd : f.doc = .nil) :
    printLoop w col (f :: st) suf = printLoop w col st suf := by
  rw [printLoop.eq_def]; simp only []; split <;> simp_all
theorem printLoop_breakParent (hd : f.doc = .breakParent) :
    printLoop w col (f :: st) suf = printLoop w col st suf := by
  rw [printLoop.eq_def]; simp only []; split <;> simp_all
theorem printLoop_text (s : List Char) (hd : f.doc = .text s) :
    printLoop w col (f :: st) suf = .atom s :: printLoop w (col + s.length) st suf := by
  rw [printLoop.eq_def]; simp only []; split <;> simp_all
theorem printLoop_concat (ds : List Doc) (hd : f.doc = .concat ds) :
    printLoop w col (f :: st) suf = printLoop w col (mkFrames f.indent f.mode ds ++ st) suf := by
  rw [printLoop.eq_def]; simp only []; split <;> simp_all
theorem printLoop_nest (n : Nat) (d : Doc) (hd : f.doc = .nest n d) :
    printLoop w col (f :: st) suf = printLoop w col (⟨f.indent + n, f.mode, d⟩ :: st) suf := by
  rw [printLoop.eq_def]; simp only []; split <;> simp_all
theorem printLoop_lineSuffix (d : Doc) (hd : f.doc = .lineSuffix d) :
    printLoop w col (f :: st) suf = printLoop w col st (suf ++ [⟨f.indent, f.mode, d⟩]) := by
  rw [printLoop.eq_def]; simp only []; split <;> simp_all
theorem printLoop_line_flat (hd : f.doc = .line) (hm : f.mode = .flat) :
    printLoop w col (f :: st) suf = .sp :: printLoop w (col + 1) st suf := by
  rw [printLoop.eq_def]; simp only []; split <;> simp_all
theorem printLoop_softline_flat (hd : f.doc = .softline) (hm : f.mode = .flat) :
    printLoop w col (f :: st) suf = printLoop w col st suf := by
  rw [printLoop.eq_def]; simp only []; split <;> simp_all
/-- A real line break (`Line`/`SoftLine` in break mode, or any `HardLine`). -/
def IsBreak (f : Frame) : Prop :=
  (f.doc = .line ∧ f.mode = .brk) ∨ (f.doc = .softline ∧ f.mode = .brk) ∨ f.doc = .hardline
theorem printLoop_break_nil (hb : IsBreak f) :
    printLoop w col (f :: st) [] = .nl f.indent :: printLoop w f.indent st [] := by
  rcases hb with ⟨hd, hm⟩ | ⟨hd, hm⟩ | hd <;> (rw [printLoop.eq_def]; simp only []; split <;> simp_all)
theorem printLoop_break_cons (hb : IsBreak f) (s : Frame) (ss : List Frame) :
    printLoop w col (f :: st) (s :: ss) = printLoop w col ((s :: ss) ++ f :: st) [] := by
  rcases hb with ⟨hd, hm⟩ | ⟨hd, hm⟩ | hd <;> (rw [printLoop.eq_def]; simp only []; split <;> simp_all)
theorem printLoop_ifBreak_brk (b fl : Doc) (hd : f.doc = .ifBreak b fl) (hm : f.mode = .brk) :
    printLoop w col (f :: st) suf = printLoop w col (⟨f.indent, .brk, b⟩ :: st) suf := by
  rw [printLoop.eq_def]; simp only []; split <;> simp_all
theorem printLoop_ifBreak_flat (b fl : Doc) (hd : f.doc = .ifBreak b fl) (hm : f.mode = .flat) :
    printLoop w col (f :: st) suf = printLoop w col (⟨f.indent, .flat, fl⟩ :: st) suf := by
  rw [printLoop.eq_def]; simp only []; split <;> simp_all
theorem printLoop_group (d : Doc) (sb : Bool) (hd : f.doc = .group d sb) :
    printLoop w col (f :: st) suf =
      printLoop w col (⟨f.indent, if sb || !fits (w - col) f.indent d st then .brk else .flat, d⟩ :: st) suf := by
  rw [printLoop.eq_def]; simp only []; split <;> simp_all
end

inductive ReadsStack : List Frame → List (List Char) → Prop
  | nil : ReadsStack [] []
  | cons (f st a b) : Reads f.doc f.mode a → ReadsStack st b → ReadsStack (f :: st) (a ++ b)

theorem ReadsStack.cons_inv {f : Frame} {st : List Frame} {as : List (List Char)}
    (h : ReadsStack (f :: st) as) :
    ∃ x y, as = x ++ y ∧ Reads f.doc f.mode x ∧ ReadsStack st y := by
  cases h with
  | cons _ _ a b h1 h2 => exact ⟨a, b, rfl, h1, h2⟩

theorem ReadsStack.nil_inv {as : List (List Char)} (h : ReadsStack [] as) : as = [] := by
  cases h; rfl

theorem ReadsStack.append_inv {s1 s2 : List Frame} {as : List (List Char)}
    (h : ReadsStack (s1 ++ s2) as) :
    ∃ x y, as = x ++ y ∧ ReadsStack s1 x ∧ ReadsStack s2 y := by
  induction s1 generalizing as with
  | nil => exact ⟨[], as, rfl, .nil, h⟩
  | cons f st ih =>
    obtain ⟨x, y, rfl, hx, hy⟩ := ReadsStack.cons_inv h
    obtain ⟨y1, y2, rfl, h1, h2⟩ := ih hy
    exact ⟨x ++ y1, y2, by simp, .cons _ _ _ _ hx h1, h2⟩

theorem ReadsStack.append {s1 s2 : List Frame} {x y : List (List Char)}
    (h1 : ReadsStack s1 x) (h2 : ReadsStack s2 y) : ReadsStack (s1 ++ s2) (x ++ y) := by
  induction h1 with
  | nil => simpa
  | cons f st a b ha _ ih => rw [List.append_assoc]; exact .cons _ _ _ _ ha ih

theorem ReadsStack.mkFrames_inv {i : Nat} {m : Mode} {ds : List Doc} {x : List (List Char)}
    (h : ReadsStack (mkFrames i m ds) x) : ReadsList ds m x := by
  induction ds generalizing x with
  | nil => simp [mkFrames] at h; rw [h.nil_inv]; exact .nil m
  | cons d ds ih =>
    simp only [mkFrames] at h
    obtain ⟨a, b, rfl, ha, hb⟩ := h.cons_inv
    exact .cons _ _ _ _ _ ha (ih hb)

theorem atomsOf_cons_atom (s : List Char) (ps : List Piece) : atomsOf (.atom s :: ps) = s :: atomsOf ps := rfl
theorem atomsOf_cons_sp (ps : List Piece) : atomsOf (.sp :: ps) = atomsOf ps := rfl
theorem atomsOf_cons_nl (n : Nat) (ps : List Piece) : atomsOf (.nl n :: ps) = atomsOf ps := rfl


/-- What the print loop will emit from a state is, up to the deferral of line suffixes, a reading of
    what is pending: nothing is dropped, nothing is duplicated. -/
def AtomsInv (w col : Nat) (st suf : List Frame) : Prop :=
  ∃ a b, ReadsStack st a ∧ ReadsStack suf b ∧ (atomsOf (printLoop w col st suf)).Perm (a ++ b)

section
variable {w col col' : Nat} {f : Frame} {st suf suf' : List Frame}

theorem AtomsInv.skip (e : printLoop w col (f :: st) suf = printLoop w col' st suf)
    (hr : Reads f.doc f.mode []) (h : AtomsInv w col' st suf) : AtomsInv w col (f :: st) suf := by
  obtain ⟨a, b, ha, hb, hp⟩ := h
  refine ⟨a, b, ?_, hb, by rw [e]; exact hp⟩
  simpa using ReadsStack.cons f st [] a hr ha

theorem AtomsInv.emit (p : Piece) (hp' : ∀ x, atomsOf (p :: x) = atomsOf x)
    (e : printLoop w col (f :: st) suf = p :: printLoop w col' st suf)
    (hr : Reads f.doc f.mode []) (h : AtomsInv w col' st suf) : AtomsInv w col (f :: st) suf := by
  obtain ⟨a, b, ha, hb, hp⟩ := h
  refine ⟨a, b, ?_, hb, by rw [e, hp']; exact hp⟩
  simpa using ReadsStack.cons f st [] a hr ha

theorem AtomsInv.replace (fs' : List Frame)
    (e : printLoop w col (f :: st) suf = printLoop w col (fs' ++ st) suf)
    (hr : ∀ x, ReadsStack fs' x → Reads f.doc f.mode x)
    (h : AtomsInv w col (fs' ++ st) suf) : AtomsInv w col (f :: st) suf := by
  obtain ⟨a, b, ha, hb, hp⟩ := h
  obtain ⟨x, y, rfl, hx, hy⟩ := ha.append_inv
  exact ⟨x ++ y, b, .cons _ _ _ _ (hr x hx) hy, hb, by rw [e]; exact hp⟩

theorem ReadsStack.single_inv {g : Frame} {x : List (List Char)} (h : ReadsStack [g] x) :
    Reads g.doc g.mode x := by
  obtain ⟨a, b, rfl, ha, hb⟩ := h.cons_inv
  rw [hb.nil_inv]; simpa using ha

theorem AtomsInv.flush (s : Frame) (ss : List Frame)
    (e : printLoop w col (f :: st) (s :: ss) = printLoop w col ((s :: ss) ++ f :: st) [])
    (h : AtomsInv w col ((s :: ss) ++ f :: st) []) : AtomsInv w col (f :: st) (s :: ss) := by
  obtain ⟨a, b, ha, hb, hp⟩ := h
  obtain ⟨x, y, rfl, hx, hy⟩ := ha.append_inv
  rw [hb.nil_inv] at hp
  refine ⟨y, x, hy, hx, ?_⟩
  rw [e]
  exact hp.trans (by simpa using List.perm_append_comm)
end

theorem printLoop_atoms (w col : Nat) (st suf : List Frame) : AtomsInv w col st suf := by
  refine printLoop.induct w (motive := fun col st suf => AtomsInv w col st suf)
    ?_ ?_ ?_ ?_ ?_ ?_ ?_ ?_ ?_ ?_ ?_ ?_ ?_ ?_ ?_ ?_ ?_ ?_ ?_ col st suf
  · intro col
    exact ⟨[], [], .nil, .nil, by simp [printLoop_nil_nil, atomsOf]⟩
  · intro col s ss ih
    obtain ⟨a, b, ha, hb, hp⟩ := ih
    rw [hb.nil_inv] at hp
    exact ⟨[], a, .nil, ha, by rw [printLoop_nil_cons]; simpa using hp⟩
  · intro col suf f st hd ih
    exact .skip (printLoop_docNil w col f st suf hd) (by rw [hd]; exact .nil _) ih
  · intro col suf f st hd ih
    exact .skip (printLoop_breakParent w col f st suf hd) (by rw [hd]; exact .breakParent _) ih
  · intro col suf f st s hd ih
    obtain ⟨a, b, ha, hb, hp⟩ := ih
    refine ⟨s :: a, b, ?_, hb, ?_⟩
    · exact ReadsStack.cons f st [s] a (by rw [hd]; exact .text _ _) ha
    · rw [printLoop_text w col f st suf s hd, atomsOf_cons_atom]
      simpa using hp.cons s
  · intro col suf f st ds hd ih
    exact .replace _ (printLoop_concat w col f st suf ds hd)
      (fun x hx => by rw [hd]; exact .concat _ _ _ hx.mkFrames_inv) ih
  · intro col suf f st n d hd ih
    exact .replace [_] (printLoop_nest w col f st suf n d hd)
      (fun x hx => by rw [hd]; exact .nest _ _ _ _ hx.single_inv) ih
  · intro col suf f st d hd ih
    obtain ⟨a, b, ha, hb, hp⟩ := ih
    obtain ⟨b1, x, rfl, hb1, hx⟩ := hb.append_inv
    refine ⟨x ++ a, b1, ?_, hb1, ?_⟩
    · exact .cons _ _ _ _ (by rw [hd]; exact .lineSuffix _ _ _ hx.single_inv) ha
    · rw [printLoop_lineSuffix w col f st suf d hd]
      refine hp.trans ?_
      -- a ++ (b1 ++ x) ~ (x ++ a) ++ b1
      have : (a ++ (b1 ++ x)).Perm (x ++ (a ++ b1)) := by
        rw [← List.append_assoc]; exact List.perm_append_comm
      simpa using this
  · intro col suf f st hd hm ih
    exact .emit .sp (fun _ => rfl) (printLoop_line_flat w col f st suf hd hm) (by rw [hd]; exact .line _) ih
  · intro col f st hd hm ih
    exact .emit (.nl f.indent) (fun _ => rfl) (printLoop_break_nil w col f st (.inl ⟨hd, hm⟩))
      (by rw [hd]; exact .line _) ih
  · intro col f st hd hm s ss ih
    exact .flush s ss (printLoop_break_cons w col f st (.inl ⟨hd, hm⟩) s ss) ih
  · intro col suf f st hd hm ih
    exact .skip (printLoop_softline_flat w col f st suf hd hm) (by rw [hd]; exact .softline _) ih
  · intro col f st hd hm ih
    exact .emit (.nl f.indent) (fun _ => rfl) (printLoop_break_nil w col f st (.inr (.inl ⟨hd, hm⟩)))
      (by rw [hd]; exact .softline _) ih
  · intro col f st hd hm s ss ih
    exact .flush s ss (printLoop_break_cons w col f st (.inr (.inl ⟨hd, hm⟩)) s ss) ih
  · intro col f st hd ih
    exact .emit (.nl f.indent) (fun _ => rfl) (printLoop_break_nil w col f st (.inr (.inr hd)))
      (by rw [hd]; exact .hardline _) ih
  · intro col f st hd s ss ih
    exact .flush s ss (printLoop_break_cons w col f st (.inr (.inr hd)) s ss) ih
  · intro col suf f st b fl hd hm ih
    exact .replace [_] (printLoop_ifBreak_brk w col f st suf b fl hd hm)
      (fun x hx => by rw [hd, hm]; exact .ifBreakBrk _ _ _ hx.single_inv) ih
  · intro col suf f st b fl hd hm ih
    exact .replace [_] (printLoop_ifBreak_flat w col f st suf b fl hd hm)
      (fun x hx => by rw [hd, hm]; exact .ifBreakFlat _ _ _ hx.single_inv) ih
  · intro col suf f st d sb hd mode ih
    have e := printLoop_group w col f st suf d sb hd
    have hmode : (if sb || !fits (w - col) f.indent d st then Mode.brk else Mode.flat) = mode := by
      simp only [mode]; split <;> simp_all
    rw [hmode] at e
    refine .replace [_] e (fun x hx => ?_) ih
    rw [hd]
    refine .group _ _ _ _ _ ?_ hx.single_inv
    intro hsb; simp [mode, hsb]

/-! ### Order: without line suffixes the atoms come out in document order -/

def NoSuffixStack (st : List Frame) : Prop := ∀ f ∈ st, noSuffix f.doc = true

theorem NoSuffixStack.tail {f : Frame} {st : List Frame} (h : NoSuffixStack (f :: st)) :
    NoSuffixStack st := fun g hg => h g (by simp [hg])

theorem NoSuffixStack.head {f : Frame} {st : List Frame} (h : NoSuffixStack (f :: st)) :
    noSuffix f.doc = true := h f (by simp)

theorem NoSuffixStack.mkFrames (i : Nat) (m : Mode) (ds : List Doc) (h : noSuffixList ds = true) :
    NoSuffixStack (mkFrames i m ds) := by
  induction ds with
  | nil => intro f hf; simp [QM.Text.mkFrames] at hf
  | cons d ds ih =>
    simp only [noSuffixList, Bool.and_eq_true] at h
    intro f hf
    simp only [QM.Text.mkFrames, List.mem_cons] at hf
    rcases hf with rfl | hf
    · exact h.1
    · exact ih h.2 f hf

theorem NoSuffixStack.append {a b : List Frame} (ha : NoSuffixStack a) (hb : NoSuffixStack b) :
    NoSuffixStack (a ++ b) := by
  intro f hf
  simp only [List.mem_append] at hf
  rcases hf with hf | hf
  · exact ha f hf
  · exact hb f hf

def OrdInv (w col : Nat) (st suf : List Frame) : Prop :=
  suf = [] → NoSuffixStack st → ReadsStack st (atomsOf (printLoop w col st suf))

section
variable {w col col' : Nat} {f : Frame} {st : List Frame}

theorem OrdInv.skip (e : printLoop w col (f :: st) [] = printLoop w col' st [])
    (hr : Reads f.doc f.mode []) (h : OrdInv w col' st []) : OrdInv w col (f :: st) [] := by
  intro _ hns
  rw [e]
  simpa using ReadsStack.cons f st [] _ hr (h rfl hns.tail)

theorem OrdInv.emit (p : Piece) (hp' : ∀ x, atomsOf (p :: x) = atomsOf x)
    (e : printLoop w col (f :: st) [] = p :: printLoop w col' st [])
    (hr : Reads f.doc f.mode []) (h : OrdInv w col' st []) : OrdInv w col (f :: st) [] := by
  intro _ hns
  rw [e, hp']
  simpa using ReadsStack.cons f st [] _ hr (h rfl hns.tail)

theorem OrdInv.replace (fs' : List Frame)
    (e : printLoop w col (f :: st) [] = printLoop w col (fs' ++ st) [])
    (hr : ∀ x, ReadsStack fs' x → Reads f.doc f.mode x)
    (hn : noSuffix f.doc = true → NoSuffixStack fs')
    (h : OrdInv w col (fs' ++ st) []) : OrdInv w col (f :: st) [] := by
  intro _ hns
  rw [e]
  have := h rfl ((hn hns.head).append hns.tail)
  obtain ⟨x, y, hxy, hx, hy⟩ := this.append_inv
  rw [hxy]
  exact .cons _ _ _ _ (hr x hx) hy
end

theorem NoSuffixStack.single {g : Frame} (h : noSuffix g.doc = true) : NoSuffixStack [g] := by
  intro f hf; simp at hf; subst hf; exact h

theorem printLoop_order (w col : Nat) (st suf : List Frame) : OrdInv w col st suf := by
  refine printLoop.induct w (motive := fun col st suf => OrdInv w col st suf)
    ?_ ?_ ?_ ?_ ?_ ?_ ?_ ?_ ?_ ?_ ?_ ?_ ?_ ?_ ?_ ?_ ?_ ?_ ?_ col st suf
  · intro col _ _
    rw [printLoop_nil_nil]; exact .nil
  · intro col s ss _ h; exact absurd h (by simp)
  · intro col suf f st hd ih hs
    subst hs
    exact OrdInv.skip (printLoop_docNil w col f st [] hd) (by rw [hd]; exact .nil _) ih rfl
  · intro col suf f st hd ih hs
    subst hs
    exact OrdInv.skip (printLoop_breakParent w col f st [] hd) (by rw [hd]; exact .breakParent _) ih rfl
  · intro col suf f st s hd ih hs hns
    subst hs
    rw [printLoop_text w col f st [] s hd, atomsOf_cons_atom]
    exact ReadsStack.cons f st [s] _ (by rw [hd]; exact .text _ _) (ih rfl hns.tail)
  · intro col suf f st ds hd ih hs
    subst hs
    exact OrdInv.replace _ (printLoop_concat w col f st [] ds hd)
      (fun x hx => by rw [hd]; exact .concat _ _ _ hx.mkFrames_inv)
      (fun h => by rw [hd] at h; exact NoSuffixStack.mkFrames _ _ _ (by simpa [noSuffix] using h)) ih rfl
  · intro col suf f st n d hd ih hs
    subst hs
    exact OrdInv.replace [_] (printLoop_nest w col f st [] n d hd)
      (fun x hx => by rw [hd]; exact .nest _ _ _ _ hx.single_inv)
      (fun h => by rw [hd] at h; exact NoSuffixStack.single (by simpa [noSuffix] using h)) ih rfl
  · intro col suf f st d hd ih hs hns
    have := hns.head; rw [hd] at this; simp [noSuffix] at this
  · intro col suf f st hd hm ih hs
    subst hs
    exact OrdInv.emit .sp (fun _ => rfl) (printLoop_line_flat w col f st [] hd hm) (by rw [hd]; exact .line _) ih rfl
  · intro col f st hd hm ih
    exact OrdInv.emit (.nl f.indent) (fun _ => rfl) (printLoop_break_nil w col f st (.inl ⟨hd, hm⟩))
      (by rw [hd]; exact .line _) ih
  · intro col f st hd hm s ss ih h; exact absurd h (by simp)
  · intro col suf f st hd hm ih hs
    subst hs
    exact OrdInv.skip (printLoop_softline_flat w col f st [] hd hm) (by rw [hd]; exact .softline _) ih rfl
  · intro col f st hd hm ih
    exact OrdInv.emit (.nl f.indent) (fun _ => rfl) (printLoop_break_nil w col f st (.inr (.inl ⟨hd, hm⟩)))
      (by rw [hd]; exact .softline _) ih
  · intro col f st hd hm s ss ih h; exact absurd h (by simp)
  · intro col f st hd ih
    exact OrdInv.emit (.nl f.indent) (fun _ => rfl) (printLoop_break_nil w col f st (.inr (.inr hd)))
      (by rw [hd]; exact .hardline _) ih
  · intro col f st hd s ss ih h; exact absurd h (by simp)
  · intro col suf f st b fl hd hm ih hs
    subst hs
    exact OrdInv.replace [_] (printLoop_ifBreak_brk w col f st [] b fl hd hm)
      (fun x hx => by rw [hd, hm]; exact .ifBreakBrk _ _ _ hx.single_inv)
      (fun h => by rw [hd] at h; exact NoSuffixStack.single (by simp [noSuffix] at h; exact h.1)) ih rfl
  · intro col suf f st b fl hd hm ih hs
    subst hs
    exact OrdInv.replace [_] (printLoop_ifBreak_flat w col f st [] b fl hd hm)
      (fun x hx => by rw [hd, hm]; exact .ifBreakFlat _ _ _ hx.single_inv)
      (fun h => by rw [hd] at h; exact NoSuffixStack.single (by simp [noSuffix] at h; exact h.2)) ih rfl
  · intro col suf f st d sb hd mode ih hs
    subst hs
    have e := printLoop_group w col f st [] d sb hd
    have hmode : (if sb || !fits (w - col) f.indent d st then Mode.brk else Mode.flat) = mode := by
      simp only [mode]; split <;> simp_all
    rw [hmode] at e
    refine OrdInv.replace [_] e (fun x hx => ?_)
      (fun h => by rw [hd] at h; exact NoSuffixStack.single (by simpa [noSuffix] using h)) ih rfl
    rw [hd]
    refine .group _ _ _ _ _ ?_ hx.single_inv
    intro hsb; simp [mode, hsb]

/-! ### Width independence -/

mutual
theorem Reads.det : ∀ (d : Doc) (m : Mode) (as : List (List Char)),
    ifBreakNeutral d = true → Reads d m as → as = atomsDet d
  | .nil, _, _, _, h => by cases h; simp [atomsDet]
  | .text s, _, _, _, h => by cases h; simp [atomsDet]
  | .line, _, _, _, h => by cases h; simp [atomsDet]
  | .softline, _, _, _, h => by cases h; simp [atomsDet]
  | .hardline, _, _, _, h => by cases h; simp [atomsDet]
  | .breakParent, _, _, _, h => by cases h; simp [atomsDet]
  | .concat ds, m, as, hn, h => by
    cases h with
    | concat _ _ _ hl => simp only [atomsDet]; exact ReadsList.det ds m as (by simpa [ifBreakNeutral] using hn) hl
  | .nest _ d, m, as, hn, h => by
    cases h with
    | nest _ _ _ _ hd => simp only [atomsDet]; exact Reads.det d m as (by simpa [ifBreakNeutral] using hn) hd
  | .group d _, m, as, hn, h => by
    cases h with
    | group _ _ _ m' _ _ hd => simp only [atomsDet]; exact Reads.det d m' as (by simpa [ifBreakNeutral] using hn) hd
  | .ifBreak b f, m, as, hn, h => by
    simp only [ifBreakNeutral, Bool.and_eq_true, decide_eq_true_eq] at hn
    cases h with
    | ifBreakBrk _ _ _ hb => simp only [atomsDet]; exact Reads.det b .brk as hn.1.1 hb
    | ifBreakFlat _ _ _ hf => simp only [atomsDet]; rw [hn.2]; exact Reads.det f .flat as hn.1.2 hf
  | .lineSuffix d, m, as, hn, h => by
    cases h with
    | lineSuffix _ _ _ hd => simp only [atomsDet]; exact Reads.det d m as (by simpa [ifBreakNeutral] using hn) hd
theorem ReadsList.det : ∀ (ds : List Doc) (m : Mode) (as : List (List Char)),
    ifBreakNeutralList ds = true → ReadsList ds m as → as = atomsDetList ds
  | [], _, _, _, h => by cases h; simp [atomsDetList]
  | d :: ds, m, as, hn, h => by
    simp only [ifBreakNeutralList, Bool.and_eq_true] at hn
    cases h with
    | cons _ _ _ a b ha hb =>
      simp only [atomsDetList]
      rw [Reads.det d m a hn.1 ha, ReadsList.det ds m b hn.2 hb]
end

/-! ### Line suffixes are flushed before the next newline and at the end of input -/

def TextSufStack (st : List Frame) : Prop := ∀ f ∈ st, textSuffixes f.doc = true

theorem IsTextFrames.append_single {fs : List Frame} {ss : List (List Char)} (h : IsTextFrames fs ss)
    (i : Nat) (m : Mode) (s : List Char) : IsTextFrames (fs ++ [⟨i, m, .text s⟩]) (ss ++ [s]) := by
  induction fs generalizing ss with
  | nil => cases ss <;> simp_all [IsTextFrames]
  | cons f fs ih =>
    cases ss with
    | nil => simp [IsTextFrames] at h
    | cons s' ss => simp only [IsTextFrames] at h; exact ⟨h.1, ih h.2⟩

/-- Printing buffered text frames emits exactly their atoms, then continues with what is below. -/
theorem printLoop_textFrames (w : Nat) (fs : List Frame) (ss : List (List Char))
    (h : IsTextFrames fs ss) (col : Nat) (st : List Frame) :
    ∃ col', printLoop w col (fs ++ st) [] = atomPieces ss ++ printLoop w col' st [] := by
  induction fs generalizing ss col with
  | nil => cases ss <;> simp_all [IsTextFrames, atomPieces]; exact ⟨col, rfl⟩
  | cons f fs ih =>
    cases ss with
    | nil => simp [IsTextFrames] at h
    | cons s ss =>
      simp only [IsTextFrames] at h
      obtain ⟨col', e⟩ := ih ss h.2 (col + s.length)
      refine ⟨col', ?_⟩
      simp only [List.cons_append]
      rw [printLoop_text w col f (fs ++ st) [] s h.1, e]
      simp [atomPieces]

theorem TextSufStack.tail {f : Frame} {st : List Frame} (h : TextSufStack (f :: st)) :
    TextSufStack st := fun g hg => h g (by simp [hg])
theorem TextSufStack.head {f : Frame} {st : List Frame} (h : TextSufStack (f :: st)) :
    textSuffixes f.doc = true := h f (by simp)
theorem TextSufStack.cons {f : Frame} {st : List Frame} (h1 : textSuffixes f.doc = true)
    (h2 : TextSufStack st) : TextSufStack (f :: st) := by
  intro g hg; simp only [List.mem_cons] at hg; rcases hg with rfl | hg
  · exact h1
  · exact h2 g hg
theorem TextSufStack.mkFrames (i : Nat) (m : Mode) (ds : List Doc) (h : textSuffixesList ds = true) :
    TextSufStack (mkFrames i m ds) := by
  induction ds with
  | nil => intro f hf; simp [QM.Text.mkFrames] at hf
  | cons d ds ih =>
    simp only [textSuffixesList, Bool.and_eq_true] at h
    exact .cons h.1 (ih h.2)
theorem TextSufStack.append {a b : List Frame} (ha : TextSufStack a) (hb : TextSufStack b) :
    TextSufStack (a ++ b) := by
  intro f hf; simp only [List.mem_append] at hf
  rcases hf with hf | hf
  · exact ha f hf
  · exact hb f hf

theorem split_at_first_nl (out : List Piece) :
    ∃ pre rest, out = pre ++ rest ∧ noNl pre = true ∧ startsWithNlOrEmpty rest = true := by
  induction out with
  | nil => exact ⟨[], [], rfl, rfl, rfl⟩
  | cons p ps ih =>
    cases p with
    | nl n => exact ⟨[], .nl n :: ps, rfl, rfl, rfl⟩
    | atom s =>
      obtain ⟨pre, rest, e, h1, h2⟩ := ih
      exact ⟨.atom s :: pre, rest, by simp [e], by simpa [noNl] using h1, h2⟩
    | sp =>
      obtain ⟨pre, rest, e, h1, h2⟩ := ih
      exact ⟨.sp :: pre, rest, by simp [e], by simpa [noNl] using h1, h2⟩

theorem FlushShape.nil_ss (out : List Piece) : FlushShape out [] := by
  obtain ⟨pre, rest, e, h1, h2⟩ := split_at_first_nl out
  exact ⟨pre, [], rest, by simp [atomPieces, e], h1, h2⟩

theorem FlushShape.cons_piece {out : List Piece} {ss : List (List Char)} (p : Piece)
    (hp : noNl [p] = true) (h : FlushShape out ss) : FlushShape (p :: out) ss := by
  obtain ⟨pre, more, rest, e, h1, h2⟩ := h
  refine ⟨p :: pre, more, rest, by simp [e], ?_, h2⟩
  cases p <;> simp_all [noNl]

def FlushInv (w col : Nat) (st suf : List Frame) : Prop :=
  TextSufStack st → ∀ ss, IsTextFrames suf ss → FlushShape (printLoop w col st suf) ss

theorem IsTextFrames.nil_inv {ss : List (List Char)} (h : IsTextFrames [] ss) : ss = [] := by
  cases ss <;> simp_all [IsTextFrames]

theorem printLoop_flush (w col : Nat) (st suf : List Frame) : FlushInv w col st suf := by
  refine printLoop.induct w (motive := fun col st suf => FlushInv w col st suf)
    ?_ ?_ ?_ ?_ ?_ ?_ ?_ ?_ ?_ ?_ ?_ ?_ ?_ ?_ ?_ ?_ ?_ ?_ ?_ col st suf
  · intro col _ ss hss
    rw [hss.nil_inv]; exact .nil_ss _
  · intro col s ss' _ _ ss hss
    rw [printLoop_nil_cons]
    obtain ⟨col', e⟩ := printLoop_textFrames w (s :: ss') ss hss col []
    simp only [List.append_nil] at e
    rw [e, printLoop_nil_nil]
    exact ⟨[], [], [], by simp [atomPieces], rfl, rfl⟩
  · intro col suf f st hd ih hts ss hss
    rw [printLoop_docNil w col f st suf hd]; exact ih hts.tail ss hss
  · intro col suf f st hd ih hts ss hss
    rw [printLoop_breakParent w col f st suf hd]; exact ih hts.tail ss hss
  · intro col suf f st s hd ih hts ss hss
    rw [printLoop_text w col f st suf s hd]
    exact (ih hts.tail ss hss).cons_piece _ rfl
  · intro col suf f st ds hd ih hts ss hss
    rw [printLoop_concat w col f st suf ds hd]
    refine ih (TextSufStack.append (.mkFrames _ _ _ ?_) hts.tail) ss hss
    have := hts.head; rw [hd] at this; simpa [textSuffixes] using this
  · intro col suf f st n d hd ih hts ss hss
    rw [printLoop_nest w col f st suf n d hd]
    refine ih (.cons ?_ hts.tail) ss hss
    have := hts.head; rw [hd] at this; simpa [textSuffixes] using this
  · intro col suf f st d hd ih hts ss hss
    rw [printLoop_lineSuffix w col f st suf d hd]
    have hh := hts.head; rw [hd] at hh
    -- the content is a text
    cases d with
    | text s =>
      obtain ⟨pre, more, rest, e, h1, h2⟩ := ih hts.tail (ss ++ [s]) (hss.append_single _ _ s)
      exact ⟨pre, s :: more, rest, by simp [e, atomPieces], h1, h2⟩
    | _ => simp [textSuffixes] at hh
  · intro col suf f st hd hm ih hts ss hss
    rw [printLoop_line_flat w col f st suf hd hm]
    exact (ih hts.tail ss hss).cons_piece _ rfl
  · intro col f st hd hm ih hts ss hss
    rw [hss.nil_inv]; exact .nil_ss _
  · intro col f st hd hm s ss' ih hts ss hss
    rw [printLoop_break_cons w col f st (.inl ⟨hd, hm⟩) s ss']
    obtain ⟨col', e⟩ := printLoop_textFrames w (s :: ss') ss hss col (f :: st)
    rw [e, printLoop_break_nil w col' f st (.inl ⟨hd, hm⟩)]
    exact ⟨[], [], .nl f.indent :: printLoop w f.indent st [], by simp [atomPieces], rfl, rfl⟩
  · intro col suf f st hd hm ih hts ss hss
    rw [printLoop_softline_flat w col f st suf hd hm]; exact ih hts.tail ss hss
  · intro col f st hd hm ih hts ss hss
    rw [hss.nil_inv]; exact .nil_ss _
  · intro col f st hd hm s ss' ih hts ss hss
    rw [printLoop_break_cons w col f st (.inr (.inl ⟨hd, hm⟩)) s ss']
    obtain ⟨col', e⟩ := printLoop_textFrames w (s :: ss') ss hss col (f :: st)
    rw [e, printLoop_break_nil w col' f st (.inr (.inl ⟨hd, hm⟩))]
    exact ⟨[], [], .nl f.indent :: printLoop w f.indent st [], by simp [atomPieces], rfl, rfl⟩
  · intro col f st hd ih hts ss hss
    rw [hss.nil_inv]; exact .nil_ss _
  · intro col f st hd s ss' ih hts ss hss
    rw [printLoop_break_cons w col f st (.inr (.inr hd)) s ss']
    obtain ⟨col', e⟩ := printLoop_textFrames w (s :: ss') ss hss col (f :: st)
    rw [e, printLoop_break_nil w col' f st (.inr (.inr hd))]
    exact ⟨[], [], .nl f.indent :: printLoop w f.indent st [], by simp [atomPieces], rfl, rfl⟩
  · intro col suf f st b fl hd hm ih hts ss hss
    rw [printLoop_ifBreak_brk w col f st suf b fl hd hm]
    refine ih (.cons ?_ hts.tail) ss hss
    have := hts.head; rw [hd] at this; simp [textSuffixes] at this; exact this.1
  · intro col suf f st b fl hd hm ih hts ss hss
    rw [printLoop_ifBreak_flat w col f st suf b fl hd hm]
    refine ih (.cons ?_ hts.tail) ss hss
    have := hts.head; rw [hd] at this; simp [textSuffixes] at this; exact this.2
  · intro col suf f st d sb hd mode ih hts ss hss
    have e := printLoop_group w col f st suf d sb hd
    have hmode : (if sb || !fits (w - col) f.indent d st then Mode.brk else Mode.flat) = mode := by
      simp only [mode]; split <;> simp_all
    rw [hmode] at e
    rw [e]
    refine ih (.cons ?_ hts.tail) ss hss
    have := hts.head; rw [hd] at this; simpa [textSuffixes] using this


/-! ### `fits`, flat mode, `flatten` -/

section
variable (rem : Int) (loc rest loc' rest' : List Frame) (f : Frame)

theorem fitsLoop_neg (h : rem < 0) : fitsLoop rem loc rest = false := by
  rw [fitsLoop.eq_def]; simp [h]
theorem fitsLoop_none (h0 : ¬ rem < 0) (hp : popFrame loc rest = none) : fitsLoop rem loc rest = true := by
  rw [fitsLoop.eq_def]; simp only [h0, ↓reduceIte]; split <;> simp_all
theorem fitsLoop_docNil (h0 : ¬ rem < 0) (hp : popFrame loc rest = some (f, loc', rest')) (hd : f.doc = .nil) :
    fitsLoop rem loc rest = fitsLoop rem loc' rest' := by
  rw [fitsLoop.eq_def]; simp only [h0, ↓reduceIte]; split
  · simp_all
  · rename_i f2 l2 r2 h2
    rw [hp] at h2; simp only [Option.some.injEq, Prod.mk.injEq] at h2
    obtain ⟨rfl, rfl, rfl⟩ := h2
    split <;> simp_all
theorem fitsLoop_breakParent (h0 : ¬ rem < 0) (hp : popFrame loc rest = some (f, loc', rest')) (hd : f.doc = .breakParent) :
    fitsLoop rem loc rest = fitsLoop rem loc' rest' := by
  rw [fitsLoop.eq_def]; simp only [h0, ↓reduceIte]; split
  · simp_all
  · rename_i f2 l2 r2 h2
    rw [hp] at h2; simp only [Option.some.injEq, Prod.mk.injEq] at h2
    obtain ⟨rfl, rfl, rfl⟩ := h2
    split <;> simp_all
theorem fitsLoop_lineSuffix (h0 : ¬ rem < 0) (hp : popFrame loc rest = some (f, loc', rest')) (d : Doc) (hd : f.doc = .lineSuffix d) :
    fitsLoop rem loc rest = fitsLoop rem loc' rest' := by
  rw [fitsLoop.eq_def]; simp only [h0, ↓reduceIte]; split
  · simp_all
  · rename_i f2 l2 r2 h2
    rw [hp] at h2; simp only [Option.some.injEq, Prod.mk.injEq] at h2
    obtain ⟨rfl, rfl, rfl⟩ := h2
    split <;> simp_all
theorem fitsLoop_text (h0 : ¬ rem < 0) (hp : popFrame loc rest = some (f, loc', rest')) (s : List Char) (hd : f.doc = .text s) :
    fitsLoop rem loc rest = fitsLoop (rem - (s.length : Int)) loc' rest' := by
  rw [fitsLoop.eq_def]; simp only [h0, ↓reduceIte]; split
  · simp_all
  · rename_i f2 l2 r2 h2
    rw [hp] at h2; simp only [Option.some.injEq, Prod.mk.injEq] at h2
    obtain ⟨rfl, rfl, rfl⟩ := h2
    split <;> simp_all
theorem fitsLoop_concat (h0 : ¬ rem < 0) (hp : popFrame loc rest = some (f, loc', rest')) (ds : List Doc) (hd : f.doc = .concat ds) :
    fitsLoop rem loc rest = fitsLoop rem (mkFrames f.indent f.mode ds ++ loc') rest' := by
  rw [fitsLoop.eq_def]; simp only [h0, ↓reduceIte]; split
  · simp_all
  · rename_i f2 l2 r2 h2
    rw [hp] at h2; simp only [Option.some.injEq, Prod.mk.injEq] at h2
    obtain ⟨rfl, rfl, rfl⟩ := h2
    split <;> simp_all
theorem fitsLoop_nest (h0 : ¬ rem < 0) (hp : popFrame loc rest = some (f, loc', rest')) (n : Nat) (d : Doc) (hd : f.doc = .nest n d) :
    fitsLoop rem loc rest = fitsLoop rem (⟨f.indent + n, f.mode, d⟩ :: loc') rest' := by
  rw [fitsLoop.eq_def]; simp only [h0, ↓reduceIte]; split
  · simp_all
  · rename_i f2 l2 r2 h2
    rw [hp] at h2; simp only [Option.some.injEq, Prod.mk.injEq] at h2
    obtain ⟨rfl, rfl, rfl⟩ := h2
    split <;> simp_all
theorem fitsLoop_line_flat (h0 : ¬ rem < 0) (hp : popFrame loc rest = some (f, loc', rest')) (hd : f.doc = .line) (hm : f.mode = .flat) :
    fitsLoop rem loc rest = fitsLoop (rem - 1) loc' rest' := by
  rw [fitsLoop.eq_def]; simp only [h0, ↓reduceIte]; split
  · simp_all
  · rename_i f2 l2 r2 h2
    rw [hp] at h2; simp only [Option.some.injEq, Prod.mk.injEq] at h2
    obtain ⟨rfl, rfl, rfl⟩ := h2
    split <;> simp_all
theorem fitsLoop_softline_flat (h0 : ¬ rem < 0) (hp : popFrame loc rest = some (f, loc', rest')) (hd : f.doc = .softline) (hm : f.mode = .flat) :
    fitsLoop rem loc rest = fitsLoop rem loc' rest' := by
  rw [fitsLoop.eq_def]; simp only [h0, ↓reduceIte]; split
  · simp_all
  · rename_i f2 l2 r2 h2
    rw [hp] at h2; simp only [Option.some.injEq, Prod.mk.injEq] at h2
    obtain ⟨rfl, rfl, rfl⟩ := h2
    split <;> simp_all
theorem fitsLoop_ifBreak_flat (h0 : ¬ rem < 0) (hp : popFrame loc rest = some (f, loc', rest')) (b fl : Doc) (hd : f.doc = .ifBreak b fl) (hm : f.mode = .flat) :
    fitsLoop rem loc rest = fitsLoop rem (⟨f.indent, .flat, fl⟩ :: loc') rest' := by
  rw [fitsLoop.eq_def]; simp only [h0, ↓reduceIte]; split
  · simp_all
  · rename_i f2 l2 r2 h2
    rw [hp] at h2; simp only [Option.some.injEq, Prod.mk.injEq] at h2
    obtain ⟨rfl, rfl, rfl⟩ := h2
    split <;> simp_all
theorem fitsLoop_group (h0 : ¬ rem < 0) (hp : popFrame loc rest = some (f, loc', rest')) (d : Doc) (sb : Bool) (hd : f.doc = .group d sb) :
    fitsLoop rem loc rest = fitsLoop rem (⟨f.indent, if sb then .brk else .flat, d⟩ :: loc') rest' := by
  rw [fitsLoop.eq_def]; simp only [h0, ↓reduceIte]; split
  · simp_all
  · rename_i f2 l2 r2 h2
    rw [hp] at h2; simp only [Option.some.injEq, Prod.mk.injEq] at h2
    obtain ⟨rfl, rfl, rfl⟩ := h2
    split <;> simp_all
end

theorem popFrame_append {loc rest loc' rest' : List Frame} {f : Frame}
    (h : popFrame loc rest = some (f, loc', rest')) : loc ++ rest = f :: (loc' ++ rest') := by
  cases loc with
  | cons g l => simp [popFrame] at h; obtain ⟨rfl, rfl, rfl⟩ := h; simp
  | nil =>
    cases rest with
    | nil => simp [popFrame] at h
    | cons g r => simp [popFrame] at h; obtain ⟨rfl, rfl, rfl⟩ := h; simp

theorem popFrame_none {loc rest : List Frame} (h : popFrame loc rest = none) : loc = [] ∧ rest = [] := by
  cases loc with
  | cons g l => simp [popFrame] at h
  | nil =>
    cases rest with
    | nil => simp
    | cons g r => simp [popFrame] at h

theorem piecesWidth_append (a b : List Piece) : piecesWidth (a ++ b) = piecesWidth a + piecesWidth b := by
  induction a with
  | nil => simp [piecesWidth]
  | cons p ps ih => simp [piecesWidth, ih]; omega

/-- A stack all of whose frames are in flat mode and flat-layoutable. -/
def FlatStack (st : List Frame) : Prop := ∀ f ∈ st, f.mode = .flat ∧ flatOk f.doc = true

def stackPieces : List Frame → List Piece
  | [] => []
  | f :: st => flatPieces f.doc ++ stackPieces st

theorem stackPieces_append (a b : List Frame) : stackPieces (a ++ b) = stackPieces a ++ stackPieces b := by
  induction a with
  | nil => simp [stackPieces]
  | cons f st ih => simp [stackPieces, ih]

theorem stackPieces_mkFrames (i : Nat) (m : Mode) (ds : List Doc) :
    stackPieces (mkFrames i m ds) = flatPiecesList ds := by
  induction ds with
  | nil => simp [mkFrames, stackPieces, flatPiecesList]
  | cons d ds ih => simp [mkFrames, stackPieces, flatPiecesList, ih]

theorem FlatStack.tail {f : Frame} {st : List Frame} (h : FlatStack (f :: st)) : FlatStack st :=
  fun g hg => h g (by simp [hg])
theorem FlatStack.head {f : Frame} {st : List Frame} (h : FlatStack (f :: st)) :
    f.mode = .flat ∧ flatOk f.doc = true := h f (by simp)
theorem FlatStack.cons {f : Frame} {st : List Frame} (h1 : f.mode = .flat) (h2 : flatOk f.doc = true)
    (h3 : FlatStack st) : FlatStack (f :: st) := by
  intro g hg; simp only [List.mem_cons] at hg; rcases hg with rfl | hg
  · exact ⟨h1, h2⟩
  · exact h3 g hg
theorem FlatStack.mkFrames (i : Nat) (ds : List Doc) (h : flatOkList ds = true) :
    FlatStack (mkFrames i .flat ds) := by
  induction ds with
  | nil => intro f hf; simp [QM.Text.mkFrames] at hf
  | cons d ds ih =>
    simp only [flatOkList, Bool.and_eq_true] at h
    exact .cons rfl h.1 (ih h.2)
theorem FlatStack.append {a b : List Frame} (ha : FlatStack a) (hb : FlatStack b) : FlatStack (a ++ b) := by
  intro f hf; simp only [List.mem_append] at hf
  rcases hf with hf | hf
  · exact ha f hf
  · exact hb f hf

/-- **fits is complete for flat stacks**: if everything still pending is flat-layoutable and its total
    width is within the remaining columns, `fits` says yes. -/
theorem fitsLoop_flat (rem : Int) (loc rest : List Frame) :
    FlatStack (loc ++ rest) → (piecesWidth (stackPieces (loc ++ rest)) : Int) ≤ rem →
    fitsLoop rem loc rest = true := by
  refine fitsLoop.induct
    (motive := fun rem loc rest => FlatStack (loc ++ rest) →
      (piecesWidth (stackPieces (loc ++ rest)) : Int) ≤ rem → fitsLoop rem loc rest = true)
    ?_ ?_ ?_ ?_ ?_ ?_ ?_ ?_ ?_ ?_ ?_ ?_ ?_ ?_ ?_ ?_ rem loc rest
  · intro rem loc rest h0 _ hw
    exfalso
    have : (0 : Int) ≤ (piecesWidth (stackPieces (loc ++ rest)) : Int) := Int.natCast_nonneg _
    omega
  · intro rem loc rest h0 hp _ _
    exact fitsLoop_none rem loc rest h0 hp
  · intro rem loc rest h0 f loc' rest' hp hd ih hfs hw
    rw [fitsLoop_docNil rem loc rest loc' rest' f h0 hp hd]
    rw [popFrame_append hp] at hfs hw
    exact ih hfs.tail (by simpa [stackPieces, flatPieces, hd, piecesWidth] using hw)
  · intro rem loc rest h0 f loc' rest' hp s hd ih hfs hw
    rw [fitsLoop_text rem loc rest loc' rest' f h0 hp s hd]
    rw [popFrame_append hp] at hfs hw
    refine ih hfs.tail ?_
    simp only [stackPieces, hd, flatPieces, List.cons_append, List.nil_append, piecesWidth,
      pieceWidth] at hw
    push_cast at hw; omega
  · intro rem loc rest h0 f loc' rest' hp ds hd ih hfs hw
    rw [fitsLoop_concat rem loc rest loc' rest' f h0 hp ds hd]
    rw [popFrame_append hp] at hfs hw
    have hh := hfs.head
    rw [hd] at hh
    refine ih ?_ ?_
    · rw [List.append_assoc, hh.1]
      exact (FlatStack.mkFrames _ _ (by simpa [flatOk] using hh.2)).append hfs.tail
    · rw [List.append_assoc, stackPieces_append, stackPieces_mkFrames]
      simpa [stackPieces, hd, flatPieces] using hw
  · intro rem loc rest h0 f loc' rest' hp n d hd ih hfs hw
    rw [fitsLoop_nest rem loc rest loc' rest' f h0 hp n d hd]
    rw [popFrame_append hp] at hfs hw
    have hh := hfs.head
    rw [hd] at hh
    refine ih ?_ ?_
    · exact .cons hh.1 (by simpa [flatOk] using hh.2) hfs.tail
    · simpa [stackPieces, hd, flatPieces] using hw
  · intro rem loc rest h0 f loc' rest' hp hd hm ih hfs hw
    rw [fitsLoop_line_flat rem loc rest loc' rest' f h0 hp hd hm]
    rw [popFrame_append hp] at hfs hw
    refine ih hfs.tail ?_
    simp only [stackPieces, hd, flatPieces, List.cons_append, List.nil_append, piecesWidth,
      pieceWidth] at hw
    push_cast at hw; omega
  · intro rem loc rest h0 f loc' rest' hp hd hm hfs _
    rw [popFrame_append hp] at hfs
    have := hfs.head.1; rw [hm] at this; cases this
  · intro rem loc rest h0 f loc' rest' hp hd hm ih hfs hw
    rw [fitsLoop_softline_flat rem loc rest loc' rest' f h0 hp hd hm]
    rw [popFrame_append hp] at hfs hw
    exact ih hfs.tail (by simpa [stackPieces, flatPieces, hd, piecesWidth] using hw)
  · intro rem loc rest h0 f loc' rest' hp hd hm hfs _
    rw [popFrame_append hp] at hfs
    have := hfs.head.1; rw [hm] at this; cases this
  · intro rem loc rest h0 f loc' rest' hp hd hfs _
    rw [popFrame_append hp] at hfs
    have := hfs.head.2; rw [hd] at this; simp [flatOk] at this
  · intro rem loc rest h0 f loc' rest' hp d hd ih hfs _
    rw [popFrame_append hp] at hfs
    have := hfs.head.2; rw [hd] at this; simp [flatOk] at this
  · intro rem loc rest h0 f loc' rest' hp hd ih hfs hw
    rw [fitsLoop_breakParent rem loc rest loc' rest' f h0 hp hd]
    rw [popFrame_append hp] at hfs hw
    exact ih hfs.tail (by simpa [stackPieces, flatPieces, hd, piecesWidth] using hw)
  · intro rem loc rest h0 f loc' rest' hp b fl hd hm ih hfs _
    rw [popFrame_append hp] at hfs
    have := hfs.head.1; rw [hm] at this; cases this
  · intro rem loc rest h0 f loc' rest' hp b fl hd hm ih hfs hw
    rw [fitsLoop_ifBreak_flat rem loc rest loc' rest' f h0 hp b fl hd hm]
    rw [popFrame_append hp] at hfs hw
    have hh := hfs.head
    rw [hd] at hh
    refine ih ?_ ?_
    · exact .cons rfl (by simpa [flatOk] using hh.2) hfs.tail
    · simpa [stackPieces, hd, flatPieces] using hw
  · intro rem loc rest h0 f loc' rest' hp d sb hd ih hfs hw
    rw [fitsLoop_group rem loc rest loc' rest' f h0 hp d sb hd]
    rw [popFrame_append hp] at hfs hw
    have hh := hfs.head
    rw [hd] at hh
    simp only [flatOk, Bool.and_eq_true, Bool.not_eq_true'] at hh
    have hsb : sb = false := hh.2.1
    subst hsb
    simp only [Bool.false_eq_true, ↓reduceIte, ↓reduceDIte] at ih ⊢
    refine ih ?_ ?_
    · exact .cons rfl hh.2.2 hfs.tail
    · simpa [stackPieces, hd, flatPieces] using hw


theorem toIsize_small (n : Nat) (h : n < 2 ^ 63) : toIsize n = (n : Int) := by
  unfold toIsize
  have h1 : n % 2 ^ 64 = n := Nat.mod_eq_of_lt (by omega)
  rw [h1]; simp [h]

/-- **print in flat mode**: a flat-layoutable stack that fits in the remaining width is printed as
    its flat pieces — every nested group passes its own `fits` check. -/
theorem printLoop_flat (w : Nat) (hw : w < 2 ^ 63) (col : Nat) (st suf : List Frame) :
    suf = [] → FlatStack st → col + piecesWidth (stackPieces st) ≤ w →
    printLoop w col st suf = stackPieces st := by
  refine printLoop.induct w
    (motive := fun col st suf => suf = [] → FlatStack st → col + piecesWidth (stackPieces st) ≤ w →
      printLoop w col st suf = stackPieces st)
    ?_ ?_ ?_ ?_ ?_ ?_ ?_ ?_ ?_ ?_ ?_ ?_ ?_ ?_ ?_ ?_ ?_ ?_ ?_ col st suf
  · intro col _ _ _; rw [printLoop_nil_nil]; rfl
  · intro col s ss _ h; exact absurd h (by simp)
  · intro col suf f st hd ih hs hfs hc
    rw [printLoop_docNil w col f st suf hd, ih hs hfs.tail (by simpa [stackPieces, hd, flatPieces] using hc)]
    simp [stackPieces, hd, flatPieces]
  · intro col suf f st hd ih hs hfs hc
    rw [printLoop_breakParent w col f st suf hd, ih hs hfs.tail (by simpa [stackPieces, hd, flatPieces] using hc)]
    simp [stackPieces, hd, flatPieces]
  · intro col suf f st s hd ih hs hfs hc
    rw [printLoop_text w col f st suf s hd]
    simp only [stackPieces, hd, flatPieces, List.cons_append, List.nil_append, piecesWidth,
      pieceWidth] at hc ⊢
    rw [ih hs hfs.tail (by omega)]
  · intro col suf f st ds hd ih hs hfs hc
    rw [printLoop_concat w col f st suf ds hd]
    have hh := hfs.head; rw [hd] at hh
    rw [ih hs ?_ ?_]
    · simp [stackPieces_append, stackPieces_mkFrames, stackPieces, hd, flatPieces]
    · rw [hh.1]; exact (FlatStack.mkFrames _ _ (by simpa [flatOk] using hh.2)).append hfs.tail
    · simpa [stackPieces_append, stackPieces_mkFrames, stackPieces, hd, flatPieces] using hc
  · intro col suf f st n d hd ih hs hfs hc
    rw [printLoop_nest w col f st suf n d hd]
    have hh := hfs.head; rw [hd] at hh
    rw [ih hs (.cons hh.1 (by simpa [flatOk] using hh.2) hfs.tail)
      (by simpa [stackPieces, hd, flatPieces] using hc)]
    simp [stackPieces, hd, flatPieces]
  · intro col suf f st d hd ih hs hfs hc
    have := hfs.head.2; rw [hd] at this; simp [flatOk] at this
  · intro col suf f st hd hm ih hs hfs hc
    rw [printLoop_line_flat w col f st suf hd hm]
    simp only [stackPieces, hd, flatPieces, List.cons_append, List.nil_append, piecesWidth,
      pieceWidth] at hc ⊢
    rw [ih hs hfs.tail (by omega)]
  · intro col f st hd hm ih hs hfs hc
    have := hfs.head.1; rw [hm] at this; cases this
  · intro col f st hd hm s ss ih h; exact absurd h (by simp)
  · intro col suf f st hd hm ih hs hfs hc
    rw [printLoop_softline_flat w col f st suf hd hm,
      ih hs hfs.tail (by simpa [stackPieces, hd, flatPieces] using hc)]
    simp [stackPieces, hd, flatPieces]
  · intro col f st hd hm ih hs hfs hc
    have := hfs.head.1; rw [hm] at this; cases this
  · intro col f st hd hm s ss ih h; exact absurd h (by simp)
  · intro col f st hd ih hs hfs hc
    have := hfs.head.2; rw [hd] at this; simp [flatOk] at this
  · intro col f st hd s ss ih h; exact absurd h (by simp)
  · intro col suf f st b fl hd hm ih hs hfs hc
    have := hfs.head.1; rw [hm] at this; cases this
  · intro col suf f st b fl hd hm ih hs hfs hc
    rw [printLoop_ifBreak_flat w col f st suf b fl hd hm]
    have hh := hfs.head; rw [hd] at hh
    rw [ih hs (.cons rfl (by simpa [flatOk] using hh.2) hfs.tail)
      (by simpa [stackPieces, hd, flatPieces] using hc)]
    simp [stackPieces, hd, flatPieces]
  · intro col suf f st d sb hd mode ih hs hfs hc
    have hh := hfs.head; rw [hd] at hh
    simp only [flatOk, Bool.and_eq_true, Bool.not_eq_true'] at hh
    have hsb : sb = false := hh.2.1
    -- the group's own fits check succeeds
    have hfit : fits (w - col) f.indent d st = true := by
      unfold fits
      apply fitsLoop_flat
      · exact (FlatStack.cons rfl hh.2.2 hfs.tail)
      · rw [toIsize_small _ (by omega)]
        simp only [List.cons_append, List.nil_append, stackPieces]
        simp only [stackPieces, hd, flatPieces] at hc
        rw [piecesWidth_append] at hc ⊢
        have : col + (piecesWidth (flatPieces d) + piecesWidth (stackPieces st)) ≤ w := hc
        omega
    have hmode : mode = .flat := by simp [mode, hsb, hfit]
    have e := printLoop_group w col f st suf d sb hd
    simp only [hsb, hfit, Bool.not_true, Bool.or_self, Bool.false_eq_true, ↓reduceIte] at e
    rw [e]
    rw [hmode] at ih
    rw [ih hs (.cons rfl hh.2.2 hfs.tail) (by simpa [stackPieces, hd, flatPieces] using hc)]
    simp [stackPieces, hd, flatPieces]

/-! ### `flatten` computes the flat pieces -/

theorem renderPieces_append (a b : List Piece) : renderPieces (a ++ b) = renderPieces a ++ renderPieces b := by
  induction a with
  | nil => simp [renderPieces]
  | cons p ps ih => simp [renderPieces, ih]

theorem flatOkList_append (a b : List Doc) : flatOkList (a ++ b) = (flatOkList a && flatOkList b) := by
  induction a with
  | nil => simp [flatOkList]
  | cons d ds ih => simp [flatOkList, ih, Bool.and_assoc]

theorem flatPiecesList_append (a b : List Doc) :
    flatPiecesList (a ++ b) = flatPiecesList a ++ flatPiecesList b := by
  induction a with
  | nil => simp [flatPiecesList]
  | cons d ds ih => simp [flatPiecesList, ih]

theorem flattenLoop_flat (st : List Doc) :
    flatOkList st = true → flattenLoop st = renderPieces (flatPiecesList st) := by
  refine flattenLoop.induct
    (motive := fun st => flatOkList st = true → flattenLoop st = renderPieces (flatPiecesList st))
    ?_ ?_ ?_ ?_ ?_ ?_ ?_ ?_ ?_ ?_ ?_ ?_ st
  · intro _; rw [flattenLoop]; rfl
  · intro ds ih h
    rw [flattenLoop, ih (by simpa [flatOkList, flatOk] using h)]; simp [flatPiecesList, flatPieces]
  · intro ds ih h
    rw [flattenLoop, ih (by simpa [flatOkList, flatOk] using h)]; simp [flatPiecesList, flatPieces]
  · intro ds ih h
    rw [flattenLoop, ih (by simpa [flatOkList, flatOk] using h)]; simp [flatPiecesList, flatPieces]
  · intro ds s ih h
    rw [flattenLoop, ih (by simpa [flatOkList, flatOk] using h)]
    simp [flatPiecesList, flatPieces, renderPieces, Piece.render]
  · intro ds ih h
    rw [flattenLoop, ih (by simpa [flatOkList, flatOk] using h)]
    simp [flatPiecesList, flatPieces, renderPieces, Piece.render]
  · intro ds ih h; simp [flatOkList, flatOk] at h
  · intro ds ds1 ih h
    simp only [flatOkList, flatOk, Bool.and_eq_true] at h
    rw [flattenLoop, ih (by rw [flatOkList_append]; simp [h.1, h.2])]
    simp [flatPiecesList, flatPieces, flatPiecesList_append]
  · intro ds n inner ih h
    rw [flattenLoop, ih (by simpa [flatOkList, flatOk] using h)]; simp [flatPiecesList, flatPieces]
  · intro ds inner sb ih h
    simp only [flatOkList, flatOk, Bool.and_eq_true, Bool.not_eq_true'] at h
    rw [flattenLoop, ih (by simp [flatOkList, h.1.2, h.2])]; simp [flatPiecesList, flatPieces]
  · intro ds inner ih h; simp [flatOkList, flatOk] at h
  · intro ds b fl ih h
    rw [flattenLoop, ih (by simpa [flatOkList, flatOk] using h)]; simp [flatPiecesList, flatPieces]

/-- **flatten_eq_print_wide**: a flat-layoutable document, grouped, printed at any width that holds
    its flat layout (below 2^63, see `toIsize`) comes out exactly as `flatten` renders it. -/
theorem print_group_eq_flatten (d : Doc) (w : Nat) (hok : flatOk d = true)
    (hfit : piecesWidth (flatPieces d) ≤ w) (hw : w < 2 ^ 63) :
    print (.group d false) w = flatten d := by
  have hpieces : printPieces (.group d false) w = flatPieces d := by
    unfold printPieces
    have hfs : FlatStack [⟨0, .flat, d⟩] := .cons rfl hok (fun _ h => by simp at h)
    have hfits : fits (w - 0) 0 d [] = true := by
      unfold fits
      apply fitsLoop_flat
      · simpa using hfs
      · rw [toIsize_small _ (by omega)]
        simp [stackPieces]; omega
    rw [printLoop_group w 0 ⟨0, .brk, .group d false⟩ [] [] d false rfl]
    simp only [hfits, Bool.not_true, Bool.or_self, Bool.false_eq_true, ↓reduceIte]
    rw [printLoop_flat w hw 0 _ [] rfl hfs (by simp [stackPieces]; omega)]
    simp [stackPieces]
  unfold print flatten
  rw [hpieces, flattenLoop_flat [d] (by simp [flatOkList, hok])]
  simp [flatPiecesList]

/-! ### `forces_break` and the flat layout -/

mutual
/-- For documents built with `pretty::group` and free of line suffixes in their flat reading,
    `¬ forces_break` is exactly "can be laid out flat as `flatten` does". -/
theorem flatOk_of_not_forcesBreak : ∀ (d : Doc), wfGroups d = true → noSuffixFlat d = true →
    forcesBreak d = false → flatOk d = true
  | .nil, _, _, _ => by simp [flatOk]
  | .text _, _, _, _ => by simp [flatOk]
  | .line, _, _, _ => by simp [flatOk]
  | .softline, _, _, _ => by simp [flatOk]
  | .hardline, _, _, h => by simp [forcesBreak] at h
  | .breakParent, _, _, _ => by simp [flatOk]
  | .lineSuffix _, _, h, _ => by simp [noSuffixFlat] at h
  | .concat ds, hw, hs, hf => by
    simp only [flatOk]
    exact flatOkList_of_not_forcesBreak ds (by simpa [wfGroups] using hw)
      (by simpa [noSuffixFlat] using hs) (by simpa [forcesBreak] using hf)
  | .nest _ d, hw, hs, hf => by
    simp only [flatOk]
    exact flatOk_of_not_forcesBreak d (by simpa [wfGroups] using hw)
      (by simpa [noSuffixFlat] using hs) (by simpa [forcesBreak] using hf)
  | .group d sb, hw, hs, hf => by
    simp only [wfGroups, Bool.and_eq_true, beq_iff_eq] at hw
    simp only [forcesBreak] at hf
    subst hf
    simp only [flatOk, Bool.not_false, Bool.true_and]
    exact flatOk_of_not_forcesBreak d hw.2 (by simpa [noSuffixFlat] using hs) hw.1.symm
  | .ifBreak b f, hw, hs, hf => by
    simp only [wfGroups, Bool.and_eq_true] at hw
    simp only [flatOk]
    exact flatOk_of_not_forcesBreak f hw.2 (by simpa [noSuffixFlat] using hs)
      (by simpa [forcesBreak] using hf)
theorem flatOkList_of_not_forcesBreak : ∀ (ds : List Doc), wfGroupsList ds = true →
    noSuffixFlatList ds = true → forcesBreakAny ds = false → flatOkList ds = true
  | [], _, _, _ => by simp [flatOkList]
  | d :: ds, hw, hs, hf => by
    simp only [wfGroupsList, Bool.and_eq_true] at hw
    simp only [noSuffixFlatList, Bool.and_eq_true] at hs
    simp only [forcesBreakAny, Bool.or_eq_false_iff] at hf
    simp only [flatOkList, Bool.and_eq_true]
    exact ⟨flatOk_of_not_forcesBreak d hw.1 hs.1 hf.1, flatOkList_of_not_forcesBreak ds hw.2 hs.2 hf.2⟩
end

end QM.Text
