import QuiverModel.Core.Text.Fragment
import QuiverModel.Lemmas.Text.Layout
import QuiverModel.Lemmas.Parse.Eval
/-
Lemmas for the fragment port (Core/Text/Fragment):

  1. `LayP` — the LANGUAGE OF LAYOUTS of a fragment term, on the level of printed pieces: a tuple is
     either flat (`[a, b]`) or broken (`[⏎a,⏎b,⏎]`, with a trailing comma), each field independently;
  2. `printLoop_term` — whatever the width, the column, the indentation, the enclosing mode and the
     rest of the stack, the layout engine prints `termDoc t` as one of the layouts of `t` and goes on
     with the rest of the stack;
  3. `strip_renderPieces` — a layout has no white space before a line break or at its end, so
     `strip_trailing_whitespace` leaves its text alone;
  4. `termP_lay` — the fragment parser reads every layout of `t` back as `t`.
-/
namespace QM.Frag
open QM.Text QM.Parse

/-! ### 1. Layouts -/

mutual
inductive LayP : T → List Piece → Prop
  | leaf {n : Str} : isIdentStr n = true → LayP (.leaf n) [.atom n]
  | empty : LayP (.tup []) [.atom ['[', ']']]
  | flat {f : T} {fs : List T} {items : List Piece} :
      ItemsP false (f :: fs) items → LayP (.tup (f :: fs)) (.atom ['['] :: (items ++ [.atom [']']]))
  | brk {f : T} {fs : List T} {items : List Piece} (k1 k2 : Nat) :
      ItemsP true (f :: fs) items →
      LayP (.tup (f :: fs)) (.atom ['['] :: .nl k1 :: (items ++ [.atom [','], .nl k2, .atom [']']]))
inductive ItemsP : Bool → List T → List Piece → Prop
  | one {b : Bool} {f : T} {ps : List Piece} : LayP f ps → ItemsP b [f] ps
  | consFlat {f g : T} {fs : List T} {ps rest : List Piece} :
      LayP f ps → ItemsP false (g :: fs) rest → ItemsP false (f :: g :: fs) (ps ++ .atom [','] :: .sp :: rest)
  | consBrk {f g : T} {fs : List T} {ps rest : List Piece} (k : Nat) :
      LayP f ps → ItemsP true (g :: fs) rest → ItemsP true (f :: g :: fs) (ps ++ .atom [','] :: .nl k :: rest)
end

/-! ### 2. The engine prints a layout -/

section
variable (w col i : Nat) (m : Mode) (st : List Frame)

theorem pl_nil : printLoop w col (⟨i, m, .nil⟩ :: st) [] = printLoop w col st [] :=
  printLoop_docNil w col _ st [] rfl
theorem pl_bp : printLoop w col (⟨i, m, .breakParent⟩ :: st) [] = printLoop w col st [] :=
  printLoop_breakParent w col _ st [] rfl
theorem pl_text (s : List Char) :
    printLoop w col (⟨i, m, .text s⟩ :: st) [] = .atom s :: printLoop w (col + s.length) st [] :=
  printLoop_text w col _ st [] s rfl
theorem pl_concat (ds : List Doc) :
    printLoop w col (⟨i, m, .concat ds⟩ :: st) [] = printLoop w col (mkFrames i m ds ++ st) [] :=
  printLoop_concat w col _ st [] ds rfl
theorem pl_nest (n : Nat) (d : Doc) :
    printLoop w col (⟨i, m, .nest n d⟩ :: st) [] = printLoop w col (⟨i + n, m, d⟩ :: st) [] :=
  printLoop_nest w col _ st [] n d rfl
theorem pl_line_flat :
    printLoop w col (⟨i, .flat, .line⟩ :: st) [] = .sp :: printLoop w (col + 1) st [] :=
  printLoop_line_flat w col _ st [] rfl rfl
theorem pl_line_brk :
    printLoop w col (⟨i, .brk, .line⟩ :: st) [] = .nl i :: printLoop w i st [] :=
  printLoop_break_nil w col _ st (.inl ⟨rfl, rfl⟩)
theorem pl_softline_flat :
    printLoop w col (⟨i, .flat, .softline⟩ :: st) [] = printLoop w col st [] :=
  printLoop_softline_flat w col _ st [] rfl rfl
theorem pl_softline_brk :
    printLoop w col (⟨i, .brk, .softline⟩ :: st) [] = .nl i :: printLoop w i st [] :=
  printLoop_break_nil w col _ st (.inr (.inl ⟨rfl, rfl⟩))
theorem pl_ifBreak_brk (b fl : Doc) :
    printLoop w col (⟨i, .brk, .ifBreak b fl⟩ :: st) [] = printLoop w col (⟨i, .brk, b⟩ :: st) [] :=
  printLoop_ifBreak_brk w col _ st [] b fl rfl rfl
theorem pl_ifBreak_flat (b fl : Doc) :
    printLoop w col (⟨i, .flat, .ifBreak b fl⟩ :: st) [] = printLoop w col (⟨i, .flat, fl⟩ :: st) [] :=
  printLoop_ifBreak_flat w col _ st [] b fl rfl rfl
theorem pl_group (d : Doc) (sb : Bool) :
    ∃ m', printLoop w col (⟨i, m, .group d sb⟩ :: st) [] = printLoop w col (⟨i, m', d⟩ :: st) [] :=
  ⟨_, printLoop_group w col _ st [] d sb rfl⟩
end

/-- what `printLoop_term` says about a document `d` meant to print the term `t` -/
def PrintsAs (d : Doc) (t : T) : Prop :=
  ∀ (w col i : Nat) (m : Mode) (st : List Frame),
    ∃ ps col', printLoop w col (⟨i, m, d⟩ :: st) [] = ps ++ printLoop w col' st [] ∧ LayP t ps

/-- `chain_doc` and `field_doc` add nothing to the output -/
theorem printsAs_chainDoc {d : Doc} {t : T} (h : PrintsAs d t) : PrintsAs (chainDoc d) t := by
  intro w col i m st
  simp only [chainDoc, pl_concat, mkFrames, List.cons_append, List.nil_append, pl_nil, Doc.mkGroup]
  obtain ⟨m', hg⟩ := pl_group w col i m st (breakIfWiderThan (.concat [d]) chainSoftWidth)
    (forcesBreak (breakIfWiderThan (.concat [d]) chainSoftWidth))
  rw [hg]
  unfold breakIfWiderThan
  split
  · simp only [pl_concat, mkFrames, List.cons_append, List.nil_append]
    exact h w col i m' st
  · simp only [pl_concat, mkFrames, List.cons_append, List.nil_append]
    obtain ⟨ps, col', hp, hl⟩ := h w col i m' (⟨i, m', .breakParent⟩ :: st)
    exact ⟨ps, col', by rw [hp, pl_bp], hl⟩

theorem printsAs_fieldDoc {d : Doc} {t : T} (h : PrintsAs d t) : PrintsAs (fieldDoc d) t := by
  intro w col i m st
  simp only [fieldDoc, pl_concat, mkFrames, List.cons_append, List.nil_append, pl_nil]
  obtain ⟨ps, col', hp, hl⟩ := printsAs_chainDoc h w col i m (⟨i, m, .nil⟩ :: st)
  exact ⟨ps, col', by rw [hp, pl_nil], hl⟩

/-- the separator of `bracketed` -/
def sepDoc : Doc := .concat [.text [','], .line]

theorem pl_sep_flat (w col i : Nat) (st : List Frame) :
    printLoop w col (⟨i, .flat, sepDoc⟩ :: st) [] = .atom [','] :: .sp :: printLoop w (col + 1 + 1) st [] := by
  simp only [sepDoc, pl_concat, mkFrames, List.cons_append, List.nil_append, pl_text, pl_line_flat,
    List.length_cons, List.length_nil]
theorem pl_sep_brk (w col i : Nat) (st : List Frame) :
    printLoop w col (⟨i, .brk, sepDoc⟩ :: st) [] = .atom [','] :: .nl i :: printLoop w i st [] := by
  simp only [sepDoc, pl_concat, mkFrames, List.cons_append, List.nil_append, pl_text, pl_line_brk]

def isBrk : Mode → Bool
  | .brk => true
  | .flat => false

/-- what `printLoop_items` says about the field documents `ds` of the fields `fs` -/
def ItemsPrintAs (fs : List T) : Prop :=
  ∀ (w col i : Nat) (m : Mode) (st : List Frame),
    ∃ ps col', printLoop w col (mkFrames i m (Doc.joinList sepDoc (fieldDocs fs)) ++ st) [] =
        ps ++ printLoop w col' st [] ∧ ItemsP (isBrk m) fs ps

theorem itemsPrintAs_one {f : T} (h : PrintsAs (termDoc f) f) : ItemsPrintAs [f] := by
  intro w col i m st
  simp only [fieldDocs, Doc.joinList, mkFrames, List.cons_append, List.nil_append]
  obtain ⟨ps, col', hp, hl⟩ := printsAs_fieldDoc h w col i m st
  exact ⟨ps, col', hp, .one hl⟩

theorem itemsPrintAs_cons {f g : T} {fs : List T} (h : PrintsAs (termDoc f) f)
    (ht : ItemsPrintAs (g :: fs)) : ItemsPrintAs (f :: g :: fs) := by
  intro w col i m st
  have hj : Doc.joinList sepDoc (fieldDocs (f :: g :: fs)) =
      fieldDoc (termDoc f) :: sepDoc :: Doc.joinList sepDoc (fieldDocs (g :: fs)) := by
    simp [fieldDocs, Doc.joinList]
  rw [hj]
  simp only [mkFrames, List.cons_append]
  obtain ⟨ps, col1, hp, hl⟩ := printsAs_fieldDoc h w col i m
    (⟨i, m, sepDoc⟩ :: (mkFrames i m (Doc.joinList sepDoc (fieldDocs (g :: fs))) ++ st))
  rw [hp]
  cases m with
  | flat =>
    rw [pl_sep_flat]
    obtain ⟨rest, col2, hr, hi⟩ := ht w (col1 + 1 + 1) i .flat st
    rw [hr]
    exact ⟨ps ++ .atom [','] :: .sp :: rest, col2, by simp, .consFlat hl hi⟩
  | brk =>
    rw [pl_sep_brk]
    obtain ⟨rest, col2, hr, hi⟩ := ht w i i .brk st
    rw [hr]
    exact ⟨ps ++ .atom [','] :: .nl i :: rest, col2, by simp, .consBrk i hl hi⟩

/-- `bracketed` around the items prints a tuple layout -/
theorem printsAs_bracketed {f : T} {fs : List T} (h : ItemsPrintAs (f :: fs)) :
    PrintsAs (bracketed ['['] (fieldDocs (f :: fs))) (.tup (f :: fs)) := by
  intro w col i m st
  unfold bracketed Doc.mkGroup
  obtain ⟨m', hg⟩ := pl_group w col i m st
    (.concat [.text ['['], .nest 2 (.concat [.softline,
      Doc.join (.concat [.text [','], .line]) (fieldDocs (f :: fs)), .ifBreak (.text [',']) .nil]),
      .softline, .text [']']])
    (forcesBreak (.concat [.text ['['], .nest 2 (.concat [.softline,
      Doc.join (.concat [.text [','], .line]) (fieldDocs (f :: fs)), .ifBreak (.text [',']) .nil]),
      .softline, .text [']']]))
  rw [hg]
  cases m' with
  | flat =>
    simp only [pl_concat, mkFrames, List.cons_append, List.nil_append, pl_text, pl_nest,
      pl_softline_flat, Doc.join]
    obtain ⟨items, col1, hp, hi⟩ := h w (col + ['['].length) (i + 2) .flat
      (⟨i + 2, .flat, .ifBreak (.text [',']) .nil⟩ :: ⟨i, .flat, .softline⟩ :: ⟨i, .flat, .text [']']⟩ :: st)
    rw [show Doc.concat [Doc.text [','], Doc.line] = sepDoc from rfl, hp]
    simp only [pl_ifBreak_flat, pl_nil, pl_softline_flat, pl_text]
    exact ⟨.atom ['['] :: (items ++ [.atom [']']]), col1 + [']'].length, by simp, .flat hi⟩
  | brk =>
    simp only [pl_concat, mkFrames, List.cons_append, List.nil_append, pl_text, pl_nest,
      pl_softline_brk, Doc.join]
    obtain ⟨items, col1, hp, hi⟩ := h w (i + 2) (i + 2) .brk
      (⟨i + 2, .brk, .ifBreak (.text [',']) .nil⟩ :: ⟨i, .brk, .softline⟩ :: ⟨i, .brk, .text [']']⟩ :: st)
    rw [show Doc.concat [Doc.text [','], Doc.line] = sepDoc from rfl, hp]
    simp only [pl_ifBreak_brk, pl_softline_brk, pl_text]
    exact ⟨.atom ['['] :: .nl (i + 2) :: (items ++ [.atom [','], .nl i, .atom [']']]),
      i + [']'].length, by simp, .brk (i + 2) i hi⟩

mutual
/-- Whatever the width, the column, the indentation, the mode of the enclosing group and the rest of
    the stack: the engine prints `termDoc t` as one of the layouts of `t`, then goes on with the rest. -/
theorem printLoop_term : (t : T) → T.WF t → PrintsAs (termDoc t) t
  | .leaf n, hwf => by
    intro w col i m st
    simp only [termDoc, pl_text]
    exact ⟨[.atom n], col + n.length, by simp, .leaf hwf⟩
  | .tup [], _ => by
    intro w col i m st
    simp only [termDoc, List.isEmpty_nil, if_true, pl_text]
    exact ⟨[.atom ['[', ']']], col + ['[', ']'].length, by simp, .empty⟩
  | .tup (f :: fs), hwf => by
    have h := printLoop_items (f :: fs) (by simp) hwf
    have := printsAs_bracketed h
    simpa [termDoc] using this
theorem printLoop_items : (fs : List T) → fs ≠ [] → T.WFList fs → ItemsPrintAs fs
  | [], hne, _ => absurd rfl hne
  | [f], _, hwf => itemsPrintAs_one (printLoop_term f hwf.1)
  | f :: g :: fs, _, hwf =>
    itemsPrintAs_cons (printLoop_term f hwf.1) (printLoop_items (g :: fs) (by simp) hwf.2)
end

/-! ### 3. A layout has no white space before a line break or at its end -/

/-- a printed atom: not empty, no white space in it -/
def goodAtom (s : List Char) : Bool := !s.isEmpty && s.all (fun c => !isWhitespace c)

/-- The pieces leave no white space before a line break or at the end; the flag says whether the
    text so far ends in an atom (or is empty). -/
def tidyPs : Bool → List Piece → Bool
  | b, [] => b
  | _, .atom s :: r => goodAtom s && tidyPs true r
  | _, .sp :: r => tidyPs false r
  | b, .nl _ :: r => b && tidyPs false r

theorem rustLinesAux_append (s : List Char) (hs : s.all (· ≠ '\n') = true) (cur rest : List Char) :
    rustLinesAux cur (s ++ rest) = rustLinesAux (s.reverse ++ cur) rest := by
  induction s generalizing cur with
  | nil => simp
  | cons c s ih =>
    simp only [List.all_cons, Bool.and_eq_true, decide_eq_true_eq] at hs
    simp only [List.cons_append, rustLinesAux, hs.1, if_false]
    rw [ih hs.2]; simp

theorem rustLinesAux_ne_nil (s cur : List Char) (h : cur ≠ [] ∨ s ≠ []) : rustLinesAux cur s ≠ [] := by
  induction s generalizing cur with
  | nil =>
    rcases h with h | h
    · cases cur with
      | nil => exact absurd rfl h
      | cons c t => simp [rustLinesAux]
    · exact absurd rfl h
  | cons c s ih =>
    simp only [rustLinesAux]
    split
    · simp
    · exact ih _ (.inl (by simp))

theorem joinNl_cons_ne (a : List Char) {L : List (List Char)} (h : L ≠ []) :
    joinNl (a :: L) = a ++ '\n' :: joinNl L := by
  cases L with
  | nil => exact absurd rfl h
  | cons b L => rfl

theorem trimEnd_reverse_cons (c : Char) (t : List Char) (h : isWhitespace c = false) :
    trimEnd ((c :: t).reverse) = (c :: t).reverse := by
  simp [trimEnd, h]

theorem isWhitespace_nl : isWhitespace '\n' = true := by decide
theorem isWhitespace_cr : isWhitespace '\r' = true := by decide
theorem isWhitespace_space : isWhitespace ' ' = true := by decide

theorem all_ne_nl_of_not_ws {s : List Char} (h : s.all (fun c => !isWhitespace c) = true) :
    s.all (· ≠ '\n') = true := by
  simp only [List.all_eq_true, Bool.not_eq_true', decide_eq_true_eq] at h ⊢
  intro c hc e
  have := h c hc
  rw [e, isWhitespace_nl] at this
  exact Bool.noConfusion this

theorem renderPieces_ne_nil_of_tidy {r : List Piece} (h : tidyPs false r = true) : renderPieces r ≠ [] := by
  cases r with
  | nil => simp [tidyPs] at h
  | cons p r =>
    cases p with
    | atom s =>
      simp only [tidyPs, goodAtom, Bool.and_eq_true, Bool.not_eq_true', List.isEmpty_eq_false_iff] at h
      simp [renderPieces, Piece.render, h.1.1]
    | sp => simp [renderPieces, Piece.render]
    | nl k => simp [tidyPs] at h

/-- the last character so far is not white space (if the flag claims an atom) -/
def CurOk (b : Bool) (cur : List Char) : Prop :=
  b = true → cur = [] ∨ ∃ c t, cur = c :: t ∧ isWhitespace c = false

theorem strip_aux (ps : List Piece) : ∀ (b : Bool) (cur : List Char), tidyPs b ps = true → CurOk b cur →
    joinNl ((rustLinesAux cur (renderPieces ps)).map trimEnd) = cur.reverse ++ renderPieces ps := by
  induction ps with
  | nil =>
    intro b cur hb hc
    simp only [tidyPs] at hb
    rcases hc hb with rfl | ⟨c, t, rfl, hw⟩
    · simp [renderPieces, rustLinesAux, joinNl]
    · simp only [renderPieces, rustLinesAux, List.isEmpty_cons, Bool.false_eq_true, if_false, List.map_cons,
        List.map_nil, joinNl, List.append_nil]
      exact trimEnd_reverse_cons c t hw
  | cons p r ih =>
    intro b cur hb hc
    cases p with
    | atom s =>
      simp only [tidyPs, goodAtom, Bool.and_eq_true, Bool.not_eq_true', List.isEmpty_eq_false_iff] at hb
      obtain ⟨⟨hne, hall⟩, hr⟩ := hb
      simp only [renderPieces, Piece.render]
      rw [rustLinesAux_append s (all_ne_nl_of_not_ws hall), ih true (s.reverse ++ cur) hr]
      · simp
      · intro _
        right
        cases hs : s.reverse with
        | nil => exact absurd (List.reverse_eq_nil_iff.mp hs) hne
        | cons c t =>
          refine ⟨c, t ++ cur, by simp, ?_⟩
          have hm : c ∈ s := by
            have : c ∈ s.reverse := by rw [hs]; simp
            simpa using this
          simpa using (List.all_eq_true.mp hall) c hm
    | sp =>
      simp only [tidyPs] at hb
      simp only [renderPieces, Piece.render, List.cons_append, List.nil_append, rustLinesAux,
        show ¬ (' ' = '\n') by decide, if_false]
      rw [ih false (' ' :: cur) hb (by intro h; exact Bool.noConfusion h)]
      simp
    | nl k =>
      simp only [tidyPs, Bool.and_eq_true] at hb
      obtain ⟨hbt, hr⟩ := hb
      simp only [renderPieces, Piece.render, List.cons_append, rustLinesAux, if_true]
      have hrep : (List.replicate k ' ').all (· ≠ '\n') = true := by
        simp only [List.all_eq_true, decide_eq_true_eq]
        intro c hc; rw [List.eq_of_mem_replicate hc]; decide
      rw [rustLinesAux_append _ hrep]
      have hne : rustLinesAux ((List.replicate k ' ').reverse ++ []) (renderPieces r) ≠ [] :=
        rustLinesAux_ne_nil _ _ (.inr (renderPieces_ne_nil_of_tidy hr))
      have hih := ih false ((List.replicate k ' ').reverse ++ []) hr (by intro h; exact Bool.noConfusion h)
      simp only [List.map_cons]
      rw [joinNl_cons_ne _ (by simpa using hne), hih]
      rcases hc hbt with rfl | ⟨c, t, rfl, hw⟩
      · simp [trimEnd]
      · have hcr : c ≠ '\r' := by
          intro e; rw [e, isWhitespace_cr] at hw; exact Bool.noConfusion hw
        split
        · rename_i cur' heq
          exact absurd (List.cons.inj heq).1 hcr
        · rw [trimEnd_reverse_cons c t hw]
          simp

/-- `strip_trailing_whitespace` leaves a tidy text alone -/
theorem strip_renderPieces {ps : List Piece} (h : tidyPs true ps = true) :
    stripTrailingWhitespace (renderPieces ps) = renderPieces ps := by
  have := strip_aux ps true [] h (fun _ => .inl rfl)
  simpa [stripTrailingWhitespace, rustLines] using this

/-! Layouts are tidy. -/

theorem lower_ne {c : Char} (h : isLower c = true) (d : Char) (hd : d.toNat < 97) : c ≠ d := by
  intro e; subst e
  simp only [isLower, Bool.and_eq_true, decide_eq_true_eq] at h
  omega

theorem not_ws_of_lower {c : Char} (h : isLower c = true) : isWhitespace c = false := by
  simp only [isLower, Bool.and_eq_true, decide_eq_true_eq] at h
  simp only [isWhitespace]
  generalize c.toNat = n at h
  simp only [Bool.or_eq_false_iff, Bool.and_eq_false_iff, decide_eq_false_iff_not, beq_eq_false_iff_ne]
  omega

theorem not_ws_of_identBody {c : Char} (h : isIdentBody c = true) : isWhitespace c = false := by
  simp only [isIdentBody, isLower, isUpper, isDigit, Bool.or_eq_true, Bool.and_eq_true, decide_eq_true_eq] at h
  simp only [isWhitespace]
  have h95 : c = '_' → c.toNat = 95 := by intro e; subst e; rfl
  generalize c.toNat = n at h h95
  simp only [Bool.or_eq_false_iff, Bool.and_eq_false_iff, decide_eq_false_iff_not, beq_eq_false_iff_ne]
  rcases h with ((h | h) | h) | h
  · omega
  · omega
  · omega
  · have := h95 h; omega

theorem goodAtom_ident {n : Str} (h : isIdentStr n = true) : goodAtom n = true := by
  cases n with
  | nil => simp [isIdentStr] at h
  | cons c r =>
    simp only [isIdentStr, Bool.and_eq_true, Bool.or_eq_true, decide_eq_true_eq] at h
    obtain ⟨hc, hsuf⟩ := h
    have hsplit : r = r.takeWhile isIdentBody ++ r.dropWhile isIdentBody :=
      List.takeWhile_append_dropWhile.symm
    have h1 : (r.takeWhile isIdentBody).all (fun c => !isWhitespace c) = true := by
      have := all_takeWhile isIdentBody r
      simp only [List.all_eq_true, Bool.not_eq_true'] at this ⊢
      intro x hx; exact not_ws_of_identBody (this x hx)
    have h2 : (r.dropWhile isIdentBody).all (fun c => !isWhitespace c) = true := by
      rcases hsuf with ((e | e) | e) | e <;> rw [e] <;> decide
    have hr : r.all (fun c => !isWhitespace c) = true := by
      rw [hsplit, List.all_append, h1, h2]; rfl
    simp [goodAtom, not_ws_of_lower hc, hr]

mutual
theorem layP_tidy : ∀ {t : T} {ps : List Piece}, LayP t ps →
    ∀ (b : Bool) (r : List Piece), tidyPs true r = true → tidyPs b (ps ++ r) = true
  | _, _, .leaf hn, b, r, hr => by simp [tidyPs, goodAtom_ident hn, hr]
  | _, _, .empty, b, r, hr => by
    have : goodAtom ['[', ']'] = true := by decide
    simp [tidyPs, this, hr]
  | _, _, .flat hi, b, r, hr => by
    have h1 : goodAtom ['['] = true := by decide
    have h2 : goodAtom [']'] = true := by decide
    have := itemsP_tidy hi true (.atom [']'] :: r) (by simp [tidyPs, h2, hr])
    simpa [tidyPs, h1] using this
  | _, _, .brk k1 k2 hi, b, r, hr => by
    have h1 : goodAtom ['['] = true := by decide
    have h2 : goodAtom [']'] = true := by decide
    have h3 : goodAtom [','] = true := by decide
    have := itemsP_tidy hi false (.atom [','] :: .nl k2 :: .atom [']'] :: r) (by simp [tidyPs, h2, h3, hr])
    simpa [tidyPs, h1] using this
theorem itemsP_tidy : ∀ {bk : Bool} {fs : List T} {ps : List Piece}, ItemsP bk fs ps →
    ∀ (b : Bool) (r : List Piece), tidyPs true r = true → tidyPs b (ps ++ r) = true
  | _, _, _, .one hl, b, r, hr => layP_tidy hl b r hr
  | _, _, _, .consFlat hl hi, b, r, hr => by
    have h3 : goodAtom [','] = true := by decide
    have h := itemsP_tidy hi false r hr
    have := layP_tidy hl b (.atom [','] :: .sp :: (_ ++ r)) (by simpa [tidyPs, h3] using h)
    simpa using this
  | _, _, _, .consBrk k hl hi, b, r, hr => by
    have h3 : goodAtom [','] = true := by decide
    have h := itemsP_tidy hi false r hr
    have := layP_tidy hl b (.atom [','] :: .nl k :: (_ ++ r)) (by simpa [tidyPs, h3] using h)
    simpa using this
end

/-- the text of a layout is what `print` returns for it -/
theorem strip_layP {t : T} {ps : List Piece} (h : LayP t ps) :
    stripTrailingWhitespace (renderPieces ps) = renderPieces ps := by
  have := layP_tidy h true [] rfl
  rw [List.append_nil] at this
  exact strip_renderPieces this

/-! ### 4. The parser reads a layout back -/

/-- a layout starts with `[` or a lower-case letter -/
def HeadOk (s : Str) : Prop := ∃ c r, s = c :: r ∧ (c = '[' ∨ isLower c = true)

theorem HeadOk.append {s : Str} (h : HeadOk s) (x : Str) : HeadOk (s ++ x) := by
  obtain ⟨c, r, rfl, hc⟩ := h
  exact ⟨c, r ++ x, rfl, hc⟩

mutual
theorem layP_head : ∀ {t : T} {ps : List Piece}, LayP t ps → HeadOk (renderPieces ps)
  | _, _, .leaf (n := n) hn => by
    cases n with
    | nil => simp [isIdentStr] at hn
    | cons c r =>
      simp only [isIdentStr, Bool.and_eq_true] at hn
      exact ⟨c, r ++ [], by simp [renderPieces, Piece.render], .inr hn.1⟩
  | _, _, .empty => ⟨'[', _, rfl, .inl rfl⟩
  | _, _, .flat _ => ⟨'[', _, rfl, .inl rfl⟩
  | _, _, .brk _ _ _ => ⟨'[', _, rfl, .inl rfl⟩
end

theorem itemsP_head {bk : Bool} {fs : List T} {ps : List Piece} (h : ItemsP bk fs ps) :
    HeadOk (renderPieces ps) := by
  cases h with
  | one hl => exact layP_head hl
  | consFlat hl _ => rw [renderPieces_append]; exact (layP_head hl).append _
  | consBrk k hl _ => rw [renderPieces_append]; exact (layP_head hl).append _

theorem headAll_cons (f : Char → Bool) (c : Char) (r : Str) : headAll f (c :: r) = f c := rfl

theorem headOk_stop {s : Str} (h : HeadOk s) :
    headAll (fun c => !isMultispace c && c != '/') s = true := by
  obtain ⟨c, r, rfl, hc⟩ := h
  rcases hc with rfl | hc
  · rw [headAll_cons]; decide
  · have h1 := lower_ne hc ' ' (by decide)
    have h2 := lower_ne hc '\t' (by decide)
    have h3 := lower_ne hc '\r' (by decide)
    have h4 := lower_ne hc '\n' (by decide)
    have h5 := lower_ne hc '/' (by decide)
    simp [headAll, isMultispace, h1, h2, h3, h4, h5]

theorem skipWsc_ms {c : Char} (h : isMultispace c = true) (R : Str) :
    skipWsc false (c :: R) = skipWsc false R := by
  conv => lhs; unfold skipWsc
  simp only [Bool.false_eq_true, if_false, h, if_true]

theorem skipWsc_sp (R : Str) : skipWsc false (' ' :: R) = skipWsc false R := skipWsc_ms (by decide) R

theorem skipWsc_spaces (k : Nat) (R : Str) : skipWsc false (List.replicate k ' ' ++ R) = skipWsc false R := by
  induction k with
  | zero => simp
  | succ k ih => rw [List.replicate_succ, List.cons_append, skipWsc_sp, ih]

theorem skipWsc_nl (k : Nat) (R : Str) :
    skipWsc false ('\n' :: (List.replicate k ' ' ++ R)) = skipWsc false R := by
  rw [skipWsc_ms (by decide), skipWsc_spaces]

theorem wsc_headOk {s : Str} (h : HeadOk s) : wsc s = .ok () s := wsc_of_head (headOk_stop h)
theorem wsc_sp_headOk {s : Str} (h : HeadOk s) : wsc (' ' :: s) = .ok () s := by
  simp [wsc, skipWsc_sp, skipWsc_of_head (headOk_stop h)]
theorem wsc_nl_headOk (k : Nat) {s : Str} (h : HeadOk s) :
    wsc ('\n' :: (List.replicate k ' ' ++ s)) = .ok () s := by
  simp [wsc, skipWsc_nl, skipWsc_of_head (headOk_stop h)]

theorem headOk_close (rest : Str) : headAll (fun c => !isMultispace c && c != '/') (']' :: rest) = true := by
  rw [headAll_cons]; decide
theorem headOk_comma (rest : Str) : headAll (fun c => !isMultispace c && c != '/') (',' :: rest) = true := by
  rw [headAll_cons]; decide

theorem sound_commaWsc : Sound commaWsc :=
  Sound.seq Sound.wsc (Sound.seq (Sound.pchar _) Sound.wsc)

theorem termP_sound : ∀ n, Sound (termP n)
  | 0 => fun _ => trivial
  | n + 1 =>
    Sound.alt
      (Sound.pmap (Sound.delimited (Sound.seq (Sound.pchar _) Sound.wsc)
        (Sound.before (Sound.sepList0 sound_commaWsc (termP_sound n))
          (Sound.opt (Sound.seq Sound.wsc (Sound.pchar _))))
        (Sound.seq Sound.wsc (Sound.pchar _))))
      (Sound.pmap Sound.identifier)

/-- the term parser fails on a closing bracket -/
theorem termP_fails_close (n : Nat) (rest : Str) : Fails (termP (n + 1)) (']' :: rest) := by
  refine Fails.alt ?_ ?_
  · exact Fails.pmap (Fails.delimited (Fails.seq (pchar_ne (by decide) rest)))
  · exact Fails.pmap (identifier_fails_of_head (by rw [headAll_cons]; decide))

theorem commaWsc_fails_close (rest : Str) : Fails commaWsc (']' :: rest) :=
  Fails.seq_ok (wsc_of_head (headOk_close rest)) (Fails.seq (pchar_ne (by decide) rest))

/-- `separated_list`'s loop stops *before* a separator that is not followed by an item (the trailing
    comma of a broken tuple) -/
theorem sepTail_item_fails {α β : Type} {sep : P β} {p : P α} {i i1 : Str} {b : β}
    (h : sep i = .ok b i1) (hl : i1.length < i.length) (hp : Fails p i1) :
    sepTail sep p i = .ok [] i := by
  obtain ⟨e, c, hp⟩ := hp
  have : ¬ i1.length = i.length := by omega
  simp [sepTail, sepLoop, h, this, hp]

theorem commaWsc_sp {s : Str} (h : HeadOk s) : commaWsc (',' :: ' ' :: s) = .ok () s := by
  unfold commaWsc
  rw [seq_ok (wsc_of_head (headOk_comma _)), seq_ok (pchar_self ',' _)]
  exact wsc_sp_headOk h

theorem commaWsc_nl (k : Nat) {s : Str} (h : HeadOk s) :
    commaWsc (',' :: '\n' :: (List.replicate k ' ' ++ s)) = .ok () s := by
  unfold commaWsc
  rw [seq_ok (wsc_of_head (headOk_comma _)), seq_ok (pchar_self ',' _)]
  exact wsc_nl_headOk k h

theorem commaWsc_nl_close (k : Nat) (rest : Str) :
    commaWsc (',' :: '\n' :: (List.replicate k ' ' ++ ']' :: rest)) = .ok () (']' :: rest) := by
  unfold commaWsc
  rw [seq_ok (wsc_of_head (headOk_comma _)), seq_ok (pchar_self ',' _)]
  simp [wsc, skipWsc_nl, skipWsc_of_head (headOk_close rest)]

theorem idStop_comma (r : Str) : IdStop (',' :: r) := by simp [IdStop]; decide
theorem idStop_close (r : Str) : IdStop (']' :: r) := by simp [IdStop]; decide

/-- what `items_lay` provides: the first item, then the loop of `separated_list0` over the others -/
def ItemsRead (n : Nat) (fs : List T) (s rest : Str) : Prop :=
  ∃ f fs' r1, fs = f :: fs' ∧ termP n (s ++ rest) = .ok f r1 ∧
    sepTail commaWsc (termP n) r1 = .ok fs' rest

theorem tupleP_ok {field : P T} {R r1 r2 rest : Str} {fs : List T} {o : Option Unit}
    (h0 : wsc R = .ok () r1)
    (h1 : sepList0 commaWsc field r1 = .ok fs r2)
    (h2 : opt (seq wsc (pchar ',')) r2 = .ok o (']' :: rest) ∨
          ∃ g, opt (seq wsc (pchar ',')) r2 = .ok o g ∧ seq wsc (pchar ']') g = .ok () rest) :
    tupleP field ('[' :: R) = .ok (.tup fs) rest := by
  unfold tupleP delimited
  refine pmap_ok ?_
  rw [seq_ok (r := r1) (a := ()) (by rw [seq_ok (pchar_self '[' R)]; exact h0)]
  rcases h2 with h2 | ⟨g, h2, h3⟩
  · exact before_ok (before_ok h1 h2)
      (by rw [seq_ok (wsc_of_head (headOk_close rest))]; exact pchar_self ']' rest)
  · exact before_ok (before_ok h1 h2) h3

mutual
/-- The fragment parser reads every layout of `t` back as `t` (with enough fuel for the text, and
    provided what follows cannot be taken for a part of a name). -/
theorem termP_lay : ∀ {t : T} {ps : List Piece}, LayP t ps → ∀ (n : Nat) (rest : Str),
    (renderPieces ps).length < n → IdStop rest → termP n (renderPieces ps ++ rest) = .ok t rest
  | _, _, .leaf (n := name) hn, n, rest, hlen, hstop => by
    cases n with
    | zero => omega
    | succ n =>
      simp only [renderPieces, Piece.render, List.append_nil]
      unfold termP
      rw [alt_of_fails]
      · exact pmap_ok (identifier_append hn hstop)
      · cases name with
        | nil => simp [isIdentStr] at hn
        | cons c r =>
          simp only [isIdentStr, Bool.and_eq_true] at hn
          exact Fails.pmap (Fails.delimited (Fails.seq (pchar_ne (lower_ne hn.1 '[' (by decide)) _)))
  | _, _, .empty, n, rest, hlen, _ => by
    cases n with
    | zero => omega
    | succ n =>
      cases n with
      | zero => simp [renderPieces, Piece.render] at hlen
      | succ n =>
        have hs : renderPieces [.atom ['[', ']']] ++ rest = '[' :: ']' :: rest := by
          simp [renderPieces, Piece.render]
        rw [hs]
        unfold termP
        refine alt_of_ok (tupleP_ok (o := none) (wsc_of_head (headOk_close rest))
          (sepList0_of_fails (termP_fails_close n rest)) (.inl ?_))
        exact opt_of_fails (Fails.seq_ok (wsc_of_head (headOk_close rest)) (pchar_ne (by decide) rest))
  | _, _, .flat (items := items) hi, n, rest, hlen, _ => by
    cases n with
    | zero => omega
    | succ n =>
      have hs : renderPieces (.atom ['['] :: (items ++ [.atom [']']])) ++ rest =
          '[' :: (renderPieces items ++ ']' :: rest) := by
        simp [renderPieces, Piece.render, renderPieces_append]
      have hl : (renderPieces items).length < n := by
        simp [renderPieces, Piece.render, renderPieces_append] at hlen; omega
      rw [hs]
      obtain ⟨f', fs', r1, heq, hf, ht⟩ := items_lay hi n (']' :: rest) hl (idStop_close rest)
        (sepTail_of_fails (commaWsc_fails_close rest))
      unfold termP
      refine alt_of_ok (tupleP_ok (o := none) (wsc_headOk ((itemsP_head hi).append _))
        (by rw [heq]; exact sepList0_cons hf ht) (.inl ?_))
      exact opt_of_fails (Fails.seq_ok (wsc_of_head (headOk_close rest)) (pchar_ne (by decide) rest))
  | _, _, .brk (items := items) k1 k2 hi, n, rest, hlen, _ => by
    cases n with
    | zero => omega
    | succ n =>
      have hs : renderPieces (.atom ['['] :: .nl k1 :: (items ++ [.atom [','], .nl k2, .atom [']']])) ++ rest =
          '[' :: '\n' :: (List.replicate k1 ' ' ++
            (renderPieces items ++ ',' :: '\n' :: (List.replicate k2 ' ' ++ ']' :: rest))) := by
        simp [renderPieces, Piece.render, renderPieces_append]
      have hl : (renderPieces items).length < n := by
        simp [renderPieces, Piece.render, renderPieces_append] at hlen; omega
      rw [hs]
      cases n with
      | zero => omega
      | succ m =>
        have hend : sepTail commaWsc (termP (m + 1)) (',' :: '\n' :: (List.replicate k2 ' ' ++ ']' :: rest)) =
            .ok [] (',' :: '\n' :: (List.replicate k2 ' ' ++ ']' :: rest)) :=
          sepTail_item_fails (commaWsc_nl_close k2 rest) (by simp; omega) (termP_fails_close m rest)
        obtain ⟨f', fs', r1, heq, hf, ht⟩ := items_lay hi (m + 1) _ hl (idStop_comma _) hend
        unfold termP
        refine alt_of_ok (tupleP_ok (o := some ()) (wsc_nl_headOk k1 ((itemsP_head hi).append _))
          (by rw [heq]; exact sepList0_cons hf ht)
          (.inr ⟨'\n' :: (List.replicate k2 ' ' ++ ']' :: rest), ?_, ?_⟩))
        · exact opt_ok (by rw [seq_ok (wsc_of_head (headOk_comma _))]; exact pchar_self ',' _)
        · rw [seq_ok (r := ']' :: rest) (a := ())
            (by simp [wsc, skipWsc_nl, skipWsc_of_head (headOk_close rest)])]
          exact pchar_self ']' rest
theorem items_lay : ∀ {bk : Bool} {fs : List T} {ps : List Piece}, ItemsP bk fs ps →
    ∀ (n : Nat) (rest : Str), (renderPieces ps).length < n → IdStop rest →
    sepTail commaWsc (termP n) rest = .ok [] rest → ItemsRead n fs (renderPieces ps) rest
  | _, _, _, .one (f := f) hl, n, rest, hlen, hstop, hend =>
    ⟨f, [], rest, rfl, termP_lay hl n rest hlen hstop, hend⟩
  | _, _, _, .consFlat (f := f) (ps := ps) (rest := restp) hl hi, n, rest, hlen, hstop, hend => by
    have hs : renderPieces (ps ++ .atom [','] :: .sp :: restp) ++ rest =
        renderPieces ps ++ (',' :: ' ' :: (renderPieces restp ++ rest)) := by
      simp [renderPieces, Piece.render, renderPieces_append]
    have hl1 : (renderPieces ps).length < n ∧ (renderPieces restp).length < n := by
      simp [renderPieces, Piece.render, renderPieces_append] at hlen; omega
    obtain ⟨g', fs', r1, heq, hg, ht⟩ := items_lay hi n rest hl1.2 hstop hend
    unfold ItemsRead
    refine ⟨f, g' :: fs', ',' :: ' ' :: (renderPieces restp ++ rest), by rw [heq], ?_, ?_⟩
    · rw [hs]; exact termP_lay hl n _ hl1.1 (idStop_comma _)
    · exact sepTail_cons sound_commaWsc (termP_sound n) (commaWsc_sp ((itemsP_head hi).append rest))
        (by simp; omega) hg ht
  | _, _, _, .consBrk (f := f) (ps := ps) (rest := restp) k hl hi, n, rest, hlen, hstop, hend => by
    have hs : renderPieces (ps ++ .atom [','] :: .nl k :: restp) ++ rest =
        renderPieces ps ++ (',' :: '\n' :: (List.replicate k ' ' ++ (renderPieces restp ++ rest))) := by
      simp [renderPieces, Piece.render, renderPieces_append]
    have hl1 : (renderPieces ps).length < n ∧ (renderPieces restp).length < n := by
      simp [renderPieces, Piece.render, renderPieces_append] at hlen; omega
    obtain ⟨g', fs', r1, heq, hg, ht⟩ := items_lay hi n rest hl1.2 hstop hend
    unfold ItemsRead
    refine ⟨f, g' :: fs', ',' :: '\n' :: (List.replicate k ' ' ++ (renderPieces restp ++ rest)),
      by rw [heq], ?_, ?_⟩
    · rw [hs]; exact termP_lay hl n _ hl1.1 (idStop_comma _)
    · exact sepTail_cons sound_commaWsc (termP_sound n) (commaWsc_nl k ((itemsP_head hi).append rest))
        (by simp; omega) hg ht
end

end QM.Frag
