import QuiverModel.Lemmas.Text.Pieces
/-
Lemmas for the fragment port (Core/Text/Fragment):

  1. `LayP` / `LayF` / `ItemsP` — the LANGUAGE OF LAYOUTS of a fragment term, on the level of printed
     pieces: a tuple is either flat (`A[a, x: b]`) or broken (`A[⏎a,⏎x: b,⏎]`, with a trailing comma),
     each tuple independently;
  2. `printLoop_term` — whatever the width, the column, the indentation, the enclosing mode and the
     rest of the stack, the layout engine prints `termDoc t` as (the text of) one of the layouts of `t`
     and goes on with the rest of the stack;
  3. layouts are tidy (no white space before a line break or at the end) and NUL-free, so
     `strip_trailing_whitespace`, `collapse_blanks`, `expand_literals` leave them alone (Pieces.lean);
  4. `termP_lay` — the fragment parser reads every layout of `t` back as `t`.
-/
namespace QM.Frag
open QM.Text QM.Parse

/-! ### 0. Literal leaves -/

/-- the text of a literal leaf (`render_literal`) -/
inductive LitText : T → Str → Prop
  | int (i : Int) : LitText (.int i) (intText i)
  | bin {bs : List Nat} : (∀ b ∈ bs, b < 256) → LitText (.bin bs) (binText bs)
  | str (v : Str) : LitText (.str v) (strText v)
  | acc {n : Str} {p : List Acc} : T.WF (.acc n p) → LitText (.acc n p) (accessText n p)

/-! string literals -/

theorem escapeSingle_clean (v : Str) : (escapeSingle v).all (fun c => c != '\n' && c != '\r') = true := by
  induction v with
  | nil => rfl
  | cons c v ih =>
    simp only [escapeSingle]
    split
    · simpa using ih
    split
    · simpa using ih
    split
    · simpa using ih
    split
    · simpa using ih
    split
    · simpa using ih
    split
    · simpa using ih
    · rename_i h1 h2 h3 h4 h5 h6
      simp [ih, h4, h5]

/-- the escaped text does not start with a raw quote -/
theorem escapeSingle_head (v x : Str) : headAll (· ≠ '"') (escapeSingle v ++ x) = true ∨ v = [] := by
  cases v with
  | nil => exact .inr rfl
  | cons c v =>
    left
    simp only [escapeSingle]
    split
    · rfl
    split
    · rfl
    split
    · rfl
    split
    · rfl
    split
    · rfl
    split
    · rfl
    · rename_i h1 h2 h3 h4 h5 h6
      simp [headAll, h2]

theorem stringSegments_escapeSingle (s rest : List Char) :
    stringSegments (escapeSingle s ++ '"' :: rest) = .closed s rest := by
  induction s with
  | nil => simp [escapeSingle, stringSegments_cons]
  | cons c s ih =>
    simp only [escapeSingle]
    by_cases h1 : c = '\\'
    · subst h1; simp [stringSegments_cons, singleEscape, ih, SegResult.push]
    by_cases h2 : c = '"'
    · subst h2; simp [stringSegments_cons, singleEscape, ih, SegResult.push]
    by_cases h3 : c = '{'
    · subst h3; simp [stringSegments_cons, singleEscape, ih, SegResult.push]
    by_cases h4 : c = '\n'
    · subst h4; simp [stringSegments_cons, singleEscape, ih, SegResult.push]
    by_cases h5 : c = '\r'
    · subst h5; simp [stringSegments_cons, singleEscape, ih, SegResult.push]
    by_cases h6 : c = '\t'
    · subst h6; simp [stringSegments_cons, singleEscape, ih, SegResult.push]
    simp [h1, h2, h3, h4, h5, h6, stringSegments_cons, ih, SegResult.push]

theorem push_closed {d : Char} {x : SegResult} {t rest : List Char} (h : x.push d = .closed t rest) :
    ∃ t', x = .closed t' rest := by
  cases x with
  | closed t' r => simp only [SegResult.push, SegResult.closed.injEq] at h; exact ⟨t', by rw [h.2]⟩
  | hole t' r => simp [SegResult.push] at h
  | unterminated => simp [SegResult.push] at h
  | badEscape => simp [SegResult.push] at h

theorem stringSegments_closed_suffix_aux (n : Nat) : ∀ (cs : List Char), cs.length ≤ n →
    ∀ t rest, stringSegments cs = .closed t rest → rest <:+ cs := by
  induction n with
  | zero =>
    intro cs h t rest he
    have : cs = [] := List.eq_nil_of_length_eq_zero (by omega)
    subst this; simp [stringSegments] at he
  | succ n ih =>
    intro cs h t rest he
    cases cs with
    | nil => simp [stringSegments] at he
    | cons c r =>
      have hr : r.length ≤ n := by simp at h; omega
      rw [stringSegments_cons] at he
      split at he
      · simp only [SegResult.closed.injEq] at he
        rw [← he.2]; exact List.suffix_cons c r
      split at he
      · simp at he
      split at he
      · split at he
        · simp at he
        · rename_i e rest'
          split at he
          · obtain ⟨t', h'⟩ := push_closed he
            have hr' : rest'.length ≤ n := by simp at hr; omega
            exact List.IsSuffix.trans (ih rest' hr' t' rest h')
              (List.IsSuffix.trans (List.suffix_cons e rest') (List.suffix_cons c _))
          · simp at he
      · obtain ⟨t', h'⟩ := push_closed he
        exact List.IsSuffix.trans (ih r hr t' rest h') (List.suffix_cons c r)

theorem stringSegments_closed_suffix (cs t rest : List Char)
    (h : stringSegments cs = .closed t rest) : rest <:+ cs :=
  stringSegments_closed_suffix_aux cs.length cs (Nat.le_refl _) t rest h

theorem strText_quoted (v : Str) : quotedAtom (strText v) = true := by
  have h := escapeSingle_clean v
  simp only [quotedAtom, strText, List.head?_cons, beq_self_eq_true, Bool.true_and, Bool.and_eq_true]
  refine ⟨?_, ?_⟩
  · rw [show '"' :: (escapeSingle v ++ ['"']) = ('"' :: escapeSingle v) ++ ['"'] from rfl,
      List.getLast?_append]
    rfl
  · simp only [List.all_cons, List.all_append, h]
    decide

theorem hexChar_facts : ∀ k : Fin 16, QM.hexDigit (QM.hexChar k.val) = some k.val ∧
    isWhitespace (QM.hexChar k.val) = false ∧ QM.hexChar k.val ≠ '\x00' := by decide

theorem hexText_all {p : Char → Bool} (hp : ∀ k : Fin 16, p (QM.hexChar k.val) = true) :
    ∀ (bs : List Nat), (∀ b ∈ bs, b < 256) → (hexText bs).all p = true
  | [], _ => rfl
  | b :: bs, h => by
    have hb := h b (by simp)
    have h1 := hp ⟨b / 16, by omega⟩
    have h2 := hp ⟨b % 16, by omega⟩
    simp only [hexText, List.all_cons, h1, h2, Bool.true_and]
    exact hexText_all hp bs (fun x hx => h x (by simp [hx]))

theorem parseHexNat_hexText : ∀ (bs : List Nat), (∀ b ∈ bs, b < 256) → QM.parseHexNat (hexText bs) = some bs
  | [], _ => rfl
  | b :: bs, h => by
    have hb := h b (by simp)
    have h1 := (hexChar_facts ⟨b / 16, by omega⟩).1
    have h2 := (hexChar_facts ⟨b % 16, by omega⟩).1
    simp only [hexText, QM.parseHexNat, h1, h2, parseHexNat_hexText bs (fun x hx => h x (by simp [hx]))]
    congr 2
    omega

theorem not_ws_of_digit {c : Char} (h : isDigit c = true) : isWhitespace c = false :=
  not_ws_of_identBody (by simp [isIdentBody, h])

theorem digits_good {ds : Str} (h : ds.all isDigit = true) (hne : ds ≠ []) : goodAtom ds = true := by
  simp only [goodAtom, Bool.and_eq_true, Bool.not_eq_true', List.isEmpty_eq_false_iff]
  refine ⟨hne, ?_⟩
  simp only [List.all_eq_true, Bool.not_eq_true'] at h ⊢
  intro x hx; exact not_ws_of_digit (h x hx)

theorem digits_nul {ds : Str} (h : ds.all isDigit = true) : ds.all (· ≠ '\x00') = true := by
  simp only [List.all_eq_true, decide_eq_true_eq] at h ⊢
  intro x hx e
  have := h x hx
  rw [e] at this
  exact absurd this (by decide)

/-- the characters of an accessor path satisfy `q` if `.`, digits and identifier texts do -/
theorem pathText_all {q : Char → Bool} (hdot : q '.' = true) (hdig : ∀ c, isDigit c = true → q c = true)
    (hid : ∀ f : Str, isIdentStr f = true → f.all q = true) : ∀ (p : List Acc),
    (∀ a ∈ p, match a with
      | .field f => isIdentStr f = true
      | .index i => i < 2 ^ 64) → (pathText p).all q = true
  | [], _ => rfl
  | a :: p, h => by
    have ha := h a (by simp)
    have ih := pathText_all hdot hdig hid p (fun x hx => h x (by simp [hx]))
    cases a with
    | field f => simp only [pathText, accText, List.cons_append, List.all_cons, List.all_append, hdot, hid f ha, ih,
        Bool.and_self]
    | index i =>
      have hd : (Parse.natDigits i).all q = true := by
        have := (natDigits_spec i).1
        simp only [List.all_eq_true] at this ⊢
        exact fun c hc => hdig c (this c hc)
      simp only [pathText, accText, List.cons_append, List.all_cons, List.all_append, hdot, hd, ih, Bool.and_self]

theorem ident_all_nonws {f : Str} (h : isIdentStr f = true) : f.all (fun c => !isWhitespace c) = true := by
  have := goodAtom_ident h
  simp only [goodAtom, Bool.and_eq_true] at this
  exact this.2

theorem lit_good {t : T} {s : Str} (h : LitText t s) (hns : ∀ v, t ≠ .str v) : goodAtom s = true := by
  cases h with
  | int i =>
    obtain ⟨h1, h2, _⟩ := natDigits_spec i.natAbs
    unfold intText
    split
    · have := digits_good h1 h2
      simp only [goodAtom, Bool.and_eq_true, Bool.not_eq_true', List.isEmpty_eq_false_iff] at this ⊢
      exact ⟨by simp, by simp [this.2]; decide⟩
    · exact digits_good h1 h2
  | bin hb =>
    have := hexText_all (p := fun c => !isWhitespace c) (fun k => by simp [(hexChar_facts k).2.1]) _ hb
    simp only [goodAtom, binText, List.isEmpty_cons, Bool.not_false, Bool.true_and, List.all_cons, this,
      Bool.and_true]
    decide
  | str v => exact (hns v rfl).elim
  | acc hwf =>
    rename_i n p
    obtain ⟨hn, _, hp⟩ := hwf
    have h1 := goodAtom_ident hn
    have h2 := pathText_all (q := fun c => !isWhitespace c) (by decide)
      (fun c hc => by simp [not_ws_of_digit hc]) (fun f hf => ident_all_nonws hf) p hp
    simp only [goodAtom, Bool.and_eq_true, Bool.not_eq_true', List.isEmpty_eq_false_iff] at h1 ⊢
    refine ⟨by simp [accessText, h1.1], ?_⟩
    simp only [accessText, List.all_append, h1.2, h2, Bool.and_self]

theorem lit_nul {t : T} {s : Str} (h : LitText t s) (hns : ∀ v, t ≠ .str v) : s.all (· ≠ '\x00') = true := by
  cases h with
  | int i =>
    obtain ⟨h1, _, _⟩ := natDigits_spec i.natAbs
    unfold intText
    split
    · simp only [List.all_cons, digits_nul h1, Bool.and_true]; decide
    · exact digits_nul h1
  | bin hb =>
    have := hexText_all (p := (· ≠ '\x00')) (fun k => by simp [(hexChar_facts k).2.2]) _ hb
    simp only [binText, List.all_cons, this, Bool.and_true]
    decide
  | str v => exact (hns v rfl).elim
  | acc hwf =>
    rename_i n p
    obtain ⟨hn, _, hp⟩ := hwf
    have h1 := ident_nulFree hn
    have h2 := pathText_all (q := (· ≠ '\x00')) (by decide)
      (fun c hc => by simp only [decide_eq_true_eq]; intro e; subst e; exact absurd hc (by decide))
      (fun f hf => ident_nulFree hf) p hp
    simp only [accessText, List.all_append, h1, h2, Bool.and_self]

/-- a literal's atom is fine for the line passes -/
theorem lit_ok {t : T} {s : Str} (h : LitText t s) : okAtom s = true := by
  cases h with
  | int i => simp [okAtom, lit_good (.int i) (by intro v e; cases e)]
  | bin hb => simp [okAtom, lit_good (.bin hb) (by intro v e; cases e)]
  | str v => simp [okAtom, strText_quoted v]
  | acc hwf => simp [okAtom, lit_good (.acc hwf) (by intro v e; cases e)]

theorem lit_nulAtom {t : T} {s : Str} (h : LitText t s) : nulAtom s = true := by
  cases h with
  | int i => exact nulAtom_of_all (lit_nul (.int i) (by intro v e; cases e))
  | bin hb => exact nulAtom_of_all (lit_nul (.bin hb) (by intro v e; cases e))
  | str v => simp [nulAtom, strText]
  | acc hwf => exact nulAtom_of_all (lit_nul (.acc hwf) (by intro v e; cases e))

/-- a literal starts with a digit, `-` or a quote -/
theorem lit_head {t : T} {s : Str} (h : LitText t s) (hna : ∀ n p, t ≠ .acc n p) :
    ∃ c r, s = c :: r ∧ (isDigit c = true ∨ c = '-' ∨ c = '"') := by
  cases h with
  | acc _ => exact (hna _ _ rfl).elim
  | int i =>
    obtain ⟨h1, h2, _⟩ := natDigits_spec i.natAbs
    unfold intText
    split
    · exact ⟨'-', _, rfl, .inr (.inl rfl)⟩
    · cases hd : Parse.natDigits i.natAbs with
      | nil => exact absurd hd h2
      | cons c r =>
        rw [hd] at h1
        simp only [List.all_cons, Bool.and_eq_true] at h1
        exact ⟨c, r, rfl, .inl h1.1⟩
  | bin hb => exact ⟨'0', _, rfl, .inl (by decide)⟩
  | str v => exact ⟨'"', _, rfl, .inr (.inr rfl)⟩

/-! ### 1. Layouts -/

mutual
inductive LayP : T → List Piece → Prop
  | leaf {n : Str} : isIdentStr n = true → LayP (.leaf n) [.atom n]
  | lit {t : T} {s : Str} : LitText t s → LayP t [.atom s]
  | empty {name : Option Str} : optOk isTupleNameStr name → LayP (.tup name []) [.atom (emptyText name)]
  | flat {name : Option Str} {f : F} {fs : List F} {items : List Piece} :
      optOk isTupleNameStr name → ItemsP false (f :: fs) items →
      LayP (.tup name (f :: fs)) (.atom (openText name) :: (items ++ [.atom [']']]))
  | brk {name : Option Str} {f : F} {fs : List F} {items : List Piece} (k1 k2 : Nat) :
      optOk isTupleNameStr name → ItemsP true (f :: fs) items →
      LayP (.tup name (f :: fs))
        (.atom (openText name) :: .nl k1 :: (items ++ [.atom [','], .nl k2, .atom [']']]))
  | chain {t u : T} {us : List T} {ps rest : List Piece} :
      isPrim t = true → LayP t ps → TailP (u :: us) rest → LayP (.chain t (u :: us)) (ps ++ rest)
/-- the further terms of a chain, each behind one space -/
inductive TailP : List T → List Piece → Prop
  | nil : TailP [] []
  | cons {u : T} {us : List T} {ps rest : List Piece} :
      isPrim u = true → LayP u ps → TailP us rest → TailP (u :: us) (.sp :: (ps ++ rest))
  /-- the continuation line of a broken pipeline: `⏎~> term` -/
  | pipe {u : T} {us : List T} {ps rest : List Piece} (k : Nat) :
      isPrim u = true → LayP u ps → TailP us rest →
      TailP (u :: us) (.nl k :: .atom ['~', '>'] :: .sp :: (ps ++ rest))
/-- a field: its value, behind `label:` and a space if it is named (the formatter prints the label
    as ONE text `label: `; the layout keeps the space apart — same text, see `PrintsAs`) -/
inductive LayF : F → List Piece → Prop
  | unnamed {t : T} {ps : List Piece} : LayP t ps → LayF (.mk none t) ps
  | named {l : Str} {t : T} {ps : List Piece} : isIdentStr l = true → LayP t ps →
      LayF (.mk (some l) t) (.atom (l ++ [':']) :: .sp :: ps)
inductive ItemsP : Bool → List F → List Piece → Prop
  | one {b : Bool} {f : F} {ps : List Piece} : LayF f ps → ItemsP b [f] ps
  | consFlat {f g : F} {fs : List F} {ps rest : List Piece} :
      LayF f ps → ItemsP false (g :: fs) rest → ItemsP false (f :: g :: fs) (ps ++ .atom [','] :: .sp :: rest)
  | consBrk {f g : F} {fs : List F} {ps rest : List Piece} (k : Nat) :
      LayF f ps → ItemsP true (g :: fs) rest → ItemsP true (f :: g :: fs) (ps ++ .atom [','] :: .nl k :: rest)
end

/-! ### 2. The engine prints a layout -/

/-- What the print lemmas say about a document `d`: in every context the engine prints pieces with
    the TEXT of some piece list in `Lay` (the pieces themselves may be cut differently: `x: ` is one
    atom for the engine, an atom and a space in the layout), then goes on with the rest of the stack. -/
def PrintsAs (d : Doc) (Lay : List Piece → Prop) : Prop :=
  ∀ (w col i : Nat) (m : Mode) (st : List Frame),
    ∃ ps' ps col', printLoop w col (⟨i, m, d⟩ :: st) [] = ps' ++ printLoop w col' st [] ∧
      renderPieces ps' = renderPieces ps ∧ Lay ps

theorem PrintsAs.mono {d : Doc} {Lay Lay' : List Piece → Prop} (h : PrintsAs d Lay)
    (himp : ∀ ps, Lay ps → Lay' ps) : PrintsAs d Lay' := by
  intro w col i m st
  obtain ⟨ps', ps, col', hp, hr, hl⟩ := h w col i m st
  exact ⟨ps', ps, col', hp, hr, himp ps hl⟩

/-- `chain_doc` adds nothing to the output -/
theorem printsAs_chainDoc {d : Doc} {Lay : List Piece → Prop} (h : PrintsAs d Lay) :
    PrintsAs (chainDoc d) Lay := by
  intro w col i m st
  simp only [chainDoc, pl_concat, mkFrames, List.cons_append, List.nil_append, pl_nil, Doc.mkGroup]
  obtain ⟨m', hg⟩ := pl_group w col i m st (breakIfWiderThan (.concat [d]) chainSoftWidth)
    (forcesBreak (breakIfWiderThan (.concat [d]) chainSoftWidth))
  rw [hg]
  unfold breakIfWiderThan
  split
  · simp only [pl_concat, mkFrames, List.cons_append, List.nil_append]
    exact h w col i m' st
  · simp only [pl_concat, mkFrames, List.cons_append, List.nil_append]
    obtain ⟨ps', ps, col', hp, hr, hl⟩ := h w col i m' (⟨i, m', .breakParent⟩ :: st)
    exact ⟨ps', ps, col', by rw [hp, pl_bp], hr, hl⟩

/-- what the print lemmas say about a list of documents pushed as frames of one mode -/
def FramesPrintAs (ds : List Doc) (Lay : List Piece → Prop) : Prop :=
  ∀ (w col i : Nat) (m : Mode) (st : List Frame),
    ∃ ps' ps col', printLoop w col (mkFrames i m ds ++ st) [] = ps' ++ printLoop w col' st [] ∧
      renderPieces ps' = renderPieces ps ∧ Lay ps

/-- `chain_doc`'s wrapping (`concat [prefix, group(break_if_wider_than(concat parts, 50))]`) adds
    nothing to what the parts print -/
theorem printsAs_groupChain {ds : List Doc} {Lay : List Piece → Prop} (h : FramesPrintAs ds Lay) :
    PrintsAs (.concat [.nil, Doc.mkGroup (breakIfWiderThan (.concat ds) chainSoftWidth)]) Lay := by
  intro w col i m st
  simp only [pl_concat, mkFrames, List.cons_append, List.nil_append, pl_nil, Doc.mkGroup]
  obtain ⟨m', hg⟩ := pl_group w col i m st (breakIfWiderThan (.concat ds) chainSoftWidth)
    (forcesBreak (breakIfWiderThan (.concat ds) chainSoftWidth))
  rw [hg]
  unfold breakIfWiderThan
  split
  · rw [pl_concat]
    exact h w col i m' st
  · simp only [pl_concat, mkFrames, List.cons_append, List.nil_append]
    obtain ⟨ps', ps, col', hp, hr, hl⟩ := h w col i m' (⟨i, m', .breakParent⟩ :: st)
    exact ⟨ps', ps, col', by rw [hp, pl_bp], hr, hl⟩

/-- … nor does `field_doc` without trivia -/
theorem printsAs_fieldDoc {d : Doc} {Lay : List Piece → Prop} (h : PrintsAs d Lay) :
    PrintsAs (fieldDoc d) Lay := by
  intro w col i m st
  simp only [fieldDoc, pl_concat, mkFrames, List.cons_append, List.nil_append, pl_nil]
  obtain ⟨ps', ps, col', hp, hr, hl⟩ := h w col i m (⟨i, m, .nil⟩ :: st)
  exact ⟨ps', ps, col', by rw [hp, pl_nil], hr, hl⟩

/-- a named field: the label text, then the value -/
theorem printsAs_labelled {d : Doc} {t : T} {l : Str} (hl : isIdentStr l = true)
    (h : PrintsAs d (LayP t)) :
    PrintsAs (.concat [.text (l ++ [':', ' ']), d]) (LayF (.mk (some l) t)) := by
  intro w col i m st
  simp only [pl_concat, mkFrames, List.cons_append, List.nil_append, pl_text]
  obtain ⟨ps', ps, col', hp, hr, hlay⟩ := h w (col + (l ++ [':', ' ']).length) i m st
  refine ⟨.atom (l ++ [':', ' ']) :: ps', .atom (l ++ [':']) :: .sp :: ps, col', by rw [hp]; rfl, ?_,
    .named hl hlay⟩
  simp [renderPieces, Piece.render, hr]

/-- what `printLoop_items` says about the field documents of the fields `fs` -/
def ItemsPrintAs (fs : List F) : Prop :=
  ∀ (w col i : Nat) (m : Mode) (st : List Frame),
    ∃ ps' ps col', printLoop w col (mkFrames i m (Doc.joinList sepDoc (fieldDocs fs)) ++ st) [] =
        ps' ++ printLoop w col' st [] ∧ renderPieces ps' = renderPieces ps ∧ ItemsP (isBrk m) fs ps

theorem itemsPrintAs_one {f : F} (h : PrintsAs (fieldDocOf f) (LayF f)) : ItemsPrintAs [f] := by
  intro w col i m st
  simp only [fieldDocs, Doc.joinList, mkFrames, List.cons_append, List.nil_append]
  obtain ⟨ps', ps, col', hp, hr, hl⟩ := h w col i m st
  exact ⟨ps', ps, col', hp, hr, .one hl⟩

theorem itemsPrintAs_cons {f g : F} {fs : List F} (h : PrintsAs (fieldDocOf f) (LayF f))
    (ht : ItemsPrintAs (g :: fs)) : ItemsPrintAs (f :: g :: fs) := by
  intro w col i m st
  have hj : Doc.joinList sepDoc (fieldDocs (f :: g :: fs)) =
      fieldDocOf f :: sepDoc :: Doc.joinList sepDoc (fieldDocs (g :: fs)) := by
    simp [fieldDocs, Doc.joinList]
  rw [hj]
  simp only [mkFrames, List.cons_append]
  obtain ⟨ps', ps, col1, hp, hr, hl⟩ := h w col i m
    (⟨i, m, sepDoc⟩ :: (mkFrames i m (Doc.joinList sepDoc (fieldDocs (g :: fs))) ++ st))
  rw [hp]
  cases m with
  | flat =>
    rw [pl_sep_flat]
    obtain ⟨rest', rest, col2, hq, hr2, hi⟩ := ht w (col1 + 1 + 1) i .flat st
    rw [hq]
    exact ⟨ps' ++ .atom [','] :: .sp :: rest', ps ++ .atom [','] :: .sp :: rest, col2, by simp,
      by simp [renderPieces_append, renderPieces, hr, hr2], .consFlat hl hi⟩
  | brk =>
    rw [pl_sep_brk]
    obtain ⟨rest', rest, col2, hq, hr2, hi⟩ := ht w i i .brk st
    rw [hq]
    exact ⟨ps' ++ .atom [','] :: .nl i :: rest', ps ++ .atom [','] :: .nl i :: rest, col2, by simp,
      by simp [renderPieces_append, renderPieces, hr, hr2], .consBrk i hl hi⟩

/-- `bracketed` around the items prints a tuple layout -/
theorem printsAs_bracketed {name : Option Str} {f : F} {fs : List F} (hn : optOk isTupleNameStr name)
    (h : ItemsPrintAs (f :: fs)) :
    PrintsAs (bracketed (openText name) (fieldDocs (f :: fs))) (LayP (.tup name (f :: fs))) := by
  intro w col i m st
  unfold bracketed Doc.mkGroup
  obtain ⟨m', hg⟩ := pl_group w col i m st
    (.concat [.text (openText name), .nest 2 (.concat [.softline,
      Doc.join (.concat [.text [','], .line]) (fieldDocs (f :: fs)), .ifBreak (.text [',']) .nil]),
      .softline, .text [']']])
    (forcesBreak (.concat [.text (openText name), .nest 2 (.concat [.softline,
      Doc.join (.concat [.text [','], .line]) (fieldDocs (f :: fs)), .ifBreak (.text [',']) .nil]),
      .softline, .text [']']]))
  rw [hg]
  cases m' with
  | flat =>
    simp only [pl_concat, mkFrames, List.cons_append, List.nil_append, pl_text, pl_nest,
      pl_softline_flat, Doc.join]
    obtain ⟨items', items, col1, hp, hr, hi⟩ := h w (col + (openText name).length) (i + 2) .flat
      (⟨i + 2, .flat, .ifBreak (.text [',']) .nil⟩ :: ⟨i, .flat, .softline⟩ :: ⟨i, .flat, .text [']']⟩ :: st)
    rw [show Doc.concat [Doc.text [','], Doc.line] = sepDoc from rfl, hp]
    simp only [pl_ifBreak_flat, pl_nil, pl_softline_flat, pl_text]
    exact ⟨.atom (openText name) :: (items' ++ [.atom [']']]), .atom (openText name) :: (items ++ [.atom [']']]),
      col1 + [']'].length, by simp, by simp [renderPieces_append, renderPieces, hr], .flat hn hi⟩
  | brk =>
    simp only [pl_concat, mkFrames, List.cons_append, List.nil_append, pl_text, pl_nest,
      pl_softline_brk, Doc.join]
    obtain ⟨items', items, col1, hp, hr, hi⟩ := h w (i + 2) (i + 2) .brk
      (⟨i + 2, .brk, .ifBreak (.text [',']) .nil⟩ :: ⟨i, .brk, .softline⟩ :: ⟨i, .brk, .text [']']⟩ :: st)
    rw [show Doc.concat [Doc.text [','], Doc.line] = sepDoc from rfl, hp]
    simp only [pl_ifBreak_brk, pl_softline_brk, pl_text]
    exact ⟨.atom (openText name) :: .nl (i + 2) :: (items' ++ [.atom [','], .nl i, .atom [']']]),
      .atom (openText name) :: .nl (i + 2) :: (items ++ [.atom [','], .nl i, .atom [']']]),
      i + [']'].length, by simp, by simp [renderPieces_append, renderPieces, hr], .brk (i + 2) i hn hi⟩

/-! ### 3. Layouts are tidy and NUL-free -/

theorem upper_ne {c : Char} (h : isUpper c = true) (d : Char) (hd : d.toNat < 65 ∨ 90 < d.toNat) : c ≠ d := by
  intro e; subst e
  simp only [isUpper, Bool.and_eq_true, decide_eq_true_eq] at h
  omega

theorem identBody_of_upper {c : Char} (h : isUpper c = true) : isIdentBody c = true := by
  simp [isIdentBody, h]

theorem identBody_ne_nul {c : Char} (h : isIdentBody c = true) : c ≠ '\x00' := by
  intro e; rw [e] at h; exact absurd h (by decide)

theorem goodAtom_tupleName {n : Str} (h : isTupleNameStr n = true) : goodAtom n = true := by
  cases n with
  | nil => simp [isTupleNameStr] at h
  | cons c r =>
    simp only [isTupleNameStr, Bool.and_eq_true] at h
    have hr : r.all (fun c => !isWhitespace c) = true := by
      simp only [List.all_eq_true, Bool.not_eq_true'] at h ⊢
      intro x hx; exact not_ws_of_identBody (h.2 x hx)
    simp [goodAtom, not_ws_of_identBody (identBody_of_upper h.1), hr]

theorem tupleName_nulFree {n : Str} (h : isTupleNameStr n = true) : n.all (· ≠ '\x00') = true := by
  cases n with
  | nil => simp [isTupleNameStr] at h
  | cons c r =>
    simp only [isTupleNameStr, Bool.and_eq_true] at h
    simp only [List.all_cons, Bool.and_eq_true, decide_eq_true_eq, List.all_eq_true]
    exact ⟨identBody_ne_nul (identBody_of_upper h.1), fun x hx => identBody_ne_nul ((List.all_eq_true.mp h.2) x hx)⟩

theorem goodAtom_snoc {a : Str} {c : Char} (h : goodAtom a = true) (hc : isWhitespace c = false) :
    goodAtom (a ++ [c]) = true := by
  simp only [goodAtom, Bool.and_eq_true, Bool.not_eq_true', List.isEmpty_eq_false_iff] at h ⊢
  refine ⟨by simp, ?_⟩
  rw [List.all_append, h.2]; simp [hc]

theorem good_empty {name : Option Str} (hn : optOk isTupleNameStr name) : goodAtom (emptyText name) = true := by
  cases name with
  | none => decide
  | some n => exact goodAtom_tupleName hn

theorem good_open {name : Option Str} (hn : optOk isTupleNameStr name) : goodAtom (openText name) = true := by
  cases name with
  | none => decide
  | some n => exact goodAtom_snoc (goodAtom_tupleName hn) (by decide)

theorem nul_empty {name : Option Str} (hn : optOk isTupleNameStr name) :
    (emptyText name).all (· ≠ '\x00') = true := by
  cases name with
  | none => decide
  | some n => exact tupleName_nulFree hn

theorem nul_open {name : Option Str} (hn : optOk isTupleNameStr name) :
    (openText name).all (· ≠ '\x00') = true := by
  cases name with
  | none => decide
  | some n =>
    simp only [openText, Option.getD_some, List.all_append, tupleName_nulFree hn]
    decide

mutual
theorem layP_tidy : ∀ {t : T} {ps : List Piece}, LayP t ps →
    ∀ (b : Bool) (r : List Piece), tidyPs true r = true → tidyPs b (ps ++ r) = true
  | _, _, .leaf hn, b, r, hr => by simp [tidyPs, okAtom, goodAtom_ident hn, hr]
  | _, _, .lit hl, b, r, hr => by simp [tidyPs, lit_ok hl, hr]
  | _, _, .empty hn, b, r, hr => by simp [tidyPs, okAtom, good_empty hn, hr]
  | _, _, .flat hn hi, b, r, hr => by
    have h2 : goodAtom [']'] = true := by decide
    have := itemsP_tidy hi true (.atom [']'] :: r) (by simp [tidyPs, okAtom, h2, hr])
    simpa [tidyPs, okAtom, good_open hn] using this
  | _, _, .brk k1 k2 hn hi, b, r, hr => by
    have h2 : goodAtom [']'] = true := by decide
    have h3 : goodAtom [','] = true := by decide
    have := itemsP_tidy hi false (.atom [','] :: .nl k2 :: .atom [']'] :: r) (by simp [tidyPs, okAtom, h2, h3, hr])
    simpa [tidyPs, okAtom, good_open hn] using this
  | _, _, .chain _ hl ht, b, r, hr => by
    have := layP_tidy hl b (_ ++ r) (tailP_tidy ht r hr)
    simpa using this
theorem tailP_tidy : ∀ {us : List T} {ps : List Piece}, TailP us ps →
    ∀ (r : List Piece), tidyPs true r = true → tidyPs true (ps ++ r) = true
  | _, _, .nil, r, hr => by simpa using hr
  | _, _, .cons _ hl ht, r, hr => by
    have := layP_tidy hl false (_ ++ r) (tailP_tidy ht r hr)
    simpa [tidyPs] using this
  | _, _, .pipe k _ hl ht, r, hr => by
    have h1 : goodAtom ['~', '>'] = true := by decide
    have := layP_tidy hl false (_ ++ r) (tailP_tidy ht r hr)
    simpa [tidyPs, okAtom, h1] using this
theorem layF_tidy : ∀ {f : F} {ps : List Piece}, LayF f ps →
    ∀ (b : Bool) (r : List Piece), tidyPs true r = true → tidyPs b (ps ++ r) = true
  | _, _, .unnamed hl, b, r, hr => layP_tidy hl b r hr
  | _, _, .named hn hl, b, r, hr => by
    have := layP_tidy hl false r hr
    simpa [tidyPs, okAtom, goodAtom_snoc (goodAtom_ident hn) (show isWhitespace ':' = false by decide)] using this
theorem itemsP_tidy : ∀ {bk : Bool} {fs : List F} {ps : List Piece}, ItemsP bk fs ps →
    ∀ (b : Bool) (r : List Piece), tidyPs true r = true → tidyPs b (ps ++ r) = true
  | _, _, _, .one hl, b, r, hr => layF_tidy hl b r hr
  | _, _, _, .consFlat hl hi, b, r, hr => by
    have h3 : goodAtom [','] = true := by decide
    have h := itemsP_tidy hi false r hr
    have := layF_tidy hl b (.atom [','] :: .sp :: (_ ++ r)) (by simpa [tidyPs, okAtom, h3] using h)
    simpa using this
  | _, _, _, .consBrk k hl hi, b, r, hr => by
    have h3 : goodAtom [','] = true := by decide
    have h := itemsP_tidy hi false r hr
    have := layF_tidy hl b (.atom [','] :: .nl k :: (_ ++ r)) (by simpa [tidyPs, okAtom, h3] using h)
    simpa using this
end

theorem nulAtom_comma : nulAtom [','] = true := by decide
theorem nulAtom_close : nulAtom [']'] = true := by decide

mutual
theorem layP_nulFree : ∀ {t : T} {ps : List Piece}, LayP t ps → nulFree ps = true
  | _, _, .leaf hn => by
    simp only [nulFree, Bool.and_eq_true]
    exact ⟨nulAtom_of_all (ident_nulFree hn), trivial⟩
  | _, _, .lit hl => by
    simp only [nulFree, Bool.and_eq_true]
    exact ⟨lit_nulAtom hl, trivial⟩
  | _, _, .empty hn => by
    simp only [nulFree, Bool.and_eq_true]
    exact ⟨nulAtom_of_all (nul_empty hn), trivial⟩
  | _, _, .flat hn hi => by
    simp only [nulFree, nulFree_append, itemsP_nulFree hi, nulAtom_of_all (nul_open hn), nulAtom_close,
      Bool.and_self]
  | _, _, .brk k1 k2 hn hi => by
    simp only [nulFree, nulFree_append, itemsP_nulFree hi, nulAtom_of_all (nul_open hn), nulAtom_close,
      nulAtom_comma, Bool.and_self]
  | _, _, .chain _ hl ht => by
    simp only [nulFree_append, layP_nulFree hl, tailP_nulFree ht, Bool.and_self]
theorem tailP_nulFree : ∀ {us : List T} {ps : List Piece}, TailP us ps → nulFree ps = true
  | _, _, .nil => rfl
  | _, _, .cons _ hl ht => by
    simp only [nulFree, nulFree_append, layP_nulFree hl, tailP_nulFree ht, Bool.and_self]
  | _, _, .pipe k _ hl ht => by
    have h1 : nulAtom ['~', '>'] = true := by decide
    simp only [nulFree, nulFree_append, layP_nulFree hl, tailP_nulFree ht, h1, Bool.and_self]
theorem layF_nulFree : ∀ {f : F} {ps : List Piece}, LayF f ps → nulFree ps = true
  | _, _, .unnamed hl => layP_nulFree hl
  | _, _, .named hn hl => by
    have h1 : nulAtom (_ ++ [':']) = true :=
      nulAtom_of_all (by rw [List.all_append, ident_nulFree hn]; decide)
    simp only [nulFree, h1, layP_nulFree hl, Bool.and_self]
theorem itemsP_nulFree : ∀ {bk : Bool} {fs : List F} {ps : List Piece}, ItemsP bk fs ps → nulFree ps = true
  | _, _, _, .one hl => layF_nulFree hl
  | _, _, _, .consFlat hl hi => by
    simp only [nulFree, nulFree_append, layF_nulFree hl, itemsP_nulFree hi, nulAtom_comma, Bool.and_self]
  | _, _, _, .consBrk k hl hi => by
    simp only [nulFree, nulFree_append, layF_nulFree hl, itemsP_nulFree hi, nulAtom_comma, Bool.and_self]
end

/-- the text of a layout is what `print` returns for it -/
theorem strip_layP {t : T} {ps : List Piece} (h : LayP t ps) :
    stripTrailingWhitespace (renderPieces ps) = renderPieces ps := by
  have := layP_tidy h true [] rfl
  rw [List.append_nil] at this
  exact strip_renderPieces this

/-- both post-passes of `format_program` on a layout -/
theorem post_passes_layP {t : T} {ps : List Piece} (h : LayP t ps) :
    collapseBlanks (renderPieces ps) = renderPieces ps ++ ['\n'] ∧
    expandLiterals (renderPieces ps ++ ['\n']) [] = some (renderPieces ps ++ ['\n']) := by
  have ht := layP_tidy h false [] rfl
  rw [List.append_nil] at ht
  exact post_passes ht (layP_nulFree h)

/-! ### 3b. The flat layout, and what `pretty::flatten` returns -/

mutual
/-- the flat layout of a term or chain: everything on one line -/
def flatPs : T → List Piece
  | .leaf n => [.atom n]
  | .acc n p => [.atom (accessText n p)]
  | .int i => [.atom (intText i)]
  | .bin bs => [.atom (binText bs)]
  | .str v => [.atom (strText v)]
  | .tup name fs =>
    if fs.isEmpty then [.atom (emptyText name)] else .atom (openText name) :: (flatItems fs ++ [.atom [']']])
  | .chain t more => flatPs t ++ flatTail more
def flatTail : List T → List Piece
  | [] => []
  | u :: us => .sp :: (flatPs u ++ flatTail us)
def flatField : F → List Piece
  | .mk none t => flatPs t
  | .mk (some l) t => .atom (l ++ [':']) :: .sp :: flatPs t
def flatItems : List F → List Piece
  | [] => []
  | f :: fs => if fs.isEmpty then flatField f else flatField f ++ .atom [','] :: .sp :: flatItems fs
end

mutual
theorem flatPs_lay : (t : T) → T.WF t → LayP t (flatPs t)
  | .leaf n, hwf => by simpa [flatPs] using LayP.leaf hwf
  | .acc n p, hwf => by simpa [flatPs] using LayP.lit (.acc hwf)
  | .int i, _ => by simpa [flatPs] using LayP.lit (.int i)
  | .bin bs, hwf => by simpa [flatPs] using LayP.lit (.bin hwf)
  | .str v, _ => by simpa [flatPs] using LayP.lit (.str v)
  | .tup name [], hwf => by simpa [flatPs] using LayP.empty hwf.1
  | .tup name (f :: fs), hwf => by
    have := flatItems_lay (f :: fs) (by simp) hwf.2
    simpa [flatPs] using LayP.flat hwf.1 this
  | .chain t [], hwf => absurd rfl hwf.1
  | .chain t (u :: us), hwf => by
    simpa [flatPs] using LayP.chain hwf.2.1 (flatPs_lay t hwf.2.2.1) (flatTail_lay (u :: us) hwf.2.2.2)
theorem flatTail_lay : (us : List T) → T.WFTerms us → TailP us (flatTail us)
  | [], _ => by simpa [flatTail] using TailP.nil
  | u :: us, hwf => by
    simpa [flatTail] using TailP.cons hwf.1.1 (flatPs_lay u hwf.1.2) (flatTail_lay us hwf.2)
theorem flatField_lay : (f : F) → F.WF f → LayF f (flatField f)
  | .mk none t, hwf => by simpa [flatField] using LayF.unnamed (flatPs_lay t hwf.2)
  | .mk (some l) t, hwf => by simpa [flatField] using LayF.named hwf.1 (flatPs_lay t hwf.2)
theorem flatItems_lay : (fs : List F) → fs ≠ [] → F.WFList fs → ItemsP false fs (flatItems fs)
  | [], hne, _ => absurd rfl hne
  | [f], _, hwf => by simpa [flatItems] using ItemsP.one (b := false) (flatField_lay f hwf.1)
  | f :: g :: fs, _, hwf => by
    have := ItemsP.consFlat (flatField_lay f hwf.1) (flatItems_lay (g :: fs) (by simp) hwf.2)
    simpa [flatItems] using this
end

/-! `flattenLoop`, one equation per kind of document -/

theorem fl_nil (st : List Doc) : flattenLoop (.nil :: st) = flattenLoop st := by rw [flattenLoop]
theorem fl_softline (st : List Doc) : flattenLoop (.softline :: st) = flattenLoop st := by rw [flattenLoop]
theorem fl_bp (st : List Doc) : flattenLoop (.breakParent :: st) = flattenLoop st := by rw [flattenLoop]
theorem fl_text (s : List Char) (st : List Doc) : flattenLoop (.text s :: st) = s ++ flattenLoop st := by
  rw [flattenLoop]
theorem fl_line (st : List Doc) : flattenLoop (.line :: st) = ' ' :: flattenLoop st := by rw [flattenLoop]
theorem fl_concat (ds st : List Doc) : flattenLoop (.concat ds :: st) = flattenLoop (ds ++ st) := by
  rw [flattenLoop]
theorem fl_nest (n : Nat) (d : Doc) (st : List Doc) : flattenLoop (.nest n d :: st) = flattenLoop (d :: st) := by
  rw [flattenLoop]
theorem fl_group (d : Doc) (sb : Bool) (st : List Doc) :
    flattenLoop (.group d sb :: st) = flattenLoop (d :: st) := by rw [flattenLoop]
theorem fl_ifBreak (b f : Doc) (st : List Doc) : flattenLoop (.ifBreak b f :: st) = flattenLoop (f :: st) := by
  rw [flattenLoop]

/-- `flatten` walks its stack document by document -/
theorem flattenLoop_append (a b : List Doc) : flattenLoop (a ++ b) = flattenLoop a ++ flattenLoop b := by
  refine flattenLoop.induct (motive := fun a => flattenLoop (a ++ b) = flattenLoop a ++ flattenLoop b)
    ?_ ?_ ?_ ?_ ?_ ?_ ?_ ?_ ?_ ?_ ?_ ?_ a
  · simp [flattenLoop]
  · intro ds ih; rw [List.cons_append, fl_nil, fl_nil, ih]
  · intro ds ih; rw [List.cons_append, fl_softline, fl_softline, ih]
  · intro ds ih; rw [List.cons_append, fl_bp, fl_bp, ih]
  · intro ds s ih; rw [List.cons_append, fl_text, fl_text, ih, List.append_assoc]
  · intro ds ih; rw [List.cons_append, fl_line, fl_line, ih]; rfl
  · intro ds ih
    rw [List.cons_append, flattenLoop, ih]
    conv => rhs; rw [flattenLoop]
    rfl
  · intro ds ds1 ih
    rw [List.cons_append, fl_concat, fl_concat, ← List.append_assoc, ih]
  · intro ds n inner ih; rw [List.cons_append, fl_nest, fl_nest, ← List.cons_append, ih]
  · intro ds inner sb ih; rw [List.cons_append, fl_group, fl_group, ← List.cons_append, ih]
  · intro ds inner ih
    rw [List.cons_append, flattenLoop, ← List.cons_append, ih]
    conv => rhs; rw [flattenLoop]
  · intro ds b' fl ih; rw [List.cons_append, fl_ifBreak, fl_ifBreak, ← List.cons_append, ih]

theorem fl_cons (d : Doc) (ds : List Doc) : flattenLoop (d :: ds) = flattenLoop [d] ++ flattenLoop ds := by
  rw [show d :: ds = [d] ++ ds from rfl, flattenLoop_append]

theorem fl1_nil : flattenLoop [.nil] = [] := by rw [fl_nil]; simp [flattenLoop]
theorem fl1_softline : flattenLoop [.softline] = [] := by rw [fl_softline]; simp [flattenLoop]
theorem fl1_bp : flattenLoop [.breakParent] = [] := by rw [fl_bp]; simp [flattenLoop]
theorem fl1_text (s : List Char) : flattenLoop [.text s] = s := by rw [fl_text]; simp [flattenLoop]
theorem fl1_line : flattenLoop [.line] = [' '] := by rw [fl_line]; simp [flattenLoop]
theorem fl1_concat (ds : List Doc) : flattenLoop [.concat ds] = flattenLoop ds := by rw [fl_concat]; simp
theorem fl1_nest (n : Nat) (d : Doc) : flattenLoop [.nest n d] = flattenLoop [d] := by rw [fl_nest]
theorem fl1_group (d : Doc) (sb : Bool) : flattenLoop [.group d sb] = flattenLoop [d] := by rw [fl_group]
theorem fl1_ifBreak (b f : Doc) : flattenLoop [.ifBreak b f] = flattenLoop [f] := by rw [fl_ifBreak]
theorem fl0 : flattenLoop [] = [] := by simp [flattenLoop]

/-- `chain_doc`'s wrapping flattens to what the parts flatten to -/
theorem fl1_groupChain (ds : List Doc) :
    flattenLoop [.concat [.nil, Doc.mkGroup (breakIfWiderThan (.concat ds) chainSoftWidth)]] = flattenLoop ds := by
  rw [fl1_concat, fl_cons, fl1_nil, List.nil_append]
  simp only [Doc.mkGroup, fl1_group]
  unfold breakIfWiderThan
  split
  · rw [fl1_concat]
  · rw [fl1_concat, fl_cons, fl1_concat, fl1_bp, List.append_nil]

theorem termDocs_eq_map (l : List T) : termDocs l = l.map termDoc := by
  induction l with
  | nil => rfl
  | cons t l ih => simp [termDocs, ih]

/-- the further terms of a chain whose last term has the layout `pl`, the others flat -/
def tailWith : List T → List Piece → List Piece
  | [], _ => []
  | u :: us, pl => if us.isEmpty then .sp :: pl else .sp :: (flatPs u ++ tailWith us pl)

theorem tailWith_cons_cons (u v : T) (vs : List T) (pl : List Piece) :
    tailWith (u :: v :: vs) pl = .sp :: (flatPs u ++ tailWith (v :: vs) pl) := by
  rw [tailWith]; simp

theorem tailWith_single (u : T) (pl : List Piece) : tailWith [u] pl = .sp :: pl := by
  rw [tailWith]; simp

theorem wfTerms_mem : ∀ (l : List T), T.WFTerms l → ∀ h ∈ l, isPrim h = true ∧ T.WF h
  | [], _, _, hh => by simp at hh
  | t :: l, hwf, h, hh => by
    simp only [List.mem_cons] at hh
    rcases hh with rfl | hh
    · exact hwf.1
    · exact wfTerms_mem l hwf.2 h hh

theorem getLastD_termDocs (t : T) : ∀ (l : List T) (hne : l ≠ []),
    (termDoc t :: termDocs l).getLastD (termDoc t) = termDoc (l.getLast hne)
  | [], hne => absurd rfl hne
  | [u], _ => by simp [termDocs, List.getLastD]
  | u :: v :: vs, _ => by
    have := getLastD_termDocs u (v :: vs) (by simp)
    simp only [termDocs, List.getLast_cons_cons] at this ⊢
    simpa [List.getLastD] using this

theorem tailWith_lay : ∀ (us : List T) (hne : us ≠ []) (pl : List Piece), T.WFTerms us →
    LayP (us.getLast hne) pl → TailP us (tailWith us pl)
  | [], hne, _, _, _ => absurd rfl hne
  | [u], _, pl, hwf, hl => by
    have := TailP.cons hwf.1.1 (by simpa using hl) TailP.nil
    simpa [tailWith_single] using this
  | u :: v :: vs, _, pl, hwf, hl => by
    have ih := tailWith_lay (v :: vs) (by simp) pl hwf.2 (by simpa using hl)
    have := TailP.cons hwf.1.1 (flatPs_lay u hwf.1.2) ih
    rw [tailWith_cons_cons]; exact this

theorem tailWith_flat : ∀ (us : List T) (hne : us ≠ []), tailWith us (flatPs (us.getLast hne)) = flatTail us
  | [], hne => absurd rfl hne
  | [u], _ => by simp [tailWith_single, flatTail]
  | u :: v :: vs, _ => by
    have := tailWith_flat (v :: vs) (by simp)
    rw [tailWith_cons_cons, List.getLast_cons_cons, this]
    rfl

/-- the flattened head of `chain_doc` and the last term, as text -/
theorem headFlat_render : ∀ (t : T) (more : List T) (hne : more ≠ []) (pl : List Piece),
    (∀ h ∈ t :: more, flatten (termDoc h) = renderPieces (flatPs h)) →
    joinSp (((t :: more).map termDoc).dropLast.map flatten) ++ ' ' :: renderPieces pl =
      renderPieces (flatPs t ++ tailWith more pl)
  | t, [], hne, _, _ => absurd rfl hne
  | t, [u], _, pl, hf => by
    simp [List.dropLast, joinSp, hf t (by simp), tailWith_single, renderPieces_append, renderPieces, Piece.render]
  | t, u :: v :: vs, _, pl, hf => by
    have ih := headFlat_render u (v :: vs) (by simp) pl (fun h hh => hf h (by simp [hh]))
    have hd : ((t :: u :: v :: vs).map termDoc).dropLast =
        termDoc t :: ((u :: v :: vs).map termDoc).dropLast := by simp [List.dropLast]
    rw [hd, List.map_cons]
    have hne' : (((u :: v :: vs).map termDoc).dropLast.map flatten) ≠ [] := by simp [List.dropLast]
    have hj : ∀ (a : Str) (l : List Str), l ≠ [] → joinSp (a :: l) = a ++ ' ' :: joinSp l := by
      intro a l hl; cases l with | nil => exact absurd rfl hl | cons b l => rfl
    rw [hj _ _ hne', List.append_assoc, List.cons_append, ih, hf t (by simp), tailWith_cons_cons]
    simp [renderPieces_append, renderPieces, Piece.render]

mutual
/-- `pretty::flatten` walks `term_doc` to the text of the flat layout -/
theorem flat1_term : (t : T) → T.WF t → flattenLoop [termDoc t] = renderPieces (flatPs t)
  | .leaf n, _ => by simp [termDoc, flatPs, fl1_text, renderPieces, Piece.render]
  | .acc n p, _ => by simp [termDoc, flatPs, fl1_text, renderPieces, Piece.render]
  | .int i, _ => by simp [termDoc, flatPs, fl1_text, renderPieces, Piece.render]
  | .bin bs, _ => by simp [termDoc, flatPs, fl1_text, renderPieces, Piece.render]
  | .str v, _ => by simp [termDoc, flatPs, fl1_text, renderPieces, Piece.render]
  | .tup name [], _ => by simp [termDoc, flatPs, fl1_text, renderPieces, Piece.render]
  | .tup name (f :: fs), hwf => by
    have hi := flat1_items (f :: fs) (by simp) hwf.2
    simp only [termDoc, List.isEmpty_cons, Bool.false_eq_true, if_false, bracketed, Doc.mkGroup, fl1_group,
      fl1_concat, flatPs]
    rw [fl_cons, fl1_text, fl_cons, fl1_nest, fl1_concat, fl_cons, fl1_softline, fl_cons, Doc.join, fl1_concat,
      show Doc.concat [Doc.text [','], Doc.line] = sepDoc from rfl, hi, fl_cons, fl1_ifBreak, fl1_nil, fl0,
      fl_cons, fl1_softline, fl_cons, fl1_text, fl0]
    simp [renderPieces_append, renderPieces, Piece.render]
  | .chain t [], hwf => absurd rfl hwf.1
  | .chain t (u :: us), hwf => by
    obtain ⟨_, hpt, hwt, hwm⟩ := hwf
    have ht := flat1_term t hwt
    have hparts := flat1_parts (isIdent t) (u :: us) hwm
    simp only [termDoc, multiChainDoc, List.map_cons]
    split
    · -- the flattened-head path
      have hflat : ∀ h ∈ t :: u :: us, flatten (termDoc h) = renderPieces (flatPs h) := by
        intro h hh
        have hwh : T.WF h := by
          simp only [List.mem_cons] at hh
          rcases hh with rfl | hh
          · exact hwt
          · exact (wfTerms_mem (u :: us) hwm h (by simpa using hh)).2
        have := flat1_all (t :: u :: us) ⟨⟨hpt, hwt⟩, hwm⟩ h hh
        unfold flatten
        rw [this]
        exact strip_layP (flatPs_lay h hwh)
      have hlast := getLastD_termDocs t (u :: us) (by simp)
      have hlw := flat1_all (u :: us) hwm ((u :: us).getLast (by simp)) (List.getLast_mem _)
      rw [fl1_concat, fl_cons, fl1_nil, List.nil_append, fl_cons, fl1_text, fl_cons, fl1_text, fl_cons, hlast, hlw,
        fl0, List.append_nil]
      have h2 := headFlat_render t (u :: us) (by simp) (flatPs ((u :: us).getLast (by simp))) hflat
      rw [tailWith_flat (u :: us) (by simp)] at h2
      rw [termDocs_eq_map]
      simp only [List.cons_append, List.nil_append, flatPs]
      exact h2
    · simp only [List.map_cons] at hparts
      rw [fl1_groupChain, fl_cons, ht, hparts]
      simp [flatPs, renderPieces_append]
/-- the parts of `chain_terms_doc` flatten to the further terms behind one space each -/
theorem flat1_parts : (prev : Bool) → (more : List T) → T.WFTerms more →
    flattenLoop (chainParts prev (more.map isIdent) (termDocs more)) = renderPieces (flatTail more)
  | _, [], _ => by simp [chainParts, termDocs, flatTail, fl0, renderPieces]
  | prev, u :: us, hwf => by
    have hu := flat1_term u hwf.1.2
    have ih := flat1_parts (isIdent u) us hwf.2
    simp only [List.map_cons, termDocs, chainParts, flatTail]
    cases prev with
    | false =>
      simp only [Bool.false_eq_true, if_false, List.cons_append, List.nil_append]
      rw [fl_cons, fl1_text, fl_cons, hu, ih]
      simp [renderPieces_append, renderPieces, Piece.render]
    | true =>
      simp only [if_true, List.cons_append, List.nil_append]
      rw [fl_cons, fl1_line, fl_cons, fl1_ifBreak, fl1_nil, fl_cons, hu, ih]
      simp [renderPieces_append, renderPieces, Piece.render]
/-- every term of a list flattens to its flat layout -/
theorem flat1_all : (l : List T) → T.WFTerms l → ∀ h ∈ l, flattenLoop [termDoc h] = renderPieces (flatPs h)
  | [], _, _, hh => by simp at hh
  | t :: l, hwf, h, hh => by
    simp only [List.mem_cons] at hh
    rcases hh with rfl | hh
    · exact flat1_term _ hwf.1.2
    · exact flat1_all l hwf.2 h hh
theorem flat1_field : (f : F) → F.WF f → flattenLoop [fieldDocOf f] = renderPieces (flatField f)
  | .mk none t, hwf => by
    have ht := flat1_term t hwf.2
    simp only [fieldDocOf, fieldDoc, flatField, fl1_concat]
    rw [fl_cons, fl1_nil, List.nil_append, fl_cons, fl_cons (Doc.nil), fl1_nil, fl0, List.append_nil,
      List.append_nil]
    split
    · rw [chainDoc, fl1_groupChain, ht]
    · exact ht
  | .mk (some l) t, hwf => by
    have ht := flat1_term t hwf.2
    simp only [fieldDocOf, fieldDoc, flatField, fl1_concat]
    rw [fl_cons, fl1_nil, List.nil_append, fl_cons, fl_cons (Doc.nil), fl1_nil, fl0, List.append_nil,
      List.append_nil, fl1_concat, fl_cons, fl1_text]
    have hv : flattenLoop [if isPrim t = true then chainDoc (termDoc t) else termDoc t] =
        renderPieces (flatPs t) := by
      split
      · rw [chainDoc, fl1_groupChain, ht]
      · exact ht
    rw [hv]
    simp [renderPieces, Piece.render]
theorem flat1_items : (fs : List F) → fs ≠ [] → F.WFList fs →
    flattenLoop (Doc.joinList sepDoc (fieldDocs fs)) = renderPieces (flatItems fs)
  | [], hne, _ => absurd rfl hne
  | [f], _, hwf => by
    simp only [fieldDocs, Doc.joinList, flatItems, List.isEmpty_nil, if_true]
    exact flat1_field f hwf.1
  | f :: g :: fs, _, hwf => by
    have hf := flat1_field f hwf.1
    have ih := flat1_items (g :: fs) (by simp) hwf.2
    have hj : Doc.joinList sepDoc (fieldDocs (f :: g :: fs)) =
        fieldDocOf f :: sepDoc :: Doc.joinList sepDoc (fieldDocs (g :: fs)) := by
      simp [fieldDocs, Doc.joinList]
    rw [hj, fl_cons, hf, fl_cons, ih, sepDoc, fl1_concat, fl_cons, fl1_text, fl1_line]
    simp [flatItems, renderPieces_append, renderPieces, Piece.render]
end

/-- `pretty::flatten(term_doc(t))` is the text of the flat layout of `t` -/
theorem flatten_termDoc (t : T) (hwf : T.WF t) : flatten (termDoc t) = renderPieces (flatPs t) := by
  unfold flatten
  rw [flat1_term t hwf]
  exact strip_layP (flatPs_lay t hwf)

/-! ### 3c. The engine prints a layout: terms, chains, fields -/

/-- `chain_doc` of a field value or step -/
theorem printsAs_chainDocOf {t : T} (h : PrintsAs (termDoc t) (LayP t)) :
    PrintsAs (if isPrim t = true then chainDoc (termDoc t) else termDoc t) (LayP t) := by
  split
  · exact printsAs_chainDoc h
  · exact h

/-- what the tail lemma says: the parts of `chain_terms_doc` after the first term print the further
    terms, each behind one space -/
def TailPrintsAs (prev : Bool) (more : List T) : Prop :=
  FramesPrintAs (chainParts prev (more.map isIdent) (termDocs more)) (TailP more)

theorem tailPrintsAs_nil (prev : Bool) : TailPrintsAs prev [] := by
  intro w col i m st
  exact ⟨[], [], col, by simp [chainParts, termDocs, mkFrames], rfl, .nil⟩

theorem tailPrintsAs_cons {prev : Bool} {u : T} {us : List T} (hp : isPrim u = true)
    (hu : PrintsAs (termDoc u) (LayP u)) (ht : TailPrintsAs (isIdent u) us) :
    TailPrintsAs prev (u :: us) := by
  intro w col i m st
  cases prev with
  | false =>
    simp only [List.map_cons, termDocs, chainParts, Bool.false_eq_true, if_false, List.cons_append,
      List.nil_append, mkFrames, pl_text]
    obtain ⟨ps', ps, col1, hq, hr, hl⟩ := hu w (col + [' '].length) i m
      (mkFrames i m (chainParts (isIdent u) (us.map isIdent) (termDocs us)) ++ st)
    obtain ⟨rs', rs, col2, hq2, hr2, hrest⟩ := ht w col1 i m st
    rw [hq, hq2]
    exact ⟨.atom [' '] :: (ps' ++ rs'), .sp :: (ps ++ rs), col2, by simp,
      by simp [renderPieces_append, renderPieces, Piece.render, hr, hr2], .cons hp hl hrest⟩
  | true =>
    simp only [List.map_cons, termDocs, chainParts, if_true, List.cons_append, List.nil_append, mkFrames]
    cases m with
    | flat =>
      rw [pl_line_flat, pl_ifBreak_flat, pl_nil]
      obtain ⟨ps', ps, col1, hq, hr, hl⟩ := hu w (col + 1) i .flat
        (mkFrames i .flat (chainParts (isIdent u) (us.map isIdent) (termDocs us)) ++ st)
      obtain ⟨rs', rs, col2, hq2, hr2, hrest⟩ := ht w col1 i .flat st
      rw [hq, hq2]
      exact ⟨.sp :: (ps' ++ rs'), .sp :: (ps ++ rs), col2, by simp,
        by simp [renderPieces_append, renderPieces, hr, hr2], .cons hp hl hrest⟩
    | brk =>
      rw [pl_line_brk, pl_ifBreak_brk, pl_text]
      obtain ⟨ps', ps, col1, hq, hr, hl⟩ := hu w (i + ['~', '>', ' '].length) i .brk
        (mkFrames i .brk (chainParts (isIdent u) (us.map isIdent) (termDocs us)) ++ st)
      obtain ⟨rs', rs, col2, hq2, hr2, hrest⟩ := ht w col1 i .brk st
      rw [hq, hq2]
      exact ⟨.nl i :: .atom ['~', '>', ' '] :: (ps' ++ rs'), .nl i :: .atom ['~', '>'] :: .sp :: (ps ++ rs), col2,
        by simp, by simp [renderPieces_append, renderPieces, Piece.render, hr, hr2], .pipe i hp hl hrest⟩

/-- the last term of a non-empty list, as `getLastD` with any default -/
theorem getLastD_cons_cons (a b : T) (l : List T) (d : T) : (a :: b :: l).getLastD d = (b :: l).getLastD a := by
  simp [List.getLastD]

mutual
/-- Whatever the width, the column, the indentation, the mode of the enclosing group and the rest of
    the stack: the engine prints `termDoc t` as one of the layouts of `t`, then goes on with the rest. -/
theorem printLoop_term : (t : T) → T.WF t → PrintsAs (termDoc t) (LayP t)
  | .leaf n, hwf => by
    intro w col i m st
    simp only [termDoc, pl_text]
    exact ⟨[.atom n], [.atom n], col + n.length, by simp, rfl, .leaf hwf⟩
  | .acc n p, hwf => by
    intro w col i m st
    simp only [termDoc, pl_text]
    exact ⟨[.atom (accessText n p)], [.atom (accessText n p)], col + (accessText n p).length, by simp, rfl,
      .lit (.acc hwf)⟩
  | .int i, _ => by
    intro w col i' m st
    simp only [termDoc, pl_text]
    exact ⟨[.atom (intText i)], [.atom (intText i)], col + (intText i).length, by simp, rfl, .lit (.int i)⟩
  | .bin bs, hwf => by
    intro w col i m st
    simp only [termDoc, pl_text]
    exact ⟨[.atom (binText bs)], [.atom (binText bs)], col + (binText bs).length, by simp, rfl, .lit (.bin hwf)⟩
  | .str v, _ => by
    intro w col i m st
    simp only [termDoc, pl_text]
    exact ⟨[.atom (strText v)], [.atom (strText v)], col + (strText v).length, by simp, rfl, .lit (.str v)⟩
  | .tup name [], hwf => by
    intro w col i m st
    simp only [termDoc, List.isEmpty_nil, if_true, pl_text]
    exact ⟨[.atom (emptyText name)], [.atom (emptyText name)], col + (emptyText name).length, by simp, rfl,
      .empty hwf.1⟩
  | .tup name (f :: fs), hwf => by
    have h := printLoop_items (f :: fs) (by simp) hwf.2
    have := printsAs_bracketed hwf.1 h
    simpa [termDoc] using this
  | .chain t [], hwf => absurd rfl hwf.1
  | .chain t (u :: us), hwf => by
    obtain ⟨_, hpt, hwt, hwm⟩ := hwf
    have ht := printLoop_term t hwt
    have htail := printLoop_tail (isIdent t) (u :: us) hwm
    simp only [termDoc, multiChainDoc, List.map_cons]
    split
    · -- a chain ending in a container: the head flattened onto one line, then the container
      have hlastmem := List.getLast_mem (l := u :: us) (by simp)
      have hwl := wfTerms_mem (u :: us) hwm _ hlastmem
      have hlp := printLoop_all (u :: us) hwm _ hlastmem
      have hflat : ∀ h ∈ t :: u :: us, flatten (termDoc h) = renderPieces (flatPs h) := by
        intro h hh
        simp only [List.mem_cons] at hh
        rcases hh with rfl | hh
        · exact flatten_termDoc _ hwt
        · exact flatten_termDoc _ (wfTerms_mem (u :: us) hwm h (by simpa using hh)).2
      intro w col i m st
      rw [pl_concat]
      simp only [mkFrames, List.cons_append, List.nil_append, pl_nil, pl_text]
      rw [getLastD_termDocs t (u :: us) (by simp)]
      obtain ⟨ps', ps, col1, hq, hr, hl⟩ := hlp w
        (col + (joinSp (List.map flatten (termDoc t :: termDocs (u :: us)).dropLast)).length + [' '].length) i m st
      rw [hq]
      have h2 := headFlat_render t (u :: us) (by simp) ps hflat
      rw [← termDocs_eq_map] at h2
      refine ⟨.atom (joinSp (List.map flatten (termDoc t :: termDocs (u :: us)).dropLast)) :: .atom [' '] :: ps',
        flatPs t ++ tailWith (u :: us) ps, col1, by simp, ?_,
        .chain hpt (flatPs_lay t hwt) (tailWith_lay (u :: us) (by simp) ps hwm hl)⟩
      rw [← h2]
      simp [renderPieces, Piece.render, hr, termDocs]
    · refine (printsAs_groupChain ?_)
      intro w col i m st
      simp only [mkFrames, List.cons_append]
      obtain ⟨ps', ps, col1, hq, hr, hl⟩ := ht w col i m
        (mkFrames i m (chainParts (isIdent t) (isIdent u :: us.map isIdent) (termDocs (u :: us))) ++ st)
      obtain ⟨rs', rs, col2, hq2, hr2, hrs⟩ := htail w col1 i m st
      simp only [List.map_cons] at hq2
      rw [hq, hq2]
      exact ⟨ps' ++ rs', ps ++ rs, col2, by simp, by simp [renderPieces_append, hr, hr2], .chain hpt hl hrs⟩
/-- every term of a list -/
theorem printLoop_all : (l : List T) → T.WFTerms l → ∀ h ∈ l, PrintsAs (termDoc h) (LayP h)
  | [], _, _, hh => by simp at hh
  | t :: l, hwf, h, hh => by
    simp only [List.mem_cons] at hh
    rcases hh with rfl | hh
    · exact printLoop_term _ hwf.1.2
    · exact printLoop_all l hwf.2 h hh
/-- the further terms of a chain; `prev` = the term before them is a call-ender -/
theorem printLoop_tail : (prev : Bool) → (more : List T) → T.WFTerms more → TailPrintsAs prev more
  | prev, [], _ => tailPrintsAs_nil prev
  | _, u :: us, hwf =>
    tailPrintsAs_cons hwf.1.1 (printLoop_term u hwf.1.2) (printLoop_tail (isIdent u) us hwf.2)
theorem printLoop_field : (f : F) → F.WF f → PrintsAs (fieldDocOf f) (LayF f)
  | .mk none t, hwf => by
    have := printsAs_fieldDoc (printsAs_chainDocOf (printLoop_term t hwf.2))
    simpa [fieldDocOf] using this.mono (fun ps h => LayF.unnamed h)
  | .mk (some l) t, hwf => by
    have := printsAs_fieldDoc (printsAs_labelled hwf.1 (printsAs_chainDocOf (printLoop_term t hwf.2)))
    simpa [fieldDocOf] using this
theorem printLoop_items : (fs : List F) → fs ≠ [] → F.WFList fs → ItemsPrintAs fs
  | [], hne, _ => absurd rfl hne
  | [f], _, hwf => itemsPrintAs_one (printLoop_field f hwf.1)
  | f :: g :: fs, _, hwf =>
    itemsPrintAs_cons (printLoop_field f hwf.1) (printLoop_items (g :: fs) (by simp) hwf.2)
end

/-! ### 4. The parser reads a layout back -/

/-- how a layout can start: `[`, a lower-case letter (identifier, field label), an upper-case letter
    (tuple name), a digit or `-` (literal) -/
def headCls (c : Char) : Bool := c == '[' || isLower c || isUpper c || isDigit c || c == '-' || c == '"'

def HeadOk (s : Str) : Prop := ∃ c r, s = c :: r ∧ headCls c = true

/-- none of the characters that matter to the white-space and separator parsers starts a layout -/
theorem headCls_ne {c : Char} (h : headCls c = true) (d : Char)
    (hd : d.toNat < 34 ∨ d.toNat = 40 ∨ d.toNat = 44 ∨ d.toNat = 47 ∨ d.toNat = 126) : c ≠ d := by
  intro e; subst e
  simp only [headCls, Bool.or_eq_true, beq_iff_eq, isLower, isUpper, isDigit, Bool.and_eq_true,
    decide_eq_true_eq] at h
  rcases h with ((((h | h) | h) | h) | h) | h
  · subst h; revert hd; decide
  · omega
  · omega
  · omega
  · subst h; revert hd; decide
  · subst h; revert hd; decide

theorem HeadOk.append {s : Str} (h : HeadOk s) (x : Str) : HeadOk (s ++ x) := by
  obtain ⟨c, r, rfl, hc⟩ := h
  exact ⟨c, r ++ x, rfl, hc⟩

theorem headOk_ident {n : Str} (h : isIdentStr n = true) : HeadOk n := by
  cases n with
  | nil => simp [isIdentStr] at h
  | cons c r =>
    simp only [isIdentStr, Bool.and_eq_true] at h
    exact ⟨c, r, rfl, by simp [headCls, h.1]⟩

theorem headOk_tupleName {n : Str} (h : isTupleNameStr n = true) : HeadOk n := by
  cases n with
  | nil => simp [isTupleNameStr] at h
  | cons c r =>
    simp only [isTupleNameStr, Bool.and_eq_true] at h
    exact ⟨c, r, rfl, by simp [headCls, h.1]⟩

theorem headOk_open {name : Option Str} (hn : optOk isTupleNameStr name) (x : Str) :
    HeadOk (openText name ++ x) := by
  cases name with
  | none => exact ⟨'[', x, rfl, by decide⟩
  | some n => simpa [openText] using (headOk_tupleName hn).append ('[' :: x)

theorem layP_head : ∀ {t : T} {ps : List Piece}, LayP t ps → HeadOk (renderPieces ps)
  | _, _, .leaf hn => by simpa [renderPieces, Piece.render] using headOk_ident hn
  | _, _, .lit (t := t) hl => by
    cases ht : t with
    | acc n p =>
      subst ht
      cases hl with
      | acc hwf => simpa [renderPieces, Piece.render, accessText] using (headOk_ident hwf.1).append (pathText p)
    | _ =>
      obtain ⟨c, r, rfl, hc⟩ := lit_head hl (by intro n p e; rw [ht] at e; cases e)
      refine ⟨c, r ++ [], by simp [renderPieces, Piece.render], ?_⟩
      rcases hc with hc | rfl | rfl
      · simp [headCls, hc]
      · decide
      · decide
  | _, _, .empty (name := name) hn => by
    cases name with
    | none => exact ⟨'[', _, rfl, by decide⟩
    | some n => simpa [renderPieces, Piece.render, emptyText] using headOk_tupleName hn
  | _, _, .flat hn _ => headOk_open hn _
  | _, _, .brk k1 k2 hn _ => headOk_open hn _
  | _, _, .chain _ hl _ => by
    rw [renderPieces_append]
    exact (layP_head hl).append _

theorem layF_head {f : F} {ps : List Piece} (h : LayF f ps) : HeadOk (renderPieces ps) := by
  cases h with
  | unnamed hl => exact layP_head hl
  | named hn hl =>
    rename_i l t ps0
    have := ((headOk_ident hn).append [':']).append (' ' :: renderPieces ps0)
    simpa [renderPieces, Piece.render] using this

theorem itemsP_head {bk : Bool} {fs : List F} {ps : List Piece} (h : ItemsP bk fs ps) :
    HeadOk (renderPieces ps) := by
  cases h with
  | one hl => exact layF_head hl
  | consFlat hl _ => rw [renderPieces_append]; exact (layF_head hl).append _
  | consBrk k hl _ => rw [renderPieces_append]; exact (layF_head hl).append _

theorem headAll_cons (f : Char → Bool) (c : Char) (r : Str) : headAll f (c :: r) = f c := rfl

theorem headOk_stop {s : Str} (h : HeadOk s) :
    headAll (fun c => !isMultispace c && c != '/') s = true := by
  obtain ⟨c, r, rfl, hc⟩ := h
  have h1 := headCls_ne hc ' ' (by decide)
  have h2 := headCls_ne hc '\t' (by decide)
  have h3 := headCls_ne hc '\r' (by decide)
  have h4 := headCls_ne hc '\n' (by decide)
  have h5 := headCls_ne hc '/' (by decide)
  simp [headAll, isMultispace, h1, h2, h3, h4, h5]

theorem headOk_not_ms {s : Str} (h : HeadOk s) : s.dropWhile isMultispace = s := by
  have := headOk_stop h
  obtain ⟨c, r, rfl, _⟩ := h
  simp only [headAll_cons, Bool.and_eq_true, Bool.not_eq_true'] at this
  simp [this.1]

theorem skipWsc_ms {c : Char} (h : isMultispace c = true) (R : Str) :
    skipWsc false (c :: R) = skipWsc false R := by
  conv => lhs; unfold skipWsc
  simp only [Bool.false_eq_true, if_false, h, if_true]

theorem skipWsc_sp (R : Str) : skipWsc false (' ' :: R) = skipWsc false R := skipWsc_ms (by decide) R

theorem skipWsc_spaces (k : Nat) (R : Str) : skipWsc false (List.replicate k ' ' ++ R) = skipWsc false R := by
  induction k with
  | zero => simp
  | succ k ih => rw [List.replicate_succ, List.cons_append, skipWsc_sp, ih]

theorem skipWsc_nl (k : Nat) (R : Str) :
    skipWsc false ('\n' :: (List.replicate k ' ' ++ R)) = skipWsc false R := by
  rw [skipWsc_ms (by decide), skipWsc_spaces]

theorem wsc_headOk {s : Str} (h : HeadOk s) : wsc s = .ok () s := wsc_of_head (headOk_stop h)
theorem wsc_sp_headOk {s : Str} (h : HeadOk s) : wsc (' ' :: s) = .ok () s := by
  simp [wsc, skipWsc_sp, skipWsc_of_head (headOk_stop h)]
theorem wsc_nl_headOk (k : Nat) {s : Str} (h : HeadOk s) :
    wsc ('\n' :: (List.replicate k ' ' ++ s)) = .ok () s := by
  simp [wsc, skipWsc_nl, skipWsc_of_head (headOk_stop h)]

theorem headOk_close (rest : Str) : headAll (fun c => !isMultispace c && c != '/') (']' :: rest) = true := by
  rw [headAll_cons]; decide
theorem headOk_comma (rest : Str) : headAll (fun c => !isMultispace c && c != '/') (',' :: rest) = true := by
  rw [headAll_cons]; decide

/-- What may follow a term of the fragment: nothing that continues a name or a number (`IdStop`: no
    identifier character), opens a field list (`[`), makes the term a field label (`:`), a decimal or
    a fraction (`.`, `/`), continues a run of hex digits, or — after white space — starts a partial
    pattern (`(`). -/
def Stop (rest : Str) : Prop :=
  IdStop rest ∧
    headAll (fun c => c != '[' && c != ':' && c != '.' && c != '/' && c != '"' && !isHexDigit c) rest = true ∧
    headAll (fun c => c != '(') (rest.dropWhile isMultispace) = true

theorem stop_comma (r : Str) : Stop (',' :: r) := by
  refine ⟨by simp [IdStop]; decide, by rw [headAll_cons]; decide, ?_⟩
  rw [show (',' :: r).dropWhile isMultispace = ',' :: r by
    rw [List.dropWhile_cons, show isMultispace ',' = false by decide]; rfl, headAll_cons]
  decide
theorem stop_close (r : Str) : Stop (']' :: r) := by
  refine ⟨by simp [IdStop]; decide, by rw [headAll_cons]; decide, ?_⟩
  rw [show (']' :: r).dropWhile isMultispace = ']' :: r by
    rw [List.dropWhile_cons, show isMultispace ']' = false by decide]; rfl, headAll_cons]
  decide
theorem stop_nil : Stop [] := ⟨trivial, rfl, rfl⟩
theorem stop_nl : Stop ['\n'] := by
  refine ⟨by simp [IdStop]; decide, by rw [headAll_cons]; decide, by decide⟩

theorem Stop.not {rest : Str} (h : Stop rest) (d : Char)
    (hd : (d != '[' && d != ':' && d != '.' && d != '/' && d != '"' && !isHexDigit d) = false) :
    headAll (fun c => c != d) rest = true := by
  have := h.2.1
  cases rest with
  | nil => rfl
  | cons c t =>
    rw [headAll_cons] at this ⊢
    simp only [bne_iff_ne, ne_eq]
    intro e
    subst e
    rw [hd] at this
    exact Bool.noConfusion this

theorem Stop.noBody {rest : Str} (h : Stop rest) : ∀ c t, rest = c :: t → isIdentBody c = false := by
  intro c t e; subst e; exact h.1.1

/-! the separator of `chain_inner` -/

theorem sound_hspace1 : Sound hspace1 := by
  intro i
  unfold hspace1
  split
  · split
    · exact List.IsSuffix.trans (List.dropWhile_suffix _) (List.suffix_cons _ _)
    · exact List.suffix_refl _
  · exact List.suffix_refl _

theorem sound_chainSep : Sound chainSep :=
  Sound.alt (Sound.seq Sound.ws1 (Sound.seq (Sound.ptag _) Sound.ws1)) sound_hspace1

theorem chainP_sound {term : P T} (h : Sound term) : Sound (chainP term) :=
  Sound.pmap (Sound.sepList1 sound_chainSep h)

theorem sepList1_cons {α β : Type} {sep : P β} {p : P α} {i r r' : Str} {a : α} {as : List α}
    (h : p i = .ok a r) (ht : sepTail sep p r = .ok as r') :
    sepList1 sep p i = .ok (a :: as) r' := by
  unfold sepTail at ht; simp [sepList1, h, ht]

theorem sepList1_fails {α β : Type} {sep : P β} {p : P α} {i : Str} (h : Fails p i) :
    Fails (sepList1 sep p) i := by
  obtain ⟨e, c, h⟩ := h
  exact ⟨e, c, by simp [sepList1, h]⟩

/-- `~>` does not start a layout -/
theorem ptag_pipe_fails {s : Str} (h : HeadOk s ∨ s = []) : Fails (ptag ['~', '>']) s := by
  rcases h with ⟨c, r, rfl, hc⟩ | rfl
  · exact ptag_fails_of_head rfl (by
      rw [headAll_cons]; simpa using (headCls_ne hc '~' (by decide)))
  · exact ⟨[], .tag, by simp [ptag, isPrefix]⟩

/-- one space between two terms of a chain -/
theorem chainSep_sp {s : Str} (h : HeadOk s) : chainSep (' ' :: s) = .ok () s := by
  have hws : ws1 (' ' :: s) = .ok () s := by
    simp [ws1, show isMultispace ' ' = true by decide, headOk_not_ms h]
  have h1 : Fails (seq ws1 (seq (ptag ['~', '>']) ws1)) (' ' :: s) :=
    Fails.seq_ok hws (Fails.seq (ptag_pipe_fails (.inl h)))
  unfold chainSep
  rw [alt_of_fails h1]
  obtain ⟨c, r, rfl, hc⟩ := h
  have hc1 : c ≠ ' ' := headCls_ne hc ' ' (by decide)
  have hc2 : c ≠ '\t' := headCls_ne hc '\t' (by decide)
  simp [hspace1, Parse.isHspace, hc1, hc2]

/-- What may follow a CHAIN: what may follow a term, and nothing the chain separator would accept. -/
def StopC (rest : Str) : Prop := Stop rest ∧ Fails chainSep rest

theorem chainSep_fails_of_head {c : Char} {r : Str} (h : isMultispace c = false) : Fails chainSep (c :: r) := by
  have h1 : Fails ws1 (c :: r) := ⟨c :: r, .multispace, by simp [ws1, h]⟩
  have h2 : Fails hspace1 (c :: r) := by
    refine ⟨c :: r, .space, ?_⟩
    have : Parse.isHspace c = false := by
      simp only [isMultispace, Bool.or_eq_false_iff, decide_eq_false_iff_not] at h
      simp [Parse.isHspace, h.1.1.1, h.1.1.2]
    simp [hspace1, this]
  exact Fails.alt (Fails.seq h1) h2

theorem chainSep_fails_nil : Fails chainSep [] :=
  Fails.alt (Fails.seq ⟨[], .multispace, by simp [ws1]⟩) ⟨[], .space, by simp [hspace1]⟩

/-- a line break (with the next line's indentation) ends a chain unless `~>` follows -/
theorem chainSep_fails_nl (k : Nat) {s : Str} (h : HeadOk s ∨ s = []) :
    Fails chainSep ('\n' :: (List.replicate k ' ' ++ s)) := by
  have hdrop : (List.replicate k ' ' ++ s).dropWhile isMultispace = s := by
    induction k with
    | zero =>
      rcases h with h | rfl
      · simpa using headOk_not_ms h
      · rfl
    | succ k ih =>
      rw [List.replicate_succ, List.cons_append, List.dropWhile_cons, show isMultispace ' ' = true by decide]
      simpa using ih
  have hws : ws1 ('\n' :: (List.replicate k ' ' ++ s)) = .ok () s := by
    simp [ws1, show isMultispace '\n' = true by decide, hdrop]
  refine Fails.alt (Fails.seq_ok hws (Fails.seq (ptag_pipe_fails h))) ?_
  exact ⟨'\n' :: (List.replicate k ' ' ++ s), .space, by simp [hspace1, Parse.isHspace]⟩

theorem stopC_comma (r : Str) : StopC (',' :: r) := ⟨stop_comma r, chainSep_fails_of_head (by decide)⟩
theorem stopC_close (r : Str) : StopC (']' :: r) := ⟨stop_close r, chainSep_fails_of_head (by decide)⟩
theorem stopC_nil : StopC [] := ⟨stop_nil, chainSep_fails_nil⟩
theorem stopC_nl : StopC ['\n'] := ⟨stop_nl, by simpa using chainSep_fails_nl 0 (s := []) (.inr rfl)⟩

/-- a single term is a chain -/
theorem chainP_prim {term : P T} {i rest : Str} {t : T} (h : term i = .ok t rest)
    (hend : Fails chainSep rest) : chainP term i = .ok t rest := by
  unfold chainP
  rw [pmap_ok (sepList1_cons h (sepTail_of_fails hend))]

theorem chainP_fails {term : P T} {i : Str} (h : Fails term i) : Fails (chainP term) i :=
  Fails.pmap (sepList1_fails h)

theorem sound_commaWsc : Sound commaWsc :=
  Sound.seq Sound.wsc (Sound.seq (Sound.pchar _) Sound.wsc)

theorem fieldP_sound {term : P T} (h : Sound term) : Sound (fieldP term) :=
  Sound.alt
    (Sound.bind Sound.identifier fun _ => Sound.seq (Sound.pchar _) (Sound.seq Sound.ws1 (Sound.pmap h)))
    (Sound.pmap h)

theorem bracketsP_sound {field : P F} (h : Sound field) : Sound (bracketsP field) :=
  Sound.delimited (Sound.seq (Sound.pchar _) Sound.wsc)
    (Sound.before (Sound.sepList0 sound_commaWsc h) (Sound.opt (Sound.seq Sound.wsc (Sound.pchar _))))
    (Sound.seq Sound.wsc (Sound.pchar _))

theorem tupleP_sound {field : P F} (h : Sound field) : Sound (tupleP field) :=
  Sound.alt (Sound.bind Sound.tupleName fun _ => Sound.pmap (bracketsP_sound h))
    (Sound.alt (Sound.pmap (bracketsP_sound h))
      (Sound.bind Sound.tupleName fun _ => Sound.pmap (Sound.peekNot _)))

theorem sound_digit1 : Sound digit1 := by
  intro i
  unfold digit1
  simp only []
  split
  · exact List.suffix_refl _
  · exact List.dropWhile_suffix _

theorem sound_integerP : Sound integerP :=
  Sound.bind (Sound.opt (Sound.pchar _)) fun _ => Sound.pmap sound_digit1

theorem sound_binaryP : Sound binaryP := by
  refine Sound.seq (Sound.ptag _) ?_
  intro i
  simp only []
  split
  · exact List.dropWhile_suffix _
  · exact List.suffix_refl _

theorem sound_literalP : Sound literalP :=
  Sound.alt (Sound.pmap sound_binaryP) (Sound.pmap sound_integerP)

theorem sound_stringP : Sound stringP := by
  intro i
  unfold stringP
  split
  · rename_i body
    split
    · exact List.suffix_refl _
    · split
      · rename_i text rest he
        exact List.IsSuffix.trans (stringSegments_closed_suffix _ _ _ he) (List.suffix_cons _ _)
      · exact List.suffix_refl _
  · exact List.suffix_refl _

theorem sound_accessorP : Sound accessorP :=
  Sound.alt (Sound.pmap Sound.usize) (Sound.pmap Sound.identifier)

theorem sound_accessP : Sound accessP :=
  Sound.bind Sound.identifier fun _ => Sound.pmap (Sound.many0 (Sound.seq (Sound.pchar _) sound_accessorP))

theorem accessP_fails {s : Str} (h : Fails identifier s) : Fails accessP s := Fails.bind h

theorem termP_sound : ∀ n, Sound (termP n)
  | 0 => fun _ => trivial
  | n + 1 =>
    Sound.alt sound_stringP (Sound.alt sound_literalP
      (Sound.alt (tupleP_sound (fieldP_sound (chainP_sound (termP_sound n)))) sound_accessP))

/-- `string_term` fails on a text that does not start with a quote -/
theorem stringP_fails {s : Str} (h : headAll (· ≠ '"') s = true) : Fails stringP s := by
  refine ⟨s, .char, ?_⟩
  cases s with
  | nil => rfl
  | cons c r =>
    have : c ≠ '"' := by simpa [headAll] using h
    unfold stringP
    split
    · rename_i body heq
      exact absurd (List.cons.inj heq).1 this
    · rfl

theorem notLit_split {s : Str} (h : headAll (fun c => !isDigit c && c != '-' && c != '"') s = true) :
    headAll (fun c => !isDigit c && c != '-') s = true ∧ headAll (· ≠ '"') s = true := by
  cases s with
  | nil => exact ⟨rfl, rfl⟩
  | cons c r =>
    simp only [headAll_cons, Bool.and_eq_true, Bool.not_eq_true', bne_iff_ne, ne_eq] at h
    simp only [headAll_cons, Bool.and_eq_true, Bool.not_eq_true', bne_iff_ne, ne_eq, decide_eq_true_eq]
    exact ⟨⟨h.1.1, h.1.2⟩, h.2⟩

/-- `literal` fails on a text that starts with neither a digit nor `-` -/
theorem literalP_fails {s : Str} (h : headAll (fun c => !isDigit c && c != '-' && c != '"') s = true) :
    Fails literalP s := by
  have h := (notLit_split h).1
  have h0 : headAll (· ≠ '0') s = true := by
    cases s with
    | nil => rfl
    | cons c r =>
      simp only [headAll_cons, Bool.and_eq_true, Bool.not_eq_true', bne_iff_ne, ne_eq] at h
      simp only [headAll_cons, decide_eq_true_eq]
      intro e; subst e; exact absurd h.1 (by decide)
  have hm : Fails (pchar '-') s := by
    cases s with
    | nil => exact pchar_nil '-'
    | cons c r =>
      simp only [headAll_cons, Bool.and_eq_true, Bool.not_eq_true', bne_iff_ne, ne_eq] at h
      exact pchar_ne h.2 r
  have hd : Fails digit1 s := by
    refine ⟨s, .digit, ?_⟩
    cases s with
    | nil => simp [digit1]
    | cons c r =>
      simp only [headAll_cons, Bool.and_eq_true, Bool.not_eq_true'] at h
      simp [digit1, h.1]
  refine Fails.alt (Fails.pmap (Fails.seq (ptag_fails_of_head rfl h0))) (Fails.pmap ?_)
  unfold integerP
  exact Fails.bind_ok (opt_of_fails hm) (Fails.pmap hd)

/-- `primary` on a text that is not a literal -/
theorem termP_notLit {n : Nat} {s : Str} (h : headAll (fun c => !isDigit c && c != '-' && c != '"') s = true) :
    termP (n + 1) s = alt (tupleP (fieldP (chainP (termP n)))) accessP s := by
  show alt stringP (alt literalP _) s = _
  rw [alt_of_fails (stringP_fails (notLit_split h).2), alt_of_fails (literalP_fails h)]

theorem notLit_lower {c : Char} (h : isLower c = true) (r : Str) :
    headAll (fun c => !isDigit c && c != '-' && c != '"') (c :: r) = true := by
  have := lower_ne h '-' (by decide)
  have hq := lower_ne h '"' (by decide)
  simp only [isLower, Bool.and_eq_true, decide_eq_true_eq] at h
  simp only [headAll_cons, isDigit, Bool.and_eq_true, Bool.not_eq_true', Bool.and_eq_false_iff,
    decide_eq_false_iff_not, bne_iff_ne, ne_eq]
  exact ⟨⟨by omega, this⟩, hq⟩

theorem notLit_upper {c : Char} (h : isUpper c = true) (r : Str) :
    headAll (fun c => !isDigit c && c != '-' && c != '"') (c :: r) = true := by
  have := upper_ne h '-' (by decide)
  have hq := upper_ne h '"' (by decide)
  simp only [isUpper, Bool.and_eq_true, decide_eq_true_eq] at h
  simp only [headAll_cons, isDigit, Bool.and_eq_true, Bool.not_eq_true', Bool.and_eq_false_iff,
    decide_eq_false_iff_not, bne_iff_ne, ne_eq]
  exact ⟨⟨by omega, this⟩, hq⟩

theorem notLit_ident {n : Str} (h : isIdentStr n = true) (x : Str) :
    headAll (fun c => !isDigit c && c != '-' && c != '"') (n ++ x) = true := by
  cases n with
  | nil => simp [isIdentStr] at h
  | cons c r =>
    simp only [isIdentStr, Bool.and_eq_true] at h
    exact notLit_lower h.1 _

theorem notLit_tupleName {n : Str} (h : isTupleNameStr n = true) (x : Str) :
    headAll (fun c => !isDigit c && c != '-' && c != '"') (n ++ x) = true := by
  cases n with
  | nil => simp [isTupleNameStr] at h
  | cons c r =>
    simp only [isTupleNameStr, Bool.and_eq_true] at h
    exact notLit_upper h.1 _

theorem notLit_open {name : Option Str} (hn : optOk isTupleNameStr name) (x : Str) :
    headAll (fun c => !isDigit c && c != '-' && c != '"') (openText name ++ x) = true := by
  cases name with
  | none => simp only [openText, Option.getD_none, List.nil_append, List.cons_append, headAll_cons]; decide
  | some n => simpa [openText] using notLit_tupleName hn ('[' :: x)

theorem bracketsP_fails {field : P F} {s : Str} (h : headAll (· ≠ '[') s = true) :
    Fails (bracketsP field) s :=
  Fails.delimited (Fails.seq (pchar_fails_of_head h))

/-- the tuple alternatives fail on a text that starts with neither `[` nor an upper-case letter -/
theorem tupleP_fails {field : P F} {s : Str} (h1 : headAll (· ≠ '[') s = true)
    (h2 : headAll (fun c => !isUpper c) s = true) : Fails (tupleP field) s :=
  Fails.alt (Fails.bind (tupleName_fails_of_head h2))
    (Fails.alt (Fails.pmap (bracketsP_fails h1)) (Fails.bind (tupleName_fails_of_head h2)))

/-- the term parser fails on a closing bracket -/
theorem termP_fails_close (n : Nat) (rest : Str) : Fails (termP (n + 1)) (']' :: rest) :=
  Fails.alt (stringP_fails (by rw [headAll_cons]; decide))
    (Fails.alt (literalP_fails (by rw [headAll_cons]; decide))
      (Fails.alt (tupleP_fails (by rw [headAll_cons]; decide) (by rw [headAll_cons]; decide))
        (accessP_fails (identifier_fails_of_head (by rw [headAll_cons]; decide)))))

theorem termP_fails_nil (n : Nat) : Fails (termP (n + 1)) [] :=
  Fails.alt (stringP_fails rfl) (Fails.alt (literalP_fails rfl)
    (Fails.alt (tupleP_fails rfl rfl) (accessP_fails (identifier_fails_of_head rfl))))

theorem fieldP_fails_close (n : Nat) (rest : Str) : Fails (fieldP (chainP (termP (n + 1)))) (']' :: rest) :=
  Fails.alt (Fails.bind (identifier_fails_of_head (by rw [headAll_cons]; decide)))
    (Fails.pmap (termP_fails_close n rest))

theorem commaWsc_fails_close (rest : Str) : Fails commaWsc (']' :: rest) :=
  Fails.seq_ok (wsc_of_head (headOk_close rest)) (Fails.seq (pchar_ne (by decide) rest))

/-- `separated_list`'s loop stops *before* a separator that is not followed by an item (the trailing
    comma of a broken tuple) -/
theorem sepTail_item_fails {α β : Type} {sep : P β} {p : P α} {i i1 : Str} {b : β}
    (h : sep i = .ok b i1) (hl : i1.length < i.length) (hp : Fails p i1) :
    sepTail sep p i = .ok [] i := by
  obtain ⟨e, c, hp⟩ := hp
  have : ¬ i1.length = i.length := by omega
  simp [sepTail, sepLoop, h, this, hp]

theorem commaWsc_sp {s : Str} (h : HeadOk s) : commaWsc (',' :: ' ' :: s) = .ok () s := by
  unfold commaWsc
  rw [seq_ok (wsc_of_head (headOk_comma _)), seq_ok (pchar_self ',' _)]
  exact wsc_sp_headOk h

theorem commaWsc_nl (k : Nat) {s : Str} (h : HeadOk s) :
    commaWsc (',' :: '\n' :: (List.replicate k ' ' ++ s)) = .ok () s := by
  unfold commaWsc
  rw [seq_ok (wsc_of_head (headOk_comma _)), seq_ok (pchar_self ',' _)]
  exact wsc_nl_headOk k h

theorem commaWsc_nl_close (k : Nat) (rest : Str) :
    commaWsc (',' :: '\n' :: (List.replicate k ' ' ++ ']' :: rest)) = .ok () (']' :: rest) := by
  unfold commaWsc
  rw [seq_ok (wsc_of_head (headOk_comma _)), seq_ok (pchar_self ',' _)]
  simp [wsc, skipWsc_nl, skipWsc_of_head (headOk_close rest)]

theorem bracketsP_ok {field : P F} {R r1 r2 rest : Str} {fs : List F} {o : Option Unit}
    (h0 : wsc R = .ok () r1)
    (h1 : sepList0 commaWsc field r1 = .ok fs r2)
    (h2 : opt (seq wsc (pchar ',')) r2 = .ok o (']' :: rest) ∨
          ∃ g, opt (seq wsc (pchar ',')) r2 = .ok o g ∧ seq wsc (pchar ']') g = .ok () rest) :
    bracketsP field ('[' :: R) = .ok fs rest := by
  unfold bracketsP delimited
  rw [seq_ok (r := r1) (a := ()) (by rw [seq_ok (pchar_self '[' R)]; exact h0)]
  rcases h2 with h2 | ⟨g, h2, h3⟩
  · exact before_ok (before_ok h1 h2)
      (by rw [seq_ok (wsc_of_head (headOk_close rest))]; exact pchar_self ']' rest)
  · exact before_ok (before_ok h1 h2) h3

/-- the name in front of the field list -/
theorem tupleP_open {field : P F} {name : Option Str} {R rest : Str} {fs : List F}
    (hn : optOk isTupleNameStr name) (h : bracketsP field ('[' :: R) = .ok fs rest) :
    tupleP field (openText name ++ R) = .ok (.tup name fs) rest := by
  unfold tupleP
  cases name with
  | none =>
    simp only [openText, Option.getD_none, List.nil_append, List.cons_append]
    rw [alt_of_fails (Fails.bind (tupleName_fails_of_head (by rw [headAll_cons]; decide)))]
    exact alt_of_ok (pmap_ok h)
  | some n =>
    simp only [openText, Option.getD_some, List.append_assoc, List.cons_append, List.nil_append]
    refine alt_of_ok ?_
    rw [bind_ok (tupleName_append hn (by intro c t e; cases e; decide))]
    exact pmap_ok h

/-- a bare tuple name -/
theorem tupleP_bare {field : P F} {n rest : Str} (hn : isTupleNameStr n = true) (hs : Stop rest) :
    tupleP field (n ++ rest) = .ok (.tup (some n) []) rest := by
  unfold tupleP
  have hname := tupleName_append hn hs.noBody
  have hup : headAll (· ≠ '[') (n ++ rest) = true := by
    cases n with
    | nil => simp [isTupleNameStr] at hn
    | cons c r =>
      simp only [isTupleNameStr, Bool.and_eq_true] at hn
      have := upper_ne hn.1 '[' (by decide)
      simp [headAll, this]
  have hb : headAll (· ≠ '[') rest = true := by
    have := hs.not '[' (by decide)
    cases rest with
    | nil => rfl
    | cons c t => simpa [headAll] using this
  rw [alt_of_fails (Fails.bind_ok hname (Fails.pmap (bracketsP_fails hb)))]
  rw [alt_of_fails (Fails.pmap (bracketsP_fails hup))]
  rw [bind_ok hname]
  refine pmap_ok (a := ()) (peekNot_of_fails ?_)
  refine Fails.seq_ok (r := rest.dropWhile isMultispace) (a := ()) (by simp [ws0]) (pchar_fails_of_head ?_)
  have := hs.2.2
  cases hd : rest.dropWhile isMultispace with
  | nil => rfl
  | cons c t => rw [hd, headAll_cons] at this; simpa [headAll] using this

theorem Stop.noDigit {rest : Str} (h : Stop rest) : ∀ c t, rest = c :: t → isDigit c = false := by
  intro c t e
  have := h.noBody c t e
  simp only [isIdentBody, Bool.or_eq_false_iff] at this
  exact this.1.2

theorem Stop.noHex {rest : Str} (h : Stop rest) : ∀ c t, rest = c :: t → isHexDigit c = false := by
  intro c t e; subst e
  have := h.2.1
  simp only [headAll_cons, Bool.and_eq_true, Bool.not_eq_true'] at this
  exact this.2

/-- `tag("0x")` fails on a run of digits followed by something that is not an `x` -/
theorem ptag0x_fails_digits {ds rest : Str} (h : ds.all isDigit = true) (hne : ds ≠ [])
    (hr : headAll (· ≠ 'x') rest = true) : Fails (ptag ['0', 'x']) (ds ++ rest) := by
  refine ⟨ds ++ rest, .tag, ?_⟩
  cases ds with
  | nil => exact absurd rfl hne
  | cons d ds =>
    cases ds with
    | nil =>
      cases rest with
      | nil => simp [ptag, isPrefix]
      | cons c t =>
        have : ¬ 'x' = c := by simp [headAll] at hr; exact fun e => hr e.symm
        simp [ptag, isPrefix, this]
    | cons d2 ds =>
      simp only [List.all_cons, Bool.and_eq_true] at h
      have : ¬ 'x' = d2 := by intro e; subst e; exact absurd h.2.1 (by decide)
      simp [ptag, isPrefix, this]

/-- `literal` reads the text of a literal leaf back -/
theorem literalP_lit {t : T} {s rest : Str} (h : LitText t s) (hns : ∀ v, t ≠ .str v)
    (hna : ∀ n p, t ≠ .acc n p) (hs : Stop rest) :
    literalP (s ++ rest) = .ok t rest := by
  unfold literalP
  cases h with
  | str v => exact (hns v rfl).elim
  | acc _ => exact (hna _ _ rfl).elim
  | int i =>
    obtain ⟨h1, h2, h3⟩ := natDigits_spec i.natAbs
    have hx : headAll (· ≠ 'x') rest = true := by
      cases rest with
      | nil => rfl
      | cons c t =>
        have := hs.noBody c t rfl
        simp only [headAll_cons, decide_eq_true_eq]
        intro e; subst e; exact absurd this (by decide)
    have htw := takeWhile_append_stop h1 hs.noDigit
    have hdig : digit1 (Parse.natDigits i.natAbs ++ rest) = .ok (Parse.natDigits i.natAbs) rest := by
      have hne : (Parse.natDigits i.natAbs).isEmpty = false := by
        cases hd : Parse.natDigits i.natAbs with
        | nil => exact absurd hd h2
        | cons c r => rfl
      simp [digit1, htw.1, htw.2, hne]
    unfold intText
    split
    · rename_i hneg
      have hbin : Fails binaryP ('-' :: Parse.natDigits i.natAbs ++ rest) := by
        unfold binaryP
        exact Fails.seq (ptag_fails_of_head rfl (by rw [List.cons_append, headAll_cons]; decide))
      rw [alt_of_fails (Fails.pmap hbin)]
      refine pmap_ok ?_
      unfold integerP
      rw [List.cons_append, bind_ok (opt_ok (pchar_self '-' _)), pmap_ok hdig]
      simp only [Option.isSome_some, if_true, h3]
      congr 1
      omega
    · rename_i hpos
      have hbin : Fails binaryP (Parse.natDigits i.natAbs ++ rest) := by
        unfold binaryP
        exact Fails.seq (ptag0x_fails_digits h1 h2 hx)
      rw [alt_of_fails (Fails.pmap hbin)]
      refine pmap_ok ?_
      unfold integerP
      have hm : Fails (pchar '-') (Parse.natDigits i.natAbs ++ rest) := by
        cases hd : Parse.natDigits i.natAbs with
        | nil => exact absurd hd h2
        | cons c r =>
          rw [hd] at h1
          simp only [List.all_cons, Bool.and_eq_true] at h1
          exact pchar_ne (by intro e; subst e; exact absurd h1.1 (by decide)) _
      rw [bind_ok (opt_of_fails hm), pmap_ok hdig]
      simp only [Option.isSome_none, Bool.false_eq_true, if_false, h3]
      congr 1
      omega
  | bin hb =>
    rename_i bs
    refine alt_of_ok (pmap_ok ?_)
    unfold binaryP
    have hall := hexText_all (p := isHexDigit) (fun k => by simp [isHexDigit, (hexChar_facts k).1]) _ hb
    have htw := takeWhile_append_stop hall hs.noHex
    rw [show binText bs ++ rest = ['0', 'x'] ++ (hexText bs ++ rest) from rfl, seq_ok (ptag_append _ _)]
    simp only [htw.1, htw.2, parseHexNat_hexText bs hb]

theorem lit_ident_fails {t : T} {s : Str} (h : LitText t s) (hna : ∀ n p, t ≠ .acc n p) (x : Str) :
    Fails identifier (s ++ x) := by
  obtain ⟨c, r, rfl, hc⟩ := lit_head h hna
  refine identifier_fails_of_head ?_
  rw [List.cons_append, headAll_cons]
  rcases hc with hc | rfl | rfl
  · simp only [isDigit, isLower, Bool.and_eq_true, decide_eq_true_eq] at hc ⊢
    simp only [Bool.not_eq_true', Bool.and_eq_false_iff, decide_eq_false_iff_not]
    omega
  · decide
  · decide

theorem startsTripleQuote_false {X : Str} (h : headAll (· ≠ '"') X = true) :
    startsTripleQuote ('"' :: X) = false := by
  cases X with
  | nil => rfl
  | cons c r =>
    have : c ≠ '"' := by simpa [headAll] using h
    unfold startsTripleQuote
    split
    · rename_i heq
      exact absurd (List.cons.inj (List.cons.inj heq).2).1 this
    · rfl

/-- `string_term` reads a single-line string without holes back -/
theorem stringP_str (v : Str) {rest : Str} (hs : Stop rest) :
    stringP (strText v ++ rest) = .ok (.str v) rest := by
  have hsplit : strText v ++ rest = '"' :: (escapeSingle v ++ '"' :: rest) := by simp [strText]
  have htq : startsTripleQuote ('"' :: (escapeSingle v ++ '"' :: rest)) = false := by
    rcases escapeSingle_head v ('"' :: rest) with h | h
    · exact startsTripleQuote_false h
    · subst h
      have hr := hs.not '"' (by decide)
      simp only [escapeSingle, List.nil_append]
      cases rest with
      | nil => rfl
      | cons c r =>
        have : c ≠ '"' := by simpa [headAll] using hr
        unfold startsTripleQuote
        split
        · rename_i heq
          exact absurd (List.cons.inj (List.cons.inj (List.cons.inj heq).2).2).1 this
        · rfl
  rw [hsplit]
  unfold stringP
  simp only [htq, Bool.false_eq_true, if_false, stringSegments_escapeSingle]

/-! accesses -/

theorem idStop_dot (r : Str) : IdStop ('.' :: r) := by simp [IdStop]; decide

theorem pathText_head : ∀ (p : List Acc), p ≠ [] → ∃ r, pathText p = '.' :: r
  | [], h => absurd rfl h
  | a :: p, _ => by cases a <;> exact ⟨_, rfl⟩

/-- what may follow an accessor: the next `.`, or what may follow the term -/
def AccStop (r : Str) : Prop := IdStop r ∧ ∀ c t, r = c :: t → isDigit c = false

theorem accStop_dot (r : Str) : AccStop ('.' :: r) :=
  ⟨idStop_dot r, by intro c t e; cases e; decide⟩

theorem accStop_of_stop {r : Str} (h : Stop r) : AccStop r := ⟨h.1, h.noDigit⟩

theorem accStop_path (p : List Acc) {rest : Str} (h : Stop rest) : AccStop (pathText p ++ rest) := by
  cases p with
  | nil => exact accStop_of_stop h
  | cons a p =>
    obtain ⟨r, hr⟩ := pathText_head (a :: p) (by simp)
    rw [hr]; exact accStop_dot _

theorem accessorP_acc {a : Acc} {rest : Str}
    (ha : match a with
      | .field f => isIdentStr f = true
      | .index i => i < 2 ^ 64) (hs : AccStop rest) :
    seq (pchar '.') accessorP (accText a ++ rest) = .ok a rest := by
  cases a with
  | field f =>
    simp only [accText, List.cons_append]
    rw [seq_ok (pchar_self '.' _)]
    unfold accessorP
    have hu : Fails (pmap usize Acc.index) (f ++ rest) := by
      refine Fails.pmap ⟨f ++ rest, .digit, ?_⟩
      cases f with
      | nil => simp [isIdentStr] at ha
      | cons c r =>
        simp only [isIdentStr, Bool.and_eq_true] at ha
        have hc : isDigit c = false := by
          have := ha.1
          simp only [isLower, isDigit, Bool.and_eq_true, decide_eq_true_eq] at this ⊢
          simp only [Bool.and_eq_false_iff, decide_eq_false_iff_not]
          omega
        simp [usize, hc]
    rw [alt_of_fails hu]
    exact pmap_ok (identifier_append ha hs.1)
  | index i =>
    simp only [accText, List.cons_append]
    rw [seq_ok (pchar_self '.' _)]
    unfold accessorP
    exact alt_of_ok (pmap_ok (usize_append ha hs.2))

theorem path_many0 : ∀ (p : List Acc) {rest : Str},
    (∀ a ∈ p, match a with
      | .field f => isIdentStr f = true
      | .index i => i < 2 ^ 64) → Stop rest →
    many0 (seq (pchar '.') accessorP) (pathText p ++ rest) = .ok p rest
  | [], rest, _, hs => by
    refine many0_of_fails (Fails.seq ?_)
    have := hs.not '.' (by decide)
    cases rest with
    | nil => exact pchar_nil '.'
    | cons c t => exact pchar_ne (by simpa [headAll] using this) t
  | a :: p, rest, h, hs => by
    have ha := h a (by simp)
    have ih := path_many0 p (rest := rest) (fun x hx => h x (by simp [hx])) hs
    have hstep := accessorP_acc (a := a) (rest := pathText p ++ rest) ha (accStop_path p hs)
    simp only [pathText, List.append_assoc]
    refine many0_cons (Sound.seq (Sound.pchar _) sound_accessorP) hstep ?_ ih
    cases a <;> simp [accText, List.length_append] <;> omega

/-- `access` reads an identifier with accessors back -/
theorem accessP_acc {n : Str} {p : List Acc} {rest : Str} (hwf : T.WF (.acc n p)) (hs : Stop rest) :
    accessP (accessText n p ++ rest) = .ok (.acc n p) rest := by
  obtain ⟨hn, hne, hp⟩ := hwf
  unfold accessP
  obtain ⟨r, hr⟩ := pathText_head p hne
  have hid : identifier (n ++ (pathText p ++ rest)) = .ok n (pathText p ++ rest) :=
    identifier_append hn (by rw [hr]; exact idStop_dot _)
  simp only [accessText, List.append_assoc]
  rw [bind_ok hid, pmap_ok (path_many0 p hp hs)]
  cases p with
  | nil => exact absurd rfl hne
  | cons a p => rfl

/-- `access` reads a bare identifier back -/
theorem accessP_leaf {n rest : Str} (hn : isIdentStr n = true) (hs : Stop rest) :
    accessP (n ++ rest) = .ok (.leaf n) rest := by
  unfold accessP
  rw [bind_ok (identifier_append hn hs.1)]
  have := path_many0 [] (rest := rest) (by intro a ha; simp at ha) hs
  simp only [pathText, List.nil_append] at this
  rw [pmap_ok this]
  rfl

/-- `primary` reads a literal leaf back -/
theorem termP_lit {t : T} {s rest : Str} (h : LitText t s) (hs : Stop rest) (n : Nat) :
    termP (n + 1) (s ++ rest) = .ok t rest := by
  show alt stringP (alt literalP _) _ = _
  cases h with
  | int i =>
    obtain ⟨c, r, hcr, hc⟩ := lit_head (.int i) (by intro n p e; cases e)
    have hq : headAll (· ≠ '"') (intText i ++ rest) = true := by
      rw [hcr, List.cons_append, headAll_cons]
      rcases hc with hc | rfl | rfl
      · simp only [decide_eq_true_eq]; intro e; subst e; exact absurd hc (by decide)
      · decide
      · exact absurd hcr (by
          unfold intText; split
          · intro e; exact absurd (List.cons.inj e).1 (by decide)
          · intro e
            obtain ⟨h1, _, _⟩ := natDigits_spec i.natAbs
            rw [e] at h1
            simp only [List.all_cons, Bool.and_eq_true] at h1
            exact absurd h1.1 (by decide))
    rw [alt_of_fails (stringP_fails hq)]
    exact alt_of_ok (literalP_lit (.int i) (by intro v e; cases e) (by intro n p e; cases e) hs)
  | bin hb =>
    rw [alt_of_fails (stringP_fails (by simp [binText, headAll]))]
    exact alt_of_ok (literalP_lit (.bin hb) (by intro v e; cases e) (by intro n p e; cases e) hs)
  | str v => exact alt_of_ok (stringP_str v hs)
  | acc hwf =>
    rename_i nm p
    have hnl := notLit_ident hwf.1 (pathText p ++ rest)
    have hsplit : accessText nm p ++ rest = nm ++ (pathText p ++ rest) := by simp [accessText]
    rw [hsplit, alt_of_fails (stringP_fails (notLit_split hnl).2), alt_of_fails (literalP_fails hnl)]
    rw [← hsplit]
    have hlow : ∃ c r, nm = c :: r ∧ isLower c = true := by
      cases nm with
      | nil => exact absurd hwf.1 (by simp [isIdentStr])
      | cons c r =>
        have := hwf.1
        simp only [isIdentStr, Bool.and_eq_true] at this
        exact ⟨c, r, rfl, this.1⟩
    obtain ⟨c, r, rfl, hc⟩ := hlow
    rw [alt_of_fails]
    · exact accessP_acc hwf hs
    · refine tupleP_fails ?_ ?_
      · simp [accessText, headAll, lower_ne hc '[' (by decide)]
      · simp only [accessText, List.cons_append, headAll_cons, Bool.not_eq_true']
        simp only [isUpper, isLower, Bool.and_eq_true, decide_eq_true_eq] at hc ⊢
        simp only [Bool.and_eq_false_iff, decide_eq_false_iff_not]
        omega

/-- what `items_lay` provides: the first item, then the loop of `separated_list0` over the others -/
def ItemsRead (n : Nat) (fs : List F) (s rest : Str) : Prop :=
  ∃ f fs' r1, fs = f :: fs' ∧ fieldP (chainP (termP n)) (s ++ rest) = .ok f r1 ∧
    sepTail commaWsc (fieldP (chainP (termP n))) r1 = .ok fs' rest

/-- the named-field alternative fails on an unnamed field (at the first character, or at the `:`) -/
theorem namedAlt_fails_prim {term : P T} {t : T} {ps : List Piece} {rest : Str} (h : LayP t ps)
    (hprim : isPrim t = true) (hs : Stop rest) :
    Fails (bind identifier fun n => seq (pchar ':') (seq ws1 (pmap term (F.mk (some n)))))
      (renderPieces ps ++ rest) := by
  have hcolon : Fails (pchar ':') rest := by
    have := hs.not ':' (by decide)
    cases rest with
    | nil => exact pchar_nil ':'
    | cons c t => exact pchar_ne (by simpa [headAll] using this) t
  have hup : ∀ {n : Str} (x : Str), isTupleNameStr n = true → Fails identifier (n ++ x) := by
    intro n x hn
    cases n with
    | nil => simp [isTupleNameStr] at hn
    | cons c r =>
      simp only [isTupleNameStr, Bool.and_eq_true] at hn
      refine identifier_fails_of_head ?_
      simp only [List.cons_append, headAll_cons, Bool.not_eq_true']
      simp only [isUpper, isLower, Bool.and_eq_true, decide_eq_true_eq] at hn ⊢
      simp only [Bool.and_eq_false_iff, decide_eq_false_iff_not]
      omega
  have hopen : ∀ {name : Option Str} (x : Str), optOk isTupleNameStr name →
      Fails identifier (openText name ++ x) := by
    intro name x hn
    cases name with
    | none => exact identifier_fails_of_head (by simp [openText, headAll]; decide)
    | some n => simpa [openText] using hup ('[' :: x) hn
  cases h with
  | leaf hn =>
    simp only [renderPieces, Piece.render, List.append_nil]
    exact Fails.bind_ok (identifier_append hn hs.1) (Fails.seq hcolon)
  | lit hl =>
    simp only [renderPieces, Piece.render, List.append_nil]
    cases hl with
    | acc hwf =>
      rename_i n p
      obtain ⟨r, hr⟩ := pathText_head p hwf.2.1
      simp only [accessText, List.append_assoc]
      rw [hr, List.cons_append]
      exact Fails.bind_ok (identifier_append hwf.1 (idStop_dot _)) (Fails.seq (pchar_ne (by decide) _))
    | int i => exact Fails.bind (lit_ident_fails (.int i) (by intro n p e; cases e) rest)
    | bin hb => exact Fails.bind (lit_ident_fails (.bin hb) (by intro n p e; cases e) rest)
    | str v => exact Fails.bind (lit_ident_fails (.str v) (by intro n p e; cases e) rest)
  | empty hn =>
    rename_i name
    cases name with
    | none => exact Fails.bind (identifier_fails_of_head (by simp [renderPieces, Piece.render, emptyText, headAll]; decide))
    | some n =>
      simp only [renderPieces, Piece.render, emptyText, List.append_nil]
      exact Fails.bind (hup rest hn)
  | flat hn _ =>
    simp only [renderPieces, Piece.render, List.append_assoc]
    exact Fails.bind (hopen _ hn)
  | brk k1 k2 hn _ =>
    simp only [renderPieces, Piece.render, List.append_assoc]
    exact Fails.bind (hopen _ hn)
  | chain _ _ _ => simp [isPrim] at hprim

/-- a term may be followed by a space and another term -/
theorem stop_sp {s : Str} (h : HeadOk s) : Stop (' ' :: s) := by
  refine ⟨by simp [IdStop]; decide, by rw [headAll_cons]; decide, ?_⟩
  rw [List.dropWhile_cons, show isMultispace ' ' = true by decide]
  simp only [if_true]
  rw [headOk_not_ms h]
  obtain ⟨c, r, rfl, hc⟩ := h
  rw [headAll_cons]
  simpa using headCls_ne hc '(' (by decide)

/-- a term may be followed by a continuation line `⏎~> …` -/
theorem stop_pipe (k : Nat) (x : Str) : Stop ('\n' :: (List.replicate k ' ' ++ '~' :: '>' :: x)) := by
  refine ⟨by simp [IdStop]; decide, by rw [headAll_cons]; decide, ?_⟩
  have : ('\n' :: (List.replicate k ' ' ++ '~' :: '>' :: x)).dropWhile isMultispace = '~' :: '>' :: x := by
    rw [List.dropWhile_cons, show isMultispace '\n' = true by decide]
    simp only [if_true]
    induction k with
    | zero => simp [show isMultispace '~' = false by decide]
    | succ k ih =>
      rw [List.replicate_succ, List.cons_append, List.dropWhile_cons, show isMultispace ' ' = true by decide]
      simpa using ih
  rw [this, headAll_cons]
  decide

/-- the continuation separator `⏎~> ` -/
theorem chainSep_pipe (k : Nat) {s : Str} (h : HeadOk s) :
    chainSep ('\n' :: (List.replicate k ' ' ++ '~' :: '>' :: ' ' :: s)) = .ok () s := by
  have hdrop : (List.replicate k ' ' ++ '~' :: '>' :: ' ' :: s).dropWhile isMultispace = '~' :: '>' :: ' ' :: s := by
    induction k with
    | zero => simp [show isMultispace '~' = false by decide]
    | succ k ih =>
      rw [List.replicate_succ, List.cons_append, List.dropWhile_cons, show isMultispace ' ' = true by decide]
      simpa using ih
  have hws : ws1 ('\n' :: (List.replicate k ' ' ++ '~' :: '>' :: ' ' :: s)) = .ok () ('~' :: '>' :: ' ' :: s) := by
    simp [ws1, show isMultispace '\n' = true by decide, hdrop]
  have hws2 : ws1 (' ' :: s) = .ok () s := by
    simp [ws1, show isMultispace ' ' = true by decide, headOk_not_ms h]
  unfold chainSep
  refine alt_of_ok ?_
  rw [seq_ok hws]
  have ht : ptag ['~', '>'] ('~' :: '>' :: ' ' :: s) = .ok () (' ' :: s) := ptag_append ['~', '>'] (' ' :: s)
  rw [seq_ok ht]
  exact hws2

theorem tailP_stop {us : List T} {ps : List Piece} (h : TailP us ps) {rest : Str} (hs : Stop rest) :
    Stop (renderPieces ps ++ rest) := by
  cases h with
  | nil => simpa [renderPieces] using hs
  | @cons u us ps0 rest0 _ hl _ =>
    have := stop_sp (((layP_head hl).append (renderPieces rest0)).append rest)
    simpa [renderPieces, Piece.render, renderPieces_append] using this
  | @pipe u us ps0 rest0 k _ hl _ =>
    have := stop_pipe k (' ' :: (renderPieces ps0 ++ (renderPieces rest0 ++ rest)))
    simpa [renderPieces, Piece.render, renderPieces_append] using this

/-- the named-field alternative fails on any unnamed field value -/
theorem namedAlt_fails {term : P T} {t : T} {ps : List Piece} {rest : Str} (h : LayP t ps) (hs : Stop rest) :
    Fails (bind identifier fun n => seq (pchar ':') (seq ws1 (pmap term (F.mk (some n)))))
      (renderPieces ps ++ rest) := by
  cases hp : isPrim t with
  | true => exact namedAlt_fails_prim h hp hs
  | false =>
    cases h with
    | chain hpt hl ht =>
      rw [renderPieces_append, List.append_assoc]
      exact namedAlt_fails_prim hl hpt (tailP_stop ht hs)
    | leaf _ => simp [isPrim] at hp
    | lit hl => cases hl <;> simp [isPrim] at hp
    | empty _ => simp [isPrim] at hp
    | flat _ _ => simp [isPrim] at hp
    | brk _ _ _ _ => simp [isPrim] at hp

theorem idStop_colon (r : Str) : IdStop (':' :: r) := by simp [IdStop]; decide

theorem render_open (name : Option Str) (X : List Piece) (rest : Str) :
    renderPieces (.atom (openText name) :: X) ++ rest = openText name ++ (renderPieces X ++ rest) := by
  simp [renderPieces, Piece.render]

theorem openText_length (name : Option Str) : 0 < (openText name).length := by simp [openText]

mutual
/-- The fragment parser reads every layout of `t` back as `t` (with enough fuel for the text, and
    provided what follows cannot be taken for a continuation of the term, `Stop`). -/
theorem termP_lay : ∀ {t : T} {ps : List Piece}, LayP t ps → isPrim t = true → ∀ (n : Nat) (rest : Str),
    (renderPieces ps).length < n → Stop rest → termP n (renderPieces ps ++ rest) = .ok t rest
  | _, _, .leaf (n := name) hn, _, n, rest, hlen, hstop => by
    cases n with
    | zero => omega
    | succ n =>
      simp only [renderPieces, Piece.render, List.append_nil]
      rw [termP_notLit (notLit_ident hn rest), alt_of_fails]
      · exact accessP_leaf hn hstop
      · cases name with
        | nil => simp [isIdentStr] at hn
        | cons c r =>
          simp only [isIdentStr, Bool.and_eq_true] at hn
          refine tupleP_fails ?_ ?_
          · simp [headAll, lower_ne hn.1 '[' (by decide)]
          · simp only [List.cons_append, headAll_cons, Bool.not_eq_true']
            have := hn.1
            simp only [isUpper, isLower, Bool.and_eq_true, decide_eq_true_eq] at this ⊢
            simp only [Bool.and_eq_false_iff, decide_eq_false_iff_not]
            omega
  | _, _, .chain _ _ _, hp, _, _, _, _ => by simp [isPrim] at hp
  | _, _, .lit hl, _, n, rest, hlen, hstop => by
    cases n with
    | zero => omega
    | succ n =>
      simp only [renderPieces, Piece.render, List.append_nil]
      exact termP_lit hl hstop n
  | _, _, .empty (name := name) hn, _, n, rest, hlen, hstop => by
    cases n with
    | zero => omega
    | succ n =>
      cases name with
      | some nm =>
        simp only [renderPieces, Piece.render, emptyText, List.append_nil]
        rw [termP_notLit (notLit_tupleName hn rest)]
        exact alt_of_ok (tupleP_bare hn hstop)
      | none =>
        cases n with
        | zero => simp [renderPieces, Piece.render, emptyText] at hlen
        | succ n =>
          have hs : renderPieces [.atom (emptyText none)] ++ rest = openText none ++ (']' :: rest) := by
            simp [renderPieces, Piece.render, emptyText, openText]
          rw [hs, termP_notLit (notLit_open (name := none) trivial _)]
          refine alt_of_ok (tupleP_open (name := none) trivial
            (bracketsP_ok (o := none) (wsc_of_head (headOk_close rest))
              (sepList0_of_fails (fieldP_fails_close n rest)) (.inl ?_)))
          exact opt_of_fails (Fails.seq_ok (wsc_of_head (headOk_close rest)) (pchar_ne (by decide) rest))
  | _, _, .flat (name := name) (items := items) hn hi, _, n, rest, hlen, _ => by
    cases n with
    | zero => omega
    | succ n =>
      have hs : renderPieces (.atom (openText name) :: (items ++ [.atom [']']])) ++ rest =
          openText name ++ (renderPieces items ++ ']' :: rest) := by
        simp [renderPieces, Piece.render, renderPieces_append]
      have hl : (renderPieces items).length < n := by
        have := openText_length name
        simp [renderPieces, Piece.render, renderPieces_append] at hlen; omega
      rw [hs]
      obtain ⟨f', fs', r1, heq, hf, ht⟩ := items_lay hi n (']' :: rest) hl (stopC_close rest)
        (sepTail_of_fails (commaWsc_fails_close rest))
      rw [termP_notLit (notLit_open hn _)]
      refine alt_of_ok (tupleP_open hn (bracketsP_ok (o := none) (wsc_headOk ((itemsP_head hi).append _))
        (by rw [heq]; exact sepList0_cons hf ht) (.inl ?_)))
      exact opt_of_fails (Fails.seq_ok (wsc_of_head (headOk_close rest)) (pchar_ne (by decide) rest))
  | _, _, .brk (name := name) (items := items) k1 k2 hn hi, _, n, rest, hlen, _ => by
    cases n with
    | zero => omega
    | succ n =>
      have hs : renderPieces (.atom (openText name) :: .nl k1 ::
            (items ++ [.atom [','], .nl k2, .atom [']']])) ++ rest =
          openText name ++ ('\n' :: (List.replicate k1 ' ' ++
            (renderPieces items ++ ',' :: '\n' :: (List.replicate k2 ' ' ++ ']' :: rest)))) := by
        simp [renderPieces, Piece.render, renderPieces_append]
      have hl : (renderPieces items).length < n := by
        have := openText_length name
        simp [renderPieces, Piece.render, renderPieces_append] at hlen; omega
      rw [hs]
      cases n with
      | zero => omega
      | succ m =>
        have hend : sepTail commaWsc (fieldP (chainP (termP (m + 1))))
              (',' :: '\n' :: (List.replicate k2 ' ' ++ ']' :: rest)) =
            .ok [] (',' :: '\n' :: (List.replicate k2 ' ' ++ ']' :: rest)) :=
          sepTail_item_fails (commaWsc_nl_close k2 rest) (by simp; omega) (fieldP_fails_close m rest)
        obtain ⟨f', fs', r1, heq, hf, ht⟩ := items_lay hi (m + 1) _ hl (stopC_comma _) hend
        rw [termP_notLit (notLit_open hn _)]
        refine alt_of_ok (tupleP_open hn (bracketsP_ok (o := some ())
          (wsc_nl_headOk k1 ((itemsP_head hi).append _))
          (by rw [heq]; exact sepList0_cons hf ht)
          (.inr ⟨'\n' :: (List.replicate k2 ' ' ++ ']' :: rest), ?_, ?_⟩)))
        · exact opt_ok (by rw [seq_ok (wsc_of_head (headOk_comma _))]; exact pchar_self ',' _)
        · rw [seq_ok (r := ']' :: rest) (a := ())
            (by simp [wsc, skipWsc_nl, skipWsc_of_head (headOk_close rest)])]
          exact pchar_self ']' rest
/-- `chain` reads the layout of a chain of several terms back -/
theorem chain_lay : ∀ {t : T} {ps : List Piece}, LayP t ps → isPrim t = false → ∀ (n : Nat) (rest : Str),
    (renderPieces ps).length < n → StopC rest → chainP (termP n) (renderPieces ps ++ rest) = .ok t rest
  | _, _, .chain (ps := ps) (rest := rs) hp hl ht, _, n, rest, hlen, hs => by
    have hl1 : (renderPieces ps).length < n ∧ (renderPieces rs).length < n := by
      simp [renderPieces_append] at hlen; omega
    rw [renderPieces_append, List.append_assoc]
    unfold chainP
    rw [pmap_ok (sepList1_cons (termP_lay hl hp n _ hl1.1 (tailP_stop ht hs.1)) (tail_lay ht n rest hl1.2 hs))]
  | _, _, .leaf _, hp, _, _, _, _ => by simp [isPrim] at hp
  | _, _, .lit hl, hp, _, _, _, _ => by cases hl <;> simp [isPrim] at hp
  | _, _, .empty _, hp, _, _, _, _ => by simp [isPrim] at hp
  | _, _, .flat _ _, hp, _, _, _, _ => by simp [isPrim] at hp
  | _, _, .brk _ _ _ _, hp, _, _, _, _ => by simp [isPrim] at hp
/-- the loop of `separated_list1(chainSep, primary)` over the further terms -/
theorem tail_lay : ∀ {us : List T} {ps : List Piece}, TailP us ps → ∀ (n : Nat) (rest : Str),
    (renderPieces ps).length < n → StopC rest →
    sepTail chainSep (termP n) (renderPieces ps ++ rest) = .ok us rest
  | _, _, .nil, n, rest, _, hs => by
    simpa [renderPieces] using sepTail_of_fails (p := termP n) hs.2
  | _, _, .cons (ps := ps) (rest := rs) hp hl ht, n, rest, hlen, hs => by
    have hsplit : renderPieces (.sp :: (ps ++ rs)) ++ rest =
        ' ' :: (renderPieces ps ++ (renderPieces rs ++ rest)) := by
      simp [renderPieces, Piece.render, renderPieces_append]
    have hl1 : (renderPieces ps).length < n ∧ (renderPieces rs).length < n := by
      simp [renderPieces, Piece.render, renderPieces_append] at hlen; omega
    rw [hsplit]
    exact sepTail_cons sound_chainSep (termP_sound n) (chainSep_sp ((layP_head hl).append _))
      (by simp) (termP_lay hl hp n _ hl1.1 (tailP_stop ht hs.1)) (tail_lay ht n rest hl1.2 hs)
  | _, _, .pipe (ps := ps) (rest := rs) k hp hl ht, n, rest, hlen, hs => by
    have hsplit : renderPieces (.nl k :: .atom ['~', '>'] :: .sp :: (ps ++ rs)) ++ rest =
        '\n' :: (List.replicate k ' ' ++ '~' :: '>' :: ' ' :: (renderPieces ps ++ (renderPieces rs ++ rest))) := by
      simp [renderPieces, Piece.render, renderPieces_append]
    have hl1 : (renderPieces ps).length < n ∧ (renderPieces rs).length < n := by
      simp [renderPieces, Piece.render, renderPieces_append] at hlen; omega
    rw [hsplit]
    exact sepTail_cons sound_chainSep (termP_sound n) (chainSep_pipe k ((layP_head hl).append _))
      (by simp; omega) (termP_lay hl hp n _ hl1.1 (tailP_stop ht hs.1)) (tail_lay ht n rest hl1.2 hs)
theorem fieldP_lay : ∀ {f : F} {ps : List Piece}, LayF f ps → ∀ (n : Nat) (rest : Str),
    (renderPieces ps).length < n → StopC rest → fieldP (chainP (termP n)) (renderPieces ps ++ rest) = .ok f rest
  | _, _, .unnamed hl, n, rest, hlen, hstop => by
    unfold fieldP
    rw [alt_of_fails (namedAlt_fails hl hstop.1)]
    refine pmap_ok ?_
    cases hp : isPrim _ with
    | true => exact chainP_prim (termP_lay hl hp n rest hlen hstop.1) hstop.2
    | false => exact chain_lay hl hp n rest hlen hstop
  | _, _, .named (l := l) (ps := ps) hn hl, n, rest, hlen, hstop => by
    have hs : renderPieces (.atom (l ++ [':']) :: .sp :: ps) ++ rest =
        l ++ (':' :: ' ' :: (renderPieces ps ++ rest)) := by
      simp [renderPieces, Piece.render]
    have hl1 : (renderPieces ps).length < n := by
      simp [renderPieces, Piece.render] at hlen; omega
    rw [hs]
    unfold fieldP
    refine alt_of_ok ?_
    rw [bind_ok (identifier_append hn (idStop_colon _)), seq_ok (pchar_self ':' _)]
    have hws : ws1 (' ' :: (renderPieces ps ++ rest)) = .ok () (renderPieces ps ++ rest) := by
      simp [ws1, show isMultispace ' ' = true by decide, headOk_not_ms ((layP_head hl).append rest)]
    rw [seq_ok hws]
    refine pmap_ok ?_
    cases hp : isPrim _ with
    | true => exact chainP_prim (termP_lay hl hp n rest hl1 hstop.1) hstop.2
    | false => exact chain_lay hl hp n rest hl1 hstop
theorem items_lay : ∀ {bk : Bool} {fs : List F} {ps : List Piece}, ItemsP bk fs ps →
    ∀ (n : Nat) (rest : Str), (renderPieces ps).length < n → StopC rest →
    sepTail commaWsc (fieldP (chainP (termP n))) rest = .ok [] rest → ItemsRead n fs (renderPieces ps) rest
  | _, _, _, .one (f := f) hl, n, rest, hlen, hstop, hend =>
    ⟨f, [], rest, rfl, fieldP_lay hl n rest hlen hstop, hend⟩
  | _, _, _, .consFlat (f := f) (ps := ps) (rest := restp) hl hi, n, rest, hlen, hstop, hend => by
    have hs : renderPieces (ps ++ .atom [','] :: .sp :: restp) ++ rest =
        renderPieces ps ++ (',' :: ' ' :: (renderPieces restp ++ rest)) := by
      simp [renderPieces, Piece.render, renderPieces_append]
    have hl1 : (renderPieces ps).length < n ∧ (renderPieces restp).length < n := by
      simp [renderPieces, Piece.render, renderPieces_append] at hlen; omega
    obtain ⟨g', fs', r1, heq, hg, ht⟩ := items_lay hi n rest hl1.2 hstop hend
    unfold ItemsRead
    refine ⟨f, g' :: fs', ',' :: ' ' :: (renderPieces restp ++ rest), by rw [heq], ?_, ?_⟩
    · rw [hs]; exact fieldP_lay hl n _ hl1.1 (stopC_comma _)
    · exact sepTail_cons sound_commaWsc (fieldP_sound (chainP_sound (termP_sound n)))
        (commaWsc_sp ((itemsP_head hi).append rest)) (by simp; omega) hg ht
  | _, _, _, .consBrk (f := f) (ps := ps) (rest := restp) k hl hi, n, rest, hlen, hstop, hend => by
    have hs : renderPieces (ps ++ .atom [','] :: .nl k :: restp) ++ rest =
        renderPieces ps ++ (',' :: '\n' :: (List.replicate k ' ' ++ (renderPieces restp ++ rest))) := by
      simp [renderPieces, Piece.render, renderPieces_append]
    have hl1 : (renderPieces ps).length < n ∧ (renderPieces restp).length < n := by
      simp [renderPieces, Piece.render, renderPieces_append] at hlen; omega
    obtain ⟨g', fs', r1, heq, hg, ht⟩ := items_lay hi n rest hl1.2 hstop hend
    unfold ItemsRead
    refine ⟨f, g' :: fs', ',' :: '\n' :: (List.replicate k ' ' ++ (renderPieces restp ++ rest)),
      by rw [heq], ?_, ?_⟩
    · rw [hs]; exact fieldP_lay hl n _ hl1.1 (stopC_comma _)
    · exact sepTail_cons sound_commaWsc (fieldP_sound (chainP_sound (termP_sound n)))
        (commaWsc_nl k ((itemsP_head hi).append rest)) (by simp; omega) hg ht
end

/-- `chain` reads a layout of a field value or step back: a term, or a chain of several terms -/
theorem chainP_lay {t : T} {ps : List Piece} (h : LayP t ps) (n : Nat) (rest : Str)
    (hlen : (renderPieces ps).length < n) (hs : StopC rest) :
    chainP (termP n) (renderPieces ps ++ rest) = .ok t rest := by
  cases hp : isPrim t with
  | true => exact chainP_prim (termP_lay h hp n rest hlen hs.1) hs.2
  | false => exact chain_lay h hp n rest hlen hs


end QM.Frag
