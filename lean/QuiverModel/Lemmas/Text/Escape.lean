import QuiverModel.Lemmas.Text.Basic
/-
Lemmas for the string round trips of C17: `protectTrailingSpaces` in recursive form (`protRec`),
decoding of one rendered line and of all lines, de-indentation of the rendered literal, escape-clean
text and the closing-delimiter scan over it. Core Lean only.
-/
namespace QM.Text

def protRec : List Char → List Char
  | [] => []
  | c :: t => if (c :: t).all (· = ' ') then '\\' :: 's' :: protRec t else c :: protRec t

theorem trailingSpaces_le (t : List Char) : trailingSpaces t ≤ t.length := by
  induction t with
  | nil => simp [trailingSpaces]
  | cons c t ih => simp only [trailingSpaces]; split <;> (try split) <;> simp <;> omega

theorem trailingSpaces_allSpaces (t : List Char) (h : t.all (· = ' ') = true) :
    trailingSpaces t = t.length := by
  induction t with
  | nil => simp [trailingSpaces]
  | cons c t ih =>
    simp only [List.all_cons, Bool.and_eq_true, decide_eq_true_eq] at h
    simp [trailingSpaces, h.1, h.2]

theorem replicate_s_succ (k : Nat) :
    (List.replicate (k + 1) ['\\', 's']).flatten = '\\' :: 's' :: (List.replicate k ['\\', 's']).flatten := by
  simp [List.replicate_succ]

theorem protect_eq_protRec (x : List Char) : protectTrailingSpaces x = protRec x := by
  induction x with
  | nil => simp [protectTrailingSpaces, protRec, trailingSpaces]
  | cons c t ih =>
    by_cases hall : (c :: t).all (· = ' ') = true
    · -- everything is spaces
      have ht : t.all (· = ' ') = true := by
        simp only [List.all_cons, Bool.and_eq_true] at hall; exact hall.2
      have hc : c = ' ' := by
        simp only [List.all_cons, Bool.and_eq_true, decide_eq_true_eq] at hall; exact hall.1
      have e1 : protectTrailingSpaces t = (List.replicate t.length ['\\', 's']).flatten := by
        simp [protectTrailingSpaces, trailingSpaces_allSpaces t ht]
      rw [protRec, if_pos hall, ← ih, e1]
      simp [protectTrailingSpaces, trailingSpaces_allSpaces (c :: t) hall, replicate_s_succ]
    · rw [protRec, if_neg hall, ← ih]
      by_cases ht : t.all (· = ' ') = true
      · have hc : c ≠ ' ' := by
          intro hc; apply hall; simp [hc, ht]
        simp [protectTrailingSpaces, trailingSpaces, ht, hc, trailingSpaces_allSpaces t ht]
      · have hle := trailingSpaces_le t
        simp only [protectTrailingSpaces, trailingSpaces, ht, Bool.false_eq_true, ↓reduceIte,
          List.length_cons]
        have : t.length + 1 - trailingSpaces t = (t.length - trailingSpaces t) + 1 := by omega
        rw [this, List.take_succ_cons]; simp

theorem prepend_prepend (a b : List Char) (r : MlSegResult) :
    (r.prepend b).prepend a = r.prepend (a ++ b) := by
  cases r <;> simp [MlSegResult.prepend]

theorem prepend_nil (r : MlSegResult) : r.prepend [] = r := by
  cases r <;> simp [MlSegResult.prepend]

theorem escapeMultiText_allSpaces (t : List Char) (h : t.all (· = ' ') = true) :
    escapeMultiText t = t := by
  induction t with
  | nil => simp [escapeMultiText]
  | cons c t ih =>
    simp only [List.all_cons, Bool.and_eq_true, decide_eq_true_eq] at h
    simp [escapeMultiText, h.1, ih h.2]

theorem escapeMultiText_allSpaces_iff (t : List Char) :
    (escapeMultiText t).all (· = ' ') = t.all (· = ' ') := by
  induction t with
  | nil => simp [escapeMultiText]
  | cons c t ih =>
    simp only [escapeMultiText]
    by_cases h1 : c = '\\'
    · subst h1; simp
    by_cases h2 : c = '"'
    · subst h2; simp
    by_cases h3 : c = '{'
    · subst h3; simp
    by_cases h5 : c = '\r'
    · subst h5; simp
    by_cases h6 : c = '\t'
    · subst h6; simp
    simp [h1, h2, h3, h5, h6, ih]

/-- Decoding one rendered line: the escapes come back, the `\s` come back as spaces, and no
    pending whitespace is left over at the end of the line. -/
theorem processSegments_line (l : List Char) (hnl : '\n' ∉ l) (pend tail : List Char) :
    processSegments pend (protRec (escapeMultiText l) ++ tail) =
      if l = [] then processSegments pend tail
      else (processSegments [] tail).prepend (pend ++ l) := by
  induction l generalizing pend with
  | nil => simp [escapeMultiText, protRec]
  | cons c t ih =>
    have hnl' : '\n' ∉ t := fun h => hnl (List.mem_cons_of_mem _ h)
    have hc : c ≠ '\n' := fun h => hnl (h ▸ List.mem_cons_self)
    simp only [reduceCtorEq, ↓reduceIte]
    -- the recursive step, once the head unit has been decoded to `c` with empty pending afterwards
    have step : ∀ p : List Char,
        (processSegments [] (protRec (escapeMultiText t) ++ tail)).prepend (p ++ [c]) =
        (processSegments [] tail).prepend (p ++ c :: t) := by
      intro p
      rw [ih hnl' []]
      split
      · rename_i ht; subst ht; simp
      · simp [prepend_prepend]
    simp only [escapeMultiText]
    by_cases h1 : c = '\\'
    · subst h1
      simp [protRec, processSegments_cons, multiEscape, step]
    by_cases h2 : c = '"'
    · subst h2
      simp [protRec, processSegments_cons, multiEscape, step]
    by_cases h3 : c = '{'
    · subst h3
      simp [protRec, processSegments_cons, multiEscape, step]
    by_cases h5 : c = '\r'
    · subst h5
      simp [protRec, processSegments_cons, multiEscape, step]
    by_cases h6 : c = '\t'
    · subst h6
      simp [protRec, processSegments_cons, multiEscape, step]
    simp only [h1, h2, h3, h5, h6, ↓reduceIte, List.singleton_append]
    by_cases hs : c = ' '
    · subst hs
      by_cases ht : t.all (· = ' ') = true
      · -- the rest of the line is spaces: this one is rendered `\s`
        have : (' ' :: escapeMultiText t).all (· = ' ') = true := by
          simp [escapeMultiText_allSpaces_iff, ht]
        rw [protRec, if_pos this]
        simp [processSegments_cons, multiEscape, step]
      · have : ¬ ((' ' :: escapeMultiText t).all (· = ' ') = true) := by
          simp [escapeMultiText_allSpaces_iff, ht]
        rw [protRec, if_neg this]
        have htne : t ≠ [] := by intro h; subst h; simp at ht
        simp [processSegments_cons, ih hnl' (pend ++ [' ']), htne]
    · have : ¬ ((c :: escapeMultiText t).all (· = ' ') = true) := by simp [hs]
      rw [protRec, if_neg this]
      simp [processSegments_cons, hs, h6, hc, h3, h1, step]

theorem splitNl_cons (c : Char) (rest : List Char) :
    splitNl (c :: rest) =
      if c = '\n' then [] :: splitNl rest
      else match splitNl rest with
        | l :: ls => (c :: l) :: ls
        | [] => [[c]] := by
  rw [splitNl.eq_def]; rfl

theorem splitNl_ne_nil (v : List Char) : splitNl v ≠ [] := by
  induction v with
  | nil => simp [splitNl]
  | cons c rest ih =>
    rw [splitNl_cons]
    split
    · simp
    · split <;> simp

theorem joinNl_cons_cons (l l2 : List Char) (ls : List (List Char)) :
    joinNl (l :: l2 :: ls) = l ++ '\n' :: joinNl (l2 :: ls) := by
  simp [joinNl]

theorem joinNl_splitNl (v : List Char) : joinNl (splitNl v) = v := by
  induction v with
  | nil => simp [splitNl, joinNl]
  | cons c rest ih =>
    rw [splitNl_cons]
    split
    · rename_i hc
      cases h : splitNl rest with
      | nil => exact absurd h (splitNl_ne_nil rest)
      | cons l ls => rw [joinNl_cons_cons, ← h, ih]; simp [hc]
    · cases h : splitNl rest with
      | nil => exact absurd h (splitNl_ne_nil rest)
      | cons l ls =>
        simp only
        rw [h] at ih
        cases ls with
        | nil => simp [joinNl] at ih ⊢; exact ih
        | cons l2 ls => rw [joinNl_cons_cons] at ih ⊢; simp [ih]

theorem splitNl_lines_noNl (v : List Char) : ∀ l ∈ splitNl v, '\n' ∉ l := by
  induction v with
  | nil => simp [splitNl]
  | cons c rest ih =>
    rw [splitNl_cons]
    split
    · intro l hl
      simp only [List.mem_cons] at hl
      rcases hl with rfl | hl
      · simp
      · exact ih l hl
    · rename_i hc
      cases h : splitNl rest with
      | nil => exact absurd h (splitNl_ne_nil rest)
      | cons l0 ls =>
        rw [h] at ih
        intro l hl
        simp only [List.mem_cons] at hl
        rcases hl with rfl | hl
        · intro hm
          simp only [List.mem_cons] at hm
          rcases hm with hm | hm
          · exact hc hm.symm
          · exact ih l0 (by simp) hm
        · exact ih l (by simp [hl])

/-- Decoding the rendered lines gives back the value's lines. -/
theorem processSegments_lines (ls : List (List Char)) (hne : ls ≠ []) (h : ∀ l ∈ ls, '\n' ∉ l) :
    processSegments [] (joinNl (ls.map (fun l => protRec (escapeMultiText l)))) =
      .text (joinNl ls) := by
  induction ls with
  | nil => exact absurd rfl hne
  | cons l rest ih =>
    cases rest with
    | nil =>
      have := processSegments_line l (h l (by simp)) [] []
      simp only [List.append_nil] at this
      simp only [List.map, joinNl, this]
      split
      · rename_i hl; subst hl; simp [processSegments_nil]
      · simp [processSegments_nil, MlSegResult.prepend]
    | cons l2 more =>
      have ih' := ih (by simp) (fun x hx => h x (by simp [hx]))
      simp only [List.map] at ih' ⊢
      rw [joinNl_cons_cons, joinNl_cons_cons]
      rw [processSegments_line l (h l (by simp)) [] _]
      rw [processSegments_cons]
      simp only [Char.reduceEq, decide_false, Bool.or_self, Bool.false_eq_true, ↓reduceIte]
      rw [ih']
      split
      · rename_i hl; subst hl; simp [MlSegResult.prepend]
      · simp [MlSegResult.prepend]

/-! ### de-indentation of the rendered literal -/

theorem normalizeNewlines_cons_ne (c : Char) (rest : List Char) (hc : c ≠ '\r') :
    normalizeNewlines (c :: rest) = c :: normalizeNewlines rest := by
  rw [normalizeNewlines.eq_def]
  split
  · rename_i heq; simp at heq
  · rename_i heq; simp at heq; exact absurd heq.1 hc
  · rename_i heq; simp at heq; exact absurd heq.1 hc
  · rename_i c' rest' _ _ heq
    simp at heq
    obtain ⟨rfl, rfl⟩ := heq
    rfl

theorem normalizeNewlines_noCR (cs : List Char) (h : '\r' ∉ cs) : normalizeNewlines cs = cs := by
  induction cs with
  | nil => simp [normalizeNewlines]
  | cons c rest ih =>
    have hc : c ≠ '\r' := fun e => h (e ▸ List.mem_cons_self)
    have hr : '\r' ∉ rest := fun e => h (List.mem_cons_of_mem _ e)
    rw [normalizeNewlines_cons_ne c rest hc, ih hr]

theorem splitNl_noNl (l : List Char) (h : '\n' ∉ l) : splitNl l = [l] := by
  induction l with
  | nil => simp [splitNl]
  | cons c rest ih =>
    have hc : c ≠ '\n' := fun e => h (e ▸ List.mem_cons_self)
    have hr : '\n' ∉ rest := fun e => h (List.mem_cons_of_mem _ e)
    rw [splitNl_cons, if_neg hc, ih hr]

theorem splitNl_append_nl (a b : List Char) : splitNl (a ++ '\n' :: b) = splitNl a ++ splitNl b := by
  induction a with
  | nil => simp [splitNl_cons, splitNl]
  | cons c rest ih =>
    simp only [List.cons_append]
    rw [splitNl_cons, splitNl_cons c rest]
    split
    · simp [ih]
    · rw [ih]
      cases h : splitNl rest with
      | nil => exact absurd h (splitNl_ne_nil rest)
      | cons l ls => simp

theorem splitNl_joinNl (ls : List (List Char)) (hne : ls ≠ []) (h : ∀ l ∈ ls, '\n' ∉ l) :
    splitNl (joinNl ls) = ls := by
  induction ls with
  | nil => exact absurd rfl hne
  | cons l rest ih =>
    cases rest with
    | nil => simp [joinNl, splitNl_noNl l (h l (by simp))]
    | cons l2 more =>
      rw [joinNl_cons_cons, splitNl_append_nl, splitNl_noNl l (h l (by simp)),
        ih (by simp) (fun x hx => h x (by simp [hx]))]
      simp

theorem stripPrefix_append (m l : List Char) : stripPrefix m (m ++ l) = some l := by
  induction m with
  | nil => cases l <;> simp [stripPrefix]
  | cons c m ih => simp [stripPrefix, ih]

theorem all_append_hspace (m L : List Char) (h : ¬ (L.all isHspace = true)) :
    ¬ ((m ++ L).all isHspace = true) := by
  simp only [List.all_append, Bool.and_eq_true, not_and]
  intro _; exact h

theorem dedentLines_indent (margin : List Char) (Ls : List (List Char))
    (h : ∀ L ∈ Ls, L = [] ∨ ¬ (L.all isHspace = true)) :
    dedentLines margin (Ls.map (indentLine margin)) = some Ls := by
  induction Ls with
  | nil => simp [dedentLines]
  | cons L rest ih =>
    simp only [List.map, dedentLines, ih (fun x hx => h x (by simp [hx]))]
    rcases h L (by simp) with hL | hL
    · subst hL; simp [indentLine]
    · have hne : L ≠ [] := by intro e; subst e; simp at hL
      have : indentLine margin L = margin ++ L := by simp [indentLine, hne]
      rw [this, if_neg (all_append_hspace margin L hL), stripPrefix_append]

theorem rsplitOnceNl_append (B margin : List Char) (hm : '\n' ∉ margin) :
    rsplitOnceNl (B ++ '\n' :: margin) = some (B, margin) := by
  unfold rsplitOnceNl
  rw [splitNl_append_nl, splitNl_noNl margin hm]
  simp only [List.reverse_append, List.reverse_cons, List.reverse_nil, List.nil_append,
    List.singleton_append]
  cases h : (splitNl B).reverse with
  | nil =>
    have := splitNl_ne_nil B
    simp at h; exact absurd h this
  | cons x xs =>
    simp only
    have : (x :: xs).reverse = splitNl B := by rw [← h]; simp
    rw [this, joinNl_splitNl]

theorem mem_joinNl (ls : List (List Char)) (c : Char) (hc : c ≠ '\n') (h : c ∈ joinNl ls) :
    ∃ l ∈ ls, c ∈ l := by
  induction ls with
  | nil => simp [joinNl] at h
  | cons l rest ih =>
    cases rest with
    | nil => simp [joinNl] at h; exact ⟨l, by simp, h⟩
    | cons l2 more =>
      rw [joinNl_cons_cons] at h
      simp only [List.mem_append, List.mem_cons] at h
      rcases h with h | h | h
      · exact ⟨l, by simp, h⟩
      · exact absurd h hc
      · obtain ⟨x, hx, hcx⟩ := ih h
        exact ⟨x, by simp [hx], hcx⟩

/-- De-indenting the rendered literal gives back the rendered lines. -/
theorem multilineDedent_rendered (margin : List Char) (Ls : List (List Char))
    (hm : ∀ c ∈ margin, c = ' ') (hne : Ls ≠ [])
    (hnl : ∀ L ∈ Ls, '\n' ∉ L) (hcr : ∀ L ∈ Ls, '\r' ∉ L)
    (hbl : ∀ L ∈ Ls, L = [] ∨ ¬ (L.all isHspace = true)) :
    multilineDedent (renderedRaw margin Ls) = some (joinNl Ls) := by
  have hmnl : '\n' ∉ margin := fun h => by have := hm _ h; simp at this
  have hmcr : '\r' ∉ margin := fun h => by have := hm _ h; simp at this
  have hmh : margin.all isHspace = true := by
    simp only [List.all_eq_true]; intro c hc; simp [isHspace, hm c hc]
  have hinl : ∀ x ∈ Ls.map (indentLine margin), '\n' ∉ x := by
    intro x hx
    simp only [List.mem_map] at hx
    obtain ⟨L, hL, rfl⟩ := hx
    unfold indentLine; split
    · simp
    · simp only [List.mem_append, not_or]; exact ⟨hmnl, hnl L hL⟩
  have hnocr : '\r' ∉ renderedRaw margin Ls := by
    intro h
    simp only [renderedRaw, List.mem_cons, List.mem_append] at h
    rcases h with h | h | h | h
    · simp at h
    · obtain ⟨x, hx, hcx⟩ := mem_joinNl _ '\r' (by decide) h
      simp only [List.mem_map] at hx
      obtain ⟨L, hL, rfl⟩ := hx
      unfold indentLine at hcx; split at hcx
      · simp at hcx
      · simp only [List.mem_append] at hcx
        rcases hcx with hcx | hcx
        · exact hmcr hcx
        · exact hcr L hL hcx
    · simp at h
    · exact hmcr h
  unfold multilineDedent
  simp only [normalizeNewlines_noCR _ hnocr]
  have h1 : splitOnceNl (renderedRaw margin Ls) =
      some ([], joinNl (Ls.map (indentLine margin)) ++ '\n' :: margin) := by
    simp [renderedRaw, splitOnceNl]
  rw [h1]
  simp only [List.all_nil, Bool.not_true, Bool.false_eq_true, ↓reduceIte]
  rw [rsplitOnceNl_append _ _ hmnl]
  simp only [hmh, Bool.not_true, Bool.false_eq_true, ↓reduceIte]
  rw [splitNl_joinNl _ (by simpa using hne) hinl, dedentLines_indent margin Ls hbl]

/-! ### properties of a rendered line -/

theorem escapeMultiText_cons (c : Char) (t : List Char) :
    escapeMultiText (c :: t) =
      (if c = '\\' then ['\\', '\\'] else if c = '"' then ['\\', '"'] else if c = '{' then ['\\', '{']
       else if c = '\r' then ['\\', 'r'] else if c = '\t' then ['\\', 't'] else [c])
        ++ escapeMultiText t := by
  rw [escapeMultiText]

/-- Escape-clean text: made of single characters other than `\` and `"`, and of two-character
    escape pairs `\x`. An escape-aware scanner steps over it unit by unit. -/
inductive EscClean : List Char → Prop
  | nil : EscClean []
  | char (c : Char) (t : List Char) : c ≠ '\\' → c ≠ '"' → EscClean t → EscClean (c :: t)
  | pair (x : Char) (t : List Char) : EscClean t → EscClean ('\\' :: x :: t)

theorem EscClean.append {a b : List Char} (ha : EscClean a) (hb : EscClean b) : EscClean (a ++ b) := by
  induction ha with
  | nil => simpa
  | char c t h1 h2 _ ih => exact .char c _ h1 h2 ih
  | pair x t _ ih => exact .pair x _ ih

theorem EscClean.spaces (m : List Char) (h : ∀ c ∈ m, c = ' ') : EscClean m := by
  induction m with
  | nil => exact .nil
  | cons c t ih =>
    have hc := h c (by simp)
    subst hc
    exact .char _ _ (by decide) (by decide) (ih (fun x hx => h x (by simp [hx])))

structure LineOk (l L : List Char) : Prop where
  clean : EscClean L
  noNl : '\n' ∉ L
  noCr : '\r' ∉ L
  blank : L = [] ∨ ¬ (L.all isHspace = true)

theorem protRec_cons_ne (c : Char) (t : List Char) (hc : c ≠ ' ') :
    protRec (c :: t) = c :: protRec t := by
  have : ¬ ((c :: t).all (· = ' ') = true) := by simp [hc]
  rw [protRec, if_neg this]

theorem protRec_ne_nil (x : List Char) (h : x ≠ []) : protRec x ≠ [] := by
  cases x with
  | nil => exact absurd rfl h
  | cons c t => rw [protRec]; split <;> simp

theorem escapeMultiText_ne_nil (t : List Char) (h : t ≠ []) : escapeMultiText t ≠ [] := by
  cases t with
  | nil => exact absurd rfl h
  | cons c t =>
    rw [escapeMultiText_cons]
    intro e
    have := congrArg List.length e
    simp only [List.length_append, List.length_nil] at this
    have : 0 < (if c = '\\' then ['\\', '\\'] else if c = '"' then ['\\', '"']
        else if c = '{' then ['\\', '{'] else if c = '\r' then ['\\', 'r']
        else if c = '\t' then ['\\', 't'] else [c]).length := by
      repeat' split
      all_goals simp
    omega

theorem renderedLine_ok (l : List Char) (hnl : '\n' ∉ l) :
    LineOk l (protRec (escapeMultiText l)) := by
  induction l with
  | nil => exact ⟨by simp [escapeMultiText, protRec]; exact .nil, by simp [escapeMultiText, protRec],
      by simp [escapeMultiText, protRec], .inl (by simp [escapeMultiText, protRec])⟩
  | cons c t ih =>
    have hnl' : '\n' ∉ t := fun h => hnl (List.mem_cons_of_mem _ h)
    have hc : c ≠ '\n' := fun h => hnl (h ▸ List.mem_cons_self)
    obtain ⟨icl, inl, icr, _⟩ := ih hnl'
    -- a two-character escape `\x` in front
    have pairCase : ∀ x : Char, x ≠ ' ' → x ≠ '\n' → x ≠ '\r' → x ≠ '\t' →
        LineOk (c :: t) (protRec ('\\' :: x :: escapeMultiText t)) := by
      intro x hx1 hx2 hx3 hx4
      rw [protRec_cons_ne _ _ (by decide), protRec_cons_ne _ _ hx1]
      refine ⟨.pair x _ icl, ?_, ?_, .inr ?_⟩
      · simp only [List.mem_cons, not_or]; exact ⟨by decide, fun h => hx2 h.symm, inl⟩
      · simp only [List.mem_cons, not_or]; exact ⟨by decide, fun h => hx3 h.symm, icr⟩
      · simp [isHspace]
    rw [escapeMultiText_cons]
    by_cases h1 : c = '\\'
    · subst h1; simpa using pairCase '\\' (by decide) (by decide) (by decide) (by decide)
    by_cases h2 : c = '"'
    · subst h2; simpa using pairCase '"' (by decide) (by decide) (by decide) (by decide)
    by_cases h3 : c = '{'
    · subst h3; simpa using pairCase '{' (by decide) (by decide) (by decide) (by decide)
    by_cases h5 : c = '\r'
    · subst h5; simpa using pairCase 'r' (by decide) (by decide) (by decide) (by decide)
    by_cases h6 : c = '\t'
    · subst h6; simpa using pairCase 't' (by decide) (by decide) (by decide) (by decide)
    simp only [h1, h2, h3, h5, h6, ↓reduceIte, List.singleton_append]
    by_cases hs : c = ' '
    · subst hs
      by_cases ht : ((' ' :: escapeMultiText t).all (· = ' ') = true)
      · rw [protRec, if_pos ht]
        refine ⟨.pair 's' _ icl, ?_, ?_, .inr ?_⟩
        · simp only [List.mem_cons, not_or]; exact ⟨by decide, by decide, inl⟩
        · simp only [List.mem_cons, not_or]; exact ⟨by decide, by decide, icr⟩
        · simp [isHspace]
      · rw [protRec, if_neg ht]
        refine ⟨.char _ _ (by decide) (by decide) icl, ?_, ?_, .inr ?_⟩
        · simp only [List.mem_cons, not_or]; exact ⟨by decide, inl⟩
        · simp only [List.mem_cons, not_or]; exact ⟨by decide, icr⟩
        · -- the rest is not all spaces, so (by the induction hypothesis) not all hspace either
          rename_i hb
          have htne : t ≠ [] := by
            intro e; subst e; simp [escapeMultiText] at ht
          rcases hb with hb | hb
          · -- rendered rest empty although t ≠ []: impossible
            exact absurd hb (protRec_ne_nil _ (escapeMultiText_ne_nil t htne))
          · simp only [List.all_cons, Bool.and_eq_true, not_and]
            intro _; exact hb
    · rw [protRec_cons_ne _ _ hs]
      refine ⟨.char _ _ h1 h2 icl, ?_, ?_, .inr ?_⟩
      · simp only [List.mem_cons, not_or]; exact ⟨fun h => hc h.symm, inl⟩
      · simp only [List.mem_cons, not_or]; exact ⟨fun h => h5 h.symm, icr⟩
      · simp [isHspace, hs, h6]

/-! ### the closing-delimiter scan over rendered text, and the round trip -/

theorem scanCloseMultiAux_clean (raw : List Char) (h : EscClean raw) (idx : Nat) (rest : List Char) :
    scanCloseMultiAux idx (raw ++ '"' :: '"' :: '"' :: rest) = some (idx + utf8Len raw) := by
  induction h generalizing idx with
  | nil => simp [scanCloseMultiAux_cons, startsTripleQuote, utf8Len]
  | char c t h1 h2 _ ih =>
    simp only [List.cons_append]
    rw [scanCloseMultiAux_cons, if_neg h1]
    simp only [h2, decide_false, Bool.false_and, Bool.false_eq_true, ↓reduceIte]
    rw [ih]; simp [utf8Len]; omega
  | pair x t _ ih =>
    simp only [List.cons_append]
    rw [scanCloseMultiAux_cons]
    simp only [↓reduceIte]
    rw [ih]; simp [utf8Len]; omega

theorem EscClean.joinNl (ls : List (List Char)) (h : ∀ l ∈ ls, EscClean l) : EscClean (joinNl ls) := by
  induction ls with
  | nil => simp [QM.Text.joinNl]; exact .nil
  | cons l rest ih =>
    cases rest with
    | nil => simpa [QM.Text.joinNl] using h l (by simp)
    | cons l2 more =>
      rw [joinNl_cons_cons]
      exact (h l (by simp)).append (.char _ _ (by decide) (by decide)
        (ih (fun x hx => h x (by simp [hx]))))

theorem multilineLines_eq (v : List Char) :
    multilineLines v = (splitNl v).map (fun l => protRec (escapeMultiText l)) := by
  simp [multilineLines, protect_eq_protRec]


end QM.Text
