import QuiverModel.Lemmas.Soundness.UnifySound
/-
Lemmas for C01's positive guard theorem, part 3: `substitute` realises the meaning `InhP` of an
instantiated pattern (`substitute_sound`). Core Lean only.
-/
namespace QM.Soundness
open QM.Types

theorem zip_map_fst_snd {α β : Type} : ∀ (l : List (α × β)), (l.map (·.1)).zip (l.map (·.2)) = l
  | [] => rfl
  | (a, b) :: rest => by simp [zip_map_fst_snd rest]

theorem zip_map_snd_mem {α β γ : Type} : ∀ (l : List (α × β)) (ids : List γ) (z : (α × β) × γ),
    z ∈ l.zip ids → (z.1.2, z.2) ∈ (l.map (·.2)).zip ids
  | [], _, _, h => by simp at h
  | _ :: _, [], _, h => by simp at h
  | a :: l, c :: cs, z, h => by
    simp only [List.zip_cons_cons, List.mem_cons, List.map_cons] at h ⊢
    rcases h with rfl | h
    · exact Or.inl rfl
    · exact Or.inr (zip_map_snd_mem l cs z h)

theorem mem_zip_of_mem_right {α β : Type} : ∀ (l : List α) (ids : List β) (i : β),
    l.length = ids.length → i ∈ ids → ∃ z ∈ l.zip ids, z.2 = i
  | [], [], _, _, h => by cases h
  | [], _ :: _, _, hl, _ => by simp at hl
  | _ :: _, [], _, hl, _ => by simp at hl
  | a :: l, c :: cs, i, hl, h => by
    rcases List.mem_cons.mp h with rfl | h
    · exact ⟨(a, i), by simp, rfl⟩
    · obtain ⟨z, hz, he⟩ := mem_zip_of_mem_right l cs i (by simpa using hl) h
      exact ⟨z, by simp [List.zip_cons_cons, hz], he⟩

/-- what one substitution establishes. -/
def SubstPost (T : Table) (b : Bindings) (n p : Nat) (T'' : Table) (r : Nat) : Prop :=
  Ext T T'' ∧ FO T'' r ∧ ∀ v, InhP T b n p v → inh T'' [] r v

def SubstSoundAt (b : Bindings) (f : Nat) : Prop :=
  ∀ (T : Table) (p : Nat) (T'' : Table) (r n : Nat),
    substitute b f T p = some (T'', r) → patT T n p = true → BOk T b → SubstPost T b n p T'' r

/-- the field loop of `substitute`. -/
theorem mapIds_sound {b : Bindings} {f : Nat} (IH : SubstSoundAt b f) :
    ∀ (qs : List Nat) (T T1 : Table) (ids' : List Nat) (n : Nat),
      mapIds (substitute b f) T qs = some (T1, ids') →
      (∀ q ∈ qs, patT T n q = true) → BOk T b →
      Ext T T1 ∧ ids'.length = qs.length ∧
        ∀ z ∈ qs.zip ids', FO T1 z.2 ∧ ∀ v, InhP T b n z.1 v → inh T1 [] z.2 v
  | [], T, T1, ids', n, h, _, _ => by
    simp only [mapIds, Option.some.injEq, Prod.mk.injEq] at h
    obtain ⟨rfl, rfl⟩ := h
    exact ⟨Ext.refl _, rfl, fun z hz => by simp at hz⟩
  | q :: rest, T, T1, ids', n, h, hq, hb => by
    unfold mapIds at h
    cases hs : substitute b f T q with
    | none => rw [hs] at h; cases h
    | some r1 =>
      obtain ⟨Ta, y⟩ := r1
      rw [hs] at h; simp only at h
      cases hm : mapIds (substitute b f) Ta rest with
      | none => rw [hm] at h; cases h
      | some r2 =>
        obtain ⟨Tb, ys⟩ := r2
        rw [hm] at h
        simp only [Option.some.injEq, Prod.mk.injEq] at h
        obtain ⟨rfl, rfl⟩ := h
        obtain ⟨hE1, hfo1, hs1⟩ := IH T q Ta y n hs (hq q (List.mem_cons_self ..)) hb
        have hrest : ∀ q' ∈ rest, patT Ta n q' = true := fun q' hq' =>
          patT_transfer hE1 n q' n (hq q' (List.mem_cons_of_mem _ hq')) (Nat.le_refl _)
        obtain ⟨hE2, hlen, hs2⟩ := mapIds_sound IH rest Ta Tb ys n hm hrest (hb.ext hE1)
        refine ⟨hE1.trans hE2, by simp [hlen], ?_⟩
        intro z hz
        simp only [List.zip_cons_cons, List.mem_cons] at hz
        rcases hz with rfl | hz
        · exact ⟨hfo1.ext hE2, fun v hv => inh_ext hE2 hfo1 (hs1 v hv)⟩
        · obtain ⟨hfo, hsz⟩ := hs2 z hz
          refine ⟨hfo, fun v hv => hsz v ?_⟩
          have hzq : z.1 ∈ rest := (List.of_mem_zip hz).1
          exact InhP_mono hE1 (BLe.refl' hE1 hb) n z.1 v n (hq z.1 (List.mem_cons_of_mem _ hzq)) hv (Nat.le_refl _)

/-- assemble a Boolean field match (one common fuel) from a `Prop` field match. -/
theorem fieldsB_of_FieldsP {T : Table} {P : Nat → V → Prop} :
    ∀ (f1 : List (Option Name × Nat)) (ids : List Nat) (fs : VFields),
      f1.length = ids.length → FieldsP P f1 fs →
      (∀ z ∈ f1.zip ids, FO T z.2 ∧ ∀ v, P z.1.2 v → inh T [] z.2 v) →
      ∃ F, fieldsB (inhB T F []) ((f1.map (·.1)).zip ids) fs = true
  | [], [], .nil, _, _, _ => ⟨0, rfl⟩
  | [], [], .cons _ _ _, _, h, _ => by simp [FieldsP] at h
  | [], _ :: _, _, hl, _, _ => by simp at hl
  | _ :: _, [], _, hl, _, _ => by simp at hl
  | _ :: _, _ :: _, .nil, _, h, _ => by simp [FieldsP] at h
  | p :: r1, i :: r2, .cons l v vs, hl, h, hz => by
    simp only [FieldsP] at h
    obtain ⟨h1, h2, h3⟩ := h
    obtain ⟨⟨nfo, hfo⟩, hin⟩ := hz (p, i) (by simp)
    obtain ⟨F1, hF1⟩ := hin v h2
    obtain ⟨F2, hF2⟩ := fieldsB_of_FieldsP r1 r2 vs (by simpa using hl) h3
      (fun z hzm => hz z (by simp [List.zip_cons_cons, hzm]))
    refine ⟨max F1 F2, ?_⟩
    simp only [List.map_cons, List.zip_cons_cons, fieldsB, Bool.and_eq_true, decide_eq_true_eq]
    refine ⟨⟨h1, inhB_transfer (Ext.refl T) F1 nfo i v [] [] _ hfo hF1 (Nat.le_max_left ..)⟩, ?_⟩
    refine fieldsB_mono _ vs ?_ hF2
    intro q hq v' hv'
    have hq2 : q.2 ∈ r2 := (List.of_mem_zip hq).2
    have hzq : ∃ z ∈ r1.zip r2, z.2 = q.2 := by
      clear hF2 hv' hz h3 hl
      induction r1 generalizing r2 with
      | nil => simp at hq
      | cons a r1 ih =>
        cases r2 with
        | nil => simp at hq
        | cons c r2 =>
          simp only [List.map_cons, List.zip_cons_cons, List.mem_cons] at hq
          rcases hq with rfl | hq
          · exact ⟨(a, c), by simp, rfl⟩
          · obtain ⟨z, hz, he⟩ := ih r2 hq (List.of_mem_zip hq).2
            exact ⟨z, by simp [List.zip_cons_cons, hz], he⟩
    obtain ⟨z, hzm, he⟩ := hzq
    obtain ⟨⟨nq, hnq⟩, _⟩ := hz z (by simp [List.zip_cons_cons, hzm])
    rw [he] at hnq
    exact inhB_transfer (Ext.refl T) F2 nq q.2 v' [] [] _ hnq hv' (Nat.le_max_right ..)

/-- `substitute` realises `InhP` on the fragment, for every fuel. -/
theorem substitute_sound (b : Bindings) : ∀ f, SubstSoundAt b f := by
  intro f
  induction f with
  | zero => intro T p T'' r n h; simp [substitute] at h
  | succ f ih =>
    intro T p T'' r n h hp hb
    cases n with
    | zero => simp [patT] at hp
    | succ n =>
    have hp0 := hp
    unfold patT at hp
    unfold substitute at h
    cases htp : T.types[p]? with
    | none => rw [htp] at hp; simp at hp
    | some tp =>
    rw [htp] at hp h
    simp only at h
    cases tp with
    | reference => simp at hp
    | part _ _ => simp at hp
    | callable _ _ _ => simp at hp
    | cycle _ => simp at hp
    | union _ => simp at hp
    | process _ _ => simp at hp
    | resource _ => simp at hp
    | integer =>
      simp only [Option.some.injEq, Prod.mk.injEq] at h
      obtain ⟨rfl, rfl⟩ := h
      refine ⟨Ext.refl _, ⟨1, by unfold foV; rw [htp]⟩, fun v hv => ?_⟩
      unfold InhP at hv; rw [htp] at hv
      obtain ⟨z, rfl⟩ := hv
      exact ⟨1, by unfold inhB; rw [htp]⟩
    | binary =>
      simp only [Option.some.injEq, Prod.mk.injEq] at h
      obtain ⟨rfl, rfl⟩ := h
      refine ⟨Ext.refl _, ⟨1, by unfold foV; rw [htp]⟩, fun v hv => ?_⟩
      unfold InhP at hv; rw [htp] at hv
      obtain ⟨z, rfl⟩ := hv
      exact ⟨1, by unfold inhB; rw [htp]⟩
    | «variable» x =>
      simp only [Option.some.injEq, Prod.mk.injEq] at h
      obtain ⟨rfl, rfl⟩ := h
      cases hbx : b.get x with
      | none =>
        refine ⟨Ext.refl _, ⟨1, by simp only [Option.getD]; unfold foV; rw [htp]⟩, fun v hv => ?_⟩
        unfold InhP at hv; rw [htp] at hv; simp only at hv; rw [hbx] at hv; exact hv.elim
      | some t =>
        refine ⟨Ext.refl _, by simpa [Option.getD] using hb x t hbx, fun v hv => ?_⟩
        unfold InhP at hv; rw [htp] at hv; simp only at hv; rw [hbx] at hv
        simpa [Option.getD] using hv
    | tuple tid =>
      simp only at hp h
      cases htu : T.tuples[tid]? with
      | none => rw [htu] at hp; simp at hp
      | some info =>
      rw [htu] at hp h
      simp only at hp h
      cases hm : mapIds (substitute b f) T (info.fields.map (·.2)) with
      | none => rw [hm] at h; cases h
      | some r1 =>
      obtain ⟨T1, ids'⟩ := r1
      rw [hm] at h; simp only at h
      have hqs : ∀ q ∈ info.fields.map (·.2), patT T n q = true := by
        intro q hq
        obtain ⟨fld, hfld, rfl⟩ := List.mem_map.mp hq
        exact (List.all_eq_true.mp hp) fld hfld
      obtain ⟨hE1, hlen, hz⟩ := mapIds_sound ih _ T T1 ids' n hm hqs hb
      have hlen' : info.fields.length = ids'.length := by simpa using hlen.symm
      -- the field list of the result tuple, in any table that has it
      have assemble : ∀ (T3 : Table) (k : Nat), Ext T1 T3 →
          T3.types[r]? = some (.tuple k) →
          T3.tuples[k]? = some ⟨info.name, (info.fields.map (·.1)).zip ids'⟩ →
          FO T3 r ∧ ∀ v, InhP T b (n + 1) p v → inh T3 [] r v := by
        intro T3 k hE3 hty3 htu3
        have hz3 : ∀ z ∈ info.fields.zip ids', FO T3 z.2 ∧ ∀ v, InhP T b n z.1.2 v → inh T3 [] z.2 v := by
          intro z hzm
          have hz' : (z.1.2, z.2) ∈ (info.fields.map (·.2)).zip ids' := zip_map_snd_mem _ _ z hzm
          obtain ⟨hfo, hs⟩ := hz _ hz'
          exact ⟨hfo.ext hE3, fun v hv => inh_ext hE3 hfo (hs v hv)⟩
        constructor
        · obtain ⟨nn, hnn⟩ := fo_all ids' (fun i hi => by
            obtain ⟨z, hzm, he⟩ := mem_zip_of_mem_right info.fields ids' i hlen' hi
            exact he ▸ (hz3 z hzm).1)
          refine ⟨nn + 1, ?_⟩
          unfold foV; rw [hty3]; simp only; rw [htu3]; simp only
          rw [List.all_eq_true]
          intro q hq
          exact hnn q.2 (List.of_mem_zip hq).2
        · intro v hv
          unfold InhP at hv; rw [htp] at hv; simp only at hv; rw [htu] at hv
          cases v with
          | tup name fs =>
            simp only at hv
            obtain ⟨F, hF⟩ := fieldsB_of_FieldsP (T := T3) info.fields ids' fs hlen' hv.2 hz3
            refine ⟨F + 1, ?_⟩
            unfold inhB; rw [hty3]; simp only; rw [htu3]
            simp only [Bool.and_eq_true, decide_eq_true_eq]
            exact ⟨hv.1, hF⟩
          | _ => exact hv.elim
      by_cases hsame : ids' = info.fields.map (·.2)
      · simp only [hsame, if_true, Option.some.injEq, Prod.mk.injEq] at h
        obtain ⟨rfl, rfl⟩ := h
        have := assemble T1 tid (Ext.refl _) (hE1.1 p _ htp)
          (by rw [hsame, zip_map_fst_snd]; exact hE1.2 tid _ htu)
        exact ⟨hE1, this.1, this.2⟩
      · simp only [hsame, if_false] at h
        cases hrt : T1.registerTuple info.name ((info.fields.map (·.1)).zip ids') with
        | mk T2 ntid =>
          rw [hrt] at h; simp only [Option.some.injEq] at h
          obtain ⟨hE2, htu2⟩ := registerTuple_spec _ _ _ _ _ hrt
          obtain ⟨hE3, hty3⟩ := registerType_spec _ _ _ _ h
          have := assemble T'' ntid (hE2.trans hE3) hty3 (hE3.2 ntid _ htu2)
          exact ⟨hE1.trans (hE2.trans hE3), this.1, this.2⟩

end QM.Soundness
