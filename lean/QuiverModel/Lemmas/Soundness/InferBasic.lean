import QuiverModel.Core.Soundness.Infer
import QuiverModel.Core.RefSem.Eval
import QuiverModel.Lemmas.Types.InhLemmas
/-
Lemmas for `infer_sound_fragment`, part 1: run-time values of the reference semantics as values of
the type model (`toV`), the typing relation `VT`, and the facts about the table look-ups `infer`
uses (`findType`, `tupleType`, `unionPair`, `withoutNil`, `nilIn`). Core Lean only.
-/
namespace QM.Soundness
open QM.Types QM.RefSem

/-! ### Values -/

mutual
  /-- a first-order value of the reference semantics as a value of the type model (names interned
  by `nm`); closures and builtins have no image. -/
  def toV (nm : String → Name) : RefSem.Val → Option V
    | .int z => some (.int z)
    | .bin bs => some (.bin bs)
    | .tup n fs =>
      match toVFields nm fs with
      | some ws => some (.tup (n.map nm) ws)
      | none => none
    | .clo _ _ _ => none
    | .builtin _ => none
  def toVFields (nm : String → Name) : RefSem.Fields → Option VFields
    | [] => some .nil
    | (l, v) :: rest =>
      match toV nm v, toVFields nm rest with
      | some w, some ws => some (.cons (l.map nm) w ws)
      | _, _ => none
end

/-- `v` is a value of type `t` of the table. -/
def VT (c : Ctx) (t : Nat) (v : RefSem.Val) : Prop := ∃ w, toV c.nm v = some w ∧ inh c.T [] t w

theorem toV_notCallable {nm : String → Name} {v : RefSem.Val} {w : V} (h : toV nm v = some w) :
    v.isCallable = false := by
  cases v <;> simp [toV, Val.isCallable] at *

theorem toV_int_inv {nm : String → Name} {v : RefSem.Val} {z : Int} (h : toV nm v = some (.int z)) :
    v = .int z := by
  cases v with
  | int z' => simp [toV] at h; rw [h]
  | bin _ => simp [toV] at h
  | tup n fs => simp only [toV] at h; split at h <;> simp at h
  | clo _ _ _ => simp [toV] at h
  | builtin _ => simp [toV] at h

theorem toV_bin_inv {nm : String → Name} {v : RefSem.Val} {bs : List UInt8} (h : toV nm v = some (.bin bs)) :
    v = .bin bs := by
  cases v with
  | int _ => simp [toV] at h
  | bin b' => simp [toV] at h; rw [h]
  | tup n fs => simp only [toV] at h; split at h <;> simp at h
  | clo _ _ _ => simp [toV] at h
  | builtin _ => simp [toV] at h

theorem toV_tup_inv {nm : String → Name} {v : RefSem.Val} {n : Option Name} {ws : VFields}
    (h : toV nm v = some (.tup n ws)) :
    ∃ n' fs, v = .tup n' fs ∧ n'.map nm = n ∧ toVFields nm fs = some ws := by
  cases v with
  | int _ => simp [toV] at h
  | bin _ => simp [toV] at h
  | tup n' fs =>
    simp only [toV] at h
    split at h
    · rename_i ws' hws
      simp only [Option.some.injEq, V.tup.injEq] at h
      exact ⟨n', fs, rfl, h.1, by rw [hws, h.2]⟩
    · simp at h
  | clo _ _ _ => simp [toV] at h
  | builtin _ => simp [toV] at h

theorem toVFields_nil_inv {nm : String → Name} {fs : RefSem.Fields} (h : toVFields nm fs = some .nil) :
    fs = [] := by
  cases fs with
  | nil => rfl
  | cons p rest =>
    obtain ⟨l, v⟩ := p
    simp only [toVFields] at h
    split at h <;> simp at h

theorem toVFields_cons_inv {nm : String → Name} {fs : RefSem.Fields} {l : Option Name} {w : V} {ws : VFields}
    (h : toVFields nm fs = some (.cons l w ws)) :
    ∃ l' v rest, fs = (l', v) :: rest ∧ l'.map nm = l ∧ toV nm v = some w ∧ toVFields nm rest = some ws := by
  cases fs with
  | nil => simp [toVFields] at h
  | cons p rest =>
    obtain ⟨l', v⟩ := p
    simp only [toVFields] at h
    split at h
    · rename_i w' ws' hw hws
      simp only [Option.some.injEq, VFields.cons.injEq] at h
      exact ⟨l', v, rest, rfl, h.1, by rw [hw, h.2.1], by rw [hws, h.2.2]⟩
    · simp at h

/-- position `k` of the translated fields is the translation of position `k`. -/
theorem toVFields_index {nm : String → Name} : ∀ (fs : RefSem.Fields) (ws : VFields) (k : Nat) (l : Option Name) (u : V),
    toVFields nm fs = some ws → ws.toList[k]? = some (l, u) →
    ∃ u', fieldByIndex fs k = some u' ∧ toV nm u' = some u
  | [], ws, k, l, u, h, hk => by
    simp only [toVFields, Option.some.injEq] at h
    subst h
    simp [VFields.toList] at hk
  | (l', v) :: rest, ws, k, l, u, h, hk => by
    simp only [toVFields] at h
    split at h
    · rename_i w ws' hw hws
      simp only [Option.some.injEq] at h
      subst h
      cases k with
      | zero =>
        simp only [VFields.toList, List.getElem?_cons_zero, Option.some.injEq, Prod.mk.injEq] at hk
        exact ⟨v, by simp [fieldByIndex], by rw [hw, hk.2]⟩
      | succ k =>
        simp only [VFields.toList, List.getElem?_cons_succ] at hk
        obtain ⟨u', h1, h2⟩ := toVFields_index rest ws' k l u hws hk
        exact ⟨u', by simpa [fieldByIndex] using h1, h2⟩
    · simp at h

/-! ### Table look-ups -/

theorem indexOf_spec {α : Type} [DecidableEq α] (a : α) : ∀ (l : List α) (k i : Nat),
    indexOf a l k = some i → ∃ j, i = k + j ∧ l[j]? = some a
  | [], _, _, h => by simp [indexOf] at h
  | x :: xs, k, i, h => by
    unfold indexOf at h
    by_cases hx : x = a
    · simp only [hx, if_true, Option.some.injEq] at h
      exact ⟨0, by omega, by simp [hx]⟩
    · simp only [hx, if_false] at h
      obtain ⟨j, hj, hl⟩ := indexOf_spec a xs (k + 1) i h
      exact ⟨j + 1, by omega, by simpa using hl⟩

theorem findType_spec {T : Table} {ty : Types.Ty} {i : Nat} (h : findType T ty = some i) :
    T.types[i]? = some ty := by
  obtain ⟨j, hj, hl⟩ := indexOf_spec ty T.types 0 i h
  have : i = j := by omega
  rw [this]; exact hl

theorem tupleType_spec {T : Table} {n : Option Name} {fs : List (Option Name × Nat)} {t : Nat}
    (h : tupleType T n fs = some t) :
    ∃ id, T.types[t]? = some (.tuple id) ∧ T.tuples[id]? = some ⟨n, fs⟩ := by
  unfold tupleType at h
  split at h
  · rename_i id hid
    obtain ⟨j, hj, hl⟩ := indexOf_spec (⟨n, fs⟩ : TupleInfo) T.tuples 0 id hid
    have : id = j := by omega
    exact ⟨id, findType_spec h, by rw [this]; exact hl⟩
  · simp at h

/-! ### Introduction rules of `inh` on the fixed table -/

theorem inh_int_intro {T : Table} {t : Nat} (h : T.types[t]? = some .integer) (z : Int) :
    inh T [] t (.int z) := ⟨1, by simp [inhB, h]⟩

theorem inh_bin_intro {T : Table} {t : Nat} (h : T.types[t]? = some .binary) (bs : List UInt8) :
    inh T [] t (.bin bs) := ⟨1, by simp [inhB, h]⟩

theorem inh_tuple_intro {T : Table} {t id : Nat} {info : TupleInfo} {ws : VFields} {F : Nat}
    (hty : T.types[t]? = some (.tuple id)) (htu : T.tuples[id]? = some info)
    (hf : fieldsB (inhB T F []) info.fields ws = true) : inh T [] t (.tup info.name ws) :=
  ⟨F + 1, by simp [inhB, hty, htu, hf]⟩

theorem inh_nil_intro {T : Table} {t id : Nat} (hty : T.types[t]? = some (.tuple id))
    (htu : T.tuples[id]? = some ⟨none, []⟩) : inh T [] t (.tup none .nil) :=
  inh_tuple_intro (F := 0) hty htu (by simp [fieldsB])

/-- a value of a nil type is nil. -/
theorem inh_isNilTy {T : Table} {t : Nat} {w : V} {st : List Nat} (hn : isNilTy T t = true) (h : inh T st t w) :
    w = .tup none .nil := by
  unfold isNilTy at hn
  split at hn
  · rename_i id hty
    split at hn
    · rename_i htu
      obtain ⟨name, fs, f, hv, hname, hf⟩ := inh_tuple hty htu h
      subst hv
      cases fs with
      | nil => simp [hname]
      | cons _ _ _ => simp [fieldsB] at hf
    · simp at hn
  · simp at hn

/-- `nilIn` is complete: the type of a nil value is flagged. -/
theorem nilIn_complete {T : Table} : ∀ (n t : Nat) (st : List Nat) (f : Nat),
    inhB T f st t (.tup none .nil) = true → nilIn T n t = true
  | 0, _, _, _, _ => rfl
  | n + 1, t, st, f, h => by
    cases f with
    | zero => simp [inhB] at h
    | succ f =>
      unfold inhB at h
      unfold nilIn
      cases hty : T.types[t]? with
      | none => rfl
      | some ty =>
        rw [hty] at h
        cases ty with
        | integer => simp at h
        | binary => simp at h
        | tuple id =>
          simp only at h ⊢
          unfold isNilTy
          rw [hty]
          simp only
          cases htu : T.tuples[id]? with
          | none => rw [htu] at h; simp at h
          | some info =>
            rw [htu] at h
            simp only [Bool.and_eq_true, decide_eq_true_eq] at h
            obtain ⟨h1, h2⟩ := h
            obtain ⟨name, fields⟩ := info
            simp only at h1 h2
            subst h1
            cases fields with
            | nil => rfl
            | cons _ _ => simp [fieldsB] at h2
        | union ids =>
          simp only at h ⊢
          obtain ⟨i, hi, hv⟩ := List.any_eq_true.mp h
          exact List.any_eq_true.mpr ⟨i, hi, nilIn_complete n i _ f hv⟩
        | _ => rfl

/-! ### `unionPair`, `unionOfTypes`, `withoutNil` -/

theorem unionOfTypes_fo {T : Table} {fuel u : Nat} {tys : List Nat} (h : unionOfTypes T fuel tys = some u)
    (ty : Nat) (hty : ty ∈ tys) : FO T ty := by
  unfold unionOfTypes at h
  split at h
  · rename_i hall
    exact ⟨fuel, List.all_eq_true.mp hall ty hty⟩
  · simp at h

theorem unionPair_inh {T : Table} {fuel x y u : Nat} (h : unionPair T fuel x y = some u) (w : V)
    (hw : inh T [] x w ∨ inh T [] y w) : inh T [] u w := by
  unfold unionPair at h
  split at h
  · rename_i hfo
    simp only [Bool.and_eq_true] at hfo
    split at h
    · rename_i hT
      simp only [Option.some.injEq] at h
      have hp : unionIds T [x, y] = (T, u) := by
        cases hq : unionIds T [x, y] with
        | mk T' u' => rw [hq] at hT h; simp only at hT h; rw [hT, h]
      exact (unionIds_pair hp ⟨fuel, hfo.1⟩ ⟨fuel, hfo.2⟩).2.2 w hw
    · simp at h
  · simp at h

theorem mem_eraseDups_of_mem {α : Type} [BEq α] [LawfulBEq α] {a : α} {l : List α} (h : a ∈ l) :
    a ∈ l.eraseDups := by
  exact List.mem_eraseDups.mpr h

theorem unionOfTypes_inh {T : Table} {fuel u : Nat} {tys : List Nat} (h : unionOfTypes T fuel tys = some u)
    (w : V) (ty : Nat) (hty : ty ∈ tys) (hw : inh T [] ty w) : inh T [] u w := by
  unfold unionOfTypes at h
  have hm : ty ∈ tys.eraseDups := mem_eraseDups_of_mem hty
  split at h
  case isFalse => simp at h
  split at h
  · rename_i a ha
    rw [ha] at hm
    simp only [List.mem_singleton] at hm
    simp only [Option.some.injEq] at h
    rw [← h, ← hm]; exact hw
  · rename_i a b hab
    rw [hab] at hm
    simp only [List.mem_cons, List.not_mem_nil, or_false] at hm
    rcases hm with hm | hm
    · exact unionPair_inh h w (Or.inl (hm ▸ hw))
    · exact unionPair_inh h w (Or.inr (hm ▸ hw))
  · simp at h

theorem flattenIds_cons (T : Table) (x : Nat) (rest : List Nat) :
    flattenIds T (x :: rest) = flat1 T x ++ flattenIds T rest := by
  unfold flat1
  rw [flattenIds]
  cases T.types[x]? with
  | none => rfl
  | some ty => cases ty <;> rfl

theorem mem_flattenIds {T : Table} : ∀ (ids : List Nat) (x i : Nat), x ∈ ids → i ∈ flat1 T x →
    i ∈ flattenIds T ids
  | [], _, _, h, _ => by cases h
  | y :: rest, x, i, h, hi => by
    rw [flattenIds_cons]
    rcases List.mem_cons.mp h with rfl | h'
    · exact List.mem_append_left _ hi
    · exact List.mem_append_right _ (mem_flattenIds rest x i h' hi)

theorem flattenIds_sub {T : Table} : ∀ (ids : List Nat) (i : Nat), i ∈ flattenIds T ids →
    ∃ x ∈ ids, i ∈ flat1 T x
  | [], _, h => by simp [flattenIds] at h
  | y :: rest, i, h => by
    rw [flattenIds_cons] at h
    rcases List.mem_append.mp h with h' | h'
    · exact ⟨y, List.mem_cons_self .., h'⟩
    · obtain ⟨x, hx, hi⟩ := flattenIds_sub rest i h'
      exact ⟨x, List.mem_cons_of_mem _ hx, hi⟩

/-- `union_type_ids` of first-order types contains every member's values. -/
theorem unionIds_many {T T' : Table} {ids : List Nat} {u : Nat} (h : unionIds T ids = (T', u))
    (hfo : ∀ x ∈ ids, FO T x) :
    Ext T T' ∧ ∀ v, (∃ x ∈ ids, inh T [] x v) → inh T' [] u v := by
  unfold unionIds at h
  generalize hl : dedupKeep [] (flattenIds T ids) = l at h
  have hmemFO : ∀ i ∈ l, FO T i := by
    intro i hi
    obtain ⟨x, hx, hix⟩ := flattenIds_sub ids i (dedupKeep_sub _ [] i (hl ▸ hi))
    exact flat1_fo (hfo x hx) i hix
  have hcover : ∀ v, (∃ x ∈ ids, inh T [] x v) → ∃ i ∈ l, inh T [] i v := by
    rintro v ⟨x, hx, hv⟩
    obtain ⟨i, hi, hiv⟩ := flat1_inh (hfo x hx) hv
    exact ⟨i, hl ▸ mem_dedupKeep _ [] i (mem_flattenIds ids x i hx hi) (by simp), hiv⟩
  match l, h, hmemFO, hcover with
  | [], h, _, hcover =>
    obtain ⟨hE, _⟩ := registerType_spec T (.union []) T' u h
    exact ⟨hE, fun v hv => by obtain ⟨i, hi, _⟩ := hcover v hv; cases hi⟩
  | [z], h, _, hcover =>
    simp only [Prod.mk.injEq] at h
    obtain ⟨rfl, rfl⟩ := h
    refine ⟨Ext.refl _, ?_⟩
    intro v hv
    obtain ⟨i, hi, hiv⟩ := hcover v hv
    simp at hi; subst hi; exact hiv
  | a :: b :: rest, h, hmemFO, hcover =>
    obtain ⟨hE, hu⟩ := registerType_spec T (.union (a :: b :: rest)) T' u h
    obtain ⟨n, hn⟩ := fo_all (a :: b :: rest) hmemFO
    refine ⟨hE, ?_⟩
    intro v hv
    obtain ⟨i, hi, f, hf⟩ := hcover v hv
    refine ⟨f + 1, ?_⟩
    unfold inhB; rw [hu]; simp only
    rw [List.any_eq_true]
    exact ⟨i, hi, inhB_transfer hE f n i v _ _ f (hn i hi) hf (Nat.le_refl _)⟩

theorem unionMany_inh {T : Table} {fuel u : Nat} {ids : List Nat} (h : unionMany T fuel ids = some u)
    (w : V) (x : Nat) (hx : x ∈ ids) (hw : inh T [] x w) : inh T [] u w := by
  unfold unionMany at h
  split at h
  · rename_i hall
    split at h
    · rename_i hT
      simp only [Option.some.injEq] at h
      have hp : unionIds T ids = (T, u) := by
        cases hq : unionIds T ids with
        | mk T' u' => rw [hq] at hT h; simp only at hT h; rw [hT, h]
      exact (unionIds_many hp (fun y hy => ⟨fuel, List.all_eq_true.mp hall y hy⟩)).2 w ⟨x, hx, hw⟩
    · simp at h
  · simp at h

theorem withoutNil_inh {T : Table} {fuel t t' : Nat} (h : withoutNil T fuel t = some t') (w : V)
    (hw : inh T [] t w) (hnn : w ≠ .tup none .nil) : inh T [] t' w := by
  unfold withoutNil at h
  split at h
  · rename_i hfo
    obtain ⟨i, hi, hiw⟩ := flat1_inh ⟨fuel, hfo⟩ hw
    have hin : isNilTy T i = false := by
      cases hb : isNilTy T i with
      | false => rfl
      | true => exact absurd (inh_isNilTy hb hiw) hnn
    have hmem : i ∈ (flat1 T t).filter (fun i => !isNilTy T i) := by
      simp [List.mem_filter, hi, hin]
    split at h
    · simp at h
    · exact unionMany_inh h w i hmem hiw
  · simp at h

end QM.Soundness
