import QuiverModel.Core.Soundness.WellTagged
/-
Lemmas for C01's `wellTagged_preserved`: every instruction of C07's M-VM preserves well-taggedness
of the values a process holds, given the `Obligation` of that instruction (which is `True` except
at `Tuple(id)`, `Call` of a builtin and `Select`). Core Lean only.
-/
namespace QM.Soundness
open QM.Types QM.VM

variable {T : Table} {D : Decls}

/-! ### lists of well-tagged values -/

theorem ListWT.nil : ListWT T D [] := fun _ h => by cases h

theorem ListWT.cons {v : Val} {l : List Val} (hv : WT T D v) (hl : ListWT T D l) : ListWT T D (v :: l) := by
  intro w hw
  rcases List.mem_cons.mp hw with rfl | hw
  · exact hv
  · exact hl w hw

theorem ListWT.head {v : Val} {l : List Val} (h : ListWT T D (v :: l)) : WT T D v :=
  h v (List.mem_cons_self ..)

theorem ListWT.tail {v : Val} {l : List Val} (h : ListWT T D (v :: l)) : ListWT T D l :=
  fun w hw => h w (List.mem_cons_of_mem _ hw)

theorem ListWT.append {l1 l2 : List Val} (h1 : ListWT T D l1) (h2 : ListWT T D l2) : ListWT T D (l1 ++ l2) := by
  intro w hw
  rcases List.mem_append.mp hw with hw | hw
  · exact h1 w hw
  · exact h2 w hw

theorem ListWT.sub {l l' : List Val} (h : ListWT T D l) (hs : ∀ w ∈ l', w ∈ l) : ListWT T D l' :=
  fun w hw => h w (hs w hw)

theorem ListWT.take {l : List Val} (h : ListWT T D l) (n : Nat) : ListWT T D (l.take n) :=
  h.sub (fun _ hw => List.mem_of_mem_take hw)

theorem ListWT.drop {l : List Val} (h : ListWT T D l) (n : Nat) : ListWT T D (l.drop n) :=
  h.sub (fun _ hw => List.mem_of_mem_drop hw)

theorem ListWT.reverse {l : List Val} (h : ListWT T D l) : ListWT T D l.reverse :=
  h.sub (fun _ hw => List.mem_reverse.mp hw)

theorem ListWT.eraseIdx {l : List Val} (h : ListWT T D l) (k : Nat) : ListWT T D (l.eraseIdx k) :=
  h.sub (fun _ hw => List.mem_of_mem_eraseIdx hw)

theorem ListWT.get {l : List Val} (h : ListWT T D l) {i : Nat} {v : Val} (hi : l[i]? = some v) : WT T D v :=
  h v (List.mem_of_getElem? hi)

/-! ### `AllWT`, `FieldsWT` and lists -/

theorem allWT_iff : ∀ (vs : ValList), AllWT T D vs ↔ ListWT T D vs.toList
  | .nil => by simp [AllWT, ListWT]
  | .cons v vs => by
    simp only [AllWT, ValList.toList_cons]
    constructor
    · intro h; exact ListWT.cons h.1 ((allWT_iff vs).mp h.2)
    · intro h; exact ⟨h.head, (allWT_iff vs).mpr h.tail⟩

theorem fieldsWT_list : ∀ (fields : List (Option Name × Nat)) (fs : ValList),
    FieldsWT T D fields fs → ListWT T D fs.toList
  | [], .nil, _ => ListWT.nil
  | [], .cons _ _, h => by simp [FieldsWT] at h
  | _ :: _, .nil, _ => ListWT.nil
  | f :: rest, .cons v vs, h => by
    simp only [FieldsWT] at h
    exact ListWT.cons h.1 (fieldsWT_list rest vs h.2.2)

theorem fieldsWT_of_typed : ∀ (fields : List (Option Name × Nat)) (vals : List Val),
    ListWT T D vals → FieldsTyped T D fields vals → FieldsWT T D fields (ValList.ofList vals)
  | [], [], _, _ => by simp [ValList.ofList, FieldsWT]
  | [], _ :: _, _, h => by simp [FieldsTyped] at h
  | _ :: _, [], _, h => by simp [FieldsTyped] at h
  | f :: rest, v :: vs, hl, h => by
    simp only [FieldsTyped] at h
    simp only [ValList.ofList, FieldsWT]
    exact ⟨hl.head, h.1, fieldsWT_of_typed rest vs hl.tail h.2⟩

theorem wt_ok (hT : TableInit T) : WT T D Val.ok := by
  obtain ⟨n, hn⟩ := hT.2
  exact ⟨_, hn, by simp [FieldsWT]⟩

theorem wt_nil (hT : TableInit T) : WT T D Val.nil := by
  obtain ⟨n, hn⟩ := hT.1
  exact ⟨_, hn, by simp [FieldsWT]⟩

theorem wt_verdict (hT : TableInit T) (b : Bool) : WT T D (if b then Val.ok else Val.nil) := by
  cases b
  · exact wt_nil hT
  · exact wt_ok hT

theorem wt_ite (hT : TableInit T) (c : Prop) [Decidable c] : WT T D (if c then Val.ok else Val.nil) := by
  split
  · exact wt_ok hT
  · exact wt_nil hT

/-! ### process-level bookkeeping -/

@[simp] theorem bump_stack (p : Proc) : p.bump.stack = p.stack := by unfold Proc.bump; split <;> rfl
@[simp] theorem bump_locals (p : Proc) : p.bump.locals = p.locals := by unfold Proc.bump; split <;> rfl
@[simp] theorem bump_mailbox (p : Proc) : p.bump.mailbox = p.mailbox := by unfold Proc.bump; split <;> rfl
@[simp] theorem bump_select (p : Proc) : p.bump.selectState = p.selectState := by unfold Proc.bump; split <;> rfl
@[simp] theorem bump_result (p : Proc) : p.bump.result = p.result := by unfold Proc.bump; split <;> rfl
@[simp] theorem setCounter_stack (p : Proc) (c : Nat) : (p.setCounter c).stack = p.stack := by
  unfold Proc.setCounter; split <;> rfl
@[simp] theorem setCounter_locals (p : Proc) (c : Nat) : (p.setCounter c).locals = p.locals := by
  unfold Proc.setCounter; split <;> rfl
@[simp] theorem setCounter_mailbox (p : Proc) (c : Nat) : (p.setCounter c).mailbox = p.mailbox := by
  unfold Proc.setCounter; split <;> rfl
@[simp] theorem setCounter_select (p : Proc) (c : Nat) : (p.setCounter c).selectState = p.selectState := by
  unfold Proc.setCounter; split <;> rfl
@[simp] theorem setCounter_result (p : Proc) (c : Nat) : (p.setCounter c).result = p.result := by
  unfold Proc.setCounter; split <;> rfl

/-- a successor state that keeps mailbox, select state and result, with well-tagged stack and locals. -/
theorem ProcWT.update {p p' : Proc} (h : ProcWT T D p) (hs : ListWT T D p'.stack) (hl : ListWT T D p'.locals)
    (hm : p'.mailbox = p.mailbox) (hsel : p'.selectState = p.selectState) (hr : p'.result = p.result) :
    ProcWT T D p' :=
  { stack := hs, locals := hl, mailbox := hm ▸ h.mailbox,
    sources := fun st hst => h.sources st (hsel ▸ hst),
    receiving := fun st k m hst hrc => h.receiving st k m (hsel ▸ hst) hrc,
    result := fun v hv => h.result v (hr ▸ hv) }

/-- extract the successor state from `ok q = .ok (p', a)`. -/
theorem ok_inj {q p' : Proc} {a : Option Action} (h : VM.ok q = Except.ok (p', a)) : p' = q ∧ a = none := by
  simp only [VM.ok, Except.ok.injEq, Prod.mk.injEq] at h
  exact ⟨h.1.symm, h.2.symm⟩

/-! ### the instructions that only move values -/

theorem wt_constant {P : Prog} {p p' : Proc} {a : Option Action} {i : Nat}
    (h : handleConstant P p i = .ok (p', a)) (hp : ProcWT T D p) : ProcWT T D p' ∧ ActionWT T D a := by
  unfold handleConstant at h
  split at h
  · cases h
  · obtain ⟨rfl, rfl⟩ := ok_inj h
    exact ⟨hp.update (by simpa [Proc.push] using ListWT.cons (by simp [WT]) hp.stack)
      (by simpa [Proc.push] using hp.locals) (by simp [Proc.push]) (by simp [Proc.push]) (by simp [Proc.push]), trivial⟩
  · obtain ⟨rfl, rfl⟩ := ok_inj h
    exact ⟨hp.update (by simpa [Proc.push] using ListWT.cons (by simp [WT]) hp.stack)
      (by simpa [Proc.push] using hp.locals) (by simp [Proc.push]) (by simp [Proc.push]) (by simp [Proc.push]), trivial⟩

theorem wt_pop {p p' : Proc} {a : Option Action} (h : handlePop p = .ok (p', a)) (hp : ProcWT T D p) :
    ProcWT T D p' ∧ ActionWT T D a := by
  unfold handlePop at h
  split at h
  · cases h
  · rename_i v s hs
    obtain ⟨rfl, rfl⟩ := ok_inj h
    have hst : ListWT T D (v :: s) := hs ▸ hp.stack
    exact ⟨hp.update (by simpa using hst.tail) (by simpa using hp.locals) (by simp) (by simp) (by simp), trivial⟩

theorem wt_duplicate {p p' : Proc} {a : Option Action} (h : handleDuplicate p = .ok (p', a))
    (hp : ProcWT T D p) : ProcWT T D p' ∧ ActionWT T D a := by
  unfold handleDuplicate at h
  split at h
  · cases h
  · rename_i v s hs
    obtain ⟨rfl, rfl⟩ := ok_inj h
    have hst : ListWT T D (v :: s) := hs ▸ hp.stack
    exact ⟨hp.update (by simpa using ListWT.cons hst.head hst) (by simpa using hp.locals)
      (by simp) (by simp) (by simp), trivial⟩

theorem wt_pick {p p' : Proc} {a : Option Action} {n : Nat} (h : handlePick p n = .ok (p', a))
    (hp : ProcWT T D p) : ProcWT T D p' ∧ ActionWT T D a := by
  unfold handlePick at h
  split at h
  · cases h
  · rename_i v hv
    obtain ⟨rfl, rfl⟩ := ok_inj h
    exact ⟨hp.update (by simpa [Proc.push] using ListWT.cons (hp.stack.get hv) hp.stack)
      (by simpa [Proc.push] using hp.locals) (by simp [Proc.push]) (by simp [Proc.push]) (by simp [Proc.push]), trivial⟩

theorem wt_rotate {p p' : Proc} {a : Option Action} {n : Nat} (h : handleRotate p n = .ok (p', a))
    (hp : ProcWT T D p) : ProcWT T D p' ∧ ActionWT T D a := by
  unfold handleRotate at h
  split at h
  · cases h
  · split at h
    · cases h
    · split at h
      · cases h
      · rename_i hitem
        obtain ⟨rfl, rfl⟩ := ok_inj h
        exact ⟨hp.update (by simpa using ListWT.cons (hp.stack.get hitem) (hp.stack.eraseIdx _))
          (by simpa using hp.locals) (by simp) (by simp) (by simp), trivial⟩

theorem wt_reset {p p' : Proc} {a : Option Action} {n : Nat} (h : handleReset p n = .ok (p', a))
    (hp : ProcWT T D p) : ProcWT T D p' ∧ ActionWT T D a := by
  unfold handleReset at h
  split at h
  · cases h
  · split at h
    · cases h
    · obtain ⟨rfl, rfl⟩ := ok_inj h
      exact ⟨hp.update (by simpa using hp.stack) (by simpa using hp.locals.take _) (by simp) (by simp) (by simp), trivial⟩

theorem wt_load {p p' : Proc} {a : Option Action} {i : Nat} (h : handleLoad p i = .ok (p', a))
    (hp : ProcWT T D p) : ProcWT T D p' ∧ ActionWT T D a := by
  unfold handleLoad at h
  split at h
  · cases h
  · split at h
    · cases h
    · rename_i v hv
      obtain ⟨rfl, rfl⟩ := ok_inj h
      exact ⟨hp.update (by simpa [Proc.push] using ListWT.cons (hp.locals.get hv) hp.stack)
        (by simpa [Proc.push] using hp.locals) (by simp [Proc.push]) (by simp [Proc.push]) (by simp [Proc.push]), trivial⟩

theorem wt_store {p p' : Proc} {a : Option Action} (h : handleStore p = .ok (p', a)) (hp : ProcWT T D p) :
    ProcWT T D p' ∧ ActionWT T D a := by
  unfold handleStore at h
  split at h
  · cases h
  · rename_i v s hs
    obtain ⟨rfl, rfl⟩ := ok_inj h
    have hst : ListWT T D (v :: s) := hs ▸ hp.stack
    exact ⟨hp.update (by simpa using hst.tail)
      (by simpa using hp.locals.append (ListWT.cons hst.head ListWT.nil)) (by simp) (by simp) (by simp), trivial⟩

theorem wt_get {p p' : Proc} {a : Option Action} {i : Nat} (h : handleGet p i = .ok (p', a))
    (hp : ProcWT T D p) : ProcWT T D p' ∧ ActionWT T D a := by
  unfold handleGet at h
  split at h
  · cases h
  · rename_i id els s hs
    split at h
    · cases h
    · rename_i e he
      obtain ⟨rfl, rfl⟩ := ok_inj h
      have hst : ListWT T D (.tup id els :: s) := hs ▸ hp.stack
      have htup := hst.head
      simp only [WT] at htup
      obtain ⟨info, _, hf⟩ := htup
      exact ⟨hp.update (by simpa using ListWT.cons ((fieldsWT_list _ _ hf).get he) hst.tail)
        (by simpa using hp.locals) (by simp) (by simp) (by simp), trivial⟩
  · cases h

theorem wt_isType (hT : TableInit T) {O : Oracle} {p p' : Proc} {a : Option Action} {id : Nat}
    (h : handleIsType O p id = .ok (p', a)) (hp : ProcWT T D p) : ProcWT T D p' ∧ ActionWT T D a := by
  unfold handleIsType at h
  split at h
  · cases h
  · rename_i v s hs
    obtain ⟨rfl, rfl⟩ := ok_inj h
    have hst : ListWT T D (v :: s) := hs ▸ hp.stack
    exact ⟨hp.update (by simpa using ListWT.cons (wt_verdict hT _) hst.tail) (by simpa using hp.locals)
      (by simp) (by simp) (by simp), trivial⟩

theorem wt_jump {p p' : Proc} {a : Option Action} {off : Int} (h : handleJump p off = .ok (p', a))
    (hp : ProcWT T D p) : ProcWT T D p' ∧ ActionWT T D a := by
  unfold handleJump at h
  split at h
  · cases h
  · split at h
    · obtain ⟨rfl, rfl⟩ := ok_inj h; exact ⟨hp, trivial⟩
    · obtain ⟨rfl, rfl⟩ := ok_inj h
      exact ⟨hp.update (by simpa using hp.stack) (by simpa using hp.locals) (by simp) (by simp) (by simp), trivial⟩

theorem wt_jumpIf {p p' : Proc} {a : Option Action} {off : Int} (h : handleJumpIf p off = .ok (p', a))
    (hp : ProcWT T D p) : ProcWT T D p' ∧ ActionWT T D a := by
  unfold handleJumpIf at h
  split at h
  · cases h
  · rename_i c s hs
    have hst : ListWT T D (c :: s) := hs ▸ hp.stack
    simp only at h
    split at h
    · split at h
      · cases h
      · split at h
        · obtain ⟨rfl, rfl⟩ := ok_inj h
          exact ⟨hp.update (by simpa using hst.tail) (by simpa using hp.locals) (by simp) (by simp) (by simp), trivial⟩
        · obtain ⟨rfl, rfl⟩ := ok_inj h
          exact ⟨hp.update (by simpa using hst.tail) (by simpa using hp.locals) (by simp) (by simp) (by simp), trivial⟩
    · obtain ⟨rfl, rfl⟩ := ok_inj h
      exact ⟨hp.update (by simpa using hst.tail) (by simpa using hp.locals) (by simp) (by simp) (by simp), trivial⟩

/-! ### constructors of values -/

theorem wt_tuple {P : Prog} {O : Oracle} {p p' : Proc} {a : Option Action} {id : Nat}
    (h : handleTuple P p id = .ok (p', a)) (hp : ProcWT T D p) (hob : Obligation T D O P p (.tuple id)) :
    ProcWT T D p' ∧ ActionWT T D a := by
  unfold handleTuple at h
  split at h
  · cases h
  · rename_i size hsize
    split at h
    · cases h
    · rename_i hlen
      obtain ⟨rfl, rfl⟩ := ok_inj h
      obtain ⟨info, hinfo, htyped⟩ := hob size hsize (by omega)
      have hvals : ListWT T D (p.stack.take size).reverse := (hp.stack.take size).reverse
      have hnew : WT T D (.tup id (ValList.ofList (p.stack.take size).reverse)) := by
        simp only [WT]
        exact ⟨info, hinfo, fieldsWT_of_typed _ _ hvals htyped⟩
      exact ⟨hp.update (by simpa using ListWT.cons hnew (hp.stack.drop size)) (by simpa using hp.locals)
        (by simp) (by simp) (by simp), trivial⟩

theorem wt_function {P : Prog} {p p' : Proc} {a : Option Action} {i : Nat}
    (h : handleFunction P p i = .ok (p', a)) (hp : ProcWT T D p) : ProcWT T D p' ∧ ActionWT T D a := by
  unfold handleFunction at h
  split at h
  · cases h
  · rename_i fn _
    split at h
    · cases h
    · obtain ⟨rfl, rfl⟩ := ok_inj h
      have hnew : WT T D (.fn i (ValList.ofList (p.stack.take fn.captures).reverse)) := by
        simp only [WT]
        rw [allWT_iff]; simpa using (hp.stack.take fn.captures).reverse
      exact ⟨hp.update (by simpa using ListWT.cons hnew (hp.stack.drop fn.captures)) (by simpa using hp.locals)
        (by simp) (by simp) (by simp), trivial⟩

theorem wt_builtinRef {P : Prog} {p p' : Proc} {a : Option Action} {i : Nat}
    (h : handleBuiltin P p i = .ok (p', a)) (hp : ProcWT T D p) : ProcWT T D p' ∧ ActionWT T D a := by
  unfold handleBuiltin at h
  split at h
  · cases h
  · obtain ⟨rfl, rfl⟩ := ok_inj h
    exact ⟨hp.update (by simpa [Proc.push] using ListWT.cons (by simp [WT]) hp.stack)
      (by simpa [Proc.push] using hp.locals) (by simp [Proc.push]) (by simp [Proc.push]) (by simp [Proc.push]), trivial⟩

theorem wt_equal (hT : TableInit T) {O : Oracle} {p p' : Proc} {a : Option Action} {n : Nat}
    (h : handleEqual O p n = .ok (p', a)) (hp : ProcWT T D p) : ProcWT T D p' ∧ ActionWT T D a := by
  unfold handleEqual at h
  split at h
  · cases h
  · split at h
    · cases h
    · obtain ⟨rfl, rfl⟩ := ok_inj h
      refine ⟨hp.update ?_ (by simpa using hp.locals) (by simp) (by simp) (by simp), trivial⟩
      simp only [bump_stack]
      exact ListWT.cons (wt_ite hT _) (hp.stack.drop n)

theorem wt_not (hT : TableInit T) {p p' : Proc} {a : Option Action}
    (h : handleNot p = .ok (p', a)) (hp : ProcWT T D p) : ProcWT T D p' ∧ ActionWT T D a := by
  unfold handleNot at h
  split at h
  · cases h
  · rename_i v s hs
    obtain ⟨rfl, rfl⟩ := ok_inj h
    have hst : ListWT T D (v :: s) := hs ▸ hp.stack
    exact ⟨hp.update (by simpa using ListWT.cons (wt_verdict hT _) hst.tail) (by simpa using hp.locals)
      (by simp) (by simp) (by simp), trivial⟩

theorem wt_self {p p' : Proc} {a : Option Action} (h : handleSelf p = .ok (p', a)) (hp : ProcWT T D p) :
    ProcWT T D p' ∧ ActionWT T D a := by
  unfold handleSelf at h
  split at h
  · cases h
  · obtain ⟨rfl, rfl⟩ := ok_inj h
    exact ⟨hp.update (by simpa [Proc.push] using ListWT.cons (by simp [WT]) hp.stack)
      (by simpa [Proc.push] using hp.locals) (by simp [Proc.push]) (by simp [Proc.push]) (by simp [Proc.push]), trivial⟩

theorem wt_processRef {p p' : Proc} {a : Option Action} {pid fidx : Nat}
    (h : handleProcessRef p pid fidx = .ok (p', a)) (hp : ProcWT T D p) : ProcWT T D p' ∧ ActionWT T D a := by
  unfold handleProcessRef at h
  obtain ⟨rfl, rfl⟩ := ok_inj h
  exact ⟨hp.update (by simpa [Proc.push] using ListWT.cons (by simp [WT]) hp.stack)
    (by simpa [Proc.push] using hp.locals) (by simp [Proc.push]) (by simp [Proc.push]) (by simp [Proc.push]), trivial⟩

/-! ### the typed entry points: values are moved, nothing is re-tagged -/

theorem wt_call {O : Oracle} {P : Prog} {p p' : Proc} {a : Option Action}
    (h : handleCall O P p = .ok (p', a)) (hp : ProcWT T D p)
    (hob : ∀ id param rest v, p.stack = .builtin id :: param :: rest → O.builtin id param = .value v → WT T D v) :
    ProcWT T D p' ∧ ActionWT T D a := by
  unfold handleCall at h
  cases hstk : p.stack with
  | nil => rw [hstk] at h; cases h
  | cons top s =>
    have hst : ListWT T D (top :: s) := hstk ▸ hp.stack
    rw [hstk] at h
    cases top with
    | fn fi caps =>
      simp only at h
      split at h
      · cases h
      · cases s with
        | nil => cases h
        | cons param s' =>
          simp only [Except.ok.injEq, Prod.mk.injEq] at h
          obtain ⟨rfl, rfl⟩ := h
          have hcaps : ListWT T D caps.toList := by
            have := hst.head; simp only [WT] at this; exact (allWT_iff caps).mp this
          exact ⟨hp.update hst.tail (hp.locals.append hcaps) rfl rfl rfl, trivial⟩
    | builtin id =>
      simp only at h
      cases s with
      | nil => cases h
      | cons param s' =>
        simp only at h
        have hrest : ListWT T D s' := hst.tail.tail
        cases hb : O.builtin id param with
        | unrecognised => rw [hb] at h; cases h
        | fail cls => rw [hb] at h; cases h
        | value v =>
          rw [hb] at h
          obtain ⟨rfl, rfl⟩ := ok_inj h
          refine ⟨hp.update ?_ (by simpa using hp.locals) (by simp) (by simp) (by simp), trivial⟩
          simp only [bump_stack]
          exact ListWT.cons (hob id param s' v hstk hb) hrest
        | action =>
          rw [hb] at h
          simp only [Except.ok.injEq, Prod.mk.injEq] at h
          obtain ⟨rfl, rfl⟩ := h
          exact ⟨hp.update hrest hp.locals rfl rfl rfl, trivial⟩
    | int _ => cases h
    | bin _ => cases h
    | ref _ => cases h
    | tup _ _ => cases h
    | proc _ _ => cases h
    | res _ _ => cases h

theorem wt_tailCall {P : Prog} {p p' : Proc} {a : Option Action} {r : Bool}
    (h : handleTailCall P p r = .ok (p', a)) (hp : ProcWT T D p) : ProcWT T D p' ∧ ActionWT T D a := by
  unfold handleTailCall at h
  cases hstk : p.stack with
  | nil => rw [hstk] at h; cases r <;> simp at h
  | cons top s =>
    have hst : ListWT T D (top :: s) := hstk ▸ hp.stack
    rw [hstk] at h
    cases r with
    | true =>
      simp only [if_true] at h
      cases hfr : p.frames with
      | nil => rw [hfr] at h; cases h
      | cons f fr =>
        rw [hfr] at h
        simp only [Except.ok.injEq, Prod.mk.injEq] at h
        obtain ⟨rfl, rfl⟩ := h
        exact ⟨hp.update hst (hp.locals.take _) rfl rfl rfl, trivial⟩
    | false =>
      simp only [Bool.false_eq_true, if_false] at h
      cases s with
      | nil => cases h
      | cons arg s' =>
        simp only at h
        cases top with
        | fn fi caps =>
          simp only at h
          split at h
          · cases h
          · cases hfr : p.frames with
            | nil => rw [hfr] at h; cases h
            | cons f fr =>
              rw [hfr] at h
              simp only [Except.ok.injEq, Prod.mk.injEq] at h
              obtain ⟨rfl, rfl⟩ := h
              have hcaps : ListWT T D caps.toList := by
                have := hst.head; simp only [WT] at this; exact (allWT_iff caps).mp this
              exact ⟨hp.update hst.tail ((hp.locals.take _).append hcaps) rfl rfl rfl, trivial⟩
        | int _ => cases h
        | bin _ => cases h
        | ref _ => cases h
        | tup _ _ => cases h
        | builtin _ => cases h
        | proc _ _ => cases h
        | res _ _ => cases h

theorem wt_spawn {p p' : Proc} {a : Option Action} (h : handleSpawn p = .ok (p', a)) (hp : ProcWT T D p) :
    ProcWT T D p' ∧ ActionWT T D a := by
  unfold handleSpawn at h
  split at h
  · cases h
  · cases hstk : p.stack with
    | nil => rw [hstk] at h; cases h
    | cons fv s =>
      have hst : ListWT T D (fv :: s) := hstk ▸ hp.stack
      rw [hstk] at h
      cases s with
      | nil => cases h
      | cons arg s' =>
        simp only at h
        cases fv with
        | fn fi caps =>
          simp only [Except.ok.injEq, Prod.mk.injEq] at h
          obtain ⟨rfl, rfl⟩ := h
          have hcaps : ListWT T D caps.toList := by
            have := hst.head; simp only [WT] at this; exact (allWT_iff caps).mp this
          exact ⟨hp.update hst.tail.tail hp.locals rfl rfl rfl, hcaps, hst.tail.head⟩
        | int _ => cases h
        | bin _ => cases h
        | ref _ => cases h
        | tup _ _ => cases h
        | builtin _ => cases h
        | proc _ _ => cases h
        | res _ _ => cases h

theorem wt_send {p p' : Proc} {a : Option Action} (h : handleSend p = .ok (p', a)) (hp : ProcWT T D p) :
    ProcWT T D p' ∧ ActionWT T D a := by
  unfold handleSend at h
  split at h
  · cases h
  · cases hstk : p.stack with
    | nil => rw [hstk] at h; cases h
    | cons target s =>
      have hst : ListWT T D (target :: s) := hstk ▸ hp.stack
      rw [hstk] at h
      cases s with
      | nil => cases h
      | cons message s' =>
        simp only at h
        cases target with
        | proc tp fx =>
          simp only [Except.ok.injEq, Prod.mk.injEq] at h
          obtain ⟨rfl, rfl⟩ := h
          refine ⟨hp.update ?_ (by simpa using hp.locals) (by simp) (by simp) (by simp), hst.tail.head⟩
          simp only [bump_stack]
          exact ListWT.cons hst.head hst.tail.tail
        | int _ => cases h
        | bin _ => cases h
        | ref _ => cases h
        | tup _ _ => cases h
        | builtin _ => cases h
        | fn _ _ => cases h
        | res _ _ => cases h

/-! ### `Select` -/

theorem selectSources_wt {v : Val} (hv : WT T D v) : ListWT T D (selectSources v) := by
  cases v with
  | tup id els =>
    simp only [selectSources]
    simp only [WT] at hv
    obtain ⟨info, _, hf⟩ := hv
    exact fieldsWT_list _ _ hf
  | _ => simpa [selectSources] using ListWT.cons hv ListWT.nil

theorem wt_selectDecide {O : Oracle} {P : Prog} {p p' : Proc} {a : Option Action} {st : SelectState}
    (h : selectDecide O P p st = .ok (p', a))
    (hs : ListWT T D p.stack) (hl : ListWT T D p.locals) (hm : ListWT T D p.mailbox)
    (hr : ∀ v, p.result = some (.ok v) → WT T D v) (hsrc : ListWT T D st.sources)
    (hob : (∀ v, O.select = .complete v → WT T D v) ∧ (∀ k m, O.select = .callReceive k m → WT T D m)) :
    ProcWT T D p' ∧ ActionWT T D a := by
  unfold selectDecide at h
  cases hsel : O.select with
  | complete v =>
    rw [hsel] at h
    obtain ⟨rfl, rfl⟩ := ok_inj h
    refine ⟨⟨?_, by simpa using hl, by simpa using hm, ?_, ?_, by simpa using hr⟩, trivial⟩
    · simp only [bump_stack]; exact ListWT.cons (hob.1 v hsel) hs
    · intro st' hst'; simp at hst'
    · intro st' k m hst'; simp at hst'
  | callReceive k msg =>
    rw [hsel] at h
    simp only at h
    cases hk : st.sources[k]? with
    | none => rw [hk] at h; cases h
    | some src =>
      rw [hk] at h
      cases src with
      | fn fi caps =>
        simp only at h
        have hfn : WT T D (.fn fi caps) := hsrc.get hk
        have hmsg : WT T D msg := hob.2 k msg hsel
        refine wt_call h ⟨ListWT.cons hfn (ListWT.cons hmsg hs), hl, hm, ?_, ?_, hr⟩ ?_
        · intro st' hst'
          simp only [Option.some.injEq] at hst'
          subst hst'; exact hsrc
        · intro st' k' m' hst' hrc
          simp only [Option.some.injEq] at hst'
          subst hst'
          simp only [Option.some.injEq, Prod.mk.injEq] at hrc
          exact hrc.2 ▸ hmsg
        · intro id param rest v hstk
          simp at hstk
      | int _ => cases h
      | bin _ => cases h
      | ref _ => cases h
      | tup _ _ => cases h
      | builtin _ => cases h
      | proc _ _ => cases h
      | res _ _ => cases h
  | park =>
    rw [hsel] at h
    obtain ⟨rfl, rfl⟩ := ok_inj h
    refine ⟨⟨hs, hl, hm, ?_, ?_, hr⟩, trivial⟩
    · intro st' hst'
      simp only [Option.some.injEq] at hst'
      subst hst'; exact hsrc
    · intro st' k m hst' hrc
      simp only [Option.some.injEq] at hst'
      subst hst'
      simp at hrc
  | failType => rw [hsel] at h; cases h
  | failInvalid => rw [hsel] at h; cases h
  | failAwaited _ => rw [hsel] at h; cases h

theorem wt_select {O : Oracle} {P : Prog} {p p' : Proc} {a : Option Action}
    (h : handleSelect O P p = .ok (p', a)) (hp : ProcWT T D p)
    (hob : (∀ v, O.select = .complete v → WT T D v) ∧ (∀ k m, O.select = .callReceive k m → WT T D m)) :
    ProcWT T D p' ∧ ActionWT T D a := by
  unfold handleSelect at h
  cases hss : p.selectState with
  | some st =>
    rw [hss] at h
    simp only at h
    split at h
    · cases h
    · cases hrc : st.receiving with
      | some km =>
        rw [hrc] at h
        simp only at h
        cases hstk : p.stack with
        | nil => rw [hstk] at h; cases h
        | cons verdict s =>
          rw [hstk] at h
          simp only at h
          exact wt_selectDecide h (by simpa using (hstk ▸ hp.stack).tail) hp.locals hp.mailbox hp.result
            (hp.sources st hss) hob
      | none =>
        rw [hrc] at h
        simp only at h
        exact wt_selectDecide h hp.stack hp.locals hp.mailbox hp.result (hp.sources st hss) hob
  | none =>
    rw [hss] at h
    simp only at h
    cases hstk : p.stack with
    | nil => rw [hstk] at h; cases h
    | cons v s =>
      rw [hstk] at h
      simp only at h
      have hst : ListWT T D (v :: s) := hstk ▸ hp.stack
      have hsrc := selectSources_wt hst.head
      split at h
      · obtain ⟨rfl, rfl⟩ := ok_inj h
        refine ⟨⟨hst.tail, hp.locals, hp.mailbox, ?_, ?_, hp.result⟩, trivial⟩
        · intro st' hst'
          simp only [Option.some.injEq] at hst'
          subst hst'; exact hsrc
        · intro st' k m hst' hrc
          simp only [Option.some.injEq] at hst'
          subst hst'
          simp at hrc
      · simp only [Except.ok.injEq, Prod.mk.injEq] at h
        obtain ⟨rfl, rfl⟩ := h
        refine ⟨⟨hst.tail, hp.locals, hp.mailbox, ?_, ?_, hp.result⟩, trivial⟩
        · intro st' hst'
          simp only [Option.some.injEq] at hst'
          subst hst'; exact hsrc
        · intro st' k m hst' hrc
          simp only [Option.some.injEq] at hst'
          subst hst'
          simp at hrc

/-! ### every instruction -/

/-- **Well-taggedness is preserved by every instruction of the VM, given the instruction's
obligation** (`True` except at `Tuple(id)`, `Call` of a builtin, `Select`). -/
theorem stepInstr_preserves_wt (hT : TableInit T) (O : Oracle) (P : Prog) (p p' : Proc)
    (a : Option Action) (i : Instr) (h : stepInstr O P p i = .ok (p', a)) (hp : ProcWT T D p)
    (hob : Obligation T D O P p i) : ProcWT T D p' ∧ ActionWT T D a := by
  cases i with
  | constant i => exact wt_constant h hp
  | pop => exact wt_pop h hp
  | duplicate => exact wt_duplicate h hp
  | pick n => exact wt_pick h hp
  | rotate n => exact wt_rotate h hp
  | reset n => exact wt_reset h hp
  | load i => exact wt_load h hp
  | store => exact wt_store h hp
  | tuple id => exact wt_tuple (O := O) h hp hob
  | get i => exact wt_get h hp
  | isType id => exact wt_isType hT h hp
  | jump off => exact wt_jump h hp
  | jumpIf off => exact wt_jumpIf h hp
  | call => exact wt_call h hp hob
  | tailCall r => exact wt_tailCall h hp
  | function i => exact wt_function h hp
  | builtin i => exact wt_builtinRef h hp
  | equal n => exact wt_equal hT h hp
  | not => exact wt_not hT h hp
  | spawn => exact wt_spawn h hp
  | send => exact wt_send h hp
  | self_ => exact wt_self h hp
  | select => exact wt_select h hp hob
  | process pid fidx => exact wt_processRef h hp

end QM.Soundness
