import QuiverModel.Core.Soundness.FieldAccess
import QuiverModel.Core.Types.Inh
/-
Lemmas for C01's `field_by_name_sound`: when the model of `get_field_by_name` accepts `e.x` on a
tuple type or a union of tuple types with index `idx`, every value of that type is a tuple whose
field number `idx` is labelled `x` and lies in one of the collected field types. Core Lean only.
-/
namespace QM.Soundness
open QM.Types

theorem findLabelled_spec (x : Name) : ∀ (fields : List (Option Name × Nat)) (i j ft : Nat),
    findLabelled x fields i = some (j, ft) → ∃ k, j = i + k ∧ fields[k]? = some (some x, ft)
  | [], _, _, _, h => by simp [findLabelled] at h
  | (l, t) :: rest, i, j, ft, h => by
    unfold findLabelled at h
    by_cases hl : l = some x
    · simp only [hl, if_true, Option.some.injEq, Prod.mk.injEq] at h
      exact ⟨0, by omega, by simp [hl, h.2]⟩
    · simp only [hl, if_false] at h
      obtain ⟨k, hk, hf⟩ := findLabelled_spec x rest (i + 1) j ft h
      exact ⟨k + 1, by omega, by simpa using hf⟩

theorem fieldsB_at {g : Nat → V → Bool} : ∀ (fields : List (Option Name × Nat)) (fs : VFields) (k : Nat)
    (l : Option Name) (ft : Nat), fieldsB g fields fs = true → fields[k]? = some (l, ft) →
    ∃ u, fs.toList[k]? = some (l, u) ∧ g ft u = true
  | [], _, _, _, _, _, hk => by simp at hk
  | _ :: _, .nil, _, _, _, h, _ => by simp [fieldsB] at h
  | p :: rest, .cons l' v vs, k, l, ft, h, hk => by
    simp only [fieldsB, Bool.and_eq_true, decide_eq_true_eq] at h
    obtain ⟨⟨h1, h2⟩, h3⟩ := h
    cases k with
    | zero =>
      simp only [List.getElem?_cons_zero, Option.some.injEq] at hk
      subst hk
      exact ⟨v, by simp [VFields.toList, ← h1], h2⟩
    | succ k =>
      simp only [List.getElem?_cons_succ] at hk
      obtain ⟨u, hu, hg⟩ := fieldsB_at rest vs k l ft h3 hk
      exact ⟨u, by simpa [VFields.toList] using hu, hg⟩

/-- one tuple variant: the value has the labelled field at the index the source reports. -/
theorem tuple_field {T : Table} {i id idx ft : Nat} {x : Name} {st : List Nat} {v : V}
    (hty : T.types[i]? = some (.tuple id))
    (hsrc : fieldFromSource T x (.tuple id) = some (idx, ft)) (hv : inh T st i v) :
    ∃ name fs u, v = .tup name fs ∧ fs.toList[idx]? = some (some x, u) ∧ inh T st ft u := by
  obtain ⟨f, hf⟩ := hv
  cases f with
  | zero => simp [inhB] at hf
  | succ f =>
    unfold inhB at hf; rw [hty] at hf; simp only at hf
    unfold fieldFromSource at hsrc
    simp only at hsrc
    cases htu : T.tuples[id]? with
    | none => rw [htu] at hsrc; cases hsrc
    | some info =>
      rw [htu] at hsrc hf
      obtain ⟨k, hk, hfield⟩ := findLabelled_spec x info.fields 0 idx ft hsrc
      have hk' : idx = k := by omega
      subst hk'
      cases v with
      | tup name fs =>
        simp only [Bool.and_eq_true, decide_eq_true_eq] at hf
        obtain ⟨u, hu, hg⟩ := fieldsB_at info.fields fs idx (some x) ft hf.2 hfield
        exact ⟨name, fs, u, rfl, hu, f, hg⟩
      | _ => simp at hf

/-- what an accepting run of the source loop guarantees (rule `always`). -/
theorem fieldLoop_ok {T : Table} {x : Name} : ∀ (srcs : List FieldSource) (common : Option Nat)
    (results : List Nat) (idx : Nat) (tys : List Nat),
    fieldLoop .always T x srcs common results = .ok idx tys →
    (∀ c, common = some c → c = idx) ∧ (∀ r ∈ results, r ∈ tys) ∧
      ∀ src ∈ srcs, ∃ ft, fieldFromSource T x src = some (idx, ft) ∧ ft ∈ tys
  | [], common, results, idx, tys, h => by
    unfold fieldLoop at h
    cases common with
    | none => simp at h
    | some c =>
      cases results with
      | nil => simp at h
      | cons r rs =>
        simp only [FieldVerdict.ok.injEq] at h
        obtain ⟨rfl, rfl⟩ := h
        exact ⟨fun c' hc => by cases hc; rfl, fun r' hr => hr, fun _ hs => by cases hs⟩
  | src :: rest, common, results, idx, tys, h => by
    unfold fieldLoop at h
    cases hf : fieldFromSource T x src with
    | none => rw [hf] at h; cases h
    | some p =>
      obtain ⟨i, ft⟩ := p
      rw [hf] at h
      simp only [reduceCtorEq, false_and, if_false] at h
      cases common with
      | some prev =>
        simp only at h
        by_cases hp : prev = i
        · subst hp
          simp only [ne_eq, not_true_eq_false, if_false] at h
          obtain ⟨h1, h2, h3⟩ := fieldLoop_ok rest (some prev) (results ++ [ft]) idx tys h
          have hidx : prev = idx := h1 prev rfl
          refine ⟨fun c hc => by (cases hc; exact hidx), fun r hr => h2 r (List.mem_append_left _ hr), ?_⟩
          intro s hs
          rcases List.mem_cons.mp hs with rfl | hs
          · exact ⟨ft, by rw [hf, hidx], h2 ft (by simp)⟩
          · exact h3 s hs
        · simp [hp] at h
      | none =>
        simp only at h
        obtain ⟨h1, h2, h3⟩ := fieldLoop_ok rest (some i) (results ++ [ft]) idx tys h
        have hidx : i = idx := h1 i rfl
        refine ⟨fun c hc => by (cases hc), fun r hr => h2 r (List.mem_append_left _ hr), ?_⟩
        intro s hs
        rcases List.mem_cons.mp hs with rfl | hs
        · exact ⟨ft, by rw [hf, hidx], h2 ft (by simp)⟩
        · exact h3 s hs

/-- the sources of a union whose members are all tuple types. -/
theorem extract_union_tuples {T : Table} {fuel : Nat} : ∀ (ids : List Nat) (acc : List FieldSource),
    (∀ i ∈ ids, ∃ id, T.types[i]? = some (.tuple id)) →
    ∃ l, ids.foldl (fun acc i => appendSources acc (extractFieldSources T (fuel + 1) i)) (some acc) =
        some (acc ++ l) ∧
      ∀ i ∈ ids, ∀ id, T.types[i]? = some (.tuple id) → FieldSource.tuple id ∈ l
  | [], acc, _ => ⟨[], by simp, fun _ h => by cases h⟩
  | i :: rest, acc, h => by
    obtain ⟨id, hid⟩ := h i (List.mem_cons_self ..)
    have hx : extractFieldSources T (fuel + 1) i = some [.tuple id] := by
      unfold extractFieldSources; rw [hid]
    obtain ⟨l, hl, hm⟩ := extract_union_tuples rest (acc ++ [.tuple id])
      (fun j hj => h j (List.mem_cons_of_mem _ hj))
    refine ⟨.tuple id :: l, ?_, ?_⟩
    · have hstep : appendSources (some acc) (some [FieldSource.tuple id]) = some (acc ++ [.tuple id]) := rfl
      rw [List.foldl_cons, hx, hstep, hl]; simp
    · intro j hj id' hid'
      rcases List.mem_cons.mp hj with rfl | hj
      · rw [hid] at hid'; cases hid'; exact List.mem_cons_self ..
      · exact List.mem_cons_of_mem _ (hm j hj id' hid')

end QM.Soundness
