import QuiverModel.Lemmas.Soundness.Basic
/-
Lemmas for C01's positive guard theorem, part 2: the fragment (first-order patterns without unions,
closed union-free arguments), the meaning of an instantiated pattern (`InhP`), invariants of the
bindings, and soundness of `unifyWith` on the fragment (`unify_sound_aux`). Core Lean only.
-/
namespace QM.Soundness
open QM.Types

/-! ### The fragment -/

/-- parameter types of the fragment: int, bin, type variables, tuples of such. -/
def patT (T : Table) : Nat → Nat → Bool
  | 0, _ => false
  | n + 1, p =>
    match T.types[p]? with
    | some .integer => true
    | some .binary => true
    | some (.variable _) => true
    | some (.tuple id) =>
      match T.tuples[id]? with
      | some info => info.fields.all (fun f => patT T n f.2)
      | none => false
    | _ => false

/-- argument types of the fragment: int, bin, tuples and unions of such (closed, cycle-free,
first-order). -/
def argT (T : Table) : Nat → Nat → Bool
  | 0, _ => false
  | n + 1, a =>
    match T.types[a]? with
    | some .integer => true
    | some .binary => true
    | some (.tuple id) =>
      match T.tuples[id]? with
      | some info => info.fields.all (fun f => argT T n f.2)
      | none => false
    | some (.union ids) => ids.all (argT T n)
    | _ => false

theorem patT_fo {T : Table} : ∀ (n p : Nat), patT T n p = true → foV T n p = true := by
  intro n
  induction n with
  | zero => intro p h; simp [patT] at h
  | succ n ih =>
    intro p h
    unfold patT at h; unfold foV
    cases hty : T.types[p]? with
    | none => rw [hty] at h; simp at h
    | some ty =>
      rw [hty] at h
      cases ty with
      | integer => rfl
      | binary => rfl
      | «variable» _ => rfl
      | tuple id =>
        simp only at h ⊢
        cases htu : T.tuples[id]? with
        | none => rw [htu] at h; simp at h
        | some info =>
          rw [htu] at h; simp only at h ⊢
          rw [List.all_eq_true] at h ⊢
          exact fun q hq => ih q.2 (h q hq)
      | _ => simp at h

theorem argT_fo {T : Table} : ∀ (n a : Nat), argT T n a = true → foV T n a = true := by
  intro n
  induction n with
  | zero => intro p h; simp [argT] at h
  | succ n ih =>
    intro p h
    unfold argT at h; unfold foV
    cases hty : T.types[p]? with
    | none => rw [hty] at h; simp at h
    | some ty =>
      rw [hty] at h
      cases ty with
      | integer => rfl
      | binary => rfl
      | union ids =>
        simp only at h ⊢
        rw [List.all_eq_true] at h ⊢
        exact fun i hi => ih i (h i hi)
      | tuple id =>
        simp only at h ⊢
        cases htu : T.tuples[id]? with
        | none => rw [htu] at h; simp at h
        | some info =>
          rw [htu] at h; simp only at h ⊢
          rw [List.all_eq_true] at h ⊢
          exact fun q hq => ih q.2 (h q hq)
      | _ => simp at h

theorem patT_transfer {T T' : Table} (hE : Ext T T') :
    ∀ (n p m : Nat), patT T n p = true → n ≤ m → patT T' m p = true := by
  intro n
  induction n with
  | zero => intro p m h; simp [patT] at h
  | succ n ih =>
    intro p m h hle
    cases m with
    | zero => omega
    | succ m =>
      have hle' : n ≤ m := by omega
      unfold patT at h ⊢
      cases hty : T.types[p]? with
      | none => rw [hty] at h; simp at h
      | some ty =>
        rw [hty] at h; rw [hE.1 p ty hty]
        cases ty with
        | integer => rfl
        | binary => rfl
        | «variable» _ => rfl
        | tuple id =>
          simp only at h ⊢
          cases htu : T.tuples[id]? with
          | none => rw [htu] at h; simp at h
          | some info =>
            rw [htu] at h; rw [hE.2 id info htu]; simp only at h ⊢
            rw [List.all_eq_true] at h ⊢
            exact fun q hq => ih q.2 m (h q hq) hle'
        | _ => simp at h

theorem argT_transfer {T T' : Table} (hE : Ext T T') :
    ∀ (n p m : Nat), argT T n p = true → n ≤ m → argT T' m p = true := by
  intro n
  induction n with
  | zero => intro p m h; simp [argT] at h
  | succ n ih =>
    intro p m h hle
    cases m with
    | zero => omega
    | succ m =>
      have hle' : n ≤ m := by omega
      unfold argT at h ⊢
      cases hty : T.types[p]? with
      | none => rw [hty] at h; simp at h
      | some ty =>
        rw [hty] at h; rw [hE.1 p ty hty]
        cases ty with
        | integer => rfl
        | binary => rfl
        | union ids =>
          simp only at h ⊢
          rw [List.all_eq_true] at h ⊢
          exact fun i hi => ih i m (h i hi) hle'
        | tuple id =>
          simp only at h ⊢
          cases htu : T.tuples[id]? with
          | none => rw [htu] at h; simp at h
          | some info =>
            rw [htu] at h; rw [hE.2 id info htu]; simp only at h ⊢
            rw [List.all_eq_true] at h ⊢
            exact fun q hq => ih q.2 m (h q hq) hle'
        | _ => simp at h

/-! ### Meaning of a pattern under bindings -/

/-- positional match of declared fields against a value's fields, `Prop`-valued. -/
def FieldsP (g : Nat → V → Prop) : List (Option Name × Nat) → VFields → Prop
  | [], .nil => True
  | p :: rest, .cons l v vs => p.1 = l ∧ g p.2 v ∧ FieldsP g rest vs
  | _, _ => False

theorem FieldsP_mono {g g' : Nat → V → Prop} :
    ∀ (fields : List (Option Name × Nat)) (fs : VFields),
      (∀ p ∈ fields, ∀ v, g p.2 v → g' p.2 v) → FieldsP g fields fs → FieldsP g' fields fs
  | [], .nil, _, h => h
  | [], .cons _ _ _, _, h => by simp [FieldsP] at h
  | _ :: _, .nil, _, h => by simp [FieldsP] at h
  | p :: rest, .cons l v vs, hg, h => by
    simp only [FieldsP] at h ⊢
    exact ⟨h.1, hg p (List.mem_cons_self ..) v h.2.1,
      FieldsP_mono rest vs (fun q hq => hg q (List.mem_cons_of_mem _ hq)) h.2.2⟩

/-- `v` is a value of the pattern type `p` with every type variable replaced by its binding
(explored `n` levels deep; an unbound variable admits nothing). This is what
`inh (substitute σ p)` means on the fragment — see `substitute_sound`. -/
def InhP (T : Table) (b : Bindings) : Nat → Nat → V → Prop
  | 0, _, _ => False
  | n + 1, p, v =>
    match T.types[p]? with
    | some (.variable x) =>
      match b.get x with
      | some t => inh T [] t v
      | none => False
    | some .integer => ∃ z, v = .int z
    | some .binary => ∃ bs, v = .bin bs
    | some (.tuple id) =>
      match T.tuples[id]?, v with
      | some info, .tup name fs => name = info.name ∧ FieldsP (InhP T b n) info.fields fs
      | _, _ => False
    | _ => False

/-! ### Bindings -/

theorem get_insert_self : ∀ (b : Bindings) (x t : Nat), (b.insert x t).get x = some t
  | [], x, t => by simp [Bindings.insert, Bindings.get, List.lookup]
  | (k, w) :: rest, x, t => by
    unfold Bindings.insert
    by_cases hk : k = x
    · subst hk; simp [Bindings.get, List.lookup]
    · have ih := get_insert_self rest x t
      have hxk : (x == k) = false := by simpa using fun h => hk h.symm
      simp only [hk, if_false, Bindings.get, List.lookup, hxk] at ih ⊢
      exact ih

theorem get_insert_ne : ∀ (b : Bindings) (x y t : Nat), x ≠ y → (b.insert x t).get y = b.get y
  | [], x, y, t, h => by
    have : (y == x) = false := by simpa using fun e => h e.symm
    simp [Bindings.insert, Bindings.get, List.lookup, this]
  | (k, w) :: rest, x, y, t, h => by
    unfold Bindings.insert
    by_cases hk : k = x
    · subst hk
      have : (y == k) = false := by simpa using fun e => h e.symm
      simp [Bindings.get, List.lookup, this]
    · have ih := get_insert_ne rest x y t h
      simp only [hk, if_false, Bindings.get, List.lookup] at ih ⊢
      cases hyk : (y == k) with
      | true => rfl
      | false => exact ih

/-- every bound type is first-order. -/
def BOk (T : Table) (b : Bindings) : Prop := ∀ x t, b.get x = some t → FO T t

/-- the bindings only grow: every bound variable stays bound, to a type with at least the same
values (in the extended table). -/
def BLe (T T' : Table) (b b' : Bindings) : Prop :=
  ∀ x t, b.get x = some t → ∃ t', b'.get x = some t' ∧ ∀ v, inh T [] t v → inh T' [] t' v

theorem BLe.refl' {T T' : Table} (hE : Ext T T') {b : Bindings} (hb : BOk T b) : BLe T T' b b :=
  fun x t h => ⟨t, h, fun _ hv => inh_ext hE (hb x t h) hv⟩

theorem BLe.trans {A B C : Table} {b1 b2 b3 : Bindings} (h1 : BLe A B b1 b2) (h2 : BLe B C b2 b3) :
    BLe A C b1 b3 := by
  intro x t h
  obtain ⟨t', ht', hv'⟩ := h1 x t h
  obtain ⟨t'', ht'', hv''⟩ := h2 x t' ht'
  exact ⟨t'', ht'', fun v hv => hv'' v (hv' v hv)⟩

theorem BOk.ext {T T' : Table} (hE : Ext T T') {b : Bindings} (hb : BOk T b) : BOk T' b :=
  fun x t h => (hb x t h).ext hE

/-- `InhP` is preserved when the table is extended, the bindings grow and the depth increases. -/
theorem InhP_mono {T T' : Table} {b b' : Bindings} (hE : Ext T T') (hL : BLe T T' b b') :
    ∀ (n p : Nat) (v : V) (m : Nat), patT T n p = true → InhP T b n p v → n ≤ m → InhP T' b' m p v := by
  intro n
  induction n with
  | zero => intro p v m h; simp [patT] at h
  | succ n ih =>
    intro p v m hp h hle
    cases m with
    | zero => omega
    | succ m =>
      have hle' : n ≤ m := by omega
      unfold patT at hp
      unfold InhP at h ⊢
      cases hty : T.types[p]? with
      | none => rw [hty] at hp; simp at hp
      | some ty =>
        rw [hty] at hp h; rw [hE.1 p ty hty]
        cases ty with
        | integer => exact h
        | binary => exact h
        | «variable» x =>
          simp only at h ⊢
          cases hbx : b.get x with
          | none => rw [hbx] at h; exact h.elim
          | some t =>
            rw [hbx] at h
            obtain ⟨t', ht', hv'⟩ := hL x t hbx
            rw [ht']; exact hv' v h
        | tuple id =>
          simp only at hp h ⊢
          cases htu : T.tuples[id]? with
          | none => rw [htu] at hp; simp at hp
          | some info =>
            rw [htu] at hp h; rw [hE.2 id info htu]
            cases v with
            | tup name fs =>
              simp only at h ⊢
              refine ⟨h.1, FieldsP_mono info.fields fs ?_ h.2⟩
              intro q hq v' hv'
              exact ih q.2 v' m ((List.all_eq_true.mp hp) q hq) hv' hle'
            | _ => exact h.elim
        | _ => simp at hp

/-! ### Inversion of `inh` on the fragment -/

theorem inh_integer {T : Table} {t : Nat} {v : V} {st : List Nat} (hty : T.types[t]? = some .integer)
    (h : inh T st t v) : ∃ z, v = .int z := by
  obtain ⟨f, hf⟩ := h
  cases f with
  | zero => simp [inhB] at hf
  | succ f =>
    unfold inhB at hf; rw [hty] at hf
    cases v with
    | int z => exact ⟨z, rfl⟩
    | _ => simp at hf

theorem inh_binary {T : Table} {t : Nat} {v : V} {st : List Nat} (hty : T.types[t]? = some .binary)
    (h : inh T st t v) : ∃ bs, v = .bin bs := by
  obtain ⟨f, hf⟩ := h
  cases f with
  | zero => simp [inhB] at hf
  | succ f =>
    unfold inhB at hf; rw [hty] at hf
    cases v with
    | bin bs => exact ⟨bs, rfl⟩
    | _ => simp at hf

theorem inh_tuple {T : Table} {t id : Nat} {info : TupleInfo} {v : V} {st : List Nat}
    (hty : T.types[t]? = some (.tuple id)) (htu : T.tuples[id]? = some info) (h : inh T st t v) :
    ∃ name fs f, v = .tup name fs ∧ name = info.name ∧ fieldsB (inhB T f st) info.fields fs = true := by
  obtain ⟨f, hf⟩ := h
  cases f with
  | zero => simp [inhB] at hf
  | succ f =>
    unfold inhB at hf; rw [hty] at hf; simp only at hf; rw [htu] at hf
    cases v with
    | tup name fs =>
      simp only [Bool.and_eq_true, decide_eq_true_eq] at hf
      exact ⟨name, fs, f, rfl, hf.1, hf.2⟩
    | _ => simp at hf

/-- from a Boolean field match against the ARGUMENT's fields to a `Prop` field match against the
PATTERN's fields, when the two field lists have the same labels position by position. -/
theorem fieldsB_zip_FieldsP {g : Nat → V → Bool} {P : Nat → V → Prop} :
    ∀ (f1 f2 : List (Option Name × Nat)) (fs : VFields),
      f1.length = f2.length →
      (∀ z ∈ f1.zip f2, z.1.1 = z.2.1 ∧ ∀ v, g z.2.2 v = true → P z.1.2 v) →
      fieldsB g f2 fs = true → FieldsP P f1 fs
  | [], [], .nil, _, _, _ => trivial
  | [], [], .cons _ _ _, _, _, h => by simp [fieldsB] at h
  | [], _ :: _, _, hl, _, _ => by simp at hl
  | _ :: _, [], _, hl, _, _ => by simp at hl
  | _ :: _, _ :: _, .nil, _, _, h => by simp [fieldsB] at h
  | p :: r1, q :: r2, .cons l v vs, hl, hz, h => by
    simp only [fieldsB, Bool.and_eq_true, decide_eq_true_eq] at h
    obtain ⟨⟨h1, h2⟩, h3⟩ := h
    have hpq := hz (p, q) (by simp)
    simp only [FieldsP]
    refine ⟨hpq.1.trans h1, hpq.2 v h2, ?_⟩
    exact fieldsB_zip_FieldsP r1 r2 vs (by simpa using hl)
      (fun z hzm => hz z (by simp [List.zip_cons_cons, hzm])) h3

theorem zip_self_mem {α : Type} : ∀ (l : List α) (z : α × α), z ∈ l.zip l → z.1 = z.2 ∧ z.1 ∈ l
  | [], z, h => by simp at h
  | x :: xs, z, h => by
    simp only [List.zip_cons_cons, List.mem_cons] at h
    rcases h with rfl | h
    · exact ⟨rfl, List.mem_cons_self ..⟩
    · obtain ⟨h1, h2⟩ := zip_self_mem xs z h
      exact ⟨h1, List.mem_cons_of_mem _ h2⟩

/-- a closed type, read as a pattern, means itself. -/
theorem closed_InhP {T : Table} {b : Bindings} :
    ∀ (n t : Nat) (v : V) (m : Nat), patT T n t = true → argT T m t = true → inh T [] t v → InhP T b n t v := by
  intro n
  induction n with
  | zero => intro t v m h; simp [patT] at h
  | succ n ih =>
    intro t v m hp ha hv
    cases m with
    | zero => simp [argT] at ha
    | succ m =>
      unfold patT at hp; unfold argT at ha; unfold InhP
      cases hty : T.types[t]? with
      | none => rw [hty] at hp; simp at hp
      | some ty =>
        rw [hty] at hp ha
        cases ty with
        | integer => exact inh_integer hty hv
        | binary => exact inh_binary hty hv
        | «variable» _ => simp at ha
        | tuple id =>
          simp only at hp ha ⊢
          cases htu : T.tuples[id]? with
          | none => rw [htu] at hp; simp at hp
          | some info =>
            rw [htu] at hp ha
            obtain ⟨name, fs, f, rfl, hname, hfs⟩ := inh_tuple hty htu hv
            simp only
            refine ⟨hname, fieldsB_zip_FieldsP info.fields info.fields fs rfl ?_ hfs⟩
            intro z hz
            obtain ⟨hz1, hz2⟩ := zip_self_mem info.fields z hz
            refine ⟨by rw [hz1], fun v' hv' => ?_⟩
            rw [hz1]
            have hq := hz1 ▸ hz2
            exact ih z.2.2 v' m ((List.all_eq_true.mp hp) z.2 hq) ((List.all_eq_true.mp ha) z.2 hq) ⟨f, hv'⟩
        | _ => simp at hp

/-! ### Soundness of `unifyWith` on the fragment -/

/-- what one successful unification establishes. -/
def UnifyPost (T : Table) (b : Bindings) (p a : Nat) (T' : Table) (b' : Bindings) (n : Nat) : Prop :=
  Ext T T' ∧ BOk T' b' ∧ BLe T T' b b' ∧ ∀ v, inh T [] a v → InhP T' b' n p v

/-- the statement proved by induction on the fuel. -/
def UnifySoundAt (rules : Rules) (cf f : Nat) : Prop :=
  ∀ (T : Table) (b : Bindings) (p a : Nat) (T' : Table) (b' : Bindings) (n m : Nat),
    unifyWith rules cf f T b p a = some (T', some b') →
    patT T n p = true → argT T m a = true → BOk T b → UnifyPost T b p a T' b' n

/-- the field loop of the tuple/tuple arm. -/
theorem allU_fields {rules : Rules} {cf f : Nat} (IH : UnifySoundAt rules cf f) :
    ∀ (zs : List ((Option Name × Nat) × (Option Name × Nat))) (T : Table) (b : Bindings)
      (T' : Table) (b' : Bindings) (n m : Nat),
      allU (fun T' b' (z : (Option Name × Nat) × (Option Name × Nat)) =>
              if z.1.1 ≠ z.2.1 then some (T', none) else unifyWith rules cf f T' b' z.1.2 z.2.2)
           T b zs = some (T', some b') →
      (∀ z ∈ zs, patT T n z.1.2 = true ∧ argT T m z.2.2 = true) → BOk T b →
      Ext T T' ∧ BOk T' b' ∧ BLe T T' b b' ∧
        ∀ z ∈ zs, z.1.1 = z.2.1 ∧ ∀ v, inh T [] z.2.2 v → InhP T' b' n z.1.2 v
  | [], T, b, T', b', n, m, h, _, hb => by
    simp only [allU, Option.some.injEq, Prod.mk.injEq] at h
    obtain ⟨rfl, rfl⟩ := h
    exact ⟨Ext.refl _, hb, BLe.refl' (Ext.refl _) hb, fun z hz => by cases hz⟩
  | z :: rest, T, b, T', b', n, m, h, hz, hb => by
    unfold allU at h
    by_cases hl : z.1.1 = z.2.1
    · simp only [ne_eq, hl, not_true_eq_false, if_false] at h
      cases hu : unifyWith rules cf f T b z.1.2 z.2.2 with
      | none => rw [hu] at h; cases h
      | some r =>
        obtain ⟨T1, ob1⟩ := r
        cases ob1 with
        | none => rw [hu] at h; simp at h
        | some b1 =>
          rw [hu] at h; simp only at h
          have hzz := hz z (List.mem_cons_self ..)
          obtain ⟨hE1, hb1, hL1, hs1⟩ := IH T b z.1.2 z.2.2 T1 b1 n m hu hzz.1 hzz.2 hb
          have hrest : ∀ z' ∈ rest, patT T1 n z'.1.2 = true ∧ argT T1 m z'.2.2 = true := by
            intro z' hz'
            have := hz z' (List.mem_cons_of_mem _ hz')
            exact ⟨patT_transfer hE1 n _ n this.1 (Nat.le_refl _), argT_transfer hE1 m _ m this.2 (Nat.le_refl _)⟩
          obtain ⟨hE2, hb2, hL2, hs2⟩ := allU_fields IH rest T1 b1 T' b' n m h hrest hb1
          refine ⟨hE1.trans hE2, hb2, hL1.trans hL2, ?_⟩
          intro z' hz'
          rcases List.mem_cons.mp hz' with rfl | hz''
          · refine ⟨hl, fun v hv => ?_⟩
            exact InhP_mono hE2 hL2 n _ v n (patT_transfer hE1 n _ n hzz.1 (Nat.le_refl _)) (hs1 v hv) (Nat.le_refl _)
          · obtain ⟨hl', hs'⟩ := hs2 z' hz''
            refine ⟨hl', fun v hv => hs' v ?_⟩
            have := hz z' (List.mem_cons_of_mem _ hz'')
            exact inh_ext hE1 ⟨m, argT_fo m _ this.2⟩ hv
    · simp only [ne_eq, hl, not_false_eq_true, if_true] at h
      simp at h

/-- the variant loop of the "non-union parameter, union argument" arm under the EVERY-variant rule. -/
theorem allU_variants {rules : Rules} {cf f : Nat} (IH : UnifySoundAt rules cf f) (p : Nat) :
    ∀ (cvs : List Nat) (T : Table) (b : Bindings) (T' : Table) (b' : Bindings) (n m : Nat),
      allU (fun T' b' cv => unifyWith rules cf f T' b' p cv) T b cvs = some (T', some b') →
      patT T n p = true → (∀ cv ∈ cvs, argT T m cv = true) → BOk T b →
      Ext T T' ∧ BOk T' b' ∧ BLe T T' b b' ∧
        ∀ cv ∈ cvs, ∀ v, inh T [] cv v → InhP T' b' n p v
  | [], T, b, T', b', n, m, h, _, _, hb => by
    simp only [allU, Option.some.injEq, Prod.mk.injEq] at h
    obtain ⟨rfl, rfl⟩ := h
    exact ⟨Ext.refl _, hb, BLe.refl' (Ext.refl _) hb, fun z hz => by cases hz⟩
  | cv :: rest, T, b, T', b', n, m, h, hp, hcv, hb => by
    unfold allU at h
    cases hu : unifyWith rules cf f T b p cv with
    | none => rw [hu] at h; cases h
    | some r =>
      obtain ⟨T1, ob1⟩ := r
      cases ob1 with
      | none => rw [hu] at h; simp at h
      | some b1 =>
        rw [hu] at h; simp only at h
        obtain ⟨hE1, hb1, hL1, hs1⟩ := IH T b p cv T1 b1 n m hu hp (hcv cv (List.mem_cons_self ..)) hb
        have hp1 := patT_transfer hE1 n p n hp (Nat.le_refl _)
        have hrest : ∀ c ∈ rest, argT T1 m c = true := fun c hc =>
          argT_transfer hE1 m c m (hcv c (List.mem_cons_of_mem _ hc)) (Nat.le_refl _)
        obtain ⟨hE2, hb2, hL2, hs2⟩ := allU_variants IH p rest T1 b1 T' b' n m h hp1 hrest hb1
        refine ⟨hE1.trans hE2, hb2, hL1.trans hL2, ?_⟩
        intro c hc v hv
        rcases List.mem_cons.mp hc with rfl | hc'
        · exact InhP_mono hE2 hL2 n p v n hp1 (hs1 v hv) (Nat.le_refl _)
        · exact hs2 c hc' v (inh_ext hE1 ⟨m, argT_fo m c (hcv c (List.mem_cons_of_mem _ hc'))⟩ hv)

/-- a value of a union type of the fragment is a value of one of its variants. -/
theorem inh_union {T : Table} {a : Nat} {cvs : List Nat} {v : V} {m : Nat}
    (hta : T.types[a]? = some (.union cvs)) (ha : ∀ cv ∈ cvs, argT T m cv = true) (h : inh T [] a v) :
    ∃ cv ∈ cvs, inh T [] cv v := by
  obtain ⟨f, hf⟩ := h
  cases f with
  | zero => simp [inhB] at hf
  | succ f =>
    unfold inhB at hf; rw [hta] at hf; simp only at hf
    obtain ⟨cv, hcv, hv⟩ := List.any_eq_true.mp hf
    exact ⟨cv, hcv, f, inhB_transfer (Ext.refl T) f m cv v _ _ f (argT_fo m cv (ha cv hcv)) hv (Nat.le_refl _)⟩

/-- the "non-union parameter, union argument" arm, once reduced to the variant loop. -/
theorem union_arg_case {rules : Rules} {cf f : Nat} (IH : UnifySoundAt rules cf f)
    {T : Table} {b : Bindings} {p a : Nat} {cvs : List Nat} {T' : Table} {b' : Bindings} {n m : Nat}
    (h : allU (fun T' b' cv => unifyWith rules cf f T' b' p cv) T b cvs = some (T', some b'))
    (hp : patT T n p = true) (hta : T.types[a]? = some (.union cvs))
    (hcv : ∀ cv ∈ cvs, argT T m cv = true) (hb : BOk T b) : UnifyPost T b p a T' b' n := by
  obtain ⟨hE, hb', hL, hs⟩ := allU_variants IH p cvs T b T' b' n m h hp hcv hb
  refine ⟨hE, hb', hL, fun v hv => ?_⟩
  obtain ⟨cv, hcvm, hv'⟩ := inh_union hta hcv hv
  exact hs cv hcvm v hv'

/-- binding a fresh variable. -/
theorem bind_fresh {T : Table} {b : Bindings} {x a n m p : Nat} (hb : BOk T b) (hbx : b.get x = none)
    (hty : T.types[p]? = some (.variable x)) (ha : argT T m a = true) :
    UnifyPost T b p a T (b.insert x a) (n + 1) := by
  refine ⟨Ext.refl _, ?_, ?_, ?_⟩
  · intro y t hy
    by_cases hxy : x = y
    · subst hxy; rw [get_insert_self] at hy; cases hy; exact ⟨m, argT_fo m a ha⟩
    · rw [get_insert_ne _ _ _ _ hxy] at hy; exact hb y t hy
  · intro y t hy
    have hxy : x ≠ y := by intro e; subst e; rw [hbx] at hy; cases hy
    exact ⟨t, by rw [get_insert_ne _ _ _ _ hxy]; exact hy, fun _ hv => hv⟩
  · intro v hv
    unfold InhP; rw [hty]; simp only; rw [get_insert_self]; exact hv

/-- widening an existing binding. -/
theorem bind_widen {T T1 : Table} {b : Bindings} {x a n m p e w : Nat} (hb : BOk T b)
    (hbx : b.get x = some e) (hty : T.types[p]? = some (.variable x)) (ha : argT T m a = true)
    (hu : unionIds T [e, a] = (T1, w)) :
    UnifyPost T b p a T1 (b.insert x w) (n + 1) := by
  obtain ⟨hE, hfw, hin⟩ := unionIds_pair hu (hb x e hbx) ⟨m, argT_fo m a ha⟩
  refine ⟨hE, ?_, ?_, ?_⟩
  · intro y t hy
    by_cases hxy : x = y
    · subst hxy; rw [get_insert_self] at hy; cases hy; exact hfw
    · rw [get_insert_ne _ _ _ _ hxy] at hy; exact (hb y t hy).ext hE
  · intro y t hy
    by_cases hxy : x = y
    · subst hxy
      rw [hbx] at hy; cases hy
      exact ⟨w, get_insert_self _ _ _, fun v hv => hin v (Or.inl hv)⟩
    · exact ⟨t, by rw [get_insert_ne _ _ _ _ hxy]; exact hy, fun _ hv => inh_ext hE (hb y t hy) hv⟩
  · intro v hv
    unfold InhP; rw [hE.1 p _ hty]; simp only; rw [get_insert_self]; exact hin v (Or.inr hv)

/-- Soundness of `unifyWith` on the fragment, for every fuel, under the EVERY-variant rule for union
arguments (fix 8f4b36d; the cycle and merge switches are irrelevant: the fragment never reaches
those arms). -/
theorem unify_sound_aux (rules : Rules) (hr : rules.unionArg = .everyVariant) (cf : Nat) :
    ∀ f, UnifySoundAt rules cf f := by
  intro f
  induction f with
  | zero => intro T b p a T' b' n m h; simp [unifyWith] at h
  | succ f ih =>
    intro T b p a T' b' n m h hp ha hb
    cases n with
    | zero => simp [patT] at hp
    | succ n =>
    cases m with
    | zero => simp [argT] at ha
    | succ m =>
    have hp0 := hp
    have ha0 := ha
    unfold patT at hp; unfold argT at ha
    unfold unifyWith at h
    cases htp : T.types[p]? with
    | none => rw [htp] at hp; simp at hp
    | some tp =>
    cases hta : T.types[a]? with
    | none => rw [hta] at ha; simp at ha
    | some ta =>
    rw [htp] at hp h; rw [hta] at ha h
    simp only at h
    cases tp with
    | reference => simp at hp
    | part _ _ => simp at hp
    | callable _ _ _ => simp at hp
    | cycle _ => simp at hp
    | union _ => simp at hp
    | process _ _ => simp at hp
    | resource _ => simp at hp
    | «variable» x =>
      -- the argument is not a variable, so `resolved = a`
      have key : unifyStep rules cf (unifyWith rules cf f) T b p a (.variable x) ta =
          (match b.get x with
           | some e =>
             if e ≠ a then some ((unionIds T [e, a]).1, some (b.insert x (unionIds T [e, a]).2))
             else some (T, some b)
           | none =>
             if rules.scope = .sharedNames ∧ T.types[a]? = some (.variable x) then some (T, some b)
             else some (T, some (b.insert x a))) := by
        cases hsc : rules.scope <;> cases ta <;> simp at ha <;>
          (simp [unifyStep, hsc]; try (cases b.get x <;> rfl))
      rw [key] at h
      cases hbx : b.get x with
      | none =>
        rw [hbx] at h
        have hne : ¬ (rules.scope = .sharedNames ∧ T.types[a]? = some (.variable x)) := by
          rw [hta]; rintro ⟨_, e⟩; cases e; simp at ha
        simp only [hne, if_false, Option.some.injEq, Prod.mk.injEq] at h
        obtain ⟨rfl, rfl⟩ := h
        exact bind_fresh hb hbx htp ha0
      | some e =>
        rw [hbx] at h
        by_cases hea : e = a
        · subst hea
          simp only [ne_eq, not_true_eq_false, if_false, Option.some.injEq, Prod.mk.injEq] at h
          obtain ⟨rfl, rfl⟩ := h
          refine ⟨Ext.refl _, hb, BLe.refl' (Ext.refl _) hb, fun v hv => ?_⟩
          unfold InhP; rw [htp]; simp only; rw [hbx]; exact hv
        · simp only [ne_eq, hea, not_false_eq_true, if_true, Option.some.injEq, Prod.mk.injEq] at h
          obtain ⟨rfl, rfl⟩ := h
          exact bind_widen hb hbx htp ha0 rfl
    | integer =>
      cases ta with
      | integer =>
        simp only [unifyStep, Option.some.injEq, Prod.mk.injEq] at h
        obtain ⟨rfl, rfl⟩ := h
        refine ⟨Ext.refl _, hb, BLe.refl' (Ext.refl _) hb, fun v hv => ?_⟩
        unfold InhP; rw [htp]; exact inh_integer hta hv
      | binary => simp [unifyStep] at h
      | tuple _ => simp [unifyStep] at h
      | union cvs =>
        have key : unifyStep rules cf (unifyWith rules cf f) T b p a .integer (.union cvs) =
            allU (fun T' b' cv => unifyWith rules cf f T' b' p cv) T b cvs := by
          cases cvs <;> simp [unifyStep, hr, allU]
        rw [key] at h
        exact union_arg_case ih h hp0 hta (fun cv hcv => (List.all_eq_true.mp ha) cv hcv) hb
      | _ => simp at ha
    | binary =>
      cases ta with
      | binary =>
        simp only [unifyStep, Option.some.injEq, Prod.mk.injEq] at h
        obtain ⟨rfl, rfl⟩ := h
        refine ⟨Ext.refl _, hb, BLe.refl' (Ext.refl _) hb, fun v hv => ?_⟩
        unfold InhP; rw [htp]; exact inh_binary hta hv
      | integer => simp [unifyStep] at h
      | tuple _ => simp [unifyStep] at h
      | union cvs =>
        have key : unifyStep rules cf (unifyWith rules cf f) T b p a .binary (.union cvs) =
            allU (fun T' b' cv => unifyWith rules cf f T' b' p cv) T b cvs := by
          cases cvs <;> simp [unifyStep, hr, allU]
        rw [key] at h
        exact union_arg_case ih h hp0 hta (fun cv hcv => (List.all_eq_true.mp ha) cv hcv) hb
      | _ => simp at ha
    | tuple i1 =>
      cases ta with
      | integer => simp [unifyStep] at h
      | binary => simp [unifyStep] at h
      | union cvs =>
        have key : unifyStep rules cf (unifyWith rules cf f) T b p a (.tuple i1) (.union cvs) =
            allU (fun T' b' cv => unifyWith rules cf f T' b' p cv) T b cvs := by
          cases cvs <;> simp [unifyStep, hr, allU]
        rw [key] at h
        exact union_arg_case ih h hp0 hta (fun cv hcv => (List.all_eq_true.mp ha) cv hcv) hb
      | tuple i2 =>
        simp only at hp ha
        cases ht1 : T.tuples[i1]? with
        | none => rw [ht1] at hp; simp at hp
        | some info1 =>
        cases ht2 : T.tuples[i2]? with
        | none => rw [ht2] at ha; simp at ha
        | some info2 =>
        rw [ht1] at hp; rw [ht2] at ha
        simp only at hp ha
        unfold unifyStep at h
        by_cases hc : i1 = i2 ∧ (rules.scope = .sharedNames ∨ containsVariables T cf p = some false)
        · simp only [if_pos hc] at h
          obtain ⟨hi, _⟩ := hc
          subst hi
          simp only [Option.some.injEq, Prod.mk.injEq] at h
          obtain ⟨rfl, rfl⟩ := h
          rw [ht1] at ht2; cases ht2
          refine ⟨Ext.refl _, hb, BLe.refl' (Ext.refl _) hb, fun v hv => ?_⟩
          have ha' : argT T (m + 1) p = true := by
            unfold argT; rw [htp]; simp only; rw [ht1]; exact ha
          exact closed_InhP (n + 1) p v (m + 1) hp0 ha' (by
            obtain ⟨fu, hfu⟩ := hv
            have hfo : foV T (m + 1) a = true := argT_fo _ _ ha0
            -- `a` and `p` are the same tuple type: transfer through the tuple structure
            refine ⟨fu, ?_⟩
            cases fu with
            | zero => simp [inhB] at hfu
            | succ fu =>
              unfold inhB at hfu ⊢
              rw [hta] at hfu; rw [htp]; exact hfu)
        · simp only [if_neg hc] at h
          rw [ht1, ht2] at h
          simp only at h
          by_cases hn : info1.name = info2.name
          · simp only [ne_eq, hn, not_true_eq_false, if_false] at h
            by_cases hl : info1.fields.length = info2.fields.length
            · simp only [hl, not_true_eq_false, if_false] at h
              have hzs : ∀ z ∈ info1.fields.zip info2.fields,
                  patT T n z.1.2 = true ∧ argT T m z.2.2 = true := by
                intro z hz
                obtain ⟨h1, h2⟩ := List.of_mem_zip hz
                exact ⟨(List.all_eq_true.mp hp) z.1 h1, (List.all_eq_true.mp ha) z.2 h2⟩
              obtain ⟨hE, hb', hL, hs⟩ := allU_fields ih _ T b T' b' n m h hzs hb
              refine ⟨hE, hb', hL, fun v hv => ?_⟩
              obtain ⟨name, fs, fu, rfl, hname, hfs⟩ := inh_tuple hta ht2 hv
              unfold InhP
              rw [hE.1 p _ htp]; simp only; rw [hE.2 i1 _ ht1]; simp only
              refine ⟨hname.trans hn.symm, fieldsB_zip_FieldsP info1.fields info2.fields fs hl ?_ hfs⟩
              intro z hz
              obtain ⟨hl', hs'⟩ := hs z hz
              exact ⟨hl', fun v' hv' => hs' v' ⟨fu, hv'⟩⟩
            · simp [hl] at h
          · simp [hn] at h
      | _ => simp at ha

end QM.Soundness
