import QuiverModel.Core.Types.Inh
import QuiverModel.Core.Types.Narrow
import QuiverModel.Core.Soundness.Unify
/-
Lemmas for C01's positive guard theorem (`guard_unify_sound_partial`), part 1:
table extension, the first-order fragment, transfer of `inhB` along extensions / fuel / stacks,
registration, and the meaning of `unionIds` on the fragment. Core Lean only.
-/
namespace QM.Soundness
open QM.Types

/-! ### Table extension -/

/-- `T'` extends `T`: both registries grow at the end only (what `register_*` does). -/
def Ext (T T' : Table) : Prop :=
  (∀ (i : Nat) (t : Ty), T.types[i]? = some t → T'.types[i]? = some t) ∧
  (∀ (i : Nat) (t : TupleInfo), T.tuples[i]? = some t → T'.tuples[i]? = some t)

theorem Ext.refl (T : Table) : Ext T T := ⟨fun _ _ h => h, fun _ _ h => h⟩

theorem Ext.trans {A B C : Table} (h1 : Ext A B) (h2 : Ext B C) : Ext A C :=
  ⟨fun i t h => h2.1 i t (h1.1 i t h), fun i t h => h2.2 i t (h1.2 i t h)⟩

theorem getElem?_append_left' {α : Type} (l r : List α) (i : Nat) (x : α) (h : l[i]? = some x) :
    (l ++ r)[i]? = some x := by
  have hi : i < l.length := by
    rcases Nat.lt_or_ge i l.length with h' | h'
    · exact h'
    · rw [List.getElem?_eq_none h'] at h; cases h
  rw [List.getElem?_append_left hi]; exact h

theorem position_some {α : Type} [DecidableEq α] (x : α) :
    ∀ (l : List α) (i : Nat), position x l = some i → l[i]? = some x
  | [], _, h => by simp [position] at h
  | y :: ys, i, h => by
    unfold position at h
    by_cases hy : y = x
    · simp [hy] at h; subst h; simp [hy]
    · simp [hy] at h
      obtain ⟨j, hj, rfl⟩ := h
      simpa using position_some x ys j hj

theorem registerType_spec (T : Table) (t : Ty) (T' : Table) (i : Nat)
    (h : T.registerType t = (T', i)) : Ext T T' ∧ T'.types[i]? = some t := by
  unfold Table.registerType at h
  cases hp : position t T.types with
  | some j =>
    rw [hp] at h
    simp only [Prod.mk.injEq] at h
    obtain ⟨rfl, rfl⟩ := h
    exact ⟨Ext.refl _, position_some t _ _ hp⟩
  | none =>
    rw [hp] at h
    simp only [Prod.mk.injEq] at h
    obtain ⟨rfl, rfl⟩ := h
    refine ⟨⟨fun i t h => getElem?_append_left' _ _ _ _ h, fun _ _ h => h⟩, ?_⟩
    simp

theorem registerTuple_spec (T : Table) (n : Option Name) (fs : List (Option Name × Nat)) (T' : Table) (i : Nat)
    (h : T.registerTuple n fs = (T', i)) : Ext T T' ∧ T'.tuples[i]? = some ⟨n, fs⟩ := by
  unfold Table.registerTuple at h
  cases hp : position (⟨n, fs⟩ : TupleInfo) T.tuples with
  | some j =>
    rw [hp] at h
    simp only [Prod.mk.injEq] at h
    obtain ⟨rfl, rfl⟩ := h
    exact ⟨Ext.refl _, position_some _ _ _ hp⟩
  | none =>
    rw [hp] at h
    simp only [Prod.mk.injEq] at h
    obtain ⟨rfl, rfl⟩ := h
    refine ⟨⟨fun _ _ h => h, fun i t h => getElem?_append_left' _ _ _ _ h⟩, ?_⟩
    simp

/-! ### The first-order fragment and transfer of `inhB` -/

/-- first-order, cycle-free types (variables allowed as leaves), explored `n` levels deep. -/
def foV (T : Table) : Nat → Nat → Bool
  | 0, _ => false
  | n + 1, t =>
    match T.types[t]? with
    | some .integer => true
    | some .binary => true
    | some (.variable _) => true
    | some (.tuple id) =>
      match T.tuples[id]? with
      | some info => info.fields.all (fun f => foV T n f.2)
      | none => false
    | some (.union ids) => ids.all (foV T n)
    | _ => false

theorem fieldsB_mono {g g' : Nat → V → Bool} :
    ∀ (fields : List (Option Name × Nat)) (fs : VFields),
      (∀ p ∈ fields, ∀ v, g p.2 v = true → g' p.2 v = true) →
      fieldsB g fields fs = true → fieldsB g' fields fs = true
  | [], .nil, _, h => h
  | [], .cons _ _ _, _, h => by simp [fieldsB] at h
  | _ :: _, .nil, _, h => by simp [fieldsB] at h
  | p :: rest, .cons l v vs, hg, h => by
    simp only [fieldsB, Bool.and_eq_true, decide_eq_true_eq] at h ⊢
    obtain ⟨⟨h1, h2⟩, h3⟩ := h
    exact ⟨⟨h1, hg p (List.mem_cons_self ..) v h2⟩,
      fieldsB_mono rest vs (fun q hq => hg q (List.mem_cons_of_mem _ hq)) h3⟩

/-- On the first-order fragment `inhB` does not depend on the boundary stack, is monotone in the
fuel, and is preserved by table extension. -/
theorem inhB_transfer {T T' : Table} (hE : Ext T T') :
    ∀ (f n t : Nat) (v : V) (st st' : List Nat) (f' : Nat),
      foV T n t = true → inhB T f st t v = true → f ≤ f' → inhB T' f' st' t v = true := by
  intro f
  induction f with
  | zero => intro n t v st st' f' _ h; simp [inhB] at h
  | succ f ih =>
    intro n t v st st' f' hfo h hle
    cases f' with
    | zero => omega
    | succ f' =>
      have hle' : f ≤ f' := by omega
      cases n with
      | zero => simp [foV] at hfo
      | succ n =>
        unfold foV at hfo
        unfold inhB at h ⊢
        cases hty : T.types[t]? with
        | none => rw [hty] at hfo; simp at hfo
        | some ty =>
          rw [hty] at hfo h
          rw [hE.1 t ty hty]
          cases ty with
          | integer => simpa using h
          | binary => simpa using h
          | «variable» x => simp
          | reference => simp at hfo
          | part _ _ => simp at hfo
          | callable _ _ _ => simp at hfo
          | cycle _ => simp at hfo
          | process _ _ => simp at hfo
          | resource _ => simp at hfo
          | union ids =>
            simp only at hfo h ⊢
            rw [List.any_eq_true] at h ⊢
            obtain ⟨i, hi, hv⟩ := h
            have hfi : foV T n i = true := (List.all_eq_true.mp hfo) i hi
            exact ⟨i, hi, ih n i v _ _ f' hfi hv hle'⟩
          | tuple id =>
            simp only at hfo h ⊢
            cases htu : T.tuples[id]? with
            | none => rw [htu] at hfo; simp at hfo
            | some info =>
              rw [htu] at hfo h
              rw [hE.2 id info htu]
              cases v with
              | tup name fs =>
                simp only [Bool.and_eq_true, decide_eq_true_eq] at h ⊢
                refine ⟨h.1, fieldsB_mono info.fields fs ?_ h.2⟩
                intro p hp v' hv'
                have hfp : foV T n p.2 = true := (List.all_eq_true.mp hfo) p hp
                exact ih n p.2 v' _ _ f' hfp hv' hle'
              | int _ => simp at h
              | bin _ => simp at h
              | ref _ => simp at h
              | fn _ => simp at h
              | proc _ => simp at h
              | res _ => simp at h

theorem foV_transfer {T T' : Table} (hE : Ext T T') :
    ∀ (n t m : Nat), foV T n t = true → n ≤ m → foV T' m t = true := by
  intro n
  induction n with
  | zero => intro t m h; simp [foV] at h
  | succ n ih =>
    intro t m h hle
    cases m with
    | zero => omega
    | succ m =>
      have hle' : n ≤ m := by omega
      unfold foV at h ⊢
      cases hty : T.types[t]? with
      | none => rw [hty] at h; simp at h
      | some ty =>
        rw [hty] at h
        rw [hE.1 t ty hty]
        cases ty with
        | integer => rfl
        | binary => rfl
        | «variable» x => rfl
        | reference => simp at h
        | part _ _ => simp at h
        | callable _ _ _ => simp at h
        | cycle _ => simp at h
        | process _ _ => simp at h
        | resource _ => simp at h
        | union ids =>
          simp only at h ⊢
          rw [List.all_eq_true] at h ⊢
          exact fun i hi => ih i m (h i hi) hle'
        | tuple id =>
          simp only at h ⊢
          cases htu : T.tuples[id]? with
          | none => rw [htu] at h; simp at h
          | some info =>
            rw [htu] at h
            rw [hE.2 id info htu]
            simp only at h ⊢
            rw [List.all_eq_true] at h ⊢
            exact fun p hp => ih p.2 m (h p hp) hle'

/-- first-order (with variable leaves), at some depth. -/
def FO (T : Table) (t : Nat) : Prop := ∃ n, foV T n t = true

theorem FO.ext {T T' : Table} (hE : Ext T T') {t : Nat} (h : FO T t) : FO T' t :=
  let ⟨n, hn⟩ := h; ⟨n, foV_transfer hE n t n hn (Nat.le_refl _)⟩

theorem fo_all {T : Table} : ∀ (l : List Nat), (∀ i ∈ l, FO T i) → ∃ n, ∀ i ∈ l, foV T n i = true
  | [], _ => ⟨0, fun _ h => by cases h⟩
  | x :: xs, h => by
    obtain ⟨n1, h1⟩ := h x (List.mem_cons_self ..)
    obtain ⟨n2, h2⟩ := fo_all xs (fun i hi => h i (List.mem_cons_of_mem _ hi))
    refine ⟨max n1 n2, fun i hi => ?_⟩
    rcases List.mem_cons.mp hi with rfl | hi
    · exact foV_transfer (Ext.refl T) n1 _ _ h1 (Nat.le_max_left ..)
    · exact foV_transfer (Ext.refl T) n2 _ _ (h2 i hi) (Nat.le_max_right ..)

theorem inh_ext {T T' : Table} (hE : Ext T T') {t : Nat} {v : V} {st st' : List Nat} (hfo : FO T t)
    (h : inh T st t v) : inh T' st' t v :=
  let ⟨n, hn⟩ := hfo; let ⟨f, hf⟩ := h
  ⟨f, inhB_transfer hE f n t v st st' f hn hf (Nat.le_refl _)⟩

/-! ### `unionIds` on the fragment -/

theorem mem_dedupKeep : ∀ (l seen : List Nat) (a : Nat), a ∈ l → a ∉ seen → a ∈ dedupKeep seen l
  | [], _, _, h, _ => by cases h
  | x :: xs, seen, a, h, hs => by
    unfold dedupKeep
    by_cases hc : seen.contains x = true
    · simp only [hc, if_true]
      rcases List.mem_cons.mp h with rfl | h'
      · exact absurd (by simpa using hc) hs
      · exact mem_dedupKeep xs seen a h' hs
    · simp only [hc]
      by_cases hax : a = x
      · subst hax; exact List.mem_cons_self ..
      · rcases List.mem_cons.mp h with rfl | h'
        · exact absurd rfl hax
        · refine List.mem_cons_of_mem _ (mem_dedupKeep xs (x :: seen) a h' ?_)
          intro hm
          rcases List.mem_cons.mp hm with rfl | hm
          · exact hax rfl
          · exact hs hm

theorem dedupKeep_sub : ∀ (l seen : List Nat) (a : Nat), a ∈ dedupKeep seen l → a ∈ l
  | [], _, _, h => by simp [dedupKeep] at h
  | x :: xs, seen, a, h => by
    unfold dedupKeep at h
    by_cases hc : seen.contains x = true
    · simp only [hc, if_true] at h
      exact List.mem_cons_of_mem _ (dedupKeep_sub xs seen a h)
    · simp only [hc] at h
      rcases List.mem_cons.mp h with rfl | h'
      · exact List.mem_cons_self ..
      · exact List.mem_cons_of_mem _ (dedupKeep_sub xs _ a h')

/-- the variants `union_type_ids` inlines for one id. -/
def flat1 (T : Table) (id : Nat) : List Nat :=
  match T.types[id]? with
  | some (.union vs) => vs
  | _ => [id]

theorem flattenIds_pair (T : Table) (x y : Nat) : flattenIds T [x, y] = flat1 T x ++ flat1 T y := by
  unfold flattenIds flattenIds flattenIds flat1
  cases T.types[x]? with
  | none => cases T.types[y]? with
    | none => rfl
    | some ty => cases ty <;> simp
  | some tx =>
    cases T.types[y]? with
    | none => cases tx <;> simp
    | some ty => cases tx <;> cases ty <;> simp

theorem flat1_fo {T : Table} {x : Nat} (h : FO T x) : ∀ i ∈ flat1 T x, FO T i := by
  intro i hi
  obtain ⟨n, hn⟩ := h
  unfold flat1 at hi
  cases hty : T.types[x]? with
  | none => rw [hty] at hi; simp at hi; subst hi; exact ⟨n, hn⟩
  | some ty =>
    rw [hty] at hi
    cases ty with
    | union vs =>
      simp only at hi
      cases n with
      | zero => simp [foV] at hn
      | succ n =>
        unfold foV at hn; rw [hty] at hn; simp only at hn
        exact ⟨n, (List.all_eq_true.mp hn) i hi⟩
    | _ => simp at hi; subst hi; exact ⟨n, hn⟩

theorem flat1_inh {T : Table} {x : Nat} {v : V} (hfo : FO T x) (h : inh T [] x v) :
    ∃ i ∈ flat1 T x, inh T [] i v := by
  obtain ⟨f, hf⟩ := h
  unfold flat1
  cases hty : T.types[x]? with
  | none => exact ⟨x, by simp, f, hf⟩
  | some ty =>
    cases ty with
    | union vs =>
      simp only
      cases f with
      | zero => simp [inhB] at hf
      | succ f =>
        unfold inhB at hf; rw [hty] at hf; simp only at hf
        obtain ⟨i, hi, hv⟩ := List.any_eq_true.mp hf
        have hfi : FO T i := flat1_fo hfo i (by unfold flat1; rw [hty]; exact hi)
        obtain ⟨n, hn⟩ := hfi
        exact ⟨i, hi, f, inhB_transfer (Ext.refl T) f n i v _ _ f hn hv (Nat.le_refl _)⟩
    | _ => exact ⟨x, by simp, f, hf⟩

/-- `union_type_ids(program, [x, y])` on first-order types: the result extends the table, is
first-order, and contains both members. -/
theorem unionIds_pair {T T' : Table} {x y u : Nat} (h : unionIds T [x, y] = (T', u))
    (hx : FO T x) (hy : FO T y) :
    Ext T T' ∧ FO T' u ∧ ∀ v, (inh T [] x v ∨ inh T [] y v) → inh T' [] u v := by
  unfold unionIds at h
  rw [flattenIds_pair] at h
  generalize hl : dedupKeep [] (flat1 T x ++ flat1 T y) = l at h
  have hmemFO : ∀ i ∈ l, FO T i := by
    intro i hi
    have : i ∈ flat1 T x ++ flat1 T y := dedupKeep_sub _ [] i (hl ▸ hi)
    rcases List.mem_append.mp this with h' | h'
    · exact flat1_fo hx i h'
    · exact flat1_fo hy i h'
  have hcover : ∀ v, (inh T [] x v ∨ inh T [] y v) → ∃ i ∈ l, inh T [] i v := by
    intro v hv
    rcases hv with hv | hv
    · obtain ⟨i, hi, hiv⟩ := flat1_inh hx hv
      exact ⟨i, hl ▸ mem_dedupKeep _ [] i (List.mem_append_left _ hi) (by simp), hiv⟩
    · obtain ⟨i, hi, hiv⟩ := flat1_inh hy hv
      exact ⟨i, hl ▸ mem_dedupKeep _ [] i (List.mem_append_right _ hi) (by simp), hiv⟩
  match l, h, hmemFO, hcover with
  | [], h, _, hcover =>
    obtain ⟨hE, hu⟩ := registerType_spec T (.union []) T' u h
    refine ⟨hE, ⟨1, ?_⟩, ?_⟩
    · unfold foV; rw [hu]; simp
    · intro v hv; obtain ⟨i, hi, _⟩ := hcover v hv; cases hi
  | [z], h, hmemFO, hcover =>
    simp only [Prod.mk.injEq] at h
    obtain ⟨rfl, rfl⟩ := h
    refine ⟨Ext.refl _, hmemFO _ (List.mem_cons_self ..), ?_⟩
    intro v hv
    obtain ⟨i, hi, hiv⟩ := hcover v hv
    simp at hi; subst hi; exact hiv
  | a :: b :: rest, h, hmemFO, hcover =>
    obtain ⟨hE, hu⟩ := registerType_spec T (.union (a :: b :: rest)) T' u h
    obtain ⟨n, hn⟩ := fo_all (a :: b :: rest) hmemFO
    refine ⟨hE, ⟨n + 1, ?_⟩, ?_⟩
    · unfold foV; rw [hu]; simp only
      rw [List.all_eq_true]
      exact fun i hi => foV_transfer hE n i n (hn i hi) (Nat.le_refl _)
    · intro v hv
      obtain ⟨i, hi, f, hf⟩ := hcover v hv
      refine ⟨f + 1, ?_⟩
      unfold inhB; rw [hu]; simp only
      rw [List.any_eq_true]
      exact ⟨i, hi, inhB_transfer hE f n i v _ _ f (hn i hi) hf (Nat.le_refl _)⟩

end QM.Soundness
