import QuiverModel.Theorems.C08
import QuiverModel.Lemmas.Packaging.Mark
/-
Bridge from the packaging model (`QM.Packaging.Prog`, string names) to the type-relation model of
C08 / C09 (`QM.Types.Table`, interned names; owner b-c09, imported READ-ONLY), and the instance of
`C08.compat_rename` / `C08.rename_invariant` for `tree_shake`. (Owner: C10.)

Orientation. `QM.Types.Embeds ρ τ T T'` says that `T'` contains a renamed copy of ALL of `T` (total
`ρ`, `τ`). A shaken table is a sub-table of the original, so the embedding goes from the SHAKEN
table into the ORIGINAL one: `backTy` / `backTu` send a new id to the old id it came from (the
rank tables read backwards), and ids beyond the shaken table to ids beyond the original one.
-/
namespace QM.Packaging
open QM.Types (Embeds Table)

/-- conversion of a type entry; `ι` interns names (any function: the relation only compares names
    for equality, and both tables are converted with the same `ι`) -/
def tyTo (ι : String → Nat) : Ty → QM.Types.Ty
  | .int => .integer
  | .bin => .binary
  | .ref => .reference
  | .tuple id => .tuple id
  | .part n fs => .part (n.map ι) (fs.map (fun p => (ι p.1, p.2)))
  | .callable p r v => .callable p r v
  | .cycle d => .cycle d
  | .union ids => .union ids
  | .process s r => .process s r
  | .resource n => .resource (ι n)
  | .var n => .variable (ι n)

def tupTo (ι : String → Nat) (T : TupleInfo) : QM.Types.TupleInfo :=
  ⟨T.name.map ι, T.fields.map (fun p => (p.1.map ι, p.2))⟩

/-- the two registries of a program as C09's `Table` -/
def toTable (ι : String → Nat) (P : Prog) : Table :=
  ⟨P.types.toList.map (tyTo ι), P.tuples.toList.map (tupTo ι)⟩

/-- new id ↦ old id (ids beyond the shaken table ↦ ids beyond the original table) -/
def backMap (sorted : List Nat) (oldSize : Nat) (new : Nat) : Nat :=
  match sorted[new]? with
  | some old => old
  | none => oldSize + new

theorem sweep_tables {P : Prog} {e : Nat} {m : Marks} {out : ShakeOut} (h : sweep P e m = some out) :
    ∃ ys ts, getAll P.types (sortAsc m.types) = some ys ∧ getAll P.tuples (sortAsc m.tuples) = some ts ∧
      out.prog.types = (ys.map (shakeTy (shakeRen P m))).toArray ∧
      out.prog.tuples = (ts.map (shakeTuple (shakeRen P m))).toArray := by
  simp only [sweep] at h
  split at h
  · rename_i fs cs ts bs ys e' hfs hcs hts hbs hys he'
    split at h
    · cases h
    · cases h
      exact ⟨ys, ts, hys, hts, rfl, rfl⟩
  · cases h

theorem getAll_inRange {α : Type} {a : Array α} : ∀ {s : List Nat} {xs : List α}, getAll a s = some xs →
    ∀ i ∈ s, i < a.size
  | [], _, _, _, hi => by cases hi
  | i0 :: s, xs, h, i, hi => by
    simp only [getAll] at h
    split at h
    · rename_i x xs' hx hxs
      rcases List.mem_cons.mp hi with h1 | h1
      · subst h1
        rcases Nat.lt_or_ge i a.size with hlt | hge
        · exact hlt
        · rw [Array.getElem?_eq_none hge] at hx; cases hx
      · exact getAll_inRange hxs i h1
    · cases h

theorem nodup_getElem?_inj {l : List Nat} (hn : l.Nodup) {i j a : Nat} (hi : l[i]? = some a) (hj : l[j]? = some a) :
    i = j := by
  induction l generalizing i j with
  | nil => simp at hi
  | cons b bs ih =>
    obtain ⟨hnb, hnbs⟩ := List.nodup_cons.mp hn
    cases i with
    | zero =>
      cases j with
      | zero => rfl
      | succ j =>
        have h1 : b = a := by simpa using hi
        have h2 : a ∈ bs := List.mem_of_getElem? (by simpa using hj)
        exact (hnb (h1 ▸ h2)).elim
    | succ i =>
      cases j with
      | zero =>
        have h1 : b = a := by simpa using hj
        have h2 : a ∈ bs := List.mem_of_getElem? (by simpa using hi)
        exact (hnb (h1 ▸ h2)).elim
      | succ j =>
        have := ih hnbs (i := i) (j := j) (by simpa using hi) (by simpa using hj)
        omega

theorem backMap_inj {sorted : List Nat} {oldSize : Nat} (hn : sorted.Nodup) (hr : ∀ i ∈ sorted, i < oldSize) :
    ∀ a b, backMap sorted oldSize a = backMap sorted oldSize b → a = b := by
  intro a b h
  unfold backMap at h
  cases ha : sorted[a]? with
  | some x =>
    cases hb : sorted[b]? with
    | some y =>
      rw [ha, hb] at h
      simp only at h
      subst h
      exact nodup_getElem?_inj hn ha hb
    | none =>
      rw [ha, hb] at h
      simp only at h
      have := hr x (List.mem_of_getElem? ha)
      omega
  | none =>
    cases hb : sorted[b]? with
    | some y =>
      rw [ha, hb] at h
      simp only at h
      have := hr y (List.mem_of_getElem? hb)
      omega
    | none =>
      rw [ha, hb] at h
      simp only at h
      omega

theorem back_of_marked {s : List Nat} {oldSize c : Nat} (hc : c ∈ s) :
    backMap (sortAsc s) oldSize (orSelf (rankMap (sortAsc s)) c) = c := by
  obtain ⟨j, hj⟩ := rankMap_get_of_mem (mem_sortAsc.mpr hc)
  rw [orSelf_of_get hj]
  have := rankMap_get hj
  simp [backMap, this]

/-- renaming the forward-renamed entry back gives the original entry (when its references are marked) -/
theorem tyTo_back (ι : String → Nat) (P : Prog) (m : Marks) {τ0 : Ty} (hm : TyMarked m τ0) :
    (tyTo ι (shakeTy (shakeRen P m) τ0)).rename (backMap (sortAsc m.types) P.types.size)
        (backMap (sortAsc m.tuples) P.tuples.size) = tyTo ι τ0 := by
  have hb : ∀ c ∈ m.types, backMap (sortAsc m.types) P.types.size (orSelf (shakeRen P m).type c) = c :=
    fun c hc => back_of_marked hc
  cases τ0 with
  | int => rfl
  | bin => rfl
  | ref => rfl
  | cycle d => rfl
  | resource n => rfl
  | var n => rfl
  | tuple id =>
    have hid : id ∈ m.tuples := hm
    simp only [shakeTy, tyTo, QM.Types.Ty.rename]
    congr 1
    exact back_of_marked hid
  | part n fs =>
    have hc : ∀ t ∈ fs.map (·.2), t ∈ m.types := hm
    simp only [shakeTy, tyTo, QM.Types.Ty.rename, List.map_map]
    congr 1
    apply List.map_congr_left
    intro p hp
    simp only [Function.comp]
    rw [hb p.2 (hc _ (List.mem_map.mpr ⟨p, hp, rfl⟩))]
  | callable p r v =>
    have hc : ∀ t ∈ [p, r, v], t ∈ m.types := hm
    simp only [shakeTy, tyTo, QM.Types.Ty.rename, hb p (hc p (by simp)), hb r (hc r (by simp)), hb v (hc v (by simp))]
  | union ids =>
    have hc : ∀ t ∈ ids, t ∈ m.types := hm
    simp only [shakeTy, tyTo, QM.Types.Ty.rename, List.map_map]
    congr 1
    have : ∀ t ∈ ids, (backMap (sortAsc m.types) P.types.size ∘ orSelf (shakeRen P m).type) t = id t :=
      fun t ht => hb t (hc t ht)
    rw [List.map_congr_left this, List.map_id]
  | process s r =>
    have hc : ∀ t ∈ s.toList ++ r.toList, t ∈ m.types := hm
    simp only [shakeTy, tyTo, QM.Types.Ty.rename, Option.map_map]
    have hs : Option.map (backMap (sortAsc m.types) P.types.size ∘ orSelf (shakeRen P m).type) s = s := by
      cases s with
      | none => rfl
      | some a => simp [hb a (hc a (by simp))]
    have hr : Option.map (backMap (sortAsc m.types) P.types.size ∘ orSelf (shakeRen P m).type) r = r := by
      cases r with
      | none => rfl
      | some a => simp [hb a (hc a (by simp))]
    rw [hs, hr]

/-- **The shaken type / tuple tables embed into the original ones** (C09's `Embeds`), by the rank tables
    read backwards — for every program and entry. -/
theorem shake_embeds (ι : String → Nat) {P : Prog} {e : Nat} {out : ShakeOut} (h : treeShake P e = some out) :
    Embeds (backMap (sortAsc out.marks.types) P.types.size) (backMap (sortAsc out.marks.tuples) P.tuples.size)
      (toTable ι out.prog) (toTable ι P) := by
  unfold treeShake treeShakeWith at h
  split at h
  · cases h
  · rename_i m hm
    have hc := markAll_closed hm
    obtain ⟨ys, ts, hys, hts, hty, htu⟩ := sweep_tables h
    have hmarks : out.marks = m := by
      simp only [sweep] at h
      split at h
      · split at h
        · cases h
        · cases h; rfl
      · cases h
    rw [hmarks]
    have ndT : (sortAsc m.types).Nodup := (sortAsc_perm _).nodup_iff.mpr hc.nodupTypes
    have ndU : (sortAsc m.tuples).Nodup := (sortAsc_perm _).nodup_iff.mpr hc.nodupTuples
    obtain ⟨hylen, hyget⟩ := getAll_spec hys
    obtain ⟨htlen, htget⟩ := getAll_spec hts
    refine ⟨backMap_inj ndT (getAll_inRange hys), backMap_inj ndU (getAll_inRange hts), ?_, ?_⟩
    · -- types
      intro t'
      simp only [toTable, hty, List.getElem?_map]
      cases hs : (sortAsc m.types)[t']? with
      | none =>
        have hge : ys.length ≤ t' := by
          rw [hylen]
          rcases Nat.lt_or_ge t' (sortAsc m.types).length with h1 | h1
          · rw [List.getElem?_eq_getElem h1] at hs; cases hs
          · exact h1
        simp only [backMap, hs, List.getElem?_eq_none hge, Option.map_none]
        have : P.types.toList[P.types.size + t']? = none := List.getElem?_eq_none (by simp)
        rw [this]; rfl
      | some old =>
        have h1 : ys[t']? = P.types[old]? := hyget t' old hs
        have hold : old ∈ m.types := mem_sortAsc.mp (List.mem_of_getElem? hs)
        have hlt : old < P.types.size := getAll_inRange hys old (List.mem_of_getElem? hs)
        have h2 : P.types[old]? = some P.types[old] := Array.getElem?_eq_getElem hlt
        simp only [backMap, hs, h1, h2, Option.map_some]
        have hm' := hc.types old hold _ h2
        rw [tyTo_back ι P m hm']
        simp [h2]
    · -- tuples
      intro i'
      simp only [toTable, htu, List.getElem?_map]
      cases hs : (sortAsc m.tuples)[i']? with
      | none =>
        have hge : ts.length ≤ i' := by
          rw [htlen]
          rcases Nat.lt_or_ge i' (sortAsc m.tuples).length with h1 | h1
          · rw [List.getElem?_eq_getElem h1] at hs; cases hs
          · exact h1
        simp only [backMap, hs, List.getElem?_eq_none hge, Option.map_none]
        have : P.tuples.toList[P.tuples.size + i']? = none := List.getElem?_eq_none (by simp)
        rw [this]; rfl
      | some old =>
        have h1 : ts[i']? = P.tuples[old]? := htget i' old hs
        have hold : old ∈ m.tuples := mem_sortAsc.mp (List.mem_of_getElem? hs)
        have hlt : old < P.tuples.size := getAll_inRange hts old (List.mem_of_getElem? hs)
        have h2 : P.tuples[old]? = some P.tuples[old] := Array.getElem?_eq_getElem hlt
        simp only [backMap, hs, h1, h2, Option.map_some]
        have hf := hc.tuples old hold _ h2
        simp only [tupTo, shakeTuple, QM.Types.TupleInfo.rename, List.map_map]
        have : P.tuples.toList[old]? = some P.tuples[old] := by simp [h2]
        rw [this]
        simp only [Option.map_some, Option.some.injEq, tupTo]
        congr 1
        apply List.map_congr_left
        intro p hp
        simp only [Function.comp]
        have hb := back_of_marked (oldSize := P.types.size) (hf p hp)
        have hre : (shakeRen P m).type = rankMap (sortAsc m.types) := rfl
        rw [hre, hb]


theorem sweep_fns_builtins {P : Prog} {e : Nat} {m : Marks} {out : ShakeOut} (h : sweep P e m = some out) :
    ∃ fs fs' bs, getAll P.fns (sortAsc m.fns) = some fs ∧ mapOpt (shakeFn (shakeRen P m)) fs = some fs' ∧
      out.prog.fns = fs'.toArray ∧ getAll P.builtins (sortAsc m.builtins) = some bs ∧
      out.prog.builtins = (bs.map (shakeBuiltin (shakeRen P m))).toArray ∧
      out.prog.resources = (sortStrAsc m.resources).toArray := by
  simp only [sweep] at h
  split at h
  · rename_i fs cs ts bs ys e' hfs hcs hts hbs hys he'
    split at h
    · cases h
    · rename_i fs' hfs'
      cases h
      exact ⟨fs, fs', bs, hfs, hfs', rfl, hbs, rfl, rfl⟩
  · cases h

/-- first index of a name (0 if absent) -/
def nameIdx (n : String) : List String → Nat
  | [] => 0
  | a :: as => if a = n then 0 else nameIdx n as + 1

theorem nameIdx_get {n : String} : ∀ {l : List String}, n ∈ l → l[nameIdx n l]? = some n
  | [], h => by cases h
  | a :: as, h => by
    simp only [nameIdx]
    split
    · rename_i heq; simp [heq]
    · rename_i hne
      rcases List.mem_cons.mp h with h1 | h1
      · exact (hne h1.symm).elim
      · simpa using nameIdx_get h1

theorem mem_isTypeOps_iff {t : Nat} : ∀ {is : List Instr}, t ∈ isTypeOps is ↔ Instr.isType t ∈ is
  | [] => by simp [isTypeOps]
  | i :: is => by
    have ih := @mem_isTypeOps_iff t is
    cases i <;> simp [isTypeOps, ih]

theorem mapOpt_mem {α β : Type} {f : α → Option β} {l : List α} {l' : List β}
    (h : mapOpt f l = some l') {a : α} (ha : a ∈ l) : ∃ b, b ∈ l' ∧ f a = some b := by
  obtain ⟨i, hi⟩ := List.mem_iff_getElem?.mp ha
  rcases mapOpt_get? h i with ⟨hn, _⟩ | ⟨a2, b, h1, h2, h3⟩
  · rw [hi] at hn; cases hn
  · rw [hi] at h1; cases h1
    exact ⟨b, List.mem_of_getElem? h2, h3⟩

theorem isTypeOps_rename {ρ : Ren} {is is' : List Instr} (h : renameInstrs ρ is = some is') {t t' : Nat}
    (ht : t ∈ isTypeOps is) (ht' : ρ.type.get t = some t') : t' ∈ isTypeOps is' := by
  obtain ⟨b, hb, hf⟩ := mapOpt_mem h (mem_isTypeOps_iff.mp ht)
  simp only [renameInstr, ht', Option.map_some, Option.some.injEq] at hf
  subst hf
  exact mem_isTypeOps_iff.mpr hb

theorem backMap_of_rank {s : List Nat} {n a i : Nat} (h : (rankMap s).get a = some i) : backMap s n i = a := by
  simp [backMap, rankMap_get h]

theorem nameIdx_of_get {n : String} : ∀ {l : List String} {r : Nat}, l.Nodup → l[r]? = some n → nameIdx n l = r
  | [], r, _, h => by simp at h
  | a :: as, 0, _, h => by
    simp at h; simp [nameIdx, h]
  | a :: as, r + 1, hn, h => by
    simp only [List.getElem?_cons_succ] at h
    have hmem : n ∈ as := List.mem_of_getElem? h
    have hne : a ≠ n := by
      intro heq; subst heq
      exact (List.nodup_cons.mp hn).1 hmem
    simp only [nameIdx, hne, if_false]
    rw [nameIdx_of_get (List.nodup_cons.mp hn).2 h]



theorem lookup_filterMap_pair {g : Nat → Option Nat} : ∀ (l : List Nat) {r j : Nat},
    List.lookup r (l.filterMap (fun i => (g i).map (fun j => (i, j)))) = some j → g r = some j
  | [], _, _, h => by simp at h
  | i :: is, r, j, h => by
    simp only [List.filterMap_cons] at h
    cases hg : g i with
    | none => rw [hg] at h; exact lookup_filterMap_pair is h
    | some j0 =>
      rw [hg] at h
      simp only [Option.map_some, List.lookup_cons] at h
      cases hri : r == i with
      | true =>
        rw [hri] at h
        simp only [Option.some.injEq] at h
        have : r = i := by simpa using hri
        subst this; subst h; exact hg
      | false =>
        rw [hri] at h
        exact lookup_filterMap_pair is h


theorem any_eq_get {P : Prog} {p : Ty → Bool} (h : P.types.toList.any p = true) :
    ∃ (n : Nat) (τ : Ty), P.types[n]? = some τ ∧ p τ = true := by
  obtain ⟨τ, hm, hp⟩ := List.any_eq_true.mp h
  obtain ⟨n, hn⟩ := List.mem_iff_getElem?.mp hm
  exact ⟨n, τ, by simpa using hn, hp⟩

theorem toTable_get (ι : String → Nat) {P : Prog} {n : Nat} {τ : Ty} (h : P.types[n]? = some τ) :
    (toTable ι P).types[n]? = some (tyTo ι τ) := by
  have : P.types.toList[n]? = some τ := by simpa using h
  simp [toTable, List.getElem?_map, this]


end QM.Packaging
