import QuiverModel.Core.Packaging.Renaming
/-
Helper lemmas for C10: association-list lookups, the Boolean checks of `validateB` unfolded into
the clauses of `IsRenaming`. (Owner: C10.)
-/
namespace QM.Packaging

theorem AMap.mem_of_get {m : AMap} {k v : Nat} (h : m.get k = some v) : (k, v) ∈ m := by
  unfold AMap.get at h
  induction m with
  | nil => simp at h
  | cons p m ih =>
    obtain ⟨a, b⟩ := p
    simp only [List.lookup_cons] at h
    split at h
    · rename_i heq
      have : k = a := by simpa using heq
      cases h; subst this; simp
    · exact List.mem_cons_of_mem _ (ih h)

theorem AMap.all_of_get {m : AMap} {p : Nat × Nat → Bool} {k v : Nat}
    (h : m.all p = true) (hg : m.get k = some v) : p (k, v) = true :=
  List.all_eq_true.mp h _ (AMap.mem_of_get hg)

theorem distinctB_spec {m : AMap} (h : distinctB (m.map (·.2)) = true) {a b c : Nat}
    (ha : (a, c) ∈ m) (hb : (b, c) ∈ m) : a = b := by
  induction m with
  | nil => simp at ha
  | cons p m ih =>
    obtain ⟨x, y⟩ := p
    simp only [List.map_cons, distinctB, Bool.and_eq_true, Bool.not_eq_eq_eq_not, Bool.not_true] at h
    obtain ⟨hnot, hrest⟩ := h
    have hy : ∀ z, (z, y) ∈ m → False := by
      intro z hz
      have : y ∈ m.map (·.2) := List.mem_map.mpr ⟨(z, y), hz, rfl⟩
      have : (m.map (·.2)).contains y = true := by simpa using this
      rw [this] at hnot; cases hnot
    rcases List.mem_cons.mp ha with ha1 | ha1
    · rcases List.mem_cons.mp hb with hb1 | hb1
      · cases ha1; cases hb1; rfl
      · cases ha1; exact (hy _ hb1).elim
    · rcases List.mem_cons.mp hb with hb1 | hb1
      · cases hb1; exact (hy _ ha1).elim
      · exact ih hrest ha1 hb1

theorem AMap.inj_of_injB {m : AMap} (h : m.injB = true) : m.Inj := by
  intro a b c ha hb
  exact distinctB_spec h (AMap.mem_of_get ha) (AMap.mem_of_get hb)

theorem fnOK_spec {ρ : Ren} {P P' : Prog} {f f' : Nat} (h : fnOK ρ P P' (f, f') = true) :
    ∃ F F', P.fns[f]? = some F ∧ P'.fns[f']? = some F' ∧ F'.captures = F.captures ∧
      renameInstrs ρ F.instrs = some F'.instrs ∧ ρ.type.get F.typeId = some F'.typeId := by
  unfold fnOK at h
  split at h
  · rename_i F F' hF hF'
    simp only [Bool.and_eq_true, beq_iff_eq] at h
    exact ⟨F, F', hF, hF', h.1.1, h.1.2, h.2⟩
  · cases h

theorem constOK_spec {P P' : Prog} {c c' : Nat} (h : constOK P P' (c, c') = true) :
    ∃ k, P.consts[c]? = some k ∧ P'.consts[c']? = some k := by
  unfold constOK at h
  split at h
  · rename_i k k' hk hk'
    have : k = k' := by simpa using h
    subst this
    exact ⟨k, hk, hk'⟩
  · cases h

theorem tupleOK_spec {ρ : Ren} {P P' : Prog} {t t' : Nat} (h : tupleOK ρ P P' (t, t') = true) :
    ∃ T T', P.tuples[t]? = some T ∧ P'.tuples[t']? = some T' ∧ T'.name = T.name ∧
      T'.fields.map (·.1) = T.fields.map (·.1) ∧
      mapOpt (fun (p : Option String × Nat) => ρ.type.get p.2) T.fields = some (T'.fields.map (·.2)) := by
  unfold tupleOK at h
  split at h
  · rename_i T T' hT hT'
    simp only [Bool.and_eq_true, beq_iff_eq] at h
    exact ⟨T, T', hT, hT', h.1.1, h.1.2, h.2⟩
  · cases h

theorem builtinOK_spec {ρ : Ren} {P P' : Prog} {b b' : Nat} (h : builtinOK ρ P P' (b, b') = true) :
    ∃ B B', P.builtins[b]? = some B ∧ P'.builtins[b']? = some B' ∧ B'.name = B.name ∧
      ρ.type.get B.paramType = some B'.paramType ∧ ρ.type.get B.resultType = some B'.resultType := by
  unfold builtinOK at h
  split at h
  · rename_i B B' hB hB'
    simp only [Bool.and_eq_true, beq_iff_eq] at h
    exact ⟨B, B', hB, hB', h.1.1, h.1.2, h.2⟩
  · cases h

theorem typeOK_spec {ρ : Ren} {P P' : Prog} {t t' : Nat} (h : typeOK ρ P P' (t, t') = true) :
    ∃ τ τ', P.types[t]? = some τ ∧ P'.types[t']? = some τ' ∧ renameTy ρ τ = some τ' := by
  unfold typeOK at h
  split at h
  · rename_i τ τ' hτ hτ'
    exact ⟨τ, τ', hτ, hτ', by simpa using h⟩
  · cases h

theorem resourceOK_spec {P P' : Prog} {r r' : Nat} (h : resourceOK P P' (r, r') = true) :
    ∃ n, P.resources[r]? = some n ∧ P'.resources[r']? = some n := by
  unfold resourceOK at h
  split at h
  · rename_i n n' hn hn'
    have : n = n' := by simpa using h
    subst this
    exact ⟨n, hn, hn'⟩
  · cases h

theorem compatFnOK_spec {ρ : Ren} {P P' : Prog} {tags : List (Tag × Tag)} {f f' : Nat} {F : Fn}
    (h : compatFnOK ρ P P' tags (f, f') = true) (hF : P.fns[f]? = some F) {t : Nat}
    (ht : t ∈ isTypeOps F.instrs) {t' : Nat} (ht' : ρ.type.get t = some t') {c c' : Tag}
    (hc : (c, c') ∈ tags) : P.isCompat t c = P'.isCompat t' c' := by
  unfold compatFnOK at h
  simp only [hF] at h
  have h1 := List.all_eq_true.mp h t ht
  simp only [ht'] at h1
  unfold compatRowOK at h1
  have h2 := List.all_eq_true.mp h1 (c, c') hc
  simpa using h2

theorem mem_tagPairs {ρ : Ren} {c c' : Tag} (h : renameTag ρ c = some c') : (c, c') ∈ tagPairs ρ := by
  unfold tagPairs
  cases c with
  | int => simp [renameTag] at h; subst h; simp
  | bin => simp [renameTag] at h; subst h; simp
  | ref => simp [renameTag] at h; subst h; simp
  | tuple t =>
    simp only [renameTag, Option.map_eq_some_iff] at h
    obtain ⟨t', ht, rfl⟩ := h
    have := AMap.mem_of_get ht
    simp only [List.mem_append, List.mem_map]
    exact Or.inl (Or.inl (Or.inl (Or.inl (Or.inr ⟨(t, t'), this, rfl⟩))))
  | fn f =>
    simp only [renameTag, Option.map_eq_some_iff] at h
    obtain ⟨f', hf, rfl⟩ := h
    have := AMap.mem_of_get hf
    simp only [List.mem_append, List.mem_map]
    exact Or.inl (Or.inl (Or.inl (Or.inr ⟨(f, f'), this, rfl⟩)))
  | builtin b =>
    simp only [renameTag, Option.map_eq_some_iff] at h
    obtain ⟨b', hb, rfl⟩ := h
    have := AMap.mem_of_get hb
    simp only [List.mem_append, List.mem_map]
    exact Or.inl (Or.inl (Or.inr ⟨(b, b'), this, rfl⟩))
  | proc f =>
    simp only [renameTag, Option.map_eq_some_iff] at h
    obtain ⟨f', hf, rfl⟩ := h
    have := AMap.mem_of_get hf
    simp only [List.mem_append, List.mem_map]
    exact Or.inl (Or.inr ⟨(f, f'), this, rfl⟩)
  | res r =>
    simp only [renameTag, Option.map_eq_some_iff] at h
    obtain ⟨r', hr, rfl⟩ := h
    have := AMap.mem_of_get hr
    simp only [List.mem_append, List.mem_map]
    exact Or.inr ⟨(r, r'), this, rfl⟩

theorem fparamOK_spec {P P' : Prog} {tags : List (Tag × Tag)} {f f' : Nat}
    (h : fparamOK P P' tags (f, f') = true) {c c' : Tag} (hc : (c, c') ∈ tags) :
    P.msgCompatFn f c = P'.msgCompatFn f' c' := by
  unfold fparamOK at h
  simpa using List.all_eq_true.mp h (c, c') hc

theorem bparamOK_spec {P P' : Prog} {tags : List (Tag × Tag)} {b b' : Nat}
    (h : bparamOK P P' tags (b, b') = true) {c c' : Tag} (hc : (c, c') ∈ tags) :
    P.msgCompatBuiltin b c = P'.msgCompatBuiltin b' c' := by
  unfold bparamOK at h
  simpa using List.all_eq_true.mp h (c, c') hc

theorem mem_presentPairs {ρ : Ren} {P : Prog} {c c' : Tag} (h : renameTag ρ c = some c')
    (hp : P.tagPresent c = true) : (c, c') ∈ presentPairs ρ P := by
  unfold presentPairs
  exact List.mem_filter.mpr ⟨mem_tagPairs h, by simpa using hp⟩

theorem canonOK_spec {ρ : Ren} {P P' : Prog} (h : canonOK ρ P P' = true) {a a' b b' : Nat}
    (ha : ρ.tuple.get a = some a') (hb : ρ.tuple.get b = some b') :
    (P.canonOf a = P.canonOf b ↔ P'.canonOf a' = P'.canonOf b') := by
  unfold canonOK at h
  have h1 := List.all_eq_true.mp h (a, a') (AMap.mem_of_get ha)
  have h2 := List.all_eq_true.mp h1 (b, b') (AMap.mem_of_get hb)
  simp only [beq_iff_eq] at h2
  constructor
  · intro hx
    have : (P.canonOf a == P.canonOf b) = true := by simpa using hx
    rw [h2] at this; simpa using this
  · intro hx
    have : (P'.canonOf a' == P'.canonOf b') = true := by simpa using hx
    rw [← h2] at this; simpa using this

end QM.Packaging
