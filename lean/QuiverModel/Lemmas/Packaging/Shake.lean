import QuiverModel.Core.Packaging.TreeShake
import QuiverModel.Lemmas.Packaging.Rel
/-
`tree_shake`, sweep phase: if the marks are closed under reference, the swept program is a structural
renaming of the original by the rank tables. (Owner: C10.)
-/
namespace QM.Packaging

/-! ### rank tables -/

theorem lookup_zipIdx {a : Nat} : ∀ {s : List Nat} {k i : Nat}, List.lookup a (s.zipIdx k) = some i →
    ∃ j, i = k + j ∧ s[j]? = some a
  | [], _, _, h => by simp at h
  | b :: s, k, i, h => by
    simp only [List.zipIdx_cons, List.lookup_cons] at h
    split at h
    · rename_i hab
      cases h
      have : a = b := by simpa using hab
      exact ⟨0, by omega, by simp [this]⟩
    · obtain ⟨j, hj, hget⟩ := lookup_zipIdx h
      exact ⟨j + 1, by omega, by simpa using hget⟩

theorem lookup_zipIdx_of_mem {a : Nat} : ∀ {s : List Nat} {k : Nat}, a ∈ s → ∃ i, List.lookup a (s.zipIdx k) = some i
  | [], _, h => by cases h
  | b :: s, k, h => by
    simp only [List.zipIdx_cons, List.lookup_cons]
    split
    · exact ⟨k, rfl⟩
    · rename_i hne
      rcases List.mem_cons.mp h with h | h
      · subst h; simp at hne
      · exact lookup_zipIdx_of_mem h

theorem rankMap_get {s : List Nat} {a i : Nat} (h : (rankMap s).get a = some i) : s[i]? = some a := by
  obtain ⟨j, hj, hget⟩ := lookup_zipIdx (k := 0) h
  have : i = j := by omega
  subst this; exact hget

theorem rankMap_get_of_mem {s : List Nat} {a : Nat} (h : a ∈ s) : ∃ i, (rankMap s).get a = some i :=
  lookup_zipIdx_of_mem h

theorem rankMap_inj (s : List Nat) : (rankMap s).Inj := by
  intro a b c ha hb
  have h1 := rankMap_get ha
  have h2 := rankMap_get hb
  rw [h1] at h2; cases h2; rfl

theorem mem_insertAsc {a b : Nat} {l : List Nat} : b ∈ insertAsc a l ↔ b = a ∨ b ∈ l := by
  induction l with
  | nil => simp [insertAsc]
  | cons c cs ih =>
    simp only [insertAsc]
    split
    · simp
    · simp only [List.mem_cons, ih]
      constructor
      · rintro (h | h | h)
        · exact Or.inr (Or.inl h)
        · exact Or.inl h
        · exact Or.inr (Or.inr h)
      · rintro (h | h | h)
        · exact Or.inr (Or.inl h)
        · exact Or.inl h
        · exact Or.inr (Or.inr h)

theorem mem_sortAsc {b : Nat} {l : List Nat} : b ∈ sortAsc l ↔ b ∈ l := by
  induction l with
  | nil => simp [sortAsc]
  | cons a as ih => simp [sortAsc, mem_insertAsc, ih]

theorem getAll_spec {α : Type} {a : Array α} : ∀ {s : List Nat} {xs : List α}, getAll a s = some xs →
    xs.length = s.length ∧ ∀ (j i : Nat), s[j]? = some i → xs[j]? = a[i]?
  | [], xs, h => by
    simp only [getAll, Option.some.injEq] at h
    subst h
    exact ⟨rfl, by simp⟩
  | i0 :: s, xs, h => by
    simp only [getAll] at h
    split at h
    · rename_i x xs' hx hxs
      cases h
      obtain ⟨hlen, hget⟩ := getAll_spec hxs
      refine ⟨by simp [hlen], ?_⟩
      intro j i hj
      cases j with
      | zero =>
        have : i0 = i := by simpa using hj
        subst this; simp [hx]
      | succ j => simpa using hget j i (by simpa using hj)
    · cases h

/-! ### Marks closed under reference -/

/-- what an instruction refers to is marked -/
def InstrMarked (m : Marks) : Instr → Prop
  | .const c => c ∈ m.consts
  | .tuple t => t ∈ m.tuples
  | .isType t => t ∈ m.types
  | .function f => f ∈ m.fns
  | .builtin b => b ∈ m.builtins
  | .process _ f => f ∈ m.fns
  | _ => True

/-- what a type entry refers to is marked -/
def TyMarked (m : Marks) : Ty → Prop
  | .tuple id => id ∈ m.tuples
  | τ => ∀ t ∈ tyChildren τ, t ∈ m.types

/-- The marks are closed under reference (what the mark phase establishes), the entry and the two
    fixed tuples are marked and keep rank 0 / 1. -/
structure Closed (P : Prog) (e : Nat) (m : Marks) : Prop where
  entry : e ∈ m.fns
  rank0 : (rankMap (sortAsc m.tuples)).get 0 = some 0
  rank1 : (rankMap (sortAsc m.tuples)).get 1 = some 1
  fns : ∀ f ∈ m.fns, ∀ F, P.fns[f]? = some F → F.typeId ∈ m.types
  types : ∀ t ∈ m.types, ∀ τ, P.types[t]? = some τ → TyMarked m τ
  tuples : ∀ u ∈ m.tuples, ∀ T, P.tuples[u]? = some T → ∀ p ∈ T.fields, p.2 ∈ m.types
  builtins : ∀ b ∈ m.builtins, ∀ B, P.builtins[b]? = some B → B.paramType ∈ m.types ∧ B.resultType ∈ m.types
  nodupTypes : m.types.Nodup
  nodupTuples : m.tuples.Nodup

/-- `IsRenaming` without the four clauses about the run-time lookup tables (which `tree_shake` does not
    produce: they are recomputed from the shaken tables when the bytecode is loaded). -/
structure IsStructRenaming (ρ : Ren) (P P' : Prog) (e e' : Nat) : Prop where
  entry : ρ.fn.get e = some e'
  inj_const : ρ.const.Inj
  inj_fn : ρ.fn.Inj
  inj_tuple : ρ.tuple.Inj
  inj_type : ρ.type.Inj
  inj_builtin : ρ.builtin.Inj
  nil_fixed : ρ.tuple.get 0 = some 0
  ok_fixed : ρ.tuple.get 1 = some 1
  fns : ∀ f f', ρ.fn.get f = some f' →
    ∃ F F', P.fns[f]? = some F ∧ P'.fns[f']? = some F' ∧ F'.captures = F.captures ∧
      renameInstrs ρ F.instrs = some F'.instrs ∧ ρ.type.get F.typeId = some F'.typeId
  consts : ∀ c c', ρ.const.get c = some c' → ∃ k, P.consts[c]? = some k ∧ P'.consts[c']? = some k
  tuples : ∀ t t', ρ.tuple.get t = some t' →
    ∃ T T', P.tuples[t]? = some T ∧ P'.tuples[t']? = some T' ∧ T'.name = T.name ∧
      T'.fields.map (·.1) = T.fields.map (·.1) ∧
      mapOpt (fun (p : Option String × Nat) => ρ.type.get p.2) T.fields = some (T'.fields.map (·.2))
  builtins : ∀ b b', ρ.builtin.get b = some b' →
    ∃ B B', P.builtins[b]? = some B ∧ P'.builtins[b']? = some B' ∧ B'.name = B.name ∧
      ρ.type.get B.paramType = some B'.paramType ∧ ρ.type.get B.resultType = some B'.resultType
  types : ∀ t t', ρ.type.get t = some t' →
    ∃ τ τ', P.types[t]? = some τ ∧ P'.types[t']? = some τ' ∧ renameTy ρ τ = some τ'

/-- the structural clauses plus the four table clauses are `IsRenaming` -/
theorem IsStructRenaming.toIsRenaming {ρ : Ren} {P P' : Prog} {e e' : Nat} (h : IsStructRenaming ρ P P' e e')
    (hres : ∀ r r', ρ.resource.get r = some r' → ∃ n, P.resources[r]? = some n ∧ P'.resources[r']? = some n)
    (hcompat : ∀ f f' F, ρ.fn.get f = some f' → P.fns[f]? = some F → ∀ t, t ∈ isTypeOps F.instrs →
      ∀ t', ρ.type.get t = some t' → ∀ c c', renameTag ρ c = some c' → P.tagPresent c = true →
        P.isCompat t c = P'.isCompat t' c')
    (hfparam : ∀ f f', ρ.fn.get f = some f' → ∀ c c', renameTag ρ c = some c' → P.tagPresent c = true →
      P.msgCompatFn f c = P'.msgCompatFn f' c')
    (hbparam : ∀ b b', ρ.builtin.get b = some b' → ∀ c c', renameTag ρ c = some c' → P.tagPresent c = true →
      P.msgCompatBuiltin b c = P'.msgCompatBuiltin b' c')
    (hcanon : ∀ a a' b b', ρ.tuple.get a = some a' → ρ.tuple.get b = some b' →
      (P.canonOf a = P.canonOf b ↔ P'.canonOf a' = P'.canonOf b')) :
    IsRenaming ρ P P' e e' :=
  { entry := h.entry, inj_const := h.inj_const, inj_fn := h.inj_fn, inj_tuple := h.inj_tuple,
    inj_type := h.inj_type, inj_builtin := h.inj_builtin, nil_fixed := h.nil_fixed, ok_fixed := h.ok_fixed,
    fns := h.fns, consts := h.consts, tuples := h.tuples, builtins := h.builtins, types := h.types,
    resources := hres, compat := hcompat, fparam := hfparam, bparam := hbparam, canon := hcanon }

/-! ### The sweep -/

theorem orSelf_of_get {m : AMap} {i j : Nat} (h : m.get i = some j) : orSelf m i = j := by simp [orSelf, h]

theorem mapOpt_congr_some {α β : Type} {f : α → Option β} {g : α → β} :
    ∀ (l : List α), (∀ a ∈ l, f a = some (g a)) → mapOpt f l = some (l.map g)
  | [], _ => rfl
  | a :: as, h => by
    simp only [mapOpt, h a (List.mem_cons_self ..), mapOpt_congr_some as (fun b hb => h b (List.mem_cons_of_mem _ hb)),
      List.map_cons]

theorem renameInstr_isSome_of_marked {P : Prog} {m : Marks} {i : Instr} (h : InstrMarked m i) :
    ∃ i', renameInstr (shakeRen P m) i = some i' := by
  cases i with
  | const c =>
    obtain ⟨j, hj⟩ := rankMap_get_of_mem (mem_sortAsc.mpr (show c ∈ m.consts from h))
    have hj' : (shakeRen P m).const.get c = some j := hj
    exact ⟨.const j, by simp [renameInstr, hj']⟩
  | tuple t =>
    obtain ⟨j, hj⟩ := rankMap_get_of_mem (mem_sortAsc.mpr (show t ∈ m.tuples from h))
    have hj' : (shakeRen P m).tuple.get t = some j := hj
    exact ⟨.tuple j, by simp [renameInstr, hj']⟩
  | isType t =>
    obtain ⟨j, hj⟩ := rankMap_get_of_mem (mem_sortAsc.mpr (show t ∈ m.types from h))
    have hj' : (shakeRen P m).type.get t = some j := hj
    exact ⟨.isType j, by simp [renameInstr, hj']⟩
  | function f =>
    obtain ⟨j, hj⟩ := rankMap_get_of_mem (mem_sortAsc.mpr (show f ∈ m.fns from h))
    have hj' : (shakeRen P m).fn.get f = some j := hj
    exact ⟨.function j, by simp [renameInstr, hj']⟩
  | builtin b =>
    obtain ⟨j, hj⟩ := rankMap_get_of_mem (mem_sortAsc.mpr (show b ∈ m.builtins from h))
    have hj' : (shakeRen P m).builtin.get b = some j := hj
    exact ⟨.builtin j, by simp [renameInstr, hj']⟩
  | process pid f =>
    obtain ⟨j, hj⟩ := rankMap_get_of_mem (mem_sortAsc.mpr (show f ∈ m.fns from h))
    have hj' : (shakeRen P m).fn.get f = some j := hj
    exact ⟨.process pid j, by simp [renameInstr, hj']⟩
  | _ => exact ⟨_, rfl⟩

theorem renameTy_shake {P : Prog} {m : Marks} {τ : Ty} (h : TyMarked m τ) :
    renameTy (shakeRen P m) τ = some (shakeTy (shakeRen P m) τ) := by
  have hget : ∀ t, t ∈ m.types → (shakeRen P m).type.get t = some (orSelf (shakeRen P m).type t) := by
    intro t ht
    obtain ⟨j, hj⟩ := rankMap_get_of_mem (mem_sortAsc.mpr ht)
    have hj' : (shakeRen P m).type.get t = some j := hj
    rw [hj', orSelf_of_get hj']
  cases τ with
  | int => rfl
  | bin => rfl
  | ref => rfl
  | cycle d => rfl
  | resource n => rfl
  | var n => rfl
  | tuple id =>
    have hid : id ∈ m.tuples := h
    obtain ⟨j, hj⟩ := rankMap_get_of_mem (mem_sortAsc.mpr hid)
    have hj' : (shakeRen P m).tuple.get id = some j := hj
    simp [renameTy, shakeTy, hj', orSelf_of_get hj']
  | part n fs =>
    have hc : ∀ t ∈ fs.map (·.2), t ∈ m.types := h
    simp only [renameTy, shakeTy]
    rw [mapOpt_congr_some (g := fun p => (p.1, orSelf (shakeRen P m).type p.2)) fs
      (fun p hp => by simp [hget p.2 (hc _ (List.mem_map.mpr ⟨p, hp, rfl⟩))])]
    rfl
  | callable p r v =>
    have hc : ∀ t ∈ [p, r, v], t ∈ m.types := h
    simp only [renameTy, shakeTy, hget p (hc p (by simp)), hget r (hc r (by simp)), hget v (hc v (by simp))]
  | union ids =>
    have hc : ∀ t ∈ ids, t ∈ m.types := h
    simp only [renameTy, shakeTy]
    rw [mapOpt_congr_some (g := orSelf (shakeRen P m).type) ids (fun t ht => hget t (hc t ht))]
    rfl
  | process s r =>
    have hc : ∀ t ∈ s.toList ++ r.toList, t ∈ m.types := h
    have hs : renameOptTy (shakeRen P m) s = some (s.map (orSelf (shakeRen P m).type)) := by
      cases s with
      | none => rfl
      | some a => simp [renameOptTy, hget a (hc a (by simp))]
    have hr : renameOptTy (shakeRen P m) r = some (r.map (orSelf (shakeRen P m).type)) := by
      cases r with
      | none => rfl
      | some a => simp [renameOptTy, hget a (hc a (by simp))]
    simp only [renameTy, shakeTy, hs, hr]

/-- **The sweep phase is correct for every program**: whenever it returns (no dangling index), and the
    marks are closed under reference, the swept program is a structural renaming of the original by the
    rank tables — every kept function is the instruction-by-instruction image, every kept constant /
    tuple / builtin / type entry the image of the original entry, the tables injective, NIL / OK and the
    entry mapped as required. -/
theorem sweep_structRenaming {P : Prog} {e : Nat} {m : Marks} {out : ShakeOut}
    (h : sweep P e m = some out) (hc : Closed P e m) :
    out.ren = shakeRen P m ∧ IsStructRenaming out.ren P out.prog e out.entry := by
  simp only [sweep] at h
  split at h
  · rename_i fs cs ts bs ys e' hfs hcs hts hbs hys he'
    split at h
    · cases h
    · rename_i fs' hfs'
      cases h
      refine ⟨rfl, ?_⟩
      have hmemT : ∀ t, t ∈ m.types → ∃ j, (shakeRen P m).type.get t = some j ∧ orSelf (shakeRen P m).type t = j := by
        intro t ht
        obtain ⟨j, hj⟩ := rankMap_get_of_mem (mem_sortAsc.mpr ht)
        exact ⟨j, hj, orSelf_of_get hj⟩
      refine
        { entry := he'
          inj_const := rankMap_inj _
          inj_fn := rankMap_inj _
          inj_tuple := rankMap_inj _
          inj_type := rankMap_inj _
          inj_builtin := rankMap_inj _
          nil_fixed := hc.rank0
          ok_fixed := hc.rank1
          fns := ?_, consts := ?_, tuples := ?_, builtins := ?_, types := ?_ }
      · -- functions
        intro f f' hf
        have hsf : (sortAsc m.fns)[f']? = some f := rankMap_get hf
        have hfm : f ∈ m.fns := mem_sortAsc.mp (List.mem_of_getElem? hsf)
        obtain ⟨hlen, hget⟩ := getAll_spec hfs
        have h1 : fs[f']? = P.fns[f]? := hget f' f hsf
        have hlt : f' < fs.length := by
          rw [hlen]
          rcases Nat.lt_or_ge f' (sortAsc m.fns).length with h | h
          · exact h
          · rw [List.getElem?_eq_none h] at hsf; cases hsf
        have hF : fs[f']? = some fs[f'] := List.getElem?_eq_getElem hlt
        rw [hF] at h1
        rcases mapOpt_get? hfs' f' with ⟨hn, _⟩ | ⟨F, F', hFa, hF', hsh⟩
        · rw [hF] at hn; cases hn
        · rw [hF] at hFa; cases hFa
          simp only [shakeFn, Option.map_eq_some_iff] at hsh
          obtain ⟨is, his, rfl⟩ := hsh
          have hty := hc.fns f hfm _ h1.symm
          obtain ⟨j, hj, hor⟩ := hmemT _ hty
          exact ⟨fs[f'], { instrs := is, captures := fs[f'].captures, typeId := orSelf (shakeRen P m).type fs[f'].typeId },
            h1.symm, by simpa using hF', rfl, his, by rw [hj, hor]⟩
      · -- constants
        intro c c' hcg
        have hsc : (sortAsc m.consts)[c']? = some c := rankMap_get hcg
        obtain ⟨hlen, hget⟩ := getAll_spec hcs
        have h1 : cs[c']? = P.consts[c]? := hget c' c hsc
        have hlt : c' < cs.length := by
          rw [hlen]
          rcases Nat.lt_or_ge c' (sortAsc m.consts).length with h | h
          · exact h
          · rw [List.getElem?_eq_none h] at hsc; cases hsc
        have hK : cs[c']? = some cs[c'] := List.getElem?_eq_getElem hlt
        rw [hK] at h1
        exact ⟨cs[c'], h1.symm, by simpa using hK⟩
      · -- tuples
        intro t t' ht
        have hst : (sortAsc m.tuples)[t']? = some t := rankMap_get ht
        have htm : t ∈ m.tuples := mem_sortAsc.mp (List.mem_of_getElem? hst)
        obtain ⟨hlen, hget⟩ := getAll_spec hts
        have h1 : ts[t']? = P.tuples[t]? := hget t' t hst
        have hlt : t' < ts.length := by
          rw [hlen]
          rcases Nat.lt_or_ge t' (sortAsc m.tuples).length with h | h
          · exact h
          · rw [List.getElem?_eq_none h] at hst; cases hst
        have hT : ts[t']? = some ts[t'] := List.getElem?_eq_getElem hlt
        rw [hT] at h1
        have hfields := hc.tuples t htm _ h1.symm
        refine ⟨ts[t'], shakeTuple (shakeRen P m) ts[t'], h1.symm, by simp [hT], rfl, ?_, ?_⟩
        · simp [shakeTuple, List.map_map, Function.comp_def]
        · simp only [shakeTuple, List.map_map, Function.comp_def]
          exact mapOpt_congr_some _ (fun p hp => by
            obtain ⟨j, hj, hor⟩ := hmemT _ (hfields p hp)
            rw [hj, hor])
      · -- builtins
        intro b b' hb
        have hsb : (sortAsc m.builtins)[b']? = some b := rankMap_get hb
        have hbm : b ∈ m.builtins := mem_sortAsc.mp (List.mem_of_getElem? hsb)
        obtain ⟨hlen, hget⟩ := getAll_spec hbs
        have h1 : bs[b']? = P.builtins[b]? := hget b' b hsb
        have hlt : b' < bs.length := by
          rw [hlen]
          rcases Nat.lt_or_ge b' (sortAsc m.builtins).length with h | h
          · exact h
          · rw [List.getElem?_eq_none h] at hsb; cases hsb
        have hB : bs[b']? = some bs[b'] := List.getElem?_eq_getElem hlt
        rw [hB] at h1
        obtain ⟨hp, hr⟩ := hc.builtins b hbm _ h1.symm
        obtain ⟨j1, hj1, hor1⟩ := hmemT _ hp
        obtain ⟨j2, hj2, hor2⟩ := hmemT _ hr
        exact ⟨bs[b'], shakeBuiltin (shakeRen P m) bs[b'], h1.symm, by simp [hB], rfl,
          by simp [shakeBuiltin, hj1, hor1], by simp [shakeBuiltin, hj2, hor2]⟩
      · -- types
        intro t t' ht
        have hsy : (sortAsc m.types)[t']? = some t := rankMap_get ht
        have htm : t ∈ m.types := mem_sortAsc.mp (List.mem_of_getElem? hsy)
        obtain ⟨hlen, hget⟩ := getAll_spec hys
        have h1 : ys[t']? = P.types[t]? := hget t' t hsy
        have hlt : t' < ys.length := by
          rw [hlen]
          rcases Nat.lt_or_ge t' (sortAsc m.types).length with h | h
          · exact h
          · rw [List.getElem?_eq_none h] at hsy; cases hsy
        have hY : ys[t']? = some ys[t'] := List.getElem?_eq_getElem hlt
        rw [hY] at h1
        exact ⟨ys[t'], shakeTy (shakeRen P m) ys[t'], h1.symm, by simp [hY],
          renameTy_shake (hc.types t htm _ h1.symm)⟩
  · cases h

end QM.Packaging
