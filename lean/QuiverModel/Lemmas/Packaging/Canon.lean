import QuiverModel.Core.Packaging.Renaming
/-
`compute_canonical_tuples` (compatibility.rs) as a function of the tuple table, and the fact that makes
the `canon` clause of `IsRenaming` a consequence of name/label preservation. (Owner: C10.)
-/
namespace QM.Packaging

abbrev Shape := Option String × List (Option String)

/-- value shape of a tuple type: name + field labels (field *types* ignored) -/
def shapeOf (T : TupleInfo) : Shape := (T.name, T.fields.map (·.1))

/-- index of the first entry equal to `sh` (the list length if there is none) -/
def firstIdxOf (sh : Shape) : List Shape → Nat
  | [] => 0
  | s :: ss => if s = sh then 0 else firstIdxOf sh ss + 1

/-- `compute_canonical_tuples`: each tuple id is mapped to the lowest id with the same shape
    (`by_shape.entry(shape).or_insert(id)` while iterating in id order). -/
def canonTable (ts : List TupleInfo) : List Nat :=
  (ts.map shapeOf).map (fun sh => firstIdxOf sh (ts.map shapeOf))

theorem firstIdxOf_get {sh : Shape} {l : List Shape} (h : sh ∈ l) : l[firstIdxOf sh l]? = some sh := by
  induction l with
  | nil => cases h
  | cons s ss ih =>
    simp only [firstIdxOf]
    split
    · rename_i heq; simp [heq]
    · rename_i hne
      rcases List.mem_cons.mp h with h | h
      · exact (hne h.symm).elim
      · simpa using ih h

theorem firstIdxOf_inj {a b : Shape} {l : List Shape} (ha : a ∈ l) (hb : b ∈ l)
    (h : firstIdxOf a l = firstIdxOf b l) : a = b := by
  have h1 := firstIdxOf_get ha
  have h2 := firstIdxOf_get hb
  rw [h] at h1
  rw [h1] at h2
  cases h2; rfl

theorem canonTable_get {ts : List TupleInfo} {i : Nat} {T : TupleInfo} (h : ts[i]? = some T) :
    (canonTable ts)[i]? = some (firstIdxOf (shapeOf T) (ts.map shapeOf)) := by
  simp [canonTable, h]

/-- A program whose `canon` table is the one `compute_canonical_tuples` computes from its tuples. -/
def Prog.CanonComputed (P : Prog) : Prop := P.canon.toList = canonTable P.tuples.toList

def Prog.canonComputedB (P : Prog) : Bool := P.canon.toList == canonTable P.tuples.toList

theorem canonOf_computed {P : Prog} (hc : P.CanonComputed) {a : Nat} {T : TupleInfo}
    (h : P.tuples[a]? = some T) :
    P.canonOf a = firstIdxOf (shapeOf T) (P.tuples.toList.map shapeOf) := by
  unfold Prog.canonOf
  have h1 : P.canon[a]? = P.canon.toList[a]? := by simp
  rw [h1, hc, canonTable_get (by simpa using h)]
  rfl

/-- **Two tuple ids have the same canonical id iff they have the same shape.** -/
theorem canonOf_eq_iff_shape {P : Prog} (hc : P.CanonComputed) {a b : Nat} {Ta Tb : TupleInfo}
    (ha : P.tuples[a]? = some Ta) (hb : P.tuples[b]? = some Tb) :
    P.canonOf a = P.canonOf b ↔ shapeOf Ta = shapeOf Tb := by
  rw [canonOf_computed hc ha, canonOf_computed hc hb]
  have hma : shapeOf Ta ∈ P.tuples.toList.map shapeOf :=
    List.mem_map.mpr ⟨Ta, List.mem_of_getElem? (by simpa using ha), rfl⟩
  have hmb : shapeOf Tb ∈ P.tuples.toList.map shapeOf :=
    List.mem_map.mpr ⟨Tb, List.mem_of_getElem? (by simpa using hb), rfl⟩
  exact ⟨firstIdxOf_inj hma hmb, fun h => by rw [h]⟩

end QM.Packaging
