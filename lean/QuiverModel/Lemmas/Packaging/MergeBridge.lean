import QuiverModel.Lemmas.Packaging.Bridge
import QuiverModel.Lemmas.Packaging.MergeInj
namespace QM.Packaging
open QM.Types (Table Embeds)

/-! ### the merged tables contain a renamed copy of the incoming program's tables (C09's `Embeds`) -/

/-- a partial remap table as a total injective function: ids without an image go beyond the target table -/
def fwdMap (m : AMap) (newSize : Nat) (old : Nat) : Nat :=
  match m.get old with
  | some n => n
  | none => newSize + old

theorem fwdMap_of_get {m : AMap} {s k n : Nat} (h : m.get k = some n) : fwdMap m s k = n := by simp [fwdMap, h]

theorem fwdMap_inj {m : AMap} {s : Nat} (hinj : m.Inj) (hr : ∀ k n, m.get k = some n → n < s) :
    ∀ a b, fwdMap m s a = fwdMap m s b → a = b := by
  intro a b h
  unfold fwdMap at h
  cases ha : m.get a with
  | some x =>
    cases hb : m.get b with
    | some y => rw [ha, hb] at h; simp only at h; subst h; exact hinj a b x ha hb
    | none => rw [ha, hb] at h; simp only at h; have := hr a x ha; omega
  | none =>
    cases hb : m.get b with
    | some y => rw [ha, hb] at h; simp only at h; have := hr b y hb; omega
    | none => rw [ha, hb] at h; simp only at h; omega

theorem mapOpt_eq_map {α β : Type} {f : α → Option β} {g : α → β} (h : ∀ a b, f a = some b → b = g a) :
    ∀ {l : List α} {l' : List β}, mapOpt f l = some l' → l' = l.map g
  | [], l', hl => by simpa [mapOpt] using hl.symm
  | a :: as, l', hl => by
    simp only [mapOpt] at hl
    cases hfa : f a with
    | none => rw [hfa] at hl; cases hl
    | some b =>
      rw [hfa] at hl
      cases hr : mapOpt f as with
      | none => rw [hr] at hl; cases hl
      | some bs =>
        rw [hr] at hl
        simp only [Option.some.injEq] at hl
        subst hl
        rw [List.map_cons, ← h a b hfa, ← mapOpt_eq_map h hr]

theorem tyTo_rename_fwd (ι : String → Nat) {ρ : Ren} {fT fU : Nat → Nat}
    (hT : ∀ k n, ρ.type.get k = some n → fT k = n) (hU : ∀ k n, ρ.tuple.get k = some n → fU k = n)
    {τ τ' : Ty} (h : renameTy ρ τ = some τ') : (tyTo ι τ).rename fT fU = tyTo ι τ' := by
  cases τ with
  | tuple id =>
    simp only [renameTy, Option.map_eq_some_iff] at h
    obtain ⟨n, hn, rfl⟩ := h
    simp only [tyTo, QM.Types.Ty.rename, hU id n hn]
  | part nm fs =>
    simp only [renameTy, Option.map_eq_some_iff] at h
    obtain ⟨l', hl, rfl⟩ := h
    have : l' = fs.map (fun p => (p.1, fT p.2)) := by
      refine mapOpt_eq_map (fun p b hb => ?_) hl
      simp only [Option.map_eq_some_iff] at hb
      obtain ⟨t, ht, rfl⟩ := hb
      rw [hT _ _ ht]
    subst this
    simp only [tyTo, QM.Types.Ty.rename, List.map_map, QM.Types.Ty.part.injEq, true_and]
    rfl
  | union ids =>
    simp only [renameTy, Option.map_eq_some_iff] at h
    obtain ⟨l', hl, rfl⟩ := h
    have : l' = ids.map fT := mapOpt_eq_map (fun k n hk => (hT k n hk).symm) hl
    subst this
    simp only [tyTo, QM.Types.Ty.rename]
  | callable p r v =>
    simp only [renameTy] at h
    split at h
    · rename_i p' r' v' hp hr hv
      cases h
      simp only [tyTo, QM.Types.Ty.rename, hT _ _ hp, hT _ _ hr, hT _ _ hv]
    · cases h
  | process s r =>
    simp only [renameTy] at h
    split at h
    · rename_i s' r' hs hr
      cases h
      have opt : ∀ (o o' : Option Nat), renameOptTy ρ o = some o' → o.map fT = o' := by
        intro o o' ho
        cases o with
        | none => simp only [renameOptTy, Option.some.injEq] at ho; subst ho; rfl
        | some t =>
          simp only [renameOptTy, Option.map_eq_some_iff] at ho
          obtain ⟨a, ha, rfl⟩ := ho
          simp [hT _ _ ha]
      simp only [tyTo, QM.Types.Ty.rename, opt _ _ hs, opt _ _ hr]
    · cases h
  | int => simp only [renameTy, Option.some.injEq] at h; subst h; rfl
  | bin => simp only [renameTy, Option.some.injEq] at h; subst h; rfl
  | ref => simp only [renameTy, Option.some.injEq] at h; subst h; rfl
  | cycle d => simp only [renameTy, Option.some.injEq] at h; subst h; rfl
  | resource nm => simp only [renameTy, Option.some.injEq] at h; subst h; rfl
  | var nm => simp only [renameTy, Option.some.injEq] at h; subst h; rfl


theorem embeds_of_clauses (ι : String → Nat) {src out : Prog} {ρ : Ren} (iy : ρ.type.Inj) (it : ρ.tuple.Inj)
    (TC : ∀ t t', ρ.type.get t = some t' → ∃ τ τ', src.types[t]? = some τ ∧ out.types[t']? = some τ' ∧
      renameTy ρ τ = some τ')
    (UC : ∀ u u', ρ.tuple.get u = some u' → ∃ T T', src.tuples[u]? = some T ∧ out.tuples[u']? = some T' ∧
      T'.name = T.name ∧ T'.fields.map (·.1) = T.fields.map (·.1) ∧
      mapOpt (fun (p : Option String × Nat) => ρ.type.get p.2) T.fields = some (T'.fields.map (·.2)))
    (ttot : ∀ t, t < src.types.size → ∃ t', ρ.type.get t = some t')
    (utot : ∀ u, u < src.tuples.size → ∃ u', ρ.tuple.get u = some u') :
    Embeds (fwdMap ρ.type out.types.size) (fwdMap ρ.tuple out.tuples.size) (toTable ι src) (toTable ι out) := by
  have rT : ∀ k n, ρ.type.get k = some n → n < out.types.size := by
    intro k n hk
    obtain ⟨_, τ', _, h2, _⟩ := TC k n hk
    rcases Nat.lt_or_ge n out.types.size with h | h
    · exact h
    · rw [Array.getElem?_eq_none h] at h2; cases h2
  have rU : ∀ k n, ρ.tuple.get k = some n → n < out.tuples.size := by
    intro k n hk
    obtain ⟨_, T', _, h2, _⟩ := UC k n hk
    rcases Nat.lt_or_ge n out.tuples.size with h | h
    · exact h
    · rw [Array.getElem?_eq_none h] at h2; cases h2
  refine ⟨fwdMap_inj iy rT, fwdMap_inj it rU, fun t => ?_, fun u => ?_⟩
  · simp only [toTable, List.getElem?_map]
    cases hg : ρ.type.get t with
    | some n =>
      obtain ⟨τ, τ', h1, h2, h3⟩ := TC t n hg
      have h1' : src.types.toList[t]? = some τ := by simpa using h1
      have h2' : out.types.toList[n]? = some τ' := by simpa using h2
      rw [fwdMap_of_get hg, h1', h2']
      simp only [Option.map_some, Option.some.injEq]
      exact (tyTo_rename_fwd ι (fun k m hk => fwdMap_of_get hk) (fun k m hk => fwdMap_of_get hk) h3).symm
    | none =>
      have hge : src.types.size ≤ t := by
        rcases Nat.lt_or_ge t src.types.size with h | h
        · obtain ⟨t', ht'⟩ := ttot t h; rw [hg] at ht'; cases ht'
        · exact h
      have h1 : src.types.toList[t]? = none := by simp [hge]
      have h2 : out.types.toList[fwdMap ρ.type out.types.size t]? = none := by
        simp [fwdMap, hg]
      rw [h1, h2]; rfl
  · simp only [toTable, List.getElem?_map]
    cases hg : ρ.tuple.get u with
    | some n =>
      obtain ⟨T, T', h1, h2, h3, h4, h5⟩ := UC u n hg
      have h1' : src.tuples.toList[u]? = some T := by simpa using h1
      have h2' : out.tuples.toList[n]? = some T' := by simpa using h2
      rw [fwdMap_of_get hg, h1', h2']
      simp only [Option.map_some, Option.some.injEq]
      have hsnd : T'.fields.map (·.2) = T.fields.map (fun p => fwdMap ρ.type out.types.size p.2) :=
        mapOpt_eq_map (fun p b hb => (fwdMap_of_get hb).symm) h5
      have hfields : T'.fields = T.fields.map (fun p => (p.1, fwdMap ρ.type out.types.size p.2)) := by
        refine list_prod_ext ?_ ?_
        · rw [h4, List.map_map]; rfl
        · rw [hsnd, List.map_map]; rfl
      cases T' with
      | mk name' fields' =>
        simp only at h3 hfields
        subst h3; subst hfields
        simp only [tupTo, QM.Types.TupleInfo.rename, List.map_map, QM.Types.TupleInfo.mk.injEq, true_and]
        rfl
    | none =>
      have hge : src.tuples.size ≤ u := by
        rcases Nat.lt_or_ge u src.tuples.size with h | h
        · obtain ⟨u', hu'⟩ := utot u h; rw [hg] at hu'; cases hu'
        · exact h
      have h1 : src.tuples.toList[u]? = none := by simp [hge]
      have h2 : out.tuples.toList[fwdMap ρ.tuple out.tuples.size u]? = none := by
        simp [fwdMap, hg]
      rw [h1, h2]; rfl

end QM.Packaging
