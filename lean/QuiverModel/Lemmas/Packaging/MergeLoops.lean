import QuiverModel.Lemmas.Packaging.MergeFrame
import QuiverModel.Lemmas.Packaging.Shake
import QuiverModel.Lemmas.Packaging.ValueInstrs
namespace QM.Packaging

/-! ### the constant, builtin and function loops of `merge_bytecode` -/

theorem getOr_of_get {m : AMap} {i n : Nat} (h : m.get i = some n) : getOr m i = n := by simp [getOr, h]

theorem builtinIndexOf?_spec {name : String} : ∀ {l : List BuiltinInfo} {i : Nat},
    builtinIndexOf? name l = some i → ∃ B, l[i]? = some B ∧ B.name = name
  | [], _, h => by simp [builtinIndexOf?] at h
  | c :: cs, i, h => by
    simp only [builtinIndexOf?] at h
    split at h
    · rename_i hc
      cases h
      exact ⟨c, by simp, by simpa using hc⟩
    · simp only [Option.map_eq_some_iff] at h
      obtain ⟨j, hj, rfl⟩ := h
      obtain ⟨B, hB, hn⟩ := builtinIndexOf?_spec hj
      exact ⟨B, by simpa using hB, hn⟩

theorem registerBuiltin_get (P : Prog) (B : BuiltinInfo) :
    ∃ B', (P.registerBuiltin B).1.builtins[(P.registerBuiltin B).2]? = some B' ∧ B'.name = B.name := by
  unfold Prog.registerBuiltin
  split
  · rename_i i hi
    obtain ⟨B', h1, h2⟩ := builtinIndexOf?_spec hi
    exact ⟨B', by simpa using h1, h2⟩
  · exact ⟨B, by simp, rfl⟩

/-- one step of an indexed register loop keeps the "every key below `i` is bound" shape -/
theorem keys_lt_cons {m : AMap} {i n : Nat} (h : ∀ c ∈ m.map (·.1), c < i) :
    ∀ c ∈ (((i, n) :: m : AMap)).map (·.1), c < i + 1 := by
  intro c hc
  rcases List.mem_cons.mp hc with rfl | hc
  · exact Nat.lt_succ_self _
  · exact Nat.lt_succ_of_lt (h c hc)

theorem mergeConsts_spec (src : Prog) : ∀ (ks : List Const) (i : Nat) (P : Prog) (m : AMap),
    (∀ j k, ks[j]? = some k → src.consts[i + j]? = some k) → (∀ c ∈ m.map (·.1), c < i) →
    (∀ c c', m.get c = some c' → ∃ k, src.consts[c]? = some k ∧ P.consts[c']? = some k) →
    (∀ c c', (mergeConsts ks i P m).2.get c = some c' →
      ∃ k, src.consts[c]? = some k ∧ (mergeConsts ks i P m).1.consts[c']? = some k) ∧
    (∀ c c', m.get c = some c' → (mergeConsts ks i P m).2.get c = some c') ∧
    (∀ c, i ≤ c → c < i + ks.length → ∃ c', (mergeConsts ks i P m).2.get c = some c')
  | [], i, P, m, _, _, hinv => by
    simp only [mergeConsts]
    exact ⟨hinv, fun _ _ h => h, fun c h1 h2 => by simp at h2; omega⟩
  | k :: ks, i, P, m, hks, hkeys, hinv => by
    simp only [mergeConsts]
    have hi : i ∉ m.map (·.1) := fun h => Nat.lt_irrefl _ (hkeys i h)
    have hinv1 : ∀ c c', AMap.get ((i, (P.registerConst k).2) :: m) c = some c' →
        ∃ k0, src.consts[c]? = some k0 ∧ (P.registerConst k).1.consts[c']? = some k0 := by
      intro c c' hg
      by_cases hc : c = i
      · subst hc
        rw [get_cons_self] at hg; cases hg
        exact ⟨k, by simpa using hks 0 k (by simp), registerConst_get P k⟩
      · rw [get_cons_ne _ _ hc] at hg
        obtain ⟨k0, a, b⟩ := hinv c c' hg
        exact ⟨k0, a, (registerConst_le5 P k).consts _ _ b⟩
    obtain ⟨a, b, c⟩ := mergeConsts_spec src ks (i + 1) (P.registerConst k).1 ((i, (P.registerConst k).2) :: m)
      (fun j k0 hj => by
        have := hks (j + 1) k0 (by simpa using hj)
        rw [show i + 1 + j = i + (j + 1) by omega]; exact this)
      (keys_lt_cons hkeys) hinv1
    refine ⟨a, fun c0 c' hg => b c0 c' ?_, fun c0 h1 h2 => ?_⟩
    · have hne : c0 ≠ i := fun he => hi (he ▸ mem_keys_of_get hg)
      rw [get_cons_ne _ _ hne]; exact hg
    · by_cases hc : c0 = i
      · subst hc
        exact ⟨_, b c0 _ (get_cons_self _ _ _)⟩
      · exact c c0 (by omega) (by simp at h2; omega)

theorem mergeBuiltins_spec (src : Prog) (ym : AMap) : ∀ (bs : List BuiltinInfo) (i : Nat) (P : Prog) (m : AMap),
    (∀ j B, bs[j]? = some B → src.builtins[i + j]? = some B) → (∀ c ∈ m.map (·.1), c < i) →
    (∀ b b', m.get b = some b' → ∃ B B', src.builtins[b]? = some B ∧ P.builtins[b']? = some B' ∧ B'.name = B.name) →
    (∀ b b', (mergeBuiltins ym bs i P m).2.get b = some b' →
      ∃ B B', src.builtins[b]? = some B ∧ (mergeBuiltins ym bs i P m).1.builtins[b']? = some B' ∧ B'.name = B.name) ∧
    (∀ b b', m.get b = some b' → (mergeBuiltins ym bs i P m).2.get b = some b') ∧
    (∀ b, i ≤ b → b < i + bs.length → ∃ b', (mergeBuiltins ym bs i P m).2.get b = some b')
  | [], i, P, m, _, _, hinv => by
    simp only [mergeBuiltins]
    exact ⟨hinv, fun _ _ h => h, fun c h1 h2 => by simp at h2; omega⟩
  | B :: bs, i, P, m, hbs, hkeys, hinv => by
    simp only [mergeBuiltins]
    have hi : i ∉ m.map (·.1) := fun h => Nat.lt_irrefl _ (hkeys i h)
    let Bn : BuiltinInfo := { name := B.name, paramType := getOr ym B.paramType, resultType := getOr ym B.resultType }
    have hinv1 : ∀ b b', AMap.get ((i, (P.registerBuiltin Bn).2) :: m) b = some b' →
        ∃ B0 B', src.builtins[b]? = some B0 ∧ (P.registerBuiltin Bn).1.builtins[b']? = some B' ∧ B'.name = B0.name := by
      intro b b' hg
      by_cases hc : b = i
      · subst hc
        rw [get_cons_self] at hg; cases hg
        obtain ⟨B', h1, h2⟩ := registerBuiltin_get P Bn
        exact ⟨B, B', by simpa using hbs 0 B (by simp), h1, h2⟩
      · rw [get_cons_ne _ _ hc] at hg
        obtain ⟨B0, B', a, b0, c⟩ := hinv b b' hg
        exact ⟨B0, B', a, (registerBuiltin_le5 P Bn).builtins _ _ b0, c⟩
    obtain ⟨a, b, c⟩ := mergeBuiltins_spec src ym bs (i + 1) (P.registerBuiltin Bn).1 ((i, (P.registerBuiltin Bn).2) :: m)
      (fun j B0 hj => by
        have := hbs (j + 1) B0 (by simpa using hj)
        rw [show i + 1 + j = i + (j + 1) by omega]; exact this)
      (keys_lt_cons hkeys) hinv1
    refine ⟨a, fun c0 c' hg => b c0 c' ?_, fun c0 h1 h2 => ?_⟩
    · have hne : c0 ≠ i := fun he => hi (he ▸ mem_keys_of_get hg)
      rw [get_cons_ne _ _ hne]; exact hg
    · by_cases hc : c0 = i
      · subst hc
        exact ⟨_, b c0 _ (get_cons_self _ _ _)⟩
      · exact c c0 (by omega) (by simp at h2; omega)


/-- what `remap_function` silently relies on: every operand of the incoming program is inside its own tables,
    functions refer only to EARLIER functions (a later one is not merged yet and `.unwrap_or(idx)` would keep the
    source index), no `Process` literal (never remapped) -/
structure SrcWf (src : Prog) : Prop where
  const : ∀ (i : Nat) (F : Fn), src.fns[i]? = some F → ∀ c, Instr.const c ∈ F.instrs → c < src.consts.size
  tuple : ∀ (i : Nat) (F : Fn), src.fns[i]? = some F → ∀ u, Instr.tuple u ∈ F.instrs → u < src.tuples.size
  isType : ∀ (i : Nat) (F : Fn), src.fns[i]? = some F → ∀ t, Instr.isType t ∈ F.instrs → t < src.types.size
  builtin : ∀ (i : Nat) (F : Fn), src.fns[i]? = some F → ∀ b, Instr.builtin b ∈ F.instrs → b < src.builtins.size
  typeId : ∀ (i : Nat) (F : Fn), src.fns[i]? = some F → F.typeId < src.types.size
  backward : ∀ (i : Nat) (F : Fn), src.fns[i]? = some F → ∀ g, Instr.function g ∈ F.instrs → g < i
  noProcessLiteral : ∀ (i : Nat) (F : Fn), src.fns[i]? = some F → ∀ pid g, Instr.process pid g ∉ F.instrs

def mkRen (cm fm tm ym bm : AMap) : Ren := { const := cm, fn := fm, tuple := tm, type := ym, builtin := bm }

theorem renameInstr_mono_fn {cm tm ym bm fm fm' : AMap} (hm : ∀ g g', fm.get g = some g' → fm'.get g = some g')
    {a a' : Instr} (h : renameInstr (mkRen cm fm tm ym bm) a = some a') :
    renameInstr (mkRen cm fm' tm ym bm) a = some a' := by
  cases a with
  | function g =>
    simp only [renameInstr, mkRen, Option.map_eq_some_iff] at h ⊢
    obtain ⟨x, hx, rfl⟩ := h
    exact ⟨x, hm _ _ hx, rfl⟩
  | process pid g =>
    simp only [renameInstr, mkRen, Option.map_eq_some_iff] at h ⊢
    obtain ⟨x, hx, rfl⟩ := h
    exact ⟨x, hm _ _ hx, rfl⟩
  | _ => exact h

theorem renameInstr_mergeInstr {cm fm tm ym bm : AMap} {a : Instr}
    (hc : ∀ c, a = .const c → ∃ x, cm.get c = some x) (ht : ∀ u, a = .tuple u → ∃ x, tm.get u = some x)
    (hy : ∀ t, a = .isType t → ∃ x, ym.get t = some x) (hb : ∀ b, a = .builtin b → ∃ x, bm.get b = some x)
    (hf : ∀ g, a = .function g → ∃ x, fm.get g = some x) (hp : ∀ pid g, a ≠ .process pid g) :
    renameInstr (mkRen cm fm tm ym bm) a = some (mergeInstr cm fm tm ym bm a) := by
  cases a with
  | const c => obtain ⟨x, hx⟩ := hc c rfl; simp [renameInstr, mkRen, mergeInstr, getOr, hx]
  | tuple u => obtain ⟨x, hx⟩ := ht u rfl; simp [renameInstr, mkRen, mergeInstr, getOr, hx]
  | isType t => obtain ⟨x, hx⟩ := hy t rfl; simp [renameInstr, mkRen, mergeInstr, getOr, hx]
  | builtin b => obtain ⟨x, hx⟩ := hb b rfl; simp [renameInstr, mkRen, mergeInstr, getOr, hx]
  | function g => obtain ⟨x, hx⟩ := hf g rfl; simp [renameInstr, mkRen, mergeInstr, getOr, hx]
  | process pid g => exact (hp pid g rfl).elim
  | _ => rfl

theorem mergeFns_spec (src : Prog) (hw : SrcWf src) (cm tm ym bm : AMap)
    (hcm : ∀ c, c < src.consts.size → ∃ x, cm.get c = some x) (htm : ∀ u, u < src.tuples.size → ∃ x, tm.get u = some x)
    (hym : ∀ t, t < src.types.size → ∃ x, ym.get t = some x) (hbm : ∀ b, b < src.builtins.size → ∃ x, bm.get b = some x) :
    ∀ (fs : List Fn) (i : Nat) (P : Prog) (fm : AMap),
    (∀ j F, fs[j]? = some F → src.fns[i + j]? = some F) → (∀ c ∈ fm.map (·.1), c < i) →
    (∀ g, g < i → ∃ g', fm.get g = some g') →
    (∀ f f', fm.get f = some f' → ∃ F F', src.fns[f]? = some F ∧ P.fns[f']? = some F' ∧ F'.captures = F.captures ∧
      renameInstrs (mkRen cm fm tm ym bm) F.instrs = some F'.instrs ∧ ym.get F.typeId = some F'.typeId) →
    (∀ f f', (mergeFns cm tm ym bm fs i P fm).2.get f = some f' →
      ∃ F F', src.fns[f]? = some F ∧ (mergeFns cm tm ym bm fs i P fm).1.fns[f']? = some F' ∧ F'.captures = F.captures ∧
        renameInstrs (mkRen cm (mergeFns cm tm ym bm fs i P fm).2 tm ym bm) F.instrs = some F'.instrs ∧
        ym.get F.typeId = some F'.typeId) ∧
    (∀ g, g < i + fs.length → ∃ g', (mergeFns cm tm ym bm fs i P fm).2.get g = some g')
  | [], i, P, fm, _, _, htot, hinv => by
    simp only [mergeFns]
    exact ⟨hinv, fun g hg => htot g (by simpa using hg)⟩
  | F :: fs, i, P, fm, hfs, hkeys, htot, hinv => by
    simp only [mergeFns]
    have hi : i ∉ fm.map (·.1) := fun h => Nat.lt_irrefl _ (hkeys i h)
    have hF : src.fns[i]? = some F := by simpa using hfs 0 F (by simp)
    let F' : Fn := { instrs := F.instrs.map (mergeInstr cm fm tm ym bm), captures := F.captures,
                     typeId := getOr ym F.typeId }
    have hmono : ∀ g g', fm.get g = some g' → AMap.get ((i, (P.registerFn F').2) :: fm) g = some g' := by
      intro g g' hg
      have hne : g ≠ i := fun he => hi (he ▸ mem_keys_of_get hg)
      rw [get_cons_ne _ _ hne]; exact hg
    have hinv1 : ∀ f f', AMap.get ((i, (P.registerFn F').2) :: fm) f = some f' →
        ∃ F0 F1, src.fns[f]? = some F0 ∧ (P.registerFn F').1.fns[f']? = some F1 ∧ F1.captures = F0.captures ∧
          renameInstrs (mkRen cm ((i, (P.registerFn F').2) :: fm) tm ym bm) F0.instrs = some F1.instrs ∧
          ym.get F0.typeId = some F1.typeId := by
      intro f f' hg
      by_cases hc : f = i
      · subst hc
        rw [get_cons_self] at hg; cases hg
        refine ⟨F, F', hF, registerFn_get P F', rfl, ?_, ?_⟩
        · -- every instruction's image under the tables is what `remap_function` wrote
          have : renameInstrs (mkRen cm fm tm ym bm) F.instrs = some (F.instrs.map (mergeInstr cm fm tm ym bm)) := by
            refine mapOpt_congr_some _ (fun a ha => ?_)
            refine renameInstr_mergeInstr (fun c hc => ?_) (fun u hu => ?_) (fun t ht => ?_) (fun b hb => ?_)
              (fun g hg => ?_) (fun pid g hpg => ?_)
            · exact hcm c (hw.const f F hF c (hc ▸ ha))
            · exact htm u (hw.tuple f F hF u (hu ▸ ha))
            · exact hym t (hw.isType f F hF t (ht ▸ ha))
            · exact hbm b (hw.builtin f F hF b (hb ▸ ha))
            · exact htot g (hw.backward f F hF g (hg ▸ ha))
            · exact hw.noProcessLiteral f F hF pid g (hpg ▸ ha)
          exact mapOpt_mono (fun a a' h => renameInstr_mono_fn hmono h) this
        · obtain ⟨x, hx⟩ := hym F.typeId (hw.typeId f F hF)
          show ym.get F.typeId = some (getOr ym F.typeId)
          rw [getOr_of_get hx]; exact hx
      · rw [get_cons_ne _ _ hc] at hg
        obtain ⟨F0, F1, a, b, c, d, e⟩ := hinv f f' hg
        exact ⟨F0, F1, a, (registerFn_le5 P F').fns _ _ b, c,
          mapOpt_mono (fun a a' h => renameInstr_mono_fn hmono h) d, e⟩
    have htot1 : ∀ g, g < i + 1 → ∃ g', AMap.get ((i, (P.registerFn F').2) :: fm) g = some g' := by
      intro g hg
      by_cases hc : g = i
      · subst hc; exact ⟨_, get_cons_self _ _ _⟩
      · obtain ⟨g', hg'⟩ := htot g (by omega)
        exact ⟨g', hmono g g' hg'⟩
    obtain ⟨a, b⟩ := mergeFns_spec src hw cm tm ym bm hcm htm hym hbm fs (i + 1) (P.registerFn F').1
      ((i, (P.registerFn F').2) :: fm)
      (fun j F0 hj => by
        have := hfs (j + 1) F0 (by simpa using hj)
        rw [show i + 1 + j = i + (j + 1) by omega]; exact this)
      (keys_lt_cons hkeys) htot1 hinv1
    exact ⟨a, fun g hg => b g (by simp at hg; omega)⟩


/-- **`merge_isRenaming`, all image clauses.** For every environment and every well-formed incoming program
    (`SrcWf`) on which `merge_bytecode` succeeds without re-binding a memo key: the entry is mapped; every source
    function / constant / type / tuple / builtin is mapped and its image in the merged program is the source entry
    renamed through the FINAL tables (functions instruction by instruction; builtins by name — `register_builtin_info`
    lets an already loaded builtin of that name win, so its parameter / result types are the loaded ones). These are
    the clauses `entry`, `fns`, `consts`, `types`, `tuples` and the name part of `builtins` of `IsStructRenaming`;
    what `MergeIsRenamingStatement` asks beyond them is injectivity of the five maps and NIL/OK fixed. -/
theorem merge_image_clauses {env src : Prog} {e : Nat} {out : MergeOut}
    (h : mergeBytecodeWith false env src e = some out) (hw : SrcWf src)
    (hk : (out.ren.type.map (·.1)).Nodup ∧ (out.ren.tuple.map (·.1)).Nodup) :
    out.ren.fn.get e = some out.entry ∧
    (∀ f f', out.ren.fn.get f = some f' → ∃ F F', src.fns[f]? = some F ∧ out.prog.fns[f']? = some F' ∧
      F'.captures = F.captures ∧ renameInstrs out.ren F.instrs = some F'.instrs ∧
      out.ren.type.get F.typeId = some F'.typeId) ∧
    (∀ c c', out.ren.const.get c = some c' → ∃ k, src.consts[c]? = some k ∧ out.prog.consts[c']? = some k) ∧
    (∀ b b', out.ren.builtin.get b = some b' → ∃ B B', src.builtins[b]? = some B ∧ out.prog.builtins[b']? = some B' ∧
      B'.name = B.name) ∧
    (∀ f, f < src.fns.size → ∃ f', out.ren.fn.get f = some f') := by
  obtain ⟨_, _, hym, htm⟩ := merge_types_tuples h hk
  unfold mergeBytecodeWith at h
  simp only at h
  split at h
  · cases h
  · rename_i st1 h1
    split at h
    · cases h
    · rename_i st2 h2
      split at h
      · cases h
      · rename_i e' he'
        simp only [Option.some.injEq] at h
        subst h
        simp only at hym htm ⊢
        -- constants
        obtain ⟨hc1, _, hc3⟩ := mergeConsts_spec src src.consts.toList 0 env []
          (fun j k hj => by simpa using hj) (fun _ h => by cases h) (fun _ _ hg => by simp [AMap.get] at hg)
        have le_b := le5_of_pre_fr (importAllTypes_pre src _ _ st1 h1) (importAllTypes_fr src _ _ st1 h1)
        have le_c := le5_of_pre_fr (importAllTuples_pre src _ st1 st2 h2) (importAllTuples_fr src _ st1 st2 h2)
        have le_d := mergeBuiltins_le5 st2.tyMap src.builtins.toList 0 st2.prog []
        have le_f := mergeFns_le5 (mergeConsts src.consts.toList 0 env []).2 st2.tuMap st2.tyMap
          (mergeBuiltins st2.tyMap src.builtins.toList 0 st2.prog []).2 src.fns.toList 0
          (mergeBuiltins st2.tyMap src.builtins.toList 0 st2.prog []).1 []
        -- builtins
        obtain ⟨hb1, _, hb3⟩ := mergeBuiltins_spec src st2.tyMap src.builtins.toList 0 st2.prog []
          (fun j B hj => by simpa using hj) (fun _ h => by cases h) (fun _ _ hg => by simp [AMap.get] at hg)
        -- functions
        obtain ⟨hf1, hf2⟩ := mergeFns_spec src hw (mergeConsts src.consts.toList 0 env []).2 st2.tuMap st2.tyMap
          (mergeBuiltins st2.tyMap src.builtins.toList 0 st2.prog []).2
          (fun c hc => hc3 c (Nat.zero_le _) (by simpa using hc)) htm hym
          (fun b hb => hb3 b (Nat.zero_le _) (by simpa using hb))
          src.fns.toList 0 (mergeBuiltins st2.tyMap src.builtins.toList 0 st2.prog []).1 []
          (fun j F hj => by simpa using hj) (fun _ h => by cases h) (fun g hg => by omega)
          (fun _ _ hg => by simp [AMap.get] at hg)
        refine ⟨he', hf1, fun c c' hg => ?_, fun b b' hg => ?_, fun f hf => hf2 f (by simpa using hf)⟩
        · obtain ⟨k, a, b⟩ := hc1 c c' hg
          exact ⟨k, a, le_f.consts _ _ (le_d.consts _ _ (le_c.consts _ _ (le_b.consts _ _ b)))⟩
        · obtain ⟨B, B', a, b0, c⟩ := hb1 b b' hg
          exact ⟨B, B', a, le_f.builtins _ _ b0, c⟩

end QM.Packaging
