import QuiverModel.Lemmas.Packaging.Shake
/-
`tree_shake`, mark phase: the marks it computes are closed under reference — for every program and
entry (whenever the fuelled port returns). (Owner: C10.)
-/
namespace QM.Packaging

theorem TyMarked.mono {m m' : Marks} (ht : ∀ x ∈ m.types, x ∈ m'.types) (hu : ∀ x ∈ m.tuples, x ∈ m'.tuples)
    {τ : Ty} (h : TyMarked m τ) : TyMarked m' τ := by
  cases τ with
  | tuple id => exact hu _ h
  | int => exact fun t ht' => ht t (h t ht')
  | bin => exact fun t ht' => ht t (h t ht')
  | ref => exact fun t ht' => ht t (h t ht')
  | part n fs => exact fun t ht' => ht t (h t ht')
  | callable p r v => exact fun t ht' => ht t (h t ht')
  | cycle d => exact fun t ht' => ht t (h t ht')
  | union ids => exact fun t ht' => ht t (h t ht')
  | process s r => exact fun t ht' => ht t (h t ht')
  | resource n => exact fun t ht' => ht t (h t ht')
  | var n => exact fun t ht' => ht t (h t ht')

/-- type / tuple closure of the marks, except for the ids still being processed (`pt`, `pu`) -/
structure TCE (P : Prog) (m : Marks) (pt pu : List Nat) : Prop where
  types : ∀ t ∈ m.types, t ∉ pt → ∀ τ, P.types[t]? = some τ → TyMarked m τ
  tuples : ∀ u ∈ m.tuples, u ∉ pu → ∀ T, P.tuples[u]? = some T → ∀ p ∈ T.fields, p.2 ∈ m.types
  nodup : m.tuples.Nodup
  nodupT : m.types.Nodup

/-- what a collector may change: type and tuple marks grow, the rest is untouched -/
structure Ext (m m' : Marks) : Prop where
  types : ∀ x ∈ m.types, x ∈ m'.types
  tuples : ∀ x ∈ m.tuples, x ∈ m'.tuples
  fns : m'.fns = m.fns
  consts : m'.consts = m.consts
  builtins : m'.builtins = m.builtins

theorem Ext.refl (m : Marks) : Ext m m := ⟨fun _ h => h, fun _ h => h, rfl, rfl, rfl⟩
theorem Ext.trans {a b c : Marks} (h1 : Ext a b) (h2 : Ext b c) : Ext a c :=
  ⟨fun x h => h2.types x (h1.types x h), fun x h => h2.tuples x (h1.tuples x h),
   h2.fns.trans h1.fns, h2.consts.trans h1.consts, h2.builtins.trans h1.builtins⟩

theorem TCE.mono_pending {P : Prog} {m : Marks} {pt pu : List Nat} (h : TCE P m pt pu) (t : Nat) :
    TCE P m (t :: pt) pu :=
  ⟨fun t' ht' hn => h.types t' ht' (fun hp => hn (List.mem_cons_of_mem _ hp)), h.tuples, h.nodup, h.nodupT⟩

theorem contains_iff {l : List Nat} {a : Nat} : l.contains a = true ↔ a ∈ l := by simp

mutual
theorem collectType_spec (P : Prog) : ∀ (fuel t : Nat) (m m' : Marks) (pt pu : List Nat),
    collectType P fuel t m = some m' → TCE P m pt pu → TCE P m' pt pu ∧ t ∈ m'.types ∧ Ext m m'
  | 0, _, _, _, _, _, h, _ => by simp [collectType] at h
  | fuel + 1, t, m, m', pt, pu, h, hI => by
    simp only [collectType] at h
    split at h
    · rename_i hc
      cases h
      exact ⟨hI, contains_iff.mp hc, Ext.refl _⟩
    · rename_i hc
      have hnot : t ∉ m.types := fun hm => hc (contains_iff.mpr hm)
      -- the state with `t` inserted and pending
      have hE1 : Ext m { m with types := t :: m.types } :=
        ⟨fun x hx => List.mem_cons_of_mem _ hx, fun _ hx => hx, rfl, rfl, rfl⟩
      have hI1 : TCE P { m with types := t :: m.types } (t :: pt) pu :=
        ⟨fun t' ht' hn τ hτ => by
            have hne : t' ≠ t := fun he => hn (by rw [he]; exact List.mem_cons_self ..)
            have hm : t' ∈ m.types := by
              rcases List.mem_cons.mp ht' with h | h
              · exact (hne h).elim
              · exact h
            exact (hI.types t' hm (fun hp => hn (List.mem_cons_of_mem _ hp)) τ hτ).mono hE1.types hE1.tuples,
         fun u hu hn T hT p hp => List.mem_cons_of_mem _ (hI.tuples u hu hn T hT p hp),
         hI.nodup, List.nodup_cons.mpr ⟨hnot, hI.nodupT⟩⟩
      -- discharging `t` once its entry's references are marked
      have discharge : ∀ (m2 : Marks), TCE P m2 (t :: pt) pu → (∀ τ, P.types[t]? = some τ → TyMarked m2 τ) →
          TCE P m2 pt pu := by
        intro m2 h2 ht
        refine ⟨fun t' ht' hn τ hτ => ?_, h2.tuples, h2.nodup, h2.nodupT⟩
        by_cases he : t' = t
        · subst he; exact ht τ hτ
        · exact h2.types t' ht' (fun hp => by
            rcases List.mem_cons.mp hp with h | h
            · exact he h
            · exact hn h) τ hτ
      cases hτ : P.types[t]? with
      | none =>
        rw [hτ] at h
        simp only at h
        cases h
        exact ⟨discharge _ hI1 (fun τ hτ' => by rw [hτ] at hτ'; cases hτ'), List.mem_cons_self .., hE1⟩
      | some τ =>
        rw [hτ] at h
        have generic : ∀ (τ : Ty), P.types[t]? = some τ → (∀ m2, TyMarked m2 τ ↔ ∀ x ∈ tyChildren τ, x ∈ m2.types) →
            collectTypes P fuel (tyChildren τ) { m with types := t :: m.types } = some m' →
            TCE P m' pt pu ∧ t ∈ m'.types ∧ Ext m m' := by
          intro τ0 hτ0 hmk hcall
          obtain ⟨hI2, hch, hE2⟩ := collectTypes_spec P fuel (tyChildren τ0) _ m' (t :: pt) pu hcall hI1
          refine ⟨discharge _ hI2 (fun τ' hτ' => ?_), hE2.types _ (List.mem_cons_self ..), hE1.trans hE2⟩
          rw [hτ0] at hτ'; cases hτ'
          exact (hmk m').mpr hch
        cases τ with
        | tuple id =>
          simp only at h
          obtain ⟨hI2, hid, hE2⟩ := collectTuple_spec P fuel id _ m' (t :: pt) pu h hI1
          refine ⟨discharge _ hI2 (fun τ' hτ' => ?_), hE2.types _ (List.mem_cons_self ..), hE1.trans hE2⟩
          rw [hτ] at hτ'; cases hτ'; exact hid
        | resource n =>
          simp only at h
          cases h
          refine ⟨discharge _ ⟨hI1.types, hI1.tuples, hI1.nodup, hI1.nodupT⟩ (fun τ' hτ' => ?_), List.mem_cons_self ..,
            ⟨hE1.types, hE1.tuples, rfl, rfl, rfl⟩⟩
          rw [hτ] at hτ'; cases hτ'
          intro x hx; cases hx
        | int => exact generic _ hτ (fun _ => Iff.rfl) h
        | bin => exact generic _ hτ (fun _ => Iff.rfl) h
        | ref => exact generic _ hτ (fun _ => Iff.rfl) h
        | part n fs => exact generic _ hτ (fun _ => Iff.rfl) h
        | callable p r v => exact generic _ hτ (fun _ => Iff.rfl) h
        | cycle d => exact generic _ hτ (fun _ => Iff.rfl) h
        | union ids => exact generic _ hτ (fun _ => Iff.rfl) h
        | process s r => exact generic _ hτ (fun _ => Iff.rfl) h
        | var n => exact generic _ hτ (fun _ => Iff.rfl) h
theorem collectTypes_spec (P : Prog) : ∀ (fuel : Nat) (ts : List Nat) (m m' : Marks) (pt pu : List Nat),
    collectTypes P fuel ts m = some m' → TCE P m pt pu →
    TCE P m' pt pu ∧ (∀ t ∈ ts, t ∈ m'.types) ∧ Ext m m'
  | 0, _, _, _, _, _, h, _ => by simp [collectTypes] at h
  | fuel + 1, [], m, m', pt, pu, h, hI => by
    simp only [collectTypes, Option.some.injEq] at h
    subst h
    exact ⟨hI, (fun _ h => by cases h), Ext.refl _⟩
  | fuel + 1, t :: ts, m, m', pt, pu, h, hI => by
    simp only [collectTypes] at h
    split at h
    · cases h
    · rename_i m1 h1
      obtain ⟨hI1, ht, hE1⟩ := collectType_spec P fuel t m m1 pt pu h1 hI
      obtain ⟨hI2, hts, hE2⟩ := collectTypes_spec P fuel ts m1 m' pt pu h hI1
      refine ⟨hI2, ?_, hE1.trans hE2⟩
      intro x hx
      rcases List.mem_cons.mp hx with h | h
      · subst h; exact hE2.types _ ht
      · exact hts x h
theorem collectTuple_spec (P : Prog) : ∀ (fuel id : Nat) (m m' : Marks) (pt pu : List Nat),
    collectTuple P fuel id m = some m' → TCE P m pt pu → TCE P m' pt pu ∧ id ∈ m'.tuples ∧ Ext m m'
  | 0, _, _, _, _, _, h, _ => by simp [collectTuple] at h
  | fuel + 1, id, m, m', pt, pu, h, hI => by
    simp only [collectTuple] at h
    split at h
    · rename_i hc
      cases h
      exact ⟨hI, contains_iff.mp hc, Ext.refl _⟩
    · rename_i hc
      have hnot : id ∉ m.tuples := fun hm => hc (contains_iff.mpr hm)
      have hE1 : Ext m { m with tuples := id :: m.tuples } :=
        ⟨fun _ hx => hx, fun x hx => List.mem_cons_of_mem _ hx, rfl, rfl, rfl⟩
      have hI1 : TCE P { m with tuples := id :: m.tuples } pt (id :: pu) :=
        ⟨fun t' ht' hn τ hτ => (hI.types t' ht' hn τ hτ).mono hE1.types hE1.tuples,
         fun u hu hn T hT p hp => by
            have hne : u ≠ id := fun he => hn (by rw [he]; exact List.mem_cons_self ..)
            have hm : u ∈ m.tuples := by
              rcases List.mem_cons.mp hu with h | h
              · exact (hne h).elim
              · exact h
            exact hI.tuples u hm (fun hp' => hn (List.mem_cons_of_mem _ hp')) T hT p hp,
         List.nodup_cons.mpr ⟨hnot, hI.nodup⟩, hI.nodupT⟩
      have discharge : ∀ (m2 : Marks), TCE P m2 pt (id :: pu) →
          (∀ T, P.tuples[id]? = some T → ∀ p ∈ T.fields, p.2 ∈ m2.types) → TCE P m2 pt pu := by
        intro m2 h2 ht
        refine ⟨h2.types, fun u hu hn T hT => ?_, h2.nodup, h2.nodupT⟩
        by_cases he : u = id
        · subst he; exact ht T hT
        · exact h2.tuples u hu (fun hp => by
            rcases List.mem_cons.mp hp with h | h
            · exact he h
            · exact hn h) T hT
      cases hT : P.tuples[id]? with
      | none =>
        rw [hT] at h
        simp only at h
        cases h
        exact ⟨discharge _ hI1 (fun T hT' => by rw [hT] at hT'; cases hT'), List.mem_cons_self .., hE1⟩
      | some T =>
        rw [hT] at h
        simp only at h
        obtain ⟨hI2, hch, hE2⟩ := collectTypes_spec P fuel (T.fields.map (·.2)) _ m' pt (id :: pu) h hI1
        refine ⟨discharge _ hI2 (fun T' hT' p hp => ?_), hE2.tuples _ (List.mem_cons_self ..), hE1.trans hE2⟩
        rw [hT] at hT'; cases hT'
        exact hch p.2 (List.mem_map.mpr ⟨p, hp, rfl⟩)
end


/-! ### Sorting keeps the elements; ranks of 0 and 1 -/

theorem insertAsc_perm (a : Nat) : ∀ (l : List Nat), (insertAsc a l).Perm (a :: l)
  | [] => List.Perm.refl _
  | b :: bs => by
    simp only [insertAsc]
    split
    · exact List.Perm.refl _
    · exact ((List.perm_cons b).mpr (insertAsc_perm a bs)).trans (List.Perm.swap a b bs)

theorem sortAsc_perm : ∀ (l : List Nat), (sortAsc l).Perm l
  | [] => List.Perm.refl _
  | a :: as => (insertAsc_perm a (sortAsc as)).trans ((List.perm_cons a).mpr (sortAsc_perm as))

theorem insertAsc_sorted (a : Nat) : ∀ (l : List Nat), l.Pairwise (· ≤ ·) → (insertAsc a l).Pairwise (· ≤ ·)
  | [], _ => by simp [insertAsc]
  | b :: bs, h => by
    simp only [insertAsc]
    obtain ⟨hb, hbs⟩ := List.pairwise_cons.mp h
    split
    · rename_i hab
      exact List.Pairwise.cons (fun x hx => by
        rcases List.mem_cons.mp hx with h | h
        · subst h; exact hab
        · exact Nat.le_trans hab (hb x h)) h
    · rename_i hab
      refine List.Pairwise.cons (fun x hx => ?_) (insertAsc_sorted a bs hbs)
      rcases mem_insertAsc.mp hx with h | h
      · subst h; omega
      · exact hb x h

theorem sortAsc_sorted : ∀ (l : List Nat), (sortAsc l).Pairwise (· ≤ ·)
  | [] => by simp [sortAsc]
  | a :: as => insertAsc_sorted a _ (sortAsc_sorted as)

/-- in a sorted duplicate-free list containing 0 and 1 they sit at positions 0 and 1 -/
theorem rank01 {l : List Nat} (h0 : 0 ∈ l) (h1 : 1 ∈ l) (hn : l.Nodup) :
    (rankMap (sortAsc l)).get 0 = some 0 ∧ (rankMap (sortAsc l)).get 1 = some 1 := by
  have hs := sortAsc_sorted l
  have hnd : (sortAsc l).Nodup := (sortAsc_perm l).nodup_iff.mpr hn
  have m0 : 0 ∈ sortAsc l := mem_sortAsc.mpr h0
  have m1 : 1 ∈ sortAsc l := mem_sortAsc.mpr h1
  generalize sortAsc l = s at hs hnd m0 m1
  cases s with
  | nil => cases m0
  | cons a t =>
    obtain ⟨ha, ht⟩ := List.pairwise_cons.mp hs
    obtain ⟨hna, hnt⟩ := List.nodup_cons.mp hnd
    have a0 : a = 0 := by
      rcases List.mem_cons.mp m0 with h | h
      · exact h.symm
      · have := ha 0 h; omega
    subst a0
    have m1t : 1 ∈ t := by
      rcases List.mem_cons.mp m1 with h | h
      · cases h
      · exact h
    cases t with
    | nil => cases m1t
    | cons b t2 =>
      obtain ⟨hb, _⟩ := List.pairwise_cons.mp ht
      have b1 : b = 1 := by
        have hb0 : b ≠ 0 := fun h => hna (by rw [h]; exact List.mem_cons_self ..)
        rcases List.mem_cons.mp m1t with h | h
        · exact h.symm
        · have := hb 1 h; omega
      subst b1
      constructor <;> simp [rankMap, AMap.get, List.zipIdx_cons, List.lookup_cons]

/-! ### The function, builtin and index-only phases -/

/-- every function mark has its callable type marked -/
def FT (P : Prog) (m : Marks) : Prop := ∀ f ∈ m.fns, ∀ F, P.fns[f]? = some F → F.typeId ∈ m.types

theorem markInstrs_spec (P : Prog) : ∀ (is : List Instr) (m m' : Marks) (q q' : List Nat),
    markInstrs P is m q = some (m', q') → TCE P m [] [] →
    TCE P m' [] [] ∧ (∀ x ∈ m.types, x ∈ m'.types) ∧ (∀ x ∈ m.tuples, x ∈ m'.tuples) ∧ m'.fns = m.fns ∧
      (∀ x ∈ q, x ∈ q')
  | [], m, m', q, q', h, hI => by
    simp only [markInstrs, Option.some.injEq, Prod.mk.injEq] at h
    obtain ⟨rfl, rfl⟩ := h
    exact ⟨hI, fun _ h => h, fun _ h => h, rfl, fun _ h => h⟩
  | i :: is, m, m', q, q', h, hI => by
    have keep : ∀ (m1 : Marks) (q1 : List Nat), markInstrs P is m1 q1 = some (m', q') → TCE P m1 [] [] →
        (∀ x ∈ m.types, x ∈ m1.types) → (∀ x ∈ m.tuples, x ∈ m1.tuples) → m1.fns = m.fns → (∀ x ∈ q, x ∈ q1) →
        TCE P m' [] [] ∧ (∀ x ∈ m.types, x ∈ m'.types) ∧ (∀ x ∈ m.tuples, x ∈ m'.tuples) ∧ m'.fns = m.fns ∧
          (∀ x ∈ q, x ∈ q') := by
      intro m1 q1 h1 hI1 ht hu hf hq
      obtain ⟨a, b, c, d, e⟩ := markInstrs_spec P is m1 m' q1 q' h1 hI1
      exact ⟨a, fun x hx => b x (ht x hx), fun x hx => c x (hu x hx), d.trans hf, fun x hx => e x (hq x hx)⟩
    have same : ∀ (m1 : Marks), m1.types = m.types → m1.tuples = m.tuples → m1.fns = m.fns → TCE P m1 [] [] := by
      intro m1 e1 e2 _
      exact ⟨fun t ht hn τ hτ => by
                rw [e1] at ht
                exact (hI.types t ht hn τ hτ).mono (fun x hx => by rw [e1]; exact hx) (fun x hx => by rw [e2]; exact hx),
             fun u hu hn T hT p hp => by
                rw [e2] at hu; rw [e1]; exact hI.tuples u hu hn T hT p hp,
             by rw [e2]; exact hI.nodup, by rw [e1]; exact hI.nodupT⟩
    cases i with
    | function id =>
      simp only [markInstrs] at h
      exact keep m _ h hI (fun _ h => h) (fun _ h => h) rfl (fun x hx => List.mem_append_left _ hx)
    | process pid id =>
      simp only [markInstrs] at h
      exact keep m _ h hI (fun _ h => h) (fun _ h => h) rfl (fun x hx => List.mem_append_left _ hx)
    | const id =>
      simp only [markInstrs] at h
      exact keep _ q h (same _ rfl rfl rfl) (fun _ h => h) (fun _ h => h) rfl (fun _ h => h)
    | builtin id =>
      simp only [markInstrs] at h
      exact keep _ q h (same _ rfl rfl rfl) (fun _ h => h) (fun _ h => h) rfl (fun _ h => h)
    | isType id =>
      simp only [markInstrs] at h
      split at h
      · cases h
      · rename_i m1 h1
        obtain ⟨hI1, _, hE⟩ := collectType_spec P _ id m m1 [] [] h1 hI
        exact keep m1 q h hI1 hE.types hE.tuples hE.fns (fun _ h => h)
    | tuple id =>
      simp only [markInstrs] at h
      split at h
      · cases h
      · rename_i m1 h1
        obtain ⟨hI1, _, hE1⟩ := collectTuple_spec P _ id m m1 [] [] h1 hI
        split at h
        · exact keep m1 q h hI1 hE1.types hE1.tuples hE1.fns (fun _ h => h)
        · rename_i t ht
          split at h
          · cases h
          · rename_i m2 h2
            obtain ⟨hI2, _, hE2⟩ := collectType_spec P _ t m1 m2 [] [] h2 hI1
            exact keep m2 q h hI2 (hE1.trans hE2).types (hE1.trans hE2).tuples (hE1.trans hE2).fns (fun _ h => h)
    | pop => simp only [markInstrs] at h; exact keep m q h hI (fun _ h => h) (fun _ h => h) rfl (fun _ h => h)
    | dup => simp only [markInstrs] at h; exact keep m q h hI (fun _ h => h) (fun _ h => h) rfl (fun _ h => h)
    | pick n => simp only [markInstrs] at h; exact keep m q h hI (fun _ h => h) (fun _ h => h) rfl (fun _ h => h)
    | rotate n => simp only [markInstrs] at h; exact keep m q h hI (fun _ h => h) (fun _ h => h) rfl (fun _ h => h)
    | reset n => simp only [markInstrs] at h; exact keep m q h hI (fun _ h => h) (fun _ h => h) rfl (fun _ h => h)
    | load n => simp only [markInstrs] at h; exact keep m q h hI (fun _ h => h) (fun _ h => h) rfl (fun _ h => h)
    | store => simp only [markInstrs] at h; exact keep m q h hI (fun _ h => h) (fun _ h => h) rfl (fun _ h => h)
    | get n => simp only [markInstrs] at h; exact keep m q h hI (fun _ h => h) (fun _ h => h) rfl (fun _ h => h)
    | jump n => simp only [markInstrs] at h; exact keep m q h hI (fun _ h => h) (fun _ h => h) rfl (fun _ h => h)
    | jumpIf n => simp only [markInstrs] at h; exact keep m q h hI (fun _ h => h) (fun _ h => h) rfl (fun _ h => h)
    | call => simp only [markInstrs] at h; exact keep m q h hI (fun _ h => h) (fun _ h => h) rfl (fun _ h => h)
    | tailCall b => simp only [markInstrs] at h; exact keep m q h hI (fun _ h => h) (fun _ h => h) rfl (fun _ h => h)
    | equal n => simp only [markInstrs] at h; exact keep m q h hI (fun _ h => h) (fun _ h => h) rfl (fun _ h => h)
    | not => simp only [markInstrs] at h; exact keep m q h hI (fun _ h => h) (fun _ h => h) rfl (fun _ h => h)
    | spawn => simp only [markInstrs] at h; exact keep m q h hI (fun _ h => h) (fun _ h => h) rfl (fun _ h => h)
    | send => simp only [markInstrs] at h; exact keep m q h hI (fun _ h => h) (fun _ h => h) rfl (fun _ h => h)
    | self => simp only [markInstrs] at h; exact keep m q h hI (fun _ h => h) (fun _ h => h) rfl (fun _ h => h)
    | select => simp only [markInstrs] at h; exact keep m q h hI (fun _ h => h) (fun _ h => h) rfl (fun _ h => h)

theorem markFns_spec (P : Prog) : ∀ (fuel : Nat) (q : List Nat) (m m' : Marks),
    markFns P fuel q m = some m' → TCE P m [] [] → FT P m →
    TCE P m' [] [] ∧ FT P m' ∧ (∀ x ∈ m.tuples, x ∈ m'.tuples) ∧ (∀ x ∈ m.fns, x ∈ m'.fns) ∧ (∀ x ∈ q, x ∈ m'.fns)
  | 0, [], m, m', h, hI, hF => by
    simp only [markFns, Option.some.injEq] at h; subst h
    exact ⟨hI, hF, fun _ h => h, fun _ h => h, fun _ h => by cases h⟩
  | 0, _ :: _, _, _, h, _, _ => by simp [markFns] at h
  | fuel + 1, [], m, m', h, hI, hF => by
    simp only [markFns, Option.some.injEq] at h; subst h
    exact ⟨hI, hF, fun _ h => h, fun _ h => h, fun _ h => by cases h⟩
  | fuel + 1, f :: q, m, m', h, hI, hF => by
    simp only [markFns] at h
    split at h
    · rename_i hc
      obtain ⟨a, b, c, d, e⟩ := markFns_spec P fuel q m m' h hI hF
      refine ⟨a, b, c, d, ?_⟩
      intro x hx
      rcases List.mem_cons.mp hx with h | h
      · subst h; exact d _ (contains_iff.mp hc)
      · exact e x h
    · rename_i hc
      -- `f` is inserted
      have hI1 : TCE P { m with fns := f :: m.fns } [] [] := ⟨hI.types, hI.tuples, hI.nodup, hI.nodupT⟩
      cases hFn : P.fns[f]? with
      | none =>
        rw [hFn] at h
        simp only at h
        have hF1 : FT P { m with fns := f :: m.fns } := by
          intro f' hf' F' hF'
          rcases List.mem_cons.mp hf' with h | h
          · subst h; rw [hFn] at hF'; cases hF'
          · exact hF f' h F' hF'
        obtain ⟨a, b, c, d, e⟩ := markFns_spec P fuel q _ m' h hI1 hF1
        refine ⟨a, b, c, fun x hx => d x (List.mem_cons_of_mem _ hx), ?_⟩
        intro x hx
        rcases List.mem_cons.mp hx with h | h
        · subst h; exact d _ (List.mem_cons_self ..)
        · exact e x h
      | some F =>
        rw [hFn] at h
        simp only at h
        split at h
        · cases h
        · rename_i m1 h1
          obtain ⟨hI2, hty, hE1⟩ := collectType_spec P _ F.typeId _ m1 [] [] h1 hI1
          split at h
          · cases h
          · rename_i m2 q2 h2
            obtain ⟨hI3, hty3, htu3, hf3, hq3⟩ := markInstrs_spec P F.instrs m1 m2 q q2 h2 hI2
            have hfns2 : m2.fns = f :: m.fns := by rw [hf3, hE1.fns]
            have hF2 : FT P m2 := by
              intro f' hf' F' hF'
              rw [hfns2] at hf'
              rcases List.mem_cons.mp hf' with h | h
              · subst h; rw [hFn] at hF'; cases hF'; exact hty3 _ hty
              · exact hty3 _ (hE1.types _ (hF f' h F' hF'))
            obtain ⟨a, b, c, d, e⟩ := markFns_spec P fuel q2 m2 m' h hI3 hF2
            refine ⟨a, b, fun x hx => c x (htu3 x (hE1.tuples x hx)),
              fun x hx => d x (by rw [hfns2]; exact List.mem_cons_of_mem _ hx), ?_⟩
            intro x hx
            rcases List.mem_cons.mp hx with h | h
            · subst h; exact d _ (by rw [hfns2]; exact List.mem_cons_self ..)
            · exact e x (hq3 x h)

theorem markBuiltins_spec (P : Prog) : ∀ (bs : List Nat) (m m' : Marks),
    markBuiltins P bs m = some m' → TCE P m [] [] →
    TCE P m' [] [] ∧ Ext m m' ∧
      ∀ b ∈ bs, ∀ B, P.builtins[b]? = some B → B.paramType ∈ m'.types ∧ B.resultType ∈ m'.types
  | [], m, m', h, hI => by
    simp only [markBuiltins, Option.some.injEq] at h; subst h
    exact ⟨hI, Ext.refl _, fun _ h => by cases h⟩
  | b :: bs, m, m', h, hI => by
    simp only [markBuiltins] at h
    cases hB : P.builtins[b]? with
    | none =>
      rw [hB] at h
      simp only at h
      obtain ⟨a, e, c⟩ := markBuiltins_spec P bs m m' h hI
      refine ⟨a, e, ?_⟩
      intro b' hb' B' hB'
      rcases List.mem_cons.mp hb' with h | h
      · subst h; rw [hB] at hB'; cases hB'
      · exact c b' h B' hB'
    | some B =>
      rw [hB] at h
      simp only at h
      split at h
      · cases h
      · rename_i m1 h1
        obtain ⟨hI1, hp, hE1⟩ := collectType_spec P _ B.paramType m m1 [] [] h1 hI
        split at h
        · cases h
        · rename_i m2 h2
          obtain ⟨hI2, hr, hE2⟩ := collectType_spec P _ B.resultType m1 m2 [] [] h2 hI1
          obtain ⟨a, e, c⟩ := markBuiltins_spec P bs m2 m' h hI2
          refine ⟨a, (hE1.trans hE2).trans e, ?_⟩
          intro b' hb' B' hB'
          rcases List.mem_cons.mp hb' with h | h
          · subst h; rw [hB] at hB'; cases hB'
            exact ⟨e.types _ (hE2.types _ hp), e.types _ hr⟩
          · exact c b' h B' hB'

/-- **The mark phase computes marks closed under reference — for every program and entry.** -/
theorem markAll_closed {P : Prog} {e : Nat} {legacy : Bool} {m : Marks} (h : markAll P e legacy = some m) :
    Closed P e m := by
  unfold markAll at h
  split at h
  · cases h
  · rename_i m0 h0
    have hI : TCE P ({} : Marks) [] [] := ⟨(fun _ h => by cases h), (fun _ h => by cases h), List.nodup_nil, List.nodup_nil⟩
    obtain ⟨hI0, h00, hE0⟩ := collectTuple_spec P _ 0 _ m0 [] [] h0 hI
    split at h
    · cases h
    · rename_i m1 h1
      obtain ⟨hI1, h11, hE1⟩ := collectTuple_spec P _ 1 m0 m1 [] [] h1 hI0
      split at h
      · cases h
      · rename_i m2 h2
        have hF1 : FT P m1 := by
          intro f hf
          rw [hE1.fns, hE0.fns] at hf; cases hf
        obtain ⟨hI2, hF2, htu2, _, hq2⟩ := markFns_spec P _ [e] m1 m2 h2 hI1 hF1
        split at h
        · cases h
        · rename_i m3 h3
          obtain ⟨hI3, hE3, hB3⟩ := markBuiltins_spec P m2.builtins m2 m3 h3 hI2
          -- what holds for `m3` holds for the final marks: only types / tuples grow afterwards
          have final : ∀ (m4 : Marks), TCE P m4 [] [] → Ext m3 m4 → Closed P e m4 := by
            intro m4 hI4 hE4
            have hfns : m4.fns = m2.fns := hE4.fns.trans hE3.fns
            have hbs : m4.builtins = m2.builtins := hE4.builtins.trans hE3.builtins
            have t0 : 0 ∈ m4.tuples := hE4.tuples _ (hE3.tuples _ (htu2 _ (hE1.tuples _ h00)))
            have t1 : 1 ∈ m4.tuples := hE4.tuples _ (hE3.tuples _ (htu2 _ h11))
            obtain ⟨r0, r1⟩ := rank01 t0 t1 hI4.nodup
            refine
              { entry := by rw [hfns]; exact hq2 e (List.mem_cons_self ..)
                rank0 := r0
                rank1 := r1
                fns := ?_
                types := fun t ht τ hτ => hI4.types t ht (fun h => by cases h) τ hτ
                tuples := fun u hu T hT => hI4.tuples u hu (fun h => by cases h) T hT
                builtins := ?_
                nodupTypes := hI4.nodupT
                nodupTuples := hI4.nodup }
            · intro f hf F hF
              rw [hfns] at hf
              exact hE4.types _ (hE3.types _ (hF2 f hf F hF))
            · intro b hb B hB
              rw [hbs] at hb
              obtain ⟨hp, hr⟩ := hB3 b hb B hB
              exact ⟨hE4.types _ hp, hE4.types _ hr⟩
          split at h
          · simp only [Option.some.injEq] at h
            subst h
            exact final m3 hI3 (Ext.refl _)
          · obtain ⟨hI4, _, hE4⟩ := collectTypes_spec P _ _ m3 m [] [] h hI3
            exact final m hI4 hE4

end QM.Packaging
