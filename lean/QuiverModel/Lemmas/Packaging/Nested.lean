import QuiverModel.Lemmas.Packaging.Rel
import QuiverModel.Lemmas.Packaging.ValueInstrs
/-
Capture injection with nested capturing closures: the value the emitted instructions rebuild is the
original one with every capturing closure replaced by its injected capture-free function
(`Rebuilt`). (Owner: C10.)
-/
namespace QM.Packaging

/-- The first `pre.length` instructions of function `g`, run in a fresh frame of `g`, append `capsV`
    to the locals and leave the stack alone — in every extension of `Q`. -/
def PreludeStores (Q : Prog) (g : Nat) (pre : List Instr) (capsV : List Val) : Prop :=
  ∀ (Q' : Prog), Q.Le Q' → ∀ (B : BuiltinSem) (S L : List Val) (base : Nat) (rest : List Frame) (pers : Bool),
    Steps Q' B ⟨S, L, ⟨g, base, 0, 0⟩ :: rest, pers⟩ ⟨S, L ++ capsV, ⟨g, base, 0, pre.length⟩ :: rest, pers⟩

/-- `v'` is `v` with every capturing closure `fn f (c :: cs)` replaced by a capture-free injected
    function `fn g []` whose code is a prelude followed by the body of `f`, and whose prelude stores
    the (recursively rebuilt) captures. -/
inductive Rebuilt (Q : Prog) : Val → Val → Prop where
  | int (z : Int) : Rebuilt Q (.int z) (.int z)
  | bin (bs : List UInt8) : Rebuilt Q (.bin bs) (.bin bs)
  | builtin (b : Nat) : Rebuilt Q (.builtin b) (.builtin b)
  | tuple {t : Nat} {fs fs' : List Val} : All2 (Rebuilt Q) fs fs' → Rebuilt Q (.tuple t fs) (.tuple t fs')
  | fn0 (f : Nat) : Rebuilt Q (.fn f []) (.fn f [])
  | fnInj {f g : Nat} {c : Val} {cs caps' : List Val} {F : Fn} {pre : List Instr} :
      All2 (Rebuilt Q) (c :: cs) caps' → Q.fns[f]? = some F →
      Q.fns[g]? = some { instrs := pre ++ F.instrs, captures := 0, typeId := F.typeId } →
      PreludeStores Q g pre caps' → Rebuilt Q (.fn f (c :: cs)) (.fn g [])

mutual
theorem Rebuilt.mono {Q Q' : Prog} (hle : Q.Le Q') : ∀ (v v' : Val), Rebuilt Q v v' → Rebuilt Q' v v'
  | .int _, _, h => by cases h; exact .int _
  | .bin _, _, h => by cases h; exact .bin _
  | .builtin _, _, h => by cases h; exact .builtin _
  | .ref _, _, h => by cases h
  | .proc _ _, _, h => by cases h
  | .res _ _, _, h => by cases h
  | .tuple _ fs, _, h => by
    cases h with
    | tuple hfs => exact .tuple (Rebuilt.monoList hle fs _ hfs)
  | .fn _ [], _, h => by cases h; exact .fn0 _
  | .fn _ (c :: cs), _, h => by
    cases h with
    | fnInj hcs hF hG hpre =>
      exact .fnInj (Rebuilt.monoList hle (c :: cs) _ hcs) (hle.fns _ _ hF) (hle.fns _ _ hG)
        (fun Q'' hQ'' => hpre Q'' (hle.trans hQ''))
theorem Rebuilt.monoList {Q Q' : Prog} (hle : Q.Le Q') :
    ∀ (vs vs' : List Val), All2 (Rebuilt Q) vs vs' → All2 (Rebuilt Q') vs vs'
  | [], _, h => by cases h; exact .nil
  | v :: vs, _, h => by
    cases h with
    | cons hv hvs => exact .cons (Rebuilt.mono hle v _ hv) (Rebuilt.monoList hle vs _ hvs)
end

mutual
theorem v2iB_nested : ∀ (v : Val) (P P1 : Prog) (is : List Instr), v2iB P v = some (P1, is) → WfVal P v →
    P.Le P1 ∧ ∃ v', Rebuilt P1 v v' ∧ Rebuilds P1 is [v']
  | .int z, P, P1, is, h, _ => by
    simp only [v2iB, Option.some.injEq, Prod.mk.injEq] at h
    obtain ⟨rfl, rfl⟩ := h
    refine ⟨registerConst_le P _, _, .int z, ?_⟩
    intro Q hQ B S L fn base caps pc rest pers hcode
    exact Steps.single (step_const_int hcode.head (hQ.consts _ _ (registerConst_get P _)))
  | .bin bs, P, P1, is, h, _ => by
    simp only [v2iB, Option.some.injEq, Prod.mk.injEq] at h
    obtain ⟨rfl, rfl⟩ := h
    refine ⟨registerConst_le P _, _, .bin bs, ?_⟩
    intro Q hQ B S L fn base caps pc rest pers hcode
    exact Steps.single (step_const_bin hcode.head (hQ.consts _ _ (registerConst_get P _)))
  | .tuple t fs, P, P1, is, h, hw => by
    obtain ⟨⟨T, hT, hlen⟩, hfs⟩ := hw
    simp only [v2iB] at h
    split at h
    · rename_i P1' is' hlist
      simp only [Option.some.injEq, Prod.mk.injEq] at h
      obtain ⟨rfl, rfl⟩ := h
      obtain ⟨hle, fs', hreb, hrun⟩ := v2iBList_nested fs P P1' is' hlist hfs
      refine ⟨hle, .tuple t fs', .tuple hreb, ?_⟩
      intro Q hQ B S L fn base caps pc rest pers hcode
      have s1 := hrun Q hQ B S L fn base caps pc rest pers hcode.left
      have hfetch : fetch Q ⟨fn, base, caps, pc + is'.length⟩ = some (.tuple t) := hcode.right.head
      have hlen' : T.fields.length = fs'.length := by rw [hlen]; exact hreb.length_eq
      have s2 := Steps.single (B := B) (step_tuple (S := S) (L := L) (rest := rest) (pers := pers) hfetch
        (hQ.tuples _ _ (hle.tuples _ _ hT)) hlen')
      have hpc : pc + is'.length + 1 = pc + (is' ++ [Instr.tuple t]).length := by simp [Nat.add_assoc]
      rw [hpc] at s2
      exact s1.trans s2
    · cases h
  | .fn f [], P, P1, is, h, hw => by
    obtain ⟨⟨F, hF, hlen⟩, _⟩ := hw
    simp only [v2iB, Option.some.injEq, Prod.mk.injEq] at h
    obtain ⟨rfl, rfl⟩ := h
    refine ⟨Prog.Le.refl _, _, .fn0 f, ?_⟩
    intro Q hQ B S L fn base caps pc rest pers hcode
    have := step_function (B := B) (S := S) (L := L) (cs := []) (rest := rest) (pers := pers)
      (hcode.head (b := base) (c := caps)) (hQ.fns _ _ hF) hlen
    exact Steps.single (by simpa using this)
  | .fn f (c :: cs), P, P2, is, h, hw => by
    obtain ⟨⟨F0, hF0, _⟩, hcs⟩ := hw
    simp only [v2iB] at h
    split at h
    · cases h
    · rename_i P1 prelude hst
      split at h
      · cases h
      · rename_i F hF
        simp only [Option.some.injEq, Prod.mk.injEq] at h
        obtain ⟨rfl, rfl⟩ := h
        obtain ⟨hle1, caps', hreb, hstores⟩ := v2iBStores_nested (c :: cs) P P1 prelude hst hcs
        have hle2 := registerFn_le P1 { instrs := prelude ++ F.instrs, captures := 0, typeId := F.typeId }
        have hget := registerFn_get P1 { instrs := prelude ++ F.instrs, captures := 0, typeId := F.typeId }
        refine ⟨hle1.trans hle2, .fn (P1.registerFn { instrs := prelude ++ F.instrs, captures := 0, typeId := F.typeId }).2 [], ?_, ?_⟩
        · refine .fnInj (Rebuilt.monoList hle2 _ _ hreb) (hle2.fns _ _ hF) hget ?_
          intro Q' hQ' B S L base rest pers
          have hcode : CodeAt Q' (P1.registerFn { instrs := prelude ++ F.instrs, captures := 0, typeId := F.typeId }).2 0 prelude := by
            intro k i hk
            refine ⟨_, hQ'.fns _ _ hget, ?_⟩
            have hlt : k < prelude.length := by
              rcases Nat.lt_or_ge k prelude.length with h | h
              · exact h
              · rw [List.getElem?_eq_none h] at hk; cases hk
            simp only [Nat.zero_add]
            rw [List.getElem?_append_left hlt]; exact hk
          have := hstores Q' (hle2.trans hQ') B S L _ base 0 0 rest pers hcode
          simpa using this
        · intro Q hQ B S L fn base caps pc rest pers hcode
          have := step_function (B := B) (S := S) (L := L) (cs := []) (rest := rest) (pers := pers)
            (hcode.head (b := base) (c := caps)) (hQ.fns _ _ hget) rfl
          exact Steps.single (by simpa using this)
  | .builtin b, P, P1, is, h, hw => by
    have hb : b < P.builtins.size := hw
    simp only [v2iB, Option.some.injEq, Prod.mk.injEq] at h
    obtain ⟨rfl, rfl⟩ := h
    refine ⟨Prog.Le.refl _, _, .builtin b, ?_⟩
    intro Q hQ B S L fn base caps pc rest pers hcode
    exact Steps.single (step_builtin hcode.head (Nat.lt_of_lt_of_le hb hQ.builtins))
  | .ref _, _, _, _, _, hw => hw.elim
  | .proc _ _, _, _, _, _, hw => hw.elim
  | .res _ _, _, _, _, _, hw => hw.elim
theorem v2iBList_nested : ∀ (vs : List Val) (P P1 : Prog) (is : List Instr), v2iBList P vs = some (P1, is) →
    WfVals P vs → P.Le P1 ∧ ∃ vs', All2 (Rebuilt P1) vs vs' ∧ Rebuilds P1 is vs'.reverse
  | [], P, P1, is, h, _ => by
    simp only [v2iBList, Option.some.injEq, Prod.mk.injEq] at h
    obtain ⟨rfl, rfl⟩ := h
    refine ⟨Prog.Le.refl _, [], .nil, ?_⟩
    intro Q _ B S L fn base caps pc rest pers _
    exact .refl _
  | v :: vs, P, P2, is, h, hw => by
    simp only [v2iBList] at h
    split at h
    · cases h
    · rename_i P1 i1 hv
      split at h
      · cases h
      · rename_i P2' i2 hvs
        simp only [Option.some.injEq, Prod.mk.injEq] at h
        obtain ⟨rfl, rfl⟩ := h
        obtain ⟨hle1, v', hreb1, hrun1⟩ := v2iB_nested v P P1 i1 hv hw.1
        obtain ⟨hle2, vs', hreb2, hrun2⟩ := v2iBList_nested vs P1 P2' i2 hvs (WfVals.mono hle1 vs hw.2)
        refine ⟨hle1.trans hle2, v' :: vs', .cons (Rebuilt.mono hle2 _ _ hreb1) hreb2, ?_⟩
        have hrun1' : Rebuilds P2' i1 [v'] := fun Q hQ => hrun1 Q (hle2.trans hQ)
        have := hrun1'.append hrun2
        simpa using this
theorem v2iBStores_nested : ∀ (vs : List Val) (P P1 : Prog) (is : List Instr), v2iBStores P vs = some (P1, is) →
    WfVals P vs → P.Le P1 ∧ ∃ vs', All2 (Rebuilt P1) vs vs' ∧ StoresCaps P1 is vs'
  | [], P, P1, is, h, _ => by
    simp only [v2iBStores, Option.some.injEq, Prod.mk.injEq] at h
    obtain ⟨rfl, rfl⟩ := h
    refine ⟨Prog.Le.refl _, [], .nil, ?_⟩
    intro Q _ B S L fn base caps pc rest pers _
    simpa using Steps.refl (P := Q) (B := B) ⟨S, L, ⟨fn, base, caps, pc⟩ :: rest, pers⟩
  | v :: vs, P, P2, is, h, hw => by
    simp only [v2iBStores] at h
    split at h
    · cases h
    · rename_i P1 i1 hv
      split at h
      · cases h
      · rename_i P2' i2 hvs
        simp only [Option.some.injEq, Prod.mk.injEq] at h
        obtain ⟨rfl, rfl⟩ := h
        obtain ⟨hle1, v', hreb1, hrun1⟩ := v2iB_nested v P P1 i1 hv hw.1
        obtain ⟨hle2, vs', hreb2, hst2⟩ := v2iBStores_nested vs P1 P2' i2 hvs (WfVals.mono hle1 vs hw.2)
        refine ⟨hle1.trans hle2, v' :: vs', .cons (Rebuilt.mono hle2 _ _ hreb1) hreb2, ?_⟩
        intro Q hQ B S L fn base caps pc rest pers hcode
        have hc1 : CodeAt Q fn pc i1 := hcode.left.left
        have hc2 : CodeAt Q fn (pc + i1.length) [Instr.store] := hcode.left.right
        have hc3 : CodeAt Q fn (pc + (i1 ++ [Instr.store]).length) i2 := hcode.right
        have s1 := hrun1 Q (hle2.trans hQ) B S L fn base caps pc rest pers hc1
        have s2 := Steps.single (B := B) (step_store (S := S) (L := L) (v := v') (rest := rest) (pers := pers)
          (hc2.head (b := base) (c := caps)))
        have s3 := hst2 Q hQ B S (L ++ [v']) fn base caps (pc + (i1 ++ [Instr.store]).length) rest pers hc3
        have hpc1 : pc + i1.length + 1 = pc + (i1 ++ [Instr.store]).length := by simp [Nat.add_assoc]
        have hpc2 : pc + (i1 ++ [Instr.store]).length + i2.length = pc + (i1 ++ [Instr.store] ++ i2).length := by
          simp only [List.length_append, List.length_cons, List.length_nil]; omega
        rw [hpc1] at s2
        rw [hpc2] at s3
        have := (s1.trans s2).trans s3
        simpa [List.append_assoc] using this
end

end QM.Packaging
