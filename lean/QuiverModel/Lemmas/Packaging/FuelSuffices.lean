import QuiverModel.Lemmas.Packaging.Mark
namespace QM.Packaging

/-! ### the fuel of the mark phase always suffices -/

/-- potential: the total cost of the ids below `n` that are not marked yet -/
def pot (c : Nat → Nat) : Nat → List Nat → Nat
  | 0, _ => 0
  | k + 1, l => pot c k l + (if k ∈ l then 0 else c k)

theorem pot_cons_ge (c : Nat → Nat) : ∀ (n t : Nat) (l : List Nat), n ≤ t → pot c n (t :: l) = pot c n l
  | 0, _, _, _ => rfl
  | k + 1, t, l, h => by
    have hne : k ≠ t := by omega
    simp only [pot, List.mem_cons, hne, false_or]
    rw [pot_cons_ge c k t l (by omega)]

theorem pot_cons_lt (c : Nat → Nat) : ∀ (n t : Nat) (l : List Nat), t < n → t ∉ l →
    pot c n (t :: l) + c t = pot c n l
  | 0, _, _, h, _ => by omega
  | k + 1, t, l, h, hn => by
    by_cases hk : k = t
    · subst hk
      simp only [pot, List.mem_cons, true_or, if_true, hn, if_false]
      rw [pot_cons_ge c k k l (Nat.le_refl _)]
      omega
    · have ih := pot_cons_lt c k t l (by omega) hn
      simp only [pot, List.mem_cons, hk, false_or]
      omega

theorem pot_cons_le (c : Nat → Nat) (n t : Nat) (l : List Nat) : pot c n (t :: l) ≤ pot c n l := by
  induction n with
  | zero => exact Nat.le_refl _
  | succ k ih =>
    simp only [pot, List.mem_cons]
    by_cases h1 : k = t
    · simp only [h1, true_or, if_true]
      subst h1
      omega
    · simp only [h1, false_or]
      omega

def cT (P : Prog) (t : Nat) : Nat :=
  match P.types[t]? with
  | some τ => 2 + (tyChildren τ).length
  | none => 2

def cU (P : Prog) (u : Nat) : Nat :=
  match P.tuples[u]? with
  | some T => 2 + T.fields.length
  | none => 2

/-- the potential of a mark state -/
def Phi (P : Prog) (m : Marks) : Nat := pot (cT P) P.types.size m.types + pot (cU P) P.tuples.size m.tuples

theorem Phi_addType_in {P : Prog} {m : Marks} {t : Nat} {τ : Ty} (ht : ¬ m.types.contains t = true)
    (hτ : P.types[t]? = some τ) :
    Phi P { m with types := t :: m.types } + 2 + (tyChildren τ).length = Phi P m := by
  have hlt : t < P.types.size := by
    rcases Nat.lt_or_ge t P.types.size with h | h
    · exact h
    · rw [Array.getElem?_eq_none h] at hτ; cases hτ
  have hnot : t ∉ m.types := fun hm => ht (contains_iff.mpr hm)
  have := pot_cons_lt (cT P) P.types.size t m.types hlt hnot
  simp only [cT, hτ] at this
  simp only [Phi]
  omega

theorem Phi_addType_le {P : Prog} {m : Marks} {t : Nat} : Phi P { m with types := t :: m.types } ≤ Phi P m := by
  have := pot_cons_le (cT P) P.types.size t m.types
  simp only [Phi]; omega

theorem Phi_addTuple_in {P : Prog} {m : Marks} {u : Nat} {T : TupleInfo} (hu : ¬ m.tuples.contains u = true)
    (hT : P.tuples[u]? = some T) :
    Phi P { m with tuples := u :: m.tuples } + 2 + T.fields.length = Phi P m := by
  have hlt : u < P.tuples.size := by
    rcases Nat.lt_or_ge u P.tuples.size with h | h
    · exact h
    · rw [Array.getElem?_eq_none h] at hT; cases hT
  have hnot : u ∉ m.tuples := fun hm => hu (contains_iff.mpr hm)
  have := pot_cons_lt (cU P) P.tuples.size u m.tuples hlt hnot
  simp only [cU, hT] at this
  simp only [Phi]
  omega

theorem Phi_addTuple_le {P : Prog} {m : Marks} {u : Nat} : Phi P { m with tuples := u :: m.tuples } ≤ Phi P m := by
  have := pot_cons_le (cU P) P.tuples.size u m.tuples
  simp only [Phi]; omega

mutual
theorem collectType_total (P : Prog) : ∀ (fuel t : Nat) (m : Marks), Phi P m + 1 ≤ fuel →
    ∃ m', collectType P fuel t m = some m' ∧ Phi P m' ≤ Phi P m
  | 0, _, _, h => by omega
  | fuel + 1, t, m, h => by
    simp only [collectType]
    split
    · exact ⟨m, rfl, Nat.le_refl _⟩
    · rename_i hc
      cases hτ : P.types[t]? with
      | none => exact ⟨_, rfl, Phi_addType_le⟩
      | some τ =>
        have hdec := Phi_addType_in hc hτ
        have generic : ∀ (τ0 : Ty), P.types[t]? = some τ0 → τ0 = τ →
            ∃ m', collectTypes P fuel (tyChildren τ0) { m with types := t :: m.types } = some m' ∧ Phi P m' ≤ Phi P m := by
          intro τ0 _ he
          subst he
          obtain ⟨m', h1, h2⟩ := collectTypes_total P fuel (tyChildren τ0) { m with types := t :: m.types } (by omega)
          exact ⟨m', h1, by omega⟩
        cases τ with
        | tuple id =>
          simp only
          obtain ⟨m', h1, h2⟩ := collectTuple_total P fuel id { m with types := t :: m.types } (by omega)
          exact ⟨m', h1, by omega⟩
        | resource n =>
          simp only
          refine ⟨_, rfl, ?_⟩
          have : Phi P { m with types := t :: m.types, resources := insertStr n m.resources } =
              Phi P { m with types := t :: m.types } := rfl
          omega
        | int => exact generic _ hτ rfl
        | bin => exact generic _ hτ rfl
        | ref => exact generic _ hτ rfl
        | part n fs => exact generic _ hτ rfl
        | callable p r v => exact generic _ hτ rfl
        | cycle d => exact generic _ hτ rfl
        | union ids => exact generic _ hτ rfl
        | process s r => exact generic _ hτ rfl
        | var n => exact generic _ hτ rfl
theorem collectTypes_total (P : Prog) : ∀ (fuel : Nat) (ts : List Nat) (m : Marks), Phi P m + ts.length + 1 ≤ fuel →
    ∃ m', collectTypes P fuel ts m = some m' ∧ Phi P m' ≤ Phi P m
  | 0, _, _, h => by omega
  | fuel + 1, [], m, _ => ⟨m, by simp [collectTypes], Nat.le_refl _⟩
  | fuel + 1, t :: ts, m, h => by
    simp only [List.length_cons] at h
    obtain ⟨m1, h1, h2⟩ := collectType_total P fuel t m (by omega)
    obtain ⟨m2, h3, h4⟩ := collectTypes_total P fuel ts m1 (by omega)
    exact ⟨m2, by simp only [collectTypes, h1, h3], by omega⟩
theorem collectTuple_total (P : Prog) : ∀ (fuel id : Nat) (m : Marks), Phi P m + 1 ≤ fuel →
    ∃ m', collectTuple P fuel id m = some m' ∧ Phi P m' ≤ Phi P m
  | 0, _, _, h => by omega
  | fuel + 1, id, m, h => by
    simp only [collectTuple]
    split
    · exact ⟨m, rfl, Nat.le_refl _⟩
    · rename_i hc
      cases hT : P.tuples[id]? with
      | none => exact ⟨_, rfl, Phi_addTuple_le⟩
      | some T =>
        have hdec := Phi_addTuple_in hc hT
        simp only
        obtain ⟨m', h1, h2⟩ := collectTypes_total P fuel (T.fields.map (·.2)) { m with tuples := id :: m.tuples }
          (by simp only [List.length_map]; omega)
        exact ⟨m', h1, by omega⟩
end


theorem pot_le_nil (c : Nat → Nat) (n : Nat) : ∀ (l : List Nat), pot c n l ≤ pot c n []
  | [] => Nat.le_refl _
  | t :: l => Nat.le_trans (pot_cons_le c n t l) (pot_le_nil c n l)

theorem pot_nil_eq_sum (c : Nat → Nat) : ∀ (n : Nat), pot c n [] = ((List.range n).map c).sum
  | 0 => rfl
  | k + 1 => by
    simp only [pot, List.not_mem_nil, if_false, List.range_succ, List.map_append, List.sum_append, List.map_cons,
      List.map_nil, List.sum_cons, List.sum_nil, Nat.add_zero]
    rw [pot_nil_eq_sum c k]

theorem foldl_add_sum {α : Type} (g : α → Nat) : ∀ (l : List α) (a : Nat),
    l.foldl (fun n x => n + g x) a = a + (l.map g).sum
  | [], a => by simp
  | x :: xs, a => by
    simp only [List.foldl_cons, List.map_cons, List.sum_cons]
    rw [foldl_add_sum g xs]; omega

theorem sum_range_cost {α : Type} (a : Nat) (g : α → Nat) : ∀ (l : List α) (c : Nat → Nat),
    (∀ k x, l[k]? = some x → c k = a + g x) → ((List.range l.length).map c).sum = a * l.length + (l.map g).sum
  | [], _, _ => by simp
  | x :: xs, c, hc => by
    have ih := sum_range_cost a g xs (c ∘ Nat.succ) (fun k y hk => hc (k + 1) y (by simpa using hk))
    have h0 : c 0 = a + g x := hc 0 x (by simp)
    simp only [List.length_cons, List.range_succ_eq_map, List.map_cons, List.map_map, List.sum_cons]
    rw [ih, h0, Nat.mul_succ]
    omega

theorem Phi_nil (P : Prog) : Phi P {} + 4 = collectFuel P := by
  have h1 : pot (cT P) P.types.size [] = 2 * P.types.size + (P.types.toList.map (fun τ => (tyChildren τ).length)).sum := by
    rw [pot_nil_eq_sum]
    have := sum_range_cost 2 (fun τ => (tyChildren τ).length) P.types.toList (cT P) (fun k x hk => by
      have : P.types[k]? = some x := by simpa using hk
      simp [cT, this])
    simpa using this
  have h2 : pot (cU P) P.tuples.size [] = 2 * P.tuples.size + (P.tuples.toList.map (fun T => T.fields.length)).sum := by
    rw [pot_nil_eq_sum]
    have := sum_range_cost 2 (fun (T : TupleInfo) => T.fields.length) P.tuples.toList (cU P) (fun k x hk => by
      have : P.tuples[k]? = some x := by simpa using hk
      simp [cU, this])
    simpa using this
  have f1 : P.types.foldl (fun n τ => n + (tyChildren τ).length) 0 = (P.types.toList.map (fun τ => (tyChildren τ).length)).sum := by
    rw [← Array.foldl_toList, foldl_add_sum]; omega
  have f2 : P.tuples.foldl (fun n T => n + T.fields.length) 0 = (P.tuples.toList.map (fun T => T.fields.length)).sum := by
    rw [← Array.foldl_toList, foldl_add_sum]; omega
  show pot (cT P) P.types.size [] + pot (cU P) P.tuples.size [] + 4 = collectFuel P
  unfold collectFuel
  rw [h1, h2, f1, f2]
  omega

theorem Phi_le_fuel (P : Prog) (m : Marks) : Phi P m + 1 ≤ collectFuel P := by
  have h1 := pot_le_nil (cT P) P.types.size m.types
  have h2 := pot_le_nil (cU P) P.tuples.size m.tuples
  have h3 := Phi_nil P
  have : Phi P m ≤ Phi P {} := by
    show pot (cT P) P.types.size m.types + pot (cU P) P.tuples.size m.tuples ≤
      pot (cT P) P.types.size [] + pot (cU P) P.tuples.size []
    omega
  omega

/-- a top-level collector call with the port's fuel never runs out -/
theorem collectType_fuel (P : Prog) (t : Nat) (m : Marks) : ∃ m', collectType P (collectFuel P) t m = some m' := by
  obtain ⟨m', h, _⟩ := collectType_total P (collectFuel P) t m (Phi_le_fuel P m)
  exact ⟨m', h⟩

theorem collectTuple_fuel (P : Prog) (u : Nat) (m : Marks) : ∃ m', collectTuple P (collectFuel P) u m = some m' := by
  obtain ⟨m', h, _⟩ := collectTuple_total P (collectFuel P) u m (Phi_le_fuel P m)
  exact ⟨m', h⟩


theorem markInstrs_total (P : Prog) : ∀ (is : List Instr) (m : Marks) (q : List Nat),
    ∃ m' q', markInstrs P is m q = some (m', q') ∧ q'.length ≤ q.length + is.length
  | [], m, q => ⟨m, q, rfl, by simp⟩
  | i :: is, m, q => by
    cases i with
    | function id =>
      simp only [markInstrs]
      obtain ⟨m', q', h1, h2⟩ := markInstrs_total P is m (q ++ [id])
      exact ⟨m', q', h1, by simp only [List.length_append, List.length_cons, List.length_nil] at h2 ⊢; omega⟩
    | process pid id =>
      simp only [markInstrs]
      obtain ⟨m', q', h1, h2⟩ := markInstrs_total P is m (q ++ [id])
      exact ⟨m', q', h1, by simp only [List.length_append, List.length_cons, List.length_nil] at h2 ⊢; omega⟩
    | const id =>
      simp only [markInstrs]
      obtain ⟨m', q', h1, h2⟩ := markInstrs_total P is { m with consts := insertNat id m.consts } q
      exact ⟨m', q', h1, by simp only [List.length_cons]; omega⟩
    | builtin id =>
      simp only [markInstrs]
      obtain ⟨m', q', h1, h2⟩ := markInstrs_total P is { m with builtins := insertNat id m.builtins } q
      exact ⟨m', q', h1, by simp only [List.length_cons]; omega⟩
    | isType id =>
      simp only [markInstrs]
      obtain ⟨m1, hm1⟩ := collectType_fuel P id m
      rw [hm1]
      obtain ⟨m', q', h1, h2⟩ := markInstrs_total P is m1 q
      exact ⟨m', q', h1, by simp only [List.length_cons]; omega⟩
    | tuple id =>
      simp only [markInstrs]
      obtain ⟨m1, hm1⟩ := collectTuple_fuel P id m
      rw [hm1]
      simp only
      cases hft : firstTupleType P id with
      | none =>
        simp only
        obtain ⟨m', q', h1, h2⟩ := markInstrs_total P is m1 q
        exact ⟨m', q', h1, by simp only [List.length_cons]; omega⟩
      | some t =>
        simp only
        obtain ⟨m2, hm2⟩ := collectType_fuel P t m1
        rw [hm2]
        obtain ⟨m', q', h1, h2⟩ := markInstrs_total P is m2 q
        exact ⟨m', q', h1, by simp only [List.length_cons]; omega⟩
    | pop => simp only [markInstrs]; obtain ⟨m', q', h1, h2⟩ := markInstrs_total P is m q; exact ⟨m', q', h1, by simp only [List.length_cons]; omega⟩
    | dup => simp only [markInstrs]; obtain ⟨m', q', h1, h2⟩ := markInstrs_total P is m q; exact ⟨m', q', h1, by simp only [List.length_cons]; omega⟩
    | pick n => simp only [markInstrs]; obtain ⟨m', q', h1, h2⟩ := markInstrs_total P is m q; exact ⟨m', q', h1, by simp only [List.length_cons]; omega⟩
    | rotate n => simp only [markInstrs]; obtain ⟨m', q', h1, h2⟩ := markInstrs_total P is m q; exact ⟨m', q', h1, by simp only [List.length_cons]; omega⟩
    | reset n => simp only [markInstrs]; obtain ⟨m', q', h1, h2⟩ := markInstrs_total P is m q; exact ⟨m', q', h1, by simp only [List.length_cons]; omega⟩
    | load n => simp only [markInstrs]; obtain ⟨m', q', h1, h2⟩ := markInstrs_total P is m q; exact ⟨m', q', h1, by simp only [List.length_cons]; omega⟩
    | store => simp only [markInstrs]; obtain ⟨m', q', h1, h2⟩ := markInstrs_total P is m q; exact ⟨m', q', h1, by simp only [List.length_cons]; omega⟩
    | get n => simp only [markInstrs]; obtain ⟨m', q', h1, h2⟩ := markInstrs_total P is m q; exact ⟨m', q', h1, by simp only [List.length_cons]; omega⟩
    | jump n => simp only [markInstrs]; obtain ⟨m', q', h1, h2⟩ := markInstrs_total P is m q; exact ⟨m', q', h1, by simp only [List.length_cons]; omega⟩
    | jumpIf n => simp only [markInstrs]; obtain ⟨m', q', h1, h2⟩ := markInstrs_total P is m q; exact ⟨m', q', h1, by simp only [List.length_cons]; omega⟩
    | call => simp only [markInstrs]; obtain ⟨m', q', h1, h2⟩ := markInstrs_total P is m q; exact ⟨m', q', h1, by simp only [List.length_cons]; omega⟩
    | tailCall b => simp only [markInstrs]; obtain ⟨m', q', h1, h2⟩ := markInstrs_total P is m q; exact ⟨m', q', h1, by simp only [List.length_cons]; omega⟩
    | equal n => simp only [markInstrs]; obtain ⟨m', q', h1, h2⟩ := markInstrs_total P is m q; exact ⟨m', q', h1, by simp only [List.length_cons]; omega⟩
    | not => simp only [markInstrs]; obtain ⟨m', q', h1, h2⟩ := markInstrs_total P is m q; exact ⟨m', q', h1, by simp only [List.length_cons]; omega⟩
    | spawn => simp only [markInstrs]; obtain ⟨m', q', h1, h2⟩ := markInstrs_total P is m q; exact ⟨m', q', h1, by simp only [List.length_cons]; omega⟩
    | send => simp only [markInstrs]; obtain ⟨m', q', h1, h2⟩ := markInstrs_total P is m q; exact ⟨m', q', h1, by simp only [List.length_cons]; omega⟩
    | self => simp only [markInstrs]; obtain ⟨m', q', h1, h2⟩ := markInstrs_total P is m q; exact ⟨m', q', h1, by simp only [List.length_cons]; omega⟩
    | select => simp only [markInstrs]; obtain ⟨m', q', h1, h2⟩ := markInstrs_total P is m q; exact ⟨m', q', h1, by simp only [List.length_cons]; omega⟩

def cF (P : Prog) (f : Nat) : Nat :=
  match P.fns[f]? with
  | some F => 1 + F.instrs.length
  | none => 1

theorem markFns_total (P : Prog) : ∀ (fuel : Nat) (q : List Nat) (m : Marks),
    TCE P m [] [] → FT P m → q.length + pot (cF P) P.fns.size m.fns ≤ fuel → ∃ m', markFns P fuel q m = some m'
  | 0, [], m, _, _, _ => ⟨m, rfl⟩
  | 0, _ :: _, _, _, _, h => by simp at h
  | fuel + 1, [], m, _, _, _ => ⟨m, rfl⟩
  | fuel + 1, f :: q, m, hI, hF, h => by
    simp only [List.length_cons] at h
    simp only [markFns]
    split
    · exact markFns_total P fuel q m hI hF (by omega)
    · rename_i hc
      have hnot : f ∉ m.fns := fun hm => hc (contains_iff.mpr hm)
      have hI1 : TCE P { m with fns := f :: m.fns } [] [] := ⟨hI.types, hI.tuples, hI.nodup, hI.nodupT⟩
      cases hFn : P.fns[f]? with
      | none =>
        simp only
        have hF1 : FT P { m with fns := f :: m.fns } := by
          intro f' hf' F' hF'
          rcases List.mem_cons.mp hf' with h | h
          · subst h; rw [hFn] at hF'; cases hF'
          · exact hF f' h F' hF'
        have := pot_cons_le (cF P) P.fns.size f m.fns
        exact markFns_total P fuel q { m with fns := f :: m.fns } hI1 hF1 (by show q.length + pot (cF P) P.fns.size (f :: m.fns) ≤ fuel; omega)
      | some F =>
        simp only
        have hlt : f < P.fns.size := by
          rcases Nat.lt_or_ge f P.fns.size with h | h
          · exact h
          · rw [Array.getElem?_eq_none h] at hFn; cases hFn
        have hdec := pot_cons_lt (cF P) P.fns.size f m.fns hlt hnot
        simp only [cF, hFn] at hdec
        obtain ⟨m1, hm1⟩ := collectType_fuel P F.typeId { m with fns := f :: m.fns }
        rw [hm1]
        simp only
        obtain ⟨hI2, hty, hE1⟩ := collectType_spec P _ F.typeId _ m1 [] [] hm1 hI1
        obtain ⟨m2, q2, hm2, hq2⟩ := markInstrs_total P F.instrs m1 q
        rw [hm2]
        simp only
        obtain ⟨hI3, hty3, _, hf3, _⟩ := markInstrs_spec P F.instrs m1 m2 q q2 hm2 hI2
        have hfns2 : m2.fns = f :: m.fns := by rw [hf3, hE1.fns]
        have hF2 : FT P m2 := by
          intro f' hf' F' hF'
          rw [hfns2] at hf'
          rcases List.mem_cons.mp hf' with h | h
          · subst h; rw [hFn] at hF'; cases hF'; exact hty3 _ hty
          · exact hty3 _ (hE1.types _ (hF f' h F' hF'))
        exact markFns_total P fuel q2 m2 hI3 hF2 (by rw [hfns2]; omega)

theorem markBuiltins_total (P : Prog) : ∀ (bs : List Nat) (m : Marks), ∃ m', markBuiltins P bs m = some m'
  | [], m => ⟨m, rfl⟩
  | b :: bs, m => by
    simp only [markBuiltins]
    cases hB : P.builtins[b]? with
    | none => exact markBuiltins_total P bs m
    | some B =>
      simp only
      obtain ⟨m1, hm1⟩ := collectType_fuel P B.paramType m
      rw [hm1]
      simp only
      obtain ⟨m2, hm2⟩ := collectType_fuel P B.resultType m1
      rw [hm2]
      exact markBuiltins_total P bs m2

/-- **The mark phase never runs out of fuel**: `markAll` is total — for every program, entry and variant. (So
    `treeShake P e = none` can only come from the sweep, i.e. from an index that is outside its table — where the
    Rust panics.) -/
theorem markAll_total (P : Prog) (e : Nat) (legacy : Bool) : ∃ m, markAll P e legacy = some m := by
  unfold markAll
  have hI : TCE P ({} : Marks) [] [] := ⟨(fun _ h => by cases h), (fun _ h => by cases h), List.nodup_nil, List.nodup_nil⟩
  obtain ⟨m0, h0⟩ := collectTuple_fuel P 0 {}
  rw [h0]
  simp only
  obtain ⟨hI0, _, hE0⟩ := collectTuple_spec P _ 0 _ m0 [] [] h0 hI
  obtain ⟨m1, h1⟩ := collectTuple_fuel P 1 m0
  rw [h1]
  simp only
  obtain ⟨hI1, _, hE1⟩ := collectTuple_spec P _ 1 m0 m1 [] [] h1 hI0
  have hfns1 : m1.fns = [] := by rw [hE1.fns, hE0.fns]
  have hF1 : FT P m1 := by
    intro f hf
    rw [hfns1] at hf; cases hf
  have hfuel : [e].length + pot (cF P) P.fns.size m1.fns ≤ bfsFuel P := by
    rw [hfns1, pot_nil_eq_sum]
    have := sum_range_cost 1 (fun (F : Fn) => F.instrs.length) P.fns.toList (cF P) (fun k x hk => by
      have : P.fns[k]? = some x := by simpa using hk
      simp [cF, this])
    simp only [Array.length_toList] at this
    rw [this]
    have f1 : P.fns.foldl (fun n F => n + F.instrs.length) 0 = (P.fns.toList.map (fun F => F.instrs.length)).sum := by
      rw [← Array.foldl_toList, foldl_add_sum]; omega
    unfold bfsFuel
    rw [f1]
    simp only [List.length_cons, List.length_nil]
    omega
  obtain ⟨m2, h2⟩ := markFns_total P (bfsFuel P) [e] m1 hI1 hF1 hfuel
  rw [h2]
  simp only
  obtain ⟨hI2, _, _, _, _⟩ := markFns_spec P _ [e] m1 m2 h2 hI1 hF1
  obtain ⟨m3, h3⟩ := markBuiltins_total P m2.builtins m2
  rw [h3]
  simp only
  split
  · exact ⟨m3, rfl⟩
  · obtain ⟨m4, h4, _⟩ := collectTypes_total P (collectFuel P + (indexOnly P m3).length + 1) (indexOnly P m3) m3
      (by have := Phi_le_fuel P m3; omega)
    exact ⟨m4, h4⟩

end QM.Packaging
