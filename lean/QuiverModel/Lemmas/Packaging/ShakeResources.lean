import QuiverModel.Lemmas.Packaging.SweepId
namespace QM.Packaging

/-! ### resource names: closed under the kept resource types, duplicate-free, canonically sorted -/

structure ResInv (P : Prog) (m : Marks) : Prop where
  closed : ∀ t ∈ m.types, ∀ n, P.types[t]? = some (.resource n) → n ∈ m.resources
  nodup : m.resources.Nodup

theorem insertStr_mem {a : String} {l : List String} : a ∈ insertStr a l := by
  unfold insertStr
  split
  · rename_i h; simpa using h
  · exact List.mem_cons_self ..

theorem insertStr_sub {a x : String} {l : List String} (h : x ∈ l) : x ∈ insertStr a l := by
  unfold insertStr
  split
  · exact h
  · exact List.mem_cons_of_mem _ h

theorem insertStr_nodup {a : String} {l : List String} (h : l.Nodup) : (insertStr a l).Nodup := by
  unfold insertStr
  split
  · exact h
  · rename_i hc
    exact List.nodup_cons.mpr ⟨fun hm => hc (by simpa using hm), h⟩

mutual
theorem collectType_res (P : Prog) : ∀ (fuel t : Nat) (m m' : Marks),
    collectType P fuel t m = some m' → ResInv P m → ResInv P m'
  | 0, _, _, _, h, _ => by simp [collectType] at h
  | fuel + 1, t, m, m', h, hR => by
    simp only [collectType] at h
    split at h
    · cases h; exact hR
    · -- adding `t` keeps the invariant unless `t` is a resource type (then the name is inserted at once)
      have add : ∀ (hnr : ∀ n, P.types[t]? ≠ some (.resource n)), ResInv P { m with types := t :: m.types } := by
        intro hnr
        refine ⟨fun x hx n hn => ?_, hR.nodup⟩
        rcases List.mem_cons.mp hx with rfl | hx
        · exact (hnr n hn).elim
        · exact hR.closed x hx n hn
      cases hτ : P.types[t]? with
      | none =>
        rw [hτ] at h
        simp only at h
        cases h
        exact add (fun n hn => by rw [hτ] at hn; cases hn)
      | some τ =>
        rw [hτ] at h
        have generic : ∀ (τ0 : Ty), P.types[t]? = some τ0 → (∀ n, τ0 ≠ .resource n) →
            collectTypes P fuel (tyChildren τ0) { m with types := t :: m.types } = some m' → ResInv P m' := by
          intro τ0 hτ0 hnr hcall
          exact collectTypes_res P fuel (tyChildren τ0) _ m' hcall
            (add (fun n hn => by rw [hτ0] at hn; cases hn; exact hnr n rfl))
        cases τ with
        | tuple id =>
          simp only at h
          exact collectTuple_res P fuel id _ m' h (add (fun n hn => by rw [hτ] at hn; cases hn))
        | resource n =>
          simp only at h
          cases h
          refine ⟨fun x hx n' hn' => ?_, insertStr_nodup hR.nodup⟩
          rcases List.mem_cons.mp hx with rfl | hx
          · rw [hτ] at hn'; cases hn'; exact insertStr_mem
          · exact insertStr_sub (hR.closed x hx n' hn')
        | int => exact generic _ hτ (fun _ h => by cases h) h
        | bin => exact generic _ hτ (fun _ h => by cases h) h
        | ref => exact generic _ hτ (fun _ h => by cases h) h
        | part n fs => exact generic _ hτ (fun _ h => by cases h) h
        | callable p r v => exact generic _ hτ (fun _ h => by cases h) h
        | cycle d => exact generic _ hτ (fun _ h => by cases h) h
        | union ids => exact generic _ hτ (fun _ h => by cases h) h
        | process s r => exact generic _ hτ (fun _ h => by cases h) h
        | var n => exact generic _ hτ (fun _ h => by cases h) h
theorem collectTypes_res (P : Prog) : ∀ (fuel : Nat) (ts : List Nat) (m m' : Marks),
    collectTypes P fuel ts m = some m' → ResInv P m → ResInv P m'
  | 0, _, _, _, h, _ => by simp [collectTypes] at h
  | fuel + 1, [], m, m', h, hR => by
    simp only [collectTypes, Option.some.injEq] at h
    subst h; exact hR
  | fuel + 1, t :: ts, m, m', h, hR => by
    simp only [collectTypes] at h
    split at h
    · cases h
    · rename_i m1 h1
      exact collectTypes_res P fuel ts m1 m' h (collectType_res P fuel t m m1 h1 hR)
theorem collectTuple_res (P : Prog) : ∀ (fuel id : Nat) (m m' : Marks),
    collectTuple P fuel id m = some m' → ResInv P m → ResInv P m'
  | 0, _, _, _, h, _ => by simp [collectTuple] at h
  | fuel + 1, id, m, m', h, hR => by
    simp only [collectTuple] at h
    split at h
    · cases h; exact hR
    · have hR1 : ResInv P { m with tuples := id :: m.tuples } := ⟨hR.closed, hR.nodup⟩
      cases hT : P.tuples[id]? with
      | none =>
        rw [hT] at h
        simp only at h
        cases h; exact hR1
      | some T =>
        rw [hT] at h
        simp only at h
        exact collectTypes_res P fuel (T.fields.map (·.2)) _ m' h hR1
end


theorem markInstrs_res (P : Prog) : ∀ (is : List Instr) (m m' : Marks) (q q' : List Nat),
    markInstrs P is m q = some (m', q') → ResInv P m → ResInv P m'
  | [], m, m', q, q', h, hR => by
    simp only [markInstrs, Option.some.injEq, Prod.mk.injEq] at h
    obtain ⟨rfl, rfl⟩ := h
    exact hR
  | i :: is, m, m', q, q', h, hR => by
    cases i with
    | function id => simp only [markInstrs] at h; exact markInstrs_res P is m m' _ q' h hR
    | process pid id => simp only [markInstrs] at h; exact markInstrs_res P is m m' _ q' h hR
    | const id => simp only [markInstrs] at h; exact markInstrs_res P is _ m' q q' h ⟨hR.closed, hR.nodup⟩
    | builtin id => simp only [markInstrs] at h; exact markInstrs_res P is _ m' q q' h ⟨hR.closed, hR.nodup⟩
    | isType id =>
      simp only [markInstrs] at h
      split at h
      · cases h
      · rename_i m1 h1
        exact markInstrs_res P is m1 m' q q' h (collectType_res P _ id m m1 h1 hR)
    | tuple id =>
      simp only [markInstrs] at h
      split at h
      · cases h
      · rename_i m1 h1
        have hR1 := collectTuple_res P _ id m m1 h1 hR
        split at h
        · exact markInstrs_res P is m1 m' q q' h hR1
        · rename_i t ht
          split at h
          · cases h
          · rename_i m2 h2
            exact markInstrs_res P is m2 m' q q' h (collectType_res P _ t m1 m2 h2 hR1)
    | pop => simp only [markInstrs] at h; exact markInstrs_res P is m m' q q' h hR
    | dup => simp only [markInstrs] at h; exact markInstrs_res P is m m' q q' h hR
    | pick n => simp only [markInstrs] at h; exact markInstrs_res P is m m' q q' h hR
    | rotate n => simp only [markInstrs] at h; exact markInstrs_res P is m m' q q' h hR
    | reset n => simp only [markInstrs] at h; exact markInstrs_res P is m m' q q' h hR
    | load n => simp only [markInstrs] at h; exact markInstrs_res P is m m' q q' h hR
    | store => simp only [markInstrs] at h; exact markInstrs_res P is m m' q q' h hR
    | get n => simp only [markInstrs] at h; exact markInstrs_res P is m m' q q' h hR
    | jump n => simp only [markInstrs] at h; exact markInstrs_res P is m m' q q' h hR
    | jumpIf n => simp only [markInstrs] at h; exact markInstrs_res P is m m' q q' h hR
    | call => simp only [markInstrs] at h; exact markInstrs_res P is m m' q q' h hR
    | tailCall b => simp only [markInstrs] at h; exact markInstrs_res P is m m' q q' h hR
    | equal n => simp only [markInstrs] at h; exact markInstrs_res P is m m' q q' h hR
    | not => simp only [markInstrs] at h; exact markInstrs_res P is m m' q q' h hR
    | spawn => simp only [markInstrs] at h; exact markInstrs_res P is m m' q q' h hR
    | send => simp only [markInstrs] at h; exact markInstrs_res P is m m' q q' h hR
    | self => simp only [markInstrs] at h; exact markInstrs_res P is m m' q q' h hR
    | select => simp only [markInstrs] at h; exact markInstrs_res P is m m' q q' h hR

theorem markFns_res (P : Prog) : ∀ (fuel : Nat) (q : List Nat) (m m' : Marks),
    markFns P fuel q m = some m' → ResInv P m → ResInv P m'
  | 0, [], m, m', h, hR => by simp only [markFns, Option.some.injEq] at h; subst h; exact hR
  | 0, _ :: _, _, _, h, _ => by simp [markFns] at h
  | fuel + 1, [], m, m', h, hR => by simp only [markFns, Option.some.injEq] at h; subst h; exact hR
  | fuel + 1, f :: q, m, m', h, hR => by
    simp only [markFns] at h
    split at h
    · exact markFns_res P fuel q m m' h hR
    · have hR1 : ResInv P { m with fns := f :: m.fns } := ⟨hR.closed, hR.nodup⟩
      cases hFn : P.fns[f]? with
      | none =>
        rw [hFn] at h
        simp only at h
        exact markFns_res P fuel q _ m' h hR1
      | some F =>
        rw [hFn] at h
        simp only at h
        split at h
        · cases h
        · rename_i m1 h1
          have hR2 := collectType_res P _ F.typeId _ m1 h1 hR1
          split at h
          · cases h
          · rename_i m2 q2 h2
            exact markFns_res P fuel q2 m2 m' h (markInstrs_res P F.instrs m1 m2 q q2 h2 hR2)

theorem markBuiltins_res (P : Prog) : ∀ (bs : List Nat) (m m' : Marks),
    markBuiltins P bs m = some m' → ResInv P m → ResInv P m'
  | [], m, m', h, hR => by simp only [markBuiltins, Option.some.injEq] at h; subst h; exact hR
  | b :: bs, m, m', h, hR => by
    simp only [markBuiltins] at h
    cases hB : P.builtins[b]? with
    | none =>
      rw [hB] at h
      simp only at h
      exact markBuiltins_res P bs m m' h hR
    | some B =>
      rw [hB] at h
      simp only at h
      split at h
      · cases h
      · rename_i m1 h1
        split at h
        · cases h
        · rename_i m2 h2
          exact markBuiltins_res P bs m2 m' h
            (collectType_res P _ B.resultType m1 m2 h2 (collectType_res P _ B.paramType m m1 h1 hR))

theorem markAll_res {P : Prog} {e : Nat} {legacy : Bool} {m : Marks} (h : markAll P e legacy = some m) :
    ResInv P m := by
  unfold markAll at h
  split at h
  · cases h
  · rename_i m0 h0
    have hR : ResInv P ({} : Marks) := ⟨fun _ h => (by cases h), List.nodup_nil⟩
    have hR0 := collectTuple_res P _ 0 _ m0 h0 hR
    split at h
    · cases h
    · rename_i m1 h1
      have hR1 := collectTuple_res P _ 1 m0 m1 h1 hR0
      split at h
      · cases h
      · rename_i m2 h2
        have hR2 := markFns_res P _ [e] m1 m2 h2 hR1
        split at h
        · cases h
        · rename_i m3 h3
          have hR3 := markBuiltins_res P m2.builtins m2 m3 h3 hR2
          split at h
          · simp only [Option.some.injEq] at h
            subst h; exact hR3
          · exact collectTypes_res P _ _ m3 m h hR3


theorem insertStrAsc_perm (a : String) : ∀ (l : List String), (insertStrAsc a l).Perm (a :: l)
  | [] => List.Perm.refl _
  | b :: bs => by
    simp only [insertStrAsc]
    split
    · exact List.Perm.refl _
    · exact ((List.perm_cons b).mpr (insertStrAsc_perm a bs)).trans (List.Perm.swap a b bs)

theorem sortStrAsc_perm : ∀ (l : List String), (sortStrAsc l).Perm l
  | [] => List.Perm.refl _
  | a :: as => (insertStrAsc_perm a (sortStrAsc as)).trans ((List.perm_cons a).mpr (sortStrAsc_perm as))

theorem insertStrAsc_sorted (a : String) : ∀ (l : List String), l.Pairwise (· ≤ ·) → (insertStrAsc a l).Pairwise (· ≤ ·)
  | [], _ => by simp [insertStrAsc]
  | b :: bs, h => by
    simp only [insertStrAsc]
    obtain ⟨hb, hbs⟩ := List.pairwise_cons.mp h
    split
    · rename_i hab
      exact List.Pairwise.cons (fun x hx => by
        rcases List.mem_cons.mp hx with h | h
        · subst h; exact hab
        · exact String.le_trans hab (hb x h)) h
    · rename_i hab
      refine List.Pairwise.cons (fun x hx => ?_) (insertStrAsc_sorted a bs hbs)
      have hx' : x ∈ a :: bs := (insertStrAsc_perm a bs).subset hx
      rcases List.mem_cons.mp hx' with h | h
      · subst h
        rcases String.le_total b x with h1 | h1
        · exact h1
        · exact (hab h1).elim
      · exact hb x h

theorem sortStrAsc_sorted : ∀ (l : List String), (sortStrAsc l).Pairwise (· ≤ ·)
  | [] => by simp [sortStrAsc]
  | a :: as => insertStrAsc_sorted a _ (sortStrAsc_sorted as)

/-- a sorted duplicate-free list of strings is determined by its elements -/
theorem str_sorted_ext : ∀ {l1 l2 : List String}, l1.Pairwise (· ≤ ·) → l2.Pairwise (· ≤ ·) → l1.Nodup → l2.Nodup →
    (∀ a, a ∈ l1 ↔ a ∈ l2) → l1 = l2
  | [], [], _, _, _, _, _ => rfl
  | [], b :: bs, _, _, _, _, h => by have := (h b).mpr (List.mem_cons_self ..); cases this
  | a :: as, [], _, _, _, _, h => by have := (h a).mp (List.mem_cons_self ..); cases this
  | a :: as, b :: bs, h1, h2, n1, n2, h => by
    obtain ⟨ha, has⟩ := List.pairwise_cons.mp h1
    obtain ⟨hb, hbs⟩ := List.pairwise_cons.mp h2
    obtain ⟨na, nas⟩ := List.nodup_cons.mp n1
    obtain ⟨nb, nbs⟩ := List.nodup_cons.mp n2
    have hab : a = b := by
      have m1 : a ∈ b :: bs := (h a).mp (List.mem_cons_self ..)
      have m2 : b ∈ a :: as := (h b).mpr (List.mem_cons_self ..)
      rcases List.mem_cons.mp m1 with h1' | h1'
      · exact h1'
      · rcases List.mem_cons.mp m2 with h2' | h2'
        · exact h2'.symm
        · exact String.le_antisymm (ha b h2') (hb a h1')
    subst hab
    have htail : ∀ x, x ∈ as ↔ x ∈ bs := by
      intro x
      constructor
      · intro hx
        have := (h x).mp (List.mem_cons_of_mem _ hx)
        rcases List.mem_cons.mp this with h' | h'
        · subst h'; exact (na hx).elim
        · exact h'
      · intro hx
        have := (h x).mpr (List.mem_cons_of_mem _ hx)
        rcases List.mem_cons.mp this with h' | h'
        · subst h'; exact (nb hx).elim
        · exact h'
    rw [str_sorted_ext has hbs nas nbs htail]

theorem sortStrAsc_ext {l1 l2 : List String} (n1 : l1.Nodup) (n2 : l2.Nodup) (h : ∀ a, a ∈ l1 ↔ a ∈ l2) :
    sortStrAsc l1 = sortStrAsc l2 :=
  str_sorted_ext (sortStrAsc_sorted l1) (sortStrAsc_sorted l2) ((sortStrAsc_perm l1).nodup_iff.mpr n1)
    ((sortStrAsc_perm l2).nodup_iff.mpr n2)
    (fun a => by rw [(sortStrAsc_perm l1).mem_iff, (sortStrAsc_perm l2).mem_iff]; exact h a)


theorem shake_transfer {P : Prog} {e : Nat} {m : Marks} {out : ShakeOut} (hm : markAll P e false = some m)
    (h : sweep P e m = some out) :
    ∀ x, Reach P e x → ∀ y, imgItem out.ren x = some y → Reach out.prog out.entry y := by
  have hc := markAll_closed hm
  obtain ⟨hren, hs⟩ := sweep_structRenaming h hc
  have hmk := reach_marked hm h
  have hkept : ∀ x, Reach P e x → ∃ y, imgItem out.ren x = some y := by
    intro x hx
    have := hmk x hx
    rw [hren]
    cases x with
    | fn f => obtain ⟨i, hi⟩ := rankMap_get_of_mem (mem_sortAsc.mpr this); exact ⟨.fn i, by simp [imgItem, shakeRen, hi]⟩
    | const f => obtain ⟨i, hi⟩ := rankMap_get_of_mem (mem_sortAsc.mpr this); exact ⟨.const i, by simp [imgItem, shakeRen, hi]⟩
    | tuple f => obtain ⟨i, hi⟩ := rankMap_get_of_mem (mem_sortAsc.mpr this); exact ⟨.tuple i, by simp [imgItem, shakeRen, hi]⟩
    | ty f => obtain ⟨i, hi⟩ := rankMap_get_of_mem (mem_sortAsc.mpr this); exact ⟨.ty i, by simp [imgItem, shakeRen, hi]⟩
    | builtin f => obtain ⟨i, hi⟩ := rankMap_get_of_mem (mem_sortAsc.mpr this); exact ⟨.builtin i, by simp [imgItem, shakeRen, hi]⟩
    | res n => exact ⟨.res n, rfl⟩
  have hfirst : ∀ u t u' t', firstTupleType P u = some t → out.ren.tuple.get u = some u' →
      out.ren.type.get t = some t' → firstTupleType out.prog u' = some t' := by
    rw [hren]; exact shake_first_tuple h hc
  exact reach_transfer hs hkept hfirst

theorem reach_res_inv {P : Prog} {e : Nat} {n : String} (h : Reach P e (.res n)) :
    ∃ t, Reach P e (.ty t) ∧ P.types[t]? = some (.resource n) := by
  cases h with
  | resOf hr hτ => exact ⟨_, hr, hτ⟩

theorem renameTy_resource_shape {ρ : Ren} {τ : Ty} {n : String} (h : renameTy ρ τ = some (.resource n)) :
    τ = .resource n := by
  cases τ with
  | resource n2 => simp only [renameTy, Option.some.injEq, Ty.resource.injEq] at h; rw [h]
  | callable p r v => simp only [renameTy] at h; split at h <;> simp at h
  | process s r => simp only [renameTy] at h; split at h <;> simp at h
  | _ => simp [renameTy] at h

/-- the second shake rebuilds the same resource-name list -/
theorem second_shake_resources {P : Prog} {e : Nat} {m m2 : Marks} {out out2 : ShakeOut}
    (hm : markAll P e false = some m) (h : sweep P e m = some out)
    (hm2 : markAll out.prog out.entry false = some m2) (h2 : sweep out.prog out.entry m2 = some out2) :
    out2.prog.resources = out.prog.resources := by
  obtain ⟨_, _, _, _, _, _, _, _, hr1⟩ := sweep_fns_builtins h
  obtain ⟨_, _, _, _, _, _, _, _, hr2⟩ := sweep_fns_builtins h2
  rw [hr1, hr2]
  congr 1
  have R1 := markAll_res hm
  have R2 := markAll_res hm2
  have hc := markAll_closed hm
  obtain ⟨hren, hs⟩ := sweep_structRenaming h hc
  refine sortStrAsc_ext R2.nodup R1.nodup (fun n => ⟨fun hn => ?_, fun hn => ?_⟩)
  · -- a name kept by the second shake comes from a type of the shaken program, i.e. from a kept type of `P`
    obtain ⟨t', _, ht'⟩ := reach_res_inv ((markAll_just hm2).resources n hn)
    have hlt : t' < out.prog.types.size := by
      rcases Nat.lt_or_ge t' out.prog.types.size with h1 | h1
      · exact h1
      · rw [Array.getElem?_eq_none h1] at ht'; cases ht'
    obtain ⟨t, htm, hg⟩ := rank_onto (sortAsc_nodup hc.nodupTypes) (by rw [← (sweep_sizes h).2.2.2.1]; exact hlt)
    have hg' : out.ren.type.get t = some t' := by rw [hren]; exact hg
    obtain ⟨τ, τ', hτ, hτ', hrt⟩ := hs.types t t' hg'
    rw [ht'] at hτ'; cases hτ'
    have := renameTy_resource_shape hrt
    subst this
    exact R1.closed t (mem_sortAsc.mp htm) n hτ
  · -- a name kept by the first shake is reachable, hence reachable in the shaken program, hence kept again
    have r1 := (markAll_just hm).resources n hn
    have r2 := shake_transfer hm h _ r1 (.res n) rfl
    obtain ⟨t', hrt', ht'⟩ := reach_res_inv r2
    exact R2.closed t' (reach_marked hm2 h2 _ hrt') n ht'

end QM.Packaging
