import QuiverModel.Lemmas.Packaging.MergeImport
namespace QM.Packaging

/-! ### the import touches only the type and tuple tables -/

def Fr (st st' : MergeSt) : Prop :=
  st'.prog.consts = st.prog.consts ∧ st'.prog.fns = st.prog.fns ∧ st'.prog.builtins = st.prog.builtins

theorem Fr.refl (st : MergeSt) : Fr st st := ⟨rfl, rfl, rfl⟩
theorem Fr.trans {a b c : MergeSt} (h1 : Fr a b) (h2 : Fr b c) : Fr a c :=
  ⟨h2.1.trans h1.1, h2.2.1.trans h1.2.1, h2.2.2.trans h1.2.2⟩

theorem Fr.of_registerType (st : MergeSt) (τ : Ty) (old : Nat) :
    Fr st { st with prog := (st.prog.registerType τ).1, tyMap := (old, (st.prog.registerType τ).2) :: st.tyMap } := by
  unfold Fr Prog.registerType
  split <;> exact ⟨rfl, rfl, rfl⟩

theorem Fr.of_registerTuple (st : MergeSt) (T : TupleInfo) (old : Nat) :
    Fr st { st with prog := (st.prog.registerTuple T).1, tuMap := (old, (st.prog.registerTuple T).2) :: st.tuMap } := by
  unfold Fr Prog.registerTuple
  split <;> exact ⟨rfl, rfl, rfl⟩

mutual
theorem importType_fr (src : Prog) : ∀ (fuel old : Nat) (st st' : MergeSt) (n : Nat),
    importType false src fuel old st = some (st', n) → Fr st st'
  | 0, _, _, _, _, h => by simp [importType] at h
  | fuel + 1, old, st, st', n, h => by
    simp only [importType] at h
    cases hg : st.tyMap.get old with
    | some m =>
      rw [hg] at h
      simp only [Option.some.injEq, Prod.mk.injEq] at h
      obtain ⟨rfl, _⟩ := h
      exact Fr.refl _
    | none =>
      rw [hg] at h
      simp only at h
      cases hτ : src.types[old]? with
      | none => rw [hτ] at h; cases h
      | some τ =>
        rw [hτ] at h
        simp only [Bool.false_and, Bool.false_eq_true, if_false] at h
        cases hv : importTyValue false src fuel τ st with
        | none => rw [hv] at h; cases h
        | some r =>
          obtain ⟨st1, τ'⟩ := r
          rw [hv] at h
          simp only [Option.some.injEq, Prod.mk.injEq] at h
          obtain ⟨rfl, _⟩ := h
          have h1 := importTyValue_fr src fuel τ st st1 τ' hv
          exact h1.trans (Fr.of_registerType _ _ _)
theorem importTyValue_fr (src : Prog) : ∀ (fuel : Nat) (τ : Ty) (st st' : MergeSt) (τ' : Ty),
    importTyValue false src fuel τ st = some (st', τ') → Fr st st'
  | 0, _, _, _, _, h => by simp [importTyValue] at h
  | fuel + 1, τ, st, st', τ', h => by
    cases τ with
    | tuple id =>
      simp only [importTyValue, Option.map_eq_some_iff, Prod.mk.injEq] at h
      obtain ⟨r, hr, rfl, _⟩ := h
      exact importTuple_fr src fuel id st r.1 r.2 hr
    | part n fs =>
      simp only [importTyValue, Option.map_eq_some_iff, Prod.mk.injEq] at h
      obtain ⟨r, hr, rfl, _⟩ := h
      exact importTypes_fr src fuel _ st r.1 r.2 hr
    | union ids =>
      simp only [importTyValue, Option.map_eq_some_iff, Prod.mk.injEq] at h
      obtain ⟨r, hr, rfl, _⟩ := h
      exact importTypes_fr src fuel _ st r.1 r.2 hr
    | callable p r v =>
      simp only [importTyValue] at h
      split at h
      · rename_i st1 p' r' v' hr
        simp only [Option.some.injEq, Prod.mk.injEq] at h
        obtain ⟨rfl, _⟩ := h
        exact importTypes_fr src fuel _ st st1 _ hr
      · cases h
    | process s r =>
      simp only [importTyValue] at h
      split at h
      · cases h
      · rename_i st1 s' hs
        split at h
        · cases h
        · rename_i st2 r' hr
          simp only [Option.some.injEq, Prod.mk.injEq] at h
          obtain ⟨rfl, _⟩ := h
          have h1 : Fr st st1 := by
            cases s with
            | none => simp only [Option.some.injEq, Prod.mk.injEq] at hs; obtain ⟨rfl, _⟩ := hs; exact Fr.refl _
            | some t =>
              simp only [Option.map_eq_some_iff, Prod.mk.injEq] at hs
              obtain ⟨x, hx, rfl, _⟩ := hs
              exact importType_fr src fuel t st x.1 x.2 hx
          have h2 : Fr st1 st2 := by
            cases r with
            | none => simp only [Option.some.injEq, Prod.mk.injEq] at hr; obtain ⟨rfl, _⟩ := hr; exact Fr.refl _
            | some t =>
              simp only [Option.map_eq_some_iff, Prod.mk.injEq] at hr
              obtain ⟨x, hx, rfl, _⟩ := hr
              exact importType_fr src fuel t st1 x.1 x.2 hx
          exact h1.trans h2
    | int => simp only [importTyValue, Option.some.injEq, Prod.mk.injEq] at h; obtain ⟨rfl, _⟩ := h; exact Fr.refl _
    | bin => simp only [importTyValue, Option.some.injEq, Prod.mk.injEq] at h; obtain ⟨rfl, _⟩ := h; exact Fr.refl _
    | ref => simp only [importTyValue, Option.some.injEq, Prod.mk.injEq] at h; obtain ⟨rfl, _⟩ := h; exact Fr.refl _
    | cycle d => simp only [importTyValue, Option.some.injEq, Prod.mk.injEq] at h; obtain ⟨rfl, _⟩ := h; exact Fr.refl _
    | resource nm => simp only [importTyValue, Option.some.injEq, Prod.mk.injEq] at h; obtain ⟨rfl, _⟩ := h; exact Fr.refl _
    | var nm => simp only [importTyValue, Option.some.injEq, Prod.mk.injEq] at h; obtain ⟨rfl, _⟩ := h; exact Fr.refl _
theorem importTypes_fr (src : Prog) : ∀ (fuel : Nat) (ts : List Nat) (st st' : MergeSt) (ts' : List Nat),
    importTypes false src fuel ts st = some (st', ts') → Fr st st'
  | 0, _, _, _, _, h => by simp [importTypes] at h
  | fuel + 1, [], st, st', ts', h => by
    simp only [importTypes, Option.some.injEq, Prod.mk.injEq] at h
    obtain ⟨rfl, _⟩ := h
    exact Fr.refl _
  | fuel + 1, t :: ts, st, st', ts', h => by
    simp only [importTypes] at h
    cases h1 : importType false src fuel t st with
    | none => rw [h1] at h; cases h
    | some r1 =>
      obtain ⟨st1, t'⟩ := r1
      rw [h1] at h
      simp only at h
      cases h2 : importTypes false src fuel ts st1 with
      | none => rw [h2] at h; cases h
      | some r2 =>
        obtain ⟨st2, ts2⟩ := r2
        rw [h2] at h
        simp only [Option.some.injEq, Prod.mk.injEq] at h
        obtain ⟨rfl, _⟩ := h
        exact (importType_fr src fuel t st st1 t' h1).trans (importTypes_fr src fuel ts st1 st2 ts2 h2)
theorem importTuple_fr (src : Prog) : ∀ (fuel old : Nat) (st st' : MergeSt) (n : Nat),
    importTuple false src fuel old st = some (st', n) → Fr st st'
  | 0, _, _, _, _, h => by simp [importTuple] at h
  | fuel + 1, old, st, st', n, h => by
    simp only [importTuple] at h
    cases hg : st.tuMap.get old with
    | some m =>
      rw [hg] at h
      simp only [Option.some.injEq, Prod.mk.injEq] at h
      obtain ⟨rfl, _⟩ := h
      exact Fr.refl _
    | none =>
      rw [hg] at h
      simp only at h
      cases hT : src.tuples[old]? with
      | none => rw [hT] at h; cases h
      | some T =>
        rw [hT] at h
        simp only [Bool.false_and, Bool.false_eq_true, if_false] at h
        cases hv : importTypes false src fuel (T.fields.map (·.2)) st with
        | none => rw [hv] at h; cases h
        | some r =>
          obtain ⟨st1, ts'⟩ := r
          rw [hv] at h
          simp only [Option.some.injEq, Prod.mk.injEq] at h
          obtain ⟨rfl, _⟩ := h
          have h1 := importTypes_fr src fuel _ st st1 ts' hv
          exact h1.trans (Fr.of_registerTuple _ _ _)
end

theorem importAllTypes_fr (src : Prog) : ∀ (ts : List Nat) (st st' : MergeSt),
    importAllTypes false src ts st = some st' → Fr st st'
  | [], st, st', h => by
    simp only [importAllTypes, Option.some.injEq] at h; subst h; exact Fr.refl _
  | t :: ts, st, st', h => by
    simp only [importAllTypes] at h
    cases h1 : importType false src (importFuel src) t st with
    | none => rw [h1] at h; cases h
    | some r =>
      obtain ⟨st1, n⟩ := r
      rw [h1] at h
      exact (importType_fr src _ t st st1 n h1).trans (importAllTypes_fr src ts st1 st' h)

theorem importAllTuples_fr (src : Prog) : ∀ (ts : List Nat) (st st' : MergeSt),
    importAllTuples false src ts st = some st' → Fr st st'
  | [], st, st', h => by
    simp only [importAllTuples, Option.some.injEq] at h; subst h; exact Fr.refl _
  | t :: ts, st, st', h => by
    simp only [importAllTuples] at h
    cases h1 : importTuple false src (importFuel src) t st with
    | none => rw [h1] at h; cases h
    | some r =>
      obtain ⟨st1, n⟩ := r
      rw [h1] at h
      exact (importTuple_fr src _ t st st1 n h1).trans (importAllTuples_fr src ts st1 st' h)



/-! ### the import only EXTENDS the type and tuple tables (no invariant needed) -/

def Pre (st st' : MergeSt) : Prop := ArrLe st.prog.types st'.prog.types ∧ ArrLe st.prog.tuples st'.prog.tuples

theorem Pre.refl (st : MergeSt) : Pre st st := ⟨ArrLe.refl _, ArrLe.refl _⟩
theorem Pre.trans {a b c : MergeSt} (h1 : Pre a b) (h2 : Pre b c) : Pre a c := ⟨h1.1.trans h2.1, h1.2.trans h2.2⟩

theorem Pre.of_registerType (st : MergeSt) (τ : Ty) (old : Nat) :
    Pre st { st with prog := (st.prog.registerType τ).1, tyMap := (old, (st.prog.registerType τ).2) :: st.tyMap } := by
  obtain ⟨_, a, b⟩ := registerType_spec st.prog τ
  refine ⟨a, ?_⟩
  show ArrLe st.prog.tuples (st.prog.registerType τ).1.tuples
  rw [b]; exact ArrLe.refl _

theorem Pre.of_registerTuple (st : MergeSt) (T : TupleInfo) (old : Nat) :
    Pre st { st with prog := (st.prog.registerTuple T).1, tuMap := (old, (st.prog.registerTuple T).2) :: st.tuMap } := by
  obtain ⟨_, a, b⟩ := registerTuple_spec st.prog T
  refine ⟨?_, a⟩
  show ArrLe st.prog.types (st.prog.registerTuple T).1.types
  rw [b]; exact ArrLe.refl _

mutual
theorem importType_pre (src : Prog) : ∀ (fuel old : Nat) (st st' : MergeSt) (n : Nat),
    importType false src fuel old st = some (st', n) → Pre st st'
  | 0, _, _, _, _, h => by simp [importType] at h
  | fuel + 1, old, st, st', n, h => by
    simp only [importType] at h
    cases hg : st.tyMap.get old with
    | some m =>
      rw [hg] at h
      simp only [Option.some.injEq, Prod.mk.injEq] at h
      obtain ⟨rfl, _⟩ := h
      exact Pre.refl _
    | none =>
      rw [hg] at h
      simp only at h
      cases hτ : src.types[old]? with
      | none => rw [hτ] at h; cases h
      | some τ =>
        rw [hτ] at h
        simp only [Bool.false_and, Bool.false_eq_true, if_false] at h
        cases hv : importTyValue false src fuel τ st with
        | none => rw [hv] at h; cases h
        | some r =>
          obtain ⟨st1, τ'⟩ := r
          rw [hv] at h
          simp only [Option.some.injEq, Prod.mk.injEq] at h
          obtain ⟨rfl, _⟩ := h
          have h1 := importTyValue_pre src fuel τ st st1 τ' hv
          exact h1.trans (Pre.of_registerType _ _ _)
theorem importTyValue_pre (src : Prog) : ∀ (fuel : Nat) (τ : Ty) (st st' : MergeSt) (τ' : Ty),
    importTyValue false src fuel τ st = some (st', τ') → Pre st st'
  | 0, _, _, _, _, h => by simp [importTyValue] at h
  | fuel + 1, τ, st, st', τ', h => by
    cases τ with
    | tuple id =>
      simp only [importTyValue, Option.map_eq_some_iff, Prod.mk.injEq] at h
      obtain ⟨r, hr, rfl, _⟩ := h
      exact importTuple_pre src fuel id st r.1 r.2 hr
    | part n fs =>
      simp only [importTyValue, Option.map_eq_some_iff, Prod.mk.injEq] at h
      obtain ⟨r, hr, rfl, _⟩ := h
      exact importTypes_pre src fuel _ st r.1 r.2 hr
    | union ids =>
      simp only [importTyValue, Option.map_eq_some_iff, Prod.mk.injEq] at h
      obtain ⟨r, hr, rfl, _⟩ := h
      exact importTypes_pre src fuel _ st r.1 r.2 hr
    | callable p r v =>
      simp only [importTyValue] at h
      split at h
      · rename_i st1 p' r' v' hr
        simp only [Option.some.injEq, Prod.mk.injEq] at h
        obtain ⟨rfl, _⟩ := h
        exact importTypes_pre src fuel _ st st1 _ hr
      · cases h
    | process s r =>
      simp only [importTyValue] at h
      split at h
      · cases h
      · rename_i st1 s' hs
        split at h
        · cases h
        · rename_i st2 r' hr
          simp only [Option.some.injEq, Prod.mk.injEq] at h
          obtain ⟨rfl, _⟩ := h
          have h1 : Pre st st1 := by
            cases s with
            | none => simp only [Option.some.injEq, Prod.mk.injEq] at hs; obtain ⟨rfl, _⟩ := hs; exact Pre.refl _
            | some t =>
              simp only [Option.map_eq_some_iff, Prod.mk.injEq] at hs
              obtain ⟨x, hx, rfl, _⟩ := hs
              exact importType_pre src fuel t st x.1 x.2 hx
          have h2 : Pre st1 st2 := by
            cases r with
            | none => simp only [Option.some.injEq, Prod.mk.injEq] at hr; obtain ⟨rfl, _⟩ := hr; exact Pre.refl _
            | some t =>
              simp only [Option.map_eq_some_iff, Prod.mk.injEq] at hr
              obtain ⟨x, hx, rfl, _⟩ := hr
              exact importType_pre src fuel t st1 x.1 x.2 hx
          exact h1.trans h2
    | int => simp only [importTyValue, Option.some.injEq, Prod.mk.injEq] at h; obtain ⟨rfl, _⟩ := h; exact Pre.refl _
    | bin => simp only [importTyValue, Option.some.injEq, Prod.mk.injEq] at h; obtain ⟨rfl, _⟩ := h; exact Pre.refl _
    | ref => simp only [importTyValue, Option.some.injEq, Prod.mk.injEq] at h; obtain ⟨rfl, _⟩ := h; exact Pre.refl _
    | cycle d => simp only [importTyValue, Option.some.injEq, Prod.mk.injEq] at h; obtain ⟨rfl, _⟩ := h; exact Pre.refl _
    | resource nm => simp only [importTyValue, Option.some.injEq, Prod.mk.injEq] at h; obtain ⟨rfl, _⟩ := h; exact Pre.refl _
    | var nm => simp only [importTyValue, Option.some.injEq, Prod.mk.injEq] at h; obtain ⟨rfl, _⟩ := h; exact Pre.refl _
theorem importTypes_pre (src : Prog) : ∀ (fuel : Nat) (ts : List Nat) (st st' : MergeSt) (ts' : List Nat),
    importTypes false src fuel ts st = some (st', ts') → Pre st st'
  | 0, _, _, _, _, h => by simp [importTypes] at h
  | fuel + 1, [], st, st', ts', h => by
    simp only [importTypes, Option.some.injEq, Prod.mk.injEq] at h
    obtain ⟨rfl, _⟩ := h
    exact Pre.refl _
  | fuel + 1, t :: ts, st, st', ts', h => by
    simp only [importTypes] at h
    cases h1 : importType false src fuel t st with
    | none => rw [h1] at h; cases h
    | some r1 =>
      obtain ⟨st1, t'⟩ := r1
      rw [h1] at h
      simp only at h
      cases h2 : importTypes false src fuel ts st1 with
      | none => rw [h2] at h; cases h
      | some r2 =>
        obtain ⟨st2, ts2⟩ := r2
        rw [h2] at h
        simp only [Option.some.injEq, Prod.mk.injEq] at h
        obtain ⟨rfl, _⟩ := h
        exact (importType_pre src fuel t st st1 t' h1).trans (importTypes_pre src fuel ts st1 st2 ts2 h2)
theorem importTuple_pre (src : Prog) : ∀ (fuel old : Nat) (st st' : MergeSt) (n : Nat),
    importTuple false src fuel old st = some (st', n) → Pre st st'
  | 0, _, _, _, _, h => by simp [importTuple] at h
  | fuel + 1, old, st, st', n, h => by
    simp only [importTuple] at h
    cases hg : st.tuMap.get old with
    | some m =>
      rw [hg] at h
      simp only [Option.some.injEq, Prod.mk.injEq] at h
      obtain ⟨rfl, _⟩ := h
      exact Pre.refl _
    | none =>
      rw [hg] at h
      simp only at h
      cases hT : src.tuples[old]? with
      | none => rw [hT] at h; cases h
      | some T =>
        rw [hT] at h
        simp only [Bool.false_and, Bool.false_eq_true, if_false] at h
        cases hv : importTypes false src fuel (T.fields.map (·.2)) st with
        | none => rw [hv] at h; cases h
        | some r =>
          obtain ⟨st1, ts'⟩ := r
          rw [hv] at h
          simp only [Option.some.injEq, Prod.mk.injEq] at h
          obtain ⟨rfl, _⟩ := h
          have h1 := importTypes_pre src fuel _ st st1 ts' hv
          exact h1.trans (Pre.of_registerTuple _ _ _)
end

theorem importAllTypes_pre (src : Prog) : ∀ (ts : List Nat) (st st' : MergeSt),
    importAllTypes false src ts st = some st' → Pre st st'
  | [], st, st', h => by
    simp only [importAllTypes, Option.some.injEq] at h; subst h; exact Pre.refl _
  | t :: ts, st, st', h => by
    simp only [importAllTypes] at h
    cases h1 : importType false src (importFuel src) t st with
    | none => rw [h1] at h; cases h
    | some r =>
      obtain ⟨st1, n⟩ := r
      rw [h1] at h
      exact (importType_pre src _ t st st1 n h1).trans (importAllTypes_pre src ts st1 st' h)

theorem importAllTuples_pre (src : Prog) : ∀ (ts : List Nat) (st st' : MergeSt),
    importAllTuples false src ts st = some st' → Pre st st'
  | [], st, st', h => by
    simp only [importAllTuples, Option.some.injEq] at h; subst h; exact Pre.refl _
  | t :: ts, st, st', h => by
    simp only [importAllTuples] at h
    cases h1 : importTuple false src (importFuel src) t st with
    | none => rw [h1] at h; cases h
    | some r =>
      obtain ⟨st1, n⟩ := r
      rw [h1] at h
      exact (importTuple_pre src _ t st st1 n h1).trans (importAllTuples_pre src ts st1 st' h)


/-- all five tables of `P` are prefixes of those of `Q`: every index that meant something in `P` means the
    same in `Q` -/
structure ProgLe5 (P Q : Prog) : Prop where
  consts : ArrLe P.consts Q.consts
  fns : ArrLe P.fns Q.fns
  tuples : ArrLe P.tuples Q.tuples
  types : ArrLe P.types Q.types
  builtins : ArrLe P.builtins Q.builtins

theorem ProgLe5.refl (P : Prog) : ProgLe5 P P := ⟨ArrLe.refl _, ArrLe.refl _, ArrLe.refl _, ArrLe.refl _, ArrLe.refl _⟩
theorem ProgLe5.trans {P Q R : Prog} (h1 : ProgLe5 P Q) (h2 : ProgLe5 Q R) : ProgLe5 P R :=
  ⟨h1.consts.trans h2.consts, h1.fns.trans h2.fns, h1.tuples.trans h2.tuples, h1.types.trans h2.types,
   h1.builtins.trans h2.builtins⟩

theorem registerConst_le5 (P : Prog) (k : Const) : ProgLe5 P (P.registerConst k).1 := by
  unfold Prog.registerConst
  split
  · exact ProgLe5.refl _
  · exact ⟨ArrLe.push _ _, ArrLe.refl _, ArrLe.refl _, ArrLe.refl _, ArrLe.refl _⟩

theorem registerBuiltin_le5 (P : Prog) (B : BuiltinInfo) : ProgLe5 P (P.registerBuiltin B).1 := by
  unfold Prog.registerBuiltin
  split
  · exact ProgLe5.refl _
  · exact ⟨ArrLe.refl _, ArrLe.refl _, ArrLe.refl _, ArrLe.refl _, ArrLe.push _ _⟩

theorem registerFn_le5 (P : Prog) (F : Fn) : ProgLe5 P (P.registerFn F).1 := by
  unfold Prog.registerFn
  split
  · exact ProgLe5.refl _
  · exact ⟨ArrLe.refl _, ArrLe.push _ _, ArrLe.refl _, ArrLe.refl _, ArrLe.refl _⟩

theorem mergeConsts_le5 : ∀ (ks : List Const) (i : Nat) (P : Prog) (m : AMap), ProgLe5 P (mergeConsts ks i P m).1
  | [], _, P, _ => ProgLe5.refl P
  | k :: ks, i, P, m => by
    simp only [mergeConsts]
    exact (registerConst_le5 P k).trans (mergeConsts_le5 ks (i + 1) _ _)

theorem mergeBuiltins_le5 (ym : AMap) : ∀ (bs : List BuiltinInfo) (i : Nat) (P : Prog) (m : AMap),
    ProgLe5 P (mergeBuiltins ym bs i P m).1
  | [], _, P, _ => ProgLe5.refl P
  | B :: bs, i, P, m => by
    simp only [mergeBuiltins]
    exact (registerBuiltin_le5 P _).trans (mergeBuiltins_le5 ym bs (i + 1) _ _)

theorem mergeFns_le5 (cm tm ym bm : AMap) : ∀ (fs : List Fn) (i : Nat) (P : Prog) (fm : AMap),
    ProgLe5 P (mergeFns cm tm ym bm fs i P fm).1
  | [], _, P, _ => ProgLe5.refl P
  | F :: fs, i, P, fm => by
    simp only [mergeFns]
    exact (registerFn_le5 P _).trans (mergeFns_le5 cm tm ym bm fs (i + 1) _ _)

theorem le5_of_pre_fr {st st' : MergeSt} (hp : Pre st st') (hf : Fr st st') : ProgLe5 st.prog st'.prog :=
  ⟨by rw [hf.1]; exact ArrLe.refl _, by rw [hf.2.1]; exact ArrLe.refl _, hp.2, hp.1, by rw [hf.2.2]; exact ArrLe.refl _⟩

/-- **Merging never disturbs what is already loaded**: every constant, function, tuple, type and builtin
    index of the environment's program denotes the same entry after `merge_bytecode` — for every environment,
    every incoming program and entry (no hypothesis). -/
theorem merge_extends_env {env src : Prog} {e : Nat} {out : MergeOut}
    (h : mergeBytecodeWith false env src e = some out) : ProgLe5 env out.prog := by
  unfold mergeBytecodeWith at h
  simp only at h
  split at h
  · cases h
  · rename_i st1 h1
    split at h
    · cases h
    · rename_i st2 h2
      split at h
      · cases h
      · simp only [Option.some.injEq] at h
        subst h
        have a := mergeConsts_le5 src.consts.toList 0 env []
        have b := le5_of_pre_fr (importAllTypes_pre src _ _ st1 h1) (importAllTypes_fr src _ _ st1 h1)
        have c := le5_of_pre_fr (importAllTuples_pre src _ st1 st2 h2) (importAllTuples_fr src _ st1 st2 h2)
        have d := mergeBuiltins_le5 st2.tyMap src.builtins.toList 0 st2.prog []
        have f := mergeFns_le5 (mergeConsts src.consts.toList 0 env []).2 st2.tuMap st2.tyMap
          (mergeBuiltins st2.tyMap src.builtins.toList 0 st2.prog []).2 src.fns.toList 0
          (mergeBuiltins st2.tyMap src.builtins.toList 0 st2.prog []).1 []
        have all := a.trans (b.trans (c.trans (d.trans f)))
        exact ⟨all.consts, all.fns, all.tuples, all.types, all.builtins⟩

end QM.Packaging
