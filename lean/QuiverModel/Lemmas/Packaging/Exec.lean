import QuiverModel.Lemmas.Packaging.Rel
/-
One instruction commutes with a renaming (`exec_commutes`), the frame auto-pop and completion too
(`step_commutes`). (Owner: C10.)
-/
namespace QM.Packaging

variable {ρ : Ren} {P P' : Prog} {e e' : Nat}

theorem beq_of_inj {m : AMap} (hinj : m.Inj) {a a' b b' : Nat} (ha : m.get a = some a')
    (hb : m.get b = some b') : (a == b) = (a' == b') := by
  by_cases h : a = b
  · have h' : a' = b' := by subst h; rw [ha] at hb; cases hb; rfl
    rw [h, h']; simp
  · have h' : a' ≠ b' := by
      intro h'; subst h'
      exact h (hinj _ _ _ ha hb)
    rw [beq_eq_false_iff_ne.mpr h, beq_eq_false_iff_ne.mpr h']

mutual
/-- `values_equal` commutes with ρ (function / tuple ids through injectivity and `canon`). -/
theorem veq_rel (hρ : IsRenaming ρ P P' e e') :
    ∀ (a a' b b' : Val), RelVal ρ a a' → RelVal ρ b b' → veq P a b = veq P' a' b'
  | .int _, _, _, _, h1, h2 => by cases h1; cases h2 <;> simp [veq]
  | .bin _, _, _, _, h1, h2 => by cases h1; cases h2 <;> simp [veq]
  | .ref _, _, _, _, h1, h2 => by cases h1; cases h2 <;> simp [veq]
  | .builtin _, _, _, _, h1, h2 => by
    cases h1 with
    | builtin hb1 =>
      cases h2 with
      | builtin hb2 => simp only [veq]; exact beq_of_inj hρ.inj_builtin hb1 hb2
      | _ => simp [veq]
  | .proc _ _, _, _, _, h1, h2 => by
    cases h1 with
    | proc pid hf1 =>
      cases h2 with
      | proc pid2 hf2 => simp only [veq]; rw [beq_of_inj hρ.inj_fn hf1 hf2]
      | _ => simp [veq]
  | .res _ _, _, _, _, h1, h2 => by cases h1; cases h2 <;> simp [veq]
  | .tuple t fs, _, _, _, h1, h2 => by
    cases h1 with
    | tuple ht hfs =>
      cases h2 with
      | tuple ht2 hfs2 =>
        rename_i t1' fs1' t2 t2' fs2 fs2'
        simp only [veq]
        rw [veqList_rel hρ _ _ _ _ hfs hfs2]
        congr 1
        have := hρ.canon _ _ _ _ ht ht2
        by_cases hc : P.canonOf t = P.canonOf t2
        · rw [beq_iff_eq.mpr hc, beq_iff_eq.mpr (this.mp hc)]
        · have hc' : ¬ P'.canonOf t1' = P'.canonOf t2' := fun h => hc (this.mpr h)
          rw [beq_eq_false_iff_ne.mpr hc, beq_eq_false_iff_ne.mpr hc']
      | _ => simp [veq]
  | .fn f cs, _, _, _, h1, h2 => by
    cases h1 with
    | fn hf hcs =>
      cases h2 with
      | fn hf2 hcs2 =>
        simp only [veq]
        rw [veqList_rel hρ _ _ _ _ hcs hcs2, beq_of_inj hρ.inj_fn hf hf2]
      | _ => simp [veq]
theorem veqList_rel (hρ : IsRenaming ρ P P' e e') :
    ∀ (a a' b b' : List Val), RelVals ρ a a' → RelVals ρ b b' → veqList P a b = veqList P' a' b'
  | [], _, _, _, h1, h2 => by cases h1; cases h2 <;> simp [veqList]
  | x :: xs, _, _, _, h1, h2 => by
    cases h1 with
    | cons hx hxs =>
      cases h2 with
      | nil => simp [veqList]
      | cons hy hys =>
        simp only [veqList]
        rw [veq_rel hρ _ _ _ _ hx hy, veqList_rel hρ _ _ _ _ hxs hys]
end

theorem RelFrame.advance {fr fr' : Frame} (h : RelFrame ρ fr fr') : RelFrame ρ (advance fr) (advance fr') :=
  ⟨h.fn, h.base, h.caps, by simp [QM.Packaging.advance, h.pc]⟩

/-- Building a related `next` result. -/
theorem relNext {st st' lo lo' : List Val} {frs frs' : List Frame} {p : Bool}
    (hst : RelVals ρ st st') (hlo : RelVals ρ lo lo') (hfr : All2 (RelFrame ρ) frs frs') :
    RelRes ρ (.next { stack := st, locals := lo, frames := frs, persistent := p })
             (.next { stack := st', locals := lo', frames := frs', persistent := p }) :=
  .next ⟨hst, hlo, hfr, rfl⟩

theorem relCont {stk stk' lo lo' : List Val} {frs frs' : List Frame} {p : Bool} {fr fr' : Frame}
    {rest rest' : List Frame} {st st' : List Val}
    (hst : RelVals ρ st st') (hlo : RelVals ρ lo lo') (hfr : RelFrame ρ fr fr')
    (hrest : All2 (RelFrame ρ) rest rest') :
    RelRes ρ (cont { stack := stk, locals := lo, frames := frs, persistent := p } fr rest st)
             (cont { stack := stk', locals := lo', frames := frs', persistent := p } fr' rest' st') :=
  .next ⟨hst, hlo, .cons hfr.advance hrest, rfl⟩

/-- **One hot instruction commutes with the renaming.** -/
theorem exec_commutes (hρ : IsRenaming ρ P P' e e') {B B' : BuiltinSem} (hB : BuiltinsCommute ρ B B')
    {s s' : St} {fr fr' : Frame} {rest rest' : List Frame}
    (hs : RelSt ρ s s') (hfr : RelFrame ρ fr fr') (hrest : All2 (RelFrame ρ) rest rest')
    {i i' : Instr} (hi : renameInstr ρ i = some i')
    (hist : ∀ t t' v v' st, i = .isType t → ρ.type.get t = some t' → s.stack = v :: st → RelVal ρ v v' →
      P.isCompat t v.tag = P'.isCompat t' v'.tag) :
    RelRes ρ (exec P B s fr rest i) (exec P' B' s' fr' rest' i') := by
  obtain ⟨hstack, hlocals, hframes, hpers⟩ := hs
  rcases s with ⟨stk, lo, frs, pe⟩
  rcases s' with ⟨stk', lo', frs', pe'⟩
  simp only at hstack hlocals hframes hpers hist
  subst hpers
  have hnil := RelVal.nil hρ.nil_fixed
  have hok := RelVal.ok hρ.ok_fixed
  cases i with
  | const c =>
    simp only [renameInstr, Option.map_eq_some_iff] at hi
    obtain ⟨c', hc, rfl⟩ := hi
    obtain ⟨k, hk, hk'⟩ := hρ.consts c c' hc
    simp only [exec, hk, hk']
    cases k with
    | int z => exact relCont (.cons (.int z) hstack) hlocals hfr hrest
    | bin bs => exact relCont (.cons (.bin bs) hstack) hlocals hfr hrest
  | pop =>
    cases hi
    simp only [exec]
    cases hstack with
    | nil => exact .err _
    | cons _ hst => exact relCont hst hlocals hfr hrest
  | dup =>
    cases hi
    simp only [exec]
    cases hstack with
    | nil => exact .err _
    | cons hv hst => exact relCont (.cons hv (.cons hv hst)) hlocals hfr hrest
  | pick n =>
    cases hi
    simp only [exec]
    rcases hstack.get? n with ⟨h1, h2⟩ | ⟨a, b, h1, h2, hab⟩
    · rw [h1, h2]; exact .err _
    · rw [h1, h2]; exact relCont (.cons hab hstack) hlocals hfr hrest
  | rotate n =>
    cases hi
    simp only [exec, hstack.length_eq]
    split
    · exact .err _
    · cases n with
      | zero => exact .panic
      | succ k =>
        simp only
        rcases hstack.get? k with ⟨h1, h2⟩ | ⟨a, b, h1, h2, hab⟩
        · rw [h1, h2]; exact .err _
        · rw [h1, h2]; exact relCont (.cons hab (hstack.eraseIdx k)) hlocals hfr hrest
  | reset n =>
    cases hi
    simp only [exec, hlocals.length_eq, hfr.base]
    split
    · exact .err _
    · exact relNext hstack (hlocals.take _) (.cons hfr.advance hrest)
  | load n =>
    cases hi
    simp only [exec, hfr.base]
    rcases hlocals.get? (fr.base + n) with ⟨h1, h2⟩ | ⟨a, b, h1, h2, hab⟩
    · rw [h1, h2]; exact .err _
    · rw [h1, h2]; exact relCont (.cons hab hstack) hlocals hfr hrest
  | store =>
    cases hi
    simp only [exec]
    cases hstack with
    | nil => exact .err _
    | cons hv hst => exact relNext hst (hlocals.append (.cons hv .nil)) (.cons hfr.advance hrest)
  | tuple t =>
    simp only [renameInstr, Option.map_eq_some_iff] at hi
    obtain ⟨t', ht, rfl⟩ := hi
    obtain ⟨T, T', hT, hT', _, hlabels, _⟩ := hρ.tuples t t' ht
    have hlen : T'.fields.length = T.fields.length := by
      have := congrArg List.length hlabels
      simpa using this
    simp only [exec, hT, hT', hlen, hstack.length_eq]
    split
    · exact .err _
    · exact relCont (.cons (.tuple ht (hstack.take _).reverse) (hstack.drop _)) hlocals hfr hrest
  | get n =>
    cases hi
    simp only [exec]
    cases hstack with
    | nil => exact .err _
    | cons hv hst =>
      cases hv with
      | tuple ht hfs =>
        simp only
        rcases hfs.get? n with ⟨h1, h2⟩ | ⟨a, b, h1, h2, hab⟩
        · rw [h1, h2]; exact .err _
        · rw [h1, h2]; exact relCont (.cons hab hst) hlocals hfr hrest
      | _ => exact .err _
  | isType t =>
    simp only [renameInstr, Option.map_eq_some_iff] at hi
    obtain ⟨t', ht, rfl⟩ := hi
    cases hstack with
    | nil => exact .err _
    | cons hv hst =>
      rename_i v v' st st'
      simp only [exec]
      rw [← hist t t' v v' st rfl ht rfl hv]
      split
      · exact relCont (.cons hok hst) hlocals hfr hrest
      · exact relCont (.cons hnil hst) hlocals hfr hrest
  | jump off =>
    cases hi
    simp only [exec, hfr.pc]
    exact relNext hstack hlocals (.cons ⟨hfr.fn, hfr.base, hfr.caps, rfl⟩ hrest)
  | jumpIf off =>
    cases hi
    simp only [exec]
    cases hstack with
    | nil => exact .err _
    | cons hv hst =>
      simp only [hv.isNil hρ.nil_fixed hρ.inj_tuple, hfr.pc]
      split
      · exact relCont hst hlocals hfr hrest
      · exact relNext hst hlocals (.cons ⟨hfr.fn, hfr.base, hfr.caps, rfl⟩ hrest)
  | call =>
    cases hi
    simp only [exec]
    cases hstack with
    | nil => exact .err _
    | cons hv hst =>
      cases hv with
      | fn hf hcs =>
        rename_i f f' cs cs'
        obtain ⟨F, F', hF, hF', _⟩ := hρ.fns f f' hf
        simp only [hF, hF']
        cases hst with
        | nil => exact .err _
        | cons harg hst' =>
          refine relNext (.cons harg hst') (hlocals.append hcs) (.cons ?_ (.cons hfr hrest))
          exact ⟨hf, by simp [hlocals.length_eq], by simp [hcs.length_eq], rfl⟩
      | builtin hb =>
        rename_i b b'
        simp only
        cases hst with
        | nil => exact .err _
        | cons harg hst' =>
          obtain ⟨I, I', hI, hI', hname, _⟩ := hρ.builtins b b' hb
          simp only [hI, hI', hname]
          have hb := hB I.name _ _ harg
          generalize B I.name _ = r1 at hb ⊢
          generalize B' I.name _ = r2 at hb ⊢
          cases hb with
          | value hv => exact relCont (.cons hv hst') hlocals hfr hrest
          | err e => exact .err _
          | action => exact .yield ⟨.cons (.builtin hb) (.cons harg hst'), hlocals, hframes, rfl⟩ rfl
          | panic => exact .panic
      | int _ => exact .err _
      | bin _ => exact .err _
      | ref _ => exact .err _
      | tuple _ _ => exact .err _
      | proc _ _ => exact .err _
      | res _ _ => exact .err _
  | tailCall r =>
    cases hi
    cases r with
    | true =>
      simp only [exec]
      cases hstack with
      | nil => exact .err _
      | cons harg hst =>
        simp only [hfr.base, hfr.caps]
        exact relNext (.cons harg hst) (hlocals.take _) (.cons ⟨hfr.fn, rfl, rfl, rfl⟩ hrest)
    | false =>
      simp only [exec]
      cases hstack with
      | nil => exact .err _
      | cons hv hst =>
        cases hst with
        | nil => exact .err _
        | cons harg hst' =>
          cases hv with
          | fn hf hcs =>
            rename_i f f' cs cs'
            obtain ⟨F, F', hF, hF', _⟩ := hρ.fns f f' hf
            simp only [hF, hF', hfr.base]
            refine relNext (.cons harg hst') ((hlocals.take _).append hcs) (.cons ?_ hrest)
            exact ⟨hf, rfl, by simp [hcs.length_eq], rfl⟩
          | int _ => exact .err _
          | bin _ => exact .err _
          | ref _ => exact .err _
          | tuple _ _ => exact .err _
          | builtin _ => exact .err _
          | proc _ _ => exact .err _
          | res _ _ => exact .err _
  | function f =>
    simp only [renameInstr, Option.map_eq_some_iff] at hi
    obtain ⟨f', hf, rfl⟩ := hi
    obtain ⟨F, F', hF, hF', hcap, _⟩ := hρ.fns f f' hf
    simp only [exec, hF, hF', hcap, hstack.length_eq]
    split
    · exact .err _
    · exact relCont (.cons (.fn hf (hstack.take _).reverse) (hstack.drop _)) hlocals hfr hrest
  | builtin b =>
    simp only [renameInstr, Option.map_eq_some_iff] at hi
    obtain ⟨b', hb, rfl⟩ := hi
    obtain ⟨I, I', hI, hI', _⟩ := hρ.builtins b b' hb
    have h1 : b < P.builtins.size := by
      rcases Nat.lt_or_ge b P.builtins.size with h | h
      · exact h
      · rw [Array.getElem?_eq_none h] at hI; cases hI
    have h2 : b' < P'.builtins.size := by
      rcases Nat.lt_or_ge b' P'.builtins.size with h | h
      · exact h
      · rw [Array.getElem?_eq_none h] at hI'; cases hI'
    simp only [exec, h1, h2, if_true]
    exact relCont (.cons (.builtin hb) hstack) hlocals hfr hrest
  | equal n =>
    cases hi
    simp only [exec, hstack.length_eq]
    split
    · exact .err _
    · have hrev := (hstack.take n).reverse
      generalize (List.take n stk).reverse = l1 at hrev ⊢
      generalize (List.take n stk').reverse = l2 at hrev ⊢
      cases hrev with
      | nil => exact .panic
      | cons hfirst hothers =>
        simp only
        rw [hothers.all_eq (fun a b hab => veq_rel hρ _ _ _ _ hfirst hab)]
        split
        · exact relCont (.cons hfirst (hstack.drop _)) hlocals hfr hrest
        · exact relCont (.cons hnil (hstack.drop _)) hlocals hfr hrest
  | not =>
    cases hi
    simp only [exec]
    cases hstack with
    | nil => exact .err _
    | cons hv hst =>
      simp only [hv.isNil hρ.nil_fixed hρ.inj_tuple]
      split
      · exact relCont (.cons hok hst) hlocals hfr hrest
      · exact relCont (.cons hnil hst) hlocals hfr hrest
  | spawn => cases hi; exact .yield ⟨hstack, hlocals, hframes, rfl⟩ rfl
  | send => cases hi; exact .yield ⟨hstack, hlocals, hframes, rfl⟩ rfl
  | self => cases hi; exact .yield ⟨hstack, hlocals, hframes, rfl⟩ rfl
  | select => cases hi; exact .yield ⟨hstack, hlocals, hframes, rfl⟩ rfl
  | process pid f =>
    simp only [renameInstr, Option.map_eq_some_iff] at hi
    obtain ⟨f', hf, rfl⟩ := hi
    exact .yield ⟨hstack, hlocals, hframes, rfl⟩ (by simp [renameInstr, hf])

/-- Fetching the current instruction commutes with the renaming. -/
theorem fetch_rel (hρ : IsRenaming ρ P P' e e') {fr fr' : Frame} (hfr : RelFrame ρ fr fr') :
    (fetch P fr = none ∧ fetch P' fr' = none) ∨
    ∃ i i' F, P.fns[fr.fn]? = some F ∧ F.instrs[fr.pc]? = some i ∧ fetch P fr = some i ∧
      fetch P' fr' = some i' ∧ renameInstr ρ i = some i' := by
  obtain ⟨F, F', hF, hF', _, hinstrs, _⟩ := hρ.fns _ _ hfr.fn
  unfold fetch
  rw [hF, hF', hfr.pc]
  rcases mapOpt_get? hinstrs fr.pc with ⟨h1, h2⟩ | ⟨a, b, h1, h2, hab⟩
  · left; exact ⟨h1, h2⟩
  · right; exact ⟨a, b, F, rfl, h1, h1, h2, hab⟩

end QM.Packaging

