import QuiverModel.Core.Packaging.Merge
import QuiverModel.Lemmas.Packaging.Rel
/-
M-Packaging — `merge_bytecode`: memo-consistency of the deep type / tuple import (owner: C10).
-/
namespace QM.Packaging

def MergeSt.ren (st : MergeSt) : Ren := { type := st.tyMap, tuple := st.tuMap }

def ArrLe {α : Type} (a b : Array α) : Prop := ∀ (i : Nat) (x : α), a[i]? = some x → b[i]? = some x

theorem ArrLe.refl {α : Type} (a : Array α) : ArrLe a a := fun _ _ h => h
theorem ArrLe.trans {α : Type} {a b c : Array α} (h1 : ArrLe a b) (h2 : ArrLe b c) : ArrLe a c :=
  fun i x h => h2 i x (h1 i x h)

theorem ArrLe.push {α : Type} (a : Array α) (x : α) : ArrLe a (a.push x) := by
  intro i y h
  have hlt : i < a.size := by
    rcases Nat.lt_or_ge i a.size with h1 | h1
    · exact h1
    · rw [Array.getElem?_eq_none h1] at h; cases h
  rw [Array.getElem?_push]
  have : i ≠ a.size := Nat.ne_of_lt hlt
  simp [this, h]

theorem tyIndexOf?_spec {τ : Ty} : ∀ {l : List Ty} {i : Nat}, tyIndexOf? τ l = some i → l[i]? = some τ
  | [], _, h => by simp [tyIndexOf?] at h
  | c :: cs, i, h => by
    simp only [tyIndexOf?] at h
    split at h
    · rename_i hc
      cases h
      have : c = τ := by simpa using hc
      simp [this]
    · simp only [Option.map_eq_some_iff] at h
      obtain ⟨j, hj, rfl⟩ := h
      simpa using tyIndexOf?_spec hj

theorem tupIndexOf?_spec {T : TupleInfo} : ∀ {l : List TupleInfo} {i : Nat}, tupIndexOf? T l = some i → l[i]? = some T
  | [], _, h => by simp [tupIndexOf?] at h
  | c :: cs, i, h => by
    simp only [tupIndexOf?] at h
    split at h
    · rename_i hc
      cases h
      have : c = T := by simpa using hc
      simp [this]
    · simp only [Option.map_eq_some_iff] at h
      obtain ⟨j, hj, rfl⟩ := h
      simpa using tupIndexOf?_spec hj

theorem registerType_spec (P : Prog) (τ : Ty) :
    (P.registerType τ).1.types[(P.registerType τ).2]? = some τ ∧ ArrLe P.types (P.registerType τ).1.types ∧
      (P.registerType τ).1.tuples = P.tuples := by
  unfold Prog.registerType
  split
  · rename_i i hi
    have := tyIndexOf?_spec hi
    exact ⟨by simpa using this, ArrLe.refl _, rfl⟩
  · exact ⟨by simp, ArrLe.push _ _, rfl⟩

theorem registerTuple_spec (P : Prog) (T : TupleInfo) :
    (P.registerTuple T).1.tuples[(P.registerTuple T).2]? = some T ∧ ArrLe P.tuples (P.registerTuple T).1.tuples ∧
      (P.registerTuple T).1.types = P.types := by
  unfold Prog.registerTuple
  split
  · rename_i i hi
    have := tupIndexOf?_spec hi
    exact ⟨by simpa using this, ArrLe.refl _, rfl⟩
  · exact ⟨by simp, ArrLe.push _ _, rfl⟩

theorem get_cons_self (m : AMap) (k n : Nat) : AMap.get ((k, n) :: m) k = some n := by
  simp [AMap.get]

theorem get_cons_ne (m : AMap) {k a : Nat} (n : Nat) (h : k ≠ a) : AMap.get ((a, n) :: m) k = m.get k := by
  have : (k == a) = false := by simpa using h
  simp [AMap.get, List.lookup_cons, this]

theorem mem_keys_of_get : ∀ {m : AMap} {k n : Nat}, m.get k = some n → k ∈ m.map (·.1)
  | [], _, _, h => by simp [AMap.get] at h
  | (a, b) :: m, k, n, h => by
    by_cases hk : k = a
    · subst hk; simp
    · rw [get_cons_ne m b hk] at h
      exact List.mem_cons_of_mem _ (mem_keys_of_get h)


/-! ### the memo tables only grow at the front -/

def Suf (st st' : MergeSt) : Prop := st.tyMap <:+ st'.tyMap ∧ st.tuMap <:+ st'.tuMap

theorem Suf.refl (st : MergeSt) : Suf st st := ⟨List.suffix_refl _, List.suffix_refl _⟩
theorem Suf.trans {a b c : MergeSt} (h1 : Suf a b) (h2 : Suf b c) : Suf a c :=
  ⟨h1.1.trans h2.1, h1.2.trans h2.2⟩

mutual
theorem importType_suf (src : Prog) : ∀ (fuel old : Nat) (st st' : MergeSt) (n : Nat),
    importType false src fuel old st = some (st', n) → Suf st st'
  | 0, _, _, _, _, h => by simp [importType] at h
  | fuel + 1, old, st, st', n, h => by
    simp only [importType] at h
    cases hg : st.tyMap.get old with
    | some m =>
      rw [hg] at h
      simp only [Option.some.injEq, Prod.mk.injEq] at h
      obtain ⟨rfl, _⟩ := h
      exact Suf.refl _
    | none =>
      rw [hg] at h
      simp only at h
      cases hτ : src.types[old]? with
      | none => rw [hτ] at h; cases h
      | some τ =>
        rw [hτ] at h
        simp only [Bool.false_and, Bool.false_eq_true, if_false] at h
        cases hv : importTyValue false src fuel τ st with
        | none => rw [hv] at h; cases h
        | some r =>
          obtain ⟨st1, τ'⟩ := r
          rw [hv] at h
          simp only [Option.some.injEq, Prod.mk.injEq] at h
          obtain ⟨rfl, _⟩ := h
          have h1 := importTyValue_suf src fuel τ st st1 τ' hv
          exact ⟨h1.1.trans (List.suffix_cons _ _), h1.2⟩
theorem importTyValue_suf (src : Prog) : ∀ (fuel : Nat) (τ : Ty) (st st' : MergeSt) (τ' : Ty),
    importTyValue false src fuel τ st = some (st', τ') → Suf st st'
  | 0, _, _, _, _, h => by simp [importTyValue] at h
  | fuel + 1, τ, st, st', τ', h => by
    cases τ with
    | tuple id =>
      simp only [importTyValue, Option.map_eq_some_iff, Prod.mk.injEq] at h
      obtain ⟨r, hr, rfl, _⟩ := h
      exact importTuple_suf src fuel id st r.1 r.2 hr
    | part n fs =>
      simp only [importTyValue, Option.map_eq_some_iff, Prod.mk.injEq] at h
      obtain ⟨r, hr, rfl, _⟩ := h
      exact importTypes_suf src fuel _ st r.1 r.2 hr
    | union ids =>
      simp only [importTyValue, Option.map_eq_some_iff, Prod.mk.injEq] at h
      obtain ⟨r, hr, rfl, _⟩ := h
      exact importTypes_suf src fuel _ st r.1 r.2 hr
    | callable p r v =>
      simp only [importTyValue] at h
      split at h
      · rename_i st1 p' r' v' hr
        simp only [Option.some.injEq, Prod.mk.injEq] at h
        obtain ⟨rfl, _⟩ := h
        exact importTypes_suf src fuel _ st st1 _ hr
      · cases h
    | process s r =>
      simp only [importTyValue] at h
      split at h
      · cases h
      · rename_i st1 s' hs
        split at h
        · cases h
        · rename_i st2 r' hr
          simp only [Option.some.injEq, Prod.mk.injEq] at h
          obtain ⟨rfl, _⟩ := h
          have h1 : Suf st st1 := by
            cases s with
            | none => simp only [Option.some.injEq, Prod.mk.injEq] at hs; obtain ⟨rfl, _⟩ := hs; exact Suf.refl _
            | some t =>
              simp only [Option.map_eq_some_iff, Prod.mk.injEq] at hs
              obtain ⟨x, hx, rfl, _⟩ := hs
              exact importType_suf src fuel t st x.1 x.2 hx
          have h2 : Suf st1 st2 := by
            cases r with
            | none => simp only [Option.some.injEq, Prod.mk.injEq] at hr; obtain ⟨rfl, _⟩ := hr; exact Suf.refl _
            | some t =>
              simp only [Option.map_eq_some_iff, Prod.mk.injEq] at hr
              obtain ⟨x, hx, rfl, _⟩ := hr
              exact importType_suf src fuel t st1 x.1 x.2 hx
          exact h1.trans h2
    | int => simp only [importTyValue, Option.some.injEq, Prod.mk.injEq] at h; obtain ⟨rfl, _⟩ := h; exact Suf.refl _
    | bin => simp only [importTyValue, Option.some.injEq, Prod.mk.injEq] at h; obtain ⟨rfl, _⟩ := h; exact Suf.refl _
    | ref => simp only [importTyValue, Option.some.injEq, Prod.mk.injEq] at h; obtain ⟨rfl, _⟩ := h; exact Suf.refl _
    | cycle d => simp only [importTyValue, Option.some.injEq, Prod.mk.injEq] at h; obtain ⟨rfl, _⟩ := h; exact Suf.refl _
    | resource nm => simp only [importTyValue, Option.some.injEq, Prod.mk.injEq] at h; obtain ⟨rfl, _⟩ := h; exact Suf.refl _
    | var nm => simp only [importTyValue, Option.some.injEq, Prod.mk.injEq] at h; obtain ⟨rfl, _⟩ := h; exact Suf.refl _
theorem importTypes_suf (src : Prog) : ∀ (fuel : Nat) (ts : List Nat) (st st' : MergeSt) (ts' : List Nat),
    importTypes false src fuel ts st = some (st', ts') → Suf st st'
  | 0, _, _, _, _, h => by simp [importTypes] at h
  | fuel + 1, [], st, st', ts', h => by
    simp only [importTypes, Option.some.injEq, Prod.mk.injEq] at h
    obtain ⟨rfl, _⟩ := h
    exact Suf.refl _
  | fuel + 1, t :: ts, st, st', ts', h => by
    simp only [importTypes] at h
    cases h1 : importType false src fuel t st with
    | none => rw [h1] at h; cases h
    | some r1 =>
      obtain ⟨st1, t'⟩ := r1
      rw [h1] at h
      simp only at h
      cases h2 : importTypes false src fuel ts st1 with
      | none => rw [h2] at h; cases h
      | some r2 =>
        obtain ⟨st2, ts2⟩ := r2
        rw [h2] at h
        simp only [Option.some.injEq, Prod.mk.injEq] at h
        obtain ⟨rfl, _⟩ := h
        exact (importType_suf src fuel t st st1 t' h1).trans (importTypes_suf src fuel ts st1 st2 ts2 h2)
theorem importTuple_suf (src : Prog) : ∀ (fuel old : Nat) (st st' : MergeSt) (n : Nat),
    importTuple false src fuel old st = some (st', n) → Suf st st'
  | 0, _, _, _, _, h => by simp [importTuple] at h
  | fuel + 1, old, st, st', n, h => by
    simp only [importTuple] at h
    cases hg : st.tuMap.get old with
    | some m =>
      rw [hg] at h
      simp only [Option.some.injEq, Prod.mk.injEq] at h
      obtain ⟨rfl, _⟩ := h
      exact Suf.refl _
    | none =>
      rw [hg] at h
      simp only at h
      cases hT : src.tuples[old]? with
      | none => rw [hT] at h; cases h
      | some T =>
        rw [hT] at h
        simp only [Bool.false_and, Bool.false_eq_true, if_false] at h
        cases hv : importTypes false src fuel (T.fields.map (·.2)) st with
        | none => rw [hv] at h; cases h
        | some r =>
          obtain ⟨st1, ts'⟩ := r
          rw [hv] at h
          simp only [Option.some.injEq, Prod.mk.injEq] at h
          obtain ⟨rfl, _⟩ := h
          have h1 := importTypes_suf src fuel _ st st1 ts' hv
          exact ⟨h1.1, h1.2.trans (List.suffix_cons _ _)⟩
end


/-! ### memo-consistency -/

/-- no key is bound twice in the memo tables (decidable per instance on the final tables; holds whenever
    the source type graph is acyclic — recursion is only expressed by `Cycle` leaves) -/
def KN (st : MergeSt) : Prop := (st.tyMap.map (·.1)).Nodup ∧ (st.tuMap.map (·.1)).Nodup

theorem KN.of_suf {st st' : MergeSt} (h : Suf st st') (hk : KN st') : KN st :=
  ⟨List.Nodup.sublist (List.IsSuffix.sublist (List.IsSuffix.map _ h.1)) hk.1,
   List.Nodup.sublist (List.IsSuffix.sublist (List.IsSuffix.map _ h.2)) hk.2⟩

structure StLe (st st' : MergeSt) : Prop where
  ty : ∀ k n, st.tyMap.get k = some n → st'.tyMap.get k = some n
  tu : ∀ k n, st.tuMap.get k = some n → st'.tuMap.get k = some n
  types : ArrLe st.prog.types st'.prog.types
  tuples : ArrLe st.prog.tuples st'.prog.tuples

theorem StLe.refl (st : MergeSt) : StLe st st := ⟨fun _ _ h => h, fun _ _ h => h, ArrLe.refl _, ArrLe.refl _⟩
theorem StLe.trans {a b c : MergeSt} (h1 : StLe a b) (h2 : StLe b c) : StLe a c :=
  ⟨fun k n h => h2.ty k n (h1.ty k n h), fun k n h => h2.tu k n (h1.tu k n h), h1.types.trans h2.types,
   h1.tuples.trans h2.tuples⟩

theorem mapOpt_mono {α β : Type} {f g : α → Option β} (h : ∀ a b, f a = some b → g a = some b) :
    ∀ {l : List α} {l' : List β}, mapOpt f l = some l' → mapOpt g l = some l'
  | [], l', hl => by simpa [mapOpt] using hl
  | a :: as, l', hl => by
    simp only [mapOpt] at hl ⊢
    cases hfa : f a with
    | none => rw [hfa] at hl; cases hl
    | some b =>
      rw [hfa] at hl
      cases hr : mapOpt f as with
      | none => rw [hr] at hl; cases hl
      | some bs =>
        rw [hr] at hl
        rw [h a b hfa, mapOpt_mono h hr]
        exact hl

theorem renameTy_mono {ρ ρ' : Ren} (hty : ∀ k n, ρ.type.get k = some n → ρ'.type.get k = some n)
    (htu : ∀ k n, ρ.tuple.get k = some n → ρ'.tuple.get k = some n) {τ τ' : Ty} (h : renameTy ρ τ = some τ') :
    renameTy ρ' τ = some τ' := by
  cases τ with
  | tuple id =>
    simp only [renameTy, Option.map_eq_some_iff] at h ⊢
    obtain ⟨a, ha, rfl⟩ := h
    exact ⟨a, htu _ _ ha, rfl⟩
  | part n fs =>
    simp only [renameTy, Option.map_eq_some_iff] at h ⊢
    obtain ⟨a, ha, rfl⟩ := h
    refine ⟨a, mapOpt_mono (fun p b hb => ?_) ha, rfl⟩
    simp only [Option.map_eq_some_iff] at hb ⊢
    obtain ⟨t, ht, rfl⟩ := hb
    exact ⟨t, hty _ _ ht, rfl⟩
  | union ids =>
    simp only [renameTy, Option.map_eq_some_iff] at h ⊢
    obtain ⟨a, ha, rfl⟩ := h
    exact ⟨a, mapOpt_mono (fun k n hk => hty k n hk) ha, rfl⟩
  | callable p r v =>
    simp only [renameTy] at h ⊢
    split at h
    · rename_i p' r' v' hp hr hv
      rw [hty _ _ hp, hty _ _ hr, hty _ _ hv]
      exact h
    · cases h
  | process s r =>
    simp only [renameTy] at h ⊢
    split at h
    · rename_i s' r' hs hr
      have opt : ∀ (o : Option Nat) (o' : Option Nat), renameOptTy ρ o = some o' → renameOptTy ρ' o = some o' := by
        intro o o' ho
        cases o with
        | none => exact ho
        | some t =>
          simp only [renameOptTy, Option.map_eq_some_iff] at ho ⊢
          obtain ⟨a, ha, rfl⟩ := ho
          exact ⟨a, hty _ _ ha, rfl⟩
      rw [opt _ _ hs, opt _ _ hr]
      exact h
    · cases h
  | int => exact h
  | bin => exact h
  | ref => exact h
  | cycle d => exact h
  | resource nm => exact h
  | var nm => exact h

/-- every memo entry points at the image, under the CURRENT tables, of the source entry -/
structure MInv (src : Prog) (st : MergeSt) : Prop where
  ty : ∀ old n, st.tyMap.get old = some n → ∃ τ τ', src.types[old]? = some τ ∧ st.prog.types[n]? = some τ' ∧
    renameTy st.ren τ = some τ'
  tu : ∀ old n, st.tuMap.get old = some n → ∃ T T', src.tuples[old]? = some T ∧ st.prog.tuples[n]? = some T' ∧
    T'.name = T.name ∧ T'.fields.map (·.1) = T.fields.map (·.1) ∧
    mapOpt (fun (p : Option String × Nat) => st.tyMap.get p.2) T.fields = some (T'.fields.map (·.2))

theorem MInv.lift {src : Prog} {st st' : MergeSt} (h : MInv src st) (hle : StLe st st')
    (hty : ∀ old n, st'.tyMap.get old = some n → st.tyMap.get old = some n ∨
      ∃ τ τ', src.types[old]? = some τ ∧ st'.prog.types[n]? = some τ' ∧ renameTy st'.ren τ = some τ')
    (htu : ∀ old n, st'.tuMap.get old = some n → st.tuMap.get old = some n ∨
      ∃ T T', src.tuples[old]? = some T ∧ st'.prog.tuples[n]? = some T' ∧
        T'.name = T.name ∧ T'.fields.map (·.1) = T.fields.map (·.1) ∧
        mapOpt (fun (p : Option String × Nat) => st'.tyMap.get p.2) T.fields = some (T'.fields.map (·.2))) :
    MInv src st' := by
  refine ⟨fun old n hg => ?_, fun old n hg => ?_⟩
  · rcases hty old n hg with h0 | h1
    · obtain ⟨τ, τ', a, b, c⟩ := h.ty old n h0
      exact ⟨τ, τ', a, hle.types _ _ b, renameTy_mono (ρ := st.ren) (ρ' := st'.ren) hle.ty hle.tu c⟩
    · exact h1
  · rcases htu old n hg with h0 | h1
    · obtain ⟨T, T', a, b, c, d, e⟩ := h.tu old n h0
      exact ⟨T, T', a, hle.tuples _ _ b, c, d, mapOpt_mono (fun p b hb => hle.ty _ _ hb) e⟩
    · exact h1


theorem zip_fst {α β γ : Type} : ∀ (fs : List (α × β)) (ts : List γ), ts.length = fs.length →
    (List.zipWith (fun p t => (p.1, t)) fs ts).map (·.1) = fs.map (·.1)
  | [], [], _ => rfl
  | [], _ :: _, h => by simp at h
  | _ :: _, [], h => by simp at h
  | f :: fs, t :: ts, h => by
    simp only [List.zipWith_cons_cons, List.map_cons]
    rw [zip_fst fs ts (by simpa using h)]

theorem zip_snd {α β γ : Type} : ∀ (fs : List (α × β)) (ts : List γ), ts.length = fs.length →
    (List.zipWith (fun p t => (p.1, t)) fs ts).map (·.2) = ts
  | [], [], _ => rfl
  | [], _ :: _, h => by simp at h
  | _ :: _, [], h => by simp at h
  | f :: fs, t :: ts, h => by
    simp only [List.zipWith_cons_cons, List.map_cons]
    rw [zip_snd fs ts (by simpa using h)]

theorem mapOpt_part {α : Type} {g : Nat → Option Nat} : ∀ (fs : List (α × Nat)) (ts' : List Nat),
    mapOpt g (fs.map (·.2)) = some ts' →
    mapOpt (fun (p : α × Nat) => (g p.2).map (fun t => (p.1, t))) fs = some (List.zipWith (fun p t => (p.1, t)) fs ts')
  | [], ts', h => by
    simp only [List.map_nil, mapOpt, Option.some.injEq] at h
    subst h; rfl
  | f :: fs, ts', h => by
    simp only [List.map_cons, mapOpt] at h ⊢
    cases hg : g f.2 with
    | none => rw [hg] at h; cases h
    | some t =>
      rw [hg] at h
      cases hr : mapOpt g (fs.map (·.2)) with
      | none => rw [hr] at h; cases h
      | some ts =>
        rw [hr] at h
        simp only [Option.some.injEq] at h
        subst h
        rw [mapOpt_part fs ts hr]
        rfl

theorem mapOpt_map_snd {α : Type} {g : Nat → Option Nat} : ∀ (fs : List (α × Nat)) (ts' : List Nat),
    mapOpt g (fs.map (·.2)) = some ts' → mapOpt (fun (p : α × Nat) => g p.2) fs = some ts'
  | [], ts', h => by simpa [mapOpt] using h
  | f :: fs, ts', h => by
    simp only [List.map_cons, mapOpt] at h ⊢
    cases hg : g f.2 with
    | none => rw [hg] at h; cases h
    | some t =>
      rw [hg] at h
      cases hr : mapOpt g (fs.map (·.2)) with
      | none => rw [hr] at h; cases h
      | some ts =>
        rw [hr] at h
        rw [mapOpt_map_snd fs ts hr]
        exact h

mutual
theorem importType_spec (src : Prog) : ∀ (fuel old : Nat) (st st' : MergeSt) (n : Nat),
    importType false src fuel old st = some (st', n) → MInv src st → KN st' →
    MInv src st' ∧ StLe st st' ∧ st'.tyMap.get old = some n
  | 0, _, _, _, _, h, _, _ => by simp [importType] at h
  | fuel + 1, old, st, st', n, h, hI, hK => by
    simp only [importType] at h
    cases hg : st.tyMap.get old with
    | some m =>
      rw [hg] at h
      simp only [Option.some.injEq, Prod.mk.injEq] at h
      obtain ⟨rfl, rfl⟩ := h
      exact ⟨hI, StLe.refl _, hg⟩
    | none =>
      rw [hg] at h
      simp only at h
      cases hτ : src.types[old]? with
      | none => rw [hτ] at h; cases h
      | some τ =>
        rw [hτ] at h
        simp only [Bool.false_and, Bool.false_eq_true, if_false] at h
        cases hv : importTyValue false src fuel τ st with
        | none => rw [hv] at h; cases h
        | some r =>
          obtain ⟨st1, τ'⟩ := r
          rw [hv] at h
          simp only [Option.some.injEq, Prod.mk.injEq] at h
          obtain ⟨rfl, rfl⟩ := h
          have hnot : old ∉ st1.tyMap.map (·.1) := (List.nodup_cons.mp hK.1).1
          have hK1 : KN st1 := ⟨(List.nodup_cons.mp hK.1).2, hK.2⟩
          obtain ⟨hI1, hle1, hren⟩ := importTyValue_spec src fuel τ st st1 τ' hv hI hK1
          obtain ⟨hreg, hpre, htup⟩ := registerType_spec st1.prog τ'
          have hle2 : StLe st1 { st1 with prog := (st1.prog.registerType τ').1,
                                           tyMap := (old, (st1.prog.registerType τ').2) :: st1.tyMap } := by
            refine ⟨fun k m hk => ?_, fun _ _ hk => hk, hpre, ?_⟩
            · have hne : k ≠ old := fun he => hnot (he ▸ mem_keys_of_get hk)
              rw [get_cons_ne _ _ hne]; exact hk
            · show ArrLe st1.prog.tuples (st1.prog.registerType τ').1.tuples
              rw [htup]; exact ArrLe.refl _
          refine ⟨MInv.lift hI1 hle2 (fun k m hk => ?_) (fun k m hk => Or.inl hk), hle1.trans hle2, get_cons_self _ _ _⟩
          by_cases hko : k = old
          · subst hko
            rw [get_cons_self] at hk
            cases hk
            refine Or.inr ⟨τ, τ', hτ, hreg, ?_⟩
            refine renameTy_mono (ρ := st1.ren) ?_ ?_ hren
            · exact hle2.ty
            · exact hle2.tu
          · rw [get_cons_ne _ _ hko] at hk
            exact Or.inl hk
theorem importTyValue_spec (src : Prog) : ∀ (fuel : Nat) (τ : Ty) (st st' : MergeSt) (τ' : Ty),
    importTyValue false src fuel τ st = some (st', τ') → MInv src st → KN st' →
    MInv src st' ∧ StLe st st' ∧ renameTy st'.ren τ = some τ'
  | 0, _, _, _, _, h, _, _ => by simp [importTyValue] at h
  | fuel + 1, τ, st, st', τ', h, hI, hK => by
    cases τ with
    | tuple id =>
      simp only [importTyValue, Option.map_eq_some_iff, Prod.mk.injEq] at h
      obtain ⟨r, hr, rfl, rfl⟩ := h
      obtain ⟨a, b, c⟩ := importTuple_spec src fuel id st r.1 r.2 hr hI hK
      refine ⟨a, b, ?_⟩
      show (r.1.tuMap.get id).map Ty.tuple = some (Ty.tuple r.2)
      rw [c]; rfl
    | part n fs =>
      simp only [importTyValue, Option.map_eq_some_iff, Prod.mk.injEq] at h
      obtain ⟨r, hr, rfl, rfl⟩ := h
      obtain ⟨a, b, c⟩ := importTypes_spec src fuel _ st r.1 r.2 hr hI hK
      refine ⟨a, b, ?_⟩
      show (mapOpt (fun (p : String × Nat) => (r.1.tyMap.get p.2).map (fun t => (p.1, t))) fs).map (Ty.part n) = _
      rw [mapOpt_part fs r.2 c]; rfl
    | union ids =>
      simp only [importTyValue, Option.map_eq_some_iff, Prod.mk.injEq] at h
      obtain ⟨r, hr, rfl, rfl⟩ := h
      obtain ⟨a, b, c⟩ := importTypes_spec src fuel _ st r.1 r.2 hr hI hK
      refine ⟨a, b, ?_⟩
      show (mapOpt r.1.tyMap.get ids).map Ty.union = _
      rw [c]; rfl
    | callable p r v =>
      simp only [importTyValue] at h
      split at h
      · rename_i st1 p' r' v' hr
        simp only [Option.some.injEq, Prod.mk.injEq] at h
        obtain ⟨rfl, rfl⟩ := h
        obtain ⟨a, b, c⟩ := importTypes_spec src fuel _ st st1 _ hr hI hK
        refine ⟨a, b, ?_⟩
        have c' : mapOpt st1.tyMap.get [p, r, v] = some [p', r', v'] := c
        simp only [mapOpt] at c'
        cases hp : st1.tyMap.get p with
        | none => rw [hp] at c'; cases c'
        | some p2 =>
          cases hr2 : st1.tyMap.get r with
          | none => rw [hp, hr2] at c'; cases c'
          | some r2 =>
            cases hv2 : st1.tyMap.get v with
            | none => rw [hp, hr2, hv2] at c'; cases c'
            | some v2 =>
              rw [hp, hr2, hv2] at c'
              simp only [Option.some.injEq, List.cons.injEq, and_true] at c'
              obtain ⟨rfl, rfl, rfl⟩ := c'
              show (match st1.tyMap.get p, st1.tyMap.get r, st1.tyMap.get v with
                | some p', some r', some v' => some (Ty.callable p' r' v')
                | _, _, _ => none) = _
              rw [hp, hr2, hv2]
      · cases h
    | process s r =>
      simp only [importTyValue] at h
      split at h
      · cases h
      · rename_i st1 s' hs
        split at h
        · cases h
        · rename_i st2 r' hr
          simp only [Option.some.injEq, Prod.mk.injEq] at h
          obtain ⟨rfl, rfl⟩ := h
          -- the second call first (its result state is the final one), to get the key condition for the first
          have hsuf2 : Suf st1 st2 := by
            cases r with
            | none => simp only [Option.some.injEq, Prod.mk.injEq] at hr; obtain ⟨rfl, _⟩ := hr; exact Suf.refl _
            | some t =>
              simp only [Option.map_eq_some_iff, Prod.mk.injEq] at hr
              obtain ⟨x, hx, rfl, _⟩ := hr
              exact importType_suf src fuel t st1 x.1 x.2 hx
          have hK1 : KN st1 := KN.of_suf hsuf2 hK
          have h1 : MInv src st1 ∧ StLe st st1 ∧ renameOptTy st1.ren s = some s' := by
            cases s with
            | none =>
              simp only [Option.some.injEq, Prod.mk.injEq] at hs
              obtain ⟨rfl, rfl⟩ := hs
              exact ⟨hI, StLe.refl _, rfl⟩
            | some t =>
              simp only [Option.map_eq_some_iff, Prod.mk.injEq] at hs
              obtain ⟨x, hx, rfl, rfl⟩ := hs
              obtain ⟨a, b, c⟩ := importType_spec src fuel t st x.1 x.2 hx hI hK1
              refine ⟨a, b, ?_⟩
              show (x.1.tyMap.get t).map some = _
              rw [c]; rfl
          obtain ⟨hI1, hle1, hs1⟩ := h1
          have h2 : MInv src st2 ∧ StLe st1 st2 ∧ renameOptTy st2.ren r = some r' := by
            cases r with
            | none =>
              simp only [Option.some.injEq, Prod.mk.injEq] at hr
              obtain ⟨rfl, rfl⟩ := hr
              exact ⟨hI1, StLe.refl _, rfl⟩
            | some t =>
              simp only [Option.map_eq_some_iff, Prod.mk.injEq] at hr
              obtain ⟨x, hx, rfl, rfl⟩ := hr
              obtain ⟨a, b, c⟩ := importType_spec src fuel t st1 x.1 x.2 hx hI1 hK
              refine ⟨a, b, ?_⟩
              show (x.1.tyMap.get t).map some = _
              rw [c]; rfl
          obtain ⟨hI2, hle2, hr2⟩ := h2
          refine ⟨hI2, hle1.trans hle2, ?_⟩
          have hs2 : renameOptTy st2.ren s = some s' := by
            cases s with
            | none => exact hs1
            | some t =>
              simp only [renameOptTy, Option.map_eq_some_iff] at hs1 ⊢
              obtain ⟨a, ha, rfl⟩ := hs1
              exact ⟨a, hle2.ty _ _ ha, rfl⟩
          simp only [renameTy, hs2, hr2]
    | int =>
      simp only [importTyValue, Option.some.injEq, Prod.mk.injEq] at h
      obtain ⟨rfl, rfl⟩ := h
      exact ⟨hI, StLe.refl _, rfl⟩
    | bin =>
      simp only [importTyValue, Option.some.injEq, Prod.mk.injEq] at h
      obtain ⟨rfl, rfl⟩ := h
      exact ⟨hI, StLe.refl _, rfl⟩
    | ref =>
      simp only [importTyValue, Option.some.injEq, Prod.mk.injEq] at h
      obtain ⟨rfl, rfl⟩ := h
      exact ⟨hI, StLe.refl _, rfl⟩
    | cycle d =>
      simp only [importTyValue, Option.some.injEq, Prod.mk.injEq] at h
      obtain ⟨rfl, rfl⟩ := h
      exact ⟨hI, StLe.refl _, rfl⟩
    | resource nm =>
      simp only [importTyValue, Option.some.injEq, Prod.mk.injEq] at h
      obtain ⟨rfl, rfl⟩ := h
      exact ⟨hI, StLe.refl _, rfl⟩
    | var nm =>
      simp only [importTyValue, Option.some.injEq, Prod.mk.injEq] at h
      obtain ⟨rfl, rfl⟩ := h
      exact ⟨hI, StLe.refl _, rfl⟩
theorem importTypes_spec (src : Prog) : ∀ (fuel : Nat) (ts : List Nat) (st st' : MergeSt) (ts' : List Nat),
    importTypes false src fuel ts st = some (st', ts') → MInv src st → KN st' →
    MInv src st' ∧ StLe st st' ∧ mapOpt st'.tyMap.get ts = some ts'
  | 0, _, _, _, _, h, _, _ => by simp [importTypes] at h
  | fuel + 1, [], st, st', ts', h, hI, _ => by
    simp only [importTypes, Option.some.injEq, Prod.mk.injEq] at h
    obtain ⟨rfl, rfl⟩ := h
    exact ⟨hI, StLe.refl _, rfl⟩
  | fuel + 1, t :: ts, st, st', ts', h, hI, hK => by
    simp only [importTypes] at h
    cases h1 : importType false src fuel t st with
    | none => rw [h1] at h; cases h
    | some r1 =>
      obtain ⟨st1, t'⟩ := r1
      rw [h1] at h
      simp only at h
      cases h2 : importTypes false src fuel ts st1 with
      | none => rw [h2] at h; cases h
      | some r2 =>
        obtain ⟨st2, ts2⟩ := r2
        rw [h2] at h
        simp only [Option.some.injEq, Prod.mk.injEq] at h
        obtain ⟨rfl, rfl⟩ := h
        have hK1 : KN st1 := KN.of_suf (importTypes_suf src fuel ts st1 st2 ts2 h2) hK
        obtain ⟨hI1, hle1, hg1⟩ := importType_spec src fuel t st st1 t' h1 hI hK1
        obtain ⟨hI2, hle2, hm2⟩ := importTypes_spec src fuel ts st1 st2 ts2 h2 hI1 hK
        refine ⟨hI2, hle1.trans hle2, ?_⟩
        simp only [mapOpt, hle2.ty _ _ hg1, hm2]
theorem importTuple_spec (src : Prog) : ∀ (fuel old : Nat) (st st' : MergeSt) (n : Nat),
    importTuple false src fuel old st = some (st', n) → MInv src st → KN st' →
    MInv src st' ∧ StLe st st' ∧ st'.tuMap.get old = some n
  | 0, _, _, _, _, h, _, _ => by simp [importTuple] at h
  | fuel + 1, old, st, st', n, h, hI, hK => by
    simp only [importTuple] at h
    cases hg : st.tuMap.get old with
    | some m =>
      rw [hg] at h
      simp only [Option.some.injEq, Prod.mk.injEq] at h
      obtain ⟨rfl, rfl⟩ := h
      exact ⟨hI, StLe.refl _, hg⟩
    | none =>
      rw [hg] at h
      simp only at h
      cases hT : src.tuples[old]? with
      | none => rw [hT] at h; cases h
      | some T =>
        rw [hT] at h
        simp only [Bool.false_and, Bool.false_eq_true, if_false] at h
        cases hv : importTypes false src fuel (T.fields.map (·.2)) st with
        | none => rw [hv] at h; cases h
        | some r =>
          obtain ⟨st1, ts'⟩ := r
          rw [hv] at h
          simp only [Option.some.injEq, Prod.mk.injEq] at h
          obtain ⟨rfl, rfl⟩ := h
          have hnot : old ∉ st1.tuMap.map (·.1) := (List.nodup_cons.mp hK.2).1
          have hK1 : KN st1 := ⟨hK.1, (List.nodup_cons.mp hK.2).2⟩
          obtain ⟨hI1, hle1, hm⟩ := importTypes_spec src fuel _ st st1 ts' hv hI hK1
          have hlen : ts'.length = T.fields.length := by
            have := mapOpt_length hm
            simpa using this
          let T' : TupleInfo := { name := T.name, fields := List.zipWith (fun p t => (p.1, t)) T.fields ts' }
          obtain ⟨hreg, hpre, hty⟩ := registerTuple_spec st1.prog T'
          have hle2 : StLe st1 { st1 with prog := (st1.prog.registerTuple T').1,
                                           tuMap := (old, (st1.prog.registerTuple T').2) :: st1.tuMap } := by
            refine ⟨fun _ _ hk => hk, fun k m hk => ?_, ?_, hpre⟩
            · have hne : k ≠ old := fun he => hnot (he ▸ mem_keys_of_get hk)
              rw [get_cons_ne _ _ hne]; exact hk
            · show ArrLe st1.prog.types (st1.prog.registerTuple T').1.types
              rw [hty]; exact ArrLe.refl _
          refine ⟨MInv.lift hI1 hle2 (fun k m hk => Or.inl hk) (fun k m hk => ?_), hle1.trans hle2, get_cons_self _ _ _⟩
          by_cases hko : k = old
          · subst hko
            rw [get_cons_self] at hk
            cases hk
            refine Or.inr ⟨T, T', hT, hreg, rfl, zip_fst _ _ hlen, ?_⟩
            show mapOpt (fun (p : Option String × Nat) => st1.tyMap.get p.2) T.fields = some (T'.fields.map (·.2))
            rw [zip_snd _ _ hlen]
            exact mapOpt_map_snd _ _ hm
          · rw [get_cons_ne _ _ hko] at hk
            exact Or.inl hk
end


/-! ### the two import loops and `merge_bytecode` -/

theorem importAllTypes_suf (src : Prog) : ∀ (ts : List Nat) (st st' : MergeSt),
    importAllTypes false src ts st = some st' → Suf st st'
  | [], st, st', h => by
    simp only [importAllTypes, Option.some.injEq] at h; subst h; exact Suf.refl _
  | t :: ts, st, st', h => by
    simp only [importAllTypes] at h
    cases h1 : importType false src (importFuel src) t st with
    | none => rw [h1] at h; cases h
    | some r =>
      obtain ⟨st1, n⟩ := r
      rw [h1] at h
      exact (importType_suf src _ t st st1 n h1).trans (importAllTypes_suf src ts st1 st' h)

theorem importAllTuples_suf (src : Prog) : ∀ (ts : List Nat) (st st' : MergeSt),
    importAllTuples false src ts st = some st' → Suf st st'
  | [], st, st', h => by
    simp only [importAllTuples, Option.some.injEq] at h; subst h; exact Suf.refl _
  | t :: ts, st, st', h => by
    simp only [importAllTuples] at h
    cases h1 : importTuple false src (importFuel src) t st with
    | none => rw [h1] at h; cases h
    | some r =>
      obtain ⟨st1, n⟩ := r
      rw [h1] at h
      exact (importTuple_suf src _ t st st1 n h1).trans (importAllTuples_suf src ts st1 st' h)

theorem importAllTypes_spec (src : Prog) : ∀ (ts : List Nat) (st st' : MergeSt),
    importAllTypes false src ts st = some st' → MInv src st → KN st' →
    MInv src st' ∧ StLe st st' ∧ ∀ t ∈ ts, ∃ n, st'.tyMap.get t = some n
  | [], st, st', h, hI, _ => by
    simp only [importAllTypes, Option.some.injEq] at h; subst h
    exact ⟨hI, StLe.refl _, fun _ h => by cases h⟩
  | t :: ts, st, st', h, hI, hK => by
    simp only [importAllTypes] at h
    cases h1 : importType false src (importFuel src) t st with
    | none => rw [h1] at h; cases h
    | some r =>
      obtain ⟨st1, n⟩ := r
      rw [h1] at h
      simp only at h
      have hK1 : KN st1 := KN.of_suf (importAllTypes_suf src ts st1 st' h) hK
      obtain ⟨hI1, hle1, hg1⟩ := importType_spec src _ t st st1 n h1 hI hK1
      obtain ⟨hI2, hle2, hall⟩ := importAllTypes_spec src ts st1 st' h hI1 hK
      refine ⟨hI2, hle1.trans hle2, fun x hx => ?_⟩
      rcases List.mem_cons.mp hx with rfl | hx
      · exact ⟨n, hle2.ty _ _ hg1⟩
      · exact hall x hx

theorem importAllTuples_spec (src : Prog) : ∀ (ts : List Nat) (st st' : MergeSt),
    importAllTuples false src ts st = some st' → MInv src st → KN st' →
    MInv src st' ∧ StLe st st' ∧ ∀ t ∈ ts, ∃ n, st'.tuMap.get t = some n
  | [], st, st', h, hI, _ => by
    simp only [importAllTuples, Option.some.injEq] at h; subst h
    exact ⟨hI, StLe.refl _, fun _ h => by cases h⟩
  | t :: ts, st, st', h, hI, hK => by
    simp only [importAllTuples] at h
    cases h1 : importTuple false src (importFuel src) t st with
    | none => rw [h1] at h; cases h
    | some r =>
      obtain ⟨st1, n⟩ := r
      rw [h1] at h
      simp only at h
      have hK1 : KN st1 := KN.of_suf (importAllTuples_suf src ts st1 st' h) hK
      obtain ⟨hI1, hle1, hg1⟩ := importTuple_spec src _ t st st1 n h1 hI hK1
      obtain ⟨hI2, hle2, hall⟩ := importAllTuples_spec src ts st1 st' h hI1 hK
      refine ⟨hI2, hle1.trans hle2, fun x hx => ?_⟩
      rcases List.mem_cons.mp hx with rfl | hx
      · exact ⟨n, hle2.tu _ _ hg1⟩
      · exact hall x hx

theorem registerBuiltin_tables (P : Prog) (B : BuiltinInfo) :
    (P.registerBuiltin B).1.types = P.types ∧ (P.registerBuiltin B).1.tuples = P.tuples := by
  unfold Prog.registerBuiltin
  split <;> exact ⟨rfl, rfl⟩

theorem registerFn_tables (P : Prog) (F : Fn) :
    (P.registerFn F).1.types = P.types ∧ (P.registerFn F).1.tuples = P.tuples := by
  unfold Prog.registerFn
  split <;> exact ⟨rfl, rfl⟩

theorem mergeBuiltins_tables (ym : AMap) : ∀ (bs : List BuiltinInfo) (i : Nat) (P : Prog) (m : AMap),
    (mergeBuiltins ym bs i P m).1.types = P.types ∧ (mergeBuiltins ym bs i P m).1.tuples = P.tuples
  | [], _, _, _ => ⟨rfl, rfl⟩
  | B :: bs, i, P, m => by
    simp only [mergeBuiltins]
    obtain ⟨a, b⟩ := mergeBuiltins_tables ym bs (i + 1) (P.registerBuiltin _).1 ((i, (P.registerBuiltin _).2) :: m)
    obtain ⟨c, d⟩ := registerBuiltin_tables P
      { name := B.name, paramType := getOr ym B.paramType, resultType := getOr ym B.resultType }
    exact ⟨a.trans c, b.trans d⟩

theorem mergeFns_tables (cm tm ym bm : AMap) : ∀ (fs : List Fn) (i : Nat) (P : Prog) (fm : AMap),
    (mergeFns cm tm ym bm fs i P fm).1.types = P.types ∧ (mergeFns cm tm ym bm fs i P fm).1.tuples = P.tuples
  | [], _, _, _ => ⟨rfl, rfl⟩
  | F :: fs, i, P, fm => by
    simp only [mergeFns]
    obtain ⟨a, b⟩ := mergeFns_tables cm tm ym bm fs (i + 1) (P.registerFn _).1 ((i, (P.registerFn _).2) :: fm)
    obtain ⟨c, d⟩ := registerFn_tables P
      { instrs := F.instrs.map (mergeInstr cm fm tm ym bm), captures := F.captures, typeId := getOr ym F.typeId }
    exact ⟨a.trans c, b.trans d⟩

/-- **Memo-consistency of the deep import under the FINAL remap tables** — the `types` and `tuples`
    clauses of `IsRenaming` for `merge_bytecode`, for every environment and every incoming program: each
    source type / tuple id is mapped, and its image in the merged program is the entry renamed through the
    final tables. Hypothesis: no id is bound twice in the final `type_remap` / `tuple_remap` (decidable per
    instance; it holds whenever the import terminates on an acyclic type graph — a re-binding means an id
    was imported again while its own children were being imported). -/
theorem merge_types_tuples {env src : Prog} {e : Nat} {out : MergeOut}
    (h : mergeBytecodeWith false env src e = some out)
    (hk : (out.ren.type.map (·.1)).Nodup ∧ (out.ren.tuple.map (·.1)).Nodup) :
    (∀ t t', out.ren.type.get t = some t' → ∃ τ τ', src.types[t]? = some τ ∧ out.prog.types[t']? = some τ' ∧
      renameTy out.ren τ = some τ') ∧
    (∀ u u', out.ren.tuple.get u = some u' → ∃ T T', src.tuples[u]? = some T ∧ out.prog.tuples[u']? = some T' ∧
      T'.name = T.name ∧ T'.fields.map (·.1) = T.fields.map (·.1) ∧
      mapOpt (fun (p : Option String × Nat) => out.ren.type.get p.2) T.fields = some (T'.fields.map (·.2))) ∧
    (∀ t, t < src.types.size → ∃ t', out.ren.type.get t = some t') ∧
    (∀ u, u < src.tuples.size → ∃ u', out.ren.tuple.get u = some u') := by
  unfold mergeBytecodeWith at h
  simp only at h
  split at h
  · cases h
  · rename_i st1 h1
    split at h
    · cases h
    · rename_i st2 h2
      split at h
      · cases h
      · rename_i e' he'
        simp only [Option.some.injEq] at h
        subst h
        simp only at hk ⊢
        have hK2 : KN st2 := hk
        have hK1 : KN st1 := KN.of_suf (importAllTuples_suf src _ st1 st2 h2) hK2
        have hI0 : MInv src { prog := (mergeConsts src.consts.toList 0 env []).1 } :=
          ⟨fun _ _ hg => by simp [AMap.get] at hg, fun _ _ hg => by simp [AMap.get] at hg⟩
        obtain ⟨hI1, _, hall1⟩ := importAllTypes_spec src _ _ st1 h1 hI0 hK1
        obtain ⟨hI2, hle2, hall2⟩ := importAllTuples_spec src _ st1 st2 h2 hI1 hK2
        obtain ⟨hbt, hbu⟩ := mergeBuiltins_tables st2.tyMap src.builtins.toList 0 st2.prog []
        obtain ⟨hft, hfu⟩ := mergeFns_tables (mergeConsts src.consts.toList 0 env []).2 st2.tuMap st2.tyMap
          (mergeBuiltins st2.tyMap src.builtins.toList 0 st2.prog []).2 src.fns.toList 0
          (mergeBuiltins st2.tyMap src.builtins.toList 0 st2.prog []).1 []
        refine ⟨fun t t' hg => ?_, fun u u' hg => ?_, fun t ht => ?_, fun u hu => ?_⟩
        · obtain ⟨τ, τ', a, b, c⟩ := hI2.ty t t' hg
          refine ⟨τ, τ', a, ?_, ?_⟩
          · rw [hft, hbt]; exact b
          · exact renameTy_mono (ρ := st2.ren) (fun _ _ h => h) (fun _ _ h => h) c
        · obtain ⟨T, T', a, b, c, d, f⟩ := hI2.tu u u' hg
          refine ⟨T, T', a, ?_, c, d, f⟩
          rw [hfu, hbu]; exact b
        · obtain ⟨n, hn⟩ := hall1 t (List.mem_range.mpr ht)
          exact ⟨n, hle2.ty _ _ hn⟩
        · exact hall2 u (List.mem_range.mpr hu)

end QM.Packaging
