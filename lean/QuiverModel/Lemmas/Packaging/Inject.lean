import QuiverModel.Lemmas.Packaging.ValueInstrs
/-
Capture injection is behaviour-preserving: a simulation between a run whose bottom frame executes the
closure's function `f` (captures in the frame's first locals, `pc`) and a run whose bottom frame
executes the injected function `g = prelude ++ body of f` (no captures, `pc + prelude.length`).
Everything else — stack, locals, the frames above — is *identical* in the two runs; the only
instruction that sees the difference is `TailCall(true)`, after which the `g` run re-executes the
prelude (a stutter of `prelude.length` steps). (Owner: C10.)
-/
namespace QM.Packaging

/-! ### Locals that keep a prefix -/

/-- `lo'` still has the first `bound` entries of `lo`. -/
def KeepsPrefix (bound : Nat) (lo lo' : List Val) : Prop := lo'.take bound = lo.take bound ∧ bound ≤ lo'.length

theorem KeepsPrefix.refl {bound : Nat} {lo : List Val} (h : bound ≤ lo.length) : KeepsPrefix bound lo lo := ⟨rfl, h⟩

theorem KeepsPrefix.append {bound : Nat} {lo : List Val} (h : bound ≤ lo.length) (xs : List Val) :
    KeepsPrefix bound lo (lo ++ xs) :=
  ⟨List.take_append_of_le_length h, by simp; omega⟩

theorem KeepsPrefix.take {bound m : Nat} {lo : List Val} (h : bound ≤ lo.length) (hm : bound ≤ m) :
    KeepsPrefix bound lo (lo.take m) := by
  refine ⟨?_, by simp [List.length_take]; omega⟩
  rw [List.take_take]; congr 1; omega

theorem KeepsPrefix.take_append {bound m : Nat} {lo : List Val} (h : bound ≤ lo.length) (hm : bound ≤ m)
    (xs : List Val) : KeepsPrefix bound lo (lo.take m ++ xs) := by
  have h1 := KeepsPrefix.take h hm
  refine ⟨?_, by simp [List.length_take]; omega⟩
  rw [List.take_append_of_le_length h1.2]; exact h1.1

theorem KeepsPrefix.trans {bound : Nat} {a b c : List Val} (h1 : KeepsPrefix bound a b)
    (h2 : KeepsPrefix bound b c) : KeepsPrefix bound a c := ⟨h2.1.trans h1.1, h2.2⟩

/-! ### An instruction of an upper frame does not look at the frames below it -/

/-- Results of the same instruction executed above two different lists `r`, `r'` of lower frames. -/
inductive ExecRel (bound : Nat) (lo : List Val) (s s' : St) (r r' : List Frame) : Res → Res → Prop where
  | next1 {stk lo' : List Val} {a : Frame} {pe : Bool} : bound ≤ a.base → KeepsPrefix bound lo lo' →
      ExecRel bound lo s s' r r' (.next ⟨stk, lo', a :: r, pe⟩) (.next ⟨stk, lo', a :: r', pe⟩)
  | next2 {stk lo' : List Val} {a b : Frame} {pe : Bool} : bound ≤ a.base → bound ≤ b.base →
      KeepsPrefix bound lo lo' →
      ExecRel bound lo s s' r r' (.next ⟨stk, lo', a :: b :: r, pe⟩) (.next ⟨stk, lo', a :: b :: r', pe⟩)
  | err (e : ErrClass) : ExecRel bound lo s s' r r' (.err e) (.err e)
  | panic : ExecRel bound lo s s' r r' .panic .panic
  | yield (i : Instr) : ExecRel bound lo s s' r r' (.yield s i) (.yield s' i)

theorem exec_rest (Q : Prog) (B : BuiltinSem) (stk lo : List Val) (pe : Bool) (u : Frame)
    (r r' : List Frame) (i : Instr) (bound : Nat) (hub : bound ≤ u.base) (hlo : bound ≤ lo.length) :
    ExecRel bound lo ⟨stk, lo, u :: r, pe⟩ ⟨stk, lo, u :: r', pe⟩ r r'
      (exec Q B ⟨stk, lo, u :: r, pe⟩ u r i) (exec Q B ⟨stk, lo, u :: r', pe⟩ u r' i) := by
  have hk := KeepsPrefix.refl hlo
  have hadv : bound ≤ (advance u).base := hub
  cases i with
  | const c =>
    simp only [exec, cont]
    cases Q.consts[c]? with
    | none => exact .err _
    | some k => cases k <;> exact .next1 hadv hk
  | pop =>
    simp only [exec, cont]
    cases stk with
    | nil => exact .err _
    | cons v st => exact .next1 hadv hk
  | dup =>
    simp only [exec, cont]
    cases stk with
    | nil => exact .err _
    | cons v st => exact .next1 hadv hk
  | pick n =>
    simp only [exec, cont]
    cases stk[n]? with
    | none => exact .err _
    | some v => exact .next1 hadv hk
  | rotate n =>
    simp only [exec, cont]
    split
    · exact .err _
    · cases n with
      | zero => exact .panic
      | succ m =>
        simp only
        cases stk[m]? with
        | none => exact .err _
        | some v => exact .next1 hadv hk
  | reset n =>
    simp only [exec]
    split
    · exact .err _
    · exact .next1 hadv (KeepsPrefix.take hlo (by omega))
  | load n =>
    simp only [exec, cont]
    cases lo[u.base + n]? with
    | none => exact .err _
    | some v => exact .next1 hadv hk
  | store =>
    simp only [exec]
    cases stk with
    | nil => exact .err _
    | cons v st => exact .next1 hadv (KeepsPrefix.append hlo _)
  | tuple t =>
    simp only [exec, cont]
    cases Q.tuples[t]? with
    | none => exact .err _
    | some T =>
      simp only
      split
      · exact .err _
      · exact .next1 hadv hk
  | get n =>
    simp only [exec, cont]
    cases stk with
    | nil => exact .err _
    | cons v st =>
      cases v with
      | tuple t fs =>
        simp only
        cases fs[n]? with
        | none => exact .err _
        | some w => exact .next1 hadv hk
      | _ => exact .err _
  | isType t =>
    simp only [exec, cont]
    cases stk with
    | nil => exact .err _
    | cons v st => exact .next1 hadv hk
  | jump off =>
    simp only [exec]
    exact .next1 hub hk
  | jumpIf off =>
    simp only [exec, cont]
    cases stk with
    | nil => exact .err _
    | cons c st =>
      simp only
      split
      · exact .next1 hadv hk
      · exact .next1 hub hk
  | call =>
    simp only [exec, cont]
    cases stk with
    | nil => exact .err _
    | cons v st =>
      cases v with
      | fn f caps =>
        simp only
        cases Q.fns[f]? with
        | none => exact .err _
        | some F =>
          simp only
          cases st with
          | nil => exact .err _
          | cons arg st' => exact .next2 hlo hub (KeepsPrefix.append hlo _)
      | builtin b =>
        simp only
        cases st with
        | nil => exact .err _
        | cons arg st' =>
          simp only
          cases Q.builtins[b]? with
          | none => exact .err _
          | some info =>
            simp only
            cases B info.name arg with
            | value v => exact .next1 hadv hk
            | err e => exact .err _
            | action => exact .yield _
            | panic => exact .panic
      | _ => exact .err _
  | tailCall rc =>
    cases rc with
    | true =>
      simp only [exec]
      cases stk with
      | nil => exact .err _
      | cons arg st => exact .next1 hub (KeepsPrefix.take hlo (by omega))
    | false =>
      simp only [exec]
      cases stk with
      | nil => exact .err _
      | cons fv st =>
        cases st with
        | nil => exact .err _
        | cons arg st' =>
          cases fv with
          | fn f caps =>
            simp only
            cases Q.fns[f]? with
            | none => exact .err _
            | some F => exact .next1 hub (KeepsPrefix.take_append hlo hub _)
          | _ => exact .err _
  | function f =>
    simp only [exec, cont]
    cases Q.fns[f]? with
    | none => exact .err _
    | some F =>
      simp only
      split
      · exact .err _
      · exact .next1 hadv hk
  | builtin b =>
    simp only [exec, cont]
    split
    · exact .next1 hadv hk
    · exact .err _
  | equal n =>
    simp only [exec, cont]
    split
    · exact .err _
    · cases (stk.take n).reverse with
      | nil => exact .panic
      | cons first others => exact .next1 hadv hk
  | not =>
    simp only [exec, cont]
    cases stk with
    | nil => exact .err _
    | cons v st => exact .next1 hadv hk
  | spawn => exact .yield _
  | send => exact .yield _
  | self => exact .yield _
  | select => exact .yield _
  | process pid f => exact .yield _


/-! ### The bottom frame: `f` at `pc` versus `g` at `pc + k` -/

theorem jumpTarget_shift {pc k : Nat} {off : Int} (h0 : 0 ≤ (pc : Int) + off + 1)
    (h1 : (pc : Int) + off + 1 + k < 2 ^ 64) : jumpTarget (pc + k) off = jumpTarget pc off + k := by
  unfold jumpTarget
  have e1 : ((pc : Int) + off + 1) % (2 ^ 64 : Int) = (pc : Int) + off + 1 :=
    Int.emod_eq_of_lt h0 (by omega)
  have e2 : (((pc + k : Nat) : Int) + off + 1) % (2 ^ 64 : Int) = (pc : Int) + off + 1 + k := by
    have : ((pc + k : Nat) : Int) + off + 1 = (pc : Int) + off + 1 + k := by
      rw [Int.natCast_add]; omega
    rw [this]
    exact Int.emod_eq_of_lt (by omega) h1
  rw [e1, e2]; omega

/-- Results of one instruction in the bottom frame of the two runs. -/
inductive BotRel (f g k n b0 pc : Nat) (lo : List Val) (s s' : St) : Res → Res → Prop where
  | adv {stk lo' : List Val} {pe : Bool} {pcf pcg : Nat} : pcg = pcf + k → KeepsPrefix (b0 + n) lo lo' →
      BotRel f g k n b0 pc lo s s' (.next ⟨stk, lo', [⟨f, b0, n, pcf⟩], pe⟩) (.next ⟨stk, lo', [⟨g, b0, 0, pcg⟩], pe⟩)
  | call {stk lo' : List Val} {a : Frame} {pe : Bool} : b0 + n ≤ a.base → KeepsPrefix (b0 + n) lo lo' →
      BotRel f g k n b0 pc lo s s' (.next ⟨stk, lo', [a, ⟨f, b0, n, pc⟩], pe⟩)
        (.next ⟨stk, lo', [a, ⟨g, b0, 0, pc + k⟩], pe⟩)
  | same (t : St) : BotRel f g k n b0 pc lo s s' (.next t) (.next t)
  | recur (stk : List Val) (pe : Bool) :
      BotRel f g k n b0 pc lo s s' (.next ⟨stk, lo.take (b0 + n), [⟨f, b0, n, 0⟩], pe⟩)
        (.next ⟨stk, lo.take b0, [⟨g, b0, 0, 0⟩], pe⟩)
  | err (e : ErrClass) : BotRel f g k n b0 pc lo s s' (.err e) (.err e)
  | panic : BotRel f g k n b0 pc lo s s' .panic .panic
  | yield (i : Instr) : BotRel f g k n b0 pc lo s s' (.yield s i) (.yield s' i)

theorem exec_bottom (Q : Prog) (B : BuiltinSem) (f g k n b0 pc : Nat) (stk lo : List Val) (pe : Bool)
    (i : Instr)
    (hjump : ∀ off, (i = .jump off ∨ i = .jumpIf off) →
      0 ≤ (pc : Int) + off + 1 ∧ (pc : Int) + off + 1 + k < 2 ^ 64)
    (hreset : ∀ m, i = .reset m → n ≤ m) (hlo : b0 + n ≤ lo.length) :
    BotRel f g k n b0 pc lo ⟨stk, lo, [⟨f, b0, n, pc⟩], pe⟩ ⟨stk, lo, [⟨g, b0, 0, pc + k⟩], pe⟩
      (exec Q B ⟨stk, lo, [⟨f, b0, n, pc⟩], pe⟩ ⟨f, b0, n, pc⟩ [] i)
      (exec Q B ⟨stk, lo, [⟨g, b0, 0, pc + k⟩], pe⟩ ⟨g, b0, 0, pc + k⟩ [] i) := by
  have hk := KeepsPrefix.refl hlo
  have hpc : pc + k + 1 = pc + 1 + k := by omega
  cases i with
  | const c =>
    simp only [exec, cont, advance]
    cases Q.consts[c]? with
    | none => exact .err _
    | some kk => cases kk <;> exact .adv hpc hk
  | pop =>
    simp only [exec, cont, advance]
    cases stk with
    | nil => exact .err _
    | cons v st => exact .adv hpc hk
  | dup =>
    simp only [exec, cont, advance]
    cases stk with
    | nil => exact .err _
    | cons v st => exact .adv hpc hk
  | pick m =>
    simp only [exec, cont, advance]
    cases stk[m]? with
    | none => exact .err _
    | some v => exact .adv hpc hk
  | rotate m =>
    simp only [exec, cont, advance]
    split
    · exact .err _
    · cases m with
      | zero => exact .panic
      | succ j =>
        simp only
        cases stk[j]? with
        | none => exact .err _
        | some v => exact .adv hpc hk
  | reset m =>
    simp only [exec, advance]
    split
    · exact .err _
    · exact .adv hpc (KeepsPrefix.take hlo (by have := hreset m rfl; omega))
  | load m =>
    simp only [exec, cont, advance]
    cases lo[b0 + m]? with
    | none => exact .err _
    | some v => exact .adv hpc hk
  | store =>
    simp only [exec, advance]
    cases stk with
    | nil => exact .err _
    | cons v st => exact .adv hpc (KeepsPrefix.append hlo _)
  | tuple t =>
    simp only [exec, cont, advance]
    cases Q.tuples[t]? with
    | none => exact .err _
    | some T =>
      simp only
      split
      · exact .err _
      · exact .adv hpc hk
  | get m =>
    simp only [exec, cont, advance]
    cases stk with
    | nil => exact .err _
    | cons v st =>
      cases v with
      | tuple t fs =>
        simp only
        cases fs[m]? with
        | none => exact .err _
        | some w => exact .adv hpc hk
      | _ => exact .err _
  | isType t =>
    simp only [exec, cont, advance]
    cases stk with
    | nil => exact .err _
    | cons v st => exact .adv hpc hk
  | jump off =>
    simp only [exec]
    obtain ⟨h0, h1⟩ := hjump off (Or.inl rfl)
    exact .adv (jumpTarget_shift h0 h1) hk
  | jumpIf off =>
    simp only [exec, cont, advance]
    obtain ⟨h0, h1⟩ := hjump off (Or.inr rfl)
    cases stk with
    | nil => exact .err _
    | cons c st =>
      simp only
      split
      · exact .adv hpc hk
      · exact .adv (jumpTarget_shift h0 h1) hk
  | call =>
    simp only [exec, cont, advance]
    cases stk with
    | nil => exact .err _
    | cons v st =>
      cases v with
      | fn f' caps =>
        simp only
        cases Q.fns[f']? with
        | none => exact .err _
        | some F' =>
          simp only
          cases st with
          | nil => exact .err _
          | cons arg st' => exact .call hlo (KeepsPrefix.append hlo _)
      | builtin b =>
        simp only
        cases st with
        | nil => exact .err _
        | cons arg st' =>
          simp only
          cases Q.builtins[b]? with
          | none => exact .err _
          | some info =>
            simp only
            cases B info.name arg with
            | value v => exact .adv hpc hk
            | err e => exact .err _
            | action => exact .yield _
            | panic => exact .panic
      | _ => exact .err _
  | tailCall rc =>
    cases rc with
    | true =>
      simp only [exec]
      cases stk with
      | nil => exact .err _
      | cons arg st => exact .recur _ _
    | false =>
      simp only [exec]
      cases stk with
      | nil => exact .err _
      | cons fv st =>
        cases st with
        | nil => exact .err _
        | cons arg st' =>
          cases fv with
          | fn f' caps =>
            simp only
            cases Q.fns[f']? with
            | none => exact .err _
            | some F' => exact .same _
          | _ => exact .err _
  | function f' =>
    simp only [exec, cont, advance]
    cases Q.fns[f']? with
    | none => exact .err _
    | some F' =>
      simp only
      split
      · exact .err _
      · exact .adv hpc hk
  | builtin b =>
    simp only [exec, cont, advance]
    split
    · exact .adv hpc hk
    · exact .err _
  | equal m =>
    simp only [exec, cont, advance]
    split
    · exact .err _
    · cases (stk.take m).reverse with
      | nil => exact .panic
      | cons first others => exact .adv hpc hk
  | not =>
    simp only [exec, cont, advance]
    cases stk with
    | nil => exact .err _
    | cons v st => exact .adv hpc hk
  | spawn => exact .yield _
  | send => exact .yield _
  | self => exact .yield _
  | select => exact .yield _
  | process pid f' => exact .yield _


/-! ### The simulation -/

/-- What the simulation needs to know about `f`, `g` and the program. -/
structure InjSetup (Q : Prog) (B : BuiltinSem) (f g k n : Nat) (capsV : List Val) (F : Fn) (pre : List Instr) :
    Prop where
  hF : Q.fns[f]? = some F
  hG : Q.fns[g]? = some { instrs := pre ++ F.instrs, captures := 0, typeId := F.typeId }
  hk : pre.length = k
  hn : capsV.length = n
  /-- the prelude stores the captures (`injectCaptures_prelude`) -/
  prelude : ∀ (S L : List Val) (base : Nat) (rest : List Frame) (pers : Bool),
    Steps Q B ⟨S, L, ⟨g, base, 0, 0⟩ :: rest, pers⟩ ⟨S, L ++ capsV, ⟨g, base, 0, k⟩ :: rest, pers⟩
  /-- every jump of `f` stays inside the function (what C07's checker certifies for compiled code) -/
  jumps : ∀ (pc : Nat) (off : Int), (F.instrs[pc]? = some (.jump off) ∨ F.instrs[pc]? = some (.jumpIf off)) →
    0 ≤ (pc : Int) + off + 1 ∧ (pc : Int) + off + 1 + k < 2 ^ 64
  /-- `f` never resets its locals below its captures -/
  resets : ∀ (pc m : Nat), F.instrs[pc]? = some (.reset m) → n ≤ m

/-- The two runs: equal stacks, locals, flags; frames equal, or equal above a bottom frame that is
    `f@pc` in one and `g@pc+k` in the other, with the captures in place. -/
structure InjRel (f g k n b0 : Nat) (capsV : List Val) (s s' : St) : Prop where
  stack : s'.stack = s.stack
  locals : s'.locals = s.locals
  pers : s'.persistent = s.persistent
  frames : s'.frames = s.frames ∨
    ∃ (upper : List Frame) (pc : Nat), s.frames = upper ++ [⟨f, b0, n, pc⟩] ∧
      s'.frames = upper ++ [⟨g, b0, 0, pc + k⟩] ∧ (∀ fr ∈ upper, b0 + n ≤ fr.base) ∧
      b0 + n ≤ s.locals.length ∧ (s.locals.drop b0).take n = capsV

theorem InjRel.rfl' {f g k n b0 : Nat} {capsV : List Val} (s : St) : InjRel f g k n b0 capsV s s :=
  ⟨rfl, rfl, rfl, Or.inl rfl⟩

/-- the captures stay in place when the locals keep their first `b0 + n` entries -/
theorem caps_kept {b0 n : Nat} {lo lo' : List Val} (h : KeepsPrefix (b0 + n) lo lo') :
    (lo'.drop b0).take n = (lo.drop b0).take n := by
  have h1 : lo'.take (b0 + n) = lo.take (b0 + n) := h.1
  have hlen := congrArg List.length h1
  simp only [List.length_take] at hlen
  have h2 := h.2
  have hl : (lo'.take b0).length = (lo.take b0).length := by
    simp only [List.length_take]; omega
  rw [List.take_add, List.take_add] at h1
  exact List.append_inj_right h1 hl

inductive SimOut (Q : Prog) (B : BuiltinSem) (Rr : St → St → Prop) (s' : St) : Res → Prop where
  | next {t t' : St} : Steps Q B s' t' → Rr t t' → SimOut Q B Rr s' (.next t)
  | err (e : ErrClass) : step Q B s' = .err e → SimOut Q B Rr s' (.err e)
  | panic : step Q B s' = .panic → SimOut Q B Rr s' .panic
  | yield {t t' : St} (i : Instr) : step Q B s' = .yield t' i → Rr t t' → SimOut Q B Rr s' (.yield t i)
  | done (v : Val) : step Q B s' = .done v → SimOut Q B Rr s' (.done v)

theorem simOut_refl (Q : Prog) (B : BuiltinSem) {f g k n b0 : Nat} {capsV : List Val} (s : St) :
    SimOut Q B (InjRel f g k n b0 capsV) s (step Q B s) := by
  cases h : step Q B s with
  | next t => exact .next (Steps.single h) (InjRel.rfl' t)
  | err e => exact .err e h
  | panic => exact .panic h
  | yield t i => exact .yield i h (InjRel.rfl' t)
  | done v => exact .done v h

theorem fetch_g {Q : Prog} {B : BuiltinSem} {f g k n : Nat} {capsV : List Val} {F : Fn} {pre : List Instr}
    (hs : InjSetup Q B f g k n capsV F pre) (b0 c pc : Nat) :
    fetch Q ⟨g, b0, c, pc + k⟩ = fetch Q ⟨f, b0, n, pc⟩ := by
  simp only [fetch, hs.hF, hs.hG]
  rw [List.getElem?_append_right (by rw [hs.hk]; omega)]
  congr 1
  rw [hs.hk]; omega

/-- **One step of the `f` run is matched by one step (or `1 + k` steps after `TailCall(true)`) of
    the `g` run.** -/
theorem inj_sim_step {Q : Prog} {B : BuiltinSem} {f g k n b0 : Nat} {capsV : List Val} {F : Fn}
    {pre : List Instr} (hs : InjSetup Q B f g k n capsV F pre) {s s' : St}
    (hR : InjRel f g k n b0 capsV s s') : SimOut Q B (InjRel f g k n b0 capsV) s' (step Q B s) := by
  obtain ⟨hst, hlo, hpe, hfr⟩ := hR
  rcases s with ⟨stk0, lo0, frs, pe0⟩
  rcases s' with ⟨stk, lo, frs', pe⟩
  simp only at hst hlo hpe hfr
  subst hst hlo hpe
  rcases hfr with hfr | ⟨upper, pc, hf1, hf2, hup, hlen, hcaps⟩
  · subst hfr
    exact simOut_refl Q B _
  · subst hf1 hf2
    cases upper with
    | nil =>
      -- the bottom frame is current
      simp only [List.nil_append]
      have hfetch := fetch_g (B := B) hs b0 0 pc
      simp only [step]
      cases hi : fetch Q ⟨f, b0, n, pc⟩ with
      | none =>
        simp only [List.isEmpty_nil, Bool.not_true, Bool.or_false]
        exact .next (Steps.single (by simp [step, hfetch, hi])) ⟨rfl, rfl, rfl, Or.inl rfl⟩
      | some i =>
        simp only
        have hFi : F.instrs[pc]? = some i := by simpa [fetch, hs.hF] using hi
        have hb := exec_bottom Q B f g k n b0 pc stk lo pe i
          (fun off ho => hs.jumps pc off (by rcases ho with h | h <;> simp [hFi, h]))
          (fun m hm => hs.resets pc m (by simp [hFi, hm])) hlen
        have hstep' : step Q B ⟨stk, lo, [⟨g, b0, 0, pc + k⟩], pe⟩ =
            exec Q B ⟨stk, lo, [⟨g, b0, 0, pc + k⟩], pe⟩ ⟨g, b0, 0, pc + k⟩ [] i := by
          simp [step, hfetch, hi]
        generalize exec Q B ⟨stk, lo, [⟨f, b0, n, pc⟩], pe⟩ ⟨f, b0, n, pc⟩ [] i = r1 at hb
        generalize exec Q B ⟨stk, lo, [⟨g, b0, 0, pc + k⟩], pe⟩ ⟨g, b0, 0, pc + k⟩ [] i = r2 at hb hstep'
        cases hb with
        | adv hpc hkp =>
          rename_i stk2 lo2 pe2 pcf pcg
          refine .next (Steps.single hstep') ⟨rfl, rfl, rfl, Or.inr ⟨[], pcf, rfl, ?_, ?_, hkp.2, ?_⟩⟩
          · simp [hpc]
          · intro fr hfr; cases hfr
          · rw [caps_kept hkp]; exact hcaps
        | call hab hkp =>
          rename_i stk2 lo2 a pe2
          refine .next (Steps.single hstep') ⟨rfl, rfl, rfl, Or.inr ⟨[a], pc, rfl, rfl, ?_, hkp.2, ?_⟩⟩
          · intro fr hfr
            have : fr = a := by simpa using hfr
            subst this; exact hab
          · rw [caps_kept hkp]; exact hcaps
        | same t => exact .next (Steps.single hstep') (InjRel.rfl' t)
        | recur stk2 pe2 =>
          -- `TailCall(true)`: the `g` run re-executes the prelude
          have hpre := hs.prelude stk2 (lo.take b0) b0 [] pe2
          have hlocals : lo.take b0 ++ capsV = lo.take (b0 + n) := by
            rw [List.take_add, hcaps]
          rw [hlocals] at hpre
          refine .next ((Steps.single hstep').trans hpre) ⟨rfl, rfl, rfl, Or.inr ⟨[], 0, rfl, ?_, ?_, ?_, ?_⟩⟩
          · simp
          · intro fr hfr; cases hfr
          · simp [List.length_take]; omega
          · have hkp : KeepsPrefix (b0 + n) lo (lo.take (b0 + n)) := KeepsPrefix.take hlen (Nat.le_refl _)
            rw [caps_kept hkp]; exact hcaps
        | err e => exact .err e hstep'
        | panic => exact .panic hstep'
        | yield j => exact .yield j hstep' ⟨rfl, rfl, rfl, Or.inr ⟨[], pc, rfl, rfl, (by intro fr hfr; cases hfr), hlen, hcaps⟩⟩
    | cons u us =>
      -- an upper frame is current: identical instruction, different frames below
      have hub : b0 + n ≤ u.base := hup u (List.mem_cons_self ..)
      simp only [List.cons_append]
      simp only [step]
      cases hi : fetch Q u with
      | none =>
        -- frame exit: the frame below is advanced
        have hkp : KeepsPrefix (b0 + n) lo (lo.take u.base) := KeepsPrefix.take hlen hub
        cases us with
        | nil =>
          simp only [List.nil_append, List.isEmpty_cons, Bool.not_false, Bool.or_true, if_true]
          have hstep' : step Q B ⟨stk, lo, [u, ⟨g, b0, 0, pc + k⟩], pe⟩ =
              .next ⟨stk, lo.take u.base, [advance ⟨g, b0, 0, pc + k⟩], pe⟩ := by
            simp [step, hi]
          refine .next (Steps.single hstep') ⟨rfl, rfl, rfl, Or.inr ⟨[], pc + 1, rfl, ?_, ?_, hkp.2, ?_⟩⟩
          · simp [advance]; omega
          · intro fr hfr; cases hfr
          · rw [caps_kept hkp]; exact hcaps
        | cons u2 us2 =>
          simp only [List.cons_append, List.isEmpty_cons, Bool.not_false, Bool.or_true, if_true]
          have hstep' : step Q B ⟨stk, lo, u :: u2 :: (us2 ++ [⟨g, b0, 0, pc + k⟩]), pe⟩ =
              .next ⟨stk, lo.take u.base, advance u2 :: (us2 ++ [⟨g, b0, 0, pc + k⟩]), pe⟩ := by
            simp [step, hi]
          refine .next (Steps.single hstep') ⟨rfl, rfl, rfl,
            Or.inr ⟨advance u2 :: us2, pc, rfl, rfl, ?_, hkp.2, ?_⟩⟩
          · intro fr hfr
            rcases List.mem_cons.mp hfr with h | h
            · subst h; exact hup u2 (by simp)
            · exact hup fr (by simp [h])
          · rw [caps_kept hkp]; exact hcaps
      | some i =>
        simp only
        have he := exec_rest Q B stk lo pe u (us ++ [⟨f, b0, n, pc⟩]) (us ++ [⟨g, b0, 0, pc + k⟩]) i (b0 + n) hub hlen
        have hstep' : step Q B ⟨stk, lo, u :: (us ++ [⟨g, b0, 0, pc + k⟩]), pe⟩ =
            exec Q B ⟨stk, lo, u :: (us ++ [⟨g, b0, 0, pc + k⟩]), pe⟩ u (us ++ [⟨g, b0, 0, pc + k⟩]) i := by
          simp [step, hi]
        generalize exec Q B ⟨stk, lo, u :: (us ++ [⟨f, b0, n, pc⟩]), pe⟩ u (us ++ [⟨f, b0, n, pc⟩]) i = r1 at he
        generalize exec Q B ⟨stk, lo, u :: (us ++ [⟨g, b0, 0, pc + k⟩]), pe⟩ u (us ++ [⟨g, b0, 0, pc + k⟩]) i = r2
          at he hstep'
        have hus : ∀ fr ∈ us, b0 + n ≤ fr.base := fun fr hfr => hup fr (List.mem_cons_of_mem _ hfr)
        cases he with
        | next1 ha hkp =>
          rename_i stk2 lo2 a pe2
          refine .next (Steps.single hstep') ⟨rfl, rfl, rfl, Or.inr ⟨a :: us, pc, rfl, rfl, ?_, hkp.2, ?_⟩⟩
          · intro fr hfr
            rcases List.mem_cons.mp hfr with h | h
            · subst h; exact ha
            · exact hus fr h
          · rw [caps_kept hkp]; exact hcaps
        | next2 ha hb hkp =>
          rename_i stk2 lo2 a b pe2
          refine .next (Steps.single hstep') ⟨rfl, rfl, rfl, Or.inr ⟨a :: b :: us, pc, rfl, rfl, ?_, hkp.2, ?_⟩⟩
          · intro fr hfr
            rcases List.mem_cons.mp hfr with h | h
            · subst h; exact ha
            · rcases List.mem_cons.mp h with h | h
              · subst h; exact hb
              · exact hus fr h
          · rw [caps_kept hkp]; exact hcaps
        | err e => exact .err e hstep'
        | panic => exact .panic hstep'
        | yield j =>
          exact .yield j hstep' ⟨rfl, rfl, rfl, Or.inr ⟨u :: us, pc, rfl, rfl, hup, hlen, hcaps⟩⟩

/-! ### From steps to fuelled runs -/

theorem run_mono_steps {Q : Prog} {B : BuiltinSem} {s t : St} (h : Steps Q B s t) :
    ∀ {fuel : Nat} {r : Res}, run Q B fuel t = some r → ∃ fuel', run Q B fuel' s = some r := by
  induction h with
  | refl s => intro fuel r hr; exact ⟨fuel, hr⟩
  | cons hstep _ ih =>
    intro fuel r hr
    obtain ⟨fuel', hf⟩ := ih hr
    exact ⟨fuel' + 1, by simp [run, hstep, hf]⟩

inductive InjResRel (Rr : St → St → Prop) : Res → Res → Prop where
  | next {t t'} : Rr t t' → InjResRel Rr (.next t) (.next t')
  | err (e) : InjResRel Rr (.err e) (.err e)
  | panic : InjResRel Rr .panic .panic
  | yield {t t'} (i) : Rr t t' → InjResRel Rr (.yield t i) (.yield t' i)
  | done (v) : InjResRel Rr (.done v) (.done v)

/-- **Whatever the `f` run ends with, the `g` run ends with the same** (value, error class, panic; a
    yield with an `InjRel`-related state), possibly needing more fuel. -/
theorem inj_sim_run {Q : Prog} {B : BuiltinSem} {f g k n b0 : Nat} {capsV : List Val} {F : Fn}
    {pre : List Instr} (hs : InjSetup Q B f g k n capsV F pre) :
    ∀ (fuel : Nat) {s s' : St} {r : Res}, InjRel f g k n b0 capsV s s' → run Q B fuel s = some r →
      ∃ fuel' r', run Q B fuel' s' = some r' ∧ InjResRel (InjRel f g k n b0 capsV) r r'
  | 0, _, _, _, _, h => by simp [run] at h
  | fuel + 1, s, s', r, hR, h => by
    have hsim := inj_sim_step hs hR
    simp only [run] at h
    cases hstep : step Q B s with
    | next t =>
      rw [hstep] at h hsim
      cases hsim with
      | next hsteps hRt =>
        obtain ⟨fuel', r', hrun, hrel⟩ := inj_sim_run hs fuel hRt h
        obtain ⟨fuel'', hrun'⟩ := run_mono_steps hsteps hrun
        exact ⟨fuel'', r', hrun', hrel⟩
    | err e =>
      rw [hstep] at h hsim; cases h
      cases hsim with
      | err _ h' => exact ⟨1, _, by simp [run, h'], .err _⟩
    | panic =>
      rw [hstep] at h hsim; cases h
      cases hsim with
      | panic h' => exact ⟨1, _, by simp [run, h'], .panic⟩
    | yield t i =>
      rw [hstep] at h hsim; cases h
      cases hsim with
      | yield _ h' hRt => exact ⟨1, _, by simp [run, h'], .yield _ hRt⟩
    | done v =>
      rw [hstep] at h hsim; cases h
      cases hsim with
      | done _ h' => exact ⟨1, _, by simp [run, h'], .done _⟩

end QM.Packaging
