import QuiverModel.Lemmas.Packaging.ReachTransfer
namespace QM.Packaging

/-! ### a second sweep is the identity -/

theorem strict_sorted_ext : ∀ {l1 l2 : List Nat}, l1.Pairwise (· < ·) → l2.Pairwise (· < ·) →
    (∀ a, a ∈ l1 ↔ a ∈ l2) → l1 = l2
  | [], [], _, _, _ => rfl
  | [], b :: bs, _, _, h => by have := (h b).mpr (List.mem_cons_self ..); cases this
  | a :: as, [], _, _, h => by have := (h a).mp (List.mem_cons_self ..); cases this
  | a :: as, b :: bs, h1, h2, h => by
    obtain ⟨ha, has⟩ := List.pairwise_cons.mp h1
    obtain ⟨hb, hbs⟩ := List.pairwise_cons.mp h2
    have hab : a = b := by
      have m1 : a ∈ b :: bs := (h a).mp (List.mem_cons_self ..)
      have m2 : b ∈ a :: as := (h b).mpr (List.mem_cons_self ..)
      rcases List.mem_cons.mp m1 with h1' | h1'
      · exact h1'
      · rcases List.mem_cons.mp m2 with h2' | h2'
        · exact h2'.symm
        · have := hb a h1'
          have := ha b h2'
          omega
    subst hab
    have htail : ∀ x, x ∈ as ↔ x ∈ bs := by
      intro x
      constructor
      · intro hx
        have := (h x).mp (List.mem_cons_of_mem _ hx)
        rcases List.mem_cons.mp this with h' | h'
        · have := ha x hx; omega
        · exact h'
      · intro hx
        have := (h x).mpr (List.mem_cons_of_mem _ hx)
        rcases List.mem_cons.mp this with h' | h'
        · have := hb x hx; omega
        · exact h'
    rw [strict_sorted_ext has hbs htail]

theorem sorted_eq_range {s : List Nat} {n : Nat} (hs : s.Pairwise (· ≤ ·)) (hn : s.Nodup)
    (hmem : ∀ x, x ∈ s ↔ x < n) : s = List.range n := by
  have hlt : s.Pairwise (· < ·) := by
    have := List.Pairwise.and hs hn
    exact this.imp (fun ⟨a, b⟩ => Nat.lt_of_le_of_ne a b)
  exact strict_sorted_ext hlt List.pairwise_lt_range (fun a => by rw [hmem, List.mem_range])

theorem rankMap_range_get {n i j : Nat} (h : (rankMap (List.range n)).get i = some j) : j = i := by
  have h1 := rankMap_get h
  obtain ⟨hl, hx⟩ := List.getElem?_eq_some_iff.mp h1
  simpa using hx

theorem rankMap_range_get_lt {n i : Nat} (h : i < n) : (rankMap (List.range n)).get i = some i := by
  obtain ⟨j, hj⟩ := rankMap_get_of_mem (List.mem_range.mpr h)
  rw [rankMap_range_get hj] at hj; exact hj

theorem getAll_range {α : Type} (a : Array α) : getAll a (List.range a.size) = some a.toList := by
  have gen : ∀ (l : List α) (k : Nat), (∀ j x, l[j]? = some x → a[k + j]? = some x) →
      getAll a ((List.range' k l.length)) = some l := by
    intro l
    induction l with
    | nil => intro k _; rfl
    | cons x xs ih =>
      intro k hk
      simp only [List.length_cons, List.range'_succ, getAll]
      have h0 : a[k]? = some x := by simpa using hk 0 x (by simp)
      rw [h0, ih (k + 1) (fun j y hj => by
        have := hk (j + 1) y (by simpa using hj)
        rw [show k + 1 + j = k + (j + 1) by omega]; exact this)]
  have := gen a.toList 0 (fun j x hj => by simpa using hj)
  simpa [List.range_eq_range'] using this


def IdMap (m : AMap) : Prop := ∀ i j, m.get i = some j → j = i

theorem orSelf_id {m : AMap} (h : IdMap m) (i : Nat) : orSelf m i = i := by
  unfold orSelf
  cases hg : m.get i with
  | none => rfl
  | some j => simp [h i j hg]

theorem mapOpt_id {α : Type} {f : α → Option α} (h : ∀ a a', f a = some a' → a' = a) :
    ∀ {l l' : List α}, mapOpt f l = some l' → l' = l
  | [], l', hl => by simpa [mapOpt] using hl.symm
  | a :: as, l', hl => by
    simp only [mapOpt] at hl
    cases hfa : f a with
    | none => rw [hfa] at hl; cases hl
    | some b =>
      rw [hfa] at hl
      cases hr : mapOpt f as with
      | none => rw [hr] at hl; cases hl
      | some bs =>
        rw [hr] at hl
        simp only [Option.some.injEq] at hl
        subst hl
        rw [h a b hfa, mapOpt_id h hr]

theorem renameInstr_id {ρ : Ren} (hc : IdMap ρ.const) (hf : IdMap ρ.fn) (ht : IdMap ρ.tuple) (hy : IdMap ρ.type)
    (hb : IdMap ρ.builtin) {a a' : Instr} (h : renameInstr ρ a = some a') : a' = a := by
  cases a with
  | const i => simp only [renameInstr, Option.map_eq_some_iff] at h; obtain ⟨j, hj, rfl⟩ := h; rw [hc i j hj]
  | tuple i => simp only [renameInstr, Option.map_eq_some_iff] at h; obtain ⟨j, hj, rfl⟩ := h; rw [ht i j hj]
  | isType i => simp only [renameInstr, Option.map_eq_some_iff] at h; obtain ⟨j, hj, rfl⟩ := h; rw [hy i j hj]
  | function i => simp only [renameInstr, Option.map_eq_some_iff] at h; obtain ⟨j, hj, rfl⟩ := h; rw [hf i j hj]
  | builtin i => simp only [renameInstr, Option.map_eq_some_iff] at h; obtain ⟨j, hj, rfl⟩ := h; rw [hb i j hj]
  | process pid i => simp only [renameInstr, Option.map_eq_some_iff] at h; obtain ⟨j, hj, rfl⟩ := h; rw [hf i j hj]
  | _ => simp only [renameInstr, Option.some.injEq] at h; exact h.symm

theorem list_map_id' {α : Type} {f : α → α} (h : ∀ a, f a = a) : ∀ (l : List α), l.map f = l
  | [] => rfl
  | a :: as => by simp only [List.map_cons, h a, list_map_id' h as]

theorem shakeTy_id {ρ : Ren} (ht : IdMap ρ.tuple) (hy : IdMap ρ.type) (τ : Ty) : shakeTy ρ τ = τ := by
  have hmap : ∀ (l : List Nat), l.map (orSelf ρ.type) = l := by
    intro l; induction l with
    | nil => rfl
    | cons a as ih => simp only [List.map_cons, orSelf_id hy, ih]
  cases τ with
  | tuple id => simp only [shakeTy, orSelf_id ht]
  | part n fs =>
    simp only [shakeTy, Ty.part.injEq, true_and]
    exact list_map_id' (fun p => by simp only [orSelf_id hy]) fs
  | callable p r v => simp only [shakeTy, orSelf_id hy]
  | union ids => simp only [shakeTy, hmap]
  | process s r =>
    cases s <;> cases r <;> simp only [shakeTy, Option.map_none, Option.map_some, orSelf_id hy]
  | int => rfl
  | bin => rfl
  | ref => rfl
  | cycle d => rfl
  | resource n => rfl
  | var n => rfl

theorem shakeTuple_id {ρ : Ren} (hy : IdMap ρ.type) (T : TupleInfo) : shakeTuple ρ T = T := by
  cases T with
  | mk name fields =>
    simp only [shakeTuple, TupleInfo.mk.injEq, true_and]
    exact list_map_id' (fun p => by simp only [orSelf_id hy]) fields

theorem shakeBuiltin_id {ρ : Ren} (hy : IdMap ρ.type) (B : BuiltinInfo) : shakeBuiltin ρ B = B := by
  cases B
  simp only [shakeBuiltin, orSelf_id hy]

theorem shakeFn_id {ρ : Ren} (hc : IdMap ρ.const) (hf : IdMap ρ.fn) (ht : IdMap ρ.tuple) (hy : IdMap ρ.type)
    (hb : IdMap ρ.builtin) {F F' : Fn} (h : shakeFn ρ F = some F') : F' = F := by
  simp only [shakeFn, Option.map_eq_some_iff] at h
  obtain ⟨is, his, rfl⟩ := h
  have : is = F.instrs := mapOpt_id (fun a a' h => renameInstr_id hc hf ht hy hb h) his
  cases F
  simp only [this, orSelf_id hy]

theorem sweep_consts_entry {P : Prog} {e : Nat} {m : Marks} {out : ShakeOut} (h : sweep P e m = some out) :
    ∃ cs, getAll P.consts (sortAsc m.consts) = some cs ∧ out.prog.consts = cs.toArray ∧
      (shakeRen P m).fn.get e = some out.entry ∧ out.ren = shakeRen P m := by
  simp only [sweep] at h
  split at h
  · rename_i fs cs ts bs ys e' hfs hcs hts hbs hys he'
    split at h
    · cases h
    · cases h
      exact ⟨cs, hcs, rfl, he', rfl⟩
  · cases h

/-- a sweep whose marks are ALL ids of the program returns the program's five tables unchanged, the same entry
    and identity remap tables -/
theorem sweep_full_identity {P : Prog} {e : Nat} {m : Marks} {out : ShakeOut} (h : sweep P e m = some out)
    (hf : sortAsc m.fns = List.range P.fns.size) (hc : sortAsc m.consts = List.range P.consts.size)
    (ht : sortAsc m.tuples = List.range P.tuples.size) (hy : sortAsc m.types = List.range P.types.size)
    (hb : sortAsc m.builtins = List.range P.builtins.size) :
    out.prog.fns = P.fns ∧ out.prog.consts = P.consts ∧ out.prog.tuples = P.tuples ∧ out.prog.types = P.types ∧
    out.prog.builtins = P.builtins ∧ out.entry = e ∧
    IdMap out.ren.fn ∧ IdMap out.ren.const ∧ IdMap out.ren.tuple ∧ IdMap out.ren.type ∧ IdMap out.ren.builtin := by
  have i1 : IdMap (shakeRen P m).fn := by intro i j hg; simp only [shakeRen, hf] at hg; exact rankMap_range_get hg
  have i2 : IdMap (shakeRen P m).const := by intro i j hg; simp only [shakeRen, hc] at hg; exact rankMap_range_get hg
  have i3 : IdMap (shakeRen P m).tuple := by intro i j hg; simp only [shakeRen, ht] at hg; exact rankMap_range_get hg
  have i4 : IdMap (shakeRen P m).type := by intro i j hg; simp only [shakeRen, hy] at hg; exact rankMap_range_get hg
  have i5 : IdMap (shakeRen P m).builtin := by intro i j hg; simp only [shakeRen, hb] at hg; exact rankMap_range_get hg
  obtain ⟨fs, fs', bs, hfs, hfs', hfnsEq, hbs, hbEq, _⟩ := sweep_fns_builtins h
  obtain ⟨ys, ts, hys, hts, htyEq, htuEq⟩ := sweep_tables h
  obtain ⟨cs, hcs, hcEq, hent, hren⟩ := sweep_consts_entry h
  rw [hf, getAll_range] at hfs
  rw [hb, getAll_range] at hbs
  rw [hy, getAll_range] at hys
  rw [ht, getAll_range] at hts
  rw [hc, getAll_range] at hcs
  cases hfs; cases hbs; cases hys; cases hts; cases hcs
  have hfs'' : fs' = P.fns.toList := mapOpt_id (fun a a' h => shakeFn_id i2 i1 i3 i4 i5 h) hfs'
  refine ⟨?_, ?_, ?_, ?_, ?_, ?_, ?_, ?_, ?_, ?_, ?_⟩
  · rw [hfnsEq, hfs'']
  · rw [hcEq]
  · rw [htuEq, list_map_id' (shakeTuple_id i4)]
  · rw [htyEq, list_map_id' (shakeTy_id i3 i4)]
  · rw [hbEq, list_map_id' (shakeBuiltin_id i4)]
  · exact i1 _ _ hent
  · rw [hren]; exact i1
  · rw [hren]; exact i2
  · rw [hren]; exact i3
  · rw [hren]; exact i4
  · rw [hren]; exact i5

end QM.Packaging
