import QuiverModel.Lemmas.Packaging.Mark
/-
M-Packaging — the CONVERSE invariant of `tree_shake`'s mark phase (owner: C10): every mark is justified
by a reference path from the entry, the NIL/OK tuples, or the index-only rule (5a04882).
`Reach P e x` is the least set closed under exactly the references the mark phase follows; `Just`ified
marks are preserved by every collector and loop, hence `markAll_just`: the marks are a SUBSET of the
reachable items (T3 ⊆; `markAll_closed` is ⊇ for the closure rules of `Closed`).
-/
namespace QM.Packaging

inductive ShakeItem where
  | fn (n : Nat)
  | const (n : Nat)
  | tuple (n : Nat)
  | ty (n : Nat)
  | builtin (n : Nat)
  | res (s : String)
  deriving DecidableEq, Repr

/-- what `tree_shake(P, e)` is entitled to keep -/
inductive Reach (P : Prog) (e : Nat) : ShakeItem → Prop where
  | entry : Reach P e (.fn e)
  | nil : Reach P e (.tuple 0)
  | ok : Reach P e (.tuple 1)
  | fnType {f : Nat} {F : Fn} : Reach P e (.fn f) → P.fns[f]? = some F → Reach P e (.ty F.typeId)
  | callee {f : Nat} {F : Fn} {g : Nat} : Reach P e (.fn f) → P.fns[f]? = some F →
      Instr.function g ∈ F.instrs → Reach P e (.fn g)
  | procFn {f : Nat} {F : Fn} {pid g : Nat} : Reach P e (.fn f) → P.fns[f]? = some F →
      Instr.process pid g ∈ F.instrs → Reach P e (.fn g)
  | const {f : Nat} {F : Fn} {c : Nat} : Reach P e (.fn f) → P.fns[f]? = some F →
      Instr.const c ∈ F.instrs → Reach P e (.const c)
  | builtin {f : Nat} {F : Fn} {b : Nat} : Reach P e (.fn f) → P.fns[f]? = some F →
      Instr.builtin b ∈ F.instrs → Reach P e (.builtin b)
  | isType {f : Nat} {F : Fn} {t : Nat} : Reach P e (.fn f) → P.fns[f]? = some F →
      Instr.isType t ∈ F.instrs → Reach P e (.ty t)
  | mkTuple {f : Nat} {F : Fn} {u : Nat} : Reach P e (.fn f) → P.fns[f]? = some F →
      Instr.tuple u ∈ F.instrs → Reach P e (.tuple u)
  | mkTupleType {f : Nat} {F : Fn} {u t : Nat} : Reach P e (.fn f) → P.fns[f]? = some F →
      Instr.tuple u ∈ F.instrs → firstTupleType P u = some t → Reach P e (.ty t)
  | child {t : Nat} {τ : Ty} {x : Nat} : Reach P e (.ty t) → P.types[t]? = some τ → x ∈ tyChildren τ →
      Reach P e (.ty x)
  | tupleOf {t id : Nat} : Reach P e (.ty t) → P.types[t]? = some (.tuple id) → Reach P e (.tuple id)
  | resOf {t : Nat} {n : String} : Reach P e (.ty t) → P.types[t]? = some (.resource n) → Reach P e (.res n)
  | field {u : Nat} {T : TupleInfo} {p : Option String × Nat} : Reach P e (.tuple u) → P.tuples[u]? = some T →
      p ∈ T.fields → Reach P e (.ty p.2)
  | bParam {b : Nat} {B : BuiltinInfo} : Reach P e (.builtin b) → P.builtins[b]? = some B →
      Reach P e (.ty B.paramType)
  | bResult {b : Nat} {B : BuiltinInfo} : Reach P e (.builtin b) → P.builtins[b]? = some B →
      Reach P e (.ty B.resultType)
  /-- index-only entries (5a04882): the `Process` type of a kept function, the never-receiving `Callable`
      type of a kept builtin — found by `TypeIndex::build`, referenced by nothing -/
  | indexOnly {t : Nat} {τ : Ty} {m : Marks} : P.types[t]? = some τ → isIndexOnly P m τ = true →
      (∀ f ∈ m.fns, Reach P e (.fn f)) → (∀ b ∈ m.builtins, Reach P e (.builtin b)) → Reach P e (.ty t)

/-- every mark is justified -/
structure Just (P : Prog) (e : Nat) (m : Marks) : Prop where
  fns : ∀ f ∈ m.fns, Reach P e (.fn f)
  consts : ∀ c ∈ m.consts, Reach P e (.const c)
  tuples : ∀ u ∈ m.tuples, Reach P e (.tuple u)
  types : ∀ t ∈ m.types, Reach P e (.ty t)
  builtins : ∀ b ∈ m.builtins, Reach P e (.builtin b)
  resources : ∀ n ∈ m.resources, Reach P e (.res n)

theorem mem_insertNat {a x : Nat} {l : List Nat} (h : x ∈ insertNat a l) : x = a ∨ x ∈ l := by
  unfold insertNat at h
  split at h
  · exact Or.inr h
  · exact List.mem_cons.mp h

theorem mem_insertStr {a x : String} {l : List String} (h : x ∈ insertStr a l) : x = a ∨ x ∈ l := by
  unfold insertStr at h
  split at h
  · exact Or.inr h
  · exact List.mem_cons.mp h

theorem Just.addType {P : Prog} {e : Nat} {m : Marks} (h : Just P e m) {t : Nat} (r : Reach P e (.ty t)) :
    Just P e { m with types := t :: m.types } := by
  refine ⟨h.fns, h.consts, h.tuples, ?_, h.builtins, h.resources⟩
  intro x hx
  rcases List.mem_cons.mp hx with rfl | hx
  · exact r
  · exact h.types x hx

theorem Just.addTuple {P : Prog} {e : Nat} {m : Marks} (h : Just P e m) {u : Nat} (r : Reach P e (.tuple u)) :
    Just P e { m with tuples := u :: m.tuples } := by
  refine ⟨h.fns, h.consts, ?_, h.types, h.builtins, h.resources⟩
  intro x hx
  rcases List.mem_cons.mp hx with rfl | hx
  · exact r
  · exact h.tuples x hx

mutual
theorem collectType_just (P : Prog) (e : Nat) : ∀ (fuel t : Nat) (m m' : Marks),
    collectType P fuel t m = some m' → Just P e m → Reach P e (.ty t) → Just P e m'
  | 0, _, _, _, h, _, _ => by simp [collectType] at h
  | fuel + 1, t, m, m', h, hJ, hr => by
    simp only [collectType] at h
    split at h
    · cases h; exact hJ
    · have hJ1 := hJ.addType hr
      cases hτ : P.types[t]? with
      | none =>
        rw [hτ] at h
        simp only at h
        cases h; exact hJ1
      | some τ =>
        rw [hτ] at h
        have generic : ∀ (τ0 : Ty), P.types[t]? = some τ0 →
            collectTypes P fuel (tyChildren τ0) { m with types := t :: m.types } = some m' → Just P e m' := by
          intro τ0 hτ0 hcall
          exact collectTypes_just P e fuel (tyChildren τ0) _ m' hcall hJ1 (fun x hx => Reach.child hr hτ0 hx)
        cases τ with
        | tuple id =>
          simp only at h
          exact collectTuple_just P e fuel id _ m' h hJ1 (Reach.tupleOf hr hτ)
        | resource n =>
          simp only at h
          cases h
          refine ⟨hJ1.fns, hJ1.consts, hJ1.tuples, hJ1.types, hJ1.builtins, ?_⟩
          intro x hx
          rcases mem_insertStr hx with rfl | hx
          · exact Reach.resOf hr hτ
          · exact hJ.resources x hx
        | int => exact generic _ hτ h
        | bin => exact generic _ hτ h
        | ref => exact generic _ hτ h
        | part n fs => exact generic _ hτ h
        | callable p r v => exact generic _ hτ h
        | cycle d => exact generic _ hτ h
        | union ids => exact generic _ hτ h
        | process s r => exact generic _ hτ h
        | var n => exact generic _ hτ h
theorem collectTypes_just (P : Prog) (e : Nat) : ∀ (fuel : Nat) (ts : List Nat) (m m' : Marks),
    collectTypes P fuel ts m = some m' → Just P e m → (∀ t ∈ ts, Reach P e (.ty t)) → Just P e m'
  | 0, _, _, _, h, _, _ => by simp [collectTypes] at h
  | fuel + 1, [], m, m', h, hJ, _ => by
    simp only [collectTypes, Option.some.injEq] at h
    subst h; exact hJ
  | fuel + 1, t :: ts, m, m', h, hJ, hr => by
    simp only [collectTypes] at h
    split at h
    · cases h
    · rename_i m1 h1
      have hJ1 := collectType_just P e fuel t m m1 h1 hJ (hr t (List.mem_cons_self ..))
      exact collectTypes_just P e fuel ts m1 m' h hJ1 (fun x hx => hr x (List.mem_cons_of_mem _ hx))
theorem collectTuple_just (P : Prog) (e : Nat) : ∀ (fuel id : Nat) (m m' : Marks),
    collectTuple P fuel id m = some m' → Just P e m → Reach P e (.tuple id) → Just P e m'
  | 0, _, _, _, h, _, _ => by simp [collectTuple] at h
  | fuel + 1, id, m, m', h, hJ, hr => by
    simp only [collectTuple] at h
    split at h
    · cases h; exact hJ
    · have hJ1 := hJ.addTuple hr
      cases hT : P.tuples[id]? with
      | none =>
        rw [hT] at h
        simp only at h
        cases h; exact hJ1
      | some T =>
        rw [hT] at h
        simp only at h
        refine collectTypes_just P e fuel (T.fields.map (·.2)) _ m' h hJ1 (fun x hx => ?_)
        obtain ⟨p, hp, rfl⟩ := List.mem_map.mp hx
        exact Reach.field hr hT hp
end


theorem markInstrs_just (P : Prog) (e : Nat) {f : Nat} {F : Fn} (hf : Reach P e (.fn f)) (hF : P.fns[f]? = some F) :
    ∀ (is : List Instr) (m m' : Marks) (q q' : List Nat),
    markInstrs P is m q = some (m', q') → (∀ i ∈ is, i ∈ F.instrs) → Just P e m → (∀ g ∈ q, Reach P e (.fn g)) →
    Just P e m' ∧ ∀ g ∈ q', Reach P e (.fn g)
  | [], m, m', q, q', h, _, hJ, hq => by
    simp only [markInstrs, Option.some.injEq, Prod.mk.injEq] at h
    obtain ⟨rfl, rfl⟩ := h
    exact ⟨hJ, hq⟩
  | i :: is, m, m', q, q', h, hsub, hJ, hq => by
    have hi : i ∈ F.instrs := hsub i (List.mem_cons_self ..)
    have keep : ∀ (m1 : Marks) (q1 : List Nat), markInstrs P is m1 q1 = some (m', q') → Just P e m1 →
        (∀ g ∈ q1, Reach P e (.fn g)) → Just P e m' ∧ ∀ g ∈ q', Reach P e (.fn g) := fun m1 q1 h1 hJ1 hq1 =>
      markInstrs_just P e hf hF is m1 m' q1 q' h1 (fun j hj => hsub j (List.mem_cons_of_mem _ hj)) hJ1 hq1
    have pushq : ∀ g, Reach P e (.fn g) → ∀ x ∈ q ++ [g], Reach P e (.fn x) := by
      intro g hg x hx
      rcases List.mem_append.mp hx with hx | hx
      · exact hq x hx
      · rw [List.mem_singleton.mp hx]; exact hg
    cases i with
    | function id =>
      simp only [markInstrs] at h
      exact keep m _ h hJ (pushq id (Reach.callee hf hF hi))
    | process pid id =>
      simp only [markInstrs] at h
      exact keep m _ h hJ (pushq id (Reach.procFn hf hF hi))
    | const id =>
      simp only [markInstrs] at h
      refine keep _ q h ⟨hJ.fns, ?_, hJ.tuples, hJ.types, hJ.builtins, hJ.resources⟩ hq
      intro x hx
      rcases mem_insertNat hx with rfl | hx
      · exact Reach.const hf hF hi
      · exact hJ.consts x hx
    | builtin id =>
      simp only [markInstrs] at h
      refine keep _ q h ⟨hJ.fns, hJ.consts, hJ.tuples, hJ.types, ?_, hJ.resources⟩ hq
      intro x hx
      rcases mem_insertNat hx with rfl | hx
      · exact Reach.builtin hf hF hi
      · exact hJ.builtins x hx
    | isType id =>
      simp only [markInstrs] at h
      split at h
      · cases h
      · rename_i m1 h1
        exact keep m1 q h (collectType_just P e _ id m m1 h1 hJ (Reach.isType hf hF hi)) hq
    | tuple id =>
      simp only [markInstrs] at h
      split at h
      · cases h
      · rename_i m1 h1
        have hJ1 := collectTuple_just P e _ id m m1 h1 hJ (Reach.mkTuple hf hF hi)
        split at h
        · exact keep m1 q h hJ1 hq
        · rename_i t ht
          split at h
          · cases h
          · rename_i m2 h2
            exact keep m2 q h (collectType_just P e _ t m1 m2 h2 hJ1 (Reach.mkTupleType hf hF hi ht)) hq
    | pop => simp only [markInstrs] at h; exact keep m q h hJ hq
    | dup => simp only [markInstrs] at h; exact keep m q h hJ hq
    | pick n => simp only [markInstrs] at h; exact keep m q h hJ hq
    | rotate n => simp only [markInstrs] at h; exact keep m q h hJ hq
    | reset n => simp only [markInstrs] at h; exact keep m q h hJ hq
    | load n => simp only [markInstrs] at h; exact keep m q h hJ hq
    | store => simp only [markInstrs] at h; exact keep m q h hJ hq
    | get n => simp only [markInstrs] at h; exact keep m q h hJ hq
    | jump n => simp only [markInstrs] at h; exact keep m q h hJ hq
    | jumpIf n => simp only [markInstrs] at h; exact keep m q h hJ hq
    | call => simp only [markInstrs] at h; exact keep m q h hJ hq
    | tailCall b => simp only [markInstrs] at h; exact keep m q h hJ hq
    | equal n => simp only [markInstrs] at h; exact keep m q h hJ hq
    | not => simp only [markInstrs] at h; exact keep m q h hJ hq
    | spawn => simp only [markInstrs] at h; exact keep m q h hJ hq
    | send => simp only [markInstrs] at h; exact keep m q h hJ hq
    | self => simp only [markInstrs] at h; exact keep m q h hJ hq
    | select => simp only [markInstrs] at h; exact keep m q h hJ hq

theorem markFns_just (P : Prog) (e : Nat) : ∀ (fuel : Nat) (q : List Nat) (m m' : Marks),
    markFns P fuel q m = some m' → Just P e m → (∀ g ∈ q, Reach P e (.fn g)) → Just P e m'
  | 0, [], m, m', h, hJ, _ => by
    simp only [markFns, Option.some.injEq] at h; subst h; exact hJ
  | 0, _ :: _, _, _, h, _, _ => by simp [markFns] at h
  | fuel + 1, [], m, m', h, hJ, _ => by
    simp only [markFns, Option.some.injEq] at h; subst h; exact hJ
  | fuel + 1, f :: q, m, m', h, hJ, hq => by
    have hf : Reach P e (.fn f) := hq f (List.mem_cons_self ..)
    have hq' : ∀ g ∈ q, Reach P e (.fn g) := fun g hg => hq g (List.mem_cons_of_mem _ hg)
    simp only [markFns] at h
    split at h
    · exact markFns_just P e fuel q m m' h hJ hq'
    · have hJ1 : Just P e { m with fns := f :: m.fns } := by
        refine ⟨?_, hJ.consts, hJ.tuples, hJ.types, hJ.builtins, hJ.resources⟩
        intro x hx
        rcases List.mem_cons.mp hx with rfl | hx
        · exact hf
        · exact hJ.fns x hx
      cases hFn : P.fns[f]? with
      | none =>
        rw [hFn] at h
        simp only at h
        exact markFns_just P e fuel q _ m' h hJ1 hq'
      | some F =>
        rw [hFn] at h
        simp only at h
        split at h
        · cases h
        · rename_i m1 h1
          have hJ2 := collectType_just P e _ F.typeId _ m1 h1 hJ1 (Reach.fnType hf hFn)
          split at h
          · cases h
          · rename_i m2 q2 h2
            obtain ⟨hJ3, hq3⟩ := markInstrs_just P e hf hFn F.instrs m1 m2 q q2 h2 (fun _ hi => hi) hJ2 hq'
            exact markFns_just P e fuel q2 m2 m' h hJ3 hq3

theorem markBuiltins_just (P : Prog) (e : Nat) : ∀ (bs : List Nat) (m m' : Marks),
    markBuiltins P bs m = some m' → Just P e m → (∀ b ∈ bs, Reach P e (.builtin b)) → Just P e m'
  | [], m, m', h, hJ, _ => by
    simp only [markBuiltins, Option.some.injEq] at h; subst h; exact hJ
  | b :: bs, m, m', h, hJ, hb => by
    have hb0 : Reach P e (.builtin b) := hb b (List.mem_cons_self ..)
    have hb' : ∀ x ∈ bs, Reach P e (.builtin x) := fun x hx => hb x (List.mem_cons_of_mem _ hx)
    simp only [markBuiltins] at h
    cases hB : P.builtins[b]? with
    | none =>
      rw [hB] at h
      simp only at h
      exact markBuiltins_just P e bs m m' h hJ hb'
    | some B =>
      rw [hB] at h
      simp only at h
      split at h
      · cases h
      · rename_i m1 h1
        have hJ1 := collectType_just P e _ B.paramType m m1 h1 hJ (Reach.bParam hb0 hB)
        split at h
        · cases h
        · rename_i m2 h2
          have hJ2 := collectType_just P e _ B.resultType m1 m2 h2 hJ1 (Reach.bResult hb0 hB)
          exact markBuiltins_just P e bs m2 m' h hJ2 hb'

/-- **the converse mark invariant**: everything `tree_shake` marks is reachable -/
theorem markAll_just {P : Prog} {e : Nat} {legacy : Bool} {m : Marks} (h : markAll P e legacy = some m) :
    Just P e m := by
  unfold markAll at h
  split at h
  · cases h
  · rename_i m0 h0
    have hJ : Just P e ({} : Marks) :=
      ⟨fun _ h => (by cases h), fun _ h => (by cases h), fun _ h => (by cases h), fun _ h => (by cases h),
       fun _ h => (by cases h), fun _ h => (by cases h)⟩
    have hJ0 := collectTuple_just P e _ 0 _ m0 h0 hJ Reach.nil
    split at h
    · cases h
    · rename_i m1 h1
      have hJ1 := collectTuple_just P e _ 1 m0 m1 h1 hJ0 Reach.ok
      split at h
      · cases h
      · rename_i m2 h2
        have hJ2 := markFns_just P e _ [e] m1 m2 h2 hJ1 (fun g hg => by
          rw [List.mem_singleton.mp hg]; exact Reach.entry)
        split at h
        · cases h
        · rename_i m3 h3
          have hJ3 := markBuiltins_just P e m2.builtins m2 m3 h3 hJ2 hJ2.builtins
          split at h
          · simp only [Option.some.injEq] at h
            subst h; exact hJ3
          · refine collectTypes_just P e _ _ m3 m h hJ3 (fun t ht => ?_)
            simp only [indexOnly, List.mem_filter] at ht
            obtain ⟨_, ht⟩ := ht
            cases hτ : P.types[t]? with
            | none => rw [hτ] at ht; cases ht
            | some τ =>
              rw [hτ] at ht
              exact Reach.indexOnly hτ ht hJ3.fns hJ3.builtins


/-! ### The other direction in terms of `Reach`: everything reachable is marked -/

/-- every kept function's `Tuple(u)` instructions have the first `Type::Tuple(u)` entry marked -/
def TT (P : Prog) (m : Marks) : Prop :=
  ∀ f ∈ m.fns, ∀ F, P.fns[f]? = some F → ∀ u, Instr.tuple u ∈ F.instrs → ∀ t, firstTupleType P u = some t →
    t ∈ m.types

theorem markInstrs_tt (P : Prog) : ∀ (is : List Instr) (m m' : Marks) (q q' : List Nat),
    markInstrs P is m q = some (m', q') → TCE P m [] [] →
    ∀ u, Instr.tuple u ∈ is → ∀ t, firstTupleType P u = some t → t ∈ m'.types
  | [], _, _, _, _, _, _ => by intro u hu; cases hu
  | i :: is, m, m', q, q', h, hI => by
    intro u hu t ht
    have tail : ∀ (m1 : Marks) (q1 : List Nat), markInstrs P is m1 q1 = some (m', q') → TCE P m1 [] [] →
        Instr.tuple u ∈ is → t ∈ m'.types := fun m1 q1 h1 hI1 hmem =>
      markInstrs_tt P is m1 m' q1 q' h1 hI1 u hmem t ht
    have same : ∀ (m1 : Marks), m1.types = m.types → m1.tuples = m.tuples → TCE P m1 [] [] := by
      intro m1 e1 e2
      exact ⟨fun t ht hn τ hτ => by
                rw [e1] at ht
                exact (hI.types t ht hn τ hτ).mono (fun x hx => by rw [e1]; exact hx) (fun x hx => by rw [e2]; exact hx),
             fun u hu hn T hT p hp => by
                rw [e2] at hu; rw [e1]; exact hI.tuples u hu hn T hT p hp,
             by rw [e2]; exact hI.nodup, by rw [e1]; exact hI.nodupT⟩
    cases i with
    | function id => simp only [markInstrs] at h; exact tail m _ h hI (by simpa using hu)
    | process pid id => simp only [markInstrs] at h; exact tail m _ h hI (by simpa using hu)
    | const id => simp only [markInstrs] at h; exact tail _ q h (same _ rfl rfl) (by simpa using hu)
    | builtin id => simp only [markInstrs] at h; exact tail _ q h (same _ rfl rfl) (by simpa using hu)
    | isType id =>
      simp only [markInstrs] at h
      split at h
      · cases h
      · rename_i m1 h1
        obtain ⟨hI1, _, _⟩ := collectType_spec P _ id m m1 [] [] h1 hI
        exact tail m1 q h hI1 (by simpa using hu)
    | tuple id =>
      simp only [markInstrs] at h
      split at h
      · cases h
      · rename_i m1 h1
        obtain ⟨hI1, _, _⟩ := collectTuple_spec P _ id m m1 [] [] h1 hI
        have hu' : u = id ∨ Instr.tuple u ∈ is := by simpa using hu
        split at h
        · rename_i hnone
          rcases hu' with rfl | hmem
          · rw [hnone] at ht; cases ht
          · exact tail m1 q h hI1 hmem
        · rename_i t0 ht0
          split at h
          · cases h
          · rename_i m2 h2
            obtain ⟨hI2, hmem2, _⟩ := collectType_spec P _ t0 m1 m2 [] [] h2 hI1
            rcases hu' with rfl | hmem
            · rw [ht0] at ht; cases ht
              obtain ⟨_, hty, _⟩ := markInstrs_spec P is m2 m' q q' h hI2
              exact hty _ hmem2
            · exact tail m2 q h hI2 hmem
    | pop => simp only [markInstrs] at h; exact tail m q h hI (by simpa using hu)
    | dup => simp only [markInstrs] at h; exact tail m q h hI (by simpa using hu)
    | pick n => simp only [markInstrs] at h; exact tail m q h hI (by simpa using hu)
    | rotate n => simp only [markInstrs] at h; exact tail m q h hI (by simpa using hu)
    | reset n => simp only [markInstrs] at h; exact tail m q h hI (by simpa using hu)
    | load n => simp only [markInstrs] at h; exact tail m q h hI (by simpa using hu)
    | store => simp only [markInstrs] at h; exact tail m q h hI (by simpa using hu)
    | get n => simp only [markInstrs] at h; exact tail m q h hI (by simpa using hu)
    | jump n => simp only [markInstrs] at h; exact tail m q h hI (by simpa using hu)
    | jumpIf n => simp only [markInstrs] at h; exact tail m q h hI (by simpa using hu)
    | call => simp only [markInstrs] at h; exact tail m q h hI (by simpa using hu)
    | tailCall b => simp only [markInstrs] at h; exact tail m q h hI (by simpa using hu)
    | equal n => simp only [markInstrs] at h; exact tail m q h hI (by simpa using hu)
    | not => simp only [markInstrs] at h; exact tail m q h hI (by simpa using hu)
    | spawn => simp only [markInstrs] at h; exact tail m q h hI (by simpa using hu)
    | send => simp only [markInstrs] at h; exact tail m q h hI (by simpa using hu)
    | self => simp only [markInstrs] at h; exact tail m q h hI (by simpa using hu)
    | select => simp only [markInstrs] at h; exact tail m q h hI (by simpa using hu)

theorem markFns_tt (P : Prog) : ∀ (fuel : Nat) (q : List Nat) (m m' : Marks),
    markFns P fuel q m = some m' → TCE P m [] [] → FT P m → TT P m → TT P m' ∧ ∀ x ∈ m.types, x ∈ m'.types
  | 0, [], m, m', h, _, _, hT => by
    simp only [markFns, Option.some.injEq] at h; subst h; exact ⟨hT, fun _ h => h⟩
  | 0, _ :: _, _, _, h, _, _, _ => by simp [markFns] at h
  | fuel + 1, [], m, m', h, _, _, hT => by
    simp only [markFns, Option.some.injEq] at h; subst h; exact ⟨hT, fun _ h => h⟩
  | fuel + 1, f :: q, m, m', h, hI, hF, hT => by
    simp only [markFns] at h
    split at h
    · exact markFns_tt P fuel q m m' h hI hF hT
    · have hI1 : TCE P { m with fns := f :: m.fns } [] [] := ⟨hI.types, hI.tuples, hI.nodup, hI.nodupT⟩
      cases hFn : P.fns[f]? with
      | none =>
        rw [hFn] at h
        simp only at h
        have hF1 : FT P { m with fns := f :: m.fns } := by
          intro f' hf' F' hF'
          rcases List.mem_cons.mp hf' with h | h
          · subst h; rw [hFn] at hF'; cases hF'
          · exact hF f' h F' hF'
        have hT1 : TT P { m with fns := f :: m.fns } := by
          intro f' hf' F' hF'
          rcases List.mem_cons.mp hf' with h | h
          · subst h; rw [hFn] at hF'; cases hF'
          · exact hT f' h F' hF'
        exact markFns_tt P fuel q { m with fns := f :: m.fns } m' h hI1 hF1 hT1
      | some F =>
        rw [hFn] at h
        simp only at h
        split at h
        · cases h
        · rename_i m1 h1
          obtain ⟨hI2, hty, hE1⟩ := collectType_spec P _ F.typeId _ m1 [] [] h1 hI1
          split at h
          · cases h
          · rename_i m2 q2 h2
            obtain ⟨hI3, hty3, _, hf3, _⟩ := markInstrs_spec P F.instrs m1 m2 q q2 h2 hI2
            have htt := markInstrs_tt P F.instrs m1 m2 q q2 h2 hI2
            have hfns2 : m2.fns = f :: m.fns := by rw [hf3, hE1.fns]
            have hF2 : FT P m2 := by
              intro f' hf' F' hF'
              rw [hfns2] at hf'
              rcases List.mem_cons.mp hf' with h | h
              · subst h; rw [hFn] at hF'; cases hF'; exact hty3 _ hty
              · exact hty3 _ (hE1.types _ (hF f' h F' hF'))
            have hT2 : TT P m2 := by
              intro f' hf' F' hF' u hu t ht
              rw [hfns2] at hf'
              rcases List.mem_cons.mp hf' with h | h
              · subst h; rw [hFn] at hF'; cases hF'; exact htt u hu t ht
              · exact hty3 _ (hE1.types _ (hT f' h F' hF' u hu t ht))
            obtain ⟨a, b⟩ := markFns_tt P fuel q2 m2 m' h hI3 hF2 hT2
            exact ⟨a, fun x hx => b x (hty3 x (hE1.types x hx))⟩

theorem TT.mono {P : Prog} {m m' : Marks} (h : TT P m) (hE : Ext m m') : TT P m' := by
  intro f hf F hF u hu t ht
  rw [hE.fns] at hf
  exact hE.types _ (h f hf F hF u hu t ht)

theorem isIndexOnly_congr (P : Prog) {m m' : Marks} (h1 : m'.fns = m.fns) (h2 : m'.builtins = m.builtins) (τ : Ty) :
    isIndexOnly P m' τ = isIndexOnly P m τ := by
  cases τ <;> simp only [isIndexOnly, h1, h2]

/-- what the mark phase establishes beyond `Closed`: tuple-type entries of constructed tuples, and
    (current sweep) the index-only entries -/
theorem markAll_extra {P : Prog} {e : Nat} {legacy : Bool} {m : Marks} (h : markAll P e legacy = some m) :
    TT P m ∧ (legacy = false → ∀ (t : Nat) (τ : Ty), P.types[t]? = some τ → isIndexOnly P m τ = true → t ∈ m.types) := by
  unfold markAll at h
  split at h
  · cases h
  · rename_i m0 h0
    have hI : TCE P ({} : Marks) [] [] := ⟨(fun _ h => by cases h), (fun _ h => by cases h), List.nodup_nil, List.nodup_nil⟩
    obtain ⟨hI0, _, hE0⟩ := collectTuple_spec P _ 0 _ m0 [] [] h0 hI
    split at h
    · cases h
    · rename_i m1 h1
      obtain ⟨hI1, _, hE1⟩ := collectTuple_spec P _ 1 m0 m1 [] [] h1 hI0
      split at h
      · cases h
      · rename_i m2 h2
        have hF1 : FT P m1 := by
          intro f hf
          rw [hE1.fns, hE0.fns] at hf; cases hf
        have hT1 : TT P m1 := by
          intro f hf
          rw [hE1.fns, hE0.fns] at hf; cases hf
        obtain ⟨hI2, _, _, _, _⟩ := markFns_spec P _ [e] m1 m2 h2 hI1 hF1
        obtain ⟨hT2, _⟩ := markFns_tt P _ [e] m1 m2 h2 hI1 hF1 hT1
        split at h
        · cases h
        · rename_i m3 h3
          obtain ⟨hI3, hE3, _⟩ := markBuiltins_spec P m2.builtins m2 m3 h3 hI2
          have hT3 := hT2.mono hE3
          split at h
          · rename_i hleg
            simp only [Option.some.injEq] at h
            subst h
            exact ⟨hT3, fun hl => by rw [hl] at hleg; cases hleg⟩
          · obtain ⟨_, hall, hE4⟩ := collectTypes_spec P _ _ m3 m [] [] h hI3
            refine ⟨hT3.mono hE4, fun _ t τ hτ hio => hall t ?_⟩
            rw [isIndexOnly_congr P hE4.fns hE4.builtins] at hio
            simp only [indexOnly, List.mem_filter, List.mem_range, hτ, hio, and_true]
            rcases Nat.lt_or_ge t P.types.size with h1 | h1
            · exact h1
            · rw [Array.getElem?_eq_none h1] at hτ; cases hτ


theorem isIndexOnly_mono (P : Prog) {m0 m : Marks} (hf : ∀ f ∈ m0.fns, f ∈ m.fns)
    (hb : ∀ b ∈ m0.builtins, b ∈ m.builtins) {τ : Ty} (h : isIndexOnly P m0 τ = true) :
    isIndexOnly P m τ = true := by
  cases τ with
  | process s r =>
    cases s with
    | none => simp [isIndexOnly] at h
    | some s =>
      cases r with
      | none => simp [isIndexOnly] at h
      | some r =>
        simp only [isIndexOnly, List.any_eq_true] at h ⊢
        obtain ⟨f, hfm, hp⟩ := h
        exact ⟨f, hf f hfm, hp⟩
  | callable p r v =>
    simp only [isIndexOnly, Bool.and_eq_true, List.any_eq_true] at h ⊢
    obtain ⟨hv, b, hbm, hp⟩ := h
    exact ⟨hv, b, hb b hbm, hp⟩
  | int => simp [isIndexOnly] at h
  | bin => simp [isIndexOnly] at h
  | ref => simp [isIndexOnly] at h
  | tuple id => simp [isIndexOnly] at h
  | part n fs => simp [isIndexOnly] at h
  | cycle d => simp [isIndexOnly] at h
  | union ids => simp [isIndexOnly] at h
  | resource n => simp [isIndexOnly] at h
  | var n => simp [isIndexOnly] at h

theorem rank_mem {l : List Nat} {a i : Nat} (h : (rankMap (sortAsc l)).get a = some i) : a ∈ l :=
  mem_sortAsc.mp (List.mem_of_getElem? (rankMap_get h))

theorem mapOpt_exists_of_mem {α β : Type} {f : α → Option β} {l : List α} {l' : List β}
    (h : mapOpt f l = some l') {a : α} (ha : a ∈ l) : ∃ b, f a = some b := by
  obtain ⟨i, hi⟩ := List.mem_iff_getElem?.mp ha
  rcases mapOpt_get? h i with ⟨hn, _⟩ | ⟨a2, b, h1, _, h3⟩
  · rw [hi] at hn; cases hn
  · rw [hi] at h1; cases h1
    exact ⟨b, h3⟩

/-- is the item among the marks? (resource NAMES are not tracked by `Closed`; they are covered by ⊆) -/
def InMarks (m : Marks) : ShakeItem → Prop
  | .fn f => f ∈ m.fns
  | .const c => c ∈ m.consts
  | .tuple u => u ∈ m.tuples
  | .ty t => t ∈ m.types
  | .builtin b => b ∈ m.builtins
  | .res _ => True

/-- **everything reachable is marked** (given that the sweep succeeds on these marks, which is how the
    instruction operands are known to be marked) -/
theorem reach_marked {P : Prog} {e : Nat} {m : Marks} {out : ShakeOut} (hm : markAll P e false = some m)
    (hs : sweep P e m = some out) : ∀ x, Reach P e x → InMarks m x := by
  have hc := markAll_closed hm
  obtain ⟨hren, hsr⟩ := sweep_structRenaming hs hc
  obtain ⟨hTT, hIO⟩ := markAll_extra hm
  -- every instruction of a kept function has an image, i.e. its operand has a rank
  have instr : ∀ f ∈ m.fns, ∀ F, P.fns[f]? = some F → ∀ i ∈ F.instrs, ∃ i', renameInstr (shakeRen P m) i = some i' := by
    intro f hf F hF i hi
    obtain ⟨f', hf'⟩ := rankMap_get_of_mem (mem_sortAsc.mpr hf)
    have hg : out.ren.fn.get f = some f' := by rw [hren]; exact hf'
    obtain ⟨F0, F', hF0, _, _, hins, _⟩ := hsr.fns f f' hg
    rw [hF] at hF0; cases hF0
    rw [hren] at hins
    exact mapOpt_exists_of_mem hins hi
  intro x hr
  induction hr with
  | entry => exact hc.entry
  | nil => exact rank_mem hc.rank0
  | ok => exact rank_mem hc.rank1
  | fnType _ hF ih => exact hc.fns _ ih _ hF
  | callee _ hF hi ih =>
    obtain ⟨i', h'⟩ := instr _ ih _ hF _ hi
    simp only [renameInstr, Option.map_eq_some_iff] at h'
    obtain ⟨g', hg', _⟩ := h'
    exact rank_mem hg'
  | procFn _ hF hi ih =>
    obtain ⟨i', h'⟩ := instr _ ih _ hF _ hi
    simp only [renameInstr, Option.map_eq_some_iff] at h'
    obtain ⟨g', hg', _⟩ := h'
    exact rank_mem hg'
  | const _ hF hi ih =>
    obtain ⟨i', h'⟩ := instr _ ih _ hF _ hi
    simp only [renameInstr, Option.map_eq_some_iff] at h'
    obtain ⟨g', hg', _⟩ := h'
    exact rank_mem hg'
  | builtin _ hF hi ih =>
    obtain ⟨i', h'⟩ := instr _ ih _ hF _ hi
    simp only [renameInstr, Option.map_eq_some_iff] at h'
    obtain ⟨g', hg', _⟩ := h'
    exact rank_mem hg'
  | isType _ hF hi ih =>
    obtain ⟨i', h'⟩ := instr _ ih _ hF _ hi
    simp only [renameInstr, Option.map_eq_some_iff] at h'
    obtain ⟨g', hg', _⟩ := h'
    exact rank_mem hg'
  | mkTuple _ hF hi ih =>
    obtain ⟨i', h'⟩ := instr _ ih _ hF _ hi
    simp only [renameInstr, Option.map_eq_some_iff] at h'
    obtain ⟨g', hg', _⟩ := h'
    exact rank_mem hg'
  | mkTupleType _ hF hi ht ih => exact hTT _ ih _ hF _ hi _ ht
  | @child t τ x _ hτ hx ih =>
    have hmk := hc.types t ih τ hτ
    cases τ with
    | tuple id => simp [tyChildren] at hx
    | int => exact hmk x hx
    | bin => exact hmk x hx
    | ref => exact hmk x hx
    | part n fs => exact hmk x hx
    | callable p r v => exact hmk x hx
    | cycle d => exact hmk x hx
    | union ids => exact hmk x hx
    | process s r => exact hmk x hx
    | resource n => exact hmk x hx
    | var n => exact hmk x hx
  | tupleOf _ hτ ih => exact hc.types _ ih _ hτ
  | resOf _ _ _ => trivial
  | field _ hT hp ih => exact hc.tuples _ ih _ hT _ hp
  | bParam _ hB ih => exact (hc.builtins _ ih _ hB).1
  | bResult _ hB ih => exact (hc.builtins _ ih _ hB).2
  | indexOnly hτ hio _ _ ihf ihb => exact hIO rfl _ _ hτ (isIndexOnly_mono P ihf ihb hio)

end QM.Packaging
