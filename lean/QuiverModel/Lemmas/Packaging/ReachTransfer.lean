import QuiverModel.Lemmas.Packaging.Bridge
import QuiverModel.Lemmas.Packaging.Reach
import QuiverModel.Lemmas.Packaging.MarkNodup
namespace QM.Packaging

/-! ### the sweep's rank tables are onto the shaken tables and order preserving -/

theorem rank_onto {s : List Nat} (hn : s.Nodup) {j : Nat} (hj : j < s.length) :
    ∃ n, n ∈ s ∧ (rankMap s).get n = some j := by
  have hs : s[j]? = some s[j] := List.getElem?_eq_getElem hj
  have hmem : s[j] ∈ s := List.mem_of_getElem? hs
  obtain ⟨i, hi⟩ := rankMap_get_of_mem hmem
  have := nodup_getElem?_inj hn (rankMap_get hi) hs
  subst this
  exact ⟨_, hmem, hi⟩

theorem sortAsc_nodup {l : List Nat} (h : l.Nodup) : (sortAsc l).Nodup :=
  (sortAsc_perm l).nodup_iff.mpr h

theorem rank_mono {s : List Nat} (hs : s.Pairwise (· ≤ ·)) {a b i j : Nat} (ha : (rankMap s).get a = some i)
    (hb : (rankMap s).get b = some j) (hab : a < b) : i < j := by
  have h1 := rankMap_get ha
  have h2 := rankMap_get hb
  obtain ⟨hil, hix⟩ := List.getElem?_eq_some_iff.mp h1
  obtain ⟨hjl, hjx⟩ := List.getElem?_eq_some_iff.mp h2
  rcases Nat.lt_trichotomy i j with h | h | h
  · exact h
  · subst h
    rw [hix] at hjx; omega
  · have := List.pairwise_iff_getElem.mp hs j i hjl hil h
    rw [hix, hjx] at this
    omega

theorem sweep_sizes {P : Prog} {e : Nat} {m : Marks} {out : ShakeOut} (h : sweep P e m = some out) :
    out.prog.fns.size = (sortAsc m.fns).length ∧ out.prog.consts.size = (sortAsc m.consts).length ∧
    out.prog.tuples.size = (sortAsc m.tuples).length ∧ out.prog.types.size = (sortAsc m.types).length ∧
    out.prog.builtins.size = (sortAsc m.builtins).length := by
  simp only [sweep] at h
  split at h
  · rename_i fs cs ts bs ys e' hfs hcs hts hbs hys he'
    split at h
    · cases h
    · rename_i fs' hfs'
      cases h
      have l1 := (getAll_spec hfs).1
      have l2 := (getAll_spec hcs).1
      have l3 := (getAll_spec hts).1
      have l4 := (getAll_spec hbs).1
      have l5 := (getAll_spec hys).1
      have l6 := mapOpt_length hfs'
      simp only [List.size_toArray, List.length_map]
      omega
  · cases h


/-! ### reachability transfers along the sweep's renaming -/

def imgItem (ρ : Ren) : ShakeItem → Option ShakeItem
  | .fn f => (ρ.fn.get f).map .fn
  | .const c => (ρ.const.get c).map .const
  | .tuple u => (ρ.tuple.get u).map .tuple
  | .ty t => (ρ.type.get t).map .ty
  | .builtin b => (ρ.builtin.get b).map .builtin
  | .res n => some (.res n)

theorem instr_rename_mem {ρ : Ren} {is is' : List Instr} (h : renameInstrs ρ is = some is') {a a' : Instr}
    (ha : a ∈ is) (hr : renameInstr ρ a = some a') : a' ∈ is' := by
  obtain ⟨b, hb, hf⟩ := mapOpt_mem h ha
  rw [hr] at hf; cases hf; exact hb

theorem renameTy_tuple_shape {ρ : Ren} {τ : Ty} {x : Nat} (h : renameTy ρ τ = some (.tuple x)) :
    ∃ u, τ = .tuple u ∧ ρ.tuple.get u = some x := by
  cases τ with
  | tuple u =>
    simp only [renameTy, Option.map_eq_some_iff, Ty.tuple.injEq] at h
    obtain ⟨a, ha, rfl⟩ := h
    exact ⟨u, rfl, ha⟩
  | callable p r v => simp only [renameTy] at h; split at h <;> simp at h
  | process s r => simp only [renameTy] at h; split at h <;> simp at h
  | _ => simp [renameTy] at h

theorem tyChildren_rename {ρ : Ren} {τ τ' : Ty} (h : renameTy ρ τ = some τ') {x x' : Nat}
    (hx : x ∈ tyChildren τ) (hg : ρ.type.get x = some x') : x' ∈ tyChildren τ' := by
  cases τ with
  | part n fs =>
    simp only [renameTy, Option.map_eq_some_iff] at h
    obtain ⟨l', hl, rfl⟩ := h
    simp only [tyChildren, List.mem_map] at hx ⊢
    obtain ⟨p, hp, rfl⟩ := hx
    obtain ⟨b, hb, hf⟩ := mapOpt_mem hl hp
    simp only [hg, Option.map_some, Option.some.injEq] at hf
    exact ⟨b, hb, by rw [← hf]⟩
  | union ids =>
    simp only [renameTy, Option.map_eq_some_iff] at h
    obtain ⟨l', hl, rfl⟩ := h
    simp only [tyChildren] at hx ⊢
    obtain ⟨b, hb, hf⟩ := mapOpt_mem hl hx
    rw [hg] at hf; cases hf; exact hb
  | callable p r v =>
    simp only [renameTy] at h
    split at h
    · rename_i p' r' v' hp hr hv
      cases h
      simp only [tyChildren, List.mem_cons, List.not_mem_nil, or_false] at hx ⊢
      rcases hx with rfl | rfl | rfl
      · rw [hg] at hp; cases hp; exact Or.inl rfl
      · rw [hg] at hr; cases hr; exact Or.inr (Or.inl rfl)
      · rw [hg] at hv; cases hv; exact Or.inr (Or.inr rfl)
    · cases h
  | process s r =>
    simp only [renameTy] at h
    split at h
    · rename_i s' r' hs hr
      cases h
      simp only [tyChildren, List.mem_append, Option.mem_toList] at hx ⊢
      rcases hx with hx | hx
      · left
        cases s with
        | none => cases hx
        | some t =>
          cases hx
          simp only [renameOptTy, hg, Option.map_some, Option.some.injEq] at hs
          rw [← hs]
      · right
        cases r with
        | none => cases hx
        | some t =>
          cases hx
          simp only [renameOptTy, hg, Option.map_some, Option.some.injEq] at hr
          rw [← hr]
    · cases h
  | tuple u => simp [tyChildren] at hx
  | int => simp [tyChildren] at hx
  | bin => simp [tyChildren] at hx
  | ref => simp [tyChildren] at hx
  | cycle d => simp [tyChildren] at hx
  | resource n => simp [tyChildren] at hx
  | var n => simp [tyChildren] at hx

theorem reach_transfer {P P' : Prog} {e e' : Nat} {ρ : Ren} (hs : IsStructRenaming ρ P P' e e')
    (hkept : ∀ x, Reach P e x → ∃ y, imgItem ρ x = some y)
    (hfirst : ∀ u t u' t', firstTupleType P u = some t → ρ.tuple.get u = some u' → ρ.type.get t = some t' →
      firstTupleType P' u' = some t') :
    ∀ x, Reach P e x → ∀ y, imgItem ρ x = some y → Reach P' e' y := by
  intro x hr
  induction hr with
  | entry =>
    intro y hy
    simp only [imgItem, hs.entry, Option.map_some, Option.some.injEq] at hy
    subst hy; exact Reach.entry
  | nil =>
    intro y hy
    simp only [imgItem, hs.nil_fixed, Option.map_some, Option.some.injEq] at hy
    subst hy; exact Reach.nil
  | ok =>
    intro y hy
    simp only [imgItem, hs.ok_fixed, Option.map_some, Option.some.injEq] at hy
    subst hy; exact Reach.ok
  | @fnType f F hr hF ih =>
    intro y hy
    obtain ⟨yf, hyf⟩ := hkept _ hr
    simp only [imgItem, Option.map_eq_some_iff] at hyf hy
    obtain ⟨f', hf', rfl⟩ := hyf
    obtain ⟨t', ht', rfl⟩ := hy
    obtain ⟨F0, F', hF0, hF', _, _, htid⟩ := hs.fns f f' hf'
    rw [hF] at hF0; cases hF0
    rw [ht'] at htid; cases htid
    exact Reach.fnType (ih _ (by simp [imgItem, hf'])) hF'
  | @callee f F g hr hF hi ih =>
    intro y hy
    obtain ⟨yf, hyf⟩ := hkept _ hr
    simp only [imgItem, Option.map_eq_some_iff] at hyf hy
    obtain ⟨f', hf', rfl⟩ := hyf
    obtain ⟨g', hg', rfl⟩ := hy
    obtain ⟨F0, F', hF0, hF', _, hins, _⟩ := hs.fns f f' hf'
    rw [hF] at hF0; cases hF0
    have hmem : Instr.function g' ∈ F'.instrs := instr_rename_mem hins hi (by simp [renameInstr, hg'])
    exact Reach.callee (ih _ (by simp [imgItem, hf'])) hF' hmem
  | @procFn f F pid g hr hF hi ih =>
    intro y hy
    obtain ⟨yf, hyf⟩ := hkept _ hr
    simp only [imgItem, Option.map_eq_some_iff] at hyf hy
    obtain ⟨f', hf', rfl⟩ := hyf
    obtain ⟨g', hg', rfl⟩ := hy
    obtain ⟨F0, F', hF0, hF', _, hins, _⟩ := hs.fns f f' hf'
    rw [hF] at hF0; cases hF0
    have hmem : Instr.process pid g' ∈ F'.instrs := instr_rename_mem hins hi (by simp [renameInstr, hg'])
    exact Reach.procFn (ih _ (by simp [imgItem, hf'])) hF' hmem
  | @const f F g hr hF hi ih =>
    intro y hy
    obtain ⟨yf, hyf⟩ := hkept _ hr
    simp only [imgItem, Option.map_eq_some_iff] at hyf hy
    obtain ⟨f', hf', rfl⟩ := hyf
    obtain ⟨g', hg', rfl⟩ := hy
    obtain ⟨F0, F', hF0, hF', _, hins, _⟩ := hs.fns f f' hf'
    rw [hF] at hF0; cases hF0
    have hmem : Instr.const g' ∈ F'.instrs := instr_rename_mem hins hi (by simp [renameInstr, hg'])
    exact Reach.const (ih _ (by simp [imgItem, hf'])) hF' hmem
  | @builtin f F g hr hF hi ih =>
    intro y hy
    obtain ⟨yf, hyf⟩ := hkept _ hr
    simp only [imgItem, Option.map_eq_some_iff] at hyf hy
    obtain ⟨f', hf', rfl⟩ := hyf
    obtain ⟨g', hg', rfl⟩ := hy
    obtain ⟨F0, F', hF0, hF', _, hins, _⟩ := hs.fns f f' hf'
    rw [hF] at hF0; cases hF0
    have hmem : Instr.builtin g' ∈ F'.instrs := instr_rename_mem hins hi (by simp [renameInstr, hg'])
    exact Reach.builtin (ih _ (by simp [imgItem, hf'])) hF' hmem
  | @isType f F g hr hF hi ih =>
    intro y hy
    obtain ⟨yf, hyf⟩ := hkept _ hr
    simp only [imgItem, Option.map_eq_some_iff] at hyf hy
    obtain ⟨f', hf', rfl⟩ := hyf
    obtain ⟨g', hg', rfl⟩ := hy
    obtain ⟨F0, F', hF0, hF', _, hins, _⟩ := hs.fns f f' hf'
    rw [hF] at hF0; cases hF0
    have hmem : Instr.isType g' ∈ F'.instrs := instr_rename_mem hins hi (by simp [renameInstr, hg'])
    exact Reach.isType (ih _ (by simp [imgItem, hf'])) hF' hmem
  | @mkTuple f F g hr hF hi ih =>
    intro y hy
    obtain ⟨yf, hyf⟩ := hkept _ hr
    simp only [imgItem, Option.map_eq_some_iff] at hyf hy
    obtain ⟨f', hf', rfl⟩ := hyf
    obtain ⟨g', hg', rfl⟩ := hy
    obtain ⟨F0, F', hF0, hF', _, hins, _⟩ := hs.fns f f' hf'
    rw [hF] at hF0; cases hF0
    have hmem : Instr.tuple g' ∈ F'.instrs := instr_rename_mem hins hi (by simp [renameInstr, hg'])
    exact Reach.mkTuple (ih _ (by simp [imgItem, hf'])) hF' hmem
  | @mkTupleType f F u t hr hF hi ht ih =>
    intro y hy
    obtain ⟨yf, hyf⟩ := hkept _ hr
    obtain ⟨yu, hyu⟩ := hkept _ (Reach.mkTuple hr hF hi)
    simp only [imgItem, Option.map_eq_some_iff] at hyf hy hyu
    obtain ⟨f', hf', rfl⟩ := hyf
    obtain ⟨t', ht', rfl⟩ := hy
    obtain ⟨u', hu', rfl⟩ := hyu
    obtain ⟨F0, F', hF0, hF', _, hins, _⟩ := hs.fns f f' hf'
    rw [hF] at hF0; cases hF0
    have hmem : Instr.tuple u' ∈ F'.instrs := instr_rename_mem hins hi (by simp [renameInstr, hu'])
    exact Reach.mkTupleType (ih _ (by simp [imgItem, hf'])) hF' hmem (hfirst u t u' t' ht hu' ht')
  | @child t τ x hr hτ hx ih =>
    intro y hy
    obtain ⟨yt, hyt⟩ := hkept _ hr
    simp only [imgItem, Option.map_eq_some_iff] at hyt hy
    obtain ⟨t', ht', rfl⟩ := hyt
    obtain ⟨x', hx', rfl⟩ := hy
    obtain ⟨τ0, τ', hτ0, hτ', hrt⟩ := hs.types t t' ht'
    rw [hτ] at hτ0; cases hτ0
    exact Reach.child (ih _ (by simp [imgItem, ht'])) hτ' (tyChildren_rename hrt hx hx')
  | @tupleOf t id hr hτ ih =>
    intro y hy
    obtain ⟨yt, hyt⟩ := hkept _ hr
    simp only [imgItem, Option.map_eq_some_iff] at hyt hy
    obtain ⟨t', ht', rfl⟩ := hyt
    obtain ⟨id', hid', rfl⟩ := hy
    obtain ⟨τ0, τ', hτ0, hτ', hrt⟩ := hs.types t t' ht'
    rw [hτ] at hτ0; cases hτ0
    simp only [renameTy, hid', Option.map_some, Option.some.injEq] at hrt
    subst hrt
    exact Reach.tupleOf (ih _ (by simp [imgItem, ht'])) hτ'
  | @resOf t n hr hτ ih =>
    intro y hy
    obtain ⟨yt, hyt⟩ := hkept _ hr
    simp only [imgItem, Option.map_eq_some_iff, Option.some.injEq] at hyt hy
    obtain ⟨t', ht', rfl⟩ := hyt
    subst hy
    obtain ⟨τ0, τ', hτ0, hτ', hrt⟩ := hs.types t t' ht'
    rw [hτ] at hτ0; cases hτ0
    simp only [renameTy, Option.some.injEq] at hrt
    subst hrt
    exact Reach.resOf (ih _ (by simp [imgItem, ht'])) hτ'
  | @field u T p hr hT hp ih =>
    intro y hy
    obtain ⟨yu, hyu⟩ := hkept _ hr
    simp only [imgItem, Option.map_eq_some_iff] at hyu hy
    obtain ⟨u', hu', rfl⟩ := hyu
    obtain ⟨x', hx', rfl⟩ := hy
    obtain ⟨T0, T', hT0, hT', _, _, hmap⟩ := hs.tuples u u' hu'
    rw [hT] at hT0; cases hT0
    obtain ⟨b, hb, hf⟩ := mapOpt_mem hmap hp
    rw [hx'] at hf; cases hf
    obtain ⟨p', hp', rfl⟩ := List.mem_map.mp hb
    exact Reach.field (ih _ (by simp [imgItem, hu'])) hT' hp'
  | @bParam b B hr hB ih =>
    intro y hy
    obtain ⟨yb, hyb⟩ := hkept _ hr
    simp only [imgItem, Option.map_eq_some_iff] at hyb hy
    obtain ⟨b', hb', rfl⟩ := hyb
    obtain ⟨t', ht', rfl⟩ := hy
    obtain ⟨B0, B', hB0, hB', _, hp, _⟩ := hs.builtins b b' hb'
    rw [hB] at hB0; cases hB0
    rw [ht'] at hp; cases hp
    exact Reach.bParam (ih _ (by simp [imgItem, hb'])) hB'
  | @bResult b B hr hB ih =>
    intro y hy
    obtain ⟨yb, hyb⟩ := hkept _ hr
    simp only [imgItem, Option.map_eq_some_iff] at hyb hy
    obtain ⟨b', hb', rfl⟩ := hyb
    obtain ⟨t', ht', rfl⟩ := hy
    obtain ⟨B0, B', hB0, hB', _, _, hp⟩ := hs.builtins b b' hb'
    rw [hB] at hB0; cases hB0
    rw [ht'] at hp; cases hp
    exact Reach.bResult (ih _ (by simp [imgItem, hb'])) hB'
  | @indexOnly t τ m0 hτ hio hfs hbs ihf ihb =>
    intro y hy
    simp only [imgItem, Option.map_eq_some_iff] at hy
    obtain ⟨t', ht', rfl⟩ := hy
    obtain ⟨τ0, τ', hτ0, hτ', hrt⟩ := hs.types t t' ht'
    rw [hτ] at hτ0; cases hτ0
    let m0' : Marks := { fns := m0.fns.filterMap ρ.fn.get, builtins := m0.builtins.filterMap ρ.builtin.get }
    have hfs' : ∀ f' ∈ m0'.fns, Reach P' e' (.fn f') := by
      intro f' hf'
      obtain ⟨f, hf, hg⟩ := List.mem_filterMap.mp hf'
      exact ihf f hf _ (by simp [imgItem, hg])
    have hbs' : ∀ b' ∈ m0'.builtins, Reach P' e' (.builtin b') := by
      intro b' hb'
      obtain ⟨b, hb, hg⟩ := List.mem_filterMap.mp hb'
      exact ihb b hb _ (by simp [imgItem, hg])
    refine Reach.indexOnly (m := m0') hτ' ?_ hfs' hbs'
    cases τ with
    | process s r =>
      cases s with
      | none => simp [isIndexOnly] at hio
      | some s =>
        cases r with
        | none => simp [isIndexOnly] at hio
        | some r =>
          simp only [isIndexOnly, List.any_eq_true] at hio
          obtain ⟨f, hfm, hp⟩ := hio
          obtain ⟨yf, hyf⟩ := hkept _ (hfs f hfm)
          simp only [imgItem, Option.map_eq_some_iff] at hyf
          obtain ⟨f', hf', rfl⟩ := hyf
          obtain ⟨F, F', hF, hF', _, _, htid⟩ := hs.fns f f' hf'
          rw [hF] at hp
          simp only at hp
          cases hcal : P.types[F.typeId]? with
          | none => rw [hcal] at hp; cases hp
          | some σ =>
            rw [hcal] at hp
            cases σ with
            | callable p0 result fnRecv =>
              simp only [Bool.and_eq_true, beq_iff_eq] at hp
              obtain ⟨rfl, rfl⟩ := hp
              obtain ⟨σ0, σ', hσ0, hσ', hrs⟩ := hs.types F.typeId F'.typeId htid
              rw [hcal] at hσ0; cases hσ0
              simp only [renameTy] at hrs
              split at hrs
              · rename_i p2 r2 v2 _ hr2 hv2
                cases hrs
                simp only [renameTy, renameOptTy, hr2, hv2, Option.map_some] at hrt
                cases hrt
                simp only [isIndexOnly, List.any_eq_true]
                exact ⟨f', List.mem_filterMap.mpr ⟨f, hfm, hf'⟩, by simp [hF', hσ']⟩
              · cases hrs
            | _ => cases hp
    | callable p r v =>
      simp only [isIndexOnly, Bool.and_eq_true, List.any_eq_true] at hio
      obtain ⟨hv, b, hbm, hp⟩ := hio
      obtain ⟨yb, hyb⟩ := hkept _ (hbs b hbm)
      simp only [imgItem, Option.map_eq_some_iff] at hyb
      obtain ⟨b', hb', rfl⟩ := hyb
      obtain ⟨B, B', hB, hB', _, hpt, hrs⟩ := hs.builtins b b' hb'
      rw [hB] at hp
      simp only [Bool.and_eq_true, beq_iff_eq] at hp
      obtain ⟨rfl, rfl⟩ := hp
      simp only [renameTy] at hrt
      split at hrt
      · rename_i p2 r2 v2 hp2 hr2 hv2
        cases hrt
        rw [hpt] at hp2; cases hp2
        rw [hrs] at hr2; cases hr2
        have hnev : P'.isNeverTy v2 = true := by
          simp only [Prog.isNeverTy] at hv
          split at hv
          · rename_i hu
            obtain ⟨υ0, υ', hυ0, hυ', hru⟩ := hs.types v v2 hv2
            rw [hu] at hυ0; cases hυ0
            simp only [renameTy, mapOpt, Option.map_some] at hru
            cases hru
            simp [Prog.isNeverTy, hυ']
          · cases hv
        simp only [isIndexOnly, Bool.and_eq_true, List.any_eq_true]
        exact ⟨hnev, b', List.mem_filterMap.mpr ⟨b, hbm, hb'⟩, by simp [hB']⟩
      · cases hrt
    | int => simp [isIndexOnly] at hio
    | bin => simp [isIndexOnly] at hio
    | ref => simp [isIndexOnly] at hio
    | tuple id => simp [isIndexOnly] at hio
    | part n fs => simp [isIndexOnly] at hio
    | cycle d => simp [isIndexOnly] at hio
    | union ids => simp [isIndexOnly] at hio
    | resource n => simp [isIndexOnly] at hio
    | var n => simp [isIndexOnly] at hio


/-- the sweep is order preserving, so the FIRST `Type::Tuple(u)` entry stays the first -/
theorem shake_first_tuple {P : Prog} {e : Nat} {m : Marks} {out : ShakeOut} (h : sweep P e m = some out)
    (hc : Closed P e m) :
    ∀ u t u' t', firstTupleType P u = some t → (shakeRen P m).tuple.get u = some u' →
      (shakeRen P m).type.get t = some t' → firstTupleType out.prog u' = some t' := by
  obtain ⟨hren, hs⟩ := sweep_structRenaming h hc
  rw [hren] at hs
  have hsz := (sweep_sizes h).2.2.2.1
  intro u t u' t' hfirst hu ht
  have hty : (shakeRen P m).type = rankMap (sortAsc m.types) := rfl
  unfold firstTupleType at hfirst ⊢
  obtain ⟨htl, hpt, hmin⟩ := List.findIdx?_eq_some_iff_getElem.mp hfirst
  obtain ⟨τ0, τ', hτ0, hτ', hrt⟩ := hs.types t t' ht
  have hPt : P.types[t]? = some (Ty.tuple u) := by
    have h1 : P.types.toList[t]? = some P.types.toList[t] := List.getElem?_eq_getElem htl
    have h2 : P.types.toList[t] = Ty.tuple u := by simpa using hpt
    rw [h2] at h1
    simpa using h1
  rw [hPt] at hτ0; cases hτ0
  simp only [renameTy, hu, Option.map_some, Option.some.injEq] at hrt
  subst hrt
  have ht'l : t' < out.prog.types.toList.length := by
    rcases Nat.lt_or_ge t' out.prog.types.size with h1 | h1
    · simpa using h1
    · rw [Array.getElem?_eq_none h1] at hτ'; cases hτ'
  refine List.findIdx?_eq_some_iff_getElem.mpr ⟨ht'l, ?_, ?_⟩
  · have h1 : out.prog.types.toList[t']? = some (Ty.tuple u') := by simpa using hτ'
    have := (List.getElem?_eq_some_iff.mp h1).2
    simp [this]
  · intro j hj hpj
    have hjl : j < out.prog.types.toList.length := Nat.lt_trans hj ht'l
    have hjs : j < (sortAsc m.types).length := by rw [← hsz]; simpa using hjl
    obtain ⟨n, _, hn⟩ := rank_onto (sortAsc_nodup hc.nodupTypes) hjs
    have hn' : (shakeRen P m).type.get n = some j := by rw [hty]; exact hn
    obtain ⟨τn, τj, hτn, hτj, hrn⟩ := hs.types n j hn'
    have hj2 : out.prog.types.toList[j] = Ty.tuple u' := by simpa using hpj
    have hτj' : out.prog.types[j]? = some (Ty.tuple u') := by
      have h1 : out.prog.types.toList[j]? = some out.prog.types.toList[j] := List.getElem?_eq_getElem hjl
      rw [hj2] at h1
      simpa using h1
    rw [hτj] at hτj'; cases hτj'
    obtain ⟨u2, rfl, hu2⟩ := renameTy_tuple_shape hrn
    have hu2u : u2 = u := hs.inj_tuple u2 u u' hu2 hu
    subst hu2u
    -- `n` holds `Tuple(u)` in `P`, so it is not before the first one
    have hnt : ¬ n < t := by
      intro hlt
      have hnl : n < P.types.toList.length := Nat.lt_trans hlt htl
      have h1 : P.types.toList[n]? = some (Ty.tuple u2) := by simpa using hτn
      have := (List.getElem?_eq_some_iff.mp h1).2
      exact hmin n hlt (by simp [this])
    rcases Nat.lt_or_ge t n with hlt | hge
    · have ht2 : (rankMap (sortAsc m.types)).get t = some t' := by rw [← hty]; exact ht
      have := rank_mono (sortAsc_sorted m.types) ht2 hn hlt
      omega
    · have : n = t := by omega
      subst this
      rw [hn'] at ht; cases ht
      omega

/-- **The shaken program has no dead entry**: every function, constant, tuple, type and builtin of
    `tree_shake(P, e)` is reachable from the new entry IN the shaken program (the semantic half of idempotence:
    a second shake has nothing to drop). -/
theorem shaken_all_reachable {P : Prog} {e : Nat} {m : Marks} {out : ShakeOut} (hm : markAll P e false = some m)
    (h : sweep P e m = some out) :
    (∀ f, f < out.prog.fns.size → Reach out.prog out.entry (.fn f)) ∧
    (∀ c, c < out.prog.consts.size → Reach out.prog out.entry (.const c)) ∧
    (∀ u, u < out.prog.tuples.size → Reach out.prog out.entry (.tuple u)) ∧
    (∀ t, t < out.prog.types.size → Reach out.prog out.entry (.ty t)) ∧
    (∀ b, b < out.prog.builtins.size → Reach out.prog out.entry (.builtin b)) := by
  have hc := markAll_closed hm
  obtain ⟨hren, hs⟩ := sweep_structRenaming h hc
  have hj := markAll_just hm
  have hmk := reach_marked hm h
  obtain ⟨n1, n2, n3⟩ := markAll_nodup hm
  obtain ⟨s1, s2, s3, s4, s5⟩ := sweep_sizes h
  have hkept : ∀ x, Reach P e x → ∃ y, imgItem out.ren x = some y := by
    intro x hx
    have := hmk x hx
    rw [hren]
    cases x with
    | fn f => obtain ⟨i, hi⟩ := rankMap_get_of_mem (mem_sortAsc.mpr this); exact ⟨.fn i, by simp [imgItem, shakeRen, hi]⟩
    | const f => obtain ⟨i, hi⟩ := rankMap_get_of_mem (mem_sortAsc.mpr this); exact ⟨.const i, by simp [imgItem, shakeRen, hi]⟩
    | tuple f => obtain ⟨i, hi⟩ := rankMap_get_of_mem (mem_sortAsc.mpr this); exact ⟨.tuple i, by simp [imgItem, shakeRen, hi]⟩
    | ty f => obtain ⟨i, hi⟩ := rankMap_get_of_mem (mem_sortAsc.mpr this); exact ⟨.ty i, by simp [imgItem, shakeRen, hi]⟩
    | builtin f => obtain ⟨i, hi⟩ := rankMap_get_of_mem (mem_sortAsc.mpr this); exact ⟨.builtin i, by simp [imgItem, shakeRen, hi]⟩
    | res n => exact ⟨.res n, rfl⟩
  have hfirst : ∀ u t u' t', firstTupleType P u = some t → out.ren.tuple.get u = some u' →
      out.ren.type.get t = some t' → firstTupleType out.prog u' = some t' := by
    rw [hren]; exact shake_first_tuple h hc
  have tr := reach_transfer hs hkept hfirst
  refine ⟨fun f hf => ?_, fun c hcc => ?_, fun u hu => ?_, fun t ht => ?_, fun b hb => ?_⟩
  · obtain ⟨n, hn, hg⟩ := rank_onto (sortAsc_nodup n1) (by rw [← s1]; exact hf)
    exact tr _ (hj.fns n (mem_sortAsc.mp hn)) _ (by rw [hren]; simp [imgItem, shakeRen, hg])
  · obtain ⟨n, hn, hg⟩ := rank_onto (sortAsc_nodup n2) (by rw [← s2]; exact hcc)
    exact tr _ (hj.consts n (mem_sortAsc.mp hn)) _ (by rw [hren]; simp [imgItem, shakeRen, hg])
  · obtain ⟨n, hn, hg⟩ := rank_onto (sortAsc_nodup hc.nodupTuples) (by rw [← s3]; exact hu)
    exact tr _ (hj.tuples n (mem_sortAsc.mp hn)) _ (by rw [hren]; simp [imgItem, shakeRen, hg])
  · obtain ⟨n, hn, hg⟩ := rank_onto (sortAsc_nodup hc.nodupTypes) (by rw [← s4]; exact ht)
    exact tr _ (hj.types n (mem_sortAsc.mp hn)) _ (by rw [hren]; simp [imgItem, shakeRen, hg])
  · obtain ⟨n, hn, hg⟩ := rank_onto (sortAsc_nodup n3) (by rw [← s5]; exact hb)
    exact tr _ (hj.builtins n (mem_sortAsc.mp hn)) _ (by rw [hren]; simp [imgItem, shakeRen, hg])

end QM.Packaging
