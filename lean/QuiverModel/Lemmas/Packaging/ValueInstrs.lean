import QuiverModel.Core.Packaging.ValueInstrs
/-
Lemmas for the value → instructions round trip (C10). (Owner: C10.)
-/
namespace QM.Packaging

/-- `Q` extends `P`: every constant / function / tuple entry of `P` is still there at the same index
    (programs grow append-only), and no builtin disappeared. -/
structure Prog.Le (P Q : Prog) : Prop where
  consts : ∀ (i : Nat) (k : Const), P.consts[i]? = some k → Q.consts[i]? = some k
  fns : ∀ (i : Nat) (F : Fn), P.fns[i]? = some F → Q.fns[i]? = some F
  tuples : ∀ (i : Nat) (T : TupleInfo), P.tuples[i]? = some T → Q.tuples[i]? = some T
  builtins : P.builtins.size ≤ Q.builtins.size

theorem Prog.Le.refl (P : Prog) : P.Le P := ⟨fun _ _ h => h, fun _ _ h => h, fun _ _ h => h, Nat.le_refl _⟩

theorem Prog.Le.trans {P Q R : Prog} (h1 : P.Le Q) (h2 : Q.Le R) : P.Le R :=
  ⟨fun i k h => h2.consts i k (h1.consts i k h), fun i F h => h2.fns i F (h1.fns i F h),
   fun i T h => h2.tuples i T (h1.tuples i T h), Nat.le_trans h1.builtins h2.builtins⟩

theorem indexOf?_get {k : Const} {l : List Const} {i : Nat} (h : indexOf? k l = some i) : l[i]? = some k := by
  induction l generalizing i with
  | nil => simp [indexOf?] at h
  | cons c cs ih =>
    simp only [indexOf?] at h
    split at h
    · rename_i hc
      cases h
      have : c = k := by simpa using hc
      simp [this]
    · simp only [Option.map_eq_some_iff] at h
      obtain ⟨j, hj, rfl⟩ := h
      simpa using ih hj

theorem getElem?_push_of_some {α : Type} {a : Array α} {x y : α} {i : Nat} (h : a[i]? = some y) :
    (a.push x)[i]? = some y := by
  rw [Array.getElem?_push]
  split
  · rename_i hi
    subst hi
    simp at h
  · exact h

theorem registerConst_le (P : Prog) (k : Const) : P.Le (P.registerConst k).1 := by
  unfold Prog.registerConst
  split
  · exact Prog.Le.refl P
  · exact ⟨fun i c h => getElem?_push_of_some h, fun _ _ h => h, fun _ _ h => h, Nat.le_refl _⟩

theorem registerConst_get (P : Prog) (k : Const) :
    (P.registerConst k).1.consts[(P.registerConst k).2]? = some k := by
  unfold Prog.registerConst
  split
  · rename_i i hi
    have := indexOf?_get hi
    simpa using this
  · simp

theorem fnIndexOf?_get {F : Fn} {l : List Fn} {i : Nat} (h : fnIndexOf? F l = some i) : l[i]? = some F := by
  induction l generalizing i with
  | nil => simp [fnIndexOf?] at h
  | cons c cs ih =>
    simp only [fnIndexOf?] at h
    split at h
    · rename_i hc
      cases h
      have : c = F := by simpa using hc
      simp [this]
    · simp only [Option.map_eq_some_iff] at h
      obtain ⟨j, hj, rfl⟩ := h
      simpa using ih hj

theorem registerFn_le (P : Prog) (F : Fn) : P.Le (P.registerFn F).1 := by
  unfold Prog.registerFn
  split
  · exact Prog.Le.refl P
  · exact ⟨fun _ _ h => h, fun i c h => getElem?_push_of_some h, fun _ _ h => h, Nat.le_refl _⟩

theorem registerFn_get (P : Prog) (F : Fn) : (P.registerFn F).1.fns[(P.registerFn F).2]? = some F := by
  unfold Prog.registerFn
  split
  · rename_i i hi
    have := fnIndexOf?_get hi
    simpa using this
  · simp

mutual
/-- A value all of whose ids resolve in `P` with the right arities (what the VM can have built). -/
def WfVal (P : Prog) : Val → Prop
  | .int _ => True
  | .bin _ => True
  | .tuple t fs => (∃ T, P.tuples[t]? = some T ∧ T.fields.length = fs.length) ∧ WfVals P fs
  | .fn f cs => (∃ F, P.fns[f]? = some F ∧ F.captures = cs.length) ∧ WfVals P cs
  | .builtin b => b < P.builtins.size
  | .ref _ => False
  | .proc _ _ => False
  | .res _ _ => False
def WfVals (P : Prog) : List Val → Prop
  | [] => True
  | v :: vs => WfVal P v ∧ WfVals P vs
end

mutual
theorem WfVal.mono {P Q : Prog} (h : P.Le Q) : ∀ (v : Val), WfVal P v → WfVal Q v
  | .int _, _ => trivial
  | .bin _, _ => trivial
  | .tuple _ fs, hw => by
    obtain ⟨⟨T, hT, hlen⟩, hfs⟩ := hw
    exact ⟨⟨T, h.tuples _ _ hT, hlen⟩, WfVals.mono h fs hfs⟩
  | .fn _ cs, hw => by
    obtain ⟨⟨F, hF, hlen⟩, hcs⟩ := hw
    exact ⟨⟨F, h.fns _ _ hF, hlen⟩, WfVals.mono h cs hcs⟩
  | .builtin _, hw => Nat.lt_of_lt_of_le hw h.builtins
  | .ref _, hw => hw.elim
  | .proc _ _, hw => hw.elim
  | .res _ _, hw => hw.elim
theorem WfVals.mono {P Q : Prog} (h : P.Le Q) : ∀ (vs : List Val), WfVals P vs → WfVals Q vs
  | [], _ => trivial
  | v :: vs, hw => ⟨WfVal.mono h v hw.1, WfVals.mono h vs hw.2⟩
end

/-- The instruction list `is` sits in function `fn` of `Q` starting at `pc`. -/
def CodeAt (Q : Prog) (fn pc : Nat) (is : List Instr) : Prop :=
  ∀ k i, is[k]? = some i → ∃ F, Q.fns[fn]? = some F ∧ F.instrs[pc + k]? = some i

theorem CodeAt.left {Q : Prog} {fn pc : Nat} {i1 i2 : List Instr} (h : CodeAt Q fn pc (i1 ++ i2)) :
    CodeAt Q fn pc i1 := by
  intro k i hk
  have hlt : k < i1.length := by
    rcases Nat.lt_or_ge k i1.length with h | h
    · exact h
    · rw [List.getElem?_eq_none h] at hk; cases hk
  exact h k i (by rw [List.getElem?_append_left hlt]; exact hk)

theorem CodeAt.right {Q : Prog} {fn pc : Nat} {i1 i2 : List Instr} (h : CodeAt Q fn pc (i1 ++ i2)) :
    CodeAt Q fn (pc + i1.length) i2 := by
  intro k i hk
  have := h (i1.length + k) i (by rw [List.getElem?_append_right (Nat.le_add_right _ _)]; simpa using hk)
  simpa [Nat.add_assoc] using this

theorem CodeAt.head {Q : Prog} {fn pc : Nat} {i : Instr} {is : List Instr} (h : CodeAt Q fn pc (i :: is)) :
    fetch Q { fn := fn, base := b, caps := c, pc := pc } = some i := by
  obtain ⟨F, hF, hi⟩ := h 0 i (by simp)
  simp only [fetch, hF]
  simpa using hi

theorem take_rev_append {α : Type} (l S : List α) : (l.reverse ++ S).take l.length = l.reverse := by
  simp

theorem drop_rev_append {α : Type} (l S : List α) : (l.reverse ++ S).drop l.length = S := by
  simp

end QM.Packaging

namespace QM.Packaging

/-! ### Single steps of the four emitted instruction kinds -/

theorem step_const_int {Q : Prog} {B : BuiltinSem} {S L : List Val} {fn base caps pc : Nat}
    {rest : List Frame} {pers : Bool} {i : Nat} {z : Int}
    (hf : fetch Q ⟨fn, base, caps, pc⟩ = some (.const i)) (hk : Q.consts[i]? = some (.int z)) :
    step Q B ⟨S, L, ⟨fn, base, caps, pc⟩ :: rest, pers⟩ =
      .next ⟨.int z :: S, L, ⟨fn, base, caps, pc + 1⟩ :: rest, pers⟩ := by
  simp [step, hf, exec, hk, cont, advance]

theorem step_const_bin {Q : Prog} {B : BuiltinSem} {S L : List Val} {fn base caps pc : Nat}
    {rest : List Frame} {pers : Bool} {i : Nat} {bs : List UInt8}
    (hf : fetch Q ⟨fn, base, caps, pc⟩ = some (.const i)) (hk : Q.consts[i]? = some (.bin bs)) :
    step Q B ⟨S, L, ⟨fn, base, caps, pc⟩ :: rest, pers⟩ =
      .next ⟨.bin bs :: S, L, ⟨fn, base, caps, pc + 1⟩ :: rest, pers⟩ := by
  simp [step, hf, exec, hk, cont, advance]

theorem step_tuple {Q : Prog} {B : BuiltinSem} {S L fs : List Val} {fn base caps pc : Nat}
    {rest : List Frame} {pers : Bool} {t : Nat} {T : TupleInfo}
    (hf : fetch Q ⟨fn, base, caps, pc⟩ = some (.tuple t)) (hT : Q.tuples[t]? = some T)
    (hlen : T.fields.length = fs.length) :
    step Q B ⟨fs.reverse ++ S, L, ⟨fn, base, caps, pc⟩ :: rest, pers⟩ =
      .next ⟨.tuple t fs :: S, L, ⟨fn, base, caps, pc + 1⟩ :: rest, pers⟩ := by
  have h1 : ¬ ((fs.reverse ++ S).length < fs.length) := by simp
  simp only [step, hf, exec, hT, hlen, h1, if_false, cont, advance, take_rev_append, drop_rev_append,
    List.reverse_reverse]

theorem step_function {Q : Prog} {B : BuiltinSem} {S L cs : List Val} {fn base caps pc : Nat}
    {rest : List Frame} {pers : Bool} {f : Nat} {F : Fn}
    (hf : fetch Q ⟨fn, base, caps, pc⟩ = some (.function f)) (hF : Q.fns[f]? = some F)
    (hlen : F.captures = cs.length) :
    step Q B ⟨cs.reverse ++ S, L, ⟨fn, base, caps, pc⟩ :: rest, pers⟩ =
      .next ⟨.fn f cs :: S, L, ⟨fn, base, caps, pc + 1⟩ :: rest, pers⟩ := by
  have h1 : ¬ ((cs.reverse ++ S).length < cs.length) := by simp
  simp only [step, hf, exec, hF, hlen, h1, if_false, cont, advance, take_rev_append, drop_rev_append,
    List.reverse_reverse]

theorem step_builtin {Q : Prog} {B : BuiltinSem} {S L : List Val} {fn base caps pc : Nat}
    {rest : List Frame} {pers : Bool} {b : Nat}
    (hf : fetch Q ⟨fn, base, caps, pc⟩ = some (.builtin b)) (hb : b < Q.builtins.size) :
    step Q B ⟨S, L, ⟨fn, base, caps, pc⟩ :: rest, pers⟩ =
      .next ⟨.builtin b :: S, L, ⟨fn, base, caps, pc + 1⟩ :: rest, pers⟩ := by
  simp [step, hf, exec, hb, cont, advance]

theorem step_store {Q : Prog} {B : BuiltinSem} {S L : List Val} {v : Val} {fn base caps pc : Nat}
    {rest : List Frame} {pers : Bool}
    (hf : fetch Q ⟨fn, base, caps, pc⟩ = some .store) :
    step Q B ⟨v :: S, L, ⟨fn, base, caps, pc⟩ :: rest, pers⟩ =
      .next ⟨S, L ++ [v], ⟨fn, base, caps, pc + 1⟩ :: rest, pers⟩ := by
  simp [step, hf, exec, advance]

/-- What running an emitted sequence means: from any stack `S`, in any frame whose code contains the
    sequence at `pc`, in any program extending the one the sequence was emitted into. -/
def Rebuilds (P1 : Prog) (is : List Instr) (result : List Val) : Prop :=
  ∀ (Q : Prog), P1.Le Q → ∀ (B : BuiltinSem) (S L : List Val) (fn base caps pc : Nat) (rest : List Frame)
    (pers : Bool), CodeAt Q fn pc is →
    Steps Q B ⟨S, L, ⟨fn, base, caps, pc⟩ :: rest, pers⟩
              ⟨result ++ S, L, ⟨fn, base, caps, pc + is.length⟩ :: rest, pers⟩

theorem Rebuilds.append {P1 : Prog} {i1 i2 : List Instr} {r1 r2 : List Val}
    (h1 : Rebuilds P1 i1 r1) (h2 : Rebuilds P1 i2 r2) : Rebuilds P1 (i1 ++ i2) (r2 ++ r1) := by
  intro Q hQ B S L fn base caps pc rest pers hcode
  have s1 := h1 Q hQ B S L fn base caps pc rest pers hcode.left
  have s2 := h2 Q hQ B (r1 ++ S) L fn base caps (pc + i1.length) rest pers hcode.right
  have hpc : pc + i1.length + i2.length = pc + (i1 ++ i2).length := by simp [Nat.add_assoc]
  rw [hpc] at s2
  simpa [List.append_assoc] using s1.trans s2

mutual
/-- Running the instructions `value_to_instructions_from_cache` emits for `v` pushes exactly `v`. -/
theorem v2iA_rebuilds : ∀ (v : Val) (P P1 : Prog) (is : List Instr), v2iA P v = some (P1, is) → WfVal P v →
    P.Le P1 ∧ Rebuilds P1 is [v]
  | .int z, P, P1, is, h, _ => by
    simp only [v2iA, Option.some.injEq, Prod.mk.injEq] at h
    obtain ⟨rfl, rfl⟩ := h
    refine ⟨registerConst_le P _, ?_⟩
    intro Q hQ B S L fn base caps pc rest pers hcode
    exact Steps.single (step_const_int hcode.head (hQ.consts _ _ (registerConst_get P _)))
  | .bin bs, P, P1, is, h, _ => by
    simp only [v2iA, Option.some.injEq, Prod.mk.injEq] at h
    obtain ⟨rfl, rfl⟩ := h
    refine ⟨registerConst_le P _, ?_⟩
    intro Q hQ B S L fn base caps pc rest pers hcode
    exact Steps.single (step_const_bin hcode.head (hQ.consts _ _ (registerConst_get P _)))
  | .tuple t fs, P, P1, is, h, hw => by
    obtain ⟨⟨T, hT, hlen⟩, hfs⟩ := hw
    simp only [v2iA] at h
    split at h
    · rename_i P1' is' hlist
      simp only [Option.some.injEq, Prod.mk.injEq] at h
      obtain ⟨rfl, rfl⟩ := h
      obtain ⟨hle, hreb⟩ := v2iAList_rebuilds fs P P1' is' hlist hfs
      refine ⟨hle, ?_⟩
      intro Q hQ B S L fn base caps pc rest pers hcode
      have s1 := hreb Q hQ B S L fn base caps pc rest pers hcode.left
      have hfetch : fetch Q ⟨fn, base, caps, pc + is'.length⟩ = some (.tuple t) := hcode.right.head
      have s2 := Steps.single (B := B) (step_tuple (S := S) (L := L) (rest := rest) (pers := pers) hfetch
        (hQ.tuples _ _ (hle.tuples _ _ hT)) hlen)
      have hpc : pc + is'.length + 1 = pc + (is' ++ [Instr.tuple t]).length := by simp [Nat.add_assoc]
      rw [hpc] at s2
      exact s1.trans s2
    · cases h
  | .fn f cs, P, P1, is, h, hw => by
    obtain ⟨⟨F, hF, hlen⟩, hcs⟩ := hw
    simp only [v2iA, hF] at h
    split at h
    · rename_i P1' is' hlist
      simp only [Option.some.injEq, Prod.mk.injEq] at h
      obtain ⟨rfl, rfl⟩ := h
      obtain ⟨hle, hreb⟩ := v2iAList_rebuilds cs P P1' is' hlist hcs
      refine ⟨hle, ?_⟩
      intro Q hQ B S L fn base caps pc rest pers hcode
      have s1 := hreb Q hQ B S L fn base caps pc rest pers hcode.left
      have hfetch : fetch Q ⟨fn, base, caps, pc + is'.length⟩ = some (.function f) := hcode.right.head
      have s2 := Steps.single (B := B) (step_function (S := S) (L := L) (rest := rest) (pers := pers) hfetch
        (hQ.fns _ _ (hle.fns _ _ hF)) hlen)
      have hpc : pc + is'.length + 1 = pc + (is' ++ [Instr.function f]).length := by simp [Nat.add_assoc]
      rw [hpc] at s2
      exact s1.trans s2
    · cases h
  | .builtin b, P, P1, is, h, hw => by
    have hb : b < P.builtins.size := hw
    simp only [v2iA, hb, if_true, Option.some.injEq, Prod.mk.injEq] at h
    obtain ⟨rfl, rfl⟩ := h
    refine ⟨Prog.Le.refl _, ?_⟩
    intro Q hQ B S L fn base caps pc rest pers hcode
    exact Steps.single (step_builtin hcode.head (Nat.lt_of_lt_of_le hb hQ.builtins))
  | .ref _, _, _, _, _, hw => hw.elim
  | .proc _ _, _, _, _, _, hw => hw.elim
  | .res _ _, _, _, _, _, hw => hw.elim
/-- …and for a list of values (tuple fields / captures) pushes them in order. -/
theorem v2iAList_rebuilds : ∀ (vs : List Val) (P P1 : Prog) (is : List Instr), v2iAList P vs = some (P1, is) →
    WfVals P vs → P.Le P1 ∧ Rebuilds P1 is vs.reverse
  | [], P, P1, is, h, _ => by
    simp only [v2iAList, Option.some.injEq, Prod.mk.injEq] at h
    obtain ⟨rfl, rfl⟩ := h
    refine ⟨Prog.Le.refl _, ?_⟩
    intro Q _ B S L fn base caps pc rest pers _
    exact .refl _
  | v :: vs, P, P2, is, h, hw => by
    simp only [v2iAList] at h
    split at h
    · cases h
    · rename_i P1 i1 hv
      split at h
      · cases h
      · rename_i P2' i2 hvs
        simp only [Option.some.injEq, Prod.mk.injEq] at h
        obtain ⟨rfl, rfl⟩ := h
        obtain ⟨hle1, hreb1⟩ := v2iA_rebuilds v P P1 i1 hv hw.1
        obtain ⟨hle2, hreb2⟩ := v2iAList_rebuilds vs P1 P2' i2 hvs (WfVals.mono hle1 vs hw.2)
        refine ⟨hle1.trans hle2, ?_⟩
        have hreb1' : Rebuilds P2' i1 [v] := fun Q hQ => hreb1 Q (hle2.trans hQ)
        have := hreb1'.append hreb2
        simpa using this
end

end QM.Packaging

namespace QM.Packaging

/-! ### Capture injection (`Program::value_to_instructions`, `inject_function_captures`) -/

mutual
/-- No closure *with captures* occurs inside the value (such a closure would itself be replaced by an
    injected function, so the rebuilt value is only behaviourally equal, not identical). -/
def Flat : Val → Prop
  | .tuple _ fs => FlatList fs
  | .fn _ [] => True
  | .fn _ (_ :: _) => False
  | _ => True
def FlatList : List Val → Prop
  | [] => True
  | v :: vs => Flat v ∧ FlatList vs
end

mutual
theorem v2iB_rebuilds : ∀ (v : Val) (P P1 : Prog) (is : List Instr), v2iB P v = some (P1, is) → WfVal P v →
    Flat v → P.Le P1 ∧ Rebuilds P1 is [v]
  | .int z, P, P1, is, h, _, _ => by
    simp only [v2iB, Option.some.injEq, Prod.mk.injEq] at h
    obtain ⟨rfl, rfl⟩ := h
    refine ⟨registerConst_le P _, ?_⟩
    intro Q hQ B S L fn base caps pc rest pers hcode
    exact Steps.single (step_const_int hcode.head (hQ.consts _ _ (registerConst_get P _)))
  | .bin bs, P, P1, is, h, _, _ => by
    simp only [v2iB, Option.some.injEq, Prod.mk.injEq] at h
    obtain ⟨rfl, rfl⟩ := h
    refine ⟨registerConst_le P _, ?_⟩
    intro Q hQ B S L fn base caps pc rest pers hcode
    exact Steps.single (step_const_bin hcode.head (hQ.consts _ _ (registerConst_get P _)))
  | .tuple t fs, P, P1, is, h, hw, hfl => by
    obtain ⟨⟨T, hT, hlen⟩, hfs⟩ := hw
    simp only [v2iB] at h
    split at h
    · rename_i P1' is' hlist
      simp only [Option.some.injEq, Prod.mk.injEq] at h
      obtain ⟨rfl, rfl⟩ := h
      obtain ⟨hle, hreb⟩ := v2iBList_rebuilds fs P P1' is' hlist hfs (by simpa [Flat] using hfl)
      refine ⟨hle, ?_⟩
      intro Q hQ B S L fn base caps pc rest pers hcode
      have s1 := hreb Q hQ B S L fn base caps pc rest pers hcode.left
      have hfetch : fetch Q ⟨fn, base, caps, pc + is'.length⟩ = some (.tuple t) := hcode.right.head
      have s2 := Steps.single (B := B) (step_tuple (S := S) (L := L) (rest := rest) (pers := pers) hfetch
        (hQ.tuples _ _ (hle.tuples _ _ hT)) hlen)
      have hpc : pc + is'.length + 1 = pc + (is' ++ [Instr.tuple t]).length := by simp [Nat.add_assoc]
      rw [hpc] at s2
      exact s1.trans s2
    · cases h
  | .fn f [], P, P1, is, h, hw, _ => by
    obtain ⟨⟨F, hF, hlen⟩, _⟩ := hw
    simp only [v2iB, Option.some.injEq, Prod.mk.injEq] at h
    obtain ⟨rfl, rfl⟩ := h
    refine ⟨Prog.Le.refl _, ?_⟩
    intro Q hQ B S L fn base caps pc rest pers hcode
    have := step_function (B := B) (S := S) (L := L) (cs := []) (rest := rest) (pers := pers)
      (hcode.head (b := base) (c := caps)) (hQ.fns _ _ hF) hlen
    exact Steps.single (by simpa using this)
  | .fn _ (_ :: _), _, _, _, _, _, hfl => by simp [Flat] at hfl
  | .builtin b, P, P1, is, h, hw, _ => by
    have hb : b < P.builtins.size := hw
    simp only [v2iB, Option.some.injEq, Prod.mk.injEq] at h
    obtain ⟨rfl, rfl⟩ := h
    refine ⟨Prog.Le.refl _, ?_⟩
    intro Q hQ B S L fn base caps pc rest pers hcode
    exact Steps.single (step_builtin hcode.head (Nat.lt_of_lt_of_le hb hQ.builtins))
  | .ref _, _, _, _, _, hw, _ => hw.elim
  | .proc _ _, _, _, _, _, hw, _ => hw.elim
  | .res _ _, _, _, _, _, hw, _ => hw.elim
theorem v2iBList_rebuilds : ∀ (vs : List Val) (P P1 : Prog) (is : List Instr), v2iBList P vs = some (P1, is) →
    WfVals P vs → FlatList vs → P.Le P1 ∧ Rebuilds P1 is vs.reverse
  | [], P, P1, is, h, _, _ => by
    simp only [v2iBList, Option.some.injEq, Prod.mk.injEq] at h
    obtain ⟨rfl, rfl⟩ := h
    refine ⟨Prog.Le.refl _, ?_⟩
    intro Q _ B S L fn base caps pc rest pers _
    exact .refl _
  | v :: vs, P, P2, is, h, hw, hfl => by
    simp only [v2iBList] at h
    split at h
    · cases h
    · rename_i P1 i1 hv
      split at h
      · cases h
      · rename_i P2' i2 hvs
        simp only [Option.some.injEq, Prod.mk.injEq] at h
        obtain ⟨rfl, rfl⟩ := h
        obtain ⟨hle1, hreb1⟩ := v2iB_rebuilds v P P1 i1 hv hw.1 hfl.1
        obtain ⟨hle2, hreb2⟩ := v2iBList_rebuilds vs P1 P2' i2 hvs (WfVals.mono hle1 vs hw.2) hfl.2
        refine ⟨hle1.trans hle2, ?_⟩
        have hreb1' : Rebuilds P2' i1 [v] := fun Q hQ => hreb1 Q (hle2.trans hQ)
        have := hreb1'.append hreb2
        simpa using this
end

/-- What running an injected prelude means: the captures end up appended to the locals, the stack is
    untouched. -/
def StoresCaps (P1 : Prog) (is : List Instr) (capsV : List Val) : Prop :=
  ∀ (Q : Prog), P1.Le Q → ∀ (B : BuiltinSem) (S L : List Val) (fn base caps pc : Nat) (rest : List Frame)
    (pers : Bool), CodeAt Q fn pc is →
    Steps Q B ⟨S, L, ⟨fn, base, caps, pc⟩ :: rest, pers⟩
              ⟨S, L ++ capsV, ⟨fn, base, caps, pc + is.length⟩ :: rest, pers⟩

theorem v2iBStores_stores : ∀ (vs : List Val) (P P1 : Prog) (is : List Instr),
    v2iBStores P vs = some (P1, is) → WfVals P vs → FlatList vs → P.Le P1 ∧ StoresCaps P1 is vs
  | [], P, P1, is, h, _, _ => by
    simp only [v2iBStores, Option.some.injEq, Prod.mk.injEq] at h
    obtain ⟨rfl, rfl⟩ := h
    refine ⟨Prog.Le.refl _, ?_⟩
    intro Q _ B S L fn base caps pc rest pers _
    simpa using Steps.refl (P := Q) (B := B) ⟨S, L, ⟨fn, base, caps, pc⟩ :: rest, pers⟩
  | v :: vs, P, P2, is, h, hw, hfl => by
    simp only [v2iBStores] at h
    split at h
    · cases h
    · rename_i P1 i1 hv
      split at h
      · cases h
      · rename_i P2' i2 hvs
        simp only [Option.some.injEq, Prod.mk.injEq] at h
        obtain ⟨rfl, rfl⟩ := h
        obtain ⟨hle1, hreb1⟩ := v2iB_rebuilds v P P1 i1 hv hw.1 hfl.1
        obtain ⟨hle2, hst2⟩ := v2iBStores_stores vs P1 P2' i2 hvs (WfVals.mono hle1 vs hw.2) hfl.2
        refine ⟨hle1.trans hle2, ?_⟩
        intro Q hQ B S L fn base caps pc rest pers hcode
        -- code layout: i1 ++ [store] ++ i2
        have hc1 : CodeAt Q fn pc i1 := hcode.left.left
        have hc2 : CodeAt Q fn (pc + i1.length) [Instr.store] := hcode.left.right
        have hc3 : CodeAt Q fn (pc + (i1 ++ [Instr.store]).length) i2 := hcode.right
        have s1 := hreb1 Q (hle2.trans hQ) B S L fn base caps pc rest pers hc1
        have s2 := Steps.single (B := B) (step_store (S := S) (L := L) (v := v) (rest := rest) (pers := pers)
          (hc2.head (b := base) (c := caps)))
        have s3 := hst2 Q hQ B S (L ++ [v]) fn base caps (pc + (i1 ++ [Instr.store]).length) rest pers hc3
        have hpc1 : pc + i1.length + 1 = pc + (i1 ++ [Instr.store]).length := by simp [Nat.add_assoc]
        have hpc2 : pc + (i1 ++ [Instr.store]).length + i2.length = pc + (i1 ++ [Instr.store] ++ i2).length := by
          simp only [List.length_append, List.length_cons, List.length_nil]; omega
        rw [hpc1] at s2
        rw [hpc2] at s3
        have := (s1.trans s2).trans s3
        simpa [List.append_assoc] using this

end QM.Packaging
