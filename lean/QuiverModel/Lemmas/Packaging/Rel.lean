import QuiverModel.Core.Packaging.Sem
import QuiverModel.Lemmas.Packaging.Basic
/-
Relations "equal up to the renaming ρ" on values, frames, states and step results, with the list
lemmas the execution theorem needs. (Owner: C10.)
-/
namespace QM.Packaging

/-- Pointwise relation on two lists (`List.Forall₂` is Mathlib; this file stays on core Lean). -/
inductive All2 {α β : Type} (R : α → β → Prop) : List α → List β → Prop where
  | nil : All2 R [] []
  | cons {a b as bs} : R a b → All2 R as bs → All2 R (a :: as) (b :: bs)

namespace All2
variable {α β : Type} {R : α → β → Prop}

theorem length_eq {l : List α} {l' : List β} (h : All2 R l l') : l.length = l'.length := by
  induction h with
  | nil => rfl
  | cons _ _ ih => simp [ih]

theorem get? {l : List α} {l' : List β} (h : All2 R l l') (i : Nat) :
    (l[i]? = none ∧ l'[i]? = none) ∨ ∃ a b, l[i]? = some a ∧ l'[i]? = some b ∧ R a b := by
  induction h generalizing i with
  | nil => left; simp
  | cons hab _ ih =>
    cases i with
    | zero => right; exact ⟨_, _, by simp, by simp, hab⟩
    | succ i => simpa using ih i

theorem append {l₁ l₂ : List α} {l₁' l₂' : List β} (h₁ : All2 R l₁ l₁') (h₂ : All2 R l₂ l₂') :
    All2 R (l₁ ++ l₂) (l₁' ++ l₂') := by
  induction h₁ with
  | nil => simpa using h₂
  | cons hab _ ih => exact .cons hab ih

theorem take {l : List α} {l' : List β} (h : All2 R l l') (n : Nat) : All2 R (l.take n) (l'.take n) := by
  induction h generalizing n with
  | nil => simp; exact .nil
  | cons hab _ ih =>
    cases n with
    | zero => simp; exact .nil
    | succ n => simp; exact .cons hab (ih n)

theorem drop {l : List α} {l' : List β} (h : All2 R l l') (n : Nat) : All2 R (l.drop n) (l'.drop n) := by
  induction h generalizing n with
  | nil => simp; exact .nil
  | cons hab hrest ih =>
    cases n with
    | zero => simp; exact .cons hab hrest
    | succ n => simp; exact ih n

theorem reverse {l : List α} {l' : List β} (h : All2 R l l') : All2 R l.reverse l'.reverse := by
  induction h with
  | nil => exact .nil
  | cons hab _ ih => simp; exact ih.append (.cons hab .nil)

theorem eraseIdx {l : List α} {l' : List β} (h : All2 R l l') (n : Nat) :
    All2 R (l.eraseIdx n) (l'.eraseIdx n) := by
  induction h generalizing n with
  | nil => simp; exact .nil
  | cons hab hrest ih =>
    cases n with
    | zero => simp; exact hrest
    | succ n => simp; exact .cons hab (ih n)

theorem all_eq {l : List α} {l' : List β} (h : All2 R l l') {p : α → Bool} {q : β → Bool}
    (hpq : ∀ a b, R a b → p a = q b) : l.all p = l'.all q := by
  induction h with
  | nil => rfl
  | cons hab _ ih => simp [hpq _ _ hab, ih]

end All2

/-- Values equal up to ρ: same shape, same integers / bytes / refs / process ids; tuple, function,
    builtin and resource-type ids mapped by ρ. (So their *erasures* — ids replaced by names/labels —
    are equal whenever ρ preserves names and labels, which `IsRenaming.tuples` demands.) -/
inductive RelVal (ρ : Ren) : Val → Val → Prop where
  | int (z : Int) : RelVal ρ (.int z) (.int z)
  | bin (bs : List UInt8) : RelVal ρ (.bin bs) (.bin bs)
  | ref (r : Nat) : RelVal ρ (.ref r) (.ref r)
  | tuple {t t' : Nat} {fs fs' : List Val} : ρ.tuple.get t = some t' → All2 (RelVal ρ) fs fs' →
      RelVal ρ (.tuple t fs) (.tuple t' fs')
  | fn {f f' : Nat} {cs cs' : List Val} : ρ.fn.get f = some f' → All2 (RelVal ρ) cs cs' →
      RelVal ρ (.fn f cs) (.fn f' cs')
  | builtin {b b' : Nat} : ρ.builtin.get b = some b' → RelVal ρ (.builtin b) (.builtin b')
  | proc (pid : Nat) {f f' : Nat} : ρ.fn.get f = some f' → RelVal ρ (.proc pid f) (.proc pid f')
  | res (rid : Nat) {r r' : Nat} : ρ.resource.get r = some r' → RelVal ρ (.res rid r) (.res rid r')

abbrev RelVals (ρ : Ren) := All2 (RelVal ρ)

structure RelFrame (ρ : Ren) (fr fr' : Frame) : Prop where
  fn : ρ.fn.get fr.fn = some fr'.fn
  base : fr'.base = fr.base
  caps : fr'.caps = fr.caps
  pc : fr'.pc = fr.pc

structure RelSt (ρ : Ren) (s s' : St) : Prop where
  stack : RelVals ρ s.stack s'.stack
  locals : RelVals ρ s.locals s'.locals
  frames : All2 (RelFrame ρ) s.frames s'.frames
  persistent : s'.persistent = s.persistent

inductive RelBRes (ρ : Ren) : BRes → BRes → Prop where
  | value {v v'} : RelVal ρ v v' → RelBRes ρ (.value v) (.value v')
  | err (e) : RelBRes ρ (.err e) (.err e)
  | action : RelBRes ρ .action .action
  | panic : RelBRes ρ .panic .panic

/-- The two builtin semantics agree up to ρ (builtins are resolved by *name*; `IsRenaming.builtins`
    makes the names equal). -/
def BuiltinsCommute (ρ : Ren) (B B' : BuiltinSem) : Prop :=
  ∀ name v v', RelVal ρ v v' → RelBRes ρ (B name v) (B' name v')

inductive RelRes (ρ : Ren) : Res → Res → Prop where
  | next {s s'} : RelSt ρ s s' → RelRes ρ (.next s) (.next s')
  | err (e) : RelRes ρ (.err e) (.err e)
  | panic : RelRes ρ .panic .panic
  | yield {s s' i i'} : RelSt ρ s s' → renameInstr ρ i = some i' → RelRes ρ (.yield s i) (.yield s' i')
  | done {v v'} : RelVal ρ v v' → RelRes ρ (.done v) (.done v')

/-! ### Basic facts -/

theorem RelVal.nil {ρ : Ren} (h : ρ.tuple.get 0 = some 0) : RelVal ρ Val.nil Val.nil := .tuple h .nil
theorem RelVal.ok {ρ : Ren} (h : ρ.tuple.get 1 = some 1) : RelVal ρ Val.ok Val.ok := .tuple h .nil

theorem RelVal.tag {ρ : Ren} {v v' : Val} (h : RelVal ρ v v') : renameTag ρ v.tag = some v'.tag := by
  cases h <;> simp_all [Val.tag, renameTag]

/-- `is_nil` is preserved: ρ fixes 0 and is injective on tuples. -/
theorem RelVal.isNil {ρ : Ren} (hnil : ρ.tuple.get 0 = some 0) (hinj : ρ.tuple.Inj) {v v' : Val}
    (h : RelVal ρ v v') : v'.isNil = v.isNil := by
  cases h with
  | tuple ht hfs =>
    rename_i t t' fs fs'
    cases hfs with
    | nil =>
      by_cases h0 : t = 0
      · subst h0
        have : t' = 0 := by rw [hnil] at ht; cases ht; rfl
        subst this; rfl
      · have h0' : t' ≠ 0 := by
          intro h0'; subst h0'
          exact h0 (hinj _ _ _ ht hnil)
        cases t with
        | zero => exact (h0 rfl).elim
        | succ n =>
          cases t' with
          | zero => exact (h0' rfl).elim
          | succ m => rfl
    | cons _ _ =>
      cases t <;> cases t' <;> rfl
  | _ => rfl

theorem mapOpt_get? {α β : Type} {f : α → Option β} {l : List α} {l' : List β}
    (h : mapOpt f l = some l') (i : Nat) :
    (l[i]? = none ∧ l'[i]? = none) ∨ ∃ a b, l[i]? = some a ∧ l'[i]? = some b ∧ f a = some b := by
  induction l generalizing l' i with
  | nil => simp [mapOpt] at h; subst h; left; simp
  | cons a as ih =>
    simp only [mapOpt] at h
    split at h
    · rename_i b bs hb hbs
      cases h
      cases i with
      | zero => right; exact ⟨a, b, by simp, by simp, hb⟩
      | succ i => simpa using ih hbs i
    · cases h

theorem mapOpt_length {α β : Type} {f : α → Option β} {l : List α} {l' : List β}
    (h : mapOpt f l = some l') : l'.length = l.length := by
  induction l generalizing l' with
  | nil => simp [mapOpt] at h; subst h; rfl
  | cons a as ih =>
    simp only [mapOpt] at h
    split at h
    · rename_i b bs hb hbs
      cases h; simp [ih hbs]
    · cases h

theorem mem_isTypeOps {is : List Instr} {pc t : Nat} (h : is[pc]? = some (.isType t)) : t ∈ isTypeOps is := by
  induction is generalizing pc with
  | nil => simp at h
  | cons i is ih =>
    cases pc with
    | zero =>
      simp at h; subst h; simp [isTypeOps]
    | succ pc =>
      have := ih (pc := pc) (by simpa using h)
      cases i <;> simp [isTypeOps, this]

end QM.Packaging
