import QuiverModel.Lemmas.Packaging.Reach
namespace QM.Packaging

/-! ### the function / constant / builtin marks are duplicate-free (`HashSet`s) -/

theorem insertNat_nodup {a : Nat} {l : List Nat} (h : l.Nodup) : (insertNat a l).Nodup := by
  unfold insertNat
  split
  · exact h
  · rename_i hc
    exact List.nodup_cons.mpr ⟨fun hm => hc (contains_iff.mpr hm), h⟩

theorem TCE.same {P : Prog} {m m1 : Marks} (hI : TCE P m [] []) (e1 : m1.types = m.types) (e2 : m1.tuples = m.tuples) :
    TCE P m1 [] [] :=
  ⟨fun t ht hn τ hτ => by
      rw [e1] at ht
      exact (hI.types t ht hn τ hτ).mono (fun x hx => by rw [e1]; exact hx) (fun x hx => by rw [e2]; exact hx),
   fun u hu hn T hT p hp => by
      rw [e2] at hu; rw [e1]; exact hI.tuples u hu hn T hT p hp,
   by rw [e2]; exact hI.nodup, by rw [e1]; exact hI.nodupT⟩

theorem markInstrs_nodup (P : Prog) : ∀ (is : List Instr) (m m' : Marks) (q q' : List Nat),
    markInstrs P is m q = some (m', q') → TCE P m [] [] → m.consts.Nodup → m.builtins.Nodup →
    m'.consts.Nodup ∧ m'.builtins.Nodup
  | [], m, m', q, q', h, _, hc, hb => by
    simp only [markInstrs, Option.some.injEq, Prod.mk.injEq] at h
    obtain ⟨rfl, rfl⟩ := h
    exact ⟨hc, hb⟩
  | i :: is, m, m', q, q', h, hI, hc, hb => by
    cases i with
    | function id => simp only [markInstrs] at h; exact markInstrs_nodup P is m m' _ q' h hI hc hb
    | process pid id => simp only [markInstrs] at h; exact markInstrs_nodup P is m m' _ q' h hI hc hb
    | const id =>
      simp only [markInstrs] at h
      exact markInstrs_nodup P is _ m' q q' h (hI.same rfl rfl) (insertNat_nodup hc) hb
    | builtin id =>
      simp only [markInstrs] at h
      exact markInstrs_nodup P is _ m' q q' h (hI.same rfl rfl) hc (insertNat_nodup hb)
    | isType id =>
      simp only [markInstrs] at h
      split at h
      · cases h
      · rename_i m1 h1
        obtain ⟨hI1, _, hE⟩ := collectType_spec P _ id m m1 [] [] h1 hI
        exact markInstrs_nodup P is m1 m' q q' h hI1 (by rw [hE.consts]; exact hc) (by rw [hE.builtins]; exact hb)
    | tuple id =>
      simp only [markInstrs] at h
      split at h
      · cases h
      · rename_i m1 h1
        obtain ⟨hI1, _, hE1⟩ := collectTuple_spec P _ id m m1 [] [] h1 hI
        split at h
        · exact markInstrs_nodup P is m1 m' q q' h hI1 (by rw [hE1.consts]; exact hc) (by rw [hE1.builtins]; exact hb)
        · rename_i t ht
          split at h
          · cases h
          · rename_i m2 h2
            obtain ⟨hI2, _, hE2⟩ := collectType_spec P _ t m1 m2 [] [] h2 hI1
            exact markInstrs_nodup P is m2 m' q q' h hI2 (by rw [hE2.consts, hE1.consts]; exact hc)
              (by rw [hE2.builtins, hE1.builtins]; exact hb)
    | pop => simp only [markInstrs] at h; exact markInstrs_nodup P is m m' q q' h hI hc hb
    | dup => simp only [markInstrs] at h; exact markInstrs_nodup P is m m' q q' h hI hc hb
    | pick n => simp only [markInstrs] at h; exact markInstrs_nodup P is m m' q q' h hI hc hb
    | rotate n => simp only [markInstrs] at h; exact markInstrs_nodup P is m m' q q' h hI hc hb
    | reset n => simp only [markInstrs] at h; exact markInstrs_nodup P is m m' q q' h hI hc hb
    | load n => simp only [markInstrs] at h; exact markInstrs_nodup P is m m' q q' h hI hc hb
    | store => simp only [markInstrs] at h; exact markInstrs_nodup P is m m' q q' h hI hc hb
    | get n => simp only [markInstrs] at h; exact markInstrs_nodup P is m m' q q' h hI hc hb
    | jump n => simp only [markInstrs] at h; exact markInstrs_nodup P is m m' q q' h hI hc hb
    | jumpIf n => simp only [markInstrs] at h; exact markInstrs_nodup P is m m' q q' h hI hc hb
    | call => simp only [markInstrs] at h; exact markInstrs_nodup P is m m' q q' h hI hc hb
    | tailCall b => simp only [markInstrs] at h; exact markInstrs_nodup P is m m' q q' h hI hc hb
    | equal n => simp only [markInstrs] at h; exact markInstrs_nodup P is m m' q q' h hI hc hb
    | not => simp only [markInstrs] at h; exact markInstrs_nodup P is m m' q q' h hI hc hb
    | spawn => simp only [markInstrs] at h; exact markInstrs_nodup P is m m' q q' h hI hc hb
    | send => simp only [markInstrs] at h; exact markInstrs_nodup P is m m' q q' h hI hc hb
    | self => simp only [markInstrs] at h; exact markInstrs_nodup P is m m' q q' h hI hc hb
    | select => simp only [markInstrs] at h; exact markInstrs_nodup P is m m' q q' h hI hc hb

theorem markFns_nodup (P : Prog) : ∀ (fuel : Nat) (q : List Nat) (m m' : Marks),
    markFns P fuel q m = some m' → TCE P m [] [] → FT P m → m.fns.Nodup → m.consts.Nodup → m.builtins.Nodup →
    m'.fns.Nodup ∧ m'.consts.Nodup ∧ m'.builtins.Nodup
  | 0, [], m, m', h, _, _, hf, hc, hb => by
    simp only [markFns, Option.some.injEq] at h; subst h; exact ⟨hf, hc, hb⟩
  | 0, _ :: _, _, _, h, _, _, _, _, _ => by simp [markFns] at h
  | fuel + 1, [], m, m', h, _, _, hf, hc, hb => by
    simp only [markFns, Option.some.injEq] at h; subst h; exact ⟨hf, hc, hb⟩
  | fuel + 1, f :: q, m, m', h, hI, hF, hf, hc, hb => by
    simp only [markFns] at h
    split at h
    · exact markFns_nodup P fuel q m m' h hI hF hf hc hb
    · rename_i hcn
      have hnot : f ∉ m.fns := fun hm => hcn (contains_iff.mpr hm)
      have hf1 : (f :: m.fns).Nodup := List.nodup_cons.mpr ⟨hnot, hf⟩
      have hI1 : TCE P { m with fns := f :: m.fns } [] [] := ⟨hI.types, hI.tuples, hI.nodup, hI.nodupT⟩
      cases hFn : P.fns[f]? with
      | none =>
        rw [hFn] at h
        simp only at h
        have hF1 : FT P { m with fns := f :: m.fns } := by
          intro f' hf' F' hF'
          rcases List.mem_cons.mp hf' with h | h
          · subst h; rw [hFn] at hF'; cases hF'
          · exact hF f' h F' hF'
        exact markFns_nodup P fuel q { m with fns := f :: m.fns } m' h hI1 hF1 hf1 hc hb
      | some F =>
        rw [hFn] at h
        simp only at h
        split at h
        · cases h
        · rename_i m1 h1
          obtain ⟨hI2, hty, hE1⟩ := collectType_spec P _ F.typeId _ m1 [] [] h1 hI1
          split at h
          · cases h
          · rename_i m2 q2 h2
            obtain ⟨hI3, hty3, _, hf3, _⟩ := markInstrs_spec P F.instrs m1 m2 q q2 h2 hI2
            obtain ⟨hc2, hb2⟩ := markInstrs_nodup P F.instrs m1 m2 q q2 h2 hI2 (by rw [hE1.consts]; exact hc)
              (by rw [hE1.builtins]; exact hb)
            have hfns2 : m2.fns = f :: m.fns := by rw [hf3, hE1.fns]
            have hF2 : FT P m2 := by
              intro f' hf' F' hF'
              rw [hfns2] at hf'
              rcases List.mem_cons.mp hf' with h | h
              · subst h; rw [hFn] at hF'; cases hF'; exact hty3 _ hty
              · exact hty3 _ (hE1.types _ (hF f' h F' hF'))
            exact markFns_nodup P fuel q2 m2 m' h hI3 hF2 (by rw [hfns2]; exact hf1) hc2 hb2

theorem markAll_nodup {P : Prog} {e : Nat} {legacy : Bool} {m : Marks} (h : markAll P e legacy = some m) :
    m.fns.Nodup ∧ m.consts.Nodup ∧ m.builtins.Nodup := by
  unfold markAll at h
  split at h
  · cases h
  · rename_i m0 h0
    have hI : TCE P ({} : Marks) [] [] := ⟨(fun _ h => by cases h), (fun _ h => by cases h), List.nodup_nil, List.nodup_nil⟩
    obtain ⟨hI0, _, hE0⟩ := collectTuple_spec P _ 0 _ m0 [] [] h0 hI
    split at h
    · cases h
    · rename_i m1 h1
      obtain ⟨hI1, _, hE1⟩ := collectTuple_spec P _ 1 m0 m1 [] [] h1 hI0
      split at h
      · cases h
      · rename_i m2 h2
        have hF1 : FT P m1 := by
          intro f hf
          rw [hE1.fns, hE0.fns] at hf; cases hf
        have n1 : m1.fns.Nodup ∧ m1.consts.Nodup ∧ m1.builtins.Nodup := by
          rw [hE1.fns, hE0.fns, hE1.consts, hE0.consts, hE1.builtins, hE0.builtins]
          exact ⟨List.nodup_nil, List.nodup_nil, List.nodup_nil⟩
        obtain ⟨hI2, _, _, _, _⟩ := markFns_spec P _ [e] m1 m2 h2 hI1 hF1
        have n2 := markFns_nodup P _ [e] m1 m2 h2 hI1 hF1 n1.1 n1.2.1 n1.2.2
        split at h
        · cases h
        · rename_i m3 h3
          obtain ⟨hI3, hE3, _⟩ := markBuiltins_spec P m2.builtins m2 m3 h3 hI2
          have n3 : m3.fns.Nodup ∧ m3.consts.Nodup ∧ m3.builtins.Nodup := by
            rw [hE3.fns, hE3.consts, hE3.builtins]; exact n2
          split at h
          · simp only [Option.some.injEq] at h
            subst h; exact n3
          · obtain ⟨_, _, hE4⟩ := collectTypes_spec P _ _ m3 m [] [] h hI3
            rw [hE4.fns, hE4.consts, hE4.builtins]; exact n3

end QM.Packaging
