import QuiverModel.Lemmas.Packaging.MergeLoops
import QuiverModel.Core.Packaging.TreeShake
namespace QM.Packaging

/-! ### injectivity of the remap tables of `merge_bytecode` from duplicate-freeness of the source -/

theorem arr_get_inj {α : Type} {a : Array α} (hn : a.toList.Nodup) {i j : Nat} {x : α}
    (hi : a[i]? = some x) (hj : a[j]? = some x) : i = j := by
  have hi' : a.toList[i]? = some x := by simpa using hi
  have hj' : a.toList[j]? = some x := by simpa using hj
  obtain ⟨hil, hix⟩ := List.getElem?_eq_some_iff.mp hi'
  obtain ⟨hjl, hjx⟩ := List.getElem?_eq_some_iff.mp hj'
  exact (List.getElem_inj (h₀ := hil) (h₁ := hjl) hn).mp (hix.trans hjx.symm)

theorem mapOpt_inj {α β : Type} {f : α → Option β} : ∀ {l1 l2 : List α} {l' : List β},
    (∀ a ∈ l1, ∀ b c, f a = some c → f b = some c → a = b) →
    mapOpt f l1 = some l' → mapOpt f l2 = some l' → l1 = l2
  | [], [], _, _, _, _ => rfl
  | [], b :: bs, l', _, h1, h2 => by
    simp only [mapOpt, Option.some.injEq] at h1
    subst h1
    simp only [mapOpt] at h2
    cases hb : f b with
    | none => rw [hb] at h2; cases h2
    | some y =>
      rw [hb] at h2
      cases hr : mapOpt f bs with
      | none => rw [hr] at h2; cases h2
      | some ys => rw [hr] at h2; cases h2
  | a :: as, [], l', _, h1, h2 => by
    simp only [mapOpt, Option.some.injEq] at h2
    subst h2
    simp only [mapOpt] at h1
    cases ha : f a with
    | none => rw [ha] at h1; cases h1
    | some y =>
      rw [ha] at h1
      cases hr : mapOpt f as with
      | none => rw [hr] at h1; cases h1
      | some ys => rw [hr] at h1; cases h1
  | a :: as, b :: bs, l', hinj, h1, h2 => by
    simp only [mapOpt] at h1 h2
    cases ha : f a with
    | none => rw [ha] at h1; cases h1
    | some y =>
      rw [ha] at h1
      cases hra : mapOpt f as with
      | none => rw [hra] at h1; cases h1
      | some ys =>
        rw [hra] at h1
        simp only [Option.some.injEq] at h1
        subst h1
        cases hb : f b with
        | none => rw [hb] at h2; cases h2
        | some z =>
          rw [hb] at h2
          cases hrb : mapOpt f bs with
          | none => rw [hrb] at h2; cases h2
          | some zs =>
            rw [hrb] at h2
            simp only [Option.some.injEq, List.cons.injEq] at h2
            obtain ⟨rfl, rfl⟩ := h2
            have hab : a = b := hinj a (List.mem_cons_self ..) b _ ha hb
            have hrest : as = bs := mapOpt_inj (fun x hx => hinj x (List.mem_cons_of_mem _ hx)) hra hrb
            rw [hab, hrest]


theorem renameOptTy_inj {ρ : Ren} {o1 o2 o' : Option Nat}
    (hinj : ∀ x, o1 = some x → ∀ y n, ρ.type.get x = some n → ρ.type.get y = some n → x = y)
    (h1 : renameOptTy ρ o1 = some o') (h2 : renameOptTy ρ o2 = some o') : o1 = o2 := by
  cases o1 with
  | none =>
    simp only [renameOptTy, Option.some.injEq] at h1
    subst h1
    cases o2 with
    | none => rfl
    | some y => simp [renameOptTy] at h2
  | some x =>
    simp only [renameOptTy, Option.map_eq_some_iff] at h1
    obtain ⟨n, hn, rfl⟩ := h1
    cases o2 with
    | none => simp [renameOptTy] at h2
    | some y =>
      simp only [renameOptTy, Option.map_eq_some_iff, Option.some.injEq] at h2
      obtain ⟨m, hm, rfl⟩ := h2
      rw [hinj x rfl y _ hn hm]

/-- renaming is injective on entries as soon as the maps are injective on the ids the FIRST entry carries -/
theorem renameTy_inj {ρ : Ren} {τ1 τ2 τ' : Ty}
    (hty : ∀ x ∈ tyChildren τ1, ∀ y n, ρ.type.get x = some n → ρ.type.get y = some n → x = y)
    (htu : ∀ u, τ1 = .tuple u → ∀ v n, ρ.tuple.get u = some n → ρ.tuple.get v = some n → u = v)
    (h1 : renameTy ρ τ1 = some τ') (h2 : renameTy ρ τ2 = some τ') : τ1 = τ2 := by
  cases τ1 with
  | tuple u =>
    simp only [renameTy, Option.map_eq_some_iff] at h1
    obtain ⟨n, hn, rfl⟩ := h1
    cases τ2 with
    | tuple v =>
      simp only [renameTy, Option.map_eq_some_iff, Ty.tuple.injEq] at h2
      obtain ⟨m, hm, rfl⟩ := h2
      rw [htu u rfl v _ hn hm]
    | _ => first | (simp [renameTy] at h2; done) | (simp only [renameTy] at h2; split at h2 <;> simp at h2; done)
  | part n fs =>
    simp only [renameTy, Option.map_eq_some_iff] at h1
    obtain ⟨l', hl, rfl⟩ := h1
    cases τ2 with
    | part n2 fs2 =>
      simp only [renameTy, Option.map_eq_some_iff, Ty.part.injEq] at h2
      obtain ⟨l2, hl2, rfl, rfl⟩ := h2
      have : fs = fs2 := by
        refine mapOpt_inj (fun a ha b c hac hbc => ?_) hl hl2
        simp only [Option.map_eq_some_iff] at hac hbc
        obtain ⟨t, ht, rfl⟩ := hac
        obtain ⟨t2, ht2, heq⟩ := hbc
        simp only [Prod.mk.injEq] at heq
        obtain ⟨h1', rfl⟩ := heq
        have := hty a.2 (by simp [tyChildren]; exact ⟨a.1, ha⟩) b.2 _ ht ht2
        exact Prod.ext h1'.symm this
      rw [this]
    | _ => first | (simp [renameTy] at h2; done) | (simp only [renameTy] at h2; split at h2 <;> simp at h2; done)
  | union ids =>
    simp only [renameTy, Option.map_eq_some_iff] at h1
    obtain ⟨l', hl, rfl⟩ := h1
    cases τ2 with
    | union ids2 =>
      simp only [renameTy, Option.map_eq_some_iff, Ty.union.injEq] at h2
      obtain ⟨l2, hl2, rfl⟩ := h2
      have : ids = ids2 := mapOpt_inj (fun a ha b c hac hbc => hty a (by simpa [tyChildren] using ha) b c hac hbc) hl hl2
      rw [this]
    | _ => first | (simp [renameTy] at h2; done) | (simp only [renameTy] at h2; split at h2 <;> simp at h2; done)
  | callable p r v =>
    simp only [renameTy] at h1
    split at h1
    · rename_i p' r' v' hp hr hv
      simp only [Option.some.injEq] at h1
      subst h1
      cases τ2 with
      | callable p2 r2 v2 =>
        simp only [renameTy] at h2
        split at h2
        · rename_i p3 r3 v3 hp2 hr2 hv2
          simp only [Option.some.injEq, Ty.callable.injEq] at h2
          obtain ⟨rfl, rfl, rfl⟩ := h2
          rw [hty p (by simp [tyChildren]) p2 _ hp hp2, hty r (by simp [tyChildren]) r2 _ hr hr2,
            hty v (by simp [tyChildren]) v2 _ hv hv2]
        · cases h2
      | _ => first | (simp [renameTy] at h2; done) | (simp only [renameTy] at h2; split at h2 <;> simp at h2; done)
    · cases h1
  | process s r =>
    simp only [renameTy] at h1
    split at h1
    · rename_i s' r' hs hr
      simp only [Option.some.injEq] at h1
      subst h1
      cases τ2 with
      | process s2 r2 =>
        simp only [renameTy] at h2
        split at h2
        · rename_i s3 r3 hs2 hr2
          simp only [Option.some.injEq, Ty.process.injEq] at h2
          obtain ⟨rfl, rfl⟩ := h2
          rw [renameOptTy_inj (fun x hx => hty x (by simp [tyChildren, hx])) hs hs2,
            renameOptTy_inj (fun x hx => hty x (by simp [tyChildren, hx])) hr hr2]
        · cases h2
      | _ => first | (simp [renameTy] at h2; done) | (simp only [renameTy] at h2; split at h2 <;> simp at h2; done)
    · cases h1
  | int =>
    simp only [renameTy, Option.some.injEq] at h1
    subst h1
    cases τ2 with
    | int => simp [renameTy] at h2 ⊢
    | bin => simp [renameTy] at h2 ⊢
    | ref => simp [renameTy] at h2 ⊢
    | cycle d2 => first | (simp [renameTy] at h2; done) | (simp [renameTy] at h2; subst h2; rfl)
    | resource n2 => first | (simp [renameTy] at h2; done) | (simp [renameTy] at h2; subst h2; rfl)
    | var n2 => first | (simp [renameTy] at h2; done) | (simp [renameTy] at h2; subst h2; rfl)
    | _ => first | (simp [renameTy] at h2; done) | (simp only [renameTy] at h2; split at h2 <;> simp at h2; done)
  | bin =>
    simp only [renameTy, Option.some.injEq] at h1
    subst h1
    cases τ2 with
    | int => simp [renameTy] at h2 ⊢
    | bin => simp [renameTy] at h2 ⊢
    | ref => simp [renameTy] at h2 ⊢
    | cycle d2 => first | (simp [renameTy] at h2; done) | (simp [renameTy] at h2; subst h2; rfl)
    | resource n2 => first | (simp [renameTy] at h2; done) | (simp [renameTy] at h2; subst h2; rfl)
    | var n2 => first | (simp [renameTy] at h2; done) | (simp [renameTy] at h2; subst h2; rfl)
    | _ => first | (simp [renameTy] at h2; done) | (simp only [renameTy] at h2; split at h2 <;> simp at h2; done)
  | ref =>
    simp only [renameTy, Option.some.injEq] at h1
    subst h1
    cases τ2 with
    | int => simp [renameTy] at h2 ⊢
    | bin => simp [renameTy] at h2 ⊢
    | ref => simp [renameTy] at h2 ⊢
    | cycle d2 => first | (simp [renameTy] at h2; done) | (simp [renameTy] at h2; subst h2; rfl)
    | resource n2 => first | (simp [renameTy] at h2; done) | (simp [renameTy] at h2; subst h2; rfl)
    | var n2 => first | (simp [renameTy] at h2; done) | (simp [renameTy] at h2; subst h2; rfl)
    | _ => first | (simp [renameTy] at h2; done) | (simp only [renameTy] at h2; split at h2 <;> simp at h2; done)
  | cycle d =>
    simp only [renameTy, Option.some.injEq] at h1
    subst h1
    cases τ2 with
    | int => simp [renameTy] at h2 ⊢
    | bin => simp [renameTy] at h2 ⊢
    | ref => simp [renameTy] at h2 ⊢
    | cycle d2 => first | (simp [renameTy] at h2; done) | (simp [renameTy] at h2; subst h2; rfl)
    | resource n2 => first | (simp [renameTy] at h2; done) | (simp [renameTy] at h2; subst h2; rfl)
    | var n2 => first | (simp [renameTy] at h2; done) | (simp [renameTy] at h2; subst h2; rfl)
    | _ => first | (simp [renameTy] at h2; done) | (simp only [renameTy] at h2; split at h2 <;> simp at h2; done)
  | resource nm =>
    simp only [renameTy, Option.some.injEq] at h1
    subst h1
    cases τ2 with
    | int => simp [renameTy] at h2 ⊢
    | bin => simp [renameTy] at h2 ⊢
    | ref => simp [renameTy] at h2 ⊢
    | cycle d2 => first | (simp [renameTy] at h2; done) | (simp [renameTy] at h2; subst h2; rfl)
    | resource n2 => first | (simp [renameTy] at h2; done) | (simp [renameTy] at h2; subst h2; rfl)
    | var n2 => first | (simp [renameTy] at h2; done) | (simp [renameTy] at h2; subst h2; rfl)
    | _ => first | (simp [renameTy] at h2; done) | (simp only [renameTy] at h2; split at h2 <;> simp at h2; done)
  | var nm =>
    simp only [renameTy, Option.some.injEq] at h1
    subst h1
    cases τ2 with
    | int => simp [renameTy] at h2 ⊢
    | bin => simp [renameTy] at h2 ⊢
    | ref => simp [renameTy] at h2 ⊢
    | cycle d2 => first | (simp [renameTy] at h2; done) | (simp [renameTy] at h2; subst h2; rfl)
    | resource n2 => first | (simp [renameTy] at h2; done) | (simp [renameTy] at h2; subst h2; rfl)
    | var n2 => first | (simp [renameTy] at h2; done) | (simp [renameTy] at h2; subst h2; rfl)
    | _ => first | (simp [renameTy] at h2; done) | (simp only [renameTy] at h2; split at h2 <;> simp at h2; done)


/-- the source's type graph is stratified: what an entry refers to has a smaller rank (the compiler registers
    referents first; recursion is expressed by `Cycle` leaves) -/
structure Stratified (src : Prog) (rT rU : Nat → Nat) : Prop where
  child : ∀ (t : Nat) (τ : Ty) (x : Nat), src.types[t]? = some τ → x ∈ tyChildren τ → rT x < rT t
  tupleOf : ∀ (t u : Nat), src.types[t]? = some (.tuple u) → rU u < rT t
  field : ∀ (u : Nat) (T : TupleInfo) (p : Option String × Nat), src.tuples[u]? = some T → p ∈ T.fields → rT p.2 < rU u

theorem mapOpt_comp_snd {α : Type} {g : Nat → Option Nat} : ∀ (fs : List (α × Nat)),
    mapOpt (fun (p : α × Nat) => g p.2) fs = mapOpt g (fs.map (·.2))
  | [] => rfl
  | f :: fs => by simp only [mapOpt, List.map_cons, mapOpt_comp_snd fs]

theorem list_prod_ext {α β : Type} : ∀ {l1 l2 : List (α × β)}, l1.map (·.1) = l2.map (·.1) →
    l1.map (·.2) = l2.map (·.2) → l1 = l2
  | [], [], _, _ => rfl
  | [], _ :: _, h, _ => by simp at h
  | _ :: _, [], h, _ => by simp at h
  | a :: as, b :: bs, h1, h2 => by
    simp only [List.map_cons, List.cons.injEq] at h1 h2
    rw [Prod.ext h1.1 h2.1, list_prod_ext h1.2 h2.2]

/-- **Injectivity of `type_remap` / `tuple_remap` from duplicate-freeness** (by induction along the stratification):
    given the two image clauses, a duplicate-free source and a stratified type graph, two source ids with the same
    image are equal. -/
theorem type_tuple_maps_inj {src out : Prog} {ρ : Ren} {rT rU : Nat → Nat} (hs : Stratified src rT rU)
    (hnT : src.types.toList.Nodup) (hnU : src.tuples.toList.Nodup)
    (TC : ∀ t t', ρ.type.get t = some t' → ∃ τ τ', src.types[t]? = some τ ∧ out.types[t']? = some τ' ∧
      renameTy ρ τ = some τ')
    (UC : ∀ u u', ρ.tuple.get u = some u' → ∃ T T', src.tuples[u]? = some T ∧ out.tuples[u']? = some T' ∧
      T'.name = T.name ∧ T'.fields.map (·.1) = T.fields.map (·.1) ∧
      mapOpt (fun (p : Option String × Nat) => ρ.type.get p.2) T.fields = some (T'.fields.map (·.2))) :
    ρ.type.Inj ∧ ρ.tuple.Inj := by
  have key : ∀ r : Nat,
      (∀ a b n, rT a < r → ρ.type.get a = some n → ρ.type.get b = some n → a = b) ∧
      (∀ u v n, rU u < r → ρ.tuple.get u = some n → ρ.tuple.get v = some n → u = v) := by
    intro r
    induction r with
    | zero => exact ⟨fun _ _ _ h => by omega, fun _ _ _ h => by omega⟩
    | succ r ih =>
      refine ⟨fun a b n hr ha hb => ?_, fun u v n hr hu hv => ?_⟩
      · obtain ⟨τa, τ', ha1, ha2, ha3⟩ := TC a n ha
        obtain ⟨τb, τ'', hb1, hb2, hb3⟩ := TC b n hb
        rw [ha2] at hb2; cases hb2
        have : τa = τb := by
          refine renameTy_inj (fun x hx y m hxm hym => ?_) (fun u hu v m hum hvm => ?_) ha3 hb3
          · exact ih.1 x y m (by have := hs.child a τa x ha1 hx; omega) hxm hym
          · subst hu
            exact ih.2 u v m (by have := hs.tupleOf a u ha1; omega) hum hvm
        subst this
        exact arr_get_inj hnT ha1 hb1
      · obtain ⟨Tu, T', hu1, hu2, hu3, hu4, hu5⟩ := UC u n hu
        obtain ⟨Tv, T'', hv1, hv2, hv3, hv4, hv5⟩ := UC v n hv
        rw [hu2] at hv2; cases hv2
        have hsnd : Tu.fields.map (·.2) = Tv.fields.map (·.2) := by
          rw [mapOpt_comp_snd] at hu5 hv5
          refine mapOpt_inj (fun x hx y m hxm hym => ?_) hu5 hv5
          obtain ⟨p, hp, rfl⟩ := List.mem_map.mp hx
          exact ih.1 p.2 y m (by have := hs.field u Tu p hu1 hp; omega) hxm hym
        have hfields : Tu.fields = Tv.fields := list_prod_ext (hu4.symm.trans hv4) hsnd
        have : Tu = Tv := by
          cases Tu; cases Tv
          simp only [TupleInfo.mk.injEq]
          exact ⟨hu3.symm.trans hv3, hfields⟩
        subst this
        exact arr_get_inj hnU hu1 hv1
  exact ⟨fun a b c ha hb => (key (rT a + 1)).1 a b c (Nat.lt_succ_self _) ha hb,
         fun a b c ha hb => (key (rU a + 1)).2 a b c (Nat.lt_succ_self _) ha hb⟩


theorem renameInstr_inj {ρ : Ren} {a b c : Instr}
    (hc : ∀ i, a = .const i → ∀ j n, ρ.const.get i = some n → ρ.const.get j = some n → i = j)
    (ht : ∀ i, a = .tuple i → ∀ j n, ρ.tuple.get i = some n → ρ.tuple.get j = some n → i = j)
    (hy : ∀ i, a = .isType i → ∀ j n, ρ.type.get i = some n → ρ.type.get j = some n → i = j)
    (hb : ∀ i, a = .builtin i → ∀ j n, ρ.builtin.get i = some n → ρ.builtin.get j = some n → i = j)
    (hf : ∀ i, a = .function i → ∀ j n, ρ.fn.get i = some n → ρ.fn.get j = some n → i = j)
    (hp : ∀ pid g, a ≠ .process pid g)
    (h1 : renameInstr ρ a = some c) (h2 : renameInstr ρ b = some c) : a = b := by
  cases a with
  | const i =>
    simp only [renameInstr, Option.map_eq_some_iff] at h1
    obtain ⟨n, hn, rfl⟩ := h1
    cases b with
    | const j =>
      simp only [renameInstr, Option.map_eq_some_iff, Instr.const.injEq] at h2
      obtain ⟨m, hm, rfl⟩ := h2
      rw [hc i rfl j _ hn hm]
    | _ => first | (simp [renameInstr] at h2; done) | (simp only [renameInstr] at h2; split at h2 <;> simp at h2; done)
  | tuple i =>
    simp only [renameInstr, Option.map_eq_some_iff] at h1
    obtain ⟨n, hn, rfl⟩ := h1
    cases b with
    | tuple j =>
      simp only [renameInstr, Option.map_eq_some_iff, Instr.tuple.injEq] at h2
      obtain ⟨m, hm, rfl⟩ := h2
      rw [ht i rfl j _ hn hm]
    | _ => first | (simp [renameInstr] at h2; done) | (simp only [renameInstr] at h2; split at h2 <;> simp at h2; done)
  | isType i =>
    simp only [renameInstr, Option.map_eq_some_iff] at h1
    obtain ⟨n, hn, rfl⟩ := h1
    cases b with
    | isType j =>
      simp only [renameInstr, Option.map_eq_some_iff, Instr.isType.injEq] at h2
      obtain ⟨m, hm, rfl⟩ := h2
      rw [hy i rfl j _ hn hm]
    | _ => first | (simp [renameInstr] at h2; done) | (simp only [renameInstr] at h2; split at h2 <;> simp at h2; done)
  | builtin i =>
    simp only [renameInstr, Option.map_eq_some_iff] at h1
    obtain ⟨n, hn, rfl⟩ := h1
    cases b with
    | builtin j =>
      simp only [renameInstr, Option.map_eq_some_iff, Instr.builtin.injEq] at h2
      obtain ⟨m, hm, rfl⟩ := h2
      rw [hb i rfl j _ hn hm]
    | _ => first | (simp [renameInstr] at h2; done) | (simp only [renameInstr] at h2; split at h2 <;> simp at h2; done)
  | function i =>
    simp only [renameInstr, Option.map_eq_some_iff] at h1
    obtain ⟨n, hn, rfl⟩ := h1
    cases b with
    | function j =>
      simp only [renameInstr, Option.map_eq_some_iff, Instr.function.injEq] at h2
      obtain ⟨m, hm, rfl⟩ := h2
      rw [hf i rfl j _ hn hm]
    | _ => first | (simp [renameInstr] at h2; done) | (simp only [renameInstr] at h2; split at h2 <;> simp at h2; done)
  | process pid g => exact (hp pid g rfl).elim
  | _ =>
    simp only [renameInstr, Option.some.injEq] at h1
    subst h1
    cases b <;> first
      | rfl
      | (simp [renameInstr] at h2; done)
      | (simp [renameInstr] at h2; subst h2; rfl)
      | (simp [renameInstr] at h2; obtain ⟨rfl, rfl⟩ := h2; rfl)


theorem list_get?_inj {α : Type} {l : List α} (hn : l.Nodup) {i j : Nat} {x : α}
    (hi : l[i]? = some x) (hj : l[j]? = some x) : i = j := by
  obtain ⟨hil, hix⟩ := List.getElem?_eq_some_iff.mp hi
  obtain ⟨hjl, hjx⟩ := List.getElem?_eq_some_iff.mp hj
  exact (List.getElem_inj (h₀ := hil) (h₁ := hjl) hn).mp (hix.trans hjx.symm)

/-- injectivity of `function_remap`, by induction over the function index (references are backward) -/
theorem fn_map_inj {src out : Prog} {ρ : Ren} (hw : SrcWf src) (hn : src.fns.toList.Nodup)
    (ic : ρ.const.Inj) (it : ρ.tuple.Inj) (iy : ρ.type.Inj) (ib : ρ.builtin.Inj)
    (FC : ∀ f f', ρ.fn.get f = some f' → ∃ F F', src.fns[f]? = some F ∧ out.fns[f']? = some F' ∧
      F'.captures = F.captures ∧ renameInstrs ρ F.instrs = some F'.instrs ∧ ρ.type.get F.typeId = some F'.typeId) :
    ρ.fn.Inj := by
  have key : ∀ k : Nat, ∀ a b n, a < k → ρ.fn.get a = some n → ρ.fn.get b = some n → a = b := by
    intro k
    induction k with
    | zero => intro _ _ _ h; omega
    | succ k ih =>
      intro a b n hak ha hb
      obtain ⟨Fa, F', ha1, ha2, ha3, ha4, ha5⟩ := FC a n ha
      obtain ⟨Fb, F'', hb1, hb2, hb3, hb4, hb5⟩ := FC b n hb
      rw [ha2] at hb2; cases hb2
      have hins : Fa.instrs = Fb.instrs := by
        refine mapOpt_inj (fun x hx y c hxc hyc => ?_) ha4 hb4
        refine renameInstr_inj (fun i _ j m h1 h2 => ic i j m h1 h2) (fun i _ j m h1 h2 => it i j m h1 h2)
          (fun i _ j m h1 h2 => iy i j m h1 h2) (fun i _ j m h1 h2 => ib i j m h1 h2)
          (fun i hi j m h1 h2 => ?_) (fun pid g hpg => ?_) hxc hyc
        · exact ih i j m (by have := hw.backward a Fa ha1 i (hi ▸ hx); omega) h1 h2
        · exact hw.noProcessLiteral a Fa ha1 pid g (hpg ▸ hx)
      have : Fa = Fb := by
        cases Fa; cases Fb
        simp only [Fn.mk.injEq]
        exact ⟨hins, ha3.symm.trans hb3, iy _ _ _ ha5 hb5⟩
      subst this
      exact arr_get_inj hn ha1 hb1
  exact fun a b c ha hb => key (a + 1) a b c (Nat.lt_succ_self _) ha hb

/-- **`merge_isRenaming`**: `merge_bytecode` is a structural renaming of the incoming program into the merged one —
    `MergeIsRenamingStatement` with its side conditions made explicit. -/
theorem merge_isStructRenaming {env src : Prog} {e : Nat} {out : MergeOut}
    (h : mergeBytecodeWith false env src e = some out) (hw : SrcWf src)
    (hk : (out.ren.type.map (·.1)).Nodup ∧ (out.ren.tuple.map (·.1)).Nodup)
    {rT rU : Nat → Nat} (hs : Stratified src rT rU)
    (hd : src.consts.toList.Nodup ∧ src.fns.toList.Nodup ∧ src.types.toList.Nodup ∧ src.tuples.toList.Nodup ∧
      (src.builtins.toList.map (·.name)).Nodup)
    (hfix : ∀ i, i < 2 → ∃ T : TupleInfo, T.fields = [] ∧ src.tuples[i]? = some T ∧ env.tuples[i]? = some T)
    (hout : out.prog.tuples.toList.Nodup)
    (hbt : ∀ b b' B B', out.ren.builtin.get b = some b' → src.builtins[b]? = some B → out.prog.builtins[b']? = some B' →
      out.ren.type.get B.paramType = some B'.paramType ∧ out.ren.type.get B.resultType = some B'.resultType) :
    IsStructRenaming out.ren src out.prog e out.entry := by
  obtain ⟨TC, UC, _, utot⟩ := merge_types_tuples h hk
  obtain ⟨hentry, FC, CC, BC, _⟩ := merge_image_clauses h hw hk
  have hle := merge_extends_env h
  obtain ⟨iy, it⟩ := type_tuple_maps_inj hs hd.2.2.1 hd.2.2.2.1 TC UC
  have ic : out.ren.const.Inj := by
    intro a b c ha hb
    obtain ⟨k1, a1, a2⟩ := CC a c ha
    obtain ⟨k2, b1, b2⟩ := CC b c hb
    rw [a2] at b2; cases b2
    exact arr_get_inj hd.1 a1 b1
  have ib : out.ren.builtin.Inj := by
    intro a b c ha hb
    obtain ⟨B1, B', a1, a2, a3⟩ := BC a c ha
    obtain ⟨B2, B'', b1, b2, b3⟩ := BC b c hb
    rw [a2] at b2; cases b2
    have n1 : (src.builtins.toList.map (·.name))[a]? = some B1.name := by
      have : src.builtins.toList[a]? = some B1 := by simpa using a1
      simp [List.getElem?_map, this]
    have n2 : (src.builtins.toList.map (·.name))[b]? = some B1.name := by
      have : src.builtins.toList[b]? = some B2 := by simpa using b1
      simp [List.getElem?_map, this, ← a3, b3]
    exact list_get?_inj hd.2.2.2.2 n1 n2
  have ifn := fn_map_inj hw hd.2.1 ic it iy ib FC
  have fixed : ∀ i, i < 2 → out.ren.tuple.get i = some i := by
    intro i hi
    obtain ⟨T, hT0, hTs, hTe⟩ := hfix i hi
    have hlt : i < src.tuples.size := by
      rcases Nat.lt_or_ge i src.tuples.size with h1 | h1
      · exact h1
      · rw [Array.getElem?_eq_none h1] at hTs; cases hTs
    obtain ⟨u', hu'⟩ := utot i hlt
    obtain ⟨T0, T', a1, a2, a3, a4, _⟩ := UC i u' hu'
    rw [hTs] at a1; cases a1
    have hf' : T'.fields = [] := by
      rw [hT0] at a4
      simpa using a4
    have hT' : T' = T := by
      have h1 : T'.name = T.name := a3
      have h2 : T'.fields = T.fields := hf'.trans hT0.symm
      cases T'; cases T
      simp only [TupleInfo.mk.injEq]
      exact ⟨h1, h2⟩
    rw [hT'] at a2
    have := arr_get_inj hout a2 (hle.tuples _ _ hTe)
    rw [this] at hu'; exact hu'
  exact
    { entry := hentry, inj_const := ic, inj_fn := ifn, inj_tuple := it, inj_type := iy, inj_builtin := ib,
      nil_fixed := fixed 0 (by omega), ok_fixed := fixed 1 (by omega), fns := FC, consts := CC, tuples := UC,
      builtins := fun b b' hb => by
        obtain ⟨B, B', a1, a2, a3⟩ := BC b b' hb
        obtain ⟨p, r⟩ := hbt b b' B B' hb a1 a2
        exact ⟨B, B', a1, a2, a3, p, r⟩
      types := TC }

end QM.Packaging
