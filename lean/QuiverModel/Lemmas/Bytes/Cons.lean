import QuiverModel.Lemmas.Bytes.Basic
/-
Smart constructors of the rope preserve well-formedness and denote the expected flat operation.
Owner: C12.
-/
namespace QM.Bytes
namespace Rope

/-- `BinaryData::slice` succeeds exactly on in-range windows; the result is well-formed and its
    content is the window of the parent's content (`slice_toVec`). -/
theorem mkSlice_some {p : Rope} (hp : p.WF) {off l : Nat} (h : off + l ≤ p.len) :
    ∃ r, mkSlice p off l = some r ∧ r.WF ∧ r.bytes = (p.bytes.drop off).take l ∧ r.len = l := by
  have hl := hp.len_lt
  have he := hp.len_eq
  unfold mkSlice
  rw [if_neg (by omega), if_neg (by omega), if_neg (by omega)]
  by_cases h0 : l = 0
  · rw [if_pos h0]; subst h0
    exact ⟨_, rfl, by simp [WF], by simp [bytes], rfl⟩
  · rw [if_neg h0]
    by_cases hf : off = 0 ∧ l = p.len
    · rw [if_pos hf]
      refine ⟨_, rfl, hp, ?_, hf.2.symm⟩
      rw [hf.1, hf.2, he]; simp
    · rw [if_neg hf]
      exact ⟨_, rfl, ⟨hp, h⟩, rfl, rfl⟩

theorem mkSlice_none {p : Rope} {off l : Nat} (h : ¬ off + l ≤ p.len) : mkSlice p off l = none := by
  unfold mkSlice
  by_cases h1 : off > p.len
  · rw [if_pos h1]
  · rw [if_neg h1]
    by_cases h2 : off + l < USIZE_LIMIT
    · rw [if_neg (by omega), if_pos (by omega)]
    · rw [if_pos h2]

/-- `BinaryData::concat` does not overflow when the total fits a `usize`. -/
theorem mkConcat_ok {l r : Rope} (hl : l.WF) (hr : r.WF) (h : l.len + r.len < USIZE_LIMIT) :
    ∃ c, mkConcat l r = .ok c ∧ c.WF ∧ c.bytes = l.bytes ++ r.bytes ∧ c.len = l.len + r.len := by
  unfold mkConcat; rw [uadd_ok h]
  exact ⟨_, rfl, ⟨hl, hr, rfl, h⟩, rfl, rfl⟩

theorem mkConcat_panic {l r : Rope} (h : ¬ l.len + r.len < USIZE_LIMIT) : mkConcat l r = .panic := by
  unfold mkConcat uadd; rw [if_neg h]

/-- the cached length of `BinaryData::tiled` is the saturating product, whatever the count -/
theorem mkTiled_len {u : Rope} (hu : u.WF) (c : Nat) : (mkTiled u c).len = satMul u.len c := by
  have hl := hu.len_lt
  unfold mkTiled
  by_cases h0 : c = 0 ∨ u.len = 0
  · rw [if_pos h0]
    rcases h0 with h0 | h0 <;> simp [h0, len, satMul]
  · rw [if_neg h0]
    by_cases h1 : c = 1
    · rw [if_pos h1, h1]; simp [satMul, hl]
    · rw [if_neg h1]; rfl

/-- `BinaryData::tiled` (`tiled_toVec`): when the product fits, the result is well-formed and its
    content is `count` copies of the unit's content. -/
theorem mkTiled_spec {u : Rope} (hu : u.WF) {c : Nat} (h : u.len * c < USIZE_LIMIT) :
    (mkTiled u c).WF ∧ (mkTiled u c).bytes = tile u.bytes c := by
  have he := hu.len_eq
  unfold mkTiled
  by_cases h0 : c = 0 ∨ u.len = 0
  · rw [if_pos h0]
    refine ⟨by simp [WF], ?_⟩
    rcases h0 with h0 | h0
    · simp [h0, bytes, tile]
    · have : u.bytes = [] := List.eq_nil_of_length_eq_zero (by omega)
      simp [this, bytes, tile_nil]
  · rw [if_neg h0]
    by_cases h1 : c = 1
    · rw [if_pos h1, h1, tile_one]; exact ⟨hu, rfl⟩
    · rw [if_neg h1]; exact ⟨⟨hu, h⟩, rfl⟩

end Rope
end QM.Bytes
