import QuiverModel.Core.Bytes
/-
Rope lemmas (M-Bytes): on well-formed ropes no operation panics and every operation is the
corresponding operation on the flat content `Rope.bytes`.
Owner: C12. Import-free apart from the model (core tactics only).
-/
namespace QM.Bytes
open Rope

theorem uadd_ok {a b : Nat} (h : a + b < USIZE_LIMIT) : uadd a b = .ok (a + b) := if_pos h
theorem umul_ok {a b : Nat} (h : a * b < USIZE_LIMIT) : umul a b = .ok (a * b) := if_pos h
theorem usub_ok {a b : Nat} (h : b ≤ a) : usub a b = .ok (a - b) := if_pos h
theorem satMul_of_lt {a b : Nat} (h : a * b < USIZE_LIMIT) : satMul a b = a * b := if_pos h
theorem satMul_lt_iff {a b n : Nat} (hn : n < 18446744073709551615) :
    satMul a b ≤ n ↔ a * b ≤ n := by
  unfold satMul; split <;> omega
theorem satMul_le_max (a b : Nat) : satMul a b < USIZE_LIMIT := by
  unfold satMul; split <;> omega

@[simp] theorem length_tile (ub : List UInt8) (c : Nat) : (tile ub c).length = ub.length * c := by
  induction c with
  | zero => simp [tile]
  | succ c ih => simp [tile, ih, Nat.mul_succ, Nat.add_comm]

theorem tile_nil (c : Nat) : tile [] c = [] := by
  induction c with
  | zero => rfl
  | succ c ih => simp [tile, ih]

theorem tile_one (ub : List UInt8) : tile ub 1 = ub := by simp [tile]

theorem getElem?_tile (ub : List UInt8) (c i : Nat) (h : i < ub.length * c) :
    (tile ub c)[i]? = ub[i % ub.length]? := by
  induction c generalizing i with
  | zero => simp at h
  | succ c ih =>
    simp only [tile]
    by_cases hi : i < ub.length
    · rw [List.getElem?_append_left hi, Nat.mod_eq_of_lt hi]
    · have hge : ub.length ≤ i := Nat.le_of_not_lt hi
      rw [List.getElem?_append_right hge, ih _ (by rw [Nat.mul_succ] at h; omega),
        Nat.mod_eq_sub_mod hge]

theorem getElem?_tile_none (ub : List UInt8) (c i : Nat) (h : ¬ i < ub.length * c) :
    (tile ub c)[i]? = none := by
  apply List.getElem?_eq_none; simp; omega

namespace Rope

theorem WF.len_lt {r : Rope} (h : r.WF) : r.len < USIZE_LIMIT := by
  induction r with
  | owned bs => exact h
  | zeroed n => exact h
  | slice p off l ih => have := ih h.1; have := h.2; simp only [len] at *; omega
  | concat l r t _ _ => exact h.2.2.2
  | tiled u c _ => exact satMul_le_max _ _

/-- `len` is the length of the content (`len_toVec`, first half). -/
theorem WF.len_eq {r : Rope} (h : r.WF) : r.len = r.bytes.length := by
  induction r with
  | owned bs => rfl
  | zeroed n => simp [len, bytes]
  | slice p off l ih =>
    have := ih h.1; have := h.2
    simp only [len, bytes, List.length_take, List.length_drop] at *; omega
  | concat l r t ihl ihr =>
    have := ihl h.1; have := ihr h.2.1; have := h.2.2.1
    simp only [len, bytes, List.length_append] at *; omega
  | tiled u c ih =>
    have := ih h.1
    simp only [len, bytes, length_tile, satMul_of_lt h.2]; rw [this]

/-- `to_vec` does not panic on a well-formed rope and yields the content. -/
theorem WF.toVec_eq {r : Rope} (h : r.WF) : r.toVec = .ok r.bytes := by
  induction r with
  | owned bs => rfl
  | zeroed n => rfl
  | slice p off l ih =>
    have hp := h.1; have hb := h.2
    have hl := hp.len_lt; have he := hp.len_eq
    simp only [toVec, ih hp, bytes]
    rw [uadd_ok (by omega)]
    simp only; rw [if_pos (by omega)]
  | concat l r t ihl ihr => simp only [toVec, ihl h.1, ihr h.2.1, bytes]
  | tiled u c ih =>
    have he := h.1.len_eq
    simp only [toVec, ih h.1, bytes]
    rw [umul_ok (by rw [← he]; exact h.2)]

/-- `byte_at` does not panic on a well-formed rope and indexes the content. -/
theorem WF.byteAt_eq {r : Rope} (h : r.WF) (i : Nat) : r.byteAt i = .ok r.bytes[i]? := by
  induction r generalizing i with
  | owned bs =>
    simp only [byteAt, bytes]; split
    · rw [List.getElem?_eq_none (by omega)]
    · rfl
  | zeroed n =>
    simp only [byteAt, bytes]; split
    · rw [List.getElem?_eq_none (by simp; omega)]
    · rw [List.getElem?_replicate]; simp; omega
  | slice p off l ih =>
    have hp := h.1; have hb := h.2
    have hl := hp.len_lt; have he := hp.len_eq
    simp only [byteAt, bytes]; split
    · rw [List.getElem?_eq_none (by simp; omega)]
    · rw [uadd_ok (by omega)]; simp only
      rw [ih hp, List.getElem?_take_of_lt (by omega), List.getElem?_drop]
  | concat l r t ihl ihr =>
    have hl := h.1; have hr := h.2.1; have ht := h.2.2.1
    have hel := hl.len_eq; have her := hr.len_eq
    simp only [byteAt, bytes]; split
    · rw [List.getElem?_eq_none (by simp; omega)]
    · split
      · rw [ihl hl, List.getElem?_append_left (by omega)]
      · rw [ihr hr, List.getElem?_append_right (by omega), hel]
  | tiled u c ih =>
    have hu := h.1; have hm := h.2
    have he := hu.len_eq
    simp only [byteAt, bytes, satMul_of_lt hm]; split
    · rw [getElem?_tile_none _ _ _ (by rw [← he]; omega)]
    · split
      · rename_i h1 h2; rw [h2] at h1; simp at h1
      · rw [ih hu, getElem?_tile _ _ _ (by rw [← he]; omega), he]

/-- The iterator does not panic and yields the content. -/
theorem WF.iterFrom_eq {r : Rope} (h : r.WF) (fuel i : Nat) :
    r.iterFrom fuel i = .ok ((r.bytes.drop i).take fuel) := by
  induction fuel generalizing i with
  | zero => simp [iterFrom]
  | succ fuel ih =>
    simp only [iterFrom, h.byteAt_eq]
    cases hb : r.bytes[i]? with
    | none =>
      simp only
      rw [List.drop_eq_nil_of_le (by
        rcases List.getElem?_eq_none_iff.mp hb with h'; omega)]
      simp
    | some b =>
      simp only [ih]
      have hi : i < r.bytes.length := by
        rcases List.getElem?_eq_some_iff.mp hb with ⟨h', _⟩; exact h'
      have hb' : r.bytes[i] = b := by
        rcases List.getElem?_eq_some_iff.mp hb with ⟨_, h'⟩; exact h'
      rw [List.drop_eq_getElem_cons hi, List.take_succ_cons, hb']

theorem WF.iter_eq {r : Rope} (h : r.WF) : r.iter = .ok r.bytes := by
  unfold iter; rw [h.iterFrom_eq, h.len_eq]; simp

end Rope
end QM.Bytes
