import QuiverModel.Lemmas.Bytes.Basic
/-
`find_byte` on a well-formed rope is the reference search on the flat content (`findByte_spec`).
Owner: C12.
-/
namespace QM.Bytes
open Rope

/-- `res` is the index of the first `b` at or after `off` in `v` (or there is none). -/
def IsFirst (v : List UInt8) (b : UInt8) (off : Nat) : Option Nat → Prop
  | some i => off ≤ i ∧ v[i]? = some b ∧ ∀ j, off ≤ j → j < i → v[j]? ≠ some b
  | none => ∀ j, off ≤ j → v[j]? ≠ some b

theorem IsFirst.unique {v : List UInt8} {b : UInt8} {off : Nat} {x y : Option Nat}
    (hx : IsFirst v b off x) (hy : IsFirst v b off y) : x = y := by
  cases x with
  | none =>
    cases y with
    | none => rfl
    | some j => exact absurd hy.2.1 (hx j hy.1)
  | some i =>
    cases y with
    | none => exact absurd hx.2.1 (hy i hx.1)
    | some j =>
      obtain ⟨hi1, hi2, hi3⟩ := hx
      obtain ⟨hj1, hj2, hj3⟩ := hy
      by_cases h1 : i < j
      · exact absurd hi2 (hj3 i hi1 h1)
      · by_cases h2 : j < i
        · exact absurd hj2 (hi3 j hj1 h2)
        · congr; omega

theorem firstIdx_isFirst (b : UInt8) (xs : List UInt8) : IsFirst xs b 0 (firstIdx b xs) := by
  induction xs with
  | nil => intro j _; simp
  | cons x xs ih =>
    simp only [firstIdx]
    by_cases hx : x = b
    · rw [if_pos hx]
      exact ⟨Nat.le_refl _, by simp [hx], fun j _ hj => absurd hj (Nat.not_lt_zero _)⟩
    · rw [if_neg hx]
      cases hf : firstIdx b xs with
      | none =>
        rw [hf] at ih
        intro j _
        cases j with
        | zero => simpa using hx
        | succ j => simpa using ih j (Nat.zero_le _)
      | some i =>
        rw [hf] at ih
        obtain ⟨_, h2, h3⟩ := ih
        refine ⟨Nat.zero_le _, by simpa using h2, ?_⟩
        intro j _ hj
        cases j with
        | zero => simpa using hx
        | succ j => simpa using h3 j (Nat.zero_le _) (by simp at hj; omega)

/-- The reference search finds the first occurrence at or after `off`. -/
theorem findFrom_isFirst (v : List UInt8) (b : UInt8) (off : Nat) :
    IsFirst v b off (findFrom v b off) := by
  unfold findFrom
  by_cases h : off ≥ v.length
  · rw [if_pos h]; intro j hj; rw [List.getElem?_eq_none (by omega)]; simp
  · rw [if_neg h]
    have hf := firstIdx_isFirst b (v.drop off)
    cases hx : firstIdx b (v.drop off) with
    | none =>
      rw [hx] at hf
      intro j hj
      have := hf (j - off) (Nat.zero_le _)
      rw [List.getElem?_drop] at this
      rwa [show off + (j - off) = j by omega] at this
    | some i =>
      rw [hx] at hf
      obtain ⟨_, h2, h3⟩ := hf
      rw [List.getElem?_drop] at h2
      refine ⟨by simp, by simpa [Nat.add_comm] using h2, ?_⟩
      intro j hj hlt
      have := h3 (j - off) (Nat.zero_le _) (by simp at hlt; omega)
      rw [List.getElem?_drop] at this
      rwa [show off + (j - off) = j by omega] at this

theorem getElem?_some_lt {v : List UInt8} {i : Nat} {b : UInt8} (h : v[i]? = some b) : i < v.length := by
  rcases List.getElem?_eq_some_iff.mp h with ⟨h', _⟩; exact h'

/-- index arithmetic inside a tiled content -/
theorem tile_index {n q k : Nat} (hk : k < n) : (n * q + k) % n = k ∧ (n * q + k) / n = q := by
  have hn : 0 < n := by omega
  constructor
  · rw [Nat.mul_add_mod]; exact Nat.mod_eq_of_lt hk
  · rw [Nat.mul_add_div hn, Nat.div_eq_of_lt hk]; simp

namespace Rope

/-- `find_byte` does not panic on a well-formed rope and returns the first occurrence. -/
theorem WF.findByte_isFirst {r : Rope} (h : r.WF) (b : UInt8) (off : Nat) :
    ∃ res, r.findByte b off = .ok res ∧ IsFirst r.bytes b off res := by
  induction r generalizing off with
  | owned bs =>
    refine ⟨findFrom bs b off, ?_, findFrom_isFirst bs b off⟩
    simp only [findByte, findFrom]; split <;> rfl
  | zeroed n =>
    refine ⟨_, rfl, ?_⟩
    simp only [bytes]
    by_cases hc : b = 0 ∧ off < n
    · rw [if_pos hc]
      refine ⟨Nat.le_refl _, ?_, fun j h1 h2 => absurd h2 (by omega)⟩
      rw [List.getElem?_replicate, if_pos hc.2, hc.1]
    · rw [if_neg hc]
      intro j hj
      rw [List.getElem?_replicate]
      by_cases hjn : j < n
      · rw [if_pos hjn]; intro heq
        have : (0 : UInt8) = b := by simpa using heq
        exact hc ⟨this.symm, by omega⟩
      · rw [if_neg hjn]; simp
  | slice p so l ih =>
    have hp := h.1; have hb := h.2
    have hl := hp.len_lt; have he := hp.len_eq
    have hget : ∀ j, j < l → ((p.bytes.drop so).take l)[j]? = p.bytes[so + j]? := by
      intro j hj; rw [List.getElem?_take_of_lt hj, List.getElem?_drop]
    have hout : ∀ j, ¬ j < l → ((p.bytes.drop so).take l)[j]? = none := by
      intro j hj; apply List.getElem?_eq_none; simp; omega
    simp only [findByte, bytes]
    by_cases hoff : off ≥ l
    · rw [if_pos hoff]
      exact ⟨_, rfl, fun j hj => by rw [hout j (by omega)]; simp⟩
    · rw [if_neg hoff, uadd_ok (by omega)]
      obtain ⟨res, hres, hfirst⟩ := ih hp (so + off)
      simp only [hres]
      cases res with
      | none =>
        refine ⟨_, rfl, ?_⟩
        intro j hj
        by_cases hjl : j < l
        · rw [hget j hjl]; exact hfirst (so + j) (by omega)
        · rw [hout j hjl]; simp
      | some abs =>
        obtain ⟨h1, h2, h3⟩ := hfirst
        simp only [usub_ok (show so ≤ abs by omega)]
        refine ⟨_, rfl, ?_⟩
        by_cases hrel : abs - so < l
        · rw [if_pos hrel]
          refine ⟨by omega, ?_, ?_⟩
          · rw [hget _ hrel, show so + (abs - so) = abs by omega]; exact h2
          · intro j hj1 hj2
            rw [hget j (by omega)]; exact h3 (so + j) (by omega) (by omega)
        · rw [if_neg hrel]
          intro j hj
          by_cases hjl : j < l
          · rw [hget j hjl]; exact h3 (so + j) (by omega) (by omega)
          · rw [hout j hjl]; simp
  | concat l r t ihl ihr =>
    have hl := h.1; have hr := h.2.1; have ht := h.2.2.1; have htl := h.2.2.2
    have hel := hl.len_eq; have her := hr.len_eq
    have hleft : ∀ j, j < l.len → (l.bytes ++ r.bytes)[j]? = l.bytes[j]? := by
      intro j hj; rw [List.getElem?_append_left (by omega)]
    have hright : ∀ j, ¬ j < l.len → (l.bytes ++ r.bytes)[j]? = r.bytes[j - l.len]? := by
      intro j hj; rw [List.getElem?_append_right (by omega), hel]
    -- the right part searched from `o`, shifted by the left length
    have hshift : ∀ o, l.len ≤ o + l.len →
        ∃ res, addIdx l.len (r.findByte b o) = .ok res ∧
          (∀ i, res = some i → l.len + o ≤ i ∧ (l.bytes ++ r.bytes)[i]? = some b ∧
              ∀ j, l.len + o ≤ j → j < i → (l.bytes ++ r.bytes)[j]? ≠ some b) ∧
          (res = none → ∀ j, l.len + o ≤ j → (l.bytes ++ r.bytes)[j]? ≠ some b) := by
      intro o _
      obtain ⟨res, hres, hfirst⟩ := ihr hr o
      rw [hres]
      cases res with
      | none =>
        refine ⟨none, rfl, (fun i hi => by cases hi), fun _ j hj => ?_⟩
        rw [hright j (by omega)]; exact hfirst (j - l.len) (by omega)
      | some i =>
        obtain ⟨h1, h2, h3⟩ := hfirst
        have hi := getElem?_some_lt h2
        simp only [addIdx]
        rw [uadd_ok (by omega)]
        refine ⟨some (i + l.len), rfl, (fun i' hi' => ?_), (fun hn => by cases hn)⟩
        cases hi'
        refine ⟨by omega, ?_, ?_⟩
        · rw [hright _ (by omega), show i + l.len - l.len = i by omega]; exact h2
        · intro j hj1 hj2
          rw [hright j (by omega)]; exact h3 (j - l.len) (by omega) (by omega)
    simp only [findByte, bytes]
    by_cases hoff : off < l.len
    · rw [if_pos hoff]
      obtain ⟨res, hres, hfirst⟩ := ihl hl off
      simp only [hres]
      cases res with
      | some i =>
        obtain ⟨h1, h2, h3⟩ := hfirst
        have hi := getElem?_some_lt h2
        refine ⟨_, rfl, h1, ?_, ?_⟩
        · rw [hleft i (by omega)]; exact h2
        · intro j hj1 hj2; rw [hleft j (by omega)]; exact h3 j hj1 hj2
      | none =>
        obtain ⟨res2, hres2, hsome, hnone⟩ := hshift 0 (by omega)
        simp only [hres2]
        refine ⟨_, rfl, ?_⟩
        cases res2 with
        | none =>
          intro j hj
          by_cases hjl : j < l.len
          · rw [hleft j hjl]; exact hfirst j hj
          · exact hnone rfl j (by omega)
        | some i =>
          obtain ⟨h1, h2, h3⟩ := hsome i rfl
          refine ⟨by omega, h2, ?_⟩
          intro j hj1 hj2
          by_cases hjl : j < l.len
          · rw [hleft j hjl]; exact hfirst j hj1
          · exact h3 j (by omega) hj2
    · rw [if_neg hoff]
      obtain ⟨res2, hres2, hsome, hnone⟩ := hshift (off - l.len) (by omega)
      simp only [hres2]
      refine ⟨_, rfl, ?_⟩
      cases res2 with
      | none => intro j hj; exact hnone rfl j (by omega)
      | some i =>
        obtain ⟨h1, h2, h3⟩ := hsome i rfl
        exact ⟨by omega, h2, fun j hj1 hj2 => h3 j (by omega) hj2⟩
  | tiled u c ih =>
    have hu := h.1; have hm := h.2
    have he := hu.len_eq
    simp only [findByte, bytes]
    by_cases h0 : u.len = 0
    · rw [if_pos h0]
      refine ⟨_, rfl, fun j _ => ?_⟩
      rw [getElem?_tile_none _ _ _ (by rw [← he, h0]; simp)]; simp
    · rw [if_neg h0, umul_ok hm]
      simp only
      by_cases hoff : off ≥ u.len * c
      · rw [if_pos hoff]
        refine ⟨_, rfl, fun j hj => ?_⟩
        rw [getElem?_tile_none _ _ _ (by rw [← he]; omega)]; simp
      · rw [if_neg hoff]
        have hn : 0 < u.len := by omega
        -- off = n * start + m
        have hdm : u.len * (off / u.len) + off % u.len = off := Nat.div_add_mod off u.len
        have hmlt : off % u.len < u.len := Nat.mod_lt _ hn
        have hstart : off / u.len < c := by
          apply Nat.div_lt_of_lt_mul; exact Nat.lt_of_not_ge hoff
        -- content at index n*q + k
        have hget : ∀ q k, q < c → k < u.len → (tile u.bytes c)[u.len * q + k]? = u.bytes[k]? := by
          intro q k hq hk
          have hlt : u.len * q + k < u.bytes.length * c := by
            rw [← he]
            calc u.len * q + k < u.len * q + u.len := by omega
              _ = u.len * (q + 1) := by rw [Nat.mul_succ]
              _ ≤ u.len * c := Nat.mul_le_mul_left _ hq
          rw [getElem?_tile _ _ _ hlt, ← he, (tile_index hk).1]
        -- every index decomposes
        have hdecomp : ∀ j, j < u.len * c → ∃ q k, j = u.len * q + k ∧ k < u.len ∧ q < c := by
          intro j hj
          refine ⟨j / u.len, j % u.len, (Nat.div_add_mod j u.len).symm, Nat.mod_lt _ hn, ?_⟩
          apply Nat.div_lt_of_lt_mul; exact hj
        have hmono : ∀ q q', q < q' → u.len * q + u.len ≤ u.len * q' := by
          intro q q' hq
          calc u.len * q + u.len = u.len * (q + 1) := by rw [Nat.mul_succ]
            _ ≤ u.len * q' := Nat.mul_le_mul_left _ hq
        obtain ⟨res, hres, hfirst⟩ := ih hu (off % u.len)
        simp only [hres]
        cases res with
        | some pos =>
          obtain ⟨h1, h2, h3⟩ := hfirst
          have hpos : pos < u.len := by have := getElem?_some_lt h2; omega
          have hbound : u.len * (off / u.len) + pos < u.len * c := by
            have := hmono _ _ hstart; omega
          have hm1 : off / u.len * u.len < USIZE_LIMIT := by rw [Nat.mul_comm]; omega
          have ha1 : off / u.len * u.len + pos < USIZE_LIMIT := by rw [Nat.mul_comm]; omega
          simp only [umul_ok hm1, uadd_ok ha1, Outcome.bind, Outcome.map]
          refine ⟨_, rfl, ?_⟩
          rw [Nat.mul_comm (off / u.len) u.len]
          refine ⟨by omega, ?_, ?_⟩
          · rw [hget _ _ hstart hpos]; exact h2
          · intro j hj1 hj2
            obtain ⟨q, k, hjk, hk, hq⟩ := hdecomp j (by omega)
            have hqs : q = off / u.len := by
              by_cases hlt : q < off / u.len
              · have := hmono _ _ hlt; omega
              · by_cases hgt : off / u.len < q
                · have := hmono _ _ hgt; omega
                · omega
            subst hjk
            rw [hget q k hq hk]
            exact h3 k (by rw [hqs] at hj1; omega) (by rw [hqs] at hj2; omega)
        | none =>
          -- no `b` in the unit at positions ≥ m
          by_cases hnext : off / u.len + 1 < c
          · rw [if_pos hnext]
            obtain ⟨res2, hres2, hfirst2⟩ := ih hu 0
            simp only [hres2]
            cases res2 with
            | some pos =>
              obtain ⟨_, h2, h3⟩ := hfirst2
              have hpos : pos < u.len := by have := getElem?_some_lt h2; omega
              have hbound : u.len * (off / u.len + 1) + pos < u.len * c := by
                have := hmono _ _ hnext; omega
              have hm1 : (off / u.len + 1) * u.len < USIZE_LIMIT := by rw [Nat.mul_comm]; omega
              have ha1 : (off / u.len + 1) * u.len + pos < USIZE_LIMIT := by rw [Nat.mul_comm]; omega
              simp only [umul_ok hm1, uadd_ok ha1, Outcome.bind, Outcome.map]
              refine ⟨_, rfl, ?_⟩
              rw [Nat.mul_comm (off / u.len + 1) u.len]
              have hexp : u.len * (off / u.len + 1) = u.len * (off / u.len) + u.len := Nat.mul_succ _ _
              refine ⟨by omega, ?_, ?_⟩
              · rw [hget _ _ hnext hpos]; exact h2
              · intro j hj1 hj2
                obtain ⟨q, k, hjk, hk, hq⟩ := hdecomp j (by omega)
                subst hjk
                rw [hget q k hq hk]
                by_cases hqs : q = off / u.len
                · exact hfirst k (by rw [hqs] at hj1; omega)
                · have hq1 : q = off / u.len + 1 := by
                    by_cases hlt : q < off / u.len
                    · have := hmono _ _ hlt; omega
                    · by_cases hgt : off / u.len + 1 < q
                      · have := hmono _ _ hgt; omega
                      · omega
                  exact h3 k (Nat.zero_le _) (by rw [hq1] at hj2; omega)
            | none =>
              refine ⟨_, rfl, ?_⟩
              intro j hj
              by_cases hjl : j < u.len * c
              · obtain ⟨q, k, hjk, hk, hq⟩ := hdecomp j hjl
                subst hjk
                rw [hget q k hq hk]; exact hfirst2 k (Nat.zero_le _)
              · rw [getElem?_tile_none _ _ _ (by rw [← he]; omega)]; simp
          · rw [if_neg hnext]
            refine ⟨_, rfl, ?_⟩
            intro j hj
            by_cases hjl : j < u.len * c
            · obtain ⟨q, k, hjk, hk, hq⟩ := hdecomp j hjl
              have hqs : q = off / u.len := by
                by_cases hlt : q < off / u.len
                · have := hmono _ _ hlt; omega
                · omega
              subst hjk
              rw [hget q k hq hk]
              exact hfirst k (by rw [hqs] at hj; omega)
            · rw [getElem?_tile_none _ _ _ (by rw [← he]; omega)]; simp

/-- `findByte_spec`: on a well-formed rope, `find_byte` is the reference search on the content. -/
theorem WF.findByte_eq {r : Rope} (h : r.WF) (b : UInt8) (off : Nat) :
    r.findByte b off = .ok (findFrom r.bytes b off) := by
  obtain ⟨res, hres, hfirst⟩ := h.findByte_isFirst b off
  rw [hres, hfirst.unique (findFrom_isFirst _ _ _)]

end Rope
end QM.Bytes
