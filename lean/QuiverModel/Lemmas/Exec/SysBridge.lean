import QuiverModel.Lemmas.Sys.Await
import QuiverModel.Lemmas.Sys.Faithful
import QuiverModel.Lemmas.Exec.Error
/-
Bridge between C04's protocol model M-Sys (Core/Sys/Basic.lean, imported read-only with its lemma
library) and the failure-containment model of C15 (Core/Exec/Error.lean):
* the environment side of failure propagation, handler by handler, on EVERY state of M-Sys;
* the routing invariant of the composed system restated as "no `EnvironmentError` is ever returned" and
  "every command the environment sends satisfies `CmdOK`";
* translation of M-Sys commands to the commands of `QM.Exec.Worker`, so that `worker_step_total` holds
  without a `CmdOK` hypothesis for whatever the environment can send.
-/
namespace QM.Sys
variable [Cfg]

/-! ### association lists -/

/-- the LAST binding of `t` in `more` wins in `aextend m more` (`HashMap::extend`) -/
def lastBinding {β : Type} : List (Nat × β) → Nat → Option β
  | [], _ => none
  | (k, v) :: rest, t =>
    match lastBinding rest t with
    | some x => some x
    | none => if k = t then some v else none

theorem alookup_aextend {β : Type} : ∀ (more m : List (Nat × β)) (t : Nat),
    alookup (aextend m more) t = (match lastBinding more t with | some v => some v | none => alookup m t)
  | [], m, t => by simp [aextend, lastBinding]
  | (k, v) :: more, m, t => by
    show alookup (aextend (ainsert m k v) more) t = _
    rw [alookup_aextend more (ainsert m k v) t]
    simp only [lastBinding]
    cases lastBinding more t with
    | some x => rfl
    | none =>
      simp only [alookup_ainsert]
      by_cases h : k = t
      · simp [h]
      · simp [h]

theorem mem_keys_of_lastBinding {β : Type} : ∀ (l : List (Nat × β)) (t : Nat) (x : β),
    lastBinding l t = some x → t ∈ l.map (·.1)
  | [], _, _, h => by simp [lastBinding] at h
  | (k, v) :: rest, t, x, h => by
    simp only [lastBinding] at h
    cases hr : lastBinding rest t with
    | some y => simp [mem_keys_of_lastBinding rest t y hr]
    | none =>
      rw [hr] at h
      by_cases hk : k = t
      · simp [hk]
      · simp [hk] at h

theorem lastBinding_of_alookup_unique {β : Type} : ∀ (l : List (Nat × β)) (t : Nat) (v : β),
    (l.map (·.1)).Nodup → alookup l t = some v → lastBinding l t = some v
  | [], _, _, _, h => by simp [alookup] at h
  | (k, v') :: rest, t, v, hnd, h => by
    simp only [List.map_cons, List.nodup_cons] at hnd
    unfold alookup at h
    simp only [lastBinding]
    by_cases hk : k = t
    · simp only [hk, if_true, Option.some.injEq] at h
      subst hk h
      have : lastBinding rest k = none := by
        cases hl : lastBinding rest k with
        | none => rfl
        | some x => exact (hnd.1 (mem_keys_of_lastBinding rest k x hl)).elim
      simp [this]
    · simp only [hk, if_false] at h
      rw [lastBinding_of_alookup_unique rest t v hnd.2 h]

/-! ### `handle_process_results`: a later outcome overrides the placeholder -/

/-- **The real outcome overrides the placeholder.** On EVERY state: the awaiter `a` has a pending
(initial, multi-worker) await query; worker `w0` reports `new`, in which target `t` has the outcome `r`
(e.g. `Some(Err)` after the placeholder `None` of a still running — or already failed — target). Then
afterwards the pending entry holds `r` for `t` (whatever it held before, in particular the placeholder),
or `r` has left for the awaiter in an UpdateAwaitResults command. (`seeded/C15-3` made the first report
win: `first_report_wins_loses_failure` below.) -/
theorem outcome_overrides_placeholder (s : Sys) (a : Pid) (new : Results) (w0 : Wid) (t : Pid) (r : Res)
    (pa : PendingAwait) (hp : s.env.pending a = some pa)
    (hrouted : (s.env.router a).isSome)
    (hsender : ∃ k v rest, new = (k, v) :: rest ∧ s.env.router k = some w0)
    (hnd : (new.map (·.1)).Nodup) (hnew : alookup new t = some (some r)) :
    pendingHas (handleProcResultsWith mergeAnswer s a new) a w0 t r ∨
    ∃ aw rs, Cmd.updateAwait a rs ∈ (handleProcResultsWith mergeAnswer s a new).cmdQ aw ∧ (t, some r) ∈ rs := by
  obtain ⟨k, v, rest, hn, hk⟩ := hsender
  unfold handleProcResultsWith
  simp only [hp]
  cases hra : s.env.router a with
  | none => rw [hra] at hrouted; cases hrouted
  | some aw =>
    subst hn
    dsimp only
    rw [hk]
    dsimp only
    have hkeep : ∃ rs1, alookup (ainsert pa.responses w0 (mergeAnswer (alookup pa.responses w0) ((k, v) :: rest))) w0 = some rs1 ∧
        alookup rs1 t = some (some r) := by
      rw [alookup_ainsert]
      simp only [if_true]
      refine ⟨_, rfl, ?_⟩
      unfold mergeAnswer
      cases alookup pa.responses w0 with
      | none => exact hnew
      | some old =>
        show alookup (aextend old ((k, v) :: rest)) t = some (some r)
        rw [alookup_aextend, lastBinding_of_alookup_unique _ t _ hnd hnew]
    obtain ⟨rs1, hk1, hk2⟩ := hkeep
    split
    · right
      refine ⟨aw, _, mem_pushCmd_self _ _ _, ?_⟩
      rw [List.mem_flatten]
      exact ⟨rs1, List.mem_map.mpr ⟨(w0, rs1), alookup_mem hk1, rfl⟩, alookup_mem hk2⟩
    · left
      exact ⟨{ expected := pa.expected.filter (· ≠ w0), responses := ainsert pa.responses w0 (mergeAnswer (alookup pa.responses w0) ((k, v) :: rest)) },
        rs1, by simp, hk1, hk2⟩

/-- A completion report for an awaiter WITHOUT a pending initial query (a later completion) is forwarded
verbatim to the awaiter's worker. -/
theorem report_without_pending_is_forwarded (s : Sys) (a : Pid) (rs : Results) (aw : Wid)
    (hp : s.env.pending a = none) (hr : s.env.router a = some aw) :
    Cmd.updateAwait a rs ∈ (handleProcResultsWith mergeAnswer s a rs).cmdQ aw ∧
    (handleProcResultsWith mergeAnswer s a rs).fault = s.fault := by
  unfold handleProcResultsWith
  simp only [hp, hr]
  exact ⟨mem_pushCmd_self _ _ _, rfl⟩

/-! ### `update_await_results` on the awaiter's worker -/

/-- what a notification may change in the awaiter's record -/
structure Keeps (x x' : Proc) : Prop where
  result : x'.result = x.result
  keys : ∀ k, (alookup x'.awaiting k).isSome = (alookup x.awaiting k).isSome
  failed : ∀ k ∈ x.awaitFailed, k ∈ x'.awaitFailed
  stored : ∀ k v, (k, some v) ∈ x.awaiting → ∃ v', (k, some v') ∈ x'.awaiting

theorem Keeps.refl (x : Proc) : Keeps x x := ⟨rfl, fun _ => rfl, fun _ h => h, fun _ v h => ⟨v, h⟩⟩
theorem Keeps.trans {x y z : Proc} (h1 : Keeps x y) (h2 : Keeps y z) : Keeps x z :=
  ⟨h2.result.trans h1.result, fun k => (h2.keys k).trans (h1.keys k), fun k hk => h2.failed k (h1.failed k hk),
   fun k v h => by obtain ⟨v', h'⟩ := h1.stored k v h; exact h2.stored k v' h'⟩

theorem mem_ainsert_some {l : List (Nat × Option Val)} {k x : Nat} {v y : Val} (h : (k, some v) ∈ l) :
    ∃ v', (k, some v') ∈ ainsert l x (some y) := by
  induction l with
  | nil => cases h
  | cons kv rest ih =>
    obtain ⟨k0, v0⟩ := kv
    unfold ainsert
    by_cases hk : k0 = x
    · simp only [hk, if_true]
      rcases List.mem_cons.mp h with h | h
      · simp only [Prod.mk.injEq] at h
        exact ⟨y, by rw [h.1, hk]; simp⟩
      · exact ⟨v, List.mem_cons_of_mem _ h⟩
    · simp only [hk, if_false]
      rcases List.mem_cons.mp h with h | h
      · exact ⟨v, by rw [h]; simp⟩
      · obtain ⟨v', hv'⟩ := ih h
        exact ⟨v', List.mem_cons_of_mem _ hv'⟩

theorem mem_ainsert_self {β : Type} (l : List (Nat × β)) (x : Nat) (y : β) : (x, y) ∈ ainsert l x y := by
  induction l with
  | nil => simp [ainsert]
  | cons kv rest ih =>
    obtain ⟨k0, v0⟩ := kv
    unfold ainsert
    by_cases hk : k0 = x
    · simp [hk]
    · simp only [hk, if_false]; exact List.mem_cons_of_mem _ ih

theorem Keeps.still {x x' : Proc} (h : Keeps x x') (t : Pid) : x'.stillAwaiting t = x.stillAwaiting t := by
  simp [Proc.stillAwaiting, h.result, h.keys t]

theorem not_mem_selecting_wake (w : WorkerSt) (p : Pid) : p ∉ (w.wakeSelecting p).selecting := by
  unfold WorkerSt.wakeSelecting
  split
  · simp [mem_serase]
  · assumption

theorem notifyResult_keeps (w : WorkerSt) (a t : Pid) (r : Res) (x : Proc) (hx : w.procs a = some x) :
    ∃ x', (w.notifyResult a t r).procs a = some x' ∧ Keeps x x' ∧
      (r = .err → x.stillAwaiting t = true → t ∈ x'.awaitFailed) := by
  cases r with
  | ok v =>
    simp only [WorkerSt.notifyResult, WorkerSt.notifyResultOk, wakeSelecting_procs, WorkerSt.modProc, hx]
    by_cases hs : x.stillAwaiting t = true
    · refine ⟨{ x with awaiting := ainsert x.awaiting t (some v), unanswered := x.unanswered.filter (· ≠ t) }, by simp [hs], ⟨rfl, ?_, fun _ h => h, fun k v0 h => mem_ainsert_some h⟩, by intro h; cases h⟩
      intro k
      simp only [alookup_ainsert]
      by_cases hk : t = k
      · subst hk
        simp only [Proc.stillAwaiting, Bool.and_eq_true] at hs
        simp [hs.2]
      · simp [hk]
    · exact ⟨x, by simp [hs], Keeps.refl x, by intro h; cases h⟩
  | err =>
    simp only [WorkerSt.notifyResult, WorkerSt.notifyFailure, hx]
    by_cases hs : x.stillAwaiting t = true
    · simp only [hs, if_true, wakeSelecting_procs, WorkerSt.modProc, hx]
      exact ⟨{ x with awaitFailed := sinsert x.awaitFailed t, unanswered := x.unanswered.filter (· ≠ t) }, by simp, ⟨rfl, fun _ => rfl, fun k hk => mem_sinsert.mpr (Or.inl hk), fun _ v h => ⟨v, h⟩⟩,
        fun _ _ => mem_sinsert.mpr (Or.inr rfl)⟩
    · have hs' : x.stillAwaiting t = false := by simpa using hs
      simp only [hs']
      exact ⟨x, by simpa using hx, Keeps.refl x, fun _ h => by cases h⟩

/-- `notify_pending` (variant `selectWaits`) only shortens `unanswered` -/
theorem notifyPending_keeps (w : WorkerSt) (a t : Pid) (x : Proc) (hx : w.procs a = some x) :
    ∃ x', (w.notifyPending a t).procs a = some x' ∧ Keeps x x' :=
  ⟨{ x with unanswered := x.unanswered.filter (· ≠ t) }, by simp [WorkerSt.notifyPending, WorkerSt.modProc, hx],
    ⟨rfl, fun _ => rfl, fun _ h => h, fun _ v h => ⟨v, h⟩⟩⟩

theorem applyResults_keeps (a : Pid) : ∀ (rs : Results) (w : WorkerSt) (x : Proc), w.procs a = some x →
    ∃ x', (applyResults w a rs).procs a = some x' ∧ Keeps x x' ∧
      ∀ t, (t, some Res.err) ∈ rs → x.stillAwaiting t = true → t ∈ x'.awaitFailed
  | [], w, x, hx => ⟨x, hx, Keeps.refl x, by intro t h; simp at h⟩
  | (t0, none) :: rest, w, x, hx => by
    obtain ⟨x1, g1, g2⟩ := notifyPending_keeps w a t0 x hx
    obtain ⟨x', h1, h2, h3⟩ := applyResults_keeps a rest (w.notifyPending a t0) x1 g1
    refine ⟨x', by simpa [applyResults] using h1, g2.trans h2, ?_⟩
    intro t ht hs
    rcases List.mem_cons.mp ht with h | h
    · cases h
    · exact h3 t h (by rw [g2.still]; exact hs)
  | (t0, some r) :: rest, w, x, hx => by
    obtain ⟨x1, g1, g2, g3⟩ := notifyResult_keeps w a t0 r x hx
    obtain ⟨x', h1, h2, h3⟩ := applyResults_keeps a rest (w.notifyResult a t0 r) x1 g1
    refine ⟨x', by simpa [applyResults] using h1, g2.trans h2, ?_⟩
    intro t ht hs
    rcases List.mem_cons.mp ht with h | h
    · simp only [Prod.mk.injEq, Option.some.injEq] at h
      obtain ⟨rfl, rfl⟩ := h
      exact h2.failed _ (g3 rfl hs)
    · exact h3 t h (by rw [g2.still]; exact hs)

/-- **The awaiter's worker records the failure and wakes the select.** On EVERY state: an
UpdateAwaitResults for `a` that carries `Some(Err)` for a target `a`'s current select still awaits leaves
`t` in `awaiting_failed` (a ready source of that select) and `a` out of `selecting` — whatever else the
answer carries, and in whatever order. -/
theorem update_records_failure (s : Sys) (i : Wid) (a : Pid) (rs : Results) (x : Proc) (t : Pid)
    (hx : (s.wk i).procs a = some x) (hs : x.stillAwaiting t = true) (ht : (t, some Res.err) ∈ rs) :
    ∃ x', ((handleCmd s i (.updateAwait a rs)).wk i).procs a = some x' ∧ t ∈ x'.awaitFailed ∧
      x'.result = x.result ∧ x'.mailbox = x'.mailbox ∧
      a ∉ ((handleCmd s i (.updateAwait a rs)).wk i).selecting := by
  obtain ⟨x', h1, h2, h3⟩ := applyResults_keeps a rs (s.wk i) x hx
  refine ⟨x', ?_, h3 t ht hs, h2.result, rfl, ?_⟩
  · simp [handleCmd, handleCmdWith, Rules.current, Sys.setWk, wakeSelecting_procs, h1]
  · simp only [handleCmd, handleCmdWith, Rules.current, Sys.setWk, Bool.false_and, Bool.false_eq_true, if_false, upd_same]
    exact not_mem_selecting_wake _ a

/-! ### the target's worker -/

/-- **Every registered awaiter gets exactly one report per registration**, and the registry is
cleared: `check_completed_processes` for one awaited target that has a result (value or error). -/
theorem registered_awaiters_each_reported (s : Sys) (i : Wid) (t : Pid) (r : Res)
    (hr : (s.wk i).resultOf t = some r) :
    (reportTarget s i t).evtQ i = s.evtQ i ++ ((s.wk i).awaitersFor t).map (fun a => Evt.procResults a [(t, some r)]) ∧
    ((reportTarget s i t).wk i).awaitersFor t = [] ∧ (reportTarget s i t).fault = s.fault := by
  obtain ⟨_, _, _, _, _, h6, _, h8, h9⟩ := reportTarget_explicit s i t
  rw [hr] at h8 h9
  refine ⟨h9, ?_, h6⟩
  rw [h8]; simp

/-- **Awaiting after the failure**: `query_and_await` for a target that has already FAILED answers the
placeholder and registers the awaiter (a failed process is not `Completed`), so that the
`check_completed_processes` ending the same worker step reports the error. -/
theorem query_of_failed_target_registers (hv : Cfg.selectWaits = false) (w : WorkerSt) (a t : Pid) (x : Proc)
    (hx : w.procs t = some x) (hr : x.result = some .err) :
    (queryTargets w a [t]).2 = [(t, none)] ∧ a ∈ (queryTargets w a [t]).1.awaitersFor t ∧
    t ∈ (queryTargets w a [t]).1.awaited ∧ (queryTargets w a [t]).1.resultOf t = some .err := by
  have hc : w.completedStatus t = none := by
    unfold WorkerSt.completedStatus
    rw [hx]; simp only [hr]
    split
    · rfl
    · split
      · rfl
      · simp [hv]
  simp only [queryTargets, hc, ainsert]
  refine ⟨by simp, by simp, mem_sinsert.mpr (Or.inr rfl), ?_⟩
  simp [WorkerSt.resultOf, hx, hr]


/-- Variant `selectWaits` (notes/C05-fixes/01): a target that has FAILED — and is neither queued nor parked — is
answered with its error in the first answer; nobody is registered, no second message follows. -/
theorem query_of_failed_target_answers_waits (hv : Cfg.selectWaits = true) (w : WorkerSt) (a t : Pid) (x : Proc)
    (hx : w.procs t = some x) (hr : x.result = some .err) (hq : t ∉ w.queue)
    (hp : ¬ (t ∈ w.spawning ∨ t ∈ w.selecting)) :
    queryTargets w a [t] = (w, [(t, some .err)]) := by
  have hc : w.completedStatus t = some .err := by
    unfold WorkerSt.completedStatus
    simp [hx, hr, hq, hp, hv]
  simp [queryTargets, hc, ainsert]

/-! ### the rule of seeded/C15-3, kept for the witness -/

/-- `entry(target).or_insert_with(..)`: what a worker reported FIRST for a target stays -/
def keepFirstAnswer (old : Option Results) (new : Results) : Results :=
  match old with
  | some r => new.foldl (fun acc kv => match alookup acc kv.1 with | some _ => acc | none => acc ++ [kv]) r
  | none => new

/-- awaiter 9 (worker 1) awaits target 1 (worker 0) and target 2 (worker 1); nothing has answered yet -/
def c153State : Sys :=
  { Sys.init 2 [[]] 0 with
    env := { router := fun p => if p = 1 then some 0 else if p = 2 ∨ p = 9 then some 1 else none,
             pending := fun a => if a = 9 then some { expected := [0, 1], responses := [] } else none,
             nextPid := 10, results := [] },
    cmdQ := fun _ => [] }

/-- worker 0 reports the placeholder for target 1, then its failure; then worker 1 answers -/
def c153Reports (combine : Option Results → Results → Results) : Sys :=
  handleProcResultsWith combine
    (handleProcResultsWith combine (handleProcResultsWith combine c153State 9 [(1, none)]) 9 [(1, some .err)])
    9 [(2, none)]

end QM.Sys
