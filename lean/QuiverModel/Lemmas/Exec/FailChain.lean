import QuiverModel.Theorems.C04
import QuiverModel.Lemmas.Exec.SysBridge
/-
The failure chain of M-Sys as ONE invariant (`FInv`), and what follows from it at quiescence.
Imports C04's model, lemma library and reachable-state invariants read-only.
-/
namespace QM.Sys
variable [Cfg]

/-- an answer carrying an outcome of `t` for awaiter `a` is on its way -/
def InFlight (s : Sys) (a t : Pid) : Prop :=
  (∃ w ts, Evt.await a ts ∈ s.evtQ w ∧ t ∈ ts) ∨
  (∃ w ts, Cmd.queryAwait a ts ∈ s.cmdQ w ∧ t ∈ ts) ∨
  (∃ w rs r, Evt.procResults a rs ∈ s.evtQ w ∧ alookup rs t = some (some r)) ∨
  (∃ w r, pendingHas s a w t r) ∨
  (∃ w rs r, Cmd.updateAwait a rs ∈ s.cmdQ w ∧ (t, some r) ∈ rs)

/-- `a` is registered as an awaiter of `t` at some worker -/
def Registered (s : Sys) (a t : Pid) : Prop := ∃ w, a ∈ (s.wk w).awaitersFor t

/-- the awaiter's record knows the outcome of `t` -/
def Learned (x : Proc) (t : Pid) : Prop := (∃ v, (t, some v) ∈ x.awaiting) ∨ t ∈ x.awaitFailed

/-- **The chain**: for every process whose current select still awaits `t`, the outcome of `t` is known
to it, or an answer is in flight, or it is registered at `t`'s worker. -/
def Chain (s : Sys) : Prop :=
  ∀ w a x t, (s.wk w).procs a = some x → x.stillAwaiting t = true → Learned x t ∨ InFlight s a t ∨ Registered s a t

/-- after a complete `Worker::step` no worker keeps an awaiter registered for a process that has a
result (`check_completed_processes` has reported it) -/
def Checked (s : Sys) : Prop := ∀ w t, (s.wk w).awaitersFor t ≠ [] → (s.wk w).resultOf t = none

/-- registrations sit at the target's worker; a pending await always still expects somebody -/
structure FAux (s : Sys) : Prop where
  regHome : ∀ w t a, a ∈ (s.wk w).awaitersFor t → s.env.router t = some w
  pendNe : ∀ a pa, s.env.pending a = some pa → pa.expected ≠ []

structure FInv (s : Sys) : Prop where
  chain : Chain s
  checked : Checked s
  aux : FAux s

/-- **What the chain gives at quiescence.** In a quiescent state that satisfies C04's routing,
wake-up and faithful-answer invariants and the chain invariant, a live process whose select still awaits
a FAILED process has that failure recorded (`awaiting_failed`: a ready source; with C04's
`quiescent_no_blocked_ready` the process is then not parked — it has failed with the same error). -/
theorem quiescent_failed_target_is_recorded (s : Sys) (hr : RInv s) (hw : WInv s) (ht : TInv s) (hf : FInv s)
    (hq : s.quiescent) (wa wt a t : Pid) (x y : Proc)
    (hx : (s.wk wa).procs a = some x) (hs : x.stillAwaiting t = true)
    (hy : (s.wk wt).procs t = some y) (hyr : y.result = some .err) : t ∈ x.awaitFailed := by
  have hidle := hq.1
  -- where `t` lives
  have hrt : s.env.router t = some wt := hr.placed wt t (by simp [known, hy])
  have hwt : wt < s.n := hr.wbound t wt hrt
  have hres : (s.wk wt).resultOf t = some .err := by simp [WorkerSt.resultOf, hy, hyr]
  rcases hf.chain wa a x t hx hs with hl | hfl | hreg
  · rcases hl with ⟨v, hv⟩ | hl
    · -- a stored VALUE for a failed process contradicts faithfulness
      obtain ⟨w', hw'⟩ := ht.core.stored wa a x t v hx hv
      exfalso
      -- `t` lives on exactly one worker
      have hk : known s w' t := by
        unfold known
        unfold WorkerSt.resultOf at hw'
        cases hp : (s.wk w').procs t with
        | none => rw [hp] at hw'; cases hw'
        | some z => simp
      have : s.env.router t = some w' := hr.placed w' t hk
      rw [hrt] at this
      simp only [Option.some.injEq] at this
      subst this
      rw [hres] at hw'; cases hw'
    · exact hl
  · exfalso
    rcases hfl with ⟨w, ts, hm, hts⟩ | ⟨w, ts, hm, hts⟩ | ⟨w, rs, r, hm, hrs⟩ | ⟨w, r, pa, rs, hp, _, _⟩ | ⟨w, rs, r, hm, _⟩
    · have hok := hr.evts w _ hm
      have : w < s.n := hr.wbound a w hok.1
      rw [(hidle w this).2.1] at hm; cases hm
    · have hok := hr.cmds w _ hm
      have : w < s.n := hr.wbound t w (hok.2 t hts)
      rw [(hidle w this).1] at hm; cases hm
    · have hok := hr.evts w _ hm
      have : w < s.n := hr.wbound t w (hok.2 (t, some r) (alookup_mem hrs))
      rw [(hidle w this).2.1] at hm; cases hm
    · -- a pending await still expects a worker, whose query or answer is in flight
      have hne := hf.aux.pendNe a pa hp
      cases hex : pa.expected with
      | nil => exact hne hex
      | cons w0 rest =>
        have hin := hw.core.pend a pa hp w0 (by rw [hex]; simp)
        rcases hin with ⟨ts, hm⟩ | ⟨rs', hm⟩
        · have hok := hr.cmds w0 _ hm
          have hne' := hw.core.neQ w0 a ts hm
          cases ts with
          | nil => exact hne' rfl
          | cons t0 _ =>
            have : w0 < s.n := hr.wbound t0 w0 (hok.2 t0 (by simp))
            rw [(hidle w0 this).1] at hm; cases hm
        · have hok := hr.evts w0 _ hm
          have hne' := hw.core.neR w0 a rs' hm
          cases rs' with
          | nil => exact hne' rfl
          | cons tr _ =>
            have : w0 < s.n := hr.wbound tr.1 w0 (hok.2 tr (by simp))
            rw [(hidle w0 this).2.1] at hm; cases hm
    · have hok := hr.cmds w _ hm
      have : w < s.n := hr.wbound a w hok
      rw [(hidle w this).1] at hm; cases hm
  · -- still registered: at `t`'s worker, where `t` has a result — excluded by `Checked`
    exfalso
    obtain ⟨w, hreg⟩ := hreg
    have hw' := hf.aux.regHome w t a hreg
    rw [hrt] at hw'
    simp only [Option.some.injEq] at hw'
    subst hw'
    have := hf.checked wt t (by intro h; rw [h] at hreg; cases hreg)
    rw [hres] at this; cases this

/-! ### base cases -/

theorem preStart_no_awaiting {s : Sys} (h : PreStart s) (w a : Pid) (x : Proc) (t : Pid)
    (hx : (s.wk w).procs a = some x) : x.stillAwaiting t = false := by
  rw [h.wk] at hx
  by_cases hw : w = 0
  · subst hw
    simp only [upd_same, W0init, WorkerSt.setProc, WorkerSt.empty] at hx
    by_cases ha : a = 0
    · subst ha
      simp only [upd_same, Option.some.injEq] at hx
      subst hx
      simp [Proc.stillAwaiting, Proc.sleeping, Proc.fresh]
    · simp [upd_other _ _ _ _ ha] at hx
  · simp [upd_other _ _ _ _ hw, WorkerSt.empty] at hx

theorem FInv.of_started {s : Sys} (h : Started s) : FInv s := by
  have hwk : ∀ w, (s.wk w).awaitersFor = fun _ => [] := by
    intro w
    rw [h.wk]
    by_cases hw : w = 0
    · subst hw; simp [W0started, W0init, WorkerSt.setProc, WorkerSt.empty]
    · simp [upd_other _ _ _ _ hw, WorkerSt.empty]
  refine ⟨?_, ?_, ⟨?_, ?_⟩⟩
  · intro w a x t hx hs
    exfalso
    rw [h.wk] at hx
    by_cases hw : w = 0
    · subst hw
      simp only [upd_same, W0started, W0init, WorkerSt.setProc, WorkerSt.empty] at hx
      by_cases ha : a = 0
      · subst ha
        simp only [upd_same, Option.some.injEq] at hx
        subst hx
        simp [Proc.stillAwaiting, Proc.sleeping, Proc.fresh, alookup] at hs
      · simp [upd_other _ _ _ _ ha] at hx
    · simp [upd_other _ _ _ _ hw, WorkerSt.empty] at hx
  · intro w t hne; rw [hwk w] at hne; exact absurd rfl hne
  · intro w t a ha; rw [hwk w] at ha; cases ha
  · intro a pa hp; rw [h.pending] at hp; cases hp

end QM.Sys

namespace QM.Sys
variable [Cfg]

/-! ### effect of one environment micro-step on queues and pending entries -/

theorem mem_targetWorkers {router : Router} : ∀ {ts : List Pid} {t : Pid} {w : Wid},
    t ∈ ts → router t = some w → w ∈ targetWorkers router ts
  | [], _, _, h, _ => by cases h
  | t0 :: rest, t, w, h, hr => by
    unfold targetWorkers
    rcases List.mem_cons.mp h with rfl | h
    · rw [hr]; simp
    · have ih := mem_targetWorkers h hr
      cases h0 : router t0 with
      | none => simpa using ih
      | some w0 =>
        simp only []
        by_cases hw : w = w0
        · subst hw; simp
        · exact List.mem_cons_of_mem _ (List.mem_filter.mpr ⟨ih, by simpa using hw⟩)

structure EnvEff (s s' : Sys) (w0 : Wid) (e : Evt) (rest : List Evt) : Prop where
  wk : s'.wk = s.wk
  evtQ : s'.evtQ = upd s.evtQ w0 rest
  cmds : ∀ w c, c ∈ s.cmdQ w → c ∈ s'.cmdQ w
  pend : ∀ a, (∀ ts, e ≠ .await a ts) → (∀ rs, e ≠ .procResults a rs) → s'.env.pending a = s.env.pending a

theorem envEff (s : Sys) (w0 : Wid) (e : Evt) (rest : List Evt) :
    EnvEff s (handleEventWith mergeAnswer { s with evtQ := upd s.evtQ w0 rest } e) w0 e rest := by
  cases e with
  | spawn c fn regs co =>
    simp only [handleEventWith, handleSpawn]
    split
    · exact ⟨rfl, rfl, fun w c hc => mem_upd_append_of_mem hc, fun _ _ _ => rfl⟩
    · exact ⟨rfl, rfl, fun w c hc => mem_upd_append_of_mem (mem_upd_append_of_mem hc), fun _ _ _ => rfl⟩
  | deliver t m =>
    simp only [handleEventWith, handleDeliver]
    split
    · exact ⟨rfl, rfl, fun _ _ h => h, fun _ _ _ => rfl⟩
    · exact ⟨rfl, rfl, fun w c hc => mem_upd_append_of_mem hc, fun _ _ _ => rfl⟩
  | resultResp q r => exact ⟨rfl, rfl, fun _ _ h => h, fun _ _ _ => rfl⟩
  | exited p => exact ⟨rfl, rfl, fun _ _ h => h, fun _ _ _ => rfl⟩
  | await a ts =>
    simp only [handleEventWith, handleAwait]
    split
    · exact ⟨rfl, rfl, fun _ _ h => h, fun _ _ _ => rfl⟩
    · obtain ⟨i1, i2, i3, _, i5, _, _⟩ := foldPush_spec
        (fun w => Cmd.queryAwait a (ts.filter (fun t => s.env.router t = some w)))
        (targetWorkers s.env.router ts)
        { s with evtQ := upd s.evtQ w0 rest,
                 env := { s.env with pending := upd s.env.pending a (some { expected := targetWorkers s.env.router ts, responses := [] }) } }
      refine ⟨i2, i1, fun w c hc => i5 w c hc, ?_⟩
      intro a' h1 _
      rw [i3]
      have : a' ≠ a := fun e => h1 ts (by rw [e])
      exact upd_other _ _ _ _ this
  | procResults a rs =>
    simp only [handleEventWith, handleProcResultsWith]
    repeat' split
    all_goals first
      | exact ⟨rfl, rfl, fun _ _ h => h, fun _ _ _ => rfl⟩
      | exact ⟨rfl, rfl, fun w c hc => mem_upd_append_of_mem hc, fun _ _ _ => rfl⟩
      | exact ⟨rfl, rfl, fun w c hc => mem_upd_append_of_mem hc, fun a' _ h2 => by
          have : a' ≠ a := fun e => h2 rs (by rw [e])
          exact upd_other _ _ _ _ this⟩
      | exact ⟨rfl, rfl, fun _ _ h => h, fun a' _ h2 => by
          have : a' ≠ a := fun e => h2 rs (by rw [e])
          exact upd_other _ _ _ _ this⟩

end QM.Sys

namespace QM.Sys
variable [Cfg]

theorem await_handled_pushes_query (s : Sys) (a : Pid) (ts : List Pid) (hrt : ∀ t ∈ ts, Routed s.env.router t)
    (t : Pid) (ht : t ∈ ts) :
    ∃ w ts', Cmd.queryAwait a ts' ∈ (handleAwait s a ts).cmdQ w ∧ t ∈ ts' := by
  have hno : (ts.any fun t => (s.env.router t).isNone) = false := by
    rw [List.any_eq_false]
    intro t' ht'
    have := hrt t' ht'
    unfold Routed at this
    cases h : s.env.router t' with
    | none => rw [h] at this; cases this
    | some _ => simp
  simp only [handleAwait, hno]
  have hrt' := hrt t ht
  unfold Routed at hrt'
  cases hw : s.env.router t with
  | none => rw [hw] at hrt'; cases hrt'
  | some w =>
    obtain ⟨_, _, _, _, _, i6, _⟩ := foldPush_spec
      (fun w => Cmd.queryAwait a (ts.filter (fun t => s.env.router t = some w)))
      (targetWorkers s.env.router ts)
      { s with env := { s.env with pending := upd s.env.pending a (some { expected := targetWorkers s.env.router ts, responses := [] }) } }
    exact ⟨w, _, i6 w (mem_targetWorkers ht hw), List.mem_filter.mpr ⟨ht, by simpa using hw⟩⟩

/-- merged answers keep a collected outcome that the new answer does not speak about — because it comes
from another worker, or does not mention the target -/
theorem merge_keeps_unmentioned (s : Sys) (a : Pid) (new : Results) (wr : Wid) (t : Pid) (r : Res)
    (hrouted : (s.env.router a).isSome) (hhas : pendingHas s a wr t r)
    (hcase : alookup new t = none ∨ ∀ k v rest, new = (k, v) :: rest → s.env.router k ≠ some wr) :
    pendingHas (handleProcResultsWith mergeAnswer s a new) a wr t r ∨
    ∃ aw rs, Cmd.updateAwait a rs ∈ (handleProcResultsWith mergeAnswer s a new).cmdQ aw ∧ (t, some r) ∈ rs := by
  rcases hcase with hnone | hother
  · exact merge_keeps_collected s a new wr t r hrouted hhas hnone
  · obtain ⟨pa, rs0, hp, hl0, hl1⟩ := hhas
    unfold handleProcResultsWith
    simp only [hp]
    cases hra : s.env.router a with
    | none => rw [hra] at hrouted; cases hrouted
    | some aw =>
      have hkeepS : pendingHas s a wr t r := ⟨pa, rs0, hp, hl0, hl1⟩
      cases hnew' : new with
      | nil => dsimp only; exact Or.inl hkeepS
      | cons kv more =>
        obtain ⟨k, v⟩ := kv
        dsimp only
        cases hsender : s.env.router k with
        | none => dsimp only; exact Or.inl hkeepS
        | some w =>
          dsimp only
          have hw : w ≠ wr := fun e => hother k v more hnew' (by rw [hsender, e])
          have hk1 : alookup (ainsert pa.responses w (mergeAnswer (alookup pa.responses w) ((k, v) :: more))) wr = some rs0 := by
            rw [alookup_ainsert]; simp [hw, hl0]
          split
          · right
            refine ⟨aw, _, mem_pushCmd_self _ _ _, ?_⟩
            rw [List.mem_flatten]
            exact ⟨rs0, List.mem_map.mpr ⟨(wr, rs0), alookup_mem hk1, rfl⟩, alookup_mem hl1⟩
          · left
            exact ⟨{ expected := pa.expected.filter (· ≠ w), responses := ainsert pa.responses w (mergeAnswer (alookup pa.responses w) ((k, v) :: more)) },
              rs0, by simp, hk1, hl1⟩

/-! ### the two positional facts (at the head of an event queue) and unique keys -/

/-- an awaiter's AwaitAction events are handled in emission order: when one is at the head of its queue,
every target the awaiter's select still awaits is among ITS targets, or a later AwaitAction of the same
awaiter (of a newer select) names it -/
def AwaitOrder (s : Sys) : Prop :=
  ∀ w a ts rest, s.evtQ w = Evt.await a ts :: rest → ∀ wa x t, (s.wk wa).procs a = some x →
    x.stillAwaiting t = true → t ∈ ts ∨ ∃ ts', Evt.await a ts' ∈ rest ∧ t ∈ ts'

/-- a placeholder `(t, None)` at the head of a worker's event queue is backed: the awaiter is still
registered for `t` at that worker, or the report `(t, Some r)` follows in the same queue -/
def PlaceholderOrder (s : Sys) : Prop :=
  ∀ w a new rest, s.evtQ w = Evt.procResults a new :: rest → ∀ t, alookup new t = some none →
    a ∈ (s.wk w).awaitersFor t ∨ ∃ rs' r', Evt.procResults a rs' ∈ rest ∧ alookup rs' t = some (some r')

def EvtKeysNodup (s : Sys) : Prop := ∀ w a rs, Evt.procResults a rs ∈ s.evtQ w → (rs.map (·.1)).Nodup

/-- **The chain survives every environment micro-step** (AwaitAction → queries; ProcessResults → merged
into the pending answer or forwarded; a pending entry replaced by a newer select's), given the routing
invariant and the two positional facts about the consumed event. -/
theorem Chain.envStep1 {s : Sys} (hr : RInv s) (hc : Chain s) (ho : AwaitOrder s) (hpo : PlaceholderOrder s)
    (hn : EvtKeysNodup s) (w0 : Wid) : Chain (envStep1With mergeAnswer s w0) := by
  unfold envStep1With
  cases hq : s.evtQ w0 with
  | nil => exact hc
  | cons e rest =>
    simp only []
    have eff := envEff s w0 e rest
    generalize hs' : handleEventWith mergeAnswer { s with evtQ := upd s.evtQ w0 rest } e = s' at eff
    have hev : ∀ w e', e' ∈ s.evtQ w → (w = w0 ∧ e' = e) ∨ e' ∈ s'.evtQ w := by
      intro w e' he'
      rw [eff.evtQ]
      by_cases hw : w = w0
      · subst hw
        rw [hq] at he'
        rcases List.mem_cons.mp he' with h | h
        · exact Or.inl ⟨rfl, h⟩
        · right; simpa using h
      · right; rw [upd_other _ _ _ _ hw]; exact he'
    have hrest : ∀ e', e' ∈ rest → e' ∈ s'.evtQ w0 := by intro e' h; rw [eff.evtQ]; simpa using h
    have hehead : e ∈ s.evtQ w0 := by rw [hq]; simp
    intro w a x t hx hs
    rw [eff.wk] at hx
    rcases hc w a x t hx hs with hl | hfl | ⟨wr, hreg⟩
    · exact Or.inl hl
    · -- in flight before the step
      rcases hfl with ⟨w1, ts, hm, hts⟩ | ⟨w1, ts, hm, hts⟩ | ⟨w1, rs, r, hm, hrs⟩ | ⟨wr, r, hph⟩ | ⟨w1, rs, r, hm, hrs⟩
      · -- an AwaitAction naming t
        rcases hev w1 _ hm with ⟨rfl, rfl⟩ | h
        · -- consumed now: the queries go out
          have hok := hr.evts _ _ hehead
          obtain ⟨wq, ts', hq1, hq2⟩ := await_handled_pushes_query { s with evtQ := upd s.evtQ w1 rest } a ts hok.2 t hts
          simp only [handleEventWith] at hs'
          rw [hs'] at hq1
          exact Or.inr (Or.inl (Or.inr (Or.inl ⟨wq, ts', hq1, hq2⟩)))
        · exact Or.inr (Or.inl (Or.inl ⟨w1, ts, h, hts⟩))
      · exact Or.inr (Or.inl (Or.inr (Or.inl ⟨w1, ts, eff.cmds _ _ hm, hts⟩)))
      · -- a report carrying an outcome of t
        rcases hev w1 _ hm with ⟨rfl, rfl⟩ | h
        · have hok := hr.evts _ _ hehead
          have hra : (s.env.router a).isSome := hok.1
          simp only [handleEventWith] at hs'
          cases hpend : s.env.pending a with
          | none =>
            cases hraw : s.env.router a with
            | none => rw [hraw] at hra; cases hra
            | some aw =>
              have := (report_without_pending_is_forwarded { s with evtQ := upd s.evtQ w1 rest } a rs aw hpend hraw).1
              rw [hs'] at this
              exact Or.inr (Or.inl (Or.inr (Or.inr (Or.inr (Or.inr ⟨aw, rs, r, this, alookup_mem hrs⟩)))))
          | some pa =>
            have hsender : ∃ k v rest', rs = (k, v) :: rest' ∧ s.env.router k = some w1 := by
              cases rs with
              | nil => simp [alookup] at hrs
              | cons kv rest' => exact ⟨kv.1, kv.2, rest', rfl, hok.2 kv (by simp)⟩
            have := outcome_overrides_placeholder { s with evtQ := upd s.evtQ w1 rest } a rs w1 t r pa hpend hra hsender
              (hn _ _ _ hehead) hrs
            rw [hs'] at this
            rcases this with h1 | ⟨aw, rs', h1, h2⟩
            · exact Or.inr (Or.inl (Or.inr (Or.inr (Or.inr (Or.inl ⟨w1, r, h1⟩)))))
            · exact Or.inr (Or.inl (Or.inr (Or.inr (Or.inr (Or.inr ⟨aw, rs', r, h1, h2⟩)))))
        · exact Or.inr (Or.inl (Or.inr (Or.inr (Or.inl ⟨w1, rs, r, h, hrs⟩))))
      · -- collected in the pending entry of a
        cases e with
        | spawn c fn regs co =>
          have hp' := eff.pend a (by intro ts h; cases h) (by intro rs h; cases h)
          obtain ⟨pa, rs0, h1, h2, h3⟩ := hph
          exact Or.inr (Or.inl (Or.inr (Or.inr (Or.inr (Or.inl ⟨wr, r, pa, rs0, by rw [hp']; exact h1, h2, h3⟩)))))
        | deliver t' m =>
          have hp' := eff.pend a (by intro ts h; cases h) (by intro rs h; cases h)
          obtain ⟨pa, rs0, h1, h2, h3⟩ := hph
          exact Or.inr (Or.inl (Or.inr (Or.inr (Or.inr (Or.inl ⟨wr, r, pa, rs0, by rw [hp']; exact h1, h2, h3⟩)))))
        | resultResp q r' =>
          have hp' := eff.pend a (by intro ts h; cases h) (by intro rs h; cases h)
          obtain ⟨pa, rs0, h1, h2, h3⟩ := hph
          exact Or.inr (Or.inl (Or.inr (Or.inr (Or.inr (Or.inl ⟨wr, r, pa, rs0, by rw [hp']; exact h1, h2, h3⟩)))))
        | exited q =>
          have hp' := eff.pend a (by intro ts h; cases h) (by intro rs h; cases h)
          obtain ⟨pa, rs0, h1, h2, h3⟩ := hph
          exact Or.inr (Or.inl (Or.inr (Or.inr (Or.inr (Or.inl ⟨wr, r, pa, rs0, by rw [hp']; exact h1, h2, h3⟩)))))
        | await a' ts =>
          by_cases ha : a' = a
          · subst ha
            -- the pending entry is replaced by this (possibly older) select's: the positional fact
            rcases ho w0 a' ts rest hq w x t hx hs with hts | ⟨ts', hm', hts'⟩
            · have hok := hr.evts _ _ hehead
              obtain ⟨wq, ts', hq1, hq2⟩ := await_handled_pushes_query { s with evtQ := upd s.evtQ w0 rest } a' ts hok.2 t hts
              simp only [handleEventWith] at hs'
              rw [hs'] at hq1
              exact Or.inr (Or.inl (Or.inr (Or.inl ⟨wq, ts', hq1, hq2⟩)))
            · exact Or.inr (Or.inl (Or.inl ⟨w0, ts', hrest _ hm', hts'⟩))
          · have hp' := eff.pend a (by intro ts' h; simp only [Evt.await.injEq] at h; exact ha h.1) (by intro rs h; cases h)
            obtain ⟨pa, rs0, h1, h2, h3⟩ := hph
            exact Or.inr (Or.inl (Or.inr (Or.inr (Or.inr (Or.inl ⟨wr, r, pa, rs0, by rw [hp']; exact h1, h2, h3⟩)))))
        | procResults a' new =>
          by_cases ha : a' = a
          · subst ha
            have hok := hr.evts _ _ hehead
            have hra : (s.env.router a').isSome := hok.1
            simp only [handleEventWith] at hs'
            have hphS : pendingHas { s with evtQ := upd s.evtQ w0 rest } a' wr t r := hph
            -- does the new answer come from the same worker and mention t?
            by_cases hsame : wr = w0
            · subst hsame
              cases hlk : alookup new t with
              | none =>
                have := merge_keeps_unmentioned { s with evtQ := upd s.evtQ wr rest } a' new wr t r hra hphS (Or.inl hlk)
                rw [hs'] at this
                rcases this with h1 | ⟨aw, rs', h1, h2⟩
                · exact Or.inr (Or.inl (Or.inr (Or.inr (Or.inr (Or.inl ⟨wr, r, h1⟩)))))
                · exact Or.inr (Or.inl (Or.inr (Or.inr (Or.inr (Or.inr ⟨aw, rs', r, h1, h2⟩)))))
              | some o =>
                cases o with
                | some r' =>
                  obtain ⟨pa, _, hpend, _, _⟩ := hph
                  have hsender : ∃ k v rest', new = (k, v) :: rest' ∧ s.env.router k = some wr := by
                    cases new with
                    | nil => simp [alookup] at hlk
                    | cons kv rest' => exact ⟨kv.1, kv.2, rest', rfl, hok.2 kv (by simp)⟩
                  have := outcome_overrides_placeholder { s with evtQ := upd s.evtQ wr rest } a' new wr t r' pa hpend hra hsender
                    (hn _ _ _ hehead) hlk
                  rw [hs'] at this
                  rcases this with h1 | ⟨aw, rs', h1, h2⟩
                  · exact Or.inr (Or.inl (Or.inr (Or.inr (Or.inr (Or.inl ⟨wr, r', h1⟩)))))
                  · exact Or.inr (Or.inl (Or.inr (Or.inr (Or.inr (Or.inr ⟨aw, rs', r', h1, h2⟩)))))
                | none =>
                  -- the collected outcome is overwritten by a placeholder: the positional fact
                  rcases hpo wr a' new rest hq t hlk with hreg | ⟨rs', r', hm', hl'⟩
                  · exact Or.inr (Or.inr ⟨wr, by rw [eff.wk]; exact hreg⟩)
                  · exact Or.inr (Or.inl (Or.inr (Or.inr (Or.inl ⟨wr, rs', r', hrest _ hm', hl'⟩))))
            · have hother : ∀ k v rest', new = (k, v) :: rest' → s.env.router k ≠ some wr := by
                intro k v rest' hnew hk
                have := hok.2 (k, v) (by rw [hnew]; simp)
                simp only [] at this
                rw [hk] at this
                simp only [Option.some.injEq] at this
                exact hsame this
              have := merge_keeps_unmentioned { s with evtQ := upd s.evtQ w0 rest } a' new wr t r hra hphS (Or.inr hother)
              rw [hs'] at this
              rcases this with h1 | ⟨aw, rs', h1, h2⟩
              · exact Or.inr (Or.inl (Or.inr (Or.inr (Or.inr (Or.inl ⟨wr, r, h1⟩)))))
              · exact Or.inr (Or.inl (Or.inr (Or.inr (Or.inr (Or.inr ⟨aw, rs', r, h1, h2⟩)))))
          · have hp' := eff.pend a (by intro ts h; cases h) (by intro rs h; simp only [Evt.procResults.injEq] at h; exact ha h.1)
            obtain ⟨pa, rs0, h1, h2, h3⟩ := hph
            exact Or.inr (Or.inl (Or.inr (Or.inr (Or.inr (Or.inl ⟨wr, r, pa, rs0, by rw [hp']; exact h1, h2, h3⟩)))))
      · exact Or.inr (Or.inl (Or.inr (Or.inr (Or.inr (Or.inr ⟨w1, rs, r, eff.cmds _ _ hm, hrs⟩)))))

    · exact Or.inr (Or.inr ⟨wr, by rw [eff.wk]; exact hreg⟩)

end QM.Sys

namespace QM.Sys
variable [Cfg]

/-! ### `check_completed_processes` keeps the chain: a cleared registration becomes a report in flight -/

structure ChkRel (s s' : Sys) : Prop where
  procs : ∀ w, (s'.wk w).procs = (s.wk w).procs
  cmdQ : s'.cmdQ = s.cmdQ
  env : s'.env = s.env
  evts : ∀ w e, e ∈ s.evtQ w → e ∈ s'.evtQ w
  reg : ∀ w a t, a ∈ (s.wk w).awaitersFor t →
    a ∈ (s'.wk w).awaitersFor t ∨ ∃ r, Evt.procResults a [(t, some r)] ∈ s'.evtQ w

theorem ChkRel.refl (s : Sys) : ChkRel s s :=
  ⟨fun _ => rfl, rfl, rfl, fun _ _ h => h, fun _ _ _ h => Or.inl h⟩

theorem ChkRel.trans {a b c : Sys} (h1 : ChkRel a b) (h2 : ChkRel b c) : ChkRel a c := by
  refine ⟨fun w => (h2.procs w).trans (h1.procs w), h2.cmdQ.trans h1.cmdQ, h2.env.trans h1.env,
    fun w e h => h2.evts w e (h1.evts w e h), ?_⟩
  intro w x t h
  rcases h1.reg w x t h with h | ⟨r, h⟩
  · exact h2.reg w x t h
  · exact Or.inr ⟨r, h2.evts w _ h⟩

theorem ChkRel.reportTarget (s : Sys) (i : Wid) (t : Pid) : ChkRel s (reportTarget s i t) := by
  obtain ⟨h1, h2, _, _, _, _, h7, h8, h9⟩ := reportTarget_explicit s i t
  refine ⟨?_, h1, h2, ?_, ?_⟩
  · intro w
    by_cases hw : w = i
    · subst hw; rw [h8]; cases (s.wk w).resultOf t <;> rfl
    · rw [(h7 w hw).1]
  · intro w e he
    by_cases hw : w = i
    · subst hw; rw [h9]; cases (s.wk w).resultOf t with
      | none => exact he
      | some r => exact List.mem_append_left _ he
    · rw [(h7 w hw).2]; exact he
  · intro w a t' ha
    by_cases hw : w = i
    · subst hw
      rw [h8, h9]
      cases hres : (s.wk w).resultOf t with
      | none => exact Or.inl ha
      | some r =>
        simp only []
        by_cases ht : t' = t
        · subst ht
          right
          exact ⟨r, List.mem_append_right _ (List.mem_map.mpr ⟨a, ha, rfl⟩)⟩
        · left; simp only [upd_other _ _ _ _ ht]; exact ha
    · left; rw [(h7 w hw).1]; exact ha

theorem ChkRel.answerRequests (s : Sys) (i : Wid) (p : Pid) : ChkRel s (answerRequests s i p) := by
  obtain ⟨h1, h2, _, _, _, _, h7, h8, h9⟩ := answerRequests_explicit s i p
  refine ⟨?_, h1, h2, ?_, ?_⟩
  · intro w
    by_cases hw : w = i
    · subst hw; rw [h8]; cases (s.wk w).resultOf p <;> rfl
    · rw [(h7 w hw).1]
  · intro w e he
    by_cases hw : w = i
    · subst hw; rw [h9]; cases (s.wk w).resultOf p with
      | none => exact he
      | some r => exact List.mem_append_left _ he
    · rw [(h7 w hw).2]; exact he
  · intro w a t ha
    left
    by_cases hw : w = i
    · subst hw; rw [h8]; cases (s.wk w).resultOf p <;> exact ha
    · rw [(h7 w hw).1]; exact ha

theorem ChkRel.foldl {α : Type} (f : Sys → α → Sys) (hf : ∀ s a, ChkRel s (f s a)) :
    ∀ (l : List α) (s : Sys), ChkRel s (l.foldl f s)
  | [], s => ChkRel.refl s
  | a :: l, s => (hf s a).trans (ChkRel.foldl f hf l (f s a))

theorem ChkRel.checkStep (s : Sys) (i : Wid) (ordE : List Pid) : ChkRel s (checkStep s i ordE) := by
  unfold QM.Sys.checkStep
  exact (ChkRel.foldl _ (fun s t => ChkRel.reportTarget s i t) _ s).trans
    (ChkRel.foldl _ (fun s p => ChkRel.answerRequests s i p) _ _)

theorem Chain.of_chkRel {s s' : Sys} (h : ChkRel s s') (hc : Chain s) : Chain s' := by
  intro w a x t hx hs
  rw [h.procs w] at hx
  rcases hc w a x t hx hs with hl | hfl | ⟨wr, hreg⟩
  · exact Or.inl hl
  · right; left
    rcases hfl with ⟨w1, ts, hm, hts⟩ | ⟨w1, ts, hm, hts⟩ | ⟨w1, rs, r, hm, hrs⟩ | ⟨wr, r, pa, rs0, h1, h2, h3⟩ | ⟨w1, rs, r, hm, hrs⟩
    · exact Or.inl ⟨w1, ts, h.evts _ _ hm, hts⟩
    · exact Or.inr (Or.inl ⟨w1, ts, by rw [h.cmdQ]; exact hm, hts⟩)
    · exact Or.inr (Or.inr (Or.inl ⟨w1, rs, r, h.evts _ _ hm, hrs⟩))
    · exact Or.inr (Or.inr (Or.inr (Or.inl ⟨wr, r, pa, rs0, by rw [h.env]; exact h1, h2, h3⟩)))
    · exact Or.inr (Or.inr (Or.inr (Or.inr ⟨w1, rs, r, by rw [h.cmdQ]; exact hm, hrs⟩)))
  · rcases h.reg wr a t hreg with h1 | ⟨r, h1⟩
    · exact Or.inr (Or.inr ⟨wr, h1⟩)
    · exact Or.inr (Or.inl (Or.inr (Or.inr (Or.inl ⟨wr, _, r, h1, by simp [alookup]⟩))))

/-- **The chain survives `check_completed_processes`.** -/
theorem Chain.checkStep {s : Sys} (hc : Chain s) (i : Wid) (ordE : List Pid) : Chain (checkStep s i ordE) :=
  Chain.of_chkRel (ChkRel.checkStep s i ordE) hc

theorem Chain.tick {s : Sys} (hc : Chain s) (ms : Nat) : Chain { s with now := s.now + ms } := hc

end QM.Sys

namespace QM.Sys
variable [Cfg]

theorem Keeps.learned {x x' : Proc} (h : Keeps x x') {t : Pid} (hl : Learned x t) : Learned x' t := by
  rcases hl with ⟨v, hv⟩ | hl
  · exact Or.inl (h.stored t v hv)
  · exact Or.inr (h.failed t hl)

theorem notifyResult_learns (w : WorkerSt) (a t : Pid) (r : Res) (x : Proc) (hx : w.procs a = some x)
    (hs : x.stillAwaiting t = true) :
    ∃ x', (w.notifyResult a t r).procs a = some x' ∧ Keeps x x' ∧ Learned x' t := by
  cases r with
  | err =>
    obtain ⟨x', h1, h2, h3⟩ := notifyResult_keeps w a t .err x hx
    exact ⟨x', h1, h2, Or.inr (h3 rfl hs)⟩
  | ok v =>
    obtain ⟨x', h1, h2, _⟩ := notifyResult_keeps w a t (.ok v) x hx
    refine ⟨x', h1, h2, Or.inl ?_⟩
    simp only [WorkerSt.notifyResult, WorkerSt.notifyResultOk, wakeSelecting_procs, WorkerSt.modProc, hx, hs, if_true,
      upd_same, Option.some.injEq] at h1
    subst h1
    exact ⟨v, mem_ainsert_self _ _ _⟩

theorem applyResults_learns (a : Pid) : ∀ (rs : Results) (w : WorkerSt) (x : Proc), w.procs a = some x →
    ∃ x', (applyResults w a rs).procs a = some x' ∧ Keeps x x' ∧
      ∀ t r, (t, some r) ∈ rs → x.stillAwaiting t = true → Learned x' t
  | [], w, x, hx => ⟨x, hx, Keeps.refl x, by intro t r h; cases h⟩
  | (t0, none) :: rest, w, x, hx => by
    obtain ⟨x1, g1, g2⟩ := notifyPending_keeps w a t0 x hx
    obtain ⟨x', h1, h2, h3⟩ := applyResults_learns a rest (w.notifyPending a t0) x1 g1
    refine ⟨x', by simpa [applyResults] using h1, g2.trans h2, ?_⟩
    intro t r ht hs
    rcases List.mem_cons.mp ht with h | h
    · cases h
    · exact h3 t r h (by rw [g2.still]; exact hs)
  | (t0, some r0) :: rest, w, x, hx => by
    obtain ⟨x1, g1, g2, _⟩ := notifyResult_keeps w a t0 r0 x hx
    obtain ⟨x', h1, h2, h3⟩ := applyResults_learns a rest (w.notifyResult a t0 r0) x1 g1
    refine ⟨x', by simpa [applyResults] using h1, g2.trans h2, ?_⟩
    intro t r ht hs
    rcases List.mem_cons.mp ht with h | h
    · simp only [Prod.mk.injEq, Option.some.injEq] at h
      obtain ⟨rfl, rfl⟩ := h
      obtain ⟨x1', e1, _, e3⟩ := notifyResult_learns w a t r x hx hs
      rw [g1] at e1
      simp only [Option.some.injEq] at e1
      subst e1
      exact h2.learned e3
    · exact h3 t r h (by rw [g2.still]; exact hs)

/-! ### `query_and_await` -/

theorem completedStatus_congr (w w' : WorkerSt) (hp : w'.procs = w.procs) (hq : w'.queue = w.queue)
    (hs : w'.spawning = w.spawning) (hse : w'.selecting = w.selecting) (t : Pid) :
    w'.completedStatus t = w.completedStatus t := by
  unfold WorkerSt.completedStatus; rw [hp, hq, hs, hse]

theorem queryTargets_frame (a : Pid) : ∀ (ts : List Pid) (w : WorkerSt),
    (queryTargets w a ts).1.procs = w.procs ∧ (queryTargets w a ts).1.queue = w.queue ∧
    (queryTargets w a ts).1.spawning = w.spawning ∧ (queryTargets w a ts).1.selecting = w.selecting ∧
    (queryTargets w a ts).1.pids = w.pids ∧
    ∀ a' t, a' ∈ w.awaitersFor t → a' ∈ (queryTargets w a ts).1.awaitersFor t
  | [], w => ⟨rfl, rfl, rfl, rfl, rfl, fun _ _ h => h⟩
  | t0 :: rest, w => by
    unfold queryTargets
    cases w.completedStatus t0 with
    | some r => exact queryTargets_frame a rest w
    | none =>
      simp only []
      obtain ⟨h1, h2, h3, h4, h5, h6⟩ := queryTargets_frame a rest
        { w with awaited := sinsert w.awaited t0, awaitersFor := upd w.awaitersFor t0 (w.awaitersFor t0 ++ [a]) }
      refine ⟨h1, h2, h3, h4, h5, ?_⟩
      intro a' t ha
      apply h6
      by_cases ht : t = t0
      · subst ht; simp [ha]
      · simp [upd_other _ _ _ _ ht, ha]

/-- every queried target is answered with its outcome, or the awaiter is registered for it -/
theorem queryTargets_covers (a : Pid) : ∀ (ts : List Pid) (w : WorkerSt) (t : Pid), t ∈ ts →
    (∃ r, alookup (queryTargets w a ts).2 t = some (some r)) ∨ a ∈ (queryTargets w a ts).1.awaitersFor t
  | [], _, _, h => by cases h
  | t0 :: rest, w, t, h => by
    unfold queryTargets
    cases hc : w.completedStatus t0 with
    | some r =>
      simp only []
      by_cases ht : t = t0
      · subst ht; left; exact ⟨r, by rw [alookup_ainsert]; simp⟩
      · have hin : t ∈ rest := by
          rcases List.mem_cons.mp h with h | h
          · exact absurd h ht
          · exact h
        rcases queryTargets_covers a rest w t hin with ⟨r', h'⟩ | h'
        · left; refine ⟨r', ?_⟩; rw [alookup_ainsert]; simp [Ne.symm ht, h']
        · exact Or.inr h'
    | none =>
      simp only []
      by_cases ht : t = t0
      · subst ht
        right
        exact (queryTargets_frame a rest _).2.2.2.2.2 a t (by simp)
      · have hin : t ∈ rest := by
          rcases List.mem_cons.mp h with h | h
          · exact absurd h ht
          · exact h
        rcases queryTargets_covers a rest
          { w with awaited := sinsert w.awaited t0, awaitersFor := upd w.awaitersFor t0 (w.awaitersFor t0 ++ [a]) } t hin with ⟨r', h'⟩ | h'
        · left; refine ⟨r', ?_⟩; rw [alookup_ainsert]; simp [Ne.symm ht, h']
        · exact Or.inr h'

end QM.Sys

namespace QM.Sys
variable [Cfg]

theorem modProc_other (w : WorkerSt) (a b : Pid) (f : Proc → Proc) (h : b ≠ a) : (w.modProc a f).procs b = w.procs b := by
  unfold WorkerSt.modProc
  cases w.procs a with
  | none => rfl
  | some x => simp [upd_other _ _ _ _ h]

theorem notifyResult_other (w : WorkerSt) (a t : Pid) (r : Res) (b : Pid) (h : b ≠ a) :
    (w.notifyResult a t r).procs b = w.procs b := by
  cases r with
  | ok v => simp [WorkerSt.notifyResult, WorkerSt.notifyResultOk, modProc_other _ _ _ _ h]
  | err =>
    simp only [WorkerSt.notifyResult, WorkerSt.notifyFailure]
    cases w.procs a with
    | none => rfl
    | some x =>
      simp only []
      split
      · simp [modProc_other _ _ _ _ h]
      · rfl

theorem applyResults_other (a : Pid) : ∀ (rs : Results) (w : WorkerSt) (b : Pid), b ≠ a →
    (applyResults w a rs).procs b = w.procs b
  | [], _, _, _ => rfl
  | (t0, none) :: rest, w, b, h => by
    simp only [applyResults]
    rw [applyResults_other a rest _ b h]
    simp [WorkerSt.notifyPending, modProc_other _ _ _ _ h]
  | (t0, some r) :: rest, w, b, h => by
    simp only [applyResults]
    rw [applyResults_other a rest _ b h, notifyResult_other _ _ _ _ _ h]

/-! ### one command consumed by a worker -/

structure CmdRel (s s' : Sys) (i : Wid) (c : Cmd) (rest : List Cmd) : Prop where
  env : s'.env = s.env
  cmdQ : s'.cmdQ = upd s.cmdQ i rest
  evts : ∀ w e, e ∈ s.evtQ w → e ∈ s'.evtQ w
  other : ∀ k, k ≠ i → s'.wk k = s.wk k
  aw : ∀ a t, a ∈ (s.wk i).awaitersFor t → a ∈ (s'.wk i).awaitersFor t
  procs : ∀ a x' t, (s'.wk i).procs a = some x' → x'.stillAwaiting t = true →
    ∃ x, (s.wk i).procs a = some x ∧ x.stillAwaiting t = true ∧ (Learned x t → Learned x' t)
  upd : ∀ a rs, c = .updateAwait a rs → ∀ x' t r, (s'.wk i).procs a = some x' → x'.stillAwaiting t = true →
    (t, some r) ∈ rs → Learned x' t
  qry : ∀ a ts, c = .queryAwait a ts → ∀ t ∈ ts,
    (∃ rs r, Evt.procResults a rs ∈ s'.evtQ i ∧ alookup rs t = some (some r)) ∨ a ∈ (s'.wk i).awaitersFor t

/-- a process record replaced by one with the same await bookkeeping -/
theorem procs_same_await {w w' : WorkerSt} {p0 : Pid} {x0 x1 : Proc} (hp : w'.procs = upd w.procs p0 (some x1))
    (h0 : w.procs p0 = some x0) (hr : x1.result = x0.result) (ha : x1.awaiting = x0.awaiting)
    (hf : x1.awaitFailed = x0.awaitFailed) :
    ∀ a x' t, w'.procs a = some x' → x'.stillAwaiting t = true →
      ∃ x, w.procs a = some x ∧ x.stillAwaiting t = true ∧ (Learned x t → Learned x' t) := by
  intro a x' t hx hs
  rw [hp] at hx
  by_cases ha' : a = p0
  · subst ha'
    simp only [upd_same, Option.some.injEq] at hx
    subst hx
    refine ⟨x0, h0, ?_, ?_⟩
    · simpa [Proc.stillAwaiting, hr, ha] using hs
    · intro hl; simpa [Learned, ha, hf] using hl
  · rw [upd_other _ _ _ _ ha'] at hx
    exact ⟨x', hx, hs, id⟩

theorem cmdRel (s : Sys) (i : Wid) (c : Cmd) (rest : List Cmd) (hnr : ∀ p fn, c ≠ .resume p fn) :
    CmdRel s (handleCmdWith Rules.current { s with cmdQ := upd s.cmdQ i rest } i c) i c rest := by
  have same : ∀ (s1 : Sys), s1.env = s.env → s1.cmdQ = upd s.cmdQ i rest → s1.evtQ = s.evtQ → s1.wk = s.wk →
      (∀ a rs, c ≠ .updateAwait a rs) → (∀ a ts, c ≠ .queryAwait a ts) → CmdRel s s1 i c rest := by
    intro s1 h1 h2 h3 h4 h5 h6
    exact ⟨h1, h2, fun w e he => by rw [h3]; exact he, fun k _ => by rw [h4], fun a t ha => by rw [h4]; exact ha,
      fun a x' t hx hs => ⟨x', by rw [h4] at hx; exact hx, hs, id⟩, fun a rs h => absurd h (h5 a rs), fun a ts h => absurd h (h6 a ts)⟩
  cases c with
  | misc => exact same _ rfl rfl rfl rfl (by intros; simp) (by intros; simp)
  | resume p fn => exact absurd rfl (hnr p fn)
  | start p =>
    refine ⟨rfl, rfl, fun _ _ h => h, fun k hk => by simp [handleCmdWith, Sys.setWk, upd_other _ _ _ _ hk],
      fun a t ha => by simpa [handleCmdWith, Sys.setWk, WorkerSt.setProc] using ha, ?_, (fun _ _ h => by cases h), (fun _ _ h => by cases h)⟩
    intro a x' t hx hs
    simp only [handleCmdWith, Sys.setWk, upd_same, WorkerSt.setProc] at hx
    by_cases ha : a = p
    · subst ha
      simp only [upd_same, Option.some.injEq] at hx
      subst hx
      simp [Proc.stillAwaiting, Proc.sleeping, Proc.fresh] at hs
    · rw [upd_other _ _ _ _ ha] at hx
      exact ⟨x', hx, hs, id⟩
  | spawn p fn regs =>
    simp only [handleCmdWith]
    split
    · exact same _ rfl rfl rfl rfl (by intros; simp) (by intros; simp)
    · refine ⟨rfl, rfl, fun _ _ h => h, fun k hk => by simp [Sys.setWk, upd_other _ _ _ _ hk],
        fun a t ha => by simpa [Sys.setWk, WorkerSt.setProc] using ha, ?_, (fun _ _ h => by cases h), (fun _ _ h => by cases h)⟩
      intro a x' t hx hs
      simp only [Sys.setWk, upd_same, WorkerSt.setProc] at hx
      by_cases ha : a = p
      · subst ha
        simp only [upd_same, Option.some.injEq] at hx
        subst hx
        simp [Proc.stillAwaiting, Proc.fresh, alookup] at hs
      · rw [upd_other _ _ _ _ ha] at hx
        exact ⟨x', hx, hs, id⟩
  | notifySpawn caller newPid =>
    simp only [handleCmdWith]
    cases hp : ((s.wk i).procs caller) with
    | none =>
      simp only [hp]
      exact ⟨rfl, rfl, fun _ _ h => h, fun k hk => by simp [Sys.setWk, upd_other _ _ _ _ hk],
        fun a t ha => by simpa [Sys.setWk] using ha,
        fun a x' t hx hs => ⟨x', by simpa [Sys.setWk] using hx, hs, id⟩, (fun _ _ h => by cases h), (fun _ _ h => by cases h)⟩
    | some x0 =>
      simp only [hp]
      refine ⟨rfl, rfl, fun _ _ h => h, fun k hk => by simp [Sys.setWk, upd_other _ _ _ _ hk], ?_, ?_,
        (fun _ _ h => by cases h), (fun _ _ h => by cases h)⟩
      · intro a t ha
        simp only [Sys.setWk, upd_same]
        split <;> exact ha
      · intro a x' t hx hs
        have hpr : ((({ s with cmdQ := upd s.cmdQ i rest } : Sys).setWk i
            (if decide (caller ∈ (s.wk i).spawning) = true then
              { ({ (s.wk i) with spawning := serase (s.wk i).spawning caller, procs := upd (s.wk i).procs caller (some { x0 with regs := x0.regs ++ [newPid], pc := x0.pc + 1, spawnIssued := false }) } : WorkerSt) with
                queue := (s.wk i).queue ++ [caller] }
            else { (s.wk i) with spawning := serase (s.wk i).spawning caller, procs := upd (s.wk i).procs caller (some { x0 with regs := x0.regs ++ [newPid], pc := x0.pc + 1, spawnIssued := false }) })).wk i).procs =
            upd (s.wk i).procs caller (some { x0 with regs := x0.regs ++ [newPid], pc := x0.pc + 1, spawnIssued := false }) := by
          simp only [Sys.setWk, upd_same]; split <;> rfl
        exact procs_same_await (w := s.wk i) (p0 := caller) (x0 := x0) hpr hp rfl rfl rfl a x' t hx hs
  | deliver t0 m =>
    simp only [handleCmdWith]
    cases hp : ((s.wk i).procs t0) with
    | none =>
      simp only [hp]
      exact ⟨rfl, rfl, fun _ _ h => h, fun k hk => by simp [Sys.setWk, upd_other _ _ _ _ hk],
        fun a t ha => by
          simp only [Sys.setWk, upd_same]
          unfold WorkerSt.wakeSelecting; split <;> exact ha,
        fun a x' t hx hs => ⟨x', by simpa [Sys.setWk] using hx, hs, id⟩, (fun _ _ h => by cases h), (fun _ _ h => by cases h)⟩
    | some x0 =>
      simp only [hp]
      by_cases hd : (Cfg.releaseDead && !x0.deliverable) = true
      · -- variant `releaseDead`, a receiver that can never receive: only the wake-up
        simp only [hd, if_true]
        exact ⟨rfl, rfl, fun _ _ h => h, fun k hk => by simp [Sys.setWk, upd_other _ _ _ _ hk],
          fun a t ha => by
            simp only [Sys.setWk, upd_same]
            unfold WorkerSt.wakeSelecting; split <;> exact ha,
          fun a x' t hx hs => ⟨x', by simpa [Sys.setWk] using hx, hs, id⟩, (fun _ _ h => by cases h), (fun _ _ h => by cases h)⟩
      simp only [hd, Bool.false_eq_true, if_false]
      refine ⟨rfl, rfl, fun _ _ h => h, fun k hk => by simp [Sys.setWk, upd_other _ _ _ _ hk], ?_, ?_,
        (fun _ _ h => by cases h), (fun _ _ h => by cases h)⟩
      · intro a t ha
        simp only [Sys.setWk, upd_same]
        unfold WorkerSt.wakeSelecting; split <;> exact ha
      · intro a x' t hx hs
        have hpr : (((({ s with cmdQ := upd s.cmdQ i rest } : Sys).setWk i
            (({ (s.wk i) with procs := upd (s.wk i).procs t0 (some { x0 with mailbox := x0.mailbox ++ [m] }) } : WorkerSt).wakeSelecting t0))).wk i).procs =
            upd (s.wk i).procs t0 (some { x0 with mailbox := x0.mailbox ++ [m] }) := by
          simp [Sys.setWk]
        exact procs_same_await (w := s.wk i) (p0 := t0) (x0 := x0) hpr hp rfl rfl rfl a x' t (by simpa using hx) hs
  | getResult req p =>
    simp only [handleCmdWith]
    repeat' split
    · exact same _ rfl rfl rfl rfl (by intros; simp) (by intros; simp)
    · exact ⟨rfl, rfl, fun w e he => mem_upd_append_of_mem he, fun k _ => rfl, fun _ _ h => h,
        fun a x' t hx hs => ⟨x', hx, hs, id⟩, (fun _ _ h => by cases h), (fun _ _ h => by cases h)⟩
    · exact ⟨rfl, rfl, fun _ _ h => h, fun k hk => by simp [Sys.setWk, upd_other _ _ _ _ hk],
        fun a t ha => by simpa [Sys.setWk] using ha,
        fun a x' t hx hs => ⟨x', by simpa [Sys.setWk] using hx, hs, id⟩, (fun _ _ h => by cases h), (fun _ _ h => by cases h)⟩
  | queryAwait a0 ts =>
    simp only [handleCmdWith]
    obtain ⟨f1, _, _, _, _, f6⟩ := queryTargets_frame a0 ts (s.wk i)
    refine ⟨rfl, rfl, fun w e he => mem_upd_append_of_mem he, fun k hk => by simp [Sys.setWk, Sys.pushEvt, upd_other _ _ _ _ hk],
      fun a t ha => by simpa [Sys.setWk, Sys.pushEvt] using f6 a t ha, ?_, (fun _ _ h => by cases h), ?_⟩
    · intro a x' t hx hs
      refine ⟨x', ?_, hs, id⟩
      simpa [Sys.setWk, Sys.pushEvt, f1] using hx
    · intro a ts' h t ht
      simp only [Cmd.queryAwait.injEq] at h
      obtain ⟨rfl, rfl⟩ := h
      rcases queryTargets_covers a0 ts (s.wk i) t ht with ⟨r, hr⟩ | hreg
      · left
        refine ⟨_, r, ?_, hr⟩
        simp [Sys.setWk, Sys.pushEvt]
      · right; simpa [Sys.setWk, Sys.pushEvt] using hreg
  | updateAwait a0 rs =>
    simp only [handleCmdWith, Rules.current, Bool.false_and, Bool.false_eq_true, if_false]
    have hprocs : ∀ a x', ((({ s with cmdQ := upd s.cmdQ i rest } : Sys).setWk i ((applyResults (s.wk i) a0 rs).wakeSelecting a0)).wk i).procs a = some x' →
        (applyResults (s.wk i) a0 rs).procs a = some x' := by
      intro a x' h; simpa [Sys.setWk] using h
    have hother : ∀ a, a ≠ a0 → (applyResults (s.wk i) a0 rs).procs a = (s.wk i).procs a := by
      intro a ha
      have := (SameProcs.applyResults a0 rs (s.wk i))
      -- records of other processes are untouched
      exact applyResults_other a0 rs (s.wk i) a ha
    refine ⟨rfl, rfl, fun _ _ h => h, fun k hk => by simp [Sys.setWk, upd_other _ _ _ _ hk], ?_, ?_, ?_, (fun _ _ h => by cases h)⟩
    · intro a t ha
      simp only [Sys.setWk, upd_same]
      have hsp := (SameProcs.applyResults a0 rs (s.wk i)).awaiters
      unfold WorkerSt.wakeSelecting; split <;> (rw [hsp]; exact ha)
    · intro a x' t hx hs
      have hx' := hprocs a x' hx
      by_cases ha : a = a0
      · subst ha
        cases hp0 : (s.wk i).procs a with
        | none =>
          have := (SameProcs.applyResults a rs (s.wk i)).dom a
          rw [hx', hp0] at this; cases this
        | some x0 =>
          obtain ⟨x1, e1, e2, _⟩ := applyResults_learns a rs (s.wk i) x0 hp0
          rw [hx'] at e1; simp only [Option.some.injEq] at e1; subst e1
          exact ⟨x0, rfl, by rw [← e2.still]; exact hs, e2.learned⟩
      · rw [hother a ha] at hx'
        exact ⟨x', hx', hs, id⟩
    · intro a rs' h x' t r hx hs hm
      simp only [Cmd.updateAwait.injEq] at h
      obtain ⟨rfl, rfl⟩ := h
      have hx' := hprocs a0 x' hx
      cases hp0 : (s.wk i).procs a0 with
      | none =>
        have := (SameProcs.applyResults a0 rs (s.wk i)).dom a0
        rw [hx', hp0] at this; cases this
      | some x0 =>
        obtain ⟨x1, e1, e2, e3⟩ := applyResults_learns a0 rs (s.wk i) x0 hp0
        rw [hx'] at e1; simp only [Option.some.injEq] at e1; subst e1
        exact e3 t r hm (by rw [← e2.still]; exact hs)

end QM.Sys

namespace QM.Sys
variable [Cfg]

/-- **The chain survives every command a worker consumes** (QueryAndAwait → answer or registration;
UpdateAwaitResults → learned; the others do not touch the await bookkeeping). -/
theorem Chain.cmdStep1 {s : Sys} (hr : RInv s) (hc : Chain s) (i : Wid) : Chain (cmdStep1With Rules.current s i) := by
  unfold cmdStep1With
  cases hq : s.cmdQ i with
  | nil => exact hc
  | cons c rest =>
    simp only []
    have hcmem : c ∈ s.cmdQ i := by rw [hq]; simp
    have hnr : ∀ p fn, c ≠ .resume p fn := by
      intro p fn h
      have := hr.cmds i c hcmem
      rw [h] at this
      exact this
    have rel := cmdRel s i c rest hnr
    generalize handleCmdWith Rules.current { s with cmdQ := upd s.cmdQ i rest } i c = s' at rel
    have hcm : ∀ w1 c', c' ∈ s.cmdQ w1 → (w1 = i ∧ c' = c) ∨ c' ∈ s'.cmdQ w1 := by
      intro w1 c' h
      rw [rel.cmdQ]
      by_cases hw : w1 = i
      · subst hw
        rw [hq] at h
        rcases List.mem_cons.mp h with h | h
        · exact Or.inl ⟨rfl, h⟩
        · right; simpa using h
      · right; rw [upd_other _ _ _ _ hw]; exact h
    intro w a x' t hx hs
    -- the record before the step
    have hold : ∃ x, (s.wk w).procs a = some x ∧ x.stillAwaiting t = true ∧ (Learned x t → Learned x' t) := by
      by_cases hw : w = i
      · subst hw; exact rel.procs a x' t hx hs
      · rw [rel.other w hw] at hx; exact ⟨x', hx, hs, id⟩
    obtain ⟨x, hxo, hso, hlm⟩ := hold
    have hreg : ∀ wr, a ∈ (s.wk wr).awaitersFor t → a ∈ (s'.wk wr).awaitersFor t := by
      intro wr h
      by_cases hw : wr = i
      · subst hw; exact rel.aw a t h
      · rw [rel.other wr hw]; exact h
    rcases hc w a x t hxo hso with hl | hfl | ⟨wr, hrg⟩
    · exact Or.inl (hlm hl)
    · rcases hfl with ⟨w1, ts, hm, hts⟩ | ⟨w1, ts, hm, hts⟩ | ⟨w1, rs, r, hm, hrs⟩ | ⟨wr, r, pa, rs0, h1, h2, h3⟩ | ⟨w1, rs, r, hm, hrs⟩
      · exact Or.inr (Or.inl (Or.inl ⟨w1, ts, rel.evts _ _ hm, hts⟩))
      · rcases hcm w1 _ hm with ⟨rfl, hce⟩ | h
        · rcases rel.qry a ts hce.symm t hts with ⟨rs, r, h1, h2⟩ | h1
          · exact Or.inr (Or.inl (Or.inr (Or.inr (Or.inl ⟨w1, rs, r, h1, h2⟩))))
          · exact Or.inr (Or.inr ⟨w1, h1⟩)
        · exact Or.inr (Or.inl (Or.inr (Or.inl ⟨w1, ts, h, hts⟩)))
      · exact Or.inr (Or.inl (Or.inr (Or.inr (Or.inl ⟨w1, rs, r, rel.evts _ _ hm, hrs⟩))))
      · exact Or.inr (Or.inl (Or.inr (Or.inr (Or.inr (Or.inl ⟨wr, r, pa, rs0, by rw [rel.env]; exact h1, h2, h3⟩)))))
      · rcases hcm w1 _ hm with ⟨rfl, hce⟩ | h
        · -- the answer is applied now: the awaiter lives on this worker
          have hra : s.env.router a = some w1 := by
            have := hr.cmds w1 _ hm
            exact this
          have hrw : s.env.router a = some w := hr.placed w a (by simp [known, hxo])
          rw [hra] at hrw
          simp only [Option.some.injEq] at hrw
          subst hrw
          exact Or.inl (rel.upd a rs hce.symm x' t r hx hs hrs)
        · exact Or.inr (Or.inl (Or.inr (Or.inr (Or.inr (Or.inr ⟨w1, rs, r, h, hrs⟩)))))
    · exact Or.inr (Or.inr ⟨wr, hreg wr hrg⟩)

end QM.Sys

namespace QM.Sys
variable [Cfg]

/-! ### a time slice and the await bookkeeping of the running process -/

/-- `x'` still awaits only what `x` awaited, and knows at least as much -/
def AwSub (x x' : Proc) : Prop :=
  ∀ t, x'.stillAwaiting t = true → x.stillAwaiting t = true ∧ (Learned x t → Learned x' t)

theorem AwSub.refl (x : Proc) : AwSub x x := fun _ h => ⟨h, id⟩
theorem AwSub.trans {x y z : Proc} (h1 : AwSub x y) (h2 : AwSub y z) : AwSub x z := fun t h =>
  ⟨(h1 t (h2 t h).1).1, fun hl => (h2 t h).2 ((h1 t (h2 t h).1).2 hl)⟩

theorem AwSub.of_eq {x x' : Proc} (hr : x'.result = x.result) (ha : x'.awaiting = x.awaiting)
    (hf : x'.awaitFailed = x.awaitFailed) : AwSub x x' := by
  intro t h
  exact ⟨by simpa [Proc.stillAwaiting, hr, ha] using h, fun hl => by simpa [Learned, ha, hf] using hl⟩

theorem AwSub.of_result {x x' : Proc} (hr : x'.result.isSome = true) : AwSub x x' := by
  intro t h
  simp only [Proc.stillAwaiting, Bool.and_eq_true, Option.isNone_iff_eq_none] at h
  rw [h.1] at hr; cases hr

theorem alookup_filter_keys {β : Type} (l : List (Nat × β)) (q : Nat → Bool) (t : Nat) :
    alookup (l.filter (fun kv => q kv.1)) t = if q t then alookup l t else none := by
  induction l with
  | nil => simp [alookup]
  | cons kv rest ih =>
    obtain ⟨k, v⟩ := kv
    by_cases hk : q k = true
    · simp only [List.filter_cons, hk, if_true, alookup]
      by_cases hkt : k = t
      · subst hkt; simp [hk]
      · simp [hkt, ih]
    · simp only [List.filter_cons, hk, alookup]
      by_cases hkt : k = t
      · subst hkt; simp [hk, ih]
      · simp [hkt, ih]

/-- `complete_select`: the entries of the select's targets are dropped, the others keep their knowledge -/
theorem AwSub.complete (p : Proc) (ts : List Pid) (p2 : Proc) (hr : p2.result = p.result)
    (ha : p2.awaiting = p.awaiting.filter (fun kv => kv.1 ∉ ts))
    (hf : p2.awaitFailed = p.awaitFailed.filter (· ∉ ts)) : AwSub p p2 := by
  intro t h
  simp only [Proc.stillAwaiting, Bool.and_eq_true, hr, ha] at h
  have hlk := alookup_filter_keys p.awaiting (fun k => decide (k ∉ ts)) t
  simp only [decide_eq_true_eq] at hlk
  have hfilt : (p.awaiting.filter (fun kv => kv.1 ∉ ts)) = p.awaiting.filter (fun kv => decide (kv.1 ∉ ts)) := rfl
  rw [hfilt, hlk] at h
  by_cases hts : t ∈ ts
  · simp [hts] at h
  · simp only [hts, not_false_eq_true, if_true] at h
    refine ⟨by simp [Proc.stillAwaiting, h.1, h.2], ?_⟩
    rintro (⟨v, hv⟩ | hl)
    · left; exact ⟨v, by rw [ha]; exact List.mem_filter.mpr ⟨hv, by simpa using hts⟩⟩
    · right; rw [hf]; exact List.mem_filter.mpr ⟨hl, by simpa using hts⟩

theorem alookup_foldl_ainsert_none (ts : List Pid) : ∀ (l : List (Pid × Option Val)) (t : Pid), t ∉ ts →
    alookup (ts.foldl (fun a t => ainsert a t none) l) t = alookup l t ∧
    ∀ v, (t, some v) ∈ l → (t, some v) ∈ ts.foldl (fun a t => ainsert a t none) l := by
  induction ts with
  | nil => intro l t _; exact ⟨rfl, fun _ h => h⟩
  | cons t0 rest ih =>
    intro l t ht
    have h0 : t ≠ t0 := fun e => ht (by simp [e])
    have hr : t ∉ rest := fun e => ht (by simp [e])
    obtain ⟨i1, i2⟩ := ih (ainsert l t0 none) t hr
    simp only [List.foldl_cons]
    refine ⟨by rw [i1, alookup_ainsert]; simp [Ne.symm h0], ?_⟩
    intro v hv
    apply i2
    -- inserting another key keeps the entry
    clear i1 i2 ih
    induction l with
    | nil => cases hv
    | cons kv l' ihl =>
      obtain ⟨k, w⟩ := kv
      unfold ainsert
      by_cases hk : k = t0
      · simp only [hk, if_true]
        rcases List.mem_cons.mp hv with h | h
        · simp only [Prod.mk.injEq] at h; exact absurd (h.1.trans hk) h0
        · exact List.mem_cons_of_mem _ h
      · simp only [hk, if_false]
        rcases List.mem_cons.mp hv with h | h
        · rw [h]; simp
        · exact List.mem_cons_of_mem _ (ihl h)

/-- **A time slice**: whatever the running process still awaits afterwards, it awaited before (knowing
no more then than now) — or it has just been named in the AwaitAction the slice ends with. -/
theorem slice_await_aux (prog : Prog) (now : Nat) (self : Pid) : ∀ (fuel : Nat) (p : Proc) (res : Proc × Outcome),
    slice prog now self fuel p = res → ∀ t, res.1.stillAwaiting t = true →
    (∃ ts, res.2 = .awaitInit ts ∧ t ∈ ts) ∨ (p.stillAwaiting t = true ∧ (Learned p t → Learned res.1 t))
  | 0, p, res, hres, t, h => by
    simp only [slice] at hres; subst hres; exact Or.inr ⟨h, id⟩
  | fuel + 1, p, res, hres, t, h => by
    unfold slice at hres
    split at hres
    · subst hres; exact Or.inr ⟨h, id⟩
    · subst hres; exact Or.inr (AwSub.of_eq (x := p) rfl rfl rfl t h)
    · split at hres
      · subst hres; exact Or.inr (AwSub.of_result (x := p) rfl t h)
      · subst hres; exact Or.inr (AwSub.of_eq (x := p) rfl rfl rfl t h)
    · subst hres; exact Or.inr (AwSub.of_result (x := p) rfl t h)
    · rename_i srcs _
      split at hres
      · -- initialize_select
        simp only [] at hres
        split at hres
        · rcases slice_await_aux prog now self fuel _ res hres t h with h1 | ⟨h1, h2⟩
          · exact Or.inl h1
          · right
            have hsub := AwSub.of_eq (x := p) (x' := { p with selInit := true, selStart := some now }) rfl rfl rfl t h1
            exact ⟨hsub.1, fun hl => h2 (hsub.2 hl)⟩
        · subst hres
          by_cases htt : t ∈ selTargets p srcs
          · exact Or.inl ⟨_, rfl, htt⟩
          · right
            obtain ⟨k1, k2⟩ := alookup_foldl_ainsert_none (selTargets p srcs) p.awaiting t htt
            simp only [Proc.stillAwaiting, Bool.and_eq_true] at h ⊢
            rw [k1] at h
            refine ⟨h, ?_⟩
            rintro (⟨v, hv⟩ | hl)
            · exact Or.inl ⟨v, k2 v hv⟩
            · exact Or.inr hl
      · split at hres
        · -- variant `selectWaits`: answers pending, nothing evaluated
          subst hres; exact Or.inr ⟨h, id⟩
        -- process_select_sources
        simp only [] at hres
        split at hres
        · rename_i v mb _
          rcases slice_await_aux prog now self fuel _ res hres t h with h1 | ⟨h1, h2⟩
          · exact Or.inl h1
          · right
            have hsub := AwSub.complete p (selTargets p srcs)
              { p with selStart := none, pc := p.pc + 1, selInit := false, acc := p.acc ++ [v], mailbox := mb,
                       unanswered := [],
                       awaiting := p.awaiting.filter (fun kv => kv.1 ∉ selTargets p srcs),
                       awaitFailed := p.awaitFailed.filter (· ∉ selTargets p srcs) } rfl rfl rfl t h1
            exact ⟨hsub.1, fun hl => h2 (hsub.2 hl)⟩
        · subst hres; exact Or.inr (AwSub.of_result (x := p) rfl t h)
        · subst hres; exact Or.inr (AwSub.of_eq (x := p) rfl rfl rfl t h)

end QM.Sys

namespace QM.Sys
variable [Cfg]

/-! ### the finished branch: local awaiters are notified, nobody else is touched -/

theorem fold_notify_keeps (cur : Pid) (r : Res) : ∀ (l : List Pid) (w : WorkerSt) (b : Pid) (y : Proc),
    w.procs b = some y →
    ∃ y', (l.foldl (fun acc a => acc.notifyResult a cur r) w).procs b = some y' ∧ Keeps y y'
  | [], w, b, y, h => ⟨y, h, Keeps.refl y⟩
  | a :: l, w, b, y, h => by
    simp only [List.foldl_cons]
    by_cases hba : b = a
    · subst hba
      obtain ⟨y1, g1, g2, _⟩ := notifyResult_keeps w b cur r y h
      obtain ⟨y', h1, h2⟩ := fold_notify_keeps cur r l _ b y1 g1
      exact ⟨y', h1, g2.trans h2⟩
    · exact fold_notify_keeps cur r l _ b y (by rw [notifyResult_other _ _ _ _ _ hba]; exact h)

theorem fold_notify_awaiters (cur : Pid) (r : Res) (l : List Pid) (w : WorkerSt) :
    (l.foldl (fun acc a => acc.notifyResult a cur r) w).awaitersFor = w.awaitersFor :=
  (SameProcs.foldl _ (fun w' a => SameProcs.notifyResult w' a cur r) l w).awaiters

theorem fold_notify_dom (cur : Pid) (r : Res) (l : List Pid) (w : WorkerSt) (b : Pid) :
    ((l.foldl (fun acc a => acc.notifyResult a cur r) w).procs b).isSome = (w.procs b).isSome :=
  (SameProcs.foldl _ (fun w' a => SameProcs.notifyResult w' a cur r) l w).dom b

/-- variant `releaseDead`: `release` touches the finished process only, and keeps its result -/
theorem release_other (w : WorkerSt) (cur b : Pid) (hb : b ≠ cur) : (w.release cur).procs b = w.procs b := by
  unfold WorkerSt.release; split
  · unfold WorkerSt.modProc; split
    · exact upd_other _ _ _ _ hb
    · rfl
  · rfl

theorem release_cur_result (w : WorkerSt) (cur : Pid) (y' : Proc) (hy : (w.release cur).procs cur = some y') :
    ∃ y, w.procs cur = some y ∧ y'.result = y.result := by
  unfold WorkerSt.release at hy; split at hy
  · unfold WorkerSt.modProc at hy; split at hy
    · rename_i y hy0
      simp only [upd_same, Option.some.injEq] at hy; subst hy
      exact ⟨y, hy0, by unfold Proc.releaseDead; split <;> rfl⟩
    · exact ⟨y', hy, rfl⟩
  · exact ⟨y', hy, rfl⟩

theorem release_awaiters (w : WorkerSt) (cur : Pid) : (w.release cur).awaitersFor = w.awaitersFor := by
  unfold WorkerSt.release; split
  · unfold WorkerSt.modProc; split <;> rfl
  · rfl

/-- after `finish`: the finished process has a result; every other record `Keeps` -/
theorem finish_records (w : WorkerSt) (cur : Pid) (x : Proc) (ordQ : List Pid) (b : Pid) (y' : Proc) (t : Pid)
    (hy : (w.finish cur x ordQ).procs b = some y') (hs : y'.stillAwaiting t = true) :
    b ≠ cur ∧ ∃ y, w.procs b = some y ∧ y.stillAwaiting t = true ∧ (Learned y t → Learned y' t) := by
  unfold WorkerSt.finish at hy
  simp only [] at hy
  by_cases hb : b = cur
  · subst hb
    exfalso
    obtain ⟨y0, hy0, hres⟩ := release_cur_result _ b y' hy
    obtain ⟨y1, h1, h2⟩ := fold_notify_keeps b x.finalRes _
      { w with procs := upd w.procs b (some { x with result := some x.finalRes }) } b
      { x with result := some x.finalRes } (by simp)
    rw [hy0] at h1
    simp only [Option.some.injEq] at h1
    subst h1
    have := h2.result
    simp only [Proc.stillAwaiting, Bool.and_eq_true, Option.isNone_iff_eq_none] at hs
    rw [← hres, hs.1] at this; cases this
  · rw [release_other _ _ _ hb] at hy
    refine ⟨hb, ?_⟩
    cases hw : w.procs b with
    | none =>
      have := fold_notify_dom cur x.finalRes (orderBy ordQ (WorkerSt.localAwaiters
        { w with procs := upd w.procs cur (some { x with result := some x.finalRes }) } cur))
        { w with procs := upd w.procs cur (some { x with result := some x.finalRes }) } b
      rw [hy] at this
      simp [upd_other _ _ _ _ hb, hw] at this
    | some y =>
      obtain ⟨y1, h1, h2⟩ := fold_notify_keeps cur x.finalRes _
        { w with procs := upd w.procs cur (some { x with result := some x.finalRes }) } b y
        (by simp [upd_other _ _ _ _ hb, hw])
      rw [hy] at h1
      simp only [Option.some.injEq] at h1
      subst h1
      exact ⟨y, rfl, by rw [← h2.still]; exact hs, h2.learned⟩

theorem finish_awaiters (w : WorkerSt) (cur : Pid) (x : Proc) (ordQ : List Pid) :
    (w.finish cur x ordQ).awaitersFor = w.awaitersFor := by
  unfold WorkerSt.finish
  exact (release_awaiters _ _).trans (fold_notify_awaiters _ _ _ _)

end QM.Sys

namespace QM.Sys
variable [Cfg]

structure ExecRel (s s' : Sys) (i : Wid) : Prop where
  env : s'.env = s.env
  cmdQ : s'.cmdQ = s.cmdQ
  evts : ∀ w e, e ∈ s.evtQ w → e ∈ s'.evtQ w
  other : ∀ k, k ≠ i → s'.wk k = s.wk k
  aw : (s'.wk i).awaitersFor = (s.wk i).awaitersFor
  procs : ∀ a x' t, (s'.wk i).procs a = some x' → x'.stillAwaiting t = true →
    (∃ ts, Evt.await a ts ∈ s'.evtQ i ∧ t ∈ ts) ∨
    ∃ x, (s.wk i).procs a = some x ∧ x.stillAwaiting t = true ∧ (Learned x t → Learned x' t)

theorem ExecRel.of_same {s s' : Sys} {i : Wid} (h1 : s'.env = s.env) (h2 : s'.cmdQ = s.cmdQ) (h3 : s'.evtQ = s.evtQ)
    (h4 : ∀ k, k ≠ i → s'.wk k = s.wk k) (h5 : (s'.wk i).awaitersFor = (s.wk i).awaitersFor)
    (h6 : (s'.wk i).procs = (s.wk i).procs) : ExecRel s s' i :=
  ⟨h1, h2, fun w e he => by rw [h3]; exact he, h4, h5, fun a x' t hx hs => Or.inr ⟨x', by rw [h6] at hx; exact hx, hs, id⟩⟩

/-- variant `exitReports`: the extra `ProcessExited` event of a finishing step changes nothing the chain looks at -/
theorem ExecRel.noteExit {s s' : Sys} {i : Wid} (h : ExecRel s s' i) (cur : Pid) (x : Proc) :
    ExecRel s (s'.noteExit i cur x) i := by
  unfold Sys.noteExit
  split
  · refine ⟨h.env, h.cmdQ, fun w e he => ?_, h.other, h.aw, fun a x' t hx hs => ?_⟩
    · have := h.evts w e he
      simp only [Sys.pushEvt]
      by_cases hw : w = i
      · subst hw; simp [upd_same, this]
      · simp [upd_other _ _ _ _ hw, this]
    · rcases h.procs a x' t hx hs with ⟨ts, h1, h2⟩ | h1
      · exact Or.inl ⟨ts, by simp [Sys.pushEvt, upd_same, h1], h2⟩
      · exact Or.inr h1
  · exact h

/-- the running process's record replaced by the result of its slice -/
theorem procs_after_slice {procs : Pid → Option Proc} {cur : Pid} {x x' : Proc} {out : Outcome} {prog : Prog} {now fuel : Nat}
    (hx : procs cur = some x) (hsl : slice prog now cur fuel x = (x', out)) (a : Pid) (y' : Proc) (t : Pid)
    (hy : upd procs cur (some x') a = some y') (hs : y'.stillAwaiting t = true) :
    (a = cur ∧ ∃ ts, out = .awaitInit ts ∧ t ∈ ts) ∨
    ∃ y, procs a = some y ∧ y.stillAwaiting t = true ∧ (Learned y t → Learned y' t) := by
  by_cases ha : a = cur
  · subst ha
    simp only [upd_same, Option.some.injEq] at hy
    subst hy
    rcases slice_await_aux prog now a fuel x _ hsl t hs with ⟨ts, h1, h2⟩ | ⟨h1, h2⟩
    · exact Or.inl ⟨rfl, ts, h1, h2⟩
    · exact Or.inr ⟨x, hx, h1, h2⟩
  · rw [upd_other _ _ _ _ ha] at hy
    exact Or.inr ⟨y', hy, hs, id⟩

theorem ExecRel.execStep (s : Sys) (i : Wid) (fuel : Nat) (ordQ : List Pid) : ExecRel s (execStep s i fuel ordQ) i := by
  unfold QM.Sys.execStep
  simp only []
  have hce_p : ((s.wk i).checkExpired s.prog s.now ordQ).procs = (s.wk i).procs := rfl
  have hce_a : ((s.wk i).checkExpired s.prog s.now ordQ).awaitersFor = (s.wk i).awaitersFor := rfl
  split
  · exact ExecRel.of_same rfl rfl rfl (fun k hk => by simp [Sys.setWk, upd_other _ _ _ _ hk]) (by simp [Sys.setWk, hce_a]) (by simp [Sys.setWk, hce_p])
  · rename_i cur rest hq
    split
    · exact ExecRel.of_same rfl rfl rfl (fun k hk => by simp [Sys.setWk, upd_other _ _ _ _ hk]) (by simp [Sys.setWk, hce_a]) (by simp [Sys.setWk, hce_p])
    · rename_i x hx
      have hx0 : (s.wk i).procs cur = some x := hx
      split
      · -- an already failed process is announced
        apply ExecRel.noteExit
        refine ⟨rfl, rfl, fun _ _ h => h, fun k hk => by simp [Sys.setWk, upd_other _ _ _ _ hk],
          by simp [Sys.setWk, finish_awaiters, hce_a], ?_⟩
        intro a y' t hy hs
        simp only [Sys.setWk, upd_same] at hy
        obtain ⟨_, y, h1, h2, h3⟩ := finish_records _ cur x ordQ a y' t hy hs
        exact Or.inr ⟨y, h1, h2, h3⟩
      · cases hsl : slice s.prog s.now cur fuel x with
        | mk x' out =>
          simp only []
          have hslice := fun a y' t => procs_after_slice (procs := (s.wk i).procs) hx0 hsl a y' t
          cases out with
          | cont =>
            refine ⟨rfl, rfl, fun _ _ h => h, fun k hk => by simp [Sys.setWk, upd_other _ _ _ _ hk], by simp [Sys.setWk, hce_a], ?_⟩
            intro a y' t hy hs
            simp only [Sys.setWk, upd_same] at hy
            rcases hslice a y' t hy hs with ⟨_, ts, h, _⟩ | h
            · cases h
            · exact Or.inr h
          | blocked =>
            refine ⟨rfl, rfl, fun _ _ h => h, fun k hk => by simp [Sys.setWk, upd_other _ _ _ _ hk], by simp [Sys.setWk, hce_a], ?_⟩
            intro a y' t hy hs
            simp only [Sys.setWk, upd_same] at hy
            rcases hslice a y' t hy hs with ⟨_, ts, h, _⟩ | h
            · cases h
            · exact Or.inr h
          | send tg m =>
            refine ⟨rfl, rfl, fun w e he => mem_upd_append_of_mem he, fun k hk => by simp [Sys.setWk, Sys.pushEvt, upd_other _ _ _ _ hk],
              by simp [Sys.setWk, Sys.pushEvt, hce_a], ?_⟩
            intro a y' t hy hs
            simp only [Sys.setWk, Sys.pushEvt, upd_same] at hy
            rcases hslice a y' t hy hs with ⟨_, ts, h, _⟩ | h
            · cases h
            · exact Or.inr h
          | spawn fn regs =>
            refine ⟨rfl, rfl, fun w e he => mem_upd_append_of_mem he, fun k hk => by simp [Sys.setWk, Sys.pushEvt, upd_other _ _ _ _ hk],
              by simp [Sys.setWk, Sys.pushEvt, hce_a], ?_⟩
            intro a y' t hy hs
            simp only [Sys.setWk, Sys.pushEvt, upd_same] at hy
            rcases hslice a y' t hy hs with ⟨_, ts, h, _⟩ | h
            · cases h
            · exact Or.inr h
          | awaitInit ts0 =>
            refine ⟨rfl, rfl, fun w e he => mem_upd_append_of_mem he, fun k hk => by simp [Sys.setWk, Sys.pushEvt, upd_other _ _ _ _ hk],
              by simp [Sys.setWk, Sys.pushEvt, hce_a], ?_⟩
            intro a y' t hy hs
            simp only [Sys.setWk, Sys.pushEvt, upd_same] at hy
            rcases hslice a y' t hy hs with ⟨rfl, ts, h, hts⟩ | h
            · simp only [Outcome.awaitInit.injEq] at h
              subst h
              exact Or.inl ⟨ts0, by simp [Sys.setWk, Sys.pushEvt], hts⟩
            · exact Or.inr h
          | failed =>
            apply ExecRel.noteExit
            refine ⟨rfl, rfl, fun _ _ h => h, fun k hk => by simp [Sys.setWk, upd_other _ _ _ _ hk],
              by simp [Sys.setWk, finish_awaiters, hce_a], ?_⟩
            intro a y' t hy hs
            simp only [Sys.setWk, upd_same] at hy
            obtain ⟨hne, y, h1, h2, h3⟩ := finish_records _ cur x' ordQ a y' t hy hs
            simp only [upd_other _ _ _ _ hne] at h1
            exact Or.inr ⟨y, h1, h2, h3⟩
          | done =>
            apply ExecRel.noteExit
            refine ⟨rfl, rfl, fun _ _ h => h, fun k hk => by simp [Sys.setWk, upd_other _ _ _ _ hk],
              by simp [Sys.setWk, finish_awaiters, hce_a], ?_⟩
            intro a y' t hy hs
            simp only [Sys.setWk, upd_same] at hy
            obtain ⟨hne, y, h1, h2, h3⟩ := finish_records _ cur x' ordQ a y' t hy hs
            simp only [upd_other _ _ _ _ hne] at h1
            exact Or.inr ⟨y, h1, h2, h3⟩

/-- **The chain survives every executor step**: a select that starts awaiting is covered by the
AwaitAction it emits; a process that finishes or fails notifies its local awaiters, who only learn. -/
theorem Chain.execStep {s : Sys} (hc : Chain s) (i : Wid) (fuel : Nat) (ordQ : List Pid) :
    Chain (QM.Sys.execStep s i fuel ordQ) := by
  have rel := ExecRel.execStep s i fuel ordQ
  generalize QM.Sys.execStep s i fuel ordQ = s' at rel
  intro w a x' t hx hs
  have hreg : ∀ wr, a ∈ (s.wk wr).awaitersFor t → a ∈ (s'.wk wr).awaitersFor t := by
    intro wr h
    by_cases hw : wr = i
    · subst hw; rw [rel.aw]; exact h
    · rw [rel.other wr hw]; exact h
  have hold : (∃ ts, Evt.await a ts ∈ s'.evtQ w ∧ t ∈ ts) ∨
      ∃ x, (s.wk w).procs a = some x ∧ x.stillAwaiting t = true ∧ (Learned x t → Learned x' t) := by
    by_cases hw : w = i
    · subst hw; exact rel.procs a x' t hx hs
    · rw [rel.other w hw] at hx; exact Or.inr ⟨x', hx, hs, id⟩
  rcases hold with ⟨ts, h1, h2⟩ | ⟨x, hxo, hso, hlm⟩
  · exact Or.inr (Or.inl (Or.inl ⟨w, ts, h1, h2⟩))
  · rcases hc w a x t hxo hso with hl | hfl | ⟨wr, hrg⟩
    · exact Or.inl (hlm hl)
    · right; left
      rcases hfl with ⟨w1, ts, hm, hts⟩ | ⟨w1, ts, hm, hts⟩ | ⟨w1, rs, r, hm, hrs⟩ | ⟨wr, r, pa, rs0, h1, h2, h3⟩ | ⟨w1, rs, r, hm, hrs⟩
      · exact Or.inl ⟨w1, ts, rel.evts _ _ hm, hts⟩
      · exact Or.inr (Or.inl ⟨w1, ts, by rw [rel.cmdQ]; exact hm, hts⟩)
      · exact Or.inr (Or.inr (Or.inl ⟨w1, rs, r, rel.evts _ _ hm, hrs⟩))
      · exact Or.inr (Or.inr (Or.inr (Or.inl ⟨wr, r, pa, rs0, by rw [rel.env]; exact h1, h2, h3⟩)))
      · exact Or.inr (Or.inr (Or.inr (Or.inr ⟨w1, rs, r, by rw [rel.cmdQ]; exact hm, hrs⟩)))
    · exact Or.inr (Or.inr ⟨wr, hreg wr hrg⟩)

end QM.Sys

namespace QM.Sys
variable [Cfg]

/-- the chain survives EVERY micro-step of the composed system; only the environment step needs the
positional facts about the event it consumes -/
theorem Chain.micro {s : Sys} (hr : RInv s) (hc : Chain s)
    (hpo : AwaitOrder s ∧ PlaceholderOrder s ∧ EvtKeysNodup s) (m : Micro) : Chain (microStep Rules.current s m) := by
  cases m with
  | env w => exact Chain.envStep1 hr hc hpo.1 hpo.2.1 hpo.2.2 w
  | cmd i => exact Chain.cmdStep1 hr hc i
  | exec i fuel ordQ => exact Chain.execStep hc i fuel ordQ
  | check i ordE => exact Chain.checkStep hc i ordE
  | tick ms => exact hc

end QM.Sys

