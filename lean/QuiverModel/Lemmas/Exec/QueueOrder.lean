import QuiverModel.Lemmas.Exec.FailChain
/-
C15 round 3b — the positional facts `Chain.envStep1` needs, as inductive invariants of M-Sys ("last mention" facts about a
worker's event queue: stable under popping the head, re-established by every push). Owner: b-c05. Imports C04's M-Sys
read-only (through FailChain).
-/
set_option linter.unusedSectionVars false
namespace QM.Sys

/-! ## "Last mention" facts about a worker's event queue (stable under popping the head) -/

/-- the value of `f` at the LAST event of the list where `f` is defined -/
def lastSome {β : Type} (f : Evt → Option β) : List Evt → Option β
  | [] => none
  | e :: rest =>
    match lastSome f rest with
    | some b => some b
    | none => f e

theorem lastSome_append_single {β : Type} (f : Evt → Option β) : ∀ (l : List Evt) (e : Evt),
    lastSome f (l ++ [e]) = (match f e with | some b => some b | none => lastSome f l)
  | [], e => by cases h : f e <;> simp [lastSome, h]
  | x :: l, e => by
    simp only [List.cons_append, lastSome, lastSome_append_single f l e]
    cases f e <;> simp

theorem lastSome_append_none {β : Type} (f : Evt → Option β) (l : List Evt) : ∀ (l2 : List Evt),
    (∀ e ∈ l2, f e = none) → lastSome f (l ++ l2) = lastSome f l
  | [], _ => by simp
  | e :: l2, h => by
    have h1 : l ++ e :: l2 = (l ++ [e]) ++ l2 := by simp
    rw [h1, lastSome_append_none f (l ++ [e]) l2 (fun x hx => h x (List.mem_cons_of_mem _ hx)),
      lastSome_append_single, h e List.mem_cons_self]

theorem lastSome_append_all {β : Type} (f : Evt → Option β) (b : β) : ∀ (l2 l : List Evt),
    (∀ e ∈ l2, f e = none ∨ f e = some b) → (∃ e ∈ l2, f e = some b) → lastSome f (l ++ l2) = some b
  | [], _, _, ⟨e, he, _⟩ => by cases he
  | e :: l2, l, hall, ⟨e', he', hf'⟩ => by
    have h1 : l ++ e :: l2 = (l ++ [e]) ++ l2 := by simp
    rw [h1]
    by_cases hex : ∃ x ∈ l2, f x = some b
    · exact lastSome_append_all f b l2 (l ++ [e]) (fun x hx => hall x (List.mem_cons_of_mem _ hx)) hex
    · have hnone : ∀ x ∈ l2, f x = none := by
        intro x hx
        rcases hall x (List.mem_cons_of_mem _ hx) with h | h
        · exact h
        · exact absurd ⟨x, hx, h⟩ hex
      rw [lastSome_append_none f _ l2 hnone, lastSome_append_single]
      rcases List.mem_cons.mp he' with h | h
      · subst h; rw [hf']
      · exact absurd ⟨e', h, hf'⟩ hex

theorem lastSome_mem {β : Type} (f : Evt → Option β) : ∀ (l : List Evt) (b : β), lastSome f l = some b →
    ∃ e ∈ l, f e = some b
  | [], b, h => by cases h
  | e :: rest, b, h => by
    simp only [lastSome] at h
    cases hr : lastSome f rest with
    | some b' =>
      rw [hr] at h
      simp only [Option.some.injEq] at h; subst h
      obtain ⟨e', h1, h2⟩ := lastSome_mem f rest b' hr
      exact ⟨e', List.mem_cons_of_mem _ h1, h2⟩
    | none =>
      rw [hr] at h
      exact ⟨e, List.mem_cons_self, h⟩

theorem lastSome_tail {β : Type} (f : Evt → Option β) (e : Evt) (rest : List Evt) (b : β)
    (h : lastSome f rest = some b) : lastSome f (e :: rest) = some b := by
  simp [lastSome, h]

variable [Cfg]

/-- what a ProcessResults event says about target `t` to awaiter `a` -/
def mention (a t : Pid) : Evt → Option (Option Res)
  | .procResults a' rs => if a' = a then alookup rs t else none
  | _ => none

/-- **J2**: if the LAST thing worker `w`'s event queue says to `a` about `t` is the placeholder, `a` is still
registered for `t` at `w` -/
def PlaceholderLast (s : Sys) : Prop :=
  ∀ w a t, lastSome (mention a t) (s.evtQ w) = some none → a ∈ (s.wk w).awaitersFor t

theorem PlaceholderLast.order {s : Sys} (h : PlaceholderLast s) : PlaceholderOrder s := by
  intro w a new rest hq t hnew
  cases hl : lastSome (mention a t) rest with
  | none =>
    left
    apply h w a t
    rw [hq]
    simp [lastSome, hl, mention, hnew]
  | some o =>
    cases o with
    | none => left; apply h w a t; rw [hq]; exact lastSome_tail _ _ _ _ hl
    | some r =>
      right
      obtain ⟨e, he, hm⟩ := lastSome_mem _ _ _ hl
      cases e with
      | procResults a' rs' =>
        simp only [mention] at hm
        split at hm
        · rename_i haa; subst haa; exact ⟨rs', r, he, hm⟩
        · cases hm
      | _ => simp [mention] at hm

end QM.Sys

namespace QM.Sys
variable [Cfg]

/-- the step appends `evs` to worker `i`'s event queue and touches no other worker -/
structure EvtPush (s s' : Sys) (i : Wid) (evs : List Evt) : Prop where
  evtQ : s'.evtQ = upd s.evtQ i (s.evtQ i ++ evs)
  other : ∀ k, k ≠ i → s'.wk k = s.wk k

theorem upd_append_nil (q : Nat → List Evt) (i : Nat) : upd q i (q i ++ []) = q := by
  funext j; by_cases h : j = i
  · subst h; simp
  · simp [upd_other _ _ _ _ h]

theorem EvtPush.of_same {s s' : Sys} {i : Wid} (h1 : s'.evtQ = s.evtQ) (h2 : ∀ k, k ≠ i → s'.wk k = s.wk k) :
    EvtPush s s' i [] := ⟨by rw [h1, upd_append_nil], h2⟩

theorem EvtPush.trans {a b c : Sys} {i : Wid} {e1 e2 : List Evt} (h1 : EvtPush a b i e1) (h2 : EvtPush b c i e2) :
    EvtPush a c i (e1 ++ e2) := by
  refine ⟨?_, fun k hk => (h2.other k hk).trans (h1.other k hk)⟩
  rw [h2.evtQ, h1.evtQ]
  funext j; by_cases h : j = i
  · subst h; simp
  · simp [upd_other _ _ _ _ h]

theorem setWk_other (s : Sys) (i : Wid) (x : WorkerSt) : ∀ k, k ≠ i → (s.setWk i x).wk k = s.wk k :=
  fun k hk => by simp [Sys.setWk, upd_other _ _ _ _ hk]

/-- one command: which events it appends, and that registrations only grow -/
theorem cmd_push (s : Sys) (i : Wid) (c : Cmd) :
    ∃ evs, EvtPush s (handleCmdWith Rules.current s i c) i evs ∧
      (∀ a t, a ∈ (s.wk i).awaitersFor t → a ∈ ((handleCmdWith Rules.current s i c).wk i).awaitersFor t) ∧
      (evs = [] ∨ (∃ req r, evs = [.resultResp req r]) ∨
        ∃ a ts, c = .queryAwait a ts ∧ evs = [.procResults a (queryTargets (s.wk i) a ts).2] ∧
          (handleCmdWith Rules.current s i c).wk i = (queryTargets (s.wk i) a ts).1) := by
  cases c with
  | misc => exact ⟨[], EvtPush.of_same rfl (fun _ _ => rfl), fun _ _ h => h, Or.inl rfl⟩
  | start p =>
    refine ⟨[], EvtPush.of_same rfl (setWk_other _ _ _), ?_, Or.inl rfl⟩
    intro a t h; simpa [handleCmdWith, Sys.setWk, WorkerSt.setProc] using h
  | resume p fn =>
    refine ⟨[], ?_, ?_, Or.inl rfl⟩
    · simp only [handleCmdWith]
      split
      · exact EvtPush.of_same rfl (fun _ _ => rfl)
      · split
        · exact EvtPush.of_same rfl (fun _ _ => rfl)
        · split
          · split
            · exact EvtPush.of_same rfl (setWk_other _ _ _)
            · exact EvtPush.of_same rfl (fun _ _ => rfl)
          · exact EvtPush.of_same rfl (fun _ _ => rfl)
    · intro a t h
      simp only [handleCmdWith]
      split
      · exact h
      · split
        · exact h
        · split
          · split
            · simpa [Sys.setWk] using h
            · exact h
          · exact h
  | spawn p fn regs =>
    refine ⟨[], ?_, ?_, Or.inl rfl⟩
    · simp only [handleCmdWith]
      split
      · exact EvtPush.of_same rfl (fun _ _ => rfl)
      · exact EvtPush.of_same rfl (setWk_other _ _ _)
    · intro a t h
      simp only [handleCmdWith]
      split
      · exact h
      · simpa [Sys.setWk, WorkerSt.setProc] using h
  | notifySpawn caller np =>
    refine ⟨[], ?_, ?_, Or.inl rfl⟩
    · simp only [handleCmdWith]
      split
      · exact EvtPush.of_same rfl (setWk_other _ _ _)
      · exact EvtPush.of_same rfl (setWk_other _ _ _)
    · intro a t h
      simp only [handleCmdWith]
      split
      · simpa [Sys.setWk] using h
      · simp only [Sys.setWk, upd_same]
        split <;> simpa using h
  | deliver t m =>
    refine ⟨[], ?_, ?_, Or.inl rfl⟩
    · simp only [handleCmdWith]
      repeat' split
      all_goals exact EvtPush.of_same rfl (setWk_other _ _ _)
    · intro a t' h
      simp only [handleCmdWith]
      repeat' split
      all_goals
        simp only [Sys.setWk, upd_same]
        rw [(SameProcs.wakeSelecting _ _).awaiters]; exact h
  | queryAwait a ts =>
    refine ⟨[.procResults a (queryTargets (s.wk i) a ts).2], ⟨?_, ?_⟩, ?_, Or.inr (Or.inr ⟨a, ts, rfl, rfl, ?_⟩)⟩
    · simp [handleCmdWith, Sys.pushEvt, Sys.setWk]
    · intro k hk; simp [handleCmdWith, Sys.pushEvt, Sys.setWk, upd_other _ _ _ _ hk]
    · intro a' t h
      simp only [handleCmdWith, Sys.pushEvt, Sys.setWk, upd_same]
      exact (queryTargets_frame a ts (s.wk i)).2.2.2.2.2 a' t h
    · simp [handleCmdWith, Sys.pushEvt, Sys.setWk]
  | updateAwait a rs =>
    refine ⟨[], EvtPush.of_same rfl (setWk_other _ _ _), ?_, Or.inl rfl⟩
    intro a' t h
    simp only [handleCmdWith, Sys.setWk, upd_same, Rules.current]
    have h1 : (applyResults (s.wk i) a rs).awaitersFor = (s.wk i).awaitersFor := (SameProcs.applyResults a rs _).awaiters
    simp only [Bool.false_and, Bool.false_eq_true, if_false]
    rw [(SameProcs.wakeSelecting _ _).awaiters, h1]; exact h
  | getResult req p =>
    simp only [handleCmdWith]
    split
    · exact ⟨[], EvtPush.of_same rfl (fun _ _ => rfl), fun _ _ h => h, Or.inl rfl⟩
    · split
      · rename_i r _
        exact ⟨[.resultResp req r], ⟨by simp [Sys.pushEvt], fun _ _ => rfl⟩, fun _ _ h => h, Or.inr (Or.inl ⟨req, r, rfl⟩)⟩
      · exact ⟨[], EvtPush.of_same rfl (setWk_other _ _ _), fun a t h => by simpa [Sys.setWk] using h, Or.inl rfl⟩

end QM.Sys

namespace QM.Sys
variable [Cfg]

/-- a placeholder in the answer of `query_and_await` comes with a registration -/
theorem queryTargets_none_registered (a : Pid) : ∀ (ts : List Pid) (w : WorkerSt) (t : Pid),
    alookup (queryTargets w a ts).2 t = some none → a ∈ (queryTargets w a ts).1.awaitersFor t
  | [], w, t, h => by simp [queryTargets, alookup] at h
  | t0 :: rest, w, t, h => by
    unfold queryTargets at h ⊢
    cases hc : w.completedStatus t0 with
    | some r =>
      simp only [hc] at h ⊢
      rw [alookup_ainsert] at h
      split at h
      · cases h
      · exact queryTargets_none_registered a rest w t h
    | none =>
      simp only [hc] at h ⊢
      rw [alookup_ainsert] at h
      split at h
      · rename_i ht; subst ht
        apply (queryTargets_frame a rest _).2.2.2.2.2
        simp
      · exact queryTargets_none_registered a rest _ t h

theorem PlaceholderLast.of_push {s s' : Sys} {i : Wid} {evs : List Evt} (h : PlaceholderLast s) (hp : EvtPush s s' i evs)
    (haw : ∀ a t, a ∈ (s.wk i).awaitersFor t → a ∈ (s'.wk i).awaitersFor t)
    (hno : ∀ e ∈ evs, ∀ a t, mention a t e = none) : PlaceholderLast s' := by
  intro w a t hl
  rw [hp.evtQ] at hl
  by_cases hw : w = i
  · subst hw
    rw [upd_same, lastSome_append_none _ _ _ (fun e he => hno e he a t)] at hl
    exact haw a t (h w a t hl)
  · rw [upd_other _ _ _ _ hw] at hl
    rw [hp.other w hw]
    exact h w a t hl

theorem PlaceholderLast.cmdStep1 {s : Sys} (h : PlaceholderLast s) (i : Wid) :
    PlaceholderLast (cmdStep1With Rules.current s i) := by
  unfold cmdStep1With
  cases hq : s.cmdQ i with
  | nil => exact h
  | cons c rest =>
    simp only []
    have h0 : PlaceholderLast { s with cmdQ := upd s.cmdQ i rest } := h
    obtain ⟨evs, hp, haw, hev⟩ := cmd_push { s with cmdQ := upd s.cmdQ i rest } i c
    rcases hev with rfl | ⟨req, r, rfl⟩ | ⟨a, ts, hc, rfl, hwk⟩
    · exact h0.of_push hp haw (by intro e he; cases he)
    · exact h0.of_push hp haw (by intro e he a t; simp only [List.mem_singleton] at he; subst he; rfl)
    · intro w a' t hl
      rw [hp.evtQ] at hl
      by_cases hw : w = i
      · subst hw
        rw [upd_same, lastSome_append_single] at hl
        cases hm : mention a' t (Evt.procResults a (queryTargets (s.wk w) a ts).2) with
        | none =>
          rw [show mention a' t (Evt.procResults a (queryTargets (({ s with cmdQ := upd s.cmdQ w rest } : Sys).wk w) a ts).2) = none from hm] at hl
          exact haw a' t (h0 w a' t hl)
        | some o =>
          rw [show mention a' t (Evt.procResults a (queryTargets (({ s with cmdQ := upd s.cmdQ w rest } : Sys).wk w) a ts).2) = some o from hm] at hl
          simp only [Option.some.injEq] at hl
          subst hl
          simp only [mention] at hm
          split at hm
          · rename_i haa; subst haa
            rw [hwk]
            exact queryTargets_none_registered _ ts _ t hm
          · cases hm
      · rw [upd_other _ _ _ _ hw] at hl
        rw [hp.other w hw]
        exact h0 w a' t hl

theorem PlaceholderLast.envStep1 {s : Sys} (h : PlaceholderLast s) (w0 : Wid) :
    PlaceholderLast (envStep1With mergeAnswer s w0) := by
  unfold envStep1With
  cases hq : s.evtQ w0 with
  | nil => exact h
  | cons e rest =>
    simp only []
    have eff := envEff s w0 e rest
    intro w a t hl
    rw [eff.wk]
    apply h w a t
    rw [eff.evtQ] at hl
    by_cases hw : w = w0
    · subst hw; rw [upd_same] at hl; rw [hq]; exact lastSome_tail _ _ _ _ hl
    · rw [upd_other _ _ _ _ hw] at hl; exact hl

theorem PlaceholderLast.reportTarget {s : Sys} (h : PlaceholderLast s) (i : Wid) (t0 : Pid) :
    PlaceholderLast (reportTarget s i t0) := by
  obtain ⟨_, _, _, _, _, _, h7, h8, h9⟩ := reportTarget_explicit s i t0
  intro w a t hl
  by_cases hw : w = i
  · subst hw
    rw [h9] at hl
    rw [h8]
    cases hr : (s.wk w).resultOf t0 with
    | none => rw [hr] at hl; simp only []; exact h w a t hl
    | some r =>
      rw [hr] at hl
      simp only [] at hl ⊢
      by_cases ht : t = t0
      · subst ht
        by_cases hreg : a ∈ (s.wk w).awaitersFor t
        · -- the report just pushed is the last mention
          exfalso
          have : lastSome (mention a t) (s.evtQ w ++ ((s.wk w).awaitersFor t).map (fun a => Evt.procResults a [(t, some r)])) = some (some r) := by
            apply lastSome_append_all
            · intro e he
              obtain ⟨a1, _, rfl⟩ := List.mem_map.mp he
              simp only [mention]
              split
              · right; simp [alookup]
              · left; rfl
            · exact ⟨_, List.mem_map.mpr ⟨a, hreg, rfl⟩, by simp [mention, alookup]⟩
          rw [this] at hl; cases hl
        · exfalso
          rw [lastSome_append_none] at hl
          · exact hreg (h w a t hl)
          · intro e he
            obtain ⟨a1, ha1, rfl⟩ := List.mem_map.mp he
            simp only [mention]
            split
            · rename_i haa; subst haa; exact absurd ha1 hreg
            · rfl
      · rw [lastSome_append_none] at hl
        · rw [upd_other _ _ _ _ ht]; exact h w a t hl
        · intro e he
          obtain ⟨a1, _, rfl⟩ := List.mem_map.mp he
          simp only [mention]
          split
          · simp [alookup, Ne.symm ht]
          · rfl
  · rw [(h7 w hw).1]
    rw [(h7 w hw).2] at hl
    exact h w a t hl

theorem PlaceholderLast.answerRequests {s : Sys} (h : PlaceholderLast s) (i : Wid) (p : Pid) :
    PlaceholderLast (answerRequests s i p) := by
  obtain ⟨_, _, _, _, _, _, h7, h8, h9⟩ := answerRequests_explicit s i p
  intro w a t hl
  by_cases hw : w = i
  · subst hw
    rw [h9] at hl
    rw [h8]
    cases hr : (s.wk w).resultOf p with
    | none => rw [hr] at hl; simp only []; exact h w a t hl
    | some r =>
      rw [hr] at hl
      simp only [] at hl ⊢
      rw [lastSome_append_none] at hl
      · exact h w a t hl
      · intro e he
        obtain ⟨q, _, rfl⟩ := List.mem_map.mp he
        rfl
  · rw [(h7 w hw).1]
    rw [(h7 w hw).2] at hl
    exact h w a t hl

theorem PlaceholderLast.checkStep {s : Sys} (h : PlaceholderLast s) (i : Wid) (ordE : List Pid) :
    PlaceholderLast (checkStep s i ordE) := by
  unfold QM.Sys.checkStep
  apply foldl_invariant PlaceholderLast _ (fun a p ha => ha.answerRequests i p)
  exact foldl_invariant PlaceholderLast _ (fun a t ha => ha.reportTarget i t) _ _ h

end QM.Sys

namespace QM.Sys
variable [Cfg]

theorem noteExit_push (s : Sys) (i : Wid) (cur : Pid) (x : Proc) :
    ∃ evs, EvtPush s (s.noteExit i cur x) i evs ∧ (s.noteExit i cur x).wk = s.wk ∧ (evs = [] ∨ evs = [.exited cur]) := by
  unfold Sys.noteExit
  split
  · exact ⟨[.exited cur], ⟨by simp [Sys.pushEvt], fun _ _ => rfl⟩, rfl, Or.inr rfl⟩
  · exact ⟨[], EvtPush.of_same rfl (fun _ _ => rfl), rfl, Or.inl rfl⟩

/-- what one executor step appends to the worker's event queue: at most one action event (an AwaitAction
only as the outcome `awaitInit` of the running process's slice), then possibly a ProcessExited -/
theorem exec_push (s : Sys) (i : Wid) (fuel : Nat) (ordQ : List Pid) :
    ∃ evs, EvtPush s (execStep s i fuel ordQ) i evs ∧
      (∀ e ∈ evs, ∀ a rs, e ≠ .procResults a rs) ∧
      ((∀ e ∈ evs, ∀ a ts, e ≠ .await a ts) ∨
        ∃ cur ts x x', evs = [.await cur ts] ∧ (s.wk i).procs cur = some x ∧
          slice s.prog s.now cur fuel x = (x', .awaitInit ts) ∧
          ((execStep s i fuel ordQ).wk i).procs = upd (s.wk i).procs cur (some x')) := by
  unfold QM.Sys.execStep
  simp only []
  have hce_p : ((s.wk i).checkExpired s.prog s.now ordQ).procs = (s.wk i).procs := rfl
  split
  · exact ⟨[], EvtPush.of_same rfl (setWk_other _ _ _), (fun _ he => nomatch he), Or.inl (fun _ he => nomatch he)⟩
  · rename_i cur rest hq
    split
    · exact ⟨[], EvtPush.of_same rfl (setWk_other _ _ _), (fun _ he => nomatch he), Or.inl (fun _ he => nomatch he)⟩
    · rename_i x hx
      have hx0 : (s.wk i).procs cur = some x := hx
      split
      · obtain ⟨evs, hp, hwk, hev⟩ := noteExit_push (s.setWk i (({ (s.wk i).checkExpired s.prog s.now ordQ with queue := rest } : WorkerSt).finish cur x ordQ)) i cur x
        refine ⟨evs, ?_, ?_, Or.inl ?_⟩
        · have := (EvtPush.of_same (s := s) (s' := s.setWk i _) (i := i) rfl (setWk_other s i _)).trans hp
          simpa using this
        · intro e he a rs; rcases hev with rfl | rfl
          · cases he
          · simp only [List.mem_singleton] at he; subst he; intro h; cases h
        · intro e he a ts; rcases hev with rfl | rfl
          · cases he
          · simp only [List.mem_singleton] at he; subst he; intro h; cases h
      · cases hsl : slice s.prog s.now cur fuel x with
        | mk x' out =>
          simp only []
          cases out with
          | cont => exact ⟨[], EvtPush.of_same rfl (setWk_other _ _ _), (fun _ he => nomatch he), Or.inl (fun _ he => nomatch he)⟩
          | send t m =>
            refine ⟨[.deliver t m], ⟨by simp [Sys.pushEvt, Sys.setWk], fun k hk => by simp [Sys.pushEvt, Sys.setWk, upd_other _ _ _ _ hk]⟩, ?_, Or.inl ?_⟩
            · intro e he a rs; simp only [List.mem_singleton] at he; subst he; intro h; cases h
            · intro e he a ts; simp only [List.mem_singleton] at he; subst he; intro h; cases h
          | spawn fn regs =>
            refine ⟨[.spawn cur fn regs none], ⟨by simp [Sys.pushEvt, Sys.setWk], fun k hk => by simp [Sys.pushEvt, Sys.setWk, upd_other _ _ _ _ hk]⟩, ?_, Or.inl ?_⟩
            · intro e he a rs; simp only [List.mem_singleton] at he; subst he; intro h; cases h
            · intro e he a ts; simp only [List.mem_singleton] at he; subst he; intro h; cases h
          | awaitInit ts =>
            refine ⟨[.await cur ts], ⟨by simp [Sys.pushEvt, Sys.setWk], fun k hk => by simp [Sys.pushEvt, Sys.setWk, upd_other _ _ _ _ hk]⟩, ?_, Or.inr ⟨cur, ts, x, x', rfl, hx0, hsl, ?_⟩⟩
            · intro e he a rs; simp only [List.mem_singleton] at he; subst he; intro h; cases h
            · simp [Sys.pushEvt, Sys.setWk, hce_p]
          | blocked => exact ⟨[], EvtPush.of_same rfl (setWk_other _ _ _), (fun _ he => nomatch he), Or.inl (fun _ he => nomatch he)⟩
          | failed =>
            obtain ⟨evs, hp, hwk, hev⟩ := noteExit_push (s.setWk i (({ (s.wk i).checkExpired s.prog s.now ordQ with queue := rest, procs := upd ((s.wk i).checkExpired s.prog s.now ordQ).procs cur (some x') } : WorkerSt).finish cur x' ordQ)) i cur x'
            refine ⟨evs, ?_, ?_, Or.inl ?_⟩
            · have := (EvtPush.of_same (s := s) (s' := s.setWk i _) (i := i) rfl (setWk_other s i _)).trans hp
              simpa using this
            · intro e he a rs; rcases hev with rfl | rfl
              · cases he
              · simp only [List.mem_singleton] at he; subst he; intro h; cases h
            · intro e he a ts; rcases hev with rfl | rfl
              · cases he
              · simp only [List.mem_singleton] at he; subst he; intro h; cases h
          | done =>
            obtain ⟨evs, hp, hwk, hev⟩ := noteExit_push (s.setWk i (({ (s.wk i).checkExpired s.prog s.now ordQ with queue := rest, procs := upd ((s.wk i).checkExpired s.prog s.now ordQ).procs cur (some x') } : WorkerSt).finish cur x' ordQ)) i cur x'
            refine ⟨evs, ?_, ?_, Or.inl ?_⟩
            · have := (EvtPush.of_same (s := s) (s' := s.setWk i _) (i := i) rfl (setWk_other s i _)).trans hp
              simpa using this
            · intro e he a rs; rcases hev with rfl | rfl
              · cases he
              · simp only [List.mem_singleton] at he; subst he; intro h; cases h
            · intro e he a ts; rcases hev with rfl | rfl
              · cases he
              · simp only [List.mem_singleton] at he; subst he; intro h; cases h

theorem PlaceholderLast.execStep {s : Sys} (h : PlaceholderLast s) (i : Wid) (fuel : Nat) (ordQ : List Pid) :
    PlaceholderLast (execStep s i fuel ordQ) := by
  obtain ⟨evs, hp, hno, _⟩ := exec_push s i fuel ordQ
  apply h.of_push hp
  · intro a t ha; rw [(ExecRel.execStep s i fuel ordQ).aw]; exact ha
  · intro e he a t
    cases e with
    | procResults a' rs => exact absurd rfl (hno _ he a' rs)
    | _ => rfl

theorem PlaceholderLast.micro {s : Sys} (h : PlaceholderLast s) (m : Micro) : PlaceholderLast (microStep Rules.current s m) := by
  cases m with
  | env w => exact h.envStep1 w
  | cmd i => exact h.cmdStep1 i
  | exec i fuel ordQ => exact h.execStep i fuel ordQ
  | check i ordE => exact h.checkStep i ordE
  | tick ms => exact h

end QM.Sys

namespace QM.Sys
variable [Cfg]

theorem ainsert_keys {β : Type} : ∀ (l : List (Nat × β)) (k : Nat) (v : β),
    (ainsert l k v).map (·.1) = if k ∈ l.map (·.1) then l.map (·.1) else l.map (·.1) ++ [k]
  | [], k, v => by simp [ainsert]
  | (k0, w) :: rest, k, v => by
    simp only [ainsert]
    by_cases h : k0 = k
    · subst h; simp
    · simp only [h, if_false, List.map_cons, ainsert_keys rest k v, List.mem_cons]
      have : ¬ k = k0 := fun e => h e.symm
      simp only [this, false_or]
      split <;> simp

theorem ainsert_keys_nodup {β : Type} (l : List (Nat × β)) (k : Nat) (v : β) (h : (l.map (·.1)).Nodup) :
    ((ainsert l k v).map (·.1)).Nodup := by
  rw [ainsert_keys]
  split
  · exact h
  · rename_i hk
    exact List.nodup_append.mpr ⟨h, by simp, by intro a ha b hb; simp only [List.mem_singleton] at hb; subst hb; intro e; subst e; exact hk ha⟩

theorem queryTargets_keys_nodup (a : Pid) : ∀ (ts : List Pid) (w : WorkerSt), ((queryTargets w a ts).2.map (·.1)).Nodup
  | [], w => by simp [queryTargets]
  | t :: rest, w => by
    unfold queryTargets
    cases w.completedStatus t with
    | some r => exact ainsert_keys_nodup _ _ _ (queryTargets_keys_nodup a rest w)
    | none => exact ainsert_keys_nodup _ _ _ (queryTargets_keys_nodup a rest _)

theorem EvtKeysNodup.of_push {s s' : Sys} {i : Wid} {evs : List Evt} (h : EvtKeysNodup s) (hp : EvtPush s s' i evs)
    (hnew : ∀ a rs, Evt.procResults a rs ∈ evs → (rs.map (·.1)).Nodup) : EvtKeysNodup s' := by
  intro w a rs hm
  rw [hp.evtQ] at hm
  by_cases hw : w = i
  · subst hw
    rw [upd_same] at hm
    rcases List.mem_append.mp hm with h1 | h1
    · exact h w a rs h1
    · exact hnew a rs h1
  · rw [upd_other _ _ _ _ hw] at hm
    exact h w a rs hm

theorem EvtKeysNodup.micro {s : Sys} (h : EvtKeysNodup s) (m : Micro) : EvtKeysNodup (microStep Rules.current s m) := by
  cases m with
  | env w0 =>
    simp only [microStep, Rules.current]
    unfold envStep1With
    cases hq : s.evtQ w0 with
    | nil => exact h
    | cons e rest =>
      simp only []
      have eff := envEff s w0 e rest
      intro w a rs hm
      rw [eff.evtQ] at hm
      by_cases hw : w = w0
      · subst hw; rw [upd_same] at hm; exact h w a rs (by rw [hq]; exact List.mem_cons_of_mem _ hm)
      · rw [upd_other _ _ _ _ hw] at hm; exact h w a rs hm
  | cmd i =>
    simp only [microStep]
    unfold cmdStep1With
    cases hq : s.cmdQ i with
    | nil => exact h
    | cons c rest =>
      simp only []
      have h0 : EvtKeysNodup { s with cmdQ := upd s.cmdQ i rest } := h
      obtain ⟨evs, hp, _, hev⟩ := cmd_push { s with cmdQ := upd s.cmdQ i rest } i c
      apply h0.of_push hp
      intro a rs hm
      rcases hev with rfl | ⟨req, r, rfl⟩ | ⟨a0, ts, _, rfl, _⟩
      · cases hm
      · simp at hm
      · simp only [List.mem_singleton, Evt.procResults.injEq] at hm
        obtain ⟨_, rfl⟩ := hm
        exact queryTargets_keys_nodup _ _ _
  | exec i fuel ordQ =>
    obtain ⟨evs, hp, hno, _⟩ := exec_push s i fuel ordQ
    exact h.of_push hp (fun a rs hm => absurd rfl (hno _ hm a rs))
  | check i ordE =>
    simp only [microStep]
    unfold QM.Sys.checkStep
    apply foldl_invariant EvtKeysNodup
    · intro s1 p h1
      obtain ⟨_, _, _, _, _, _, h7, _, h9⟩ := answerRequests_explicit s1 i p
      intro w a rs hm
      by_cases hw : w = i
      · subst hw
        rw [h9] at hm
        cases hr : (s1.wk w).resultOf p with
        | none => rw [hr] at hm; exact h1 w a rs hm
        | some r =>
          rw [hr] at hm
          rcases List.mem_append.mp hm with h2 | h2
          · exact h1 w a rs h2
          · obtain ⟨q, _, hq⟩ := List.mem_map.mp h2; cases hq
      · rw [(h7 w hw).2] at hm; exact h1 w a rs hm
    · apply foldl_invariant EvtKeysNodup
      · intro s1 t h1
        obtain ⟨_, _, _, _, _, _, h7, _, h9⟩ := reportTarget_explicit s1 i t
        intro w a rs hm
        by_cases hw : w = i
        · subst hw
          rw [h9] at hm
          cases hr : (s1.wk w).resultOf t with
          | none => rw [hr] at hm; exact h1 w a rs hm
          | some r =>
            rw [hr] at hm
            rcases List.mem_append.mp hm with h2 | h2
            · exact h1 w a rs h2
            · obtain ⟨q, _, hq⟩ := List.mem_map.mp h2
              simp only [Evt.procResults.injEq] at hq
              obtain ⟨_, rfl⟩ := hq
              simp
        · rw [(h7 w hw).2] at hm; exact h1 w a rs hm
      · exact h
  | tick ms => exact h

end QM.Sys

namespace QM.Sys
variable [Cfg]

/-! ## No leftover await keys: a process's `awaiting` map holds exactly keys of the select it is in -/

structure PK (prog : Prog) (x : Proc) : Prop where
  atSel : x.selInit = true → ∃ srcs, currentSelect prog x = some srcs
  idle : x.selInit = false → x.awaiting = []
  keys : ∀ srcs, x.selInit = true → currentSelect prog x = some srcs → ∀ kv ∈ x.awaiting, kv.1 ∈ selTargets x srcs

theorem selTargets_congr {x x' : Proc} (h3 : x'.regs = x.regs) : ∀ srcs, selTargets x' srcs = selTargets x srcs := by
  intro srcs; induction srcs with
  | nil => rfl
  | cons s rest ih => cases s <;> simp [selTargets, ih, Proc.reg, h3]

theorem PK.congr {prog : Prog} {x x' : Proc} (h : PK prog x) (h1 : x'.fn = x.fn) (h2 : x'.pc = x.pc) (h3 : x'.regs = x.regs)
    (h4 : x'.selInit = x.selInit) (h5 : x'.awaiting = x.awaiting) : PK prog x' := by
  have hc : currentSelect prog x' = currentSelect prog x := by simp [currentSelect, Proc.script, h1, h2]
  have hs : ∀ srcs, selTargets x' srcs = selTargets x srcs := by
    intro srcs; induction srcs with
    | nil => rfl
    | cons s rest ih => cases s <;> simp [selTargets, ih, Proc.reg, h3]
  exact ⟨(by rw [h4, hc]; exact h.atSel), (by rw [h4, h5]; exact h.idle), (by intro srcs; rw [h4, hc, h5, hs]; exact h.keys srcs)⟩

theorem PK.not_at_select {prog : Prog} {x : Proc} (h : PK prog x) (hn : currentSelect prog x = none) : x.selInit = false := by
  cases hs : x.selInit with
  | false => rfl
  | true => obtain ⟨srcs, h1⟩ := h.atSel hs; rw [hn] at h1; cases h1

theorem PK.of_idle {prog : Prog} {x : Proc} (h1 : x.selInit = false) (h2 : x.awaiting = []) : PK prog x :=
  ⟨(by intro h; rw [h1] at h; cases h), fun _ => h2, (by intro _ h; rw [h1] at h; cases h)⟩

theorem mem_foldl_ainsert_none (ts : List Pid) : ∀ (l : List (Pid × Option Val)) (kv : Pid × Option Val),
    kv ∈ ts.foldl (fun a t => ainsert a t none) l → kv.1 ∈ l.map (·.1) ∨ kv.1 ∈ ts := by
  induction ts with
  | nil => intro l kv h; exact Or.inl (List.mem_map.mpr ⟨kv, h, rfl⟩)
  | cons t0 rest ih =>
    intro l kv h
    simp only [List.foldl_cons] at h
    rcases ih _ kv h with h1 | h1
    · rw [ainsert_keys] at h1
      split at h1
      · exact Or.inl h1
      · rcases List.mem_append.mp h1 with h2 | h2
        · exact Or.inl h2
        · simp only [List.mem_singleton] at h2; exact Or.inr (by simp [h2])
    · exact Or.inr (List.mem_cons_of_mem _ h1)

theorem filter_keys_nil (l : List (Pid × Option Val)) (ts : List Pid) (h : ∀ kv ∈ l, kv.1 ∈ ts) :
    l.filter (fun kv => kv.1 ∉ ts) = [] := by
  apply List.filter_eq_nil_iff.mpr
  intro kv hkv; simp [h kv hkv]

/-- **A time slice keeps `PK`**; a slice that parks in `spawning` is not inside a select; the keys after an
`awaitInit` are exactly the targets named in the AwaitAction. -/
theorem slice_PK (prog : Prog) (now : Nat) (self : Pid) : ∀ (fuel : Nat) (p : Proc) (res : Proc × Outcome),
    slice prog now self fuel p = res → PK prog p →
    PK prog res.1 ∧ (∀ fn regs, res.2 = .spawn fn regs → res.1.selInit = false) ∧
      (∀ ts, res.2 = .awaitInit ts → ∀ kv ∈ res.1.awaiting, kv.1 ∈ ts)
  | 0, p, res, hres, hp => by
    simp only [slice] at hres; subst hres
    exact ⟨hp, (by intro _ _ h; cases h), (by intro _ h; cases h)⟩
  | fuel + 1, p, res, hres, hp => by
    unfold slice at hres
    split at hres
    · subst hres; exact ⟨hp, (by intro _ _ h; cases h), (by intro _ h; cases h)⟩
    · rename_i r tag seq hi
      subst hres
      have hn : currentSelect prog p = none := by simp [currentSelect, hi]
      have h0 := hp.not_at_select hn
      exact ⟨PK.of_idle h0 (hp.idle h0), (by intro _ _ h; cases h), (by intro _ h; cases h)⟩
    · rename_i fn pass hi
      have hn : currentSelect prog p = none := by simp [currentSelect, hi]
      have h0 := hp.not_at_select hn
      split at hres
      · subst hres; exact ⟨hp.congr rfl rfl rfl rfl rfl, (by intro _ _ h; cases h), (by intro _ h; cases h)⟩
      · subst hres; exact ⟨hp.congr rfl rfl rfl rfl rfl, (by intro _ _ _; exact h0), (by intro _ h; cases h)⟩
    · subst hres; exact ⟨hp.congr rfl rfl rfl rfl rfl, (by intro _ _ h; cases h), (by intro _ h; cases h)⟩
    · rename_i srcs hi
      have hcs : currentSelect prog p = some srcs := by simp [currentSelect, hi]
      split at hres
      · -- initialize_select
        rename_i hinit
        have h0 : p.selInit = false := by simpa using hinit
        have hidle := hp.idle h0
        simp only [] at hres
        split at hres
        · apply slice_PK prog now self fuel _ res hres
          refine ⟨fun _ => ⟨srcs, by simpa [currentSelect, Proc.script] using hcs⟩, (by intro h; cases h), ?_⟩
          intro _ _ _ kv hkv
          rw [show ({ p with selInit := true, selStart := some now } : Proc).awaiting = p.awaiting from rfl, hidle] at hkv
          cases hkv
        · subst hres
          have hkeys : ∀ kv ∈ (selTargets p srcs).foldl (fun a t => ainsert a t none) p.awaiting, kv.1 ∈ selTargets p srcs := by
            intro kv hkv
            rcases mem_foldl_ainsert_none _ _ kv hkv with h1 | h1
            · rw [hidle] at h1; cases h1
            · exact h1
          refine ⟨⟨fun _ => ⟨srcs, by simpa [currentSelect, Proc.script] using hcs⟩, (by intro h; cases h), ?_⟩,
            (by intro _ _ h; cases h), ?_⟩
          · intro srcs' _ hc' kv hkv
            have : currentSelect prog p = some srcs' := by simpa [currentSelect, Proc.script] using hc'
            rw [hcs] at this; cases this
            have := hkeys kv hkv
            show kv.1 ∈ selTargets (_ : Proc) srcs
            rw [selTargets_congr (x := p) (by rfl) srcs]; exact this
          · intro ts h kv hkv
            simp only [Outcome.awaitInit.injEq] at h; subst h
            exact hkeys kv hkv
      · rename_i hinit
        have h1 : p.selInit = true := by simpa using hinit
        split at hres
        · subst hres; exact ⟨hp, (by intro _ _ h; cases h), (by intro _ h; cases h)⟩
        simp only [] at hres
        split at hres
        · rename_i v mb _
          apply slice_PK prog now self fuel _ res hres
          apply PK.of_idle rfl
          exact filter_keys_nil _ _ (hp.keys srcs h1 hcs)
        · subst hres; exact ⟨hp.congr rfl rfl rfl rfl rfl, (by intro _ _ h; cases h), (by intro _ h; cases h)⟩
        · subst hres; exact ⟨hp.congr rfl rfl rfl rfl rfl, (by intro _ _ h; cases h), (by intro _ h; cases h)⟩

end QM.Sys

namespace QM.Sys
variable [Cfg]

/-- `x'` is `x` with (possibly) values stored under EXISTING await keys and other bookkeeping changed; control
state, registers and select state are the same -/
structure SameSel (x x' : Proc) : Prop where
  fn : x'.fn = x.fn
  pc : x'.pc = x.pc
  regs : x'.regs = x.regs
  sel : x'.selInit = x.selInit
  keys : ∀ kv ∈ x'.awaiting, kv.1 ∈ x.awaiting.map (·.1)
  /-- a result is only ever set, never taken back -/
  res : x'.result = none → x.result = none

theorem SameSel.refl (x : Proc) : SameSel x x := ⟨rfl, rfl, rfl, rfl, fun kv h => List.mem_map.mpr ⟨kv, h, rfl⟩, id⟩

theorem SameSel.trans {a b c : Proc} (h1 : SameSel a b) (h2 : SameSel b c) : SameSel a c := by
  refine ⟨h2.fn.trans h1.fn, h2.pc.trans h1.pc, h2.regs.trans h1.regs, h2.sel.trans h1.sel, ?_, fun h => h1.res (h2.res h)⟩
  intro kv hkv
  obtain ⟨kv1, h3, h4⟩ := List.mem_map.mp (h2.keys kv hkv)
  rw [← h4]; exact h1.keys kv1 h3

theorem PK.sameSel {prog : Prog} {x x' : Proc} (h : PK prog x) (hs : SameSel x x') : PK prog x' := by
  have hc : currentSelect prog x' = currentSelect prog x := by simp [currentSelect, Proc.script, hs.fn, hs.pc]
  refine ⟨(by rw [hs.sel, hc]; exact h.atSel), ?_, ?_⟩
  · intro h0
    rw [hs.sel] at h0
    have := h.idle h0
    apply List.eq_nil_iff_forall_not_mem.mpr
    intro kv hkv
    have := hs.keys kv hkv
    simp_all
  · intro srcs h1 h2 kv hkv
    rw [hs.sel] at h1; rw [hc] at h2
    obtain ⟨kv1, h3, h4⟩ := List.mem_map.mp (hs.keys kv hkv)
    rw [selTargets_congr hs.regs, ← h4]
    exact h.keys srcs h1 h2 kv1 h3

theorem alookup_isSome_keys {β : Type} : ∀ (l : List (Nat × β)) (k : Nat), (alookup l k).isSome = true → k ∈ l.map (·.1)
  | [], k, h => by simp [alookup] at h
  | (k0, v) :: rest, k, h => by
    simp only [alookup] at h
    split at h
    · rename_i hk; simp [hk]
    · simp [alookup_isSome_keys rest k h]

theorem notifyResult_sameSel (w : WorkerSt) (a t : Pid) (r : Res) (b : Pid) (y : Proc) (hy : w.procs b = some y) :
    ∃ y', (w.notifyResult a t r).procs b = some y' ∧ SameSel y y' := by
  by_cases hb : b = a
  · subst hb
    cases r with
    | ok v =>
      simp only [WorkerSt.notifyResult, WorkerSt.notifyResultOk, wakeSelecting_procs, WorkerSt.modProc, hy]
      by_cases hs : y.stillAwaiting t = true
      · refine ⟨{ y with awaiting := ainsert y.awaiting t (some v), unanswered := y.unanswered.filter (· ≠ t) }, by simp [hs],
          rfl, rfl, rfl, rfl, ?_, id⟩
        intro kv hkv
        have hk : kv.1 ∈ (ainsert y.awaiting t (some v)).map (·.1) := List.mem_map.mpr ⟨kv, hkv, rfl⟩
        rw [ainsert_keys] at hk
        have ht : t ∈ y.awaiting.map (·.1) := by
          apply alookup_isSome_keys
          simp only [Proc.stillAwaiting, Bool.and_eq_true] at hs
          exact hs.2
        simpa [ht] using hk
      · exact ⟨y, by simp [hs], SameSel.refl y⟩
    | err =>
      simp only [WorkerSt.notifyResult, WorkerSt.notifyFailure, hy]
      by_cases hs : y.stillAwaiting t = true
      · simp only [hs, if_true, wakeSelecting_procs, WorkerSt.modProc, hy]
        exact ⟨{ y with awaitFailed := sinsert y.awaitFailed t, unanswered := y.unanswered.filter (· ≠ t) }, by simp,
          rfl, rfl, rfl, rfl, fun kv h => List.mem_map.mpr ⟨kv, h, rfl⟩, id⟩
      · have hs' : y.stillAwaiting t = false := by simpa using hs
        simp only [hs']
        exact ⟨y, by simpa using hy, SameSel.refl y⟩
  · exact ⟨y, by rw [notifyResult_other _ _ _ _ _ hb]; exact hy, SameSel.refl y⟩

theorem notifyPending_sameSel (w : WorkerSt) (a t : Pid) (b : Pid) (y : Proc) (hy : w.procs b = some y) :
    ∃ y', (w.notifyPending a t).procs b = some y' ∧ SameSel y y' := by
  by_cases hb : b = a
  · subst hb
    exact ⟨{ y with unanswered := y.unanswered.filter (· ≠ t) }, by simp [WorkerSt.notifyPending, WorkerSt.modProc, hy],
      rfl, rfl, rfl, rfl, fun kv h => List.mem_map.mpr ⟨kv, h, rfl⟩, id⟩
  · exact ⟨y, by simp [WorkerSt.notifyPending, modProc_other _ _ _ _ hb, hy], SameSel.refl y⟩

theorem applyResults_sameSel (a : Pid) : ∀ (rs : Results) (w : WorkerSt) (b : Pid) (y : Proc), w.procs b = some y →
    ∃ y', (applyResults w a rs).procs b = some y' ∧ SameSel y y'
  | [], w, b, y, hy => ⟨y, hy, SameSel.refl y⟩
  | (t0, none) :: rest, w, b, y, hy => by
    obtain ⟨y1, g1, g2⟩ := notifyPending_sameSel w a t0 b y hy
    obtain ⟨y', h1, h2⟩ := applyResults_sameSel a rest _ b y1 g1
    exact ⟨y', by simpa [applyResults] using h1, g2.trans h2⟩
  | (t0, some r) :: rest, w, b, y, hy => by
    obtain ⟨y1, g1, g2⟩ := notifyResult_sameSel w a t0 r b y hy
    obtain ⟨y', h1, h2⟩ := applyResults_sameSel a rest _ b y1 g1
    exact ⟨y', by simpa [applyResults] using h1, g2.trans h2⟩

theorem fold_notify_sameSel (cur : Pid) (r : Res) : ∀ (l : List Pid) (w : WorkerSt) (b : Pid) (y : Proc),
    w.procs b = some y →
    ∃ y', (l.foldl (fun acc a => acc.notifyResult a cur r) w).procs b = some y' ∧ SameSel y y'
  | [], w, b, y, h => ⟨y, h, SameSel.refl y⟩
  | a :: l, w, b, y, h => by
    simp only [List.foldl_cons]
    obtain ⟨y1, g1, g2⟩ := notifyResult_sameSel w a cur r b y h
    obtain ⟨y', h1, h2⟩ := fold_notify_sameSel cur r l _ b y1 g1
    exact ⟨y', h1, g2.trans h2⟩

end QM.Sys

namespace QM.Sys
variable [Cfg]

/-- **No leftover await keys, system level**: every process record satisfies `PK`, and a process parked in
`spawning` is not inside a select -/
structure PKInv (s : Sys) : Prop where
  pk : ∀ w p x, (s.wk w).procs p = some x → PK s.prog x
  sp : ∀ w p x, (s.wk w).procs p = some x → p ∈ (s.wk w).spawning → x.selInit = false

/-- a step of worker `i`: every record afterwards is a `SameSel` image of an old one, or `PK` with nothing in
`spawning` that is inside a select -/
theorem PKInv.step {s s' : Sys} (h : PKInv s) (i : Wid) (hprog : s'.prog = s.prog) (hother : ∀ k, k ≠ i → s'.wk k = s.wk k)
    (hp : ∀ p x', (s'.wk i).procs p = some x' →
      (∃ x, (s.wk i).procs p = some x ∧ SameSel x x' ∧ (p ∈ (s'.wk i).spawning → p ∈ (s.wk i).spawning)) ∨
      (PK s.prog x' ∧ (p ∈ (s'.wk i).spawning → x'.selInit = false))) : PKInv s' := by
  constructor
  · intro w p x' hx
    rw [hprog]
    by_cases hw : w = i
    · subst hw
      rcases hp p x' hx with ⟨x, h1, h2, _⟩ | ⟨h1, _⟩
      · exact (h.pk w p x h1).sameSel h2
      · exact h1
    · rw [hother w hw] at hx; exact h.pk w p x' hx
  · intro w p x' hx hsp
    by_cases hw : w = i
    · subst hw
      rcases hp p x' hx with ⟨x, h1, h2, h3⟩ | ⟨_, h3⟩
      · rw [h2.sel]; exact h.sp w p x h1 (h3 hsp)
      · exact h3 hsp
    · rw [hother w hw] at hx hsp; exact h.sp w p x' hx hsp

theorem spair_notify {s : Sys} (hp : SPair s) {i : Wid} {caller np : Pid} {rest : List Cmd}
    (hq : s.cmdQ i = .notifySpawn caller np :: rest) : caller ∈ (s.wk i).spawning := by
  have := hp i caller
  rw [hq] at this
  simp only [List.countP_cons, isNotify, decide_true, if_true] at this
  by_cases h : caller ∈ (s.wk i).spawning
  · exact h
  · simp only [h, if_false] at this; omega

theorem PKInv.cmdStep1 {s : Sys} (hr : RInv s) (hw : WInv s) (h : PKInv s) (i : Wid) :
    PKInv (cmdStep1With Rules.current s i) := by
  unfold cmdStep1With
  cases hq : s.cmdQ i with
  | nil => exact h
  | cons c rest =>
    simp only []
    have hprog : (handleCmdWith Rules.current { s with cmdQ := upd s.cmdQ i rest } i c).prog = s.prog :=
      (handleCmd_frame Rules.current _ i c).2.2.1
    have hcmem : c ∈ s.cmdQ i := by rw [hq]; simp
    obtain ⟨evs, hpush, _, _⟩ := cmd_push { s with cmdQ := upd s.cmdQ i rest } i c
    apply h.step i hprog hpush.other
    have same : ∀ (sp' : List Pid) p x', (s.wk i).procs p = some x' → (∀ q, q ∈ sp' → q ∈ (s.wk i).spawning) →
        (∃ x, (s.wk i).procs p = some x ∧ SameSel x x' ∧ (p ∈ sp' → p ∈ (s.wk i).spawning)) ∨
        (PK s.prog x' ∧ (p ∈ sp' → x'.selInit = false)) :=
      fun sp' p x' hx hsp => Or.inl ⟨x', hx, SameSel.refl x', hsp p⟩
    cases c with
    | misc => intro p x' hx; exact same _ p x' hx (fun _ hq' => hq')
    | start p =>
      intro q x' hx
      simp only [handleCmdWith, Sys.setWk, upd_same, WorkerSt.setProc] at hx ⊢
      by_cases hqp : q = p
      · subst hqp; simp only [upd_same, Option.some.injEq] at hx; subst hx
        exact Or.inr ⟨PK.of_idle rfl rfl, fun _ => rfl⟩
      · rw [upd_other _ _ _ _ hqp] at hx; exact same _ q x' hx (fun _ hq' => hq')
    | resume p fn => exact absurd (hr.cmds i _ hcmem) (by simp [CmdOK])
    | spawn p fn regs =>
      intro q x' hx
      simp only [handleCmdWith] at hx ⊢
      split at hx
      · rename_i hf; simp only [hf, if_true]; exact same _ q x' hx (fun _ hq' => hq')
      · rename_i hf
        simp only [hf, if_false, Sys.setWk, upd_same, WorkerSt.setProc] at hx ⊢
        by_cases hqp : q = p
        · subst hqp; simp only [upd_same, Option.some.injEq] at hx; subst hx
          exact Or.inr ⟨PK.of_idle rfl rfl, fun _ => rfl⟩
        · rw [upd_other _ _ _ _ hqp] at hx; exact same _ q x' hx (fun _ hq' => hq')
    | notifySpawn caller np =>
      have hsp : caller ∈ (s.wk i).spawning := spair_notify hw.pair hq
      intro q x' hx
      simp only [handleCmdWith] at hx ⊢
      cases hc : (s.wk i).procs caller with
      | none =>
        have hc' : (({ s with cmdQ := upd s.cmdQ i rest } : Sys).wk i).procs caller = none := hc
        simp only [hc, hc', Sys.setWk, upd_same] at hx ⊢
        exact same _ q x' hx (fun _ hq' => (mem_serase.mp hq').1)
      | some x =>
        have hc' : (({ s with cmdQ := upd s.cmdQ i rest } : Sys).wk i).procs caller = some x := hc
        have hsel : x.selInit = false := h.sp i caller x hc hsp
        have hidle : x.awaiting = [] := (h.pk i caller x hc).idle hsel
        simp only [hc, hc', Sys.setWk, upd_same] at hx ⊢
        have hprocs : ∀ (wq : WorkerSt), wq.procs = upd (s.wk i).procs caller (some { x with regs := x.regs ++ [np], pc := x.pc + 1, spawnIssued := false }) →
            wq.spawning = serase (s.wk i).spawning caller → wq.procs q = some x' →
            (∃ x0, (s.wk i).procs q = some x0 ∧ SameSel x0 x' ∧ (q ∈ wq.spawning → q ∈ (s.wk i).spawning)) ∨
            (PK s.prog x' ∧ (q ∈ wq.spawning → x'.selInit = false)) := by
          intro wq h1 h2 h3
          rw [h1] at h3; rw [h2]
          by_cases hqc : q = caller
          · subst hqc; simp only [upd_same, Option.some.injEq] at h3; subst h3
            exact Or.inr ⟨PK.of_idle hsel hidle, fun _ => hsel⟩
          · rw [upd_other _ _ _ _ hqc] at h3
            exact same _ q x' h3 (fun _ hq' => (mem_serase.mp hq').1)
        split at hx
        · rename_i hwas; simp only [hwas, if_true]; exact hprocs _ rfl rfl hx
        · rename_i hwas; simp only [hwas, if_false]; exact hprocs _ rfl rfl hx
    | deliver t m =>
      intro q x' hx
      simp only [handleCmdWith] at hx ⊢
      cases hc : (s.wk i).procs t with
      | none =>
        have hc' : (({ s with cmdQ := upd s.cmdQ i rest } : Sys).wk i).procs t = none := hc
        simp only [hc, hc', Sys.setWk, upd_same, wakeSelecting_procs, wakeSelecting_spawning] at hx ⊢
        exact same _ q x' hx (fun _ hq' => hq')
      | some x =>
        have hc' : (({ s with cmdQ := upd s.cmdQ i rest } : Sys).wk i).procs t = some x := hc
        simp only [hc, hc'] at hx ⊢
        split at hx
        · rename_i hd
          simp only [hd, if_true, Sys.setWk, upd_same, wakeSelecting_procs, wakeSelecting_spawning] at hx ⊢
          exact same _ q x' hx (fun _ hq' => hq')
        · rename_i hd
          simp only [hd, if_false, Bool.false_eq_true, ↓reduceIte, Sys.setWk, upd_same, wakeSelecting_procs, wakeSelecting_spawning] at hx ⊢
          by_cases hqt : q = t
          · subst hqt; simp only [upd_same, Option.some.injEq] at hx; subst hx
            exact Or.inl ⟨x, hc, ⟨rfl, rfl, rfl, rfl, fun kv hkv => List.mem_map.mpr ⟨kv, hkv, rfl⟩, id⟩, fun hq' => hq'⟩
          · rw [upd_other _ _ _ _ hqt] at hx; exact same _ q x' hx (fun _ hq' => hq')
    | queryAwait a ts =>
      intro q x' hx
      simp only [handleCmdWith, Sys.setWk, Sys.pushEvt, upd_same] at hx ⊢
      rw [(queryTargets_frame a ts _).1] at hx
      rw [(queryTargets_frame a ts _).2.2.1]
      exact same _ q x' hx (fun _ hq' => hq')
    | updateAwait a rs =>
      intro q x' hx
      simp only [handleCmdWith, Rules.current, Bool.false_and, Bool.false_eq_true, if_false, Sys.setWk, upd_same,
        wakeSelecting_procs, wakeSelecting_spawning] at hx ⊢
      rw [applyResults_spawning]
      cases hp0 : (s.wk i).procs q with
      | none =>
        have := (SameProcs.applyResults a rs (s.wk i)).dom q
        rw [hp0] at this
        have h2 : ((applyResults (s.wk i) a rs).procs q).isSome = true := by
          show ((applyResults (({ s with cmdQ := upd s.cmdQ i rest } : Sys).wk i) a rs).procs q).isSome = true
          rw [hx]; rfl
        rw [h2] at this; cases this
      | some x0 =>
        obtain ⟨y', e1, e2⟩ := applyResults_sameSel a rs (s.wk i) q x0 hp0
        have : (applyResults (({ s with cmdQ := upd s.cmdQ i rest } : Sys).wk i) a rs).procs q = some y' := e1
        rw [this] at hx; simp only [Option.some.injEq] at hx; subst hx
        exact Or.inl ⟨x0, rfl, e2, fun hq' => hq'⟩
    | getResult req p =>
      intro q x' hx
      simp only [handleCmdWith] at hx ⊢
      cases hc : (s.wk i).procs p with
      | none =>
        have hc' : (({ s with cmdQ := upd s.cmdQ i rest } : Sys).wk i).procs p = none := hc
        simp only [hc, hc'] at hx ⊢
        exact same _ q x' hx (fun _ hq' => hq')
      | some x =>
        have hc' : (({ s with cmdQ := upd s.cmdQ i rest } : Sys).wk i).procs p = some x := hc
        simp only [hc, hc'] at hx ⊢
        cases hres : x.result with
        | some r => simp only [hres] at hx ⊢; exact same _ q x' hx (fun _ hq' => hq')
        | none =>
          simp only [hres, Sys.setWk, upd_same] at hx ⊢
          exact same _ q x' hx (fun _ hq' => hq')

end QM.Sys

namespace QM.Sys
variable [Cfg]

theorem release_cur_sel (w : WorkerSt) (cur : Pid) (y' : Proc) (hy : (w.release cur).procs cur = some y') :
    ∃ y, w.procs cur = some y ∧ (SameSel y y' ∨ (y'.selInit = false ∧ y'.awaiting = [])) := by
  unfold WorkerSt.release at hy; split at hy
  · unfold WorkerSt.modProc at hy; split at hy
    · rename_i y hy0
      simp only [upd_same, Option.some.injEq] at hy; subst hy
      refine ⟨y, hy0, ?_⟩
      unfold Proc.releaseDead; split
      · exact Or.inl (SameSel.refl y)
      · exact Or.inr ⟨rfl, rfl⟩
    · exact ⟨y', hy, Or.inl (SameSel.refl y')⟩
  · exact ⟨y', hy, Or.inl (SameSel.refl y')⟩

/-- the records after `finish`: a `SameSel` image of the record before (for the finishing process: of `x`), or released -/
theorem finish_sel (w : WorkerSt) (cur : Pid) (x : Proc) (ordQ : List Pid) (b : Pid) (y' : Proc)
    (hy : (w.finish cur x ordQ).procs b = some y') :
    (y'.selInit = false ∧ y'.awaiting = []) ∨ (b = cur ∧ SameSel x y') ∨ (b ≠ cur ∧ ∃ y, w.procs b = some y ∧ SameSel y y') := by
  unfold WorkerSt.finish at hy
  simp only [] at hy
  by_cases hb : b = cur
  · subst hb
    obtain ⟨y1, h1, h2⟩ := release_cur_sel _ b y' hy
    obtain ⟨y2, g1, g2⟩ := fold_notify_sameSel b x.finalRes _
      { w with procs := upd w.procs b (some { x with result := some x.finalRes }) } b
      { x with result := some x.finalRes } (by simp)
    rw [h1] at g1; simp only [Option.some.injEq] at g1; subst g1
    rcases h2 with h2 | h2
    · have h0 : SameSel x { x with result := some x.finalRes } := ⟨rfl, rfl, rfl, rfl, fun kv hkv => List.mem_map.mpr ⟨kv, hkv, rfl⟩, fun h => by cases h⟩
      exact Or.inr (Or.inl ⟨rfl, (h0.trans g2).trans h2⟩)
    · exact Or.inl h2
  · rw [release_other _ _ _ hb] at hy
    cases hw : w.procs b with
    | none =>
      have := fold_notify_dom cur x.finalRes (orderBy ordQ (WorkerSt.localAwaiters
        { w with procs := upd w.procs cur (some { x with result := some x.finalRes }) } cur))
        { w with procs := upd w.procs cur (some { x with result := some x.finalRes }) } b
      rw [hy] at this
      simp [upd_other _ _ _ _ hb, hw] at this
    | some y =>
      obtain ⟨y1, h1, h2⟩ := fold_notify_sameSel cur x.finalRes _
        { w with procs := upd w.procs cur (some { x with result := some x.finalRes }) } b y
        (by simp [upd_other _ _ _ _ hb, hw])
      rw [hy] at h1; simp only [Option.some.injEq] at h1; subst h1
      exact Or.inr (Or.inr ⟨hb, y, rfl, h2⟩)

end QM.Sys

namespace QM.Sys
variable [Cfg]

theorem PKInv.execStep {s : Sys} (hw : WInv s) (h : PKInv s) (i : Wid) (fuel : Nat) (ordQ : List Pid) :
    PKInv (execStep s i fuel ordQ) := by
  have hfr := execStep_frame s i fuel ordQ
  apply h.step i hfr.2.2.1 (fun k hk => (hfr.2.2.2.2.2.2 k hk).1)
  have hsched : WSched ((s.wk i).checkExpired s.prog s.now ordQ) := (hw.si.sched i).checkExpired _ _ _
  have same : ∀ (sp' : List Pid) p x', (s.wk i).procs p = some x' → (∀ q, q ∈ sp' → q ∈ (s.wk i).spawning) →
      (∃ x, (s.wk i).procs p = some x ∧ SameSel x x' ∧ (p ∈ sp' → p ∈ (s.wk i).spawning)) ∨
      (PK s.prog x' ∧ (p ∈ sp' → x'.selInit = false)) :=
    fun sp' p x' hx hsp => Or.inl ⟨x', hx, SameSel.refl x', hsp p⟩
  unfold QM.Sys.execStep
  simp only []
  have hce_p : ((s.wk i).checkExpired s.prog s.now ordQ).procs = (s.wk i).procs := rfl
  have hce_s : ((s.wk i).checkExpired s.prog s.now ordQ).spawning = (s.wk i).spawning := rfl
  split
  · intro p x' hx
    simp only [Sys.setWk, upd_same, hce_p, hce_s] at hx ⊢
    exact same _ p x' hx (fun _ hq' => hq')
  · rename_i cur rest hq
    have hcur : cur ∉ (s.wk i).spawning := by
      have := (hsched.dqs cur (by rw [hq]; simp)).1
      rwa [hce_s] at this
    split
    · intro p x' hx
      simp only [Sys.setWk, upd_same, hce_p, hce_s] at hx ⊢
      exact same _ p x' hx (fun _ hq' => hq')
    · rename_i x hx
      have hx0 : (s.wk i).procs cur = some x := hx
      have hfin : ∀ (w1 : WorkerSt) (xf : Proc), w1.procs = upd (s.wk i).procs cur (some xf) → w1.spawning = (s.wk i).spawning →
          PK s.prog xf → ∀ (sf : Sys), sf.wk = upd s.wk i (w1.finish cur xf ordQ) →
          ∀ p x', (sf.wk i).procs p = some x' →
          (∃ x0, (s.wk i).procs p = some x0 ∧ SameSel x0 x' ∧ (p ∈ (sf.wk i).spawning → p ∈ (s.wk i).spawning)) ∨
          (PK s.prog x' ∧ (p ∈ (sf.wk i).spawning → x'.selInit = false)) := by
        intro w1 xf hp1 hs1 hpk sf hsf p x' hxp
        rw [hsf] at hxp ⊢
        simp only [upd_same, finish_spawning, hs1] at hxp ⊢
        rcases finish_sel w1 cur xf ordQ p x' hxp with ⟨h1, h2⟩ | ⟨rfl, h2⟩ | ⟨hne, y, h2, h3⟩
        · exact Or.inr ⟨PK.of_idle h1 h2, fun _ => h1⟩
        · exact Or.inr ⟨hpk.sameSel h2, fun hc => absurd hc hcur⟩
        · rw [hp1, upd_other _ _ _ _ hne] at h2
          exact Or.inl ⟨y, h2, h3, fun hq' => hq'⟩
      split
      · -- already failed
        apply hfin { (s.wk i).checkExpired s.prog s.now ordQ with queue := rest } x
        · funext q; by_cases hqc : q = cur
          · subst hqc; simp [hce_p, hx0]
          · simp [hce_p, upd_other _ _ _ _ hqc]
        · rfl
        · exact h.pk i cur x hx0
        · obtain ⟨_, _, hwk, _⟩ := noteExit_push (s.setWk i (({ (s.wk i).checkExpired s.prog s.now ordQ with queue := rest } : WorkerSt).finish cur x ordQ)) i cur x
          rw [hwk]; rfl
      · cases hsl : slice s.prog s.now cur fuel x with
        | mk x' out =>
          simp only []
          obtain ⟨hpk', hspn, _⟩ := slice_PK s.prog s.now cur fuel x _ hsl (h.pk i cur x hx0)
          simp only [] at hpk' hspn
          have hupd : ∀ (sp' : List Pid), (∀ q, q ∈ sp' → q ∈ (s.wk i).spawning ∨ (q = cur ∧ x'.selInit = false)) →
              ∀ p y', (upd (s.wk i).procs cur (some x')) p = some y' →
              (∃ x0, (s.wk i).procs p = some x0 ∧ SameSel x0 y' ∧ (p ∈ sp' → p ∈ (s.wk i).spawning)) ∨
              (PK s.prog y' ∧ (p ∈ sp' → y'.selInit = false)) := by
            intro sp' hsp' p y' hy
            by_cases hpc : p = cur
            · subst hpc; simp only [upd_same, Option.some.injEq] at hy; subst hy
              refine Or.inr ⟨hpk', fun hq' => ?_⟩
              rcases hsp' p hq' with h1 | ⟨_, h1⟩
              · exact absurd h1 hcur
              · exact h1
            · rw [upd_other _ _ _ _ hpc] at hy
              refine Or.inl ⟨y', hy, SameSel.refl y', fun hq' => ?_⟩
              rcases hsp' p hq' with h1 | ⟨h1, _⟩
              · exact h1
              · exact absurd h1 hpc
          cases out with
          | cont =>
            intro p y' hy
            simp only [Sys.setWk, upd_same, hce_p, hce_s] at hy ⊢
            exact hupd _ (fun q hq' => Or.inl hq') p y' hy
          | send t m =>
            intro p y' hy
            simp only [Sys.setWk, Sys.pushEvt, upd_same, hce_p, hce_s] at hy ⊢
            exact hupd _ (fun q hq' => Or.inl hq') p y' hy
          | spawn fn regs =>
            intro p y' hy
            simp only [Sys.setWk, Sys.pushEvt, upd_same, hce_p, hce_s] at hy ⊢
            apply hupd _ _ p y' hy
            intro q hq'
            rcases mem_sinsert.mp hq' with h1 | h1
            · exact Or.inl h1
            · exact Or.inr ⟨h1, hspn fn regs rfl⟩
          | awaitInit ts =>
            intro p y' hy
            simp only [Sys.setWk, Sys.pushEvt, upd_same, hce_p, hce_s] at hy ⊢
            exact hupd _ (fun q hq' => Or.inl hq') p y' hy
          | blocked =>
            intro p y' hy
            simp only [Sys.setWk, upd_same, hce_p, hce_s] at hy ⊢
            exact hupd _ (fun q hq' => Or.inl hq') p y' hy
          | failed =>
            apply hfin { (s.wk i).checkExpired s.prog s.now ordQ with queue := rest, procs := upd ((s.wk i).checkExpired s.prog s.now ordQ).procs cur (some x') } x'
            · rfl
            · rfl
            · exact hpk'
            · obtain ⟨_, _, hwk, _⟩ := noteExit_push (s.setWk i (({ (s.wk i).checkExpired s.prog s.now ordQ with queue := rest, procs := upd ((s.wk i).checkExpired s.prog s.now ordQ).procs cur (some x') } : WorkerSt).finish cur x' ordQ)) i cur x'
              rw [hwk]; rfl
          | done =>
            apply hfin { (s.wk i).checkExpired s.prog s.now ordQ with queue := rest, procs := upd ((s.wk i).checkExpired s.prog s.now ordQ).procs cur (some x') } x'
            · rfl
            · rfl
            · exact hpk'
            · obtain ⟨_, _, hwk, _⟩ := noteExit_push (s.setWk i (({ (s.wk i).checkExpired s.prog s.now ordQ with queue := rest, procs := upd ((s.wk i).checkExpired s.prog s.now ordQ).procs cur (some x') } : WorkerSt).finish cur x' ordQ)) i cur x'
              rw [hwk]; rfl

end QM.Sys

namespace QM.Sys
variable [Cfg]

theorem PKInv.sameWk {s s' : Sys} (h : PKInv s) (i : Wid) (hprog : s'.prog = s.prog) (hother : ∀ k, k ≠ i → s'.wk k = s.wk k)
    (hp : (s'.wk i).procs = (s.wk i).procs) (hs : (s'.wk i).spawning = (s.wk i).spawning) : PKInv s' := by
  apply h.step i hprog hother
  intro p x' hx
  rw [hp] at hx; rw [hs]
  exact Or.inl ⟨x', hx, SameSel.refl x', fun hq => hq⟩

theorem PKInv.reportTarget {s : Sys} (h : PKInv s) (i : Wid) (t : Pid) : PKInv (reportTarget s i t) := by
  obtain ⟨_, _, h3, _, _, _, h7, h8, _⟩ := reportTarget_explicit s i t
  apply h.sameWk i h3 (fun k hk => (h7 k hk).1)
  · rw [h8]; split <;> rfl
  · rw [h8]; split <;> rfl

theorem PKInv.answerRequests {s : Sys} (h : PKInv s) (i : Wid) (p : Pid) : PKInv (answerRequests s i p) := by
  obtain ⟨_, _, h3, _, _, _, h7, h8, _⟩ := answerRequests_explicit s i p
  apply h.sameWk i h3 (fun k hk => (h7 k hk).1)
  · rw [h8]; split <;> rfl
  · rw [h8]; split <;> rfl

theorem envStep1_prog' (combine) (s : Sys) (w : Wid) : (envStep1With combine s w).prog = s.prog := by
  unfold envStep1With
  split
  · rfl
  · rename_i e rest _
    cases e with
    | spawn c fn regs coloc => simp only [handleEventWith, handleSpawn]; split <;> rfl
    | deliver t m => simp only [handleEventWith, handleDeliver]; split <;> rfl
    | await a ts =>
      simp only [handleEventWith, handleAwait]
      split
      · rfl
      · exact (foldPush_spec _ _ _).2.2.2.1
    | procResults a rs =>
      simp only [handleEventWith, handleProcResultsWith]
      repeat' split
      all_goals rfl
    | resultResp req r => rfl
    | exited p => rfl

theorem PKInv.micro {s : Sys} (hr : RInv s) (hw : WInv s) (h : PKInv s) (m : Micro) : PKInv (microStep Rules.current s m) := by
  cases m with
  | env w0 =>
    simp only [microStep, Rules.current]
    have hprog := envStep1_prog' mergeAnswer s w0
    unfold envStep1With at hprog ⊢
    cases hq : s.evtQ w0 with
    | nil => exact h
    | cons e rest =>
      rw [hq] at hprog
      simp only [] at hprog ⊢
      have eff := envEff s w0 e rest
      exact ⟨by rw [eff.wk, hprog]; exact h.pk, by rw [eff.wk]; exact h.sp⟩
  | cmd i => exact h.cmdStep1 hr hw i
  | exec i fuel ordQ => exact h.execStep hw i fuel ordQ
  | check i ordE =>
    simp only [microStep]
    unfold QM.Sys.checkStep
    apply foldl_invariant PKInv _ (fun a p ha => ha.answerRequests i p)
    exact foldl_invariant PKInv _ (fun a t ha => ha.reportTarget i t) _ _ h
  | tick ms => exact ⟨h.pk, h.sp⟩

theorem PKInv.of_started {s : Sys} (h : Started s) : PKInv s := by
  have hp : ∀ w p x, (s.wk w).procs p = some x → x.selInit = false ∧ x.awaiting = [] := by
    intro w p x hx
    rw [h.wk] at hx
    by_cases hw : w = 0
    · subst hw
      simp only [upd_same, W0started, W0init, WorkerSt.setProc, WorkerSt.empty] at hx
      by_cases ha : p = 0
      · subst ha
        simp only [upd_same, Option.some.injEq] at hx
        subst hx
        simp [Proc.sleeping, Proc.fresh]
      · simp [upd_other _ _ _ _ ha] at hx
    · simp [upd_other _ _ _ _ hw, WorkerSt.empty] at hx
  exact ⟨fun w p x hx => PK.of_idle (hp w p x hx).1 (hp w p x hx).2, fun w p x hx _ => (hp w p x hx).1⟩

end QM.Sys

namespace QM.Sys
variable [Cfg]

theorem keys_alookup_isSome {β : Type} : ∀ (l : List (Nat × β)) (k : Nat), k ∈ l.map (·.1) → (alookup l k).isSome = true
  | [], k, h => by cases h
  | (k0, v) :: rest, k, h => by
    simp only [alookup]
    by_cases hk : k0 = k
    · simp [hk]
    · simp only [hk, if_false]
      apply keys_alookup_isSome rest k
      simp only [List.map_cons, List.mem_cons] at h
      rcases h with h | h
      · exact absurd h.symm hk
      · exact h

theorem SameSel.still {x x' : Proc} (h : SameSel x x') (t : Pid) (hs : x'.stillAwaiting t = true) : x.stillAwaiting t = true := by
  simp only [Proc.stillAwaiting, Bool.and_eq_true, Option.isNone_iff_eq_none] at hs ⊢
  refine ⟨h.res hs.1, ?_⟩
  obtain ⟨kv, h1, h2⟩ := List.mem_map.mp (alookup_isSome_keys _ _ hs.2)
  apply keys_alookup_isSome
  rw [← h2]; exact h.keys kv h1

/-- the process records after an executor step: an image (`SameSel`) of the record before, or a record without
await keys (released), or the result of the running process's time slice — and if that slice ended with
`awaitInit ts`, the AwaitAction is exactly what the step appended -/
theorem exec_records (s : Sys) (i : Wid) (fuel : Nat) (ordQ : List Pid) (p : Pid) (y' : Proc)
    (hy : ((execStep s i fuel ordQ).wk i).procs p = some y') :
    (∃ y, (s.wk i).procs p = some y ∧ SameSel y y') ∨ y'.awaiting = [] ∨
    (∃ x out, (s.wk i).procs p = some x ∧ slice s.prog s.now p fuel x = (y', out) ∧
      ∀ ts, out = .awaitInit ts → (execStep s i fuel ordQ).evtQ i = s.evtQ i ++ [.await p ts]) ∨
    (∃ x x1 out, (s.wk i).procs p = some x ∧ slice s.prog s.now p fuel x = (x1, out) ∧ (∀ ts, out ≠ .awaitInit ts) ∧ SameSel x1 y') := by
  unfold QM.Sys.execStep at hy
  simp only [] at hy
  have hce_p : ((s.wk i).checkExpired s.prog s.now ordQ).procs = (s.wk i).procs := rfl
  split at hy
  · simp only [Sys.setWk, upd_same, hce_p] at hy
    exact Or.inl ⟨y', hy, SameSel.refl y'⟩
  · rename_i cur rest hq
    split at hy
    · simp only [Sys.setWk, upd_same, hce_p] at hy
      exact Or.inl ⟨y', hy, SameSel.refl y'⟩
    · rename_i x hx
      have hx0 : (s.wk i).procs cur = some x := hx
      have hfin : ∀ (w1 : WorkerSt) (xf : Proc), w1.procs = upd (s.wk i).procs cur (some xf) →
          (w1.finish cur xf ordQ).procs p = some y' →
          (∃ y, (s.wk i).procs p = some y ∧ SameSel y y') ∨ y'.awaiting = [] ∨ (p = cur ∧ SameSel xf y') := by
        intro w1 xf hp1 hxp
        rcases finish_sel w1 cur xf ordQ p y' hxp with ⟨_, h2⟩ | ⟨rfl, h2⟩ | ⟨hne, y, h2, h3⟩
        · exact Or.inr (Or.inl h2)
        · exact Or.inr (Or.inr ⟨rfl, h2⟩)
        · rw [hp1, upd_other _ _ _ _ hne] at h2
          exact Or.inl ⟨y, h2, h3⟩
      split at hy
      · -- already failed
        rename_i hne
        obtain ⟨_, _, hwk, _⟩ := noteExit_push (s.setWk i (({ (s.wk i).checkExpired s.prog s.now ordQ with queue := rest } : WorkerSt).finish cur x ordQ)) i cur x
        rw [hwk] at hy
        simp only [Sys.setWk, upd_same] at hy
        rcases hfin { (s.wk i).checkExpired s.prog s.now ordQ with queue := rest } x (by
            funext q; by_cases hqc : q = cur
            · subst hqc; simp [hce_p, hx0]
            · simp [hce_p, upd_other _ _ _ _ hqc]) hy with h1 | h1 | ⟨rfl, h1⟩
        · exact Or.inl h1
        · exact Or.inr (Or.inl h1)
        · exact Or.inl ⟨x, hx0, h1⟩
      · rename_i hne
        cases hsl : slice s.prog s.now cur fuel x with
        | mk x' out =>
          rw [hsl] at hy
          simp only [] at hy
          have hupd : (upd (s.wk i).procs cur (some x')) p = some y' →
              (∃ y, (s.wk i).procs p = some y ∧ SameSel y y') ∨ (p = cur ∧ y' = x') := by
            intro hh
            by_cases hpc : p = cur
            · subst hpc; simp only [upd_same, Option.some.injEq] at hh; exact Or.inr ⟨rfl, hh.symm⟩
            · rw [upd_other _ _ _ _ hpc] at hh; exact Or.inl ⟨y', hh, SameSel.refl y'⟩
          cases out with
          | cont =>
            simp only [Sys.setWk, upd_same, hce_p] at hy
            rcases hupd hy with h1 | ⟨rfl, rfl⟩
            · exact Or.inl h1
            · exact Or.inr (Or.inr (Or.inl ⟨x, _, hx0, hsl, (by intro ts h; cases h)⟩))
          | send t m =>
            simp only [Sys.setWk, Sys.pushEvt, upd_same, hce_p] at hy
            rcases hupd hy with h1 | ⟨rfl, rfl⟩
            · exact Or.inl h1
            · exact Or.inr (Or.inr (Or.inl ⟨x, _, hx0, hsl, (by intro ts h; cases h)⟩))
          | spawn fn regs =>
            simp only [Sys.setWk, Sys.pushEvt, upd_same, hce_p] at hy
            rcases hupd hy with h1 | ⟨rfl, rfl⟩
            · exact Or.inl h1
            · exact Or.inr (Or.inr (Or.inl ⟨x, _, hx0, hsl, (by intro ts h; cases h)⟩))
          | awaitInit ts =>
            simp only [Sys.setWk, Sys.pushEvt, upd_same, hce_p] at hy
            rcases hupd hy with h1 | ⟨rfl, rfl⟩
            · exact Or.inl h1
            · refine Or.inr (Or.inr (Or.inl ⟨x, _, hx0, hsl, ?_⟩))
              intro ts' h
              simp only [Outcome.awaitInit.injEq] at h; subst h
              unfold QM.Sys.execStep
              simp [hq, hx, hne, hsl, Sys.setWk, Sys.pushEvt]
          | blocked =>
            simp only [Sys.setWk, upd_same, hce_p] at hy
            rcases hupd hy with h1 | ⟨rfl, rfl⟩
            · exact Or.inl h1
            · exact Or.inr (Or.inr (Or.inl ⟨x, _, hx0, hsl, (by intro ts h; cases h)⟩))
          | failed =>
            obtain ⟨_, _, hwk, _⟩ := noteExit_push (s.setWk i (({ (s.wk i).checkExpired s.prog s.now ordQ with queue := rest, procs := upd ((s.wk i).checkExpired s.prog s.now ordQ).procs cur (some x') } : WorkerSt).finish cur x' ordQ)) i cur x'
            rw [hwk] at hy
            simp only [Sys.setWk, upd_same] at hy
            rcases hfin _ x' rfl hy with h1 | h1 | ⟨rfl, h1⟩
            · exact Or.inl h1
            · exact Or.inr (Or.inl h1)
            · exact Or.inr (Or.inr (Or.inr ⟨x, x', _, hx0, hsl, (by intro ts h; cases h), h1⟩))
          | done =>
            obtain ⟨_, _, hwk, _⟩ := noteExit_push (s.setWk i (({ (s.wk i).checkExpired s.prog s.now ordQ with queue := rest, procs := upd ((s.wk i).checkExpired s.prog s.now ordQ).procs cur (some x') } : WorkerSt).finish cur x' ordQ)) i cur x'
            rw [hwk] at hy
            simp only [Sys.setWk, upd_same] at hy
            rcases hfin _ x' rfl hy with h1 | h1 | ⟨rfl, h1⟩
            · exact Or.inl h1
            · exact Or.inr (Or.inl h1)
            · exact Or.inr (Or.inr (Or.inr ⟨x, x', _, hx0, hsl, (by intro ts h; cases h), h1⟩))

end QM.Sys

namespace QM.Sys
variable [Cfg]

/-- the targets named by an AwaitAction of `a` -/
def awaitOf (a : Pid) : Evt → Option (List Pid)
  | .await a' ts => if a' = a then some ts else none
  | _ => none

/-- **J1**: the LAST AwaitAction of `a` in its worker's event queue names every target `a` still awaits -/
def AwaitLast (s : Sys) : Prop :=
  ∀ w a ts, lastSome (awaitOf a) (s.evtQ w) = some ts →
    ∀ x t, (s.wk w).procs a = some x → x.stillAwaiting t = true → t ∈ ts

theorem AwaitLast.order {s : Sys} (hr : RInv s) (h : AwaitLast s) : AwaitOrder s := by
  intro w a ts rest hq wa x t hx hs
  have hmem : Evt.await a ts ∈ s.evtQ w := by rw [hq]; simp
  have hrt : s.env.router a = some w := (hr.evts w _ hmem).1
  have hpl : s.env.router a = some wa := hr.placed wa a (by simp [known, hx])
  rw [hrt] at hpl; simp only [Option.some.injEq] at hpl; subst hpl
  cases hl : lastSome (awaitOf a) rest with
  | none =>
    left
    apply h w a ts _ x t hx hs
    rw [hq]; simp [lastSome, hl, awaitOf]
  | some ts' =>
    right
    obtain ⟨e, he, hm⟩ := lastSome_mem _ _ _ hl
    have := h w a ts' (by rw [hq]; exact lastSome_tail _ _ _ _ hl) x t hx hs
    cases e with
    | await a' ts'' =>
      simp only [awaitOf] at hm
      split at hm
      · rename_i haa; subst haa
        simp only [Option.some.injEq] at hm; subst hm
        exact ⟨_, he, this⟩
      · cases hm
    | _ => simp [awaitOf] at hm

theorem AwaitLast.of_push {s s' : Sys} {i : Wid} {evs : List Evt} (h : AwaitLast s) (hp : EvtPush s s' i evs)
    (hno : ∀ e ∈ evs, ∀ a, awaitOf a e = none)
    (hstill : ∀ a x' t, (s'.wk i).procs a = some x' → x'.stillAwaiting t = true →
      ∃ x, (s.wk i).procs a = some x ∧ x.stillAwaiting t = true) : AwaitLast s' := by
  intro w a ts hl x' t hx hs
  rw [hp.evtQ] at hl
  by_cases hw : w = i
  · subst hw
    rw [upd_same, lastSome_append_none _ _ _ (fun e he => hno e he a)] at hl
    obtain ⟨x, h1, h2⟩ := hstill a x' t hx hs
    exact h w a ts hl x t h1 h2
  · rw [upd_other _ _ _ _ hw] at hl
    rw [hp.other w hw] at hx
    exact h w a ts hl x' t hx hs

end QM.Sys

namespace QM.Sys
variable [Cfg]

theorem AwaitLast.envStep1 {s : Sys} (h : AwaitLast s) (w0 : Wid) : AwaitLast (envStep1With mergeAnswer s w0) := by
  unfold envStep1With
  cases hq : s.evtQ w0 with
  | nil => exact h
  | cons e rest =>
    simp only []
    have eff := envEff s w0 e rest
    intro w a ts hl x t hx hs
    rw [eff.wk] at hx
    apply h w a ts _ x t hx hs
    rw [eff.evtQ] at hl
    by_cases hw : w = w0
    · subst hw; rw [upd_same] at hl; rw [hq]; exact lastSome_tail _ _ _ _ hl
    · rw [upd_other _ _ _ _ hw] at hl; exact hl

theorem AwaitLast.cmdStep1 {s : Sys} (hr : RInv s) (h : AwaitLast s) (i : Wid) : AwaitLast (cmdStep1With Rules.current s i) := by
  unfold cmdStep1With
  cases hq : s.cmdQ i with
  | nil => exact h
  | cons c rest =>
    simp only []
    have hcmem : c ∈ s.cmdQ i := by rw [hq]; simp
    have hnr : ∀ p fn, c ≠ .resume p fn := by
      intro p fn hc
      have := hr.cmds i c hcmem
      rw [hc] at this
      exact this
    have rel := cmdRel s i c rest hnr
    have h0 : AwaitLast { s with cmdQ := upd s.cmdQ i rest } := h
    obtain ⟨evs, hp, _, hev⟩ := cmd_push { s with cmdQ := upd s.cmdQ i rest } i c
    apply h0.of_push hp
    · intro e he a
      rcases hev with rfl | ⟨req, r, rfl⟩ | ⟨a0, ts, _, rfl, _⟩
      · cases he
      · simp only [List.mem_singleton] at he; subst he; rfl
      · simp only [List.mem_singleton] at he; subst he; rfl
    · intro a x' t hx hs
      obtain ⟨x, h1, h2, _⟩ := rel.procs a x' t hx hs
      exact ⟨x, h1, h2⟩

theorem AwaitLast.reportTarget {s : Sys} (h : AwaitLast s) (i : Wid) (t0 : Pid) : AwaitLast (reportTarget s i t0) := by
  obtain ⟨_, _, _, _, _, _, h7, h8, h9⟩ := reportTarget_explicit s i t0
  intro w a ts hl x t hx hs
  by_cases hw : w = i
  · subst hw
    rw [h9] at hl
    rw [h8] at hx
    cases hr : (s.wk w).resultOf t0 with
    | none => rw [hr] at hl hx; exact h w a ts hl x t hx hs
    | some r =>
      rw [hr] at hl hx
      simp only [] at hl hx
      rw [lastSome_append_none] at hl
      · exact h w a ts hl x t hx hs
      · intro e he
        obtain ⟨a1, _, rfl⟩ := List.mem_map.mp he
        rfl
  · rw [(h7 w hw).1] at hx
    rw [(h7 w hw).2] at hl
    exact h w a ts hl x t hx hs

theorem AwaitLast.answerRequests {s : Sys} (h : AwaitLast s) (i : Wid) (p : Pid) : AwaitLast (answerRequests s i p) := by
  obtain ⟨_, _, _, _, _, _, h7, h8, h9⟩ := answerRequests_explicit s i p
  intro w a ts hl x t hx hs
  by_cases hw : w = i
  · subst hw
    rw [h9] at hl
    rw [h8] at hx
    cases hr : (s.wk w).resultOf p with
    | none => rw [hr] at hl hx; exact h w a ts hl x t hx hs
    | some r =>
      rw [hr] at hl hx
      simp only [] at hl hx
      rw [lastSome_append_none] at hl
      · exact h w a ts hl x t hx hs
      · intro e he
        obtain ⟨a1, _, rfl⟩ := List.mem_map.mp he
        rfl
  · rw [(h7 w hw).1] at hx
    rw [(h7 w hw).2] at hl
    exact h w a ts hl x t hx hs

theorem AwaitLast.execStep {s : Sys} (hk : PKInv s) (h : AwaitLast s) (i : Wid) (fuel : Nat) (ordQ : List Pid) :
    AwaitLast (execStep s i fuel ordQ) := by
  obtain ⟨evs, hp, _, halt⟩ := exec_push s i fuel ordQ
  intro w a ts hl x' t hx hs
  by_cases hw' : w ≠ i
  · rw [hp.evtQ, upd_other _ _ _ _ hw'] at hl
    rw [hp.other w hw'] at hx
    exact h w a ts hl x' t hx hs
  have hw : w = i := Decidable.not_not.mp hw'
  subst hw
  have hq' := hp.evtQ
  rw [hp.evtQ, upd_same] at hl
  rcases halt with hno | ⟨cur, ts0, x0, x0', rfl, h1, h2, h3⟩
  · -- no AwaitAction appended
    have hnone : ∀ e ∈ evs, awaitOf a e = none := by
      intro e he
      cases e with
      | await a' ts' => exact absurd rfl (hno _ he a' ts')
      | _ => rfl
    rw [lastSome_append_none _ _ _ hnone] at hl
    have noInit : ∀ ts', (QM.Sys.execStep s w fuel ordQ).evtQ w = s.evtQ w ++ [Evt.await a ts'] → False := by
      intro ts' he
      rw [hq', upd_same] at he
      have : evs = [Evt.await a ts'] := List.append_cancel_left he
      exact hno _ (by rw [this]; simp) a ts' rfl
    rcases exec_records s w fuel ordQ a x' hx with ⟨y, g1, g2⟩ | hnil | ⟨x, out, g1, g2, g3⟩ | ⟨x, x1, out, g1, g2, g3, g4⟩
    · exact h w a ts hl y t g1 (g2.still t hs)
    · simp [Proc.stillAwaiting, hnil, alookup] at hs
    · rcases slice_await_aux s.prog s.now a fuel x _ g2 t hs with ⟨ts', e1, _⟩ | ⟨e1, _⟩
      · exact absurd (g3 ts' e1) (noInit ts')
      · exact h w a ts hl x t g1 e1
    · rcases slice_await_aux s.prog s.now a fuel x _ g2 t (g4.still t hs) with ⟨ts', e1, _⟩ | ⟨e1, _⟩
      · exact absurd e1 (g3 ts')
      · exact h w a ts hl x t g1 e1
  · -- the running process `cur` has just initialised a select
    rw [lastSome_append_single] at hl
    by_cases hac : a = cur
    · subst hac
      simp only [awaitOf, if_true, Option.some.injEq] at hl
      subst hl
      rw [h3] at hx
      simp only [upd_same, Option.some.injEq] at hx; subst hx
      obtain ⟨_, _, hkeys⟩ := slice_PK s.prog s.now a fuel x0 _ h2 (hk.pk w a x0 h1)
      simp only [Proc.stillAwaiting, Bool.and_eq_true] at hs
      obtain ⟨kv, k1, k2⟩ := List.mem_map.mp (alookup_isSome_keys _ _ hs.2)
      rw [← k2]; exact hkeys ts0 rfl kv k1
    · have : awaitOf a (Evt.await cur ts0) = none := by simp [awaitOf, Ne.symm hac]
      rw [this] at hl
      simp only [] at hl
      rw [h3, upd_other _ _ _ _ hac] at hx
      exact h w a ts hl x' t hx hs

theorem AwaitLast.micro {s : Sys} (hr : RInv s) (hk : PKInv s) (h : AwaitLast s) (m : Micro) :
    AwaitLast (microStep Rules.current s m) := by
  cases m with
  | env w => exact h.envStep1 w
  | cmd i => exact h.cmdStep1 hr i
  | exec i fuel ordQ => exact h.execStep hk i fuel ordQ
  | check i ordE =>
    simp only [microStep]
    unfold QM.Sys.checkStep
    apply foldl_invariant AwaitLast _ (fun a p ha => ha.answerRequests i p)
    exact foldl_invariant AwaitLast _ (fun a t ha => ha.reportTarget i t) _ _ h
  | tick ms => exact h

end QM.Sys

namespace QM.Sys
variable [Cfg]

/-! ## `FAux`: registrations sit at the target's worker; a pending await still expects somebody -/

theorem env_router_ext {s : Sys} (hr : RInv s) (w0 : Wid) : Ext s.env.router (envStep1With mergeAnswer s w0).env.router := by
  unfold envStep1With
  split
  · exact Ext.refl _
  · rename_i e rest _
    cases e with
    | spawn c fn regs coloc =>
      simp only [handleEventWith, handleSpawn]
      have hext : Ext s.env.router (upd s.env.router s.env.nextPid (some (placement { s with evtQ := upd s.evtQ w0 rest } coloc s.env.nextPid))) :=
        ext_insert_fresh hr _
      split
      · exact hext
      · exact hext
    | deliver t m => simp only [handleEventWith, handleDeliver]; split <;> exact Ext.refl _
    | await a ts =>
      simp only [handleEventWith, handleAwait]
      split
      · exact Ext.refl _
      · rw [(foldPush_spec _ _ _).2.2.1]; exact Ext.refl _
    | procResults a rs =>
      simp only [handleEventWith, handleProcResultsWith]
      repeat' split
      all_goals exact Ext.refl _
    | resultResp req r => exact Ext.refl _
    | exited p => exact Ext.refl _

theorem queryTargets_reg (a : Pid) : ∀ (ts : List Pid) (w : WorkerSt) (a' t : Pid),
    a' ∈ (queryTargets w a ts).1.awaitersFor t → a' ∈ w.awaitersFor t ∨ t ∈ ts
  | [], w, a', t, h => Or.inl h
  | t0 :: rest, w, a', t, h => by
    unfold queryTargets at h
    cases hc : w.completedStatus t0 with
    | some r =>
      simp only [hc] at h
      rcases queryTargets_reg a rest w a' t h with h1 | h1
      · exact Or.inl h1
      · exact Or.inr (List.mem_cons_of_mem _ h1)
    | none =>
      simp only [hc] at h
      rcases queryTargets_reg a rest _ a' t h with h1 | h1
      · by_cases ht : t = t0
        · subst ht; exact Or.inr List.mem_cons_self
        · simp only [upd_other _ _ _ _ ht] at h1; exact Or.inl h1
      · exact Or.inr (List.mem_cons_of_mem _ h1)

/-- a command other than QueryAndAwait leaves the registrations alone -/
theorem cmd_awaiters (s : Sys) (i : Wid) (c : Cmd) (hc : ∀ a ts, c ≠ .queryAwait a ts) :
    ((handleCmdWith Rules.current s i c).wk i).awaitersFor = (s.wk i).awaitersFor := by
  cases c with
  | queryAwait a ts => exact absurd rfl (hc a ts)
  | updateAwait a rs =>
    simp only [handleCmdWith, Rules.current, Bool.false_and, Bool.false_eq_true, if_false, Sys.setWk, upd_same]
    rw [(SameProcs.wakeSelecting _ _).awaiters, (SameProcs.applyResults a rs _).awaiters]
  | deliver t m =>
    simp only [handleCmdWith]
    repeat' split
    all_goals
      simp only [Sys.setWk, upd_same]
      rw [(SameProcs.wakeSelecting _ _).awaiters]
  | _ =>
    simp only [handleCmdWith]
    repeat' split
    all_goals simp [Sys.setWk, Sys.setFault, Sys.pushEvt, WorkerSt.setProc]

def RegHome (s : Sys) : Prop := ∀ w t a, a ∈ (s.wk w).awaitersFor t → s.env.router t = some w

theorem RegHome.micro {s : Sys} (hr : RInv s) (h : RegHome s) (m : Micro) : RegHome (microStep Rules.current s m) := by
  cases m with
  | env w0 =>
    simp only [microStep, Rules.current]
    have hext := env_router_ext hr w0
    unfold envStep1With at hext ⊢
    cases hq : s.evtQ w0 with
    | nil => exact h
    | cons e rest =>
      rw [hq] at hext
      simp only [] at hext ⊢
      have eff := envEff s w0 e rest
      intro w t a ha
      rw [eff.wk] at ha
      exact hext t w (h w t a ha)
  | cmd i =>
    simp only [microStep]
    unfold cmdStep1With
    cases hq : s.cmdQ i with
    | nil => exact h
    | cons c rest =>
      simp only []
      have hfr := handleCmd_frame Rules.current { s with cmdQ := upd s.cmdQ i rest } i c
      intro w t a ha
      rw [hfr.2.1]
      by_cases hw : w = i
      · subst hw
        by_cases hc : ∃ a0 ts, c = .queryAwait a0 ts
        · obtain ⟨a0, ts, rfl⟩ := hc
          simp only [handleCmdWith, Sys.setWk, Sys.pushEvt, upd_same] at ha
          rcases queryTargets_reg a0 ts _ a t ha with h1 | h1
          · exact h w t a h1
          · have hok : CmdOK s.env.router s.prog.length (known s w) w (Cmd.queryAwait a0 ts) :=
              hr.cmds w _ (by rw [hq]; simp)
            exact hok.2 t h1
        · rw [cmd_awaiters _ _ _ (fun a0 ts e => hc ⟨a0, ts, e⟩)] at ha
          exact h w t a ha
      · rw [(hfr.2.2.2.2.2 w hw).1] at ha
        exact h w t a ha
  | exec i fuel ordQ =>
    simp only [microStep]
    have hfr := execStep_frame s i fuel ordQ
    intro w t a ha
    rw [hfr.2.1]
    by_cases hw : w = i
    · subst hw; rw [(ExecRel.execStep s w fuel ordQ).aw] at ha; exact h w t a ha
    · rw [(hfr.2.2.2.2.2.2 w hw).1] at ha; exact h w t a ha
  | check i ordE =>
    simp only [microStep]
    unfold QM.Sys.checkStep
    apply foldl_invariant RegHome
    · intro s1 p h1
      obtain ⟨_, h2, _, _, _, _, h7, h8, _⟩ := answerRequests_explicit s1 i p
      intro w t a ha
      rw [h2]
      by_cases hw : w = i
      · subst hw; rw [h8] at ha
        split at ha
        · exact h1 w t a ha
        · exact h1 w t a ha
      · rw [(h7 w hw).1] at ha; exact h1 w t a ha
    · apply foldl_invariant RegHome
      · intro s1 t0 h1
        obtain ⟨_, h2, _, _, _, _, h7, h8, _⟩ := reportTarget_explicit s1 i t0
        intro w t a ha
        rw [h2]
        by_cases hw : w = i
        · subst hw; rw [h8] at ha
          split at ha
          · exact h1 w t a ha
          · by_cases ht : t = t0
            · subst ht; simp at ha
            · simp only [upd_other _ _ _ _ ht] at ha; exact h1 w t a ha
        · rw [(h7 w hw).1] at ha; exact h1 w t a ha
      · exact h
  | tick ms => exact h

end QM.Sys

namespace QM.Sys
variable [Cfg]

def PendNe (s : Sys) : Prop := ∀ a pa, s.env.pending a = some pa → pa.expected ≠ []

theorem PendNe.micro {s : Sys} (hw : WInv s) (h : PendNe s) (m : Micro) : PendNe (microStep Rules.current s m) := by
  cases m with
  | env w0 =>
    simp only [microStep, Rules.current]
    unfold envStep1With
    cases hq : s.evtQ w0 with
    | nil => exact h
    | cons e rest =>
      simp only []
      have hmem : e ∈ s.evtQ w0 := by rw [hq]; simp
      cases e with
      | spawn c fn regs coloc =>
        simp only [handleEventWith, handleSpawn]
        split <;> exact h
      | deliver t m => simp only [handleEventWith, handleDeliver]; split <;> exact h
      | await a ts =>
        simp only [handleEventWith, handleAwait]
        split
        · exact h
        · rename_i hany
          intro a' pa hp
          rw [(foldPush_spec _ _ _).2.2.1] at hp
          simp only [] at hp
          by_cases ha : a' = a
          · subst ha
            simp only [upd_same, Option.some.injEq] at hp
            subst hp
            simp only []
            have hne : ts ≠ [] := hw.core.neA w0 a' ts hmem
            cases ts with
            | nil => exact absurd rfl hne
            | cons t0 rest' =>
              have hr0 : (s.env.router t0).isSome = true := by
                simp only [List.any_cons, Bool.or_eq_true, not_or, Bool.not_eq_true] at hany
                cases hrr : s.env.router t0 with
                | none => simp [hrr] at hany
                | some _ => rfl
              obtain ⟨wr, hwr⟩ := Option.isSome_iff_exists.mp hr0
              intro hnil
              have := mem_targetWorkers (router := s.env.router) (ts := t0 :: rest') (t := t0) List.mem_cons_self hwr
              rw [hnil] at this; cases this
          · rw [upd_other _ _ _ _ ha] at hp; exact h a' pa hp
      | procResults a rs =>
        simp only [handleEventWith, handleProcResultsWith]
        intro a' pa hp
        repeat' split at hp
        all_goals first
          | exact h a' pa hp
          | (simp only [Sys.setFault, Sys.pushCmd] at hp
             by_cases ha : a' = a
             · subst ha
               simp only [upd_same] at hp
               cases hp
               all_goals
                 intro hnil
                 simp_all
                 rename_i hex _
                 obtain ⟨x, hx1, hx2⟩ := hex
                 exact hx2 (hnil x hx1)
             · rw [upd_other _ _ _ _ ha] at hp; exact h a' pa hp)
      | resultResp req r => exact h
      | exited p => exact h
  | cmd i =>
    simp only [microStep]
    unfold cmdStep1With
    cases hq : s.cmdQ i with
    | nil => exact h
    | cons c rest =>
      simp only []
      intro a pa hp
      rw [(handleCmd_frame Rules.current _ i c).2.1] at hp
      exact h a pa hp
  | exec i fuel ordQ =>
    intro a pa hp
    simp only [microStep] at hp
    rw [(execStep_frame s i fuel ordQ).2.1] at hp
    exact h a pa hp
  | check i ordE =>
    intro a pa hp
    simp only [microStep] at hp
    rw [(ChkRel.checkStep s i ordE).env] at hp
    exact h a pa hp
  | tick ms => exact h

end QM.Sys

namespace QM.Sys
variable [Cfg]

/-! ## `Checked`: after every complete choice no worker keeps an awaiter registered for a process with a result -/

/-- a registration is always for an `awaited` target (micro-step invariant) -/
def RegAwaited (s : Sys) : Prop := ∀ w t, (s.wk w).awaitersFor t ≠ [] → t ∈ (s.wk w).awaited

theorem queryTargets_regAwaited (a : Pid) : ∀ (ts : List Pid) (w : WorkerSt),
    (∀ t, w.awaitersFor t ≠ [] → t ∈ w.awaited) →
    ∀ t, (queryTargets w a ts).1.awaitersFor t ≠ [] → t ∈ (queryTargets w a ts).1.awaited
  | [], w, h => h
  | t0 :: rest, w, h => by
    unfold queryTargets
    cases hc : w.completedStatus t0 with
    | some r => exact queryTargets_regAwaited a rest w h
    | none =>
      simp only []
      apply queryTargets_regAwaited a rest
      intro t ht
      simp only [] at ht ⊢
      by_cases htt : t = t0
      · subst htt; exact mem_sinsert.mpr (Or.inr rfl)
      · rw [upd_other _ _ _ _ htt] at ht; exact mem_sinsert.mpr (Or.inl (h t ht))

theorem wakeSelecting_awaited (w : WorkerSt) (p : Pid) : (w.wakeSelecting p).awaited = w.awaited := by
  unfold WorkerSt.wakeSelecting; split <;> rfl

theorem modProc_awaited (w : WorkerSt) (p : Pid) (f : Proc → Proc) : (w.modProc p f).awaited = w.awaited := by
  unfold WorkerSt.modProc; split <;> rfl

theorem notifyResult_awaited (w : WorkerSt) (a t : Pid) (r : Res) : (w.notifyResult a t r).awaited = w.awaited := by
  cases r with
  | ok v => simp [WorkerSt.notifyResult, WorkerSt.notifyResultOk, wakeSelecting_awaited, modProc_awaited]
  | err =>
    simp only [WorkerSt.notifyResult, WorkerSt.notifyFailure]
    split
    · split
      · simp [wakeSelecting_awaited, modProc_awaited]
      · rfl
    · rfl

theorem applyResults_awaited (a : Pid) : ∀ (rs : Results) (w : WorkerSt), (applyResults w a rs).awaited = w.awaited
  | [], w => rfl
  | (t, none) :: rest, w => by
    simp only [applyResults]; rw [applyResults_awaited a rest]; simp [WorkerSt.notifyPending, modProc_awaited]
  | (t, some r) :: rest, w => by
    simp only [applyResults]; rw [applyResults_awaited a rest, notifyResult_awaited]

/-- a command other than QueryAndAwait leaves the `awaited` set alone -/
theorem cmd_awaited (s : Sys) (i : Wid) (c : Cmd) (hc : ∀ a ts, c ≠ .queryAwait a ts) :
    ((handleCmdWith Rules.current s i c).wk i).awaited = (s.wk i).awaited := by
  have happ := applyResults_awaited
  cases c with
  | queryAwait a ts => exact absurd rfl (hc a ts)
  | updateAwait a rs =>
    simp only [handleCmdWith, Rules.current, Bool.false_and, Bool.false_eq_true, if_false, Sys.setWk, upd_same]
    rw [wakeSelecting_awaited, happ]
  | deliver t m =>
    simp only [handleCmdWith]
    repeat' split
    all_goals
      simp only [Sys.setWk, upd_same]
      rw [wakeSelecting_awaited]
  | _ =>
    simp only [handleCmdWith]
    repeat' split
    all_goals simp [Sys.setWk, Sys.setFault, Sys.pushEvt, WorkerSt.setProc]

end QM.Sys

namespace QM.Sys
variable [Cfg]

theorem fold_notify_awaited (cur : Pid) (r : Res) : ∀ (l : List Pid) (w : WorkerSt),
    (l.foldl (fun acc a => acc.notifyResult a cur r) w).awaited = w.awaited
  | [], w => rfl
  | a :: l, w => by simp only [List.foldl_cons]; rw [fold_notify_awaited cur r l, notifyResult_awaited]

theorem finish_awaited (w : WorkerSt) (cur : Pid) (x : Proc) (ordQ : List Pid) : (w.finish cur x ordQ).awaited = w.awaited := by
  unfold WorkerSt.finish WorkerSt.release
  simp only []
  split
  · rw [modProc_awaited, fold_notify_awaited]
  · rw [fold_notify_awaited]

theorem exec_awaited (s : Sys) (i : Wid) (fuel : Nat) (ordQ : List Pid) :
    ((execStep s i fuel ordQ).wk i).awaited = (s.wk i).awaited := by
  have hce : ((s.wk i).checkExpired s.prog s.now ordQ).awaited = (s.wk i).awaited := rfl
  unfold QM.Sys.execStep
  simp only []
  repeat' split
  all_goals simp [Sys.setWk, Sys.pushEvt, noteExit_wk, finish_awaited, hce]

theorem RegAwaited.micro {s : Sys} (h : RegAwaited s) (m : Micro) : RegAwaited (microStep Rules.current s m) := by
  cases m with
  | env w0 =>
    simp only [microStep, Rules.current]
    intro w t ht
    rw [envStep1_wk] at ht ⊢
    exact h w t ht
  | cmd i =>
    simp only [microStep]
    unfold cmdStep1With
    cases hq : s.cmdQ i with
    | nil => exact h
    | cons c rest =>
      simp only []
      have hfr := handleCmd_frame Rules.current { s with cmdQ := upd s.cmdQ i rest } i c
      intro w t ht
      by_cases hw : w = i
      · subst hw
        by_cases hc : ∃ a0 ts, c = .queryAwait a0 ts
        · obtain ⟨a0, ts, rfl⟩ := hc
          simp only [handleCmdWith, Sys.setWk, Sys.pushEvt, upd_same] at ht ⊢
          exact queryTargets_regAwaited a0 ts _ (h w) t ht
        · rw [cmd_awaiters _ _ _ (fun a0 ts e => hc ⟨a0, ts, e⟩)] at ht
          rw [cmd_awaited _ _ _ (fun a0 ts e => hc ⟨a0, ts, e⟩)]
          exact h w t ht
      · rw [(hfr.2.2.2.2.2 w hw).1] at ht ⊢
        exact h w t ht
  | exec i fuel ordQ =>
    simp only [microStep]
    have hfr := execStep_frame s i fuel ordQ
    intro w t ht
    by_cases hw : w = i
    · subst hw
      rw [(ExecRel.execStep s w fuel ordQ).aw] at ht
      rw [exec_awaited]
      exact h w t ht
    · rw [(hfr.2.2.2.2.2.2 w hw).1] at ht ⊢; exact h w t ht
  | check i ordE =>
    simp only [microStep]
    unfold QM.Sys.checkStep
    apply foldl_invariant RegAwaited
    · intro s1 p h1
      obtain ⟨_, _, _, _, _, _, h7, h8, _⟩ := answerRequests_explicit s1 i p
      intro w t ht
      by_cases hw : w = i
      · subst hw; rw [h8] at ht ⊢
        cases hr : (s1.wk w).resultOf p with
        | none => simp only [hr] at ht ⊢; exact h1 w t ht
        | some r => simp only [hr] at ht ⊢; exact h1 w t ht
      · rw [(h7 w hw).1] at ht ⊢; exact h1 w t ht
    · apply foldl_invariant RegAwaited
      · intro s1 t0 h1
        obtain ⟨_, _, _, _, _, _, h7, h8, _⟩ := reportTarget_explicit s1 i t0
        intro w t ht
        by_cases hw : w = i
        · subst hw; rw [h8] at ht ⊢
          cases hr : (s1.wk w).resultOf t0 with
          | none => simp only [hr] at ht ⊢; exact h1 w t ht
          | some r =>
            simp only [hr] at ht ⊢
            by_cases htt : t = t0
            · subst htt; simp at ht
            · simp only [upd_other _ _ _ _ htt] at ht
              exact mem_serase.mpr ⟨h1 w t ht, htt⟩
        · rw [(h7 w hw).1] at ht ⊢; exact h1 w t ht
      · exact h
  | tick ms => exact h

end QM.Sys

namespace QM.Sys
variable [Cfg]

/-- worker state: no awaiter is registered for a process that has a result -/
def Chk (w : WorkerSt) : Prop := ∀ t, w.awaitersFor t ≠ [] → w.resultOf t = none

theorem resultOf_congr {w w' : WorkerSt} (h : w'.procs = w.procs) (t : Pid) : w'.resultOf t = w.resultOf t := by
  simp [WorkerSt.resultOf, h]

theorem fold_report (i : Wid) : ∀ (l : List Pid) (s : Sys),
    ((l.foldl (fun acc t => reportTarget acc i t) s).wk i).procs = (s.wk i).procs ∧
    ∀ t, ((l.foldl (fun acc t => reportTarget acc i t) s).wk i).awaitersFor t =
      if t ∈ l ∧ ((s.wk i).resultOf t).isSome = true then [] else (s.wk i).awaitersFor t
  | [], s => ⟨rfl, fun t => by simp⟩
  | t0 :: rest, s => by
    simp only [List.foldl_cons]
    obtain ⟨ih1, ih2⟩ := fold_report i rest (reportTarget s i t0)
    obtain ⟨_, _, _, _, _, _, _, h8, _⟩ := reportTarget_explicit s i t0
    have hp : ((reportTarget s i t0).wk i).procs = (s.wk i).procs := by rw [h8]; split <;> rfl
    refine ⟨ih1.trans hp, ?_⟩
    intro t
    rw [ih2 t, resultOf_congr hp t]
    cases hr : (s.wk i).resultOf t0 with
    | none =>
      have haw : ((reportTarget s i t0).wk i).awaitersFor = (s.wk i).awaitersFor := by rw [h8, hr]
      rw [haw]
      by_cases htt : t = t0
      · subst htt; simp [hr]
      · simp [htt]
    | some r =>
      have haw : ((reportTarget s i t0).wk i).awaitersFor = upd (s.wk i).awaitersFor t0 [] := by rw [h8, hr]
      rw [haw]
      by_cases htt : t = t0
      · subst htt; simp [hr]
      · simp [htt, upd_other _ _ _ _ htt]

theorem fold_answer (i : Wid) : ∀ (l : List Pid) (s : Sys),
    ((l.foldl (fun acc p => answerRequests acc i p) s).wk i).procs = (s.wk i).procs ∧
    ((l.foldl (fun acc p => answerRequests acc i p) s).wk i).awaitersFor = (s.wk i).awaitersFor
  | [], s => ⟨rfl, rfl⟩
  | p :: rest, s => by
    simp only [List.foldl_cons]
    obtain ⟨ih1, ih2⟩ := fold_answer i rest (answerRequests s i p)
    obtain ⟨_, _, _, _, _, _, _, h8, _⟩ := answerRequests_explicit s i p
    have hp : ((answerRequests s i p).wk i).procs = (s.wk i).procs := by rw [h8]; split <;> rfl
    have ha : ((answerRequests s i p).wk i).awaitersFor = (s.wk i).awaitersFor := by rw [h8]; split <;> rfl
    exact ⟨ih1.trans hp, ih2.trans ha⟩

/-- **`check_completed_processes` leaves nothing behind**: afterwards no awaiter is registered at this worker for a
process that has a result -/
theorem checkStep_chk (s : Sys) (i : Wid) (ordE : List Pid)
    (h : ∀ t, (s.wk i).awaitersFor t ≠ [] → t ∈ (s.wk i).awaited) : Chk ((checkStep s i ordE).wk i) := by
  unfold QM.Sys.checkStep
  simp only []
  obtain ⟨g1, g2⟩ := fold_answer i ((((orderBy ordE (completedAwaited (s.wk i))).foldl (fun acc t => reportTarget acc i t) s).wk i).resultReqKeys)
    ((orderBy ordE (completedAwaited (s.wk i))).foldl (fun acc t => reportTarget acc i t) s)
  obtain ⟨f1, f2⟩ := fold_report i (orderBy ordE (completedAwaited (s.wk i))) s
  intro t ht
  rw [g2, f2 t] at ht
  rw [resultOf_congr (g1.trans f1) t]
  cases hr : (s.wk i).resultOf t with
  | none => rfl
  | some r =>
    exfalso
    by_cases hm : t ∈ orderBy ordE (completedAwaited (s.wk i))
    · simp [hm, hr] at ht
    · simp only [hm, false_and, if_false] at ht
      apply hm
      rw [mem_orderBy]
      simp [completedAwaited, h t ht, hr]

theorem checkStep_other (s : Sys) (i : Wid) (ordE : List Pid) (k : Wid) (hk : k ≠ i) : (checkStep s i ordE).wk k = s.wk k := by
  unfold QM.Sys.checkStep
  apply foldl_invariant (fun s' : Sys => s'.wk k = s.wk k)
  · intro s1 p h1; rw [((answerRequests_explicit s1 i p).2.2.2.2.2.2.1 k hk).1]; exact h1
  · apply foldl_invariant (fun s' : Sys => s'.wk k = s.wk k)
    · intro s1 t h1; rw [((reportTarget_explicit s1 i t).2.2.2.2.2.2.1 k hk).1]; exact h1
    · rfl

end QM.Sys

namespace QM.Sys
variable [Cfg]

theorem init_no_awaiters (n : Nat) (prog : Prog) (req : Nat) (w : Wid) (t : Pid) :
    ((Sys.init n prog req).wk w).awaitersFor t = [] := by
  simp only [Sys.init]
  by_cases hw : w = 0
  · subst hw; simp [WorkerSt.setProc, WorkerSt.empty]
  · simp [upd_other _ _ _ _ hw, WorkerSt.empty]

theorem regAwaited_run (n : Nat) (prog : Prog) (req : Nat) (cs : List Choice) : RegAwaited (run (Sys.init n prog req) cs) := by
  have := run_invariant Rules.current RegAwaited (fun s m h => h.micro m) cs (Sys.init n prog req)
    (by intro w t ht; rw [init_no_awaiters] at ht; exact absurd rfl ht)
  exact this

theorem envStep_wk (s : Sys) (vis : List Nat) : (envStepWith mergeAnswer s vis).wk = s.wk := by
  unfold envStepWith
  apply foldl_invariant (fun s' : Sys => s'.wk = s.wk)
  · intro a w ha
    apply iter_invariant (fun s' : Sys => s'.wk = s.wk) _ _ _ a ha
    intro b hb; rw [envStep1_wk]; exact hb
  · rfl

theorem cmdIter_other (s : Sys) (i : Wid) (k : Wid) (hk : k ≠ i) (n : Nat) :
    (iter (fun a => cmdStep1With Rules.current a i) n s).wk k = s.wk k := by
  apply iter_invariant (fun s' : Sys => s'.wk k = s.wk k) _ _ _ s rfl
  intro b hb
  unfold cmdStep1With
  split
  · exact hb
  · rw [((handleCmd_frame Rules.current _ i _).2.2.2.2.2 k hk).1]; exact hb

/-- **`Checked` after every choice** (the worker step ends with `check_completed_processes`; nothing else touches a
worker's registrations or results) -/
theorem checked_step {s : Sys} (hm : ∀ s', (∃ k fuel ordQ i, s' = execStep (iter (fun a => cmdStep1With Rules.current a i) k s) i fuel ordQ) → RegAwaited s')
    (h : Checked s) (c : Choice) : Checked (sysStep s c) := by
  cases c with
  | env vis =>
    intro w t ht
    simp only [sysStep, sysStepWith, Rules.current] at ht ⊢
    rw [envStep_wk] at ht ⊢
    exact h w t ht
  | worker i vis fuel ordQ ordE =>
    simp only [sysStep, sysStepWith]
    split
    · simp only [workerStepWith]
      intro w t ht
      by_cases hw : w = i
      · subst hw
        exact checkStep_chk _ w ordE (hm _ ⟨_, fuel, ordQ, w, rfl⟩ w) t ht
      · rw [checkStep_other _ _ _ _ hw] at ht ⊢
        rw [((execStep_frame _ i fuel ordQ).2.2.2.2.2.2 w hw).1] at ht ⊢
        rw [cmdIter_other _ _ _ hw] at ht ⊢
        exact h w t ht
    · exact h
  | tick ms => exact h

theorem checked_run (n : Nat) (prog : Prog) (req : Nat) (cs : List Choice) : Checked (run (Sys.init n prog req) cs) := by
  -- induction from the end of the choice list
  have key : ∀ (cs : List Choice) (s : Sys), RegAwaited s → (∀ s' m, RegAwaited s' → RegAwaited (microStep Rules.current s' m)) →
      Checked s → Checked (run s cs) := by
    intro cs
    induction cs with
    | nil => intro s _ _ h; exact h
    | cons c rest ih =>
      intro s hr hstep h
      simp only [run, List.foldl_cons]
      apply ih
      · exact sysStep_invariant Rules.current RegAwaited hstep s c hr
      · exact hstep
      · apply checked_step _ h c
        intro s' ⟨k, fuel, ordQ, i, hs'⟩
        subst hs'
        have h1 : RegAwaited (iter (fun a => cmdStep1With Rules.current a i) k s) :=
          micro_iter Rules.current RegAwaited hstep (.cmd i) k s hr
        exact hstep _ (.exec i fuel ordQ) h1
  apply key cs _ _ (fun s m h => h.micro m)
  · intro w t ht; rw [init_no_awaiters] at ht; exact absurd rfl ht
  · intro w t ht; rw [init_no_awaiters] at ht; exact absurd rfl ht

end QM.Sys
