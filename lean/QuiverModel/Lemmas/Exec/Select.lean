import QuiverModel.Core.Exec.Select
/-
Helper lemmas about the select machine of M-Exec (used by Theorems/C05.lean and Theorems/C15.lean).
-/
namespace QM.Exec
variable {V : Type}

/-! ### association maps -/

theorem amLookup_insert_self {α} (k : Nat) (v : α) (m : AMap α) : amLookup k (amInsert k v m) = some v := by
  simp [amInsert, amLookup]

theorem amLookup_filter_ne {α} (k k' : Nat) (m : AMap α) (h : k' ≠ k) :
    amLookup k' (m.filter (fun e => e.1 != k)) = amLookup k' m := by
  induction m with
  | nil => rfl
  | cons e rest ih =>
    obtain ⟨a, b⟩ := e
    by_cases hak : a = k
    · subst hak
      have : a ≠ k' := fun h' => h h'.symm
      simp [amLookup, this, ih]
    · have hne : (a != k) = true := by simp [hak]
      by_cases hak' : a = k'
      · subst hak'
        simp [hne, amLookup]
      · simp [hne, amLookup, hak', ih]

theorem amLookup_insert_ne {α} (k k' : Nat) (v : α) (m : AMap α) (h : k' ≠ k) :
    amLookup k' (amInsert k v m) = amLookup k' m := by
  have : k ≠ k' := fun h' => h h'.symm
  simp [amInsert, amLookup, this, amLookup_filter_ne k k' m h]

/-! ### `scanFrom` -/

theorem scanFrom_inl (ty : V → Bool) : ∀ (l : List V) (idx cur i : Nat) (m : V),
    scanFrom ty l idx cur = .inl (i, m) →
    ∃ pre post, l = pre ++ m :: post ∧ i = idx + pre.length ∧ ty m = true ∧ ∀ x ∈ pre, ty x = false := by
  intro l
  induction l with
  | nil => intro idx cur i m h; simp [scanFrom] at h
  | cons x rest ih =>
    intro idx cur i m h
    unfold scanFrom at h
    by_cases hx : ty x = true
    · simp [hx] at h
      obtain ⟨h1, h2⟩ := h
      subst h1 h2
      exact ⟨[], rest, rfl, rfl, hx, by simp⟩
    · simp [hx] at h
      obtain ⟨pre, post, h1, h2, h3, h4⟩ := ih (idx + 1) (idx + 1) i m h
      refine ⟨x :: pre, post, by simp [h1], by simp [h2]; omega, h3, ?_⟩
      intro y hy
      rcases List.mem_cons.mp hy with rfl | hy
      · simpa using hx
      · exact h4 y hy

theorem scanFrom_inr (ty : V → Bool) : ∀ (l : List V) (idx cur c : Nat),
    scanFrom ty l idx cur = .inr c →
    (∀ x ∈ l, ty x = false) ∧ c = (if l = [] then cur else idx + l.length) := by
  intro l
  induction l with
  | nil => intro idx cur c h; simp [scanFrom] at h; simp [h]
  | cons x rest ih =>
    intro idx cur c h
    unfold scanFrom at h
    by_cases hx : ty x = true
    · simp [hx] at h
    · simp [hx] at h
      obtain ⟨h1, h2⟩ := ih (idx + 1) (idx + 1) c h
      refine ⟨?_, ?_⟩
      · intro y hy
        rcases List.mem_cons.mp hy with rfl | hy
        · simpa using hx
        · exact h1 y hy
      · simp
        by_cases hr : rest = []
        · simp [hr] at h2 ⊢; omega
        · simp [hr] at h2; omega

/-! ### `firstIdx` -/

theorem firstIdx_none_of_all_false (q : V → Bool) : ∀ (l : List V), (∀ x ∈ l, q x = false) → firstIdx q l = none := by
  intro l
  induction l with
  | nil => intro _; rfl
  | cons x rest ih =>
    intro h
    have hx : q x = false := h x (by simp)
    simp [firstIdx, hx, ih (fun y hy => h y (by simp [hy]))]

theorem firstIdx_append_of_all_false (q : V → Bool) : ∀ (pre l : List V), (∀ x ∈ pre, q x = false) →
    firstIdx q (pre ++ l) = (firstIdx q l).map (· + pre.length) := by
  intro pre
  induction pre with
  | nil => intro l _; simp
  | cons x rest ih =>
    intro l h
    have hx : q x = false := h x (by simp)
    simp [firstIdx, hx, ih l (fun y hy => h y (by simp [hy]))]
    cases firstIdx q l <;> simp <;> omega

theorem firstIdx_lt (q : V → Bool) : ∀ (l : List V) (i : Nat), firstIdx q l = some i → i < l.length := by
  intro l
  induction l with
  | nil => intro i h; simp [firstIdx] at h
  | cons x rest ih =>
    intro i h
    unfold firstIdx at h
    by_cases hx : q x = true
    · simp [hx] at h; subst h; simp
    · simp [hx] at h
      obtain ⟨j, hj, rfl⟩ := h
      have := ih j hj
      simp; omega

/-- The first accepted message of `pre ++ m :: post` when nothing in `pre` is accepted and `m` is. -/
theorem firstIdx_split (q : V → Bool) (pre post : List V) (m : V) (hpre : ∀ x ∈ pre, q x = false)
    (hm : q m = true) : firstIdx q (pre ++ m :: post) = some pre.length := by
  rw [firstIdx_append_of_all_false q pre _ hpre]
  simp [firstIdx, hm]

theorem getElem?_split (pre post : List V) (m : V) : (pre ++ m :: post)[pre.length]? = some m := by
  simp

end QM.Exec

namespace QM.Exec
variable {V : Type}

/-! ### The cursor invariant of one receive source -/

/-- Everything before cursor `c` was rejected by the source (by type or by its filter). -/
structure SrcSound (ty : V → Bool) (f : Option (V → FilterRes V)) (mb : List V) (c : Nat) : Prop where
  le : c ≤ mb.length
  rejected : ∀ x ∈ mb.take c, accepts ty f x = false

theorem accepts_false_of_type (ty : V → Bool) (f) (x : V) (h : ty x = false) : accepts ty f x = false := by
  simp [accepts, h]

theorem SrcSound.full (ty : V → Bool) (f) (mb : List V) (h : ∀ x ∈ mb, accepts ty f x = false) :
    SrcSound ty f mb mb.length := ⟨Nat.le_refl _, by simpa using h⟩

/-- From a sound cursor `c` and the scan result "first type-compatible message at `i`":
    the split of the mailbox. -/
theorem split_of_scan (ty : V → Bool) (f) (mb : List V) (c i : Nat) (m : V)
    (hs : SrcSound ty f mb c) (h : scanFrom ty (mb.drop c) c c = .inl (i, m)) :
    ∃ pre post, mb = pre ++ m :: post ∧ i = pre.length ∧ ty m = true ∧ (∀ x ∈ pre, accepts ty f x = false) := by
  obtain ⟨pre, post, h1, h2, h3, h4⟩ := scanFrom_inl ty _ _ _ _ _ h
  refine ⟨mb.take c ++ pre, post, ?_, ?_, h3, ?_⟩
  · have := List.take_append_drop c mb
    rw [h1] at this
    rw [List.append_assoc]
    exact this.symm
  · have : (mb.take c).length = c := by simp [hs.le]
    simp [this, h2]
  · intro x hx
    rcases List.mem_append.mp hx with hx | hx
    · exact hs.rejected x hx
    · exact accepts_false_of_type ty f x (h4 x hx)

theorem all_rejected_of_scan (ty : V → Bool) (f) (mb : List V) (c c' : Nat)
    (hs : SrcSound ty f mb c) (h : scanFrom ty (mb.drop c) c c = .inr c') :
    (∀ x ∈ mb, accepts ty f x = false) ∧ (c' = c ∨ c' = mb.length) := by
  obtain ⟨h1, h2⟩ := scanFrom_inr ty _ _ _ _ h
  constructor
  · intro x hx
    rw [← List.take_append_drop c mb] at hx
    rcases List.mem_append.mp hx with hx | hx
    · exact hs.rejected x hx
    · exact accepts_false_of_type ty f x (h1 x hx)
  · by_cases hd : mb.drop c = []
    · simp [hd] at h2; exact Or.inl h2
    · simp [hd] at h2
      right
      have := hs.le
      omega

end QM.Exec
